"""Per-property check specifications: one module lib/specs/<id>.py each, defining SPEC (see
vlib.standard_check for the keys) and optionally SPEC["run"] = custom function(spec, tier, seed)."""
import importlib, os, sys
_d = os.path.join(os.path.dirname(os.path.abspath(__file__)), "specs")
sys.path.insert(0, _d)
SPECS = {}
for _f in sorted(os.listdir(_d)):
    if _f.startswith("C") and _f.endswith(".py"):
        SPECS[_f[:-3]] = importlib.import_module(_f[:-3]).SPEC
