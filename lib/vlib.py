"""Shared machinery for the /verif checks.

One check run (see DESIGN.md section 2):
  1. proof obligations: (re)build the Coq cone of Properties/<id>.v, re-run coqc on the property
     file to collect the Print Assumptions output, scan the development for forbidden words;
  2. rebuild the implementation-side driver from /repo's current working tree (go build, with the
     -overlay that makes pkg/sleep assemble on this toolchain when the driver needs the stack);
  3. correspondence: the driver runs the implementation on generated inputs / histories and
     prints one Coq term per case (inputs + what the implementation did); the cases are written
     as shards of a cases.v and evaluated inside Coq by vm_compute with Corr/<id>.v's [judge]
     (model result vs implementation result, spec monitor on the implementation's result, tag);
  4. verdict, evidence, replay files, known findings.
"""
import concurrent.futures
import fcntl
import hashlib
import json
import os
import re
import shutil
import subprocess
import sys
import tempfile
import time

VERIF = os.path.dirname(os.path.dirname(os.path.abspath(__file__)))
COQ = os.path.join(VERIF, "coq")
HARNESS = os.path.join(VERIF, "harness")
REPO = os.environ.get("VERIF_REPO", "/repo")
NCPU = min(16, os.cpu_count() or 4)
# evidence/ and replays/ of runs against a scratch tree (VERIF_REPO set) go elsewhere, so that the
# committed evidence always comes from /repo itself
OUT = VERIF if REPO == "/repo" else os.environ.get("VERIF_OUT", "/tmp/verif-out-" + hashlib.sha1(REPO.encode()).hexdigest()[:8])

GOENV = dict(os.environ, GOFLAGS="-mod=mod", GOPROXY="off", GOSUMDB="off", GOTOOLCHAIN="local",
             CGO_ENABLED="0")

FORBIDDEN = re.compile(
    r"\b(Admitted|admit|Axiom|Axioms|Parameter|Parameters|Conjecture|Conjectures|"
    r"Admit Obligations|Unset Guard Checking|Unset Positivity Checking|Unset Universe Checking|"
    r"bypass_check|type-in-type|impredicative-set|native_compute)\b")
# section-local Variable/Hypothesis are allowed only inside a Section; checked separately.

ALLOWED_AXIOMS = set()  # stdlib axioms that a theorem may depend on; none are needed so far


def log(msg):
    print(msg, flush=True)


def sh(cmd, cwd=None, env=None, timeout=None, check=False):
    p = subprocess.run(cmd, cwd=cwd, env=env, timeout=timeout, shell=isinstance(cmd, str),
                       stdout=subprocess.PIPE, stderr=subprocess.STDOUT, text=True)
    if check and p.returncode != 0:
        raise RuntimeError("command failed (%s): %s\n%s" % (p.returncode, cmd, p.stdout[-4000:]))
    return p.returncode, p.stdout


# --------------------------------------------------------------------------- proofs

def strip_comments(src):
    out, depth, i = [], 0, 0
    while i < len(src):
        if src.startswith("(*", i):
            depth += 1
            i += 2
        elif src.startswith("*)", i) and depth:
            depth -= 1
            i += 2
        else:
            if depth == 0:
                out.append(src[i])
            i += 1
    return "".join(out)


def scan_forbidden(coqdir):
    """grep the whole development (comments stripped) for forbidden constructs."""
    bad = []
    for root, _, files in os.walk(coqdir):
        for f in files:
            if not f.endswith(".v"):
                continue
            path = os.path.join(root, f)
            src = strip_comments(open(path).read())
            for m in FORBIDDEN.finditer(src):
                bad.append("%s: %s" % (os.path.relpath(path, coqdir), m.group(0)))
            # Variable / Hypothesis / Context outside a Section
            depth = 0
            for line in src.splitlines():
                s = line.strip()
                if re.match(r"Section\s+\w+", s):
                    depth += 1
                elif re.match(r"End\s+\w+", s) and depth:
                    depth -= 1
                elif depth == 0 and re.match(r"(Variable|Variables|Hypothesis|Hypotheses|Context)\b", s):
                    bad.append("%s: %s outside a Section" % (os.path.relpath(path, coqdir), s.split()[0]))
    return bad


def coq_lock():
    f = open(os.path.join(COQ, ".build.lock"), "w")
    fcntl.flock(f, fcntl.LOCK_EX)
    return f


def ensure_makefile(coqdir):
    """_CoqProject lists every .v file under Base/ Model/ Proofs/ Properties/ Corr/ (regenerated when
    the set of files changes); the Makefile is regenerated with it."""
    files = []
    for d in ("Base", "Model", "Proofs", "Properties", "Corr"):
        dd = os.path.join(coqdir, d)
        if os.path.isdir(dd):
            files += sorted(os.path.join(d, f) for f in os.listdir(dd) if f.endswith(".v"))
    want = "-Q . NP\n" + "\n".join(files) + "\n"
    cp = os.path.join(coqdir, "_CoqProject")
    mk = os.path.join(coqdir, "Makefile")
    if not os.path.exists(cp) or open(cp).read() != want:
        open(cp, "w").write(want)
    if not os.path.exists(mk) or os.path.getmtime(mk) < os.path.getmtime(cp):
        sh("coq_makefile -f _CoqProject -o Makefile", cwd=coqdir, check=True)


def build_proofs(prop_id, targets, tier):
    """Returns dict(ok, obligations, discharged, theorems, assumptions, log, failing)."""
    res = dict(ok=False, obligations=0, discharged=0, theorems=[], assumptions={}, log="", failing=None,
               checker_cmd="")
    coqdir = COQ
    tmp_clean = None
    lock = coq_lock()
    try:
        if tier == "thorough":
            # clean rebuild + coqchk in a private copy, so concurrent checks are not disturbed
            tmp_clean = tempfile.mkdtemp(prefix="verif-coq-")
            coqdir = os.path.join(tmp_clean, "coq")
            shutil.copytree(COQ, coqdir, ignore=shutil.ignore_patterns(
                "*.vo", "*.vok", "*.vos", "*.glob", "*.aux", ".*.aux", "Makefile", "Makefile.conf",
                ".Makefile.d", ".build.lock", ".lia.cache", ".nia.cache"))
            lock.close()
            lock = None
        bad = scan_forbidden(coqdir)
        if bad:
            res["log"] = "forbidden constructs: " + "; ".join(bad[:10])
            res["failing"] = "forbidden-construct-scan"
            return res
        ensure_makefile(coqdir)
        propfile = "Properties/%s.v" % prop_id
        tg = " ".join(t for t in targets)
        cmd = "timeout 3000 make -j%d %s" % (NCPU, tg)
        rc, out = sh(cmd, cwd=coqdir)
        res["checker_cmd"] = "cd coq && " + cmd
        if rc != 0:
            res["log"] = out[-6000:]
            m = re.search(r'File "\./([^"]+)", line (\d+)', out)
            res["failing"] = "coqc failed in %s line %s" % (m.group(1), m.group(2)) if m else "make failed"
            return res
        # re-run coqc on the property file alone to collect Print Assumptions on every run
        with tempfile.TemporaryDirectory(prefix="verif-pa-") as td:
            cmd2 = "timeout 900 coqc -Q . NP %s -o %s/%s.vo" % (propfile, td, prop_id)
            rc, out = sh(cmd2, cwd=coqdir)
        res["checker_cmd"] += " && " + cmd2.replace(td, "$TMP")
        if rc != 0:
            res["log"] = out[-6000:]
            res["failing"] = "coqc failed on " + propfile
            return res
        src = strip_comments(open(os.path.join(coqdir, propfile)).read())
        theorems = re.findall(r"^\s*(?:Theorem|Corollary)\s+([\w']+)", src, re.M)
        printed = re.findall(r"Print Assumptions\s+([\w'.]+)\s*\.", src)
        # every theorem must be followed by a Print Assumptions and be closed by `exact`
        blocks = re.split(r"(?m)^(?=Closed under the global context|Axioms:)", out)
        blocks = [b for b in blocks if b.startswith("Closed under") or b.startswith("Axioms:")]
        res["theorems"] = theorems
        res["obligations"] = len(theorems)
        missing = [t for t in theorems if t not in printed]
        if missing or len(blocks) != len(printed):
            res["log"] = "Print Assumptions missing for %s (blocks %d, printed %d)" % (missing, len(blocks), len(printed))
            res["failing"] = "print-assumptions-coverage"
            return res
        disc = 0
        for name, blk in zip(printed, blocks):
            if blk.startswith("Closed under"):
                res["assumptions"][name] = "Closed under the global context"
                disc += 1 if name in theorems else 0
            else:
                axs = re.findall(r"^([\w'.]+)\s*:", blk, re.M)
                res["assumptions"][name] = "Axioms: " + ", ".join(axs)
                if all(a.split(".")[-1] in ALLOWED_AXIOMS for a in axs):
                    disc += 1 if name in theorems else 0
                else:
                    res["failing"] = "theorem %s depends on axioms %s" % (name, axs)
        res["discharged"] = disc
        if tier == "thorough" and res["failing"] is None:
            vo = propfile[:-2] + ".vo"
            cmd3 = "timeout 3000 coqchk -silent -o -Q . NP %s" % vo
            rc, out3 = sh(cmd3, cwd=coqdir)
            res["checker_cmd"] += " && " + cmd3
            res["coqchk"] = out3[-3000:]
            if rc != 0:
                res["failing"] = "coqchk rejected " + vo
                res["log"] = out3[-6000:]
                return res
        res["ok"] = res["failing"] is None and disc == len(theorems)
        if not res["ok"] and res["failing"] is None:
            res["failing"] = "undischarged obligations"
        return res
    finally:
        if lock:
            lock.close()
        if tmp_clean:
            shutil.rmtree(tmp_clean, ignore_errors=True)


# --------------------------------------------------------------------------- implementation side

def sleep_overlay(tmpdir):
    """Overlay that makes pkg/sleep build on this toolchain (see DESIGN 3.1); regenerated from the
    current /repo files on every run.  Returns (overlay dict, error or None)."""
    ov = {}
    sdir = os.path.join(REPO, "pkg/sleep")
    src_path = os.path.join(sdir, "sleep_unsafe.go")
    try:
        src = open(src_path).read()
        noasm = open(os.path.join(sdir, "commit_noasm.go")).read()
    except OSError as e:
        return ov, "pkg/sleep sources missing: %s" % e
    a1 = "func gopark(unlockf func(uintptr, *uintptr) bool, wg *uintptr, reason string, traceEv byte, traceskip int)"
    a2 = 'gopark(commitSleep, &s.waitingG, "sleeper", traceEvGoBlockSelect, 0)'
    if a1 not in src or a2 not in src:
        return ov, "sleep_unsafe.go: gopark anchors not found (cannot adapt to this Go toolchain)"
    src = src.replace(a1, "func gopark(unlockf func(uintptr, *uintptr) bool, wg *uintptr, reason uint8, traceEv uint8, traceskip int)")
    src = src.replace(a2, "gopark(commitSleep, &s.waitingG, 9, 3, 0)")
    src = re.sub(r"(?m)^\s*traceEvGoBlockSelect\s*=.*$", "", src)
    src = re.sub(r"(?m)^const\s+traceEvGoBlockSelect\s*=.*$", "", src)
    p1 = os.path.join(tmpdir, "ov_sleep_unsafe.go")
    open(p1, "w").write(src)
    ov[src_path] = p1
    # pure-Go commitSleep: the body of the repo's own commit_noasm.go without its build tag
    body = re.sub(r"(?m)^//\s*\+build.*$", "", noasm)
    body = re.sub(r"(?m)^//go:build.*$", "", body)
    p2 = os.path.join(tmpdir, "ov_commit_asm.go")
    open(p2, "w").write(body)
    ov[os.path.join(sdir, "commit_asm.go")] = p2
    ov[os.path.join(sdir, "commit_amd64.s")] = ""
    ov[os.path.join(sdir, "commit_arm64.s")] = ""
    ov[os.path.join(sdir, "commit_noasm.go")] = ""
    return ov, None


def build_driver(name, tmpdir, overlay=None, race=False, extra_overlay=None):
    """go build of harness/cmd/<name> against /repo's working tree.  Returns (path, error)."""
    out = os.path.join(tmpdir, name)
    # private go.mod whose replace directive points at the tree under test (normally /repo)
    modfile = os.path.join(tmpdir, "go.mod")
    gm = open(os.path.join(HARNESS, "go.mod")).read().replace("=> /repo", "=> " + REPO)
    open(modfile, "w").write(gm)
    try:
        shutil.copyfile(os.path.join(REPO, "go.sum"), os.path.join(tmpdir, "go.sum"))
    except OSError:
        open(os.path.join(tmpdir, "go.sum"), "w").close()
    cmd = ["go", "build", "-modfile=" + modfile]
    env = dict(GOENV)
    if race:
        cmd.append("-race")
        env["CGO_ENABLED"] = "1"
    ov = {}
    if overlay:
        o, err = sleep_overlay(tmpdir)
        if err:
            return None, err
        ov.update(o)
    if extra_overlay:
        ov.update(extra_overlay)
    if ov:
        ovp = os.path.join(tmpdir, "overlay_%s.json" % name)
        json.dump({"Replace": ov}, open(ovp, "w"))
        cmd += ["-overlay", ovp]
    cmd += ["-o", out, "./cmd/" + name]
    rc, o = sh(cmd, cwd=HARNESS, env=env, timeout=1200)
    if rc != 0:
        return None, "go build failed for %s:\n%s" % (name, o[-3000:])
    return out, None


def run_driver(path, args, timeout=1200, env=None):
    p = subprocess.run([path] + [str(a) for a in args], stdout=subprocess.PIPE, stderr=subprocess.PIPE,
                       text=True, timeout=timeout, env=env)
    return p.returncode, p.stdout, p.stderr


# --------------------------------------------------------------------------- model side (in Coq)

class _Slot:
    """Cross-process cap on concurrently running coqc evaluations (16 slots, flock on lock files), so
    that several checks running at the same time do not oversubscribe the machine."""

    def __enter__(self):
        d = "/tmp/verif-slots"
        os.makedirs(d, exist_ok=True)
        while True:
            for i in range(NCPU):
                f = open(os.path.join(d, "slot_%d" % i), "w")
                try:
                    fcntl.flock(f, fcntl.LOCK_EX | fcntl.LOCK_NB)
                    self.f = f
                    return self
                except OSError:
                    f.close()
            time.sleep(0.2)

    def __exit__(self, *a):
        self.f.close()


def _eval_shard(args):
    with _Slot():
        return _eval_shard1(args)


def _eval_shard1(args):
    idx, lines, corr_module, tmpdir, extra_imports, width = args
    path = os.path.join(tmpdir, "cases_%d.v" % idx)
    with open(path, "w") as f:
        f.write("From Coq Require Import ZArith List String.\n")
        f.write("From NP Require Import %s.\n" % corr_module)
        for imp in extra_imports:
            f.write(imp + "\n")
        f.write("Import ListNotations.\nOpen Scope Z_scope.\n")
        f.write("Definition cases : list case := [\n")
        f.write(";\n".join("(" + l + ")" for l in lines))
        f.write("\n].\n")
        f.write("Definition R := Eval vm_compute in judge_all cases.\nPrint R.\n")
    rc, out = sh(["timeout", "1800", "coqc", "-Q", COQ, "NP", path], cwd=tmpdir)
    if rc != 0:
        return idx, None, (out[-3000:] or "coqc exited with status %d and no output (timeout?)" % rc)
    m = re.search(r"R\s*=\s*(.*?)\n\s*:\s*list Z", out, re.S)
    if not m:
        return idx, None, "cannot parse coqc output: " + out[-2000:]
    nums = [int(x) for x in re.findall(r"-?\d+", m.group(1))]
    if len(nums) != width * len(lines):
        return idx, None, "judge returned %d numbers for %d cases" % (len(nums), len(lines))
    return idx, nums, None


def judge_cases(lines, corr_module, tmpdir, shard=2000, extra_imports=(), width=3):
    """Evaluates judge on every case inside Coq (vm_compute).  Returns (list of tuples, error)."""
    shards = [lines[i:i + shard] for i in range(0, len(lines), shard)]
    jobs = [(i, s, corr_module, tmpdir, list(extra_imports), width) for i, s in enumerate(shards)]
    results = [None] * len(shards)
    with concurrent.futures.ThreadPoolExecutor(max_workers=NCPU) as ex:
        for idx, nums, err in ex.map(_eval_shard, jobs):
            if err:
                return None, "coqc evaluation of shard %d failed: %s" % (idx, err)
            results[idx] = nums
    flat = []
    for nums in results:
        for i in range(0, len(nums), width):
            flat.append(tuple(nums[i:i + width]))
    return flat, None


# --------------------------------------------------------------------------- verdicts

def load_known():
    p = os.path.join(VERIF, "known_findings.json")
    if not os.path.exists(p):
        return []
    return json.load(open(p))["findings"]


def write_evidence(prop_id, ev):
    os.makedirs(os.path.join(OUT, "evidence"), exist_ok=True)
    p = os.path.join(OUT, "evidence", prop_id + ".json")
    json.dump(ev, open(p, "w"), indent=1)
    return p


def write_replay(prop_id, seed, payload):
    os.makedirs(os.path.join(OUT, "replays"), exist_ok=True)
    h = hashlib.sha1(json.dumps(payload, sort_keys=True).encode()).hexdigest()[:8]
    p = os.path.join(OUT, "replays", "%s-%s-%s.json" % (prop_id, seed, h))
    json.dump(payload, open(p, "w"), indent=1)
    return p


class Result:
    """Accumulates what a run found; turns it into output lines, evidence and exit status."""

    def __init__(self, prop_id, tier, seed):
        self.prop_id, self.tier, self.seed = prop_id, tier, seed
        self.t0 = time.time()
        self.violations = []      # (what, replay payload, has_failing_input)
        self.known_seen = {}      # pattern name -> example
        self.coverage = {}
        self.assumptions = []

    def violation(self, what, payload, failing_input=True):
        self.violations.append((what, payload, failing_input))

    def finish(self, proof):
        cov = self.coverage
        cov.setdefault("obligations", proof.get("obligations", 0))
        cov.setdefault("discharged", proof.get("discharged", 0))
        cov.setdefault("checker_cmd", proof.get("checker_cmd", ""))
        cov.setdefault("theorems", proof.get("theorems", []))
        cov.setdefault("print_assumptions", proof.get("assumptions", {}))
        if "coqchk" in proof:
            cov["coqchk_tail"] = proof["coqchk"][-800:]
        rc = 0
        for pat, ex in sorted(self.known_seen.items()):
            log("KNOWN-FINDING: property=%s %s" % (self.prop_id, ex))
        reported = 0
        for what, payload, has_input in self.violations[:5]:
            payload = dict(payload, property=self.prop_id, what=what, tier=self.tier, seed=self.seed,
                           rerun="cd /verif && VERIF_SEED=%s ./check %s --tier %s" % (self.seed, self.prop_id, self.tier))
            path = write_replay(self.prop_id, self.seed, payload)
            log("VIOLATION property=%s replay=%s%s" % (self.prop_id, path, "" if has_input else " no-failing-input-found"))
            reported += 1
            rc = 1
        ev = dict(property_id=self.prop_id, tier=self.tier, seed=self.seed, level="proof",
                  coverage=cov, assumptions=self.assumptions, wall_s=round(time.time() - self.t0, 2),
                  violations=len(self.violations))
        p = write_evidence(self.prop_id, ev)
        log("%s tier=%s seed=%s: %s; obligations %s/%s; %s cases vs implementation, %s distinct non-trivial; %.1fs; evidence %s" % (
            self.prop_id, self.tier, self.seed, "FAIL" if rc else "ok", cov.get("discharged"), cov.get("obligations"),
            cov.get("evaluations"), cov.get("distinct_nontrivial"), time.time() - self.t0, p))
        return rc


def standard_check(spec, tier, seed):
    """The common flow for a property whose correspondence is 'driver prints cases, Coq judges'.

    spec keys: id, targets, corr, driver, overlay(bool), args(tier, seed)->list, search_args(seed)->list,
    patterns {code: name}, rule, trusted_base, assumptions, shard, (optional) extra_overlay(tmpdir)->dict,
    (optional) post(res, lines, judged)."""
    pid = spec["id"]
    res = Result(pid, tier, seed)
    res.assumptions = spec.get("assumptions", [])
    known = {k["pattern"]: k for k in load_known() if k["property"] == pid and k["status"] == "known"}
    proof = build_proofs(pid, spec["targets"], tier)
    if not proof["ok"]:
        res.violation("proof obligation no longer checks: %s" % proof["failing"],
                      dict(kind="proof", theorem_or_file=proof["failing"], log=proof["log"][-3000:]), False)
    tmpdir = tempfile.mkdtemp(prefix="verif-%s-" % pid)
    try:
        cov = res.coverage
        cov["trusted_base"] = spec.get("trusted_base", [])
        cov["rule"] = spec.get("rule", "")
        extra = spec["extra_overlay"](tmpdir) if "extra_overlay" in spec else None
        drv, err = build_driver(spec["driver"], tmpdir, overlay=spec.get("overlay", False), extra_overlay=extra)
        if err:
            res.violation("implementation side does not build: correspondence %s cannot be checked" % spec["corr"],
                          dict(kind="build", correspondence=spec["corr"], log=err), False)
            cov.update(evaluations=0, distinct_nontrivial=0, samples=[], traces_validated_against_impl=0)
            return res.finish(proof)

        def run(args):
            rc, out, errout = run_driver(drv, args, timeout=spec.get("timeout", 1500))
            lines = [l for l in out.splitlines() if l and not l.startswith("#")]
            meta = [l for l in out.splitlines() if l.startswith("#")]
            return rc, lines, meta, errout

        rc, lines, meta, errout = run(spec["args"](tier, seed))
        if rc != 0:
            res.violation("driver %s failed (exit %s): the implementation crashed or the harness broke" % (spec["driver"], rc),
                          dict(kind="driver", correspondence=spec["corr"], stderr=errout[-3000:], last_cases=lines[-5:]), False)
            cov.update(evaluations=len(lines), distinct_nontrivial=0, samples=lines[:3], traces_validated_against_impl=0)
            return res.finish(proof)
        corpus = load_corpus(pid)
        all_lines = corpus + lines
        judged, err = judge_cases(all_lines, spec["corr"], tmpdir, shard=spec.get("shard", 2000))
        if err:
            res.violation("model evaluation failed: %s" % err[:300], dict(kind="judge", log=err), False)
            cov.update(evaluations=len(all_lines), distinct_nontrivial=0, samples=all_lines[:3], traces_validated_against_impl=0)
            return res.finish(proof)
        mism, viol = classify(res, spec, all_lines, judged, known)
        if mism and not viol:
            # correspondence broken, no property violation among those cases: search wider
            log("correspondence %s broken on %d case(s); searching for a property-violating input" % (spec["corr"], len(mism)))
            found = False
            for k in range(spec.get("search_rounds", 3)):
                rc2, l2, _, _ = run(spec["search_args"](seed * 1000 + k + 1))
                if rc2 != 0 or not l2:
                    continue
                j2, err2 = judge_cases(l2, spec["corr"], tmpdir, shard=spec.get("shard", 2000))
                if err2:
                    continue
                m2, v2 = classify(res, spec, l2, j2, known, record_mismatch=False)
                if v2:
                    found = True
                    break
            if not found:
                i = mism[0]
                res.violation("correspondence %s no longer checks (model and implementation differ) and no property-violating input was found" % spec["corr"],
                              dict(kind="correspondence", correspondence=spec["corr"], case=all_lines[i], judge=list(judged[i]),
                                   mismatching_cases=[all_lines[j] for j in mism[:10]], n_mismatching=len(mism)), False)
        nontriv = set(l for l, j in zip(all_lines, judged) if j[2] != 0)
        tags = {}
        for l, j in zip(all_lines, judged):
            tags[j[2]] = tags.get(j[2], 0) + 1
        cov.update(evaluations=len(all_lines), distinct_nontrivial=len(nontriv),
                   traces_validated_against_impl=len(all_lines) - len(mism),
                   samples=sample(all_lines), tag_histogram={str(k): v for k, v in sorted(tags.items())},
                   corpus_cases=len(corpus), driver_meta=meta[:20],
                   mismatches=len(mism), spec_violations=len(viol), exhaustive=False)
        if "post" in spec:
            spec["post"](res, all_lines, judged)
        # further correspondence phases (another driver / Corr module contributing to the same property)
        for ph in spec.get("extra_phases", []):
            extra2 = ph["extra_overlay"](tmpdir) if "extra_overlay" in ph else None
            drv2, err2 = build_driver(ph["driver"], tmpdir, overlay=ph.get("overlay", False), extra_overlay=extra2)
            info = dict(driver=ph["driver"], corr=ph["corr"])
            cov.setdefault("phases", {})[ph["name"]] = info
            if err2:
                res.violation("implementation side does not build: correspondence %s cannot be checked" % ph["corr"],
                              dict(kind="build", correspondence=ph["corr"], log=err2), False)
                continue
            rc2, out2, errout2 = run_driver(drv2, ph["args"](tier, seed), timeout=ph.get("timeout", 1500))
            l2 = [l for l in out2.splitlines() if l and not l.startswith("#")]
            if rc2 != 0 or not l2:
                res.violation("driver %s failed (exit %s)" % (ph["driver"], rc2),
                              dict(kind="driver", correspondence=ph["corr"], stderr=errout2[-2000:]), False)
                continue
            j2, e2 = judge_cases(l2, ph["corr"], tmpdir, shard=ph.get("shard", 2000))
            if e2:
                res.violation("model evaluation failed: %s" % e2[:300], dict(kind="judge", log=e2), False)
                continue
            sp2 = dict(spec, corr=ph["corr"], patterns=ph.get("patterns", {}))
            m2, v2 = classify(res, sp2, l2, j2, known)
            if m2 and not v2 and "search_args" in ph:
                log("correspondence %s broken on %d case(s); searching for a property-violating input" % (ph["corr"], len(m2)))
                for k in range(ph.get("search_rounds", 3)):
                    rc3, out3, _ = run_driver(drv2, ph["search_args"](seed * 1000 + k + 1), timeout=ph.get("timeout", 1500))
                    l3 = [l for l in out3.splitlines() if l and not l.startswith("#")]
                    if rc3 != 0 or not l3:
                        continue
                    j3, e3 = judge_cases(l3, ph["corr"], tmpdir, shard=ph.get("shard", 2000))
                    if e3:
                        continue
                    _, v2 = classify(res, sp2, l3, j3, known, record_mismatch=False)
                    if v2:
                        break
            if m2 and not v2:
                i = m2[0]
                res.violation("correspondence %s no longer checks (model and implementation differ) and no property-violating input was found" % ph["corr"],
                              dict(kind="correspondence", correspondence=ph["corr"], case=l2[i][:20000], judge=list(j2[i]), n_mismatching=len(m2)), False)
            info.update(evaluations=len(l2), distinct_nontrivial=len(set(l for l, j in zip(l2, j2) if j[2] != 0)),
                        mismatches=len(m2), spec_violations=len(v2), samples=[x[:600] for x in sample(l2, 2)])
            cov["evaluations"] += len(l2)
            cov["distinct_nontrivial"] += info["distinct_nontrivial"]
            cov["traces_validated_against_impl"] += len(l2) - len(m2)
        pre = spec.get("pre_obligations")
        if pre:
            # obligations of a second tie (model regenerated from the source by a translator)
            proof["obligations"] = proof.get("obligations", 0) + pre["obligations"]
            proof["discharged"] = proof.get("discharged", 0) + pre["discharged"]
            proof["theorems"] = proof.get("theorems", []) + pre.get("theorems", [])
            proof["checker_cmd"] = proof.get("checker_cmd", "") + " && " + pre.get("checker_cmd", "")
            cov["translator"] = pre.get("info", {})
            if pre.get("broken") and not res.violations:
                res.violation("proof obligation over the model regenerated from the source no longer checks: %s" % pre["broken"],
                              dict(kind="proof", theorem_or_file=pre["broken"], log=pre.get("log", "")[-3000:]), False)
        return res.finish(proof)
    finally:
        shutil.rmtree(tmpdir, ignore_errors=True)


def classify(res, spec, lines, judged, known, record_mismatch=True):
    mism = [i for i, j in enumerate(judged) if j[0] != 0]
    viol = []
    for i, j in enumerate(judged):
        if j[1] == 0:
            continue
        name = spec.get("patterns", {}).get(j[1])
        # a listed finding excuses a case only when the model - which encodes the known mechanism -
        # reproduces the implementation on it; the same symptom with a broken correspondence is not
        # known to be that finding and is reported with the case as failing input
        if j[1] >= 2 and name in known and j[0] == 0:
            if name not in res.known_seen:
                res.known_seen[name] = "%s: %s [e.g. %s]" % (name, known[name]["what"], lines[i])
            continue
        viol.append(i)
    for i in viol[:3]:
        res.violation("implementation violates the property on this input (spec monitor code %d%s)" % (
            judged[i][1], ", model %s" % ("agrees with implementation" if judged[i][0] == 0 else "differs")),
            dict(kind="property", case=lines[i], judge=list(judged[i]), correspondence=spec["corr"]), True)
    return mism, viol


def sample(lines, k=6):
    if len(lines) <= k:
        return list(lines)
    step = len(lines) // k
    return [lines[i * step] for i in range(k)]


def load_corpus(pid):
    d = os.path.join(VERIF, "corpus", pid)
    out = []
    if os.path.isdir(d):
        for f in sorted(os.listdir(d)):
            if f.endswith(".case"):
                out += [l.strip() for l in open(os.path.join(d, f)) if l.strip() and not l.startswith("#")]
    return out
