#!/usr/bin/env python3
"""mf.py <id> <level text> <level note> [technique]  — register a property's check in MANIFEST.json"""
import json, sys
pid, text, note = sys.argv[1], sys.argv[2], sys.argv[3]
tech = sys.argv[4] if len(sys.argv) > 4 else "Coq proof on executable model + in-Coq differential correspondence"
p = '/verif/MANIFEST.json'
m = json.load(open(p))
m['checks'] = [c for c in m['checks'] if c['property_id'] != pid]
m['checks'].append({"property_id": pid, "quick_cmd": "./check %s --tier quick" % pid, "thorough_cmd": "./check %s --tier thorough" % pid,
  "evidence_file": "/verif/evidence/%s.json" % pid, "replay_cmd_template": "./check %s --replay {path}" % pid,
  "engine": "coq-model+correspondence",
  "level_claimed": {"category": "proof", "text": text, "design_ref": "DESIGN.md 5 %s" % pid},
  "level_note": note, "technique": tech})
m['checks'].sort(key=lambda c: c['property_id'])
m['not_applicable'] = [n for n in m.get('not_applicable', []) if n['property_id'] != pid]
sp = m['engines'][0]['serves_properties']
if pid not in sp:
    sp.append(pid); sp.sort()
json.dump(m, open(p, 'w'), indent=1)
print("registered", pid, "checks:", [c['property_id'] for c in m['checks']])
