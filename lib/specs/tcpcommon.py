"""Shared by the TCP property specs (C01..C05): overlay-added accessors and the h_tcp driver."""
import os
from common import *
HARNESS_OV = os.path.join(os.path.dirname(os.path.dirname(os.path.dirname(os.path.abspath(__file__)))), "harness", "overlay")


def tcp_overlay(tmpdir):
    import vlib
    return {
        os.path.join(vlib.REPO, "pkg/sleep/zz_verif.go"): os.path.join(HARNESS_OV, "sleep_zz_verif.go.txt"),
        os.path.join(vlib.REPO, "protocol/transport/tcp/zz_verif.go"): os.path.join(HARNESS_OV, "tcp_zz_verif.go.txt"),
        os.path.join(vlib.REPO, "stack/zz_verif_lookup.go"): os.path.join(HARNESS_OV, "stack_zz_verif.go.txt"),
    }


TCP_TB = [KERNEL, CORR_TB,
          "overlay-added read accessors (harness/overlay/*.go.txt) and two harness controls over TIME: the runtime resend timer is stopped after every event and retransmission time-outs are delivered explicitly (VerifFireRTO), so wall-clock time is an input of the trace, as it is of the model",
          "modelled, not verified: rcv.go, snd.go, reno.go, timer.go, the established-state parts of connect.go and endpoint.go (hand-written Gallina model Model/Tcp.v + Model/GoHeap.v, tied by lock-step traces: after every event the full protocol state, the emitted frames and the application result of the implementation are compared with the model's)",
          "not modelled: RTT estimation (oracle value clamped at minRTO), timestamp values, SACK block contents, CUBIC, keepalive; goroutine interleavings inside one endpoint are reduced to one event at a time (the driver waits for the protocol goroutine to park between events)"]
TCP_ASSUME = ["segments are delivered to the endpoint one at a time (each is processed alone by handleSegments)",
              "uint32 sequence arithmetic wraps (written into the model); Go ints are unbounded Z"]
