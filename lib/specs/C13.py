from common import *


def _known(pattern):
    """The generator streams that exhibit a recorded defect are switched on only once the pattern is
    listed in known_findings.json (until then the check of the unchanged tree would report them as
    violations)."""
    import vlib
    return any(k["property"] == "C13" and k["pattern"] == pattern and k["status"] == "known"
               for k in vlib.load_known())


def _args(n, extra=()):
    def f(seed):
        a = ["-seed", seed, "-n", n] + list(extra)
        # IPv6 requests with odd-length non-final views (the shape of the fixed finding
        # C13-echo6-odd-chunk) are generated unconditionally by the driver
        if _known("C13-split-header"):
            a += ["-splithdr"]
        return a
    return f


SPEC = dict(
    id="C13", corr="Corr.C13", driver="h_c13", overlay=True,
    targets=["Properties/C13.vo", "Corr/C13.vo"],
    args=lambda tier, seed: _args(100)(seed) if tier == "quick" else _args(400, ["-all"])(seed),
    search_args=lambda seed: _args(150)(seed),
    shard=400, timeout=1500,
    patterns={3: "C13-split-header"},   # code 2 was C13-echo6-odd-chunk (fixed by /repo 1404d7f): not reused
    rule="a real stack (netx.NewNet: IPv4 + IPv6, one recording NIC, two addresses per family) is pinged: boundary payload lengths (41 values in 0..1472, incl. the 68-byte IPv4 id threshold; thorough: every length 0..1472) for IPv4 and IPv6 as one view and split into views (first view holds the ICMP header; IPv4 and IPv6 splits at odd and even offsets), an IPv6 odd-view stream that is always on (n/2 requests whose echo data arrives in views of which a non-final one has odd length - the shape of the fixed finding C13-echo6-odd-chunk: data in views of 3 + 4 bytes, 1 + 1 + 1 (+ rest), a view of exactly the 48 header bytes followed by an odd data view, all data views odd, random splits kept when a non-final data view is odd; data length 2..1452), then per family n seeded random requests (length 0..1472, 1/3 below 80; identifier / sequence from {0,1,0x7fff,0x8000,0xffff,...} or random; payload random bytes, zeros, 0xff or arithmetic runs; 4 peers, 2 owned destinations) alternating single / multi view; malformed stream: every ICMP length 0..7, 16 other ICMP types per family, wrong request checksum, non-zero code, destinations that are foreign / unassigned / broadcast / multicast / zero, other protocol numbers, link-layer padding behind the datagram, IPv4 options (IHL 6..15), inconsistent IP length fields, a lone fragment; requests sent as two IPv4 fragments (in order and reversed, fragments themselves split into views, some to foreign addresses); gated bursts of 1..30 requests on one endpoint (the link endpoint's OnFrame hook holds the replier goroutine after every reply, the driver releases it with probability 0..7/8 between arrivals, so the exact interleaving of arrivals and replier iterations is part of the case: requests beyond 10 waiting are dropped); free-running bursts of 1..30 (half of them under GOMAXPROCS(1)) closed by sentinel requests; IPv6 back-to-back requests. IPv4 single-shot cases are closed by a sentinel request through the same FIFO. corr: the model's packets equal the observed frames byte for byte (whole IP packet; the IPv4 identification is read from the frame where the code takes it from its counter; free-running bursts: the frames are the model's replies to an order-preserving sub-list of the requests containing each of the first 10). spec: RFC 792 / 4443 monitor with its own one's-complement sum: at most one reply, only to an echo request to an owned address, src/dst swapped, type/code, identifier+sequence+payload equal, ICMP (pseudo-header for v6) and IP header checksums verify, total length, every well-formed request answered when fewer than ten are pending. tag: 1/2 IPv4 answered single / multi view, 3 IPv4 not answered, 4/5/6 same for IPv6, 11 IPv6 answered with an odd-length non-final data view, 7 fragments, 8/9 gated burst without / with a drop, 10 free burst; distinct = distinct case lines",
    trusted_base=[KERNEL, CORR_TB, "Print Assumptions: every C13 theorem is closed under the global context (no axioms)",
                  "modelled, not verified: protocol/network/ipv4/icmp.go (handleICMP, echoRequests channel, echoReplier, sendPing4), protocol/network/ipv6/icmp.go (handleICMP echo branch, icmpChecksum), the inbound path NIC.DeliverNetworkPacket -> ipv4/ipv6 HandlePacket (IsValid, TrimFront, CapLength; reassembly only for two tiling fragments) and ipv4/ipv6 WritePacket (hand-written Gallina model Model/Echo.v on top of Model/HdrIP.v and Model/Checksum.v, tied by the differential run on whole emitted packets)",
                  "the Go channel (FIFO, capacity 10, non-blocking send) and the single replier goroutine are modelled as a list and the ops Arrive / Drain; the gated-burst cases validate exactly that (arrival and reply events in their real order), the free-running ones only what is schedule independent",
                  "driver: sentinel requests delimit IPv4 cases (sound because requests of one endpoint pass through one FIFO channel and one goroutine); the driver's own occupancy count is used only to pick wait times; a panic inside the replier goroutine cannot be recovered by the driver and would show up as a driver crash"],
    assumptions=["bytes are 0..255 and a message is at most 65535 bytes long (views_ok)",
                 "positive theorems are about messages whose first view (as handed up by the link endpoint) holds the ICMP header (6 bytes for IPv4, 8 for IPv6): is_echo_request4/6; without it the request is ignored (C13_echo_split_header_refuted)",
                 "NIC address filter: exact-match endpoints only (no promiscuous mode, subnets, forwarding: property C09)",
                 "the request checksum is not verified by the code (mirrored in the model; the monitor does not require an answer to a corrupted request, nor forbid one)"],
)
