from common import *


def _args(tier, seed):
    if tier == "quick":
        return ["-seed", seed, "-n", 1500, "-maxlen", 40, "-exh", 3, "-exhp", 4, "-conc", 10]
    return ["-seed", seed, "-n", 6000, "-maxlen", 60, "-exh", 4, "-exhp", 6, "-conc", 60]


def _run(spec, tier, seed):
    # per coqc shard: a fixed cost for loading ZArith (1 s on an idle machine, >10 s on a loaded
    # one) + about 3 ms per history to elaborate the case term; vm_compute itself is negligible
    import vlib
    s = dict(spec)
    s["shard"] = 1300 if tier == "quick" else 5000
    return vlib.standard_check(s, tier, seed)


SPEC = dict(
    id="C17", corr="Corr.C17", driver="h_c17", overlay=False,
    targets=["Properties/C17.vo", "Corr/C17.vo"],
    args=_args,
    search_args=lambda seed: ["-seed", seed, "-n", 3000, "-maxlen", 40, "-exh", 0, "-exhp", 0, "-misuse=false"],
    shard=1300, run=_run,
    patterns={},
    rule="sequential histories against the real pkg/waiter Queue, each under a watchdog (hung / panicked are reported, not suffered): "
         "boundary histories; the two contract-violating witness histories of C17_contract_needed_refuted (model-vs-code only, tag 9); "
         "ALL contract-respecting histories of exactly d operations over entries {0,1: function callback, 2: channel entry} x masks {1,2,3} x "
         "{Register, Unregister, Notify, Take} (quick: d=3 unpruned + d=4 pruned; thorough: d=4 unpruned + d=6 pruned = without the no-op moves "
         "Notify-on-empty / Take-without-token and modulo the symmetries function-entry 0<->1 and mask 1<->2; prefixes are covered because an observation is taken after every operation); "
         "seeded random histories of 4..maxlen operations over 3-5 entries of random kinds and 2-4 masks drawn from {1,2,3,4,5,6,0x10,0x8000,0xffff,0} "
         "(30% register, 20% unregister, 30% notify, 5% Events, 5% IsEmpty, 10% take). After every operation: the function-callback log, the return value, "
         "len(ch) of every channel entry, Events() and IsEmpty(). Non-trivial = some callback ran or some channel got a token (tag 1/2; 3/4 if the history also "
         "unregisters; 8 = did not return/panicked); distinct = distinct case lines. "
         "CConc lines (tag 5) are the concurrent variant: 2-6 goroutines x 300 operations on a shared Queue, checked by the driver itself -- a SEARCH AID ONLY, "
         "not part of the proved claim",
    trusted_base=[KERNEL, CORR_TB, "Print Assumptions: every C17 theorem is closed under the global context (no axioms)",
                  "modelled, not verified: pkg/ilist/list.go and pkg/waiter/waiter.go (hand-written Gallina models Model/Ilist.v, Model/Waiter.v, tied by the differential run)",
                  "sync.RWMutex makes every Queue method atomic (each method body runs under q.mu); Go channel semantics for a 1-buffered channel (non-blocking send succeeds iff empty)",
                  "the concurrent variant's checker (harness/cmd/h_c17/conc.go) is unverified Go and only searches for counterexamples"],
    assumptions=["API contract of waiter.Entry ('can only be in one queue at a time'): EventRegister only on an unregistered entry, EventUnregister only on a registered one; "
                 "without it the property is false of the code (C17_contract_needed_refuted, both witnesses replayed against the real code on every run)",
                 "callbacks do not call methods of the queue (EntryCallback contract)",
                 "channel entries are created by NewChannelEntry(nil) (capacity 1), as everywhere in the repository",
                 "the statement over schedules is reduced to the statement over histories by the atomicity of the methods (trusted), not proved"],
)
