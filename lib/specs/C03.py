from tcpcommon import *

SPEC = dict(
    id="C03", corr="Corr.C03", driver="h_c03", overlay=True, extra_overlay=tcp_overlay,
    targets=["Properties/C03.vo", "Corr/C03.vo"],
    args=lambda tier, seed: ["-seed", seed, "-n", 300 if tier == "quick" else 6000],
    search_args=lambda seed: ["-seed", seed, "-n", 600],
    shard=120, timeout=2400,
    patterns={2: "C03-cookie-lowbits"},
    rule="seeded scenarios against the real stack with a scripted raw peer: active opens (ISS through the deterministic crypto/rand reader, values adjacent to 0, 2^31, 2^32 and random; 1-6 scripted inbound segments: correct SYN-ACK, SYN-ACK/ACK with wrong acknowledgement numbers iss+{0,2,-1,2^16,2^31,2^31-1,random}, RSTs acceptable or not, bare SYN (simultaneous open), ACK-only, SYN with another sequence number, odd flags; peer SYN option encodings none/each/all/padded/unknown/malformed), passive opens in normal mode (SYN, then segments to the half-open endpoint, synchronised by a marker segment), SYN-cookie mode (SynRcvdCountThreshold=0; exact, near and far acknowledgement numbers, wrong peer sequence number), segments to ports nobody listens on (all 64 flag combinations), odd flag combinations to a listener; a case is non-trivial unless it is a stray RST (tag 0); distinct = distinct case lines",
    trusted_base=[KERNEL, CORR_TB,
                  "overlay-added read accessors (harness/overlay/tcp_zz_verif.go.txt: VerifSegWakerParked, VerifConnInfo) and the deterministic crypto/rand reader (harness/aadet)",
                  "SHA-1 (cookieHash) is abstract: the cookie theorems hold for every hash function H; in the correspondence the hash is not observable and any H consistent with the issued cookie is used (DESIGN C03)",
                  "modelled, not verified: connect.go handshake.*, accept.go listener and cookies, protocol.go replyWithReset (hand-written Gallina model Model/TcpHs.v, tied by the differential run)"],
    assumptions=["handshake segments are processed one at a time", "the SYN retransmission timer (1 s) does not fire during a script (scripts take milliseconds)"],
)
