from common import *

SPEC = dict(
    id="C15", corr="Corr.C15", driver="h_c15", overlay=False,
    targets=["Properties/C15.vo", "Corr/C15.vo"],
    args=lambda tier, seed: ["-seed", seed, "-tier", tier],
    search_args=lambda seed: ["-seed", seed, "-tier", "search"],
    shard=400,
    patterns={},
    rule="",
    trusted_base=[KERNEL, CORR_TB],
    assumptions=[],
)
