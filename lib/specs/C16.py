from common import *

SPEC = dict(
    id="C16", corr="Corr.C16", driver="h_c16", overlay=False,
    targets=["Properties/C16.vo", "Corr/C16.vo"],
    args=lambda tier, seed: (["-seed", seed, "-n", 3000, "-exhbytes", 2, "-exhlen", 1] if tier == "quick"
                             else ["-seed", seed, "-n", 30000, "-exhbytes", 3, "-exhlen", 3]),
    search_args=lambda seed: ["-seed", seed, "-n", 6000],
    shard=400,
    patterns={},
    rule="seeded random histories over the real pkg/buffer: VectorisedView over 0-10 chunks (sub-slices with spare capacity, 1/4 of the chunks empty, distinct byte values) x up to 12 operations TrimFront/CapLength (counts -1..size+3, biased to chunk boundaries), RemoveFirst, Clone (nil / too-small / exactly-fitting / roomy buffer) over the original and up to two clones, observing Views() bytes+caps, Size, ToView, First of every live object after every step; single Views under TrimFront/CapLength/NextBytes/re-slices with in-range and out-of-range counts (panics recovered); Prependable Prepend+fill sequences incl. refused and negative sizes; an exhaustive part runs first: every chunking of <=B bytes in <=3 chunks x every sequence of <=L operations TrimFront/CapLength n (n=-1..size+1), RemoveFirst on every live object and one Clone (nil / exactly fitting buffer) (quick B=2 L=1, thorough B=3 L=3). A case is non-trivial when it has at least one operation and (VV) at least one byte; tags 1-4 VV (clone/cap combinations), 5-6 View (with/without panic), 7-8 Prependable; distinct = distinct case lines",
    trusted_base=[KERNEL, CORR_TB, "Print Assumptions: every C16 theorem is closed under the global context (no axioms)",
                  "modelled, not verified: pkg/buffer/view.go, prependable.go (hand-written Gallina model Model/Buffer.v, tied by the differential run)",
                  "Go slice semantics (bounds checks of s[i:j:k], append writing in place when the capacity suffices) as written into the model; the driver's raw re-slice cases test them against the Go runtime"],
    assumptions=["VectorisedViews are well-formed: size = sum of the chunk lengths (NewVectorisedView does not check it; every history starts from a well-formed value)",
                 "buffers handed to Clone do not alias the header array of a live VectorisedView (fresh or nil buffers)",
                 "byte arrays are not written while views of them are observed (the package itself never writes bytes; Prependable regions are written by the caller and modelled)",
                 "int is unbounded (no 64-bit overflow of sizes)"],
)


def _run(spec, tier, seed):
    # larger shards in the thorough tier: fewer coqc start-ups (about 1 GB of memory per shard)
    import vlib
    return vlib.standard_check(dict(spec, shard=400 if tier == "quick" else 800), tier, seed)


SPEC["run"] = _run
