from tcpcommon import *

SPEC = dict(
    id="C05", corr="Corr.C05", driver="h_tcp", overlay=True, extra_overlay=tcp_overlay,
    targets=["Properties/C05.vo", "Corr/C05.vo"],
    args=lambda tier, seed: ["-seed", seed, "-mix", "c05", "-n", 160 if tier == "quick" else 3000, "-events", 40],
    search_args=lambda seed: ["-seed", seed, "-mix", "c05", "-n", 400, "-events", 40],
    shard=4, timeout=2400,
    patterns={2: "C05-dupacks-after-recovery"},
    rule="seeded scripts of <= 40 events against an established connection of the real stack (ISS/IRS adjacent to 0, 2^31, 2^32 and random; peer MSS 20..1460, window scale, timestamps, SACK-permitted, IPv4/IPv6, small/large buffers), event mix c05: writes of 1 byte .. 40*MSS, cumulative / segment-boundary / partial (mid-flight) ACKs, bursts of 1..5 exact duplicate ACKs, retransmission time-outs delivered explicitly (time is an input of the trace), some peer data and reads; after EVERY event the implementation's full protocol state, emitted frames and application result are compared with Model.Tcp.step, and the monitor Corr.C05.spec checks on the implementation's observations alone: <= 10 data segments before the first ACK/time-out; distinct data segments in flight since the last time-out <= 10 + segments acknowledged + duplicate ACKs; the third exact duplicate ACK (first recovery of the trace, or beyond the point of a time-out) retransmits the segment at sndUna in that step; partial ACKs in that recovery retransmit the new head; every real time-out doubles rto and emits at most one data segment - exactly one, at sndUna, when the head was sent before and the peer window covers it; rto >= 200 ms, cwnd >= 1, ssthresh >= 2 in every snapshot; a trace is non-trivial when data segments were emitted (tag bit 1; 2 fast recovery entered, 4 time-out, 8 partial ACK in recovery, 16 cwnd grew, 32 duplicate ACKs beyond a finished fast recovery ignored = known finding C05-dupacks-after-recovery (spec code 2), 64 connection given up); distinct = distinct case lines",
    trusted_base=TCP_TB, assumptions=TCP_ASSUME + [
        "wall-clock time is not part of the traces: the clause 'never sooner than 200 ms after its previous transmission' is covered by theorems on a time-stamped extension of the model (Proofs/TcpCcTimeP.v), not by the monitor",
        "the duplicate-ACK counter D of the bound also counts pure same-window ACKs for the recovery point fr.first during fast recovery; it equals the RFC 5681 count whenever fr.first = sndUna (C05_isDup_strict)"],
)
