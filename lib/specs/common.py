"""Shared strings for the per-property specs."""
KERNEL = "Coq 8.16.1 kernel (coqc; vm_compute used for the in-Coq evaluation of the model on the harness cases and for witnesses; coqchk re-check in the thorough tier); no native_compute"
CORR_TB = "unverified correspondence machinery: Go driver + generator (harness/cmd), Python glue (lib/vlib.py) that writes cases.v and parses coqc's output"
