import os
from common import *

# Read-only accessors added to package stack by the build overlay (never written into /repo):
# the registrations of every transport demultiplexer and the network endpoints of every NIC.
# No logic under test: plain map walks under the owning locks.
_ACCESS = r'''// Added to package stack by the verification overlay of property C09 (never committed to /repo).
// Read access to the demultiplexer tables and the NIC address tables for the correspondence driver.
package stack

import (
	tcpip "github.com/brewlin/net-protocol/protocol"
)

type VerifReg struct {
	NIC   tcpip.NICID
	Net   tcpip.NetworkProtocolNumber
	Trans tcpip.TransportProtocolNumber
	ID    TransportEndpointID
	EP    TransportEndpoint
}

func verifDump(nic tcpip.NICID, d *transportDemuxer, out []VerifReg) []VerifReg {
	for k, eps := range d.protocol {
		eps.mu.RLock()
		for id, ep := range eps.endpoints {
			out = append(out, VerifReg{nic, k.network, k.transport, id, ep})
		}
		eps.mu.RUnlock()
	}
	return out
}

// VerifRegs lists every (demultiplexer, network protocol, transport protocol, id, endpoint).
func (s *Stack) VerifRegs() []VerifReg {
	var out []VerifReg
	out = verifDump(0, s.demux, out)
	s.mu.RLock()
	defer s.mu.RUnlock()
	for id, n := range s.nics {
		out = verifDump(id, n.demux, out)
	}
	return out
}

type VerifAddr struct {
	NIC    tcpip.NICID
	Addr   tcpip.Address
	Proto  tcpip.NetworkProtocolNumber
	Refs   int32
	Insert bool
}

// VerifAddrs lists the network endpoints of every NIC with their reference counts.
func (s *Stack) VerifAddrs() []VerifAddr {
	var out []VerifAddr
	s.mu.RLock()
	defer s.mu.RUnlock()
	for id, n := range s.nics {
		n.mu.RLock()
		for nid, ref := range n.endpoints {
			out = append(out, VerifAddr{id, nid.LocalAddress, ref.protocol, ref.refs, ref.holdsInsertRef})
		}
		n.mu.RUnlock()
	}
	return out
}
'''


def c09_overlay(tmpdir):
    import vlib
    p = os.path.join(tmpdir, "stack_zz_verif_c09.go")
    with open(p, "w") as f:
        f.write(_ACCESS)
    return {os.path.join(vlib.REPO, "stack/zz_verif_c09.go"): p}


def _linger():
    """-linger (remove addresses that routes still reference; tcp SYNs through a promiscuous NIC to a
    listener) is generated only once the pattern is listed in known_findings.json."""
    import vlib
    return any(k["property"] == "C09" and k["pattern"] == "C09-lingering-address" and k["status"] == "known"
               for k in vlib.load_known())


def _args(n):
    def f(seed):
        a = ["-seed", seed, "-n", n]
        if _linger():
            a += ["-linger"]
        return a
    return f


SPEC = dict(
    id="C09", corr="Corr.C09", driver="h_c09", overlay=True, extra_overlay=c09_overlay,
    targets=["Properties/C09.vo", "Corr/C09.vo"],
    args=lambda tier, seed: _args(320 if tier == "quick" else 4000)(seed),
    search_args=lambda seed: _args(600)(seed),
    shard=40, timeout=2400,
    patterns={2: "C09-lingering-address"},
    rule="seeded histories (44 steps after the configuration; every 8th history 12-31 steps) on a fresh real stack with 2 recording NICs (IPv4 + IPv6 + ARP, TCP + UDP; routes 10.0.1/24 -> NIC 1, 10.0.2/24 -> NIC 2, 0/0 and ::/0 -> NIC 1): 0-3 of 3 IPv4 addresses per NIC and sometimes an IPv6 address on NIC 1, AddAddress / RemoveAddress, AddSubnet (contiguous, non-contiguous, /32, /0, IPv6, two malformed), SetPromiscuousMode; up to 9 sockets from {UDP v4 / v6, TCP v4 / v6}: Bind (wildcard / held / unassigned address, NIC 0 / 1 / 2, 4 ports), UDP Connect (bound or unbound with the ephemeral port as oracle input, reconnect, wrong family, port 0), Listen (also where not allowed), re-Bind, Close; raw Stack.RegisterTransportEndpoint / UnregisterTransportEndpoint of 4 recording fake endpoints under all four id shapes, protocol lists [v4] [v6] [v4,v6] [v6,v4] [p,p] [p,unknown], duplicates of live ids (also of real sockets' ids), unknown NIC; 46% of the steps are inbound packets with a unique tag: UDP datagrams and TCP SYN / ACK / RST / RST+ACK segments, 70% aimed at a live registration (wildcard fields filled from the address / port pools, one field perturbed with probability 1/2), 30% drawn from the cross product NIC x {held, other NIC's, unassigned, foreign} destination x ports x sources. Observed per packet: which sockets' Read / fake endpoints' HandlePacket produced the tag, IP.PacketsDelivered, UDP.UnknownPortErrors and TCP.ValidSegmentsReceived deltas, frames that came back (RST / SYN-ACK, addresses and ports mirrored); snapshots of the real demultiplexer tables and NIC address tables (overlay accessors) at random points and at the end of every history. A history is non-trivial when a packet was delivered (tag bit 1), a RST came back (2) or a packet was accepted through promiscuous mode / a subnet (4); distinct = distinct case lines",
    trusted_base=[KERNEL, CORR_TB, "Print Assumptions: every C09 theorem is closed under the global context (no axioms)",
                  "overlay-added read accessors in package stack (VerifRegs, VerifAddrs: map walks under the owning locks, generated by lib/specs/C09.py; no logic under test)",
                  "modelled, not verified: stack/transport_demuxer.go, the inbound half of stack/nic.go (getRef, addAddressLocked, RemoveAddress, DeliverNetworkPacket, DeliverTransportPacket), Stack.RegisterTransportEndpoint / UnregisterTransportEndpoint / FindRoute / CheckLocalAddress, tcpip.Subnet / Route.Match, the specific-port half of ports.go, and the registration behaviour of udp Bind / Connect / Close and tcp Bind / Listen / Close (hand-written Gallina model Model/Demux.v, tied by the differential run: error codes, receivers, replies and table snapshots)",
                  "tcp: which listener took a SYN is observed through the SYN-ACK's addresses and ports and the TCP.ValidSegmentsReceived counter, not through Accept; the driver resets the SYN-RCVD child and waits for the tables to settle; the route reference that the child's Close leaves behind is accounted for in Corr/C09.v (leakRef)",
                  "not modelled: spoofing, forwarding, v4-mapped addresses, IP fragments / ICMP, tcp active opens and established connections, concurrent registration / delivery (each modelled method runs under the owning mutex; histories are sequential)"],
    assumptions=["a packet is given by its parsed fields: valid IP and transport headers, not a fragment (the ipv4 / ipv6 HandlePacket checks pass)",
                 "at most one NIC holds a given address (CheckLocalAddress(0, ...) walks a Go map: the model goes by NIC list order)",
                 "the ephemeral port chosen by PickEphemeralPort is an input of the model (random draw)",
                 "netProtos lists passed to registerEndpoint have no repetition for the all-or-nothing theorem (the endpoint code passes [v4], [v6], [v6,v4], [v4,v6])"],
)
