import os
from common import *

# Read-only accessors added to package stack by the build overlay (never written into /repo):
# the registrations of every transport demultiplexer and the network endpoints of every NIC.
# No logic under test: plain map walks under the owning locks.
_ACCESS = r'''// Added to package stack by the verification overlay of property C09 (never committed to /repo).
// Read access to the demultiplexer tables and the NIC address tables for the correspondence driver.
package stack

import (
	tcpip "github.com/brewlin/net-protocol/protocol"
)

type VerifReg struct {
	NIC   tcpip.NICID
	Net   tcpip.NetworkProtocolNumber
	Trans tcpip.TransportProtocolNumber
	ID    TransportEndpointID
	EP    TransportEndpoint
}

func verifDump(nic tcpip.NICID, d *transportDemuxer, out []VerifReg) []VerifReg {
	for k, eps := range d.protocol {
		eps.mu.RLock()
		for id, ep := range eps.endpoints {
			out = append(out, VerifReg{nic, k.network, k.transport, id, ep})
		}
		eps.mu.RUnlock()
	}
	return out
}

// VerifRegs lists every (demultiplexer, network protocol, transport protocol, id, endpoint).
func (s *Stack) VerifRegs() []VerifReg {
	var out []VerifReg
	out = verifDump(0, s.demux, out)
	s.mu.RLock()
	defer s.mu.RUnlock()
	for id, n := range s.nics {
		out = verifDump(id, n.demux, out)
	}
	return out
}

type VerifAddr struct {
	NIC    tcpip.NICID
	Addr   tcpip.Address
	Proto  tcpip.NetworkProtocolNumber
	Refs   int32
	Insert bool
}

// VerifAddrs lists the network endpoints of every NIC with their reference counts.
func (s *Stack) VerifAddrs() []VerifAddr {
	var out []VerifAddr
	s.mu.RLock()
	defer s.mu.RUnlock()
	for id, n := range s.nics {
		n.mu.RLock()
		for nid, ref := range n.endpoints {
			out = append(out, VerifAddr{id, nid.LocalAddress, ref.protocol, ref.refs, ref.holdsInsertRef})
		}
		n.mu.RUnlock()
	}
	return out
}
'''


def c09_overlay(tmpdir):
    import vlib
    p = os.path.join(tmpdir, "stack_zz_verif_c09.go")
    with open(p, "w") as f:
        f.write(_ACCESS)
    return {os.path.join(vlib.REPO, "stack/zz_verif_c09.go"): p}


SPEC = dict(
    id="C09", corr="Corr.C09", driver="h_c09", overlay=True, extra_overlay=c09_overlay,
    targets=["Properties/C09.vo", "Corr/C09.vo"],
    args=lambda tier, seed: ["-seed", seed, "-n", 320 if tier == "quick" else 4000],
    search_args=lambda seed: ["-seed", seed, "-n", 500],
    shard=24, timeout=2400,
    patterns={},
    rule="",
    trusted_base=[KERNEL, CORR_TB],
    assumptions=[],
)
