from common import *


SPEC = dict(
    id="C06", corr="Corr.C06", driver="h_c06", overlay=True,
    targets=["Properties/C06.vo", "Corr/C06.vo"],
    args=lambda tier, seed: ["-seed", seed, "-n", 1 if tier == "quick" else 8, "-routes", 60 if tier == "quick" else 150],
    search_args=lambda seed: ["-seed", seed, "-n", 1, "-routes", 100],
    shard=90, timeout=2400, search_rounds=2,
    # no known-finding patterns: the former codes 2..4 (C06-udp-zero-checksum, C06-ping6-no-pseudo-header,
    # C06-ndp-solicit-zero-src-mac) were repaired in /repo (723c609, 65b8ba4, 8cee966) and are plain
    # violations now; the driver generates the inputs that exhibited them on every run, ungated
    patterns={},
    rule="every frame captured at the link layer of real stacks driven through a scenario sweep, one case per frame with the scenario's identity "
         "(addresses, ports, MACs): UDP writes of 0/1/2/3/8/9/40/41/odd/even/1472/1473 and, once per run, 65506..65508 (IPv4) / 65526..65528 (IPv6) bytes "
         "from bound/unbound, connected/unconnected sockets; TCP against a scripted peer: passive opens for all 16 combinations of the peer's "
         "MSS/WS/TS/SACK-permitted options (the SYN-ACK mirrors them), active opens for six TS/SACK combinations, then data both ways, pure ACKs, one or "
         "three out-of-order islands (SACK blocks), hole filled, orderly FIN or abort (RST) - IPv4 on a plain link plus eight rotating variants over IPv6, checksum-offload, "
         "resolution-required and fd-based Ethernet (socketpair) links with MTU 576/1500/9000; RSTs to segments for closed ports; ICMPv4/ICMPv6 echo "
         "replies (payload 0,1,2,3,56,57,even,odd); neighbour advertisements and ARP replies; the stack's own ARP requests / neighbour solicitations "
         "followed by datagrams to the resolved next hop (direct and through a gateway; neighbour solicitations also through the fd-based link, whose "
         "Ethernet source must be the NIC's address - regression watch for 8cee966); two NICs with three route tables (first match, not longest "
         "prefix; bound source address; ErrNoRoute); echo requests of the ping transport, IPv4 and IPv6 (IPv6 also over Ethernet), data of "
         "0,1,2,3,8,56,57,odd,even,~1400 bytes (regression watch for 65b8ba4: ICMPv6 checksum with pseudo-header); UDP datagrams whose checksum "
         "computes to zero, six distinct ones per address family and link (10.0.0.1:4568->10.0.0.2:5535 payload c4 60 and searched ones of 2, 3, "
         "even, odd and 1472 bytes; plain link every round, Ethernet once per run): the field must be 0xffff (regression watch for 723c609); CIds = the IPv4 headers of all packets of each IPv4 "
         "scenario's flow; CRoute = Stack.FindRoute on random route tables (0-5 entries, missing NICs, 0.0.0.0/broadcast addresses, NIC filter, "
         "bound local address, empty remote, IPv4/IPv6). Inbound packets are injected as single views. A case is trivial (tag 0) only for a "
         "one-packet flow or an empty route table; distinct = distinct case lines",
    trusted_base=[KERNEL, CORR_TB,
                  "Print Assumptions: every C06 theorem is closed under the global context (no axioms)",
                  "the driver's lossless frame compression (arithmetic-progression runs), checked against the captured bytes before printing",
                  "modelled, not verified: connect.go sendTCP/sendSynTCP/makeSynOptions/makeOptions, udp sendUDP, ipv4/ipv6 WritePacket, ipv4 sendPing4, "
                  "ipv6 icmp.go (echo reply, neighbour advertisement, LinkAddressRequest, icmpChecksum), arp.go, ping sendPing4/sendPing6, fdbased WritePacket, "
                  "stack FindRoute + nic primaryEndpoint/findEndpoint (hand-written Gallina model Model/Emit.v over the shared header/option/checksum "
                  "models, tied by re-encoding every captured frame)",
                  "independent side: Model/Rfc.v (wf_frame) written from the RFC layouts with a plain byte reader and the RFC 1071 sum"],
    assumptions=["buffer.Prependable always has room for the headers (callers reserve r.MaxHeaderLength())",
                 "payloads reach the checksum loops as a single view, or with every non-final view of even length (F7 otherwise; C13)",
                 "route masks are as long as route destinations"],
)
