from common import *

SPEC = dict(
    id="C10", corr="Corr.C10", driver="h_c10", overlay=False,
    targets=["Properties/C10.vo", "Corr/C10.vo"],
    args=lambda tier, seed: (["-seed", seed, "-n", 1500, "-npick", 250, "-conc", 100] if tier == "quick"
                             else ["-seed", seed, "-n", 15000, "-npick", 2500, "-conc", 1000]),
    search_args=lambda seed: ["-seed", seed, "-n", 3000, "-npick", 600],
    shard=130,

    patterns={},
    rule="(a) PickEphemeralPort with a scripted tester (accept exactly port p / error at port q / nothing), math/rand seeded so the start offset is known: boundary lattice (offsets 0,1,16000,16001,49534,49535 x positions 0,1,2,count-2,count-1,count/2 and the five positions around offset+i = 65536) then seeded random (offset, position) pairs, half of them on those boundary positions; (b) histories of 1-40 ReservePort (specific and ephemeral) / ReleasePort (held tuple, held tuple under another network list, random tuple) / IsPortAvailable calls plus 6 closing queries on a fresh PortManager over 4 network lists x 2 transports x 3 addresses + wildcard x 6 ports + ephemeral ports; (c) search aid: snapshots of the reservations held simultaneously by 8 goroutines reserving/releasing concurrently (monitor only, tag 8). Non-trivial = at least one grant (histories) / an acceptable port or a tester error exists or the full scan fails (picks); distinct = distinct case lines",
    trusted_base=[KERNEL, CORR_TB, "Print Assumptions: every C10 theorem is closed under the global context (no axioms)",
                  "modelled, not verified: protocol/ports/ports.go (hand-written Gallina model Model/Ports.v, tied by the differential run); the PortManager mutex is not modelled (sequential semantics of the critical sections; the concurrent run is a search aid only)",
                  "math/rand: the driver reproduces the offset drawn by PickEphemeralPort by re-seeding the global source (rand.Seed(k); Int31n(49536); rand.Seed(k))"],
    assumptions=["tcpip.Address values are compared as Go strings; the model uses an injective integer encoding with the wildcard \"\" = 0",
                 "the random start offset of PickEphemeralPort lies in [0, 49536) (rand.Int31n contract); it is an input of the model",
                 "the correspondence run evaluates the search with the closed form of the probe sequence, proved equal to the modelled arithmetic (pickEphemeralFast_eq)"],
)


def _run(spec, tier, seed):
    """quick: ~15 shards of 130 cases; thorough: shards of 800 (a shard of 800 PickEphemeralPort
    cases evaluates in about 35 s, a shard of 800 histories in about 5 s)."""
    import vlib
    return vlib.standard_check(dict(spec, shard=130 if tier == "quick" else 800), tier, seed)


SPEC["run"] = _run
