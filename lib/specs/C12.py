import os
from common import *
HARNESS_OV = os.path.join(os.path.dirname(os.path.dirname(os.path.dirname(os.path.abspath(__file__)))), "harness", "overlay")


def _overlay(tmpdir):
    """adds stack/zz_verif_c12.go to package stack: constructor for a linkAddrCache with chosen
    ageLimit / resolutionTimeout / attempts, call-through wrappers for its unexported methods and
    read access to `next` (no logic of its own)."""
    import vlib
    return {os.path.join(vlib.REPO, "stack/zz_verif_c12.go"): os.path.join(HARNESS_OV, "c12_stack_zz_verif.go.txt")}


NDP_FINDINGS = (("C12-ndp-solicited-node-not-joined", "-ndpsn"),)


def _finding_flags():
    """Neighbour discovery inputs that exhibit a recorded finding are generated only once the finding is
    listed in known_findings.json (otherwise they would be reported as violations)."""
    import vlib
    known = {k["pattern"] for k in vlib.load_known() if k["property"] == "C12" and k["status"] == "known"}
    return [flag for pat, flag in NDP_FINDINGS if pat in known]


SPEC = dict(
    id="C12", corr="Corr.C12", driver="h_c12", overlay=True, extra_overlay=_overlay,
    targets=["Properties/C12.vo", "Corr/C12.vo"],
    args=lambda tier, seed: (["-seed", seed, "-n", 700, "-ndp", 200, "-hist", 120, "-overflow", 2, "-timers", 90, "-conc", 32] if tier == "quick"
                             else ["-seed", seed, "-n", 12000, "-ndp", 6000, "-hist", 1500, "-overflow", 8, "-timers", 800, "-conc", 48, "-scen", 4]) + _finding_flags(),
    search_args=lambda seed: ["-seed", seed, "-n", 1500, "-ndp", 600, "-hist", 200, "-overflow", 2, "-timers", 150] + _finding_flags(),
    shard=100,
    timeout=2400,
    patterns={2: "C12-ndp-solicited-node-not-joined"},
    rule="(a) CArp: one ARP packet injected into a fresh real stack (recording link endpoint declaring CapabilityResolutionRequired, 'arp' protocol address added, 1-4 IPv4 addresses): lattice of 12 op codes x 7 targets (own, second own, foreign, network, broadcast, zero, sender), one wrong header field at a time (hardware type, protocol type, hlen, plen) for requests and replies, truncation at every length 0..46 and first-view cut at every length 0..30, odd link-address lengths, no arp address; then seeded random packets (own / foreign / one-bit-off / broadcast / random targets and senders, op 1/2/other, 1/4 with a header mutation, trailing bytes, truncation, garbage, link-layer source differing from the sender hardware field); observed: frames handed to the link endpoint (Take) and Stack.GetLinkAddress for sender/target/own/foreign addresses. (b) CCache: histories on the real linkAddrCache (overlay-added constructor, ring of 512): explicit histories of 4-40 add / get (with and without resolver, 4 wakers, static key) / checkLinkRequest(any attempt) / removeWaker over 2-5 keys incl. the zero FullAddress, ageLimit 55 ms with sleeps across expirations; ring overflow (517-519 neighbours, pending resolution and ready entry evicted, overwrites, then look-ups of all); real resolver goroutines (timeout 30 ms, attempts 1-4, ageLimit 75 or 300 ms: replies arriving or not, extra waiters, removeWaker, second resolution). Every operation runs >= 5 ms away from every expiration and timer deadline, its measured time is the model's `now`; histories where the scheduler broke that are dropped and counted in the metadata. (c) CScen (thorough only): UDP write / TCP connect with the real constants to an on-link neighbour / through a gateway / own address / limited broadcast with 0-3 ARP requests unanswered: frames with times, final result. (d) CNdp: one IPv6 packet carrying a neighbour solicitation / advertisement injected (InjectFrom with a link-layer source) into a fresh real stack whose NIC has 1-5 IPv6 addresses, multicast groups only when added explicitly: lattice of solicitations over 8 targets (own, second own, foreign, unspecified, joined solicited-node group, all-nodes, all-ones, the sender) x source (unicast peer, unspecified) x destination (own unicast, solicited-node address of the target, all-nodes) x (no option, matching source link-layer option) x NIC (groups joined, unicast only), 8 malformed / foreign / contradicting option strings; truncation at every length with the payload-length field adjusted or not, first view cut at every length 40..end, 10 multi-view splits, 12 payload-length values; advertisements over 7 targets x up to 6 flag bytes x destination (own, all-nodes, foreign) x 5 option variants, unspecified / equal source; hop limit x code x checksum (valid, off by one) variations, version nibbles, other next headers and 13 other ICMPv6 types, link addresses of unusual length; then seeded random messages with 0-2 mutations (byte, bit, truncation, payload length), random view splits; observed: frames handed to the link endpoint and Stack.GetLinkAddress for source / target / destination / own / foreign addresses. CNdpReq: the stack's own solicitation: ipv6 LinkAddressRequest called directly (7 targets x 4 local addresses, 3 odd link addresses, address lengths 0..30, random), through Stack.GetLinkAddress on an empty cache (4) and through a UDP write to an unresolved IPv6 neighbour (2): the frame on the link endpoint with both link addresses. Solicitations for an own address sent to a solicited-node group the NIC did not join (finding C12-ndp-solicited-node-not-joined) are generated only once the finding is listed in known_findings.json (driver flag -ndpsn; the skipped count is in the metadata); joined multicast targets and link-layer address options that contradict the frame's link source are ordinary cases. Non-trivial = packet of full length delivered to the handler (CArp), a get returned an address or blocked (CCache), every CScen, an IPv6 packet that reaches the ICMPv6 handler (CNdp), a 16-byte target (CNdpReq); distinct = distinct case lines",
    trusted_base=[KERNEL, CORR_TB,
                  "Print Assumptions: every C12 theorem is closed under the global context (no axioms)",
                  "modelled, not verified: protocol/network/ipv6/icmp.go neighbour solicitation / advertisement branches of handleICMP, LinkAddressRequest, ResolveStaticAddress, header/ipv6.go SolicitedNodeAddr (Model/Ndp.v) on top of C13's Model/Echo.v (nic6_deliver = NIC.DeliverNetworkPacket + ipv6 HandlePacket, icmp6Checksum, ip6_write); tied to the code by the differential runs (whole emitted frames and cache look-ups compared)",
                  "modelled, not verified: protocol/header/arp.go, protocol/network/arp/arp.go, the ARP branch of stack/nic.go DeliverNetworkPacket (Model/Arp.v); stack/linkaddrcache.go incl. the resolver goroutine as a transition system (Model/LinkCache.v); stack/route.go Resolve (Model/Resolve.v, used by the scenario correspondence only); tied to the code by the differential runs",
                  "overlay-added file stack/zz_verif_c12.go (harness/overlay/c12_stack_zz_verif.go.txt): constructor with chosen durations, call-through wrappers of add/get/removeWaker/checkLinkRequest, read access to next",
                  "time: the cache model takes `now` as an input; the driver feeds the measured wall-clock time of each operation and keeps operations >= 5 ms from every deadline, so the order of clock comparisons is the same in model and implementation; resolver timer firings are observed through the test resolver's request log, a timer that fires later than 10 ms after its deadline makes the driver drop the history (a silent stop that nothing the driver did explains is re-examined 45 ms later and dropped if the request or notification shows up)",
                  "not modelled: sync.Mutex (operations are atomic steps), the select between timer and done in startAddressResolution when both are ready, the TCP/UDP callers (scenario runs only; for IPv6 only the first solicitation of a resolution is observed); Stack.RemoveWaker (see open problems: its nic==nil test is inverted, so UDP's RemoveWaker is a no-op)"],
    assumptions=["neighbour discovery: the NIC's endpoint table is keyed by the address alone; the model's `locals` lists the IPv6 addresses / groups added to the NIC (the 4-byte IPv4 and 3-byte arp addresses can never equal a 16-byte target); spoofing, promiscuous mode, subnets and forwarding are off; the buffer.Prependable has room for the headers",
                 "FullAddress keys and link addresses are compared as Go values; the cache model uses injective integer encodings (0 = zero value / empty string)",
                 "one time.Now() value per cache operation (the calls inside one critical section are microseconds apart)",
                 "entryState only ever holds its four constants (the 'invalid state' default branches are not represented)",
                 "resolution_budget: the resolver's timers fire on time (punctual schedule res_run); no add for the key, fewer operations than ring slots and attempts*timeout <= ageLimit during the resolution"],
)


def _run(spec, tier, seed):
    """quick: about 10 shards of 100 cases; thorough: shards of 300."""
    import vlib
    return vlib.standard_check(dict(spec, shard=100 if tier == "quick" else 300), tier, seed)


SPEC["run"] = _run
