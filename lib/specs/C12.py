from common import *

SPEC = dict(
    id="C12", corr="Corr.C12", driver="h_c12", overlay=True,
    targets=["Properties/C12.vo", "Corr/C12.vo"],
    args=lambda tier, seed: (["-seed", seed, "-n", 1500] if tier == "quick" else ["-seed", seed, "-n", 30000]),
    search_args=lambda seed: ["-seed", seed, "-n", 3000],
    shard=400,
    patterns={},
    rule="(a) ARP packets through a fresh real stack",
    trusted_base=[KERNEL, CORR_TB],
    assumptions=[],
)
