from tcpcommon import *

def _post(res, lines, judged):
    """record how often each monitor verdict occurred (0 ok, 1 violation, 2 known zero-window stall)"""
    h = {}
    for j in judged:
        h[str(j[1])] = h.get(str(j[1]), 0) + 1
    res.coverage["spec_code_histogram"] = h


SPEC = dict(
    id="C02", corr="Corr.C02", driver="h_tcp", overlay=True, extra_overlay=tcp_overlay,
    targets=["Properties/C02.vo", "Corr/C02.vo"],
    args=lambda tier, seed: ["-seed", seed, "-mix", "c02", "-n", 160 if tier == "quick" else 3000, "-events", 40],
    search_args=lambda seed: ["-seed", seed, "-mix", "c02", "-n", 400, "-events", 40],
    shard=4, timeout=2400,
    patterns={2: "C02-zero-window-stall"},
    rule="seeded scripts of <= 40 events against an established connection of the real stack (ISS/IRS adjacent to 0, 2^31, 2^32 and random; peer MSS 20..1460, window scale, timestamps, SACK, IPv4/IPv6, small/large buffers), close mix: application writes, cumulative ACKs with occasional zero/tiny windows, peer data in order / ahead / overlapping (a FIN on the last slice), reads, shutdown of the write side, peer FINs in and out of order, retransmission time-outs delivered as explicit events (time is an input); after EVERY event the implementation's protocol state, emitted frames and application result are compared with Model.Tcp.step, and the close/stall monitor (Corr/C02.v spec) is evaluated on the implementation's observations alone; tag bits: 1 FIN sent, 2 FIN received, 4 closed state reached, 8 zero send window seen, 16 retransmission time-out; distinct = distinct case lines",
    trusted_base=TCP_TB, assumptions=TCP_ASSUME, post=_post,
)
