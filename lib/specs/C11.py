import os
from common import *

# Accessors added to package udp by the build overlay (never written into /repo): set the receive
# buffer limit (the code has no SetSockOpt case for it) and read rcvBufSize / the queue length.
# No logic under test.
_ACCESS = r'''// Added to package udp by the verification overlay of property C11 (never committed to /repo).
package udp

import (
	tcpip "github.com/brewlin/net-protocol/protocol"
)

// VerifSetRcvBufSizeMax sets the receive buffer limit of a UDP endpoint.
func VerifSetRcvBufSizeMax(ep tcpip.Endpoint, n int) {
	e := ep.(*endpoint)
	e.rcvMu.Lock()
	e.rcvBufSizeMax = n
	e.rcvMu.Unlock()
}

// VerifRcvState returns rcvBufSize and the number of queued packets.
func VerifRcvState(ep tcpip.Endpoint) (size, qlen int) {
	e := ep.(*endpoint)
	e.rcvMu.Lock()
	size = e.rcvBufSize
	for p := e.rcvList.Front(); p != nil; p = p.Next() {
		qlen++
	}
	e.rcvMu.Unlock()
	return
}
'''


def c11_overlay(tmpdir):
    import vlib
    p = os.path.join(tmpdir, "udp_zz_verif_c11.go")
    with open(p, "w") as f:
        f.write(_ACCESS)
    return {os.path.join(vlib.REPO, "protocol/transport/udp/zz_verif_c11.go"): p}


SPEC = dict(
    id="C11", corr="Corr.C11", driver="h_c11", overlay=True, extra_overlay=c11_overlay,
    targets=["Properties/C11.vo", "Corr/C11.vo"],
    args=lambda tier, seed: ["-seed", seed, "-n", 320 if tier == "quick" else 4000,
                             "-big", 14 if tier == "quick" else 63, "-conc", 8 if tier == "quick" else 120],
    search_args=lambda seed: ["-seed", seed, "-n", 1500, "-big", 20, "-conc", 20],
    shard=28,
    patterns={},
    rule="histories on one UDP socket of a real two-NIC stack: setup (bind wildcard / specific / v4-mapped, connect, bind+connect, unbound) then 4-25 operations: injected datagrams from 1-3 senders (payload lengths {0,1,7,8,9,1472,1473}, random <=300, <=3000, some <=9000; UDP length field consistent / smaller / larger than the IP payload / below 8; trailing bytes; IPv4, IPv6, IPv4 to a dual-stack socket; NIC 1 or 2; view splits: one view, fdbased buffer sizes, header+8, too short, random), reads, shutdowns, writes, ICMP errors, close, re-bind/connect; receive buffer limits {0,1,8,100,1472,1473,3000,9000,32768}; plus the send lattice: sizes {0,1,8,1472,1473,65506,65507,65508,65527,65528,65535,65536} x {IPv4, IPv6, v4-mapped} x {connected, bound, unbound} (a seeded sample of the sizes above 9000 in the quick tier, all of them in the thorough tier); plus concurrent histories (CConc): one goroutine injects 20-70 datagrams while 2-3 goroutines call Read, the readers' results must interleave to exactly the accepted sequence; a case is non-trivial when a datagram was delivered to Read or a frame was emitted; distinct = distinct case lines",
    trusted_base=[KERNEL, CORR_TB, "Print Assumptions: every C11 theorem is closed under the global context (no axioms)",
                  "modelled, not verified: protocol/transport/udp/endpoint.go, protocol/header/udp.go (hand-written Gallina model Model/Udp.v with Model/HdrTransport.v and Model/Checksum.v, tied by the differential run)",
                  "inputs of the model taken from the run: which packets the demultiplexer delivers (Corr-level predicate `deliverable`), ports and routes chosen by the stack",
                  "overlay accessors VerifSetRcvBufSizeMax / VerifRcvState added to package udp at build time (no logic under test)"],
    assumptions=["NIC.DeliverTransportPacket hands HandlePacket a first view of at least 8 bytes (stack/nic.go; checked by the driver with short first views)",
                 "the link endpoint hands over ownership of the bytes it delivers (as link/fdbased does); it may reuse its view array",
                 "sequential histories: concurrent readers vs delivery are serialised by rcvMu and not explored here",
                 "Go int is 64 bits (rcvBufSize cannot overflow: C11_rcvbuf_accounting)"],
)
