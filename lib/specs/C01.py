from tcpcommon import *

SPEC = dict(
    id="C01", corr="Corr.C01", driver="h_tcp", overlay=True, extra_overlay=tcp_overlay,
    targets=["Properties/C01.vo", "Corr/C01.vo", "Corr/C01mtu.vo"],
    extra_phases=[dict(name="path-mtu-monitor-only", driver="h_tcp", corr="Corr.C01mtu", overlay=True, extra_overlay=tcp_overlay,
                       args=lambda tier, seed: ["-seed", seed, "-mtu", "-mix", "c01,c05,c04,c02", "-n", 60 if tier == "quick" else 1200, "-events", 40],
                       search_args=lambda seed: ["-seed", seed, "-mtu", "-mix", "c01,c05", "-n", 200, "-events", 40],
                       shard=4, timeout=2400, patterns={})],
    args=lambda tier, seed: ["-seed", seed, "-mix", "c01,c04,c01,c05", "-n", 160 if tier == "quick" else 3000, "-events", 40],
    search_args=lambda seed: ["-seed", seed, "-mix", "c04,c05,c01,c02", "-n", 300, "-events", 40],
    shard=4, timeout=2400,
    patterns={},
    rule="seeded scripts of <= 40 events against an established connection of the real stack (ISS/IRS from a set adjacent to 0, 2^31, 2^32 and random; peer MSS 20..1460, window scale, timestamps, SACK, IPv4/IPv6, small/large buffers): peer data in order / ahead / overlapping / far beyond the window (all slices of one peer stream), application writes and reads, cumulative / partial (mid-segment) / duplicate / beyond / old ACKs, retransmission time-outs, out-of-window RSTs, FINs; after EVERY event the implementation's protocol state, emitted frames and application result are compared with Model.Tcp.step; a trace is non-trivial when bytes were read by the application (tag bit 1) or data segments were emitted (tag bit 2); distinct = distinct case lines; phase 2 (path-mtu-monitor-only): the same kind of scripts with path-MTU reductions mixed in (an ICMPv4 'fragmentation needed' message naming a smaller - sometimes a larger - next-hop MTU is injected: snd.go updateMaxPayloadSize lowers the maximum payload, rewinds to the first queued segment that no longer fits and resends from there); Model.Tcp has no event for this, so there is NO correspondence for these traces (corr only checks the handshake-derived first snapshot): they are judged by the monitors alone - C01 data integrity, C04 window/MSS, C02 close/stall (Corr/C01mtu.v); tag bit 4: an MTU notification made the sender emit data",
    trusted_base=TCP_TB, assumptions=TCP_ASSUME,
)
