from tcpcommon import *

SPEC = dict(
    id="C04", corr="Corr.C04", driver="h_tcp", overlay=True, extra_overlay=tcp_overlay,
    targets=["Properties/C04.vo", "Corr/C04.vo"],
    args=lambda tier, seed: ["-seed", seed, "-mix", "c04", "-n", 160 if tier == "quick" else 3000, "-events", 40],
    search_args=lambda seed: ["-seed", seed, "-mix", "c04", "-n", 400, "-events", 40],
    shard=4, timeout=2400,
    patterns={2: "C04-edge-rounding"},
    rule="seeded scripts of <= 40 events against an established connection of the real stack (ISS/IRS adjacent to 0, 2^31, 2^32 and random; peer MSS 20..1460, peer window scale none/0..3, own window scale 0 or 5, timestamps, SACK, IPv4/IPv6, receive buffer 100/300/700/1000/4096 bytes or 1 MB, send buffer 200/1000/4096 bytes or 1 MB): peer window advertisements from {0,1,7,50,200,1000,4000,30000,65535} raw on every peer segment, peer data in order / ahead / overlapping / far beyond the window, application writes of 1..40*MSS, paced reads, cumulative / partial / duplicate / beyond / old ACKs, triple duplicate ACKs, retransmission time-outs; after EVERY event the implementation's protocol state, emitted frames and application result are compared with Model.Tcp.step, and the monitor Corr.C04.spec checks on the implementation's observations alone: peer window scaled before use, new data within sndUna+sndWnd, retransmissions within the highest edge ever offered, segment length <= maxPayload / MSS option / MTU, advertised window = clamp((rcvAcc-rcvNxt)>>scale), advertised edge <= rcvAcc and never moving left, delivered bytes = prefix of the peer stream covered by segments that were not wholly outside the window, in-order in-window data delivered at once, zero window when the buffer is full, window update on the reopening read; tag = bit set of classes reached (1 zero own window, 2 window-limited send, 4 scaled peer window, 8 scaled own window, 16 small receive buffer, 32 retransmission beyond a shrunk window, 64 peer zero window with data waiting, 128 in-order in-window delivery, 256 reopening read, 512 buffer full, 1024 edge rounding); distinct = distinct case lines",
    trusted_base=TCP_TB, assumptions=TCP_ASSUME,
)
