from tcpcommon import *
import os, re, shutil, subprocess, tempfile


def _translate(spec):
    """Second tie: regenerate Gallina definitions from /repo/pkg/seqnum/seqnum.go (go/ast translator
    harness/cmd/tr_seqnum) and prove them equal to the model functions (coq/GenProofs/SeqnumGenP.v)."""
    import vlib
    td = tempfile.mkdtemp(prefix="verif-c14gen-")
    pre = dict(obligations=8, discharged=0, theorems=[], broken=None, log="",
               checker_cmd="tr_seqnum <repo>/pkg/seqnum/seqnum.go $TMP/SeqnumGen.v && coqc -Q coq NP -Q $TMP NPGen SeqnumGen.v SeqnumGenP.v",
               info={})
    try:
        drv, err = vlib.build_driver("tr_seqnum", td)
        if err:
            pre["broken"], pre["log"] = "translator does not build", err
            return pre
        src = os.path.join(vlib.REPO, "pkg/seqnum/seqnum.go")
        p = subprocess.run([drv, src, os.path.join(td, "SeqnumGen.v")], capture_output=True, text=True, timeout=120)
        pre["info"]["translator_output"] = (p.stdout + p.stderr).strip()[:500]
        if p.returncode != 0:
            pre["broken"], pre["log"] = "seqnum.go is outside the translator's subset (exit %d)" % p.returncode, p.stdout + p.stderr
            return pre
        pre["info"]["generated"] = open(os.path.join(td, "SeqnumGen.v")).read()[:3000]
        shutil.copy(os.path.join(vlib.COQ, "GenProofs", "SeqnumGenP.v"), td)
        # the model's .vo must exist
        lock = vlib.coq_lock(); vlib.ensure_makefile(vlib.COQ); lock.close()
        vlib.sh("timeout 900 make Model/Seqnum.vo", cwd=vlib.COQ)
        for f in ("SeqnumGen.v", "SeqnumGenP.v"):
            rc, out = vlib.sh(["timeout", "900", "coqc", "-Q", vlib.COQ, "NP", "-Q", td, "NPGen", os.path.join(td, f)], cwd=td)
            if rc != 0:
                m = re.search(r'line (\d+)', out)
                name = ""
                if m and f == "SeqnumGenP.v":
                    lines = open(os.path.join(td, f)).read().splitlines()
                    for ln in range(int(m.group(1)) - 1, -1, -1):
                        mm = re.match(r"Theorem (\w+)", lines[ln])
                        if mm:
                            name = mm.group(1); break
                pre["broken"] = "GenProofs/SeqnumGenP.v: %s (generated function differs from Model.Seqnum)" % (name or f)
                pre["log"] = out
                return pre
        src_p = open(os.path.join(td, "SeqnumGenP.v")).read()
        pre["theorems"] = re.findall(r"^Theorem (\w+)", src_p, re.M)
        pre["discharged"] = len(pre["theorems"])
        pre["obligations"] = len(pre["theorems"])
        return pre
    finally:
        shutil.rmtree(td, ignore_errors=True)


def _run(spec, tier, seed):
    import vlib
    sp = dict(spec)
    sp.pop("run")
    sp["pre_obligations"] = _translate(spec)
    return vlib.standard_check(sp, tier, seed)


SPEC = dict(
    id="C14", corr="Corr.C14", driver="h_c14", overlay=False, run=_run,
    targets=["Properties/C14.vo", "Corr/C14.vo", "Corr/C14tcp.vo"],
    extra_phases=[dict(name="tcp-wrap-placements", driver="h_tcp", corr="Corr.C14tcp", overlay=True, extra_overlay=tcp_overlay,
                       args=lambda tier, seed: ["-seed", seed, "-wrap", "-twin", "-mix", "c04,c01,c05", "-n", 60 if tier == "quick" else 1500, "-events", 40],
                       search_args=lambda seed: ["-seed", seed, "-wrap", "-twin", "-mix", "c04,c01", "-n", 120, "-events", 60],
                       shard=4, timeout=2400, patterns={})],
    args=lambda tier, seed: ["-seed", seed, "-n", 6000 if tier == "quick" else 150000],
    search_args=lambda seed: ["-seed", seed, "-n", 40000],
    shard=8000,
    patterns={2: "C14-half", 3: "C14-empty"},
    rule="phase 1: boundary lattice (11 bases x 16 distances) then seeded random operands (3/4 boundary values, 1/4 uniform) for LessThan/LessThanEq/InRange/InWindow/Overlap/Add/Size/UpdateForward of pkg/seqnum; a case is non-trivial when operands differ / sizes are non-zero (tag 1 = no wrap, 2 = range wraps through 0); distinct = distinct case lines; phase 2 (the property's last clause): lock-step TCP traces (h_tcp -wrap) in which every script places ISS/IRS or a window edge (receive window right edge, peer window right edge) just below 2^31 or 2^32 so that the boundary is crossed during the script; every script is run a second time with the initial sequence numbers far from both boundaries and otherwise identical choices (the twin); judged by trace_corr on both + the C01 data-integrity, C04 window and C02 stall monitors on the wrap-adjacent trace + the model-independent twin monitor (every emitted frame and application result equal step by step once sequence numbers are expressed relative to ISS/IRS) (Corr/C14tcp.v); non-trivial when data moved, tag 2 when a sequence number or window edge actually crossed a boundary",
    trusted_base=[KERNEL, CORR_TB, "second tie: go/ast->Gallina translator harness/cmd/tr_seqnum (unverified, ~200 lines) regenerates the seqnum functions from the current source on every run; GenProofs/SeqnumGenP.v proves generated = model for all integers", "Print Assumptions: every C14 theorem is closed under the global context (no axioms)",
                  "modelled, not verified: pkg/seqnum/seqnum.go (hand-written Gallina model Model/Seqnum.v, tied by the differential run)"],
    assumptions=["Go uint32 arithmetic wraps modulo 2^32 and int32(x)<0 means x>=2^31 (written into the model)"],
)
