from common import *

SPEC = dict(
    id="C14", corr="Corr.C14", driver="h_c14", overlay=False,
    targets=["Properties/C14.vo", "Corr/C14.vo"],
    args=lambda tier, seed: ["-seed", seed, "-n", 6000 if tier == "quick" else 150000],
    search_args=lambda seed: ["-seed", seed, "-n", 40000],
    shard=8000,
    patterns={2: "C14-half", 3: "C14-empty"},
    rule="boundary lattice (11 bases x 16 distances) then seeded random operands (3/4 boundary values, 1/4 uniform) for LessThan/LessThanEq/InRange/InWindow/Overlap/Add/Size/UpdateForward of pkg/seqnum; a case is non-trivial when operands differ / sizes are non-zero (tag 1 = no wrap, 2 = range wraps through 0); distinct = distinct case lines",
    trusted_base=[KERNEL, CORR_TB, "Print Assumptions: every C14 theorem is closed under the global context (no axioms)",
                  "modelled, not verified: pkg/seqnum/seqnum.go (hand-written Gallina model Model/Seqnum.v, tied by the differential run)"],
    assumptions=["Go uint32 arithmetic wraps modulo 2^32 and int32(x)<0 means x>=2^31 (written into the model)"],
)
