import os
import re
from common import *

HARNESS_OV = os.path.join(os.path.dirname(os.path.dirname(os.path.dirname(os.path.abspath(__file__)))), "harness", "overlay")


def c20_overlay(tmpdir):
    """Files ADDED to /repo packages (accessors), plus two files REPLACED by copies generated from
    the current tree at check time:
      * stack/stackinit/init.go with `func init()` renamed, so that importing application/http does
        not create a TAP device;
      * application/websocket/client.go without its `import "C"` line (the driver is built with
        CGO_ENABLED=0, which would silently drop the whole file)."""
    import vlib
    ov = {
        os.path.join(vlib.REPO, "protocol/application/http/zz_verif_c20.go"): os.path.join(HARNESS_OV, "c20_http_access.go.txt"),
        os.path.join(vlib.REPO, "protocol/application/websocket/zz_verif_c20.go"): os.path.join(HARNESS_OV, "c20_ws_access.go.txt"),
        os.path.join(vlib.REPO, "protocol/application/websocket/zz_verif_c20_client.go"): os.path.join(HARNESS_OV, "c20_ws_client_access.go.txt"),
    }
    p = os.path.join(vlib.REPO, "stack/stackinit/init.go")
    src = open(p).read()
    src2, n = re.subn(r"(?m)^func init\(\)", "func verifDisabledInit()", src)
    if n != 1:
        raise RuntimeError("stackinit/init.go: `func init()` anchor not found")
    q = os.path.join(tmpdir, "ov_stackinit_init.go")
    open(q, "w").write(src2)
    ov[p] = q
    p = os.path.join(vlib.REPO, "protocol/application/websocket/client.go")
    src = open(p).read()
    src2 = re.sub(r'(?m)^import "C"\s*$', "", src)
    q = os.path.join(tmpdir, "ov_ws_client.go")
    open(q, "w").write(src2)
    ov[p] = q
    return ov


def _args(tier, seed):
    if tier == "quick":
        return ["-seed", seed, "-n", 640, "-big", 1, "-e2e", 6]
    return ["-seed", seed, "-n", 12000, "-big", 3, "-e2e", 60]


SPEC = dict(
    id="C20", corr="Corr.C20", driver="h_c20", overlay=True,
    extra_overlay=c20_overlay,
    targets=["Properties/C20.vo", "Corr/C20.vo"],
    args=_args,
    search_args=lambda seed: ["-seed", seed, "-n", 1600, "-big", 0, "-e2e", 0],
    shard=50,
    patterns={2: "C20-error-noop"},
    rule="TODO",
    trusted_base=[KERNEL, CORR_TB],
    assumptions=[],
)
