import os
import re
from common import *

HARNESS_OV = os.path.join(os.path.dirname(os.path.dirname(os.path.dirname(os.path.abspath(__file__)))), "harness", "overlay")


def c20_overlay(tmpdir):
    """Files ADDED to /repo packages (accessors), plus two files REPLACED by copies generated from
    the current tree at check time:
      * stack/stackinit/init.go with `func init()` renamed, so that importing application/http does
        not create a TAP device;
      * application/websocket/client.go without its `import "C"` line (the driver is built with
        CGO_ENABLED=0, which would silently drop the whole file)."""
    import vlib
    ov = {
        os.path.join(vlib.REPO, "protocol/application/http/zz_verif_c20.go"): os.path.join(HARNESS_OV, "c20_http_access.go.txt"),
        os.path.join(vlib.REPO, "protocol/application/websocket/zz_verif_c20.go"): os.path.join(HARNESS_OV, "c20_ws_access.go.txt"),
        os.path.join(vlib.REPO, "protocol/application/websocket/zz_verif_c20_client.go"): os.path.join(HARNESS_OV, "c20_ws_client_access.go.txt"),
    }
    p = os.path.join(vlib.REPO, "stack/stackinit/init.go")
    src = open(p).read()
    src2, n = re.subn(r"(?m)^func init\(\)", "func verifDisabledInit()", src)
    if n != 1:
        raise RuntimeError("stackinit/init.go: `func init()` anchor not found")
    q = os.path.join(tmpdir, "ov_stackinit_init.go")
    open(q, "w").write(src2)
    ov[p] = q
    p = os.path.join(vlib.REPO, "protocol/application/websocket/client.go")
    src = open(p).read()
    src2 = re.sub(r'(?m)^import "C"\s*$', "", src)
    q = os.path.join(tmpdir, "ov_ws_client.go")
    open(q, "w").write(src2)
    ov[p] = q
    return ov


def _args(tier, seed):
    if tier == "quick":
        return ["-seed", seed, "-n", 400, "-big", 1, "-e2e", 9, "-errs"]
    return ["-seed", seed, "-n", 1500, "-big", 3, "-e2e", 45, "-errs"]


SPEC = dict(
    id="C20", corr="Corr.C20", driver="h_c20", overlay=True,
    extra_overlay=c20_overlay,
    targets=["Properties/C20.vo", "Corr/C20.vo"],
    args=_args,
    search_args=lambda seed: ["-seed", seed, "-n", 1600, "-big", 0, "-e2e", 0, "-errs"],
    shard=50,
    timeout=2400,
    # 2 = the handler called Response.Error(c), c <> 200, and the client still read status 200
    # (-errs makes handlers of generated routes call Error(); the entry is in known_findings.json)
    patterns={2: "C20-error-noop"},
    rule="LEVEL 1 (codec, in-memory sockets through overlay-added accessors): a fixed boundary set (match_until on 20 delimiter/overlap cases; 33 raw "
         "requests x 2 initial status codes through Request.parse; HandleFunc panics; 14 requests on and just outside each clause of the grammar G through the "
         "whole loop client-build -> Connection.handler -> client-parse; 10 status codes through build_and_send_response; SendData and ReadData on every "
         "length in {0..5,7,8,124..130,255..257,300,1000} x {unmasked, two keys} x {minimal, next longer length form}; truncated, close, negative-length frames; "
         "RFC 6455 1.3 accept key) then -n seeded random cases, 16 kinds in rotation: 5/16 CRound = request drawn from G (method GET/HEAD/POST/PUT/\"\", uri, 0-5 "
         "headers over an alphabet with ':' ' ' CR LF TAB high bytes and the multi-byte delimiters, body up to 300 bytes with delimiters) built by the bundled "
         "client code (Request.init, SetHeaders, send), served by Connection.handler with 0-5 registered patterns (the uri, proper prefixes, extensions, '/', "
         "others; handlers record what they see, call End and sometimes Error) and read back by the client-side parser; 1/16 the same with a request just OUTSIDE "
         "G (model-vs-code only); 1/16 Request.send alone; 1/16 Request.parse on damaged requests and delimiter soup; 1/16 build_and_send_response with arbitrary "
         "status/version/headers; 1/16 match_until; 1/16 SendData; 2/16 ReadData on streams of 1-5 frames (half well-formed only: masked/unmasked, longer length "
         "forms, RSV bits; half with FIN-clear/close/other opcodes/lying or negative length fields/truncation); maskBytes, computeAcceptKey (digest from the driver's "
         "crypto/sha1 as the oracle for H), tokenListContainsValue, Upgrade with perturbed headers. Large messages: quick 65535, 65536 through SendData and a masked "
         "65536 through ReadData; thorough also 65534, 65537, 70000, 128 KiB, 200 KiB (masked through ReadData), ~300 KiB (SendData), masked and not, sequences across the boundary, SendData->ReadData loops. "
         "LEVEL 2 (-e2e N, one stack with a loopback NIC, stack.Pstack set by the driver, bundled http.Server + http.Client + websocket.Client/Upgrade over the stack's "
         "own TCP): 2N/3 HTTP exchanges with requests of G and random route tables; N/3 WebSocket sessions (1-4 messages each way of lengths {0,1,125,126,127,200,1000}, "
         "client frames sent with the bundled Push (unmasked) or as raw masked frames on the same connection, lock-step and burst); thorough adds sessions with 65535/65536/"
         "65537-byte and 200 KiB messages both ways (spread over the output). BURSTS (with -e2e): 3-6 messages written back to back in ONE direction on one upgraded connection (client->server with the bundled Push, server->client with Conn.SendData), no waiting in between, later messages fitting the capacity of earlier ones (300,300,125,0,126,200 / 1000,1000,70,1000,1 / 126,125,124 / 20000,20000,300,16000,125,0; thorough also 70000,70000,300,65536,125,0 / 65536,65535,65536 / 200 KiB,200 KiB / 128 KiB,100,128 KiB,100 ...), every message filled with bytes that identify message index and offset, the receiver issuing its first read only after the whole burst was written (slow reader); observable = the list of messages received, compared byte for byte by spec and by the model; an attempt that does not return is retried on a fresh connection and, if none returns, reported as received-so-far + 'did not return'. Payloads CHOSEN by the driver above 256 bytes are pattern bytes regenerated inside Coq from (n, seed); everything the "
         "implementation RETURNS is written out in full. A case is non-trivial unless its input is empty (tag = case kind / branch class); distinct = distinct case lines",
    trusted_base=[KERNEL, CORR_TB, "Print Assumptions: every C20 theorem is closed under the global context (no axioms)",
                  "modelled, not verified: protocol/application/http/{pkg,request,request_client,response,server_patttern,connection}.go and "
                  "protocol/application/websocket/{conn,utils,upgrade}.go (hand-written Gallina models Model/Http.v, Model/Ws.v, Model/Base64.v, tied by the differential run)",
                  "SHA-1 (crypto/sha1) is NOT modelled or re-proved: it is a Section variable H in the theorems (only 'a digest is 20 bytes' is assumed) and an oracle value "
                  "computed by the driver with crypto/sha1 in the cases; encoding/base64 is modelled (Model/Base64.v) and proved against an RFC 4648 decoder",
                  "overlay-added accessors (harness/overlay/c20_*.go.txt: thin wrappers + an in-memory internal/socket.Socket whose Readn fails instead of blocking); "
                  "stack/stackinit/init.go is built with `func init()` renamed (no TAP device at import time) and websocket/client.go without `import \"C\"` -- both "
                  "copies are generated from the current tree on every run",
                  "the transport is not in the theorems: the TCP byte stream is taken to deliver exactly what was written (properties C01/C02); the end-to-end cases "
                  "exercise it on a loopback NIC but lost/early wake-ups of the bundled socket glue (exchange hangs or reads nothing) are retried and only counted",
                  "not modelled: Unicode (non-ASCII) white space in strings.TrimSpace and non-ASCII case folding in strings.EqualFold (generators use ASCII there); "
                  "allocation failure of make([]byte, n) for huge positive n (memory unbounded in the model; the driver never announces more than it sends except >= 2^63)"],
    assumptions=["a request fits one TCP segment and is read with one Read (the HTTP layer reads a message with a single receive)",
                 "the connection is fresh: status_code 200 and an empty Request, as NewCon/newRequest create them",
                 "WebSocket payload length < 2^63 (the 64-bit length field is read into an int64; larger values panic in make -- modelled as WPanic)",
                 "header names are compared byte-wise (Go map keys): 'Sec-WebSocket-Key' and 'sec-websocket-key' are different headers for Upgrade",
                 "a message larger than the TCP send buffer is silently truncated by ServerSocket.Write/Client.Write ignoring the short write; end-to-end messages stay below it "
                 "and are sent in lock-step"],
)
