from common import *
import os, shutil, subprocess

HARNESS_OV = os.path.join(os.path.dirname(os.path.dirname(os.path.dirname(os.path.abspath(__file__)))), "harness", "overlay")


def _extra_overlay(tmpdir):
    """Instrumented copy of the CURRENT pkg/sleep/sleep_unsafe.go: vlib.sleep_overlay applies the
    standard three-line toolchain patch to the current file (vlib.REPO, so mutations carry through),
    harness/cmd/h_c19/instr (go/ast) then puts a schedule point before every sync/atomic call and
    the gopark call.  The result overrides the patched file in the overlay (same key); the
    schedule-point runtime + read-only accessors are ADDED to package sleep."""
    import vlib
    src = os.path.join(vlib.REPO, "pkg/sleep/sleep_unsafe.go")
    out = os.path.join(tmpdir, "c19_sleep_unsafe_instrumented.go")

    def fail(msg):
        # make the driver build fail with the message (reported as "implementation side does not
        # build: correspondence cannot be checked")
        msg = " ".join(msg.split())[:400].replace('"', "'").replace("\\", "/")
        open(out, "w").write('package sleep\n\nconst _ int = "C19 instrumentation of sleep_unsafe.go failed: %s"\n' % msg)
        return {src: out}

    d = os.path.join(tmpdir, "c19instr")
    os.makedirs(d, exist_ok=True)
    ov, err = vlib.sleep_overlay(d)
    if err:
        return fail(err)
    patched = ov[src]
    shutil.copyfile(os.path.join(vlib.HARNESS, "go.mod"), os.path.join(d, "go.mod"))
    try:
        shutil.copyfile(os.path.join(vlib.REPO, "go.sum"), os.path.join(d, "go.sum"))
    except OSError:
        open(os.path.join(d, "go.sum"), "w").close()
    p = subprocess.run(["go", "run", "-modfile=" + os.path.join(d, "go.mod"), "./cmd/h_c19/instr", patched, out],
                       cwd=vlib.HARNESS, env=vlib.GOENV, stdout=subprocess.PIPE, stderr=subprocess.STDOUT, text=True,
                       timeout=600)
    if p.returncode != 0:
        return fail(p.stdout)
    return {src: out,
            os.path.join(vlib.REPO, "pkg/sleep/zz_verif_c19.go"): os.path.join(HARNESS_OV, "c19_sched.go.txt")}


SPEC = dict(
    id="C19", corr="Corr.C19", driver="h_c19", overlay=True, extra_overlay=_extra_overlay,
    targets=["Properties/C19.vo", "Corr/C19.vo"],
    args=lambda tier, seed: (["-seed", seed, "-n", 300, "-dfs", 1, "-stress", 4] if tier == "quick"
                             else ["-seed", seed, "-n", 10000, "-dfs", 2, "-stress", 30]),
    search_args=lambda seed: ["-seed", seed, "-n", 1500, "-dfs", 0],
    shard=150, timeout=1500,
    patterns={},
    rule="TODO",
    trusted_base=[KERNEL, CORR_TB],
    assumptions=[],
)
