from common import *
import os, shutil, subprocess

HARNESS_OV = os.path.join(os.path.dirname(os.path.dirname(os.path.dirname(os.path.abspath(__file__)))), "harness", "overlay")


def _extra_overlay(tmpdir):
    """Instrumented copy of the CURRENT pkg/sleep/sleep_unsafe.go: vlib.sleep_overlay applies the
    standard three-line toolchain patch to the current file (vlib.REPO, so mutations carry through),
    harness/cmd/h_c19/instr (go/ast) then puts a schedule point before every sync/atomic call and
    the gopark call.  The result overrides the patched file in the overlay (same key); the
    schedule-point runtime + read-only accessors are ADDED to package sleep."""
    import vlib
    src = os.path.join(vlib.REPO, "pkg/sleep/sleep_unsafe.go")
    out = os.path.join(tmpdir, "c19_sleep_unsafe_instrumented.go")

    def fail(msg):
        # make the driver build fail with the message (reported as "implementation side does not
        # build: correspondence cannot be checked")
        msg = " ".join(msg.split())[:400].replace('"', "'").replace("\\", "/")
        open(out, "w").write('package sleep\n\nconst _ int = "C19 instrumentation of sleep_unsafe.go failed: %s"\n' % msg)
        return {src: out}

    d = os.path.join(tmpdir, "c19instr")
    os.makedirs(d, exist_ok=True)
    ov, err = vlib.sleep_overlay(d)
    if err:
        return fail(err)
    patched = ov[src]
    shutil.copyfile(os.path.join(vlib.HARNESS, "go.mod"), os.path.join(d, "go.mod"))
    try:
        shutil.copyfile(os.path.join(vlib.REPO, "go.sum"), os.path.join(d, "go.sum"))
    except OSError:
        open(os.path.join(d, "go.sum"), "w").close()
    p = subprocess.run(["go", "run", "-modfile=" + os.path.join(d, "go.mod"), "./cmd/h_c19/instr", patched, out],
                       cwd=vlib.HARNESS, env=vlib.GOENV, stdout=subprocess.PIPE, stderr=subprocess.STDOUT, text=True,
                       timeout=600)
    if p.returncode != 0:
        return fail(p.stdout)
    return {src: out,
            os.path.join(vlib.REPO, "pkg/sleep/zz_verif_c19.go"): os.path.join(HARNESS_OV, "c19_sched.go.txt")}


SPEC = dict(
    id="C19", corr="Corr.C19", driver="h_c19", overlay=True, extra_overlay=_extra_overlay,
    targets=["Properties/C19.vo", "Corr/C19.vo"],
    args=lambda tier, seed: (["-seed", seed, "-n", 300, "-dfs", 1, "-stress", 4] if tier == "quick"
                             else ["-seed", seed, "-n", 10000, "-dfs", 2, "-maxruns", 4500, "-stress", 30]),
    search_args=lambda seed: ["-seed", seed, "-n", 1500, "-dfs", 0],
    shard=150, timeout=1500,
    patterns={},
    rule="controlled schedules of the REAL pkg/sleep code (instrumented copy generated per run from the current sleep_unsafe.go after the standard three-line toolchain patch: a schedule point before every sync/atomic call and before gopark; one goroutine is granted one atomic operation at a time; API-call boundaries are steps of their own): exhaustive DFS over all schedules of small client sets with visited-real-state pruning (quick: 3 sets of 1 sleeper goroutine + 1 asserting goroutine on 1 waker: the classic prepare/re-check/commit window, assert-clear-reassert against blocking and non-blocking Fetch, Done racing with Assert then re-AddWaker; thorough: + 5 sets of 1 sleeper + 2-3 goroutines on 1-2 wakers, depth bound 48, at most 4500 runs per set: the first 2-waker set (AddWaker x2, Fetch(true) x2 against one Assert on each waker; 4222 runs, 1192 real states) is enumerated completely, the larger ones are cut at the bound) + seeded random walks (optionally sticky) over random client programs: thread 0 = AddWaker of 1-3 wakers (one possibly late, one possibly asserted before being added), 1-5 blocking/non-blocking Fetches, optional Done + re-AddWaker with new ids + Fetches, occasional Assert by the sleeper goroutine itself; 1-4 further goroutines x 1-4 calls of Assert (60%) / Clear (25%) / IsAsserted (15%) (quick 300 runs, thorough 10000). After EVERY step (stepping thread's schedule point, thread 0's point or parked, API return value, every w.s class, waitingG class, sharedList / localList / allWakers as id lists read through overlay-added accessors) is compared with the Coq model run on the same schedule with the same step function the theorems are about; at the end of a maximal run the model must agree that nothing is enabled. The sleeper's real park is predicted from the real state (gopark granted while waitingG == preparingG); a readied sleeper is awaited with a 2 s watchdog (hung = violation). + uncontrolled Gosched-injection ping-pong runs in the style of the dormant sleep_test.go (SEARCH AID ONLY, tag 5, not compared with the model). non-trivial = at least one step was scheduled (tag 1 sleeper never parked / never woken, 2 parked and woken by goready, 3 ended parked after having been woken, 4 Done executed); distinct = distinct case lines",
    trusted_base=[KERNEL, CORR_TB,
                  "Print Assumptions: every C19 theorem is closed under the global context (no axioms)",
                  "modelled, not verified: pkg/sleep/sleep_unsafe.go + commit_noasm.go (hand-written Gallina transition system Model/Sleep.v at the granularity of the atomic operations, tied by the controlled-schedule run)",
                  "the instrumenter harness/cmd/h_c19/instr (wraps the pointer operand of each sync/atomic call and of gopark with identity functions that first pass a schedule point) and the schedule-point runtime + read-only accessors harness/overlay/c19_sched.go.txt added to package sleep through go build -overlay",
                  "the Go runtime: gopark(commitSleep)/goready behave as specified; gopark+commitSleep is ONE atomic step in the model and in the harness (commitSleep runs on the scheduler stack and cannot be interleaved by the harness), so a defect inside commitSleep is visible only to the stress run",
                  "Go memory model: sync/atomic operations are sequentially consistent"],
    assumptions=["client contract of pkg/sleep (written into the model): one goroutine (thread 0) calls AddWaker / Fetch / Done; AddWaker(w) only for a waker not currently attached; a waker is attached to at most one sleeper (the model has ONE sleeper; 'a new sleeper' after Done is the same zero-valued struct, which the theorems show it is); Assert / Clear / IsAsserted may be called from any goroutine at any time",
                 "the intrusive lists are modelled as lists of waker indices (valid because w.next is written only by w's own enqueuer while w is in no list: theorem C19_queued_once)",
                 "liveness is delivered as: no reachable stuck state (C19_not_stuck) + the thread that will goready is identified and at most 6 of its own steps away (C19_wakeup_is_near_partial); that the blocking Fetch then RETURNS additionally needs a fair scheduler and is not stated as a temporal theorem",
                 "'completed assertion' in the non-blocking clause means the enqueue CAS has succeeded; with 'some Assert call has returned' the clause is false of the code (C19_nonblocking_fetch_api_refuted: an Assert that finds the waker already asserted returns before the asserting call has pushed)"],
)
