module aaverif

go 1.21

require github.com/brewlin/net-protocol v0.0.0

replace github.com/brewlin/net-protocol => /repo
