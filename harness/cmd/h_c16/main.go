// h_c16: drives the real pkg/buffer (View, VectorisedView, Prependable) through generated
// operation histories and prints one Coq term of type NP.Corr.C16.case per line: the inputs,
// the operations and everything observable after every operation.
//
//	CVV   chunks ops obs0 obs   a VectorisedView over sub-slices of larger arrays + up to two clones
//	CView arr off len ops obs   one View: TrimFront / CapLength / NextBytes / raw re-slices
//	CPrep fromView size init ops obs   a Prependable: Prepend(k) then fill the region
//
// Panics of the code under test are recovered and reported inside the case.
package main

import (
	"bufio"
	"flag"
	"fmt"
	"io"
	"log"
	"os"
	"strings"

	"aaverif/internal/gen"

	"github.com/brewlin/net-protocol/pkg/buffer"
)

var w *bufio.Writer

func zs(x int) string {
	if x < 0 {
		return fmt.Sprintf("(%d)", x)
	}
	return fmt.Sprintf("%d", x)
}

func bl(b []byte) string {
	var sb strings.Builder
	sb.WriteByte('[')
	for i, x := range b {
		if i > 0 {
			sb.WriteByte(';')
		}
		fmt.Fprintf(&sb, "%d", x)
	}
	sb.WriteByte(']')
	return sb.String()
}

func bb(x bool) string {
	if x {
		return "true"
	}
	return "false"
}

// ---------------------------------------------------------------- statistics (metadata lines)
var stat = map[string]int{}

// ---------------------------------------------------------------- vectorised views

type vvcase struct {
	chunks []string // Coq terms
	objs   []*buffer.VectorisedView
	ops    []string
	obs    []string
	next   byte
}

// observe prints Ob chunks caps size flat first for one object.
func observe(vv *buffer.VectorisedView) string {
	var cs, caps []string
	for _, v := range vv.Views() {
		cs = append(cs, bl(v))
		caps = append(caps, fmt.Sprintf("%d", len(v[:cap(v)])))
	}
	return fmt.Sprintf("Ob [%s] [%s] %s %s %s", strings.Join(cs, ";"), strings.Join(caps, ";"),
		zs(vv.Size()), bl(vv.ToView()), bl(vv.First()))
}

func observeAll(objs []*buffer.VectorisedView) (s string, panicked bool) {
	defer func() {
		if r := recover(); r != nil {
			s, panicked = "So true []", true
		}
	}()
	var os []string
	for _, o := range objs {
		os = append(os, observe(o))
	}
	return fmt.Sprintf("So false [%s]", strings.Join(os, ";")), false
}

// newVVCase builds a VectorisedView from chunk lengths; every chunk is a sub-slice
// arr[pre:pre+l] of its own array with post spare bytes behind it; byte values are distinct.
func newVVCase(lens, pres, posts []int) *vvcase {
	c := &vvcase{next: 1}
	views := make([]buffer.View, len(lens))
	size := 0
	for i, l := range lens {
		arr := make([]byte, pres[i]+l+posts[i])
		for j := range arr {
			arr[j] = c.next
			c.next++
		}
		views[i] = buffer.View(arr[pres[i] : pres[i]+l])
		size += l
		c.chunks = append(c.chunks, fmt.Sprintf("Ch %s %d %d", bl(arr), pres[i], l))
	}
	vv := buffer.NewVectorisedView(size, views)
	c.objs = []*buffer.VectorisedView{&vv}
	return c
}

// apply runs one operation (kind 0 trim, 1 cap, 2 removeFirst, 3 clone) and records it with the
// observation of every live object; returns false when the implementation panicked.
func (c *vvcase) apply(kind, o, n int) bool {
	var term string
	switch kind {
	case 0:
		term = fmt.Sprintf("WTrim %d %s", o, zs(n))
	case 1:
		term = fmt.Sprintf("WCap %d %s", o, zs(n))
	case 2:
		term = fmt.Sprintf("WRemoveFirst %d", o)
	case 3:
		term = fmt.Sprintf("WClone %d %s", o, zs(n))
	}
	c.ops = append(c.ops, term)
	panicked := func() (p bool) {
		defer func() {
			if r := recover(); r != nil {
				p = true
			}
		}()
		vv := c.objs[o]
		switch kind {
		case 0:
			vv.TrimFront(n)
		case 1:
			vv.CapLength(n)
		case 2:
			vv.RemoveFirst()
		case 3:
			var buf []buffer.View
			if n >= 0 {
				buf = make([]buffer.View, n)
			}
			cl := vv.Clone(buf)
			c.objs = append(c.objs, &cl)
		}
		return false
	}()
	if panicked {
		c.obs = append(c.obs, "So true []")
		return false
	}
	s, p := observeAll(c.objs)
	c.obs = append(c.obs, s)
	return !p
}

func (c *vvcase) emit(obs0 string) {
	fmt.Fprintf(w, "CVV [%s] [%s] (%s) [%s]\n", strings.Join(c.chunks, ";"), strings.Join(c.ops, ";"),
		obs0, strings.Join(c.obs, ";"))
}

func randomVV(r *gen.Rng) {
	n := r.Intn(11)
	if r.Intn(10) == 0 {
		n = r.Intn(3)
	}
	lens, pres, posts := make([]int, n), make([]int, n), make([]int, n)
	allEmpty := r.Intn(16) == 0
	for i := range lens {
		if !allEmpty && r.Intn(4) != 0 {
			lens[i] = 1 + r.Intn(6)
		}
		pres[i], posts[i] = r.Intn(3), r.Intn(3)
	}
	stat[fmt.Sprintf("vv.chunks=%d", n)]++
	c := newVVCase(lens, pres, posts)
	obs0 := observe(c.objs[0])
	nops := r.Intn(13)
	stat[fmt.Sprintf("vv.ops=%d", nops)]++
	for k := 0; k < nops; k++ {
		o := r.Intn(len(c.objs))
		vv := c.objs[o]
		kind := 0
		switch x := r.Intn(100); {
		case x < 35:
			kind = 0
		case x < 60:
			kind = 1
		case x < 75:
			kind = 2
		default:
			kind = 3
			if len(c.objs) >= 3 {
				kind = r.Intn(3)
			}
		}
		cnt := 0
		switch kind {
		case 0, 1:
			size := vv.Size()
			switch r.Intn(4) {
			case 0, 1: // anywhere from -1 to size+3
				cnt = r.Intn(size+5) - 1
			case 2: // at / next to a chunk boundary
				vs := vv.Views()
				j, s := r.Intn(len(vs)+1), 0
				for _, v := range vs[:j] {
					s += len(v)
				}
				cnt = s + r.Intn(3) - 1
			default: // small
				cnt = r.Intn(4)
			}
			if cnt < -1 {
				cnt = -1
			}
			switch {
			case cnt <= 0:
				stat["vv.count<=0"]++
			case cnt < size:
				stat["vv.count<size"]++
			case cnt == size:
				stat["vv.count=size"]++
			default:
				stat["vv.count>size"]++
			}
		case 3:
			nv := len(vv.Views())
			switch r.Intn(4) {
			case 0:
				cnt = -1 // nil buffer
				stat["vv.clone.nil"]++
			case 1:
				cnt = r.Intn(nv + 1) // too small unless it hits nv
				stat["vv.clone.small"]++
			case 2:
				cnt = nv // exactly fits
				stat["vv.clone.exact"]++
			default:
				cnt = nv + 1 + r.Intn(3) // roomy
				stat["vv.clone.large"]++
			}
		}
		stat[[]string{"vv.op.trim", "vv.op.cap", "vv.op.removeFirst", "vv.op.clone"}[kind]]++
		if !c.apply(kind, o, cnt) {
			stat["vv.panicked"]++
			break
		}
	}
	c.emit(obs0)
}

// exhaustiveVV: every chunking with at most 3 chunks and at most maxBytes bytes, every operation
// sequence of length <= L over {TrimFront n, CapLength n (n = -1..size0+1), RemoveFirst} on every
// live object and one Clone (nil or exactly-fitting buffer).
func exhaustiveVV(maxBytes, L int) int {
	count := 0
	var chunkings [][]int
	var rec func(cur []int, sum int)
	rec = func(cur []int, sum int) {
		chunkings = append(chunkings, append([]int(nil), cur...))
		if len(cur) == 3 {
			return
		}
		for l := 0; sum+l <= maxBytes; l++ {
			rec(append(cur, l), sum+l)
		}
	}
	rec(nil, 0)
	type op struct{ kind, o, n int }
	for ci, lens := range chunkings {
		size0 := 0
		for _, l := range lens {
			size0 += l
		}
		pres, posts := make([]int, len(lens)), make([]int, len(lens))
		for i := range lens {
			pres[i], posts[i] = (ci+i)%2, (ci+i+1)%2
		}
		var seqs func(prefix []op, nobj int)
		run := func(seq []op) {
			c := newVVCase(lens, pres, posts)
			obs0 := observe(c.objs[0])
			for _, o := range seq {
				n := o.n
				if o.kind == 3 && n == 0 {
					n = len(c.objs[o.o].Views())
				}
				if !c.apply(o.kind, o.o, n) {
					break
				}
			}
			c.emit(obs0)
			count++
		}
		seqs = func(prefix []op, nobj int) {
			run(prefix)
			if len(prefix) == L {
				return
			}
			for o := 0; o < nobj; o++ {
				for n := -1; n <= size0+1; n++ {
					seqs(append(prefix, op{0, o, n}), nobj)
					seqs(append(prefix, op{1, o, n}), nobj)
				}
				seqs(append(prefix, op{2, o, 0}), nobj)
			}
			if nobj == 1 {
				seqs(append(prefix, op{3, 0, -1}), 2)
				seqs(append(prefix, op{3, 0, 0}), 2) // 0 = "exactly fitting" (resolved in run)
			}
		}
		seqs(nil, 1)
	}
	return count
}

// ---------------------------------------------------------------- single views

func randomView(r *gen.Rng) {
	L := r.Intn(13)
	arr := make([]byte, L)
	for i := range arr {
		arr[i] = byte(i + 1)
	}
	off := r.Intn(L + 1)
	l := r.Intn(L - off + 1)
	v := buffer.View(arr[off : off+l])
	nops := r.Intn(9)
	var ops, obs []string
	pick := func(hi int) int { // mostly within [0,hi], sometimes -1 or beyond
		switch r.Intn(8) {
		case 0:
			return -1
		case 1:
			return hi + 1 + r.Intn(2)
		default:
			return r.Intn(hi + 1)
		}
	}
	for k := 0; k < nops; k++ {
		var term string
		var ret []byte
		kind := r.Intn(5)
		var a, b, c int
		switch kind {
		case 0:
			a = pick(len(v))
			term = fmt.Sprintf("VTrim %s", zs(a))
		case 1:
			if r.Bool() {
				a = pick(len(v))
			} else {
				a = pick(cap(v))
			}
			term = fmt.Sprintf("VCap %s", zs(a))
		case 2:
			if r.Intn(4) == 0 {
				a = pick(cap(v))
			} else {
				a = pick(len(v))
			}
			term = fmt.Sprintf("VNext %s", zs(a))
		case 3:
			b = pick(cap(v))
			a = pick(b)
			if b < 0 {
				a = pick(cap(v))
			}
			term = fmt.Sprintf("VSlice2 %s %s", zs(a), zs(b))
		case 4:
			c = pick(cap(v))
			b = pick(c)
			if c < 0 {
				b = pick(cap(v))
			}
			a = pick(b)
			if b < 0 {
				a = pick(cap(v))
			}
			term = fmt.Sprintf("VSlice3 %s %s %s", zs(a), zs(b), zs(c))
		}
		panicked := func() (p bool) {
			defer func() {
				if r := recover(); r != nil {
					p = true
				}
			}()
			switch kind {
			case 0:
				v.TrimFront(a)
			case 1:
				v.CapLength(a)
			case 2:
				ret = v.NextBytes(a)
			case 3:
				v = v[a:b]
			case 4:
				v = v[a:b:c]
			}
			return false
		}()
		if panicked {
			ret = nil
			stat["view.panicked"]++
		}
		stat[[]string{"view.op.trim", "view.op.cap", "view.op.next", "view.op.slice2", "view.op.slice3"}[kind]]++
		tv := v.ToVectorisedView()
		ops = append(ops, term)
		obs = append(obs, fmt.Sprintf("Vo %s %s %s %s %s %s", bb(panicked), bl(ret), bl(v), bl(v[:cap(v)]),
			zs(tv.Size()), bl(tv.ToView())))
	}
	fmt.Fprintf(w, "CView %s %d %d [%s] [%s]\n", bl(arr), off, l, strings.Join(ops, ";"), strings.Join(obs, ";"))
}

// ---------------------------------------------------------------- prependable

func randomPrep(r *gen.Rng) {
	fromView := r.Intn(4) == 0
	var p buffer.Prependable
	size := 0
	var initb []byte
	next := byte(1)
	if fromView {
		initb = make([]byte, r.Intn(7))
		for i := range initb {
			initb[i] = next
			next++
		}
		v := buffer.NewView(len(initb))
		copy(v, initb)
		p = buffer.NewPrependableFromView(v)
	} else {
		size = r.Intn(41)
		p = buffer.NewPrependable(size)
	}
	avail := size
	nops := r.Intn(11)
	var ops, obs []string
	for k := 0; k < nops; k++ {
		var n int
		switch r.Intn(20) {
		case 0:
			n = -1 - r.Intn(3)
			stat["prep.negative"]++
		case 1, 2:
			n = avail + 1 + r.Intn(3)
		case 3:
			n = avail
		case 4:
			n = 0
		default:
			n = r.Intn(avail/2 + 2)
		}
		var reg []byte
		kind := 0
		func() {
			defer func() {
				if r := recover(); r != nil {
					kind = 2
				}
			}()
			reg = p.Prepend(n)
			if reg != nil {
				kind = 1
			}
		}()
		var data []byte
		rl, rc := 0, 0
		if kind == 1 {
			rl, rc = len(reg), cap(reg)
			data = make([]byte, len(reg))
			for i := range data {
				data[i] = next
				next++
			}
			copy(reg, data)
			if n >= 0 {
				avail -= n
			}
		}
		stat[[]string{"prep.nil", "prep.region", "prep.panic"}[kind]]++
		used := p.UsedLength()
		var view []byte
		vpanic := func() (pp bool) {
			defer func() {
				if r := recover(); r != nil {
					pp = true
				}
			}()
			view = p.View()
			return false
		}()
		ops = append(ops, fmt.Sprintf("(%s, %s)", zs(n), bl(data)))
		obs = append(obs, fmt.Sprintf("Po %d %d %d %s %s %s", kind, rl, rc, zs(used), bb(vpanic), bl(view)))
	}
	fmt.Fprintf(w, "CPrep %s %d %s [%s] [%s]\n", bb(fromView), size, bl(initb), strings.Join(ops, ";"), strings.Join(obs, ";"))
}

func main() {
	log.SetOutput(io.Discard)
	seed := flag.Uint64("seed", 1, "seed")
	n := flag.Int("n", 3000, "number of random VectorisedView histories (plus n/4 View and n/4 Prependable histories)")
	exhB := flag.Int("exhbytes", 0, "exhaustive part: chunkings of at most this many bytes (0 = off)")
	exhL := flag.Int("exhlen", 2, "exhaustive part: operation sequences up to this length")
	flag.Parse()
	w = bufio.NewWriterSize(os.Stdout, 1<<20)
	defer w.Flush()
	if *exhB > 0 {
		c := exhaustiveVV(*exhB, *exhL)
		stat["vv.exhaustive"] = c
	}
	r := gen.New(*seed)
	for i := 0; i < *n; i++ {
		randomVV(r)
		if i%4 == 0 {
			randomView(r)
			randomPrep(r)
		}
	}
	keys := make([]string, 0, len(stat))
	for k := range stat {
		keys = append(keys, k)
	}
	sortStrings(keys)
	for _, k := range keys {
		fmt.Fprintf(w, "# %s %d\n", k, stat[k])
	}
}

func sortStrings(a []string) {
	for i := 1; i < len(a); i++ {
		for j := i; j > 0 && a[j] < a[j-1]; j-- {
			a[j], a[j-1] = a[j-1], a[j]
		}
	}
}
