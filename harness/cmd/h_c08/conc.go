// conc.go: concurrent delivery to Fragmentation.Process.
//
// CONTROLLED schedules.  lib/specs/C08.py builds the driver with an overlay that replaces
// fragmentation.go by an instrumented copy of the CURRENT file of the tree under test: a call
// verifYield(f, 1) right after the f.mu.Unlock() that ends phase 1 of Process and verifYield(f, 2)
// right after r.process(...) has returned, i.e. between the three mutex-protected phases; the hook
// is a package-level func variable that is nil unless this driver installs it.  A run starts K
// goroutines, each making its list of Process calls on ONE Fragmentation; exactly one goroutine is
// released at a time and runs one phase (P1: lookup / tooOld-release / create under f.mu; P2:
// r.process under r.mu; P3: accounting, release, eviction under f.mu, return), all others are
// parked at their schedule point (or before the start of their next call).  After every step the
// driver snapshots f.size, len(f.reassemblers) and the ids in rList order.  One run is printed as
//
//	CConc kind high low timeout dgs progs steps
//
// kind 5 exhaustive / sampled interleavings of 2 goroutines on one id, 6 random 3-goroutine
// schedules on 1-2 ids, 7 the same with a 40 ms reassembly timeout and 130 ms sleeps between
// bursts of steps (now = burst number of the call's P1 step, model timeout 0), 8 small high/low
// limits (eviction).  dgs as in CRun (every fragment is a consistent fragment of its id's datagram);
// progs: per goroutine its calls `COp id first last more pl now status ret rsize`, status 0 =
// returned not done, 1 = returned done, 2 = panicked (recover() in the goroutine, which then stops),
// 3 = never started; steps: `CS thread fsize nmap [ids]` in the order the steps were granted.
//
// UNCONTROLLED stress (search aid only, never compared with the model): rounds of plain goroutines
// in the style of the reproducer of /repo commit 3ed1739 (fragment A sequentially, then B, A, B from
// three goroutines at once, a fresh id per round).  Rounds with the same outcome are merged:
//
//	CStress high low dgs progs count
package main

import (
	"fmt"
	"sort"
	"strings"
	"sync"
	"time"

	"aaverif/internal/gen"

	"github.com/brewlin/net-protocol/pkg/buffer"
	"github.com/brewlin/net-protocol/protocol/network/fragmentation"
)

type stepObs struct {
	t     int
	fsize int
	nmap  int
	lids  []uint32
}

type concCase struct {
	kind      int
	high, low int
	timeout   int
	real      time.Duration
	dgs       []dgT
	progs     [][]opT
	plan      []int // planned schedule: thread per step
	planBurst []int // burst number of each planned step (kind 7), nil otherwise
	steps     []stepObs
	hung      bool
	stress    int // > 0: an uncontrolled stress outcome, merged count
}

const (
	evYield = iota
	evRet
	evDead
)

type ctlT struct {
	grant []chan struct{}
	ev    chan int
	cur   int
}

var registry sync.Map // *fragmentation.Fragmentation -> *ctlT

// yieldHook is installed into package fragmentation; Fragmentations that are not under a controlled
// run (the sequential runs, the stress phase) pass straight through.
func yieldHook(f *fragmentation.Fragmentation, phase int) {
	v, ok := registry.Load(f)
	if !ok {
		return
	}
	c := v.(*ctlT)
	t := c.cur
	c.ev <- evYield
	<-c.grant[t]
}

// runConc executes the planned schedule; false = a burst took too long for the now classes to be
// trusted (kind 7 only)
func runConc(c *concCase, vvseed uint64) bool {
	r := gen.New(vvseed)
	f := fragmentation.NewFragmentation(c.high, c.low, c.real)
	k := len(c.progs)
	ctl := &ctlT{grant: make([]chan struct{}, k), ev: make(chan int)}
	vvs := make([][]buffer.VectorisedView, k)
	left := make([]int, k)
	for t := range c.progs {
		ctl.grant[t] = make(chan struct{})
		vvs[t] = make([]buffer.VectorisedView, len(c.progs[t]))
		for i := range c.progs[t] {
			o := &c.progs[t][i]
			o.executed, o.panicked, o.done, o.ret, o.rsize, o.burst = false, false, false, nil, 0, 0
			vvs[t][i] = toVV(r, o.pl)
		}
		left[t] = 3 * len(c.progs[t])
	}
	registry.Store(f, ctl)
	defer registry.Delete(f)
	for t := range c.progs {
		go func(t int) {
			for i := range c.progs[t] {
				<-ctl.grant[t]
				o := &c.progs[t][i]
				call(f, o, vvs[t][i])
				if o.panicked {
					ctl.ev <- evDead
					return
				}
				ctl.ev <- evRet
			}
		}(t)
	}
	c.steps = c.steps[:0]
	c.hung = false
	burst := 0
	start := time.Now()
	ok := true
	for si, t := range c.plan {
		if left[t] == 0 {
			continue
		}
		if c.planBurst != nil && c.planBurst[si] != burst {
			if time.Since(start) > burstMax {
				ok = false
			}
			time.Sleep(realSleep * time.Duration(c.planBurst[si]-burst))
			burst = c.planBurst[si]
			start = time.Now()
		}
		ci := len(c.progs[t]) - (left[t]+2)/3
		if left[t]%3 == 0 { // this step is the call's P1: it reads the clock
			c.progs[t][ci].burst = burst
			c.progs[t][ci].executed = true
		}
		ctl.cur = t
		ctl.grant[t] <- struct{}{}
		select {
		case e := <-ctl.ev:
			if e == evDead {
				left[t] = 0
			} else {
				left[t]--
			}
		case <-time.After(3 * time.Second):
			// a goroutine that does not come back: reported like a panic of its current call
			c.hung = true
			c.progs[t][ci].panicked = true
			left[t] = 0
		}
		fs, nm, ids := f.VerifState()
		c.steps = append(c.steps, stepObs{t: t, fsize: fs, nmap: nm, lids: ids})
		if c.hung {
			break
		}
	}
	if c.planBurst != nil && time.Since(start) > burstMax {
		ok = false
	}
	if !c.hung {
		// the plan covers every step of every goroutine; anything left is a harness bug
		for t := range left {
			if left[t] != 0 {
				panic(fmt.Sprintf("h_c08: plan ended with %d steps of goroutine %d left", left[t], t))
			}
		}
	}
	return ok
}

func statusOf(o *opT) int {
	switch {
	case !o.executed:
		return 3
	case o.panicked:
		return 2
	case o.done:
		return 1
	}
	return 0
}

func renderProgs(sb *strings.Builder, c *concCase) {
	salts := []int{}
	for _, d := range c.dgs {
		salts = append(salts, d.salt)
	}
	sb.WriteString("[")
	for i, d := range c.dgs {
		if i > 0 {
			sb.WriteByte(';')
		}
		dd := d
		fmt.Fprintf(sb, "(%d,%s)", d.id, plSegOf(&dd, 0, len(d.data)))
	}
	sb.WriteString("] [")
	for t, p := range c.progs {
		if t > 0 {
			sb.WriteByte(';')
		}
		sb.WriteString("[")
		for i := range p {
			o := &p[i]
			if i > 0 {
				sb.WriteByte(';')
			}
			fmt.Fprintf(sb, "COp %d %d %d %s %s %d %d %s %d", o.id, o.first, o.last, b2s(o.more), o.plSeg, o.burst,
				statusOf(o), encodeBytes(o.ret, salts), o.rsize)
		}
		sb.WriteString("]")
	}
	sb.WriteString("]")
}

func renderConc(c *concCase) string {
	var sb strings.Builder
	if c.stress > 0 {
		fmt.Fprintf(&sb, "CStress %s %s ", zs(c.high), zs(c.low))
		renderProgs(&sb, c)
		fmt.Fprintf(&sb, " %d", c.stress)
		return sb.String()
	}
	fmt.Fprintf(&sb, "CConc %d %s %s %d ", c.kind, zs(c.high), zs(c.low), c.timeout)
	renderProgs(&sb, c)
	sb.WriteString(" [")
	for i, s := range c.steps {
		if i > 0 {
			sb.WriteByte(';')
		}
		ids := make([]string, len(s.lids))
		for k, x := range s.lids {
			ids[k] = fmt.Sprint(x)
		}
		fmt.Fprintf(&sb, "CS %d %d %d [%s]", s.t, s.fsize, s.nmap, strings.Join(ids, ";"))
	}
	sb.WriteString("]")
	return sb.String()
}

// ---------------------------------------------------------------- generators

func newConc(kind int) *concCase {
	return &concCase{kind: kind, high: fragmentation.HighFragThreshold, low: fragmentation.LowFragThreshold,
		timeout: 1000000, real: fragmentation.DefaultReassembleTimeout}
}

// evenPieces cuts [0,n) into np pieces at multiples of 8
func evenPieces(n, np int) []piece {
	cuts := []int{}
	for k := 1; k < np; k++ {
		cuts = append(cuts, 8*k)
	}
	return piecesOf(n, cuts)
}

// interleavings enumerates all merges of a steps of thread 0 with b steps of thread 1
func interleavings(a, b int, emit func([]int)) {
	cur := make([]int, 0, a+b)
	var rec func(x, y int)
	rec = func(x, y int) {
		if x == 0 && y == 0 {
			emit(append([]int(nil), cur...))
			return
		}
		if x > 0 {
			cur = append(cur, 0)
			rec(x-1, y)
			cur = cur[:len(cur)-1]
		}
		if y > 0 {
			cur = append(cur, 1)
			rec(x, y-1)
			cur = cur[:len(cur)-1]
		}
	}
	rec(a, b)
}

func binom(n, k int) int {
	r := 1
	for i := 1; i <= k; i++ {
		r = r * (n - k + i) / i
	}
	return r
}

// randomPlan: a random merge of the goroutines' steps; sticky = a goroutine tends to keep running
func randomPlan(r *gen.Rng, nsteps []int, sticky bool) []int {
	left := append([]int(nil), nsteps...)
	plan := []int{}
	last := -1
	for {
		live := []int{}
		for t, l := range left {
			if l > 0 {
				live = append(live, t)
			}
		}
		if len(live) == 0 {
			return plan
		}
		t := live[r.Intn(len(live))]
		if sticky && last >= 0 && left[last] > 0 && r.Intn(3) != 0 {
			t = last
		}
		plan = append(plan, t)
		left[t]--
		last = t
	}
}

// a shape: per goroutine the indices of the pieces it delivers (pieces of ONE datagram)
type shape struct {
	np        int // pieces of the datagram
	progs     [][]int
	high, low int // 0,0 = default limits
}

var shapes2 = []shape{
	{2, [][]int{{0}, {1}}, 0, 0},
	{2, [][]int{{1}, {1}}, 0, 0},
	{2, [][]int{{0, 1}, {1}}, 0, 0}, // the duplicate of the completing fragment: /repo commit 3ed1739
	{2, [][]int{{1, 0}, {0}}, 0, 0},
	{2, [][]int{{0, 1}, {0}}, 0, 0},
	{2, [][]int{{0, 1, 1}, {1}}, 0, 0},
	{3, [][]int{{0, 1, 2}, {2}}, 0, 0},
	{3, [][]int{{2, 0, 1}, {1}}, 0, 0},
	{2, [][]int{{0, 1}, {0, 1}}, 0, 0}, // two complete sets: the id is reused by a second reassembler
	{2, [][]int{{0, 1}, {1, 0}}, 0, 0},
	{3, [][]int{{0, 2}, {1, 2}}, 0, 0},
	{2, [][]int{{0, 1}, {1}}, 7, 0},  // every stored fragment exceeds the high limit: evicted at once
	{2, [][]int{{0, 1}, {1}}, 8, 3},  // the second one does
	{3, [][]int{{0, 1, 2}, {2}}, 16, 8},
}

func genExhaustive2(r *gen.Rng, maxPer int, emit func(*concCase)) {
	for si, sh := range shapes2 {
		n := 8*sh.np - (si % 3) // sizes 16, 15, 14 / 24, 23, 22: the last piece may be short
		a, b := 3*len(sh.progs[0]), 3*len(sh.progs[1])
		total := binom(a+b, a)
		mk := func(plan []int) *concCase {
			c := newConc(5)
			if sh.high != 0 || sh.low != 0 {
				c.kind, c.high, c.low = 8, sh.high, sh.low
			}
			id := idPool[si%len(idPool)]
			c.dgs = []dgT{newDatagram(r, id, n)}
			ps := evenPieces(n, sh.np)
			for _, p := range sh.progs {
				ops := []opT{}
				for _, k := range p {
					ops = append(ops, mkOp(&c.dgs[0], ps[k]))
				}
				c.progs = append(c.progs, ops)
			}
			c.plan = plan
			return c
		}
		if maxPer <= 0 || total <= maxPer {
			interleavings(a, b, func(plan []int) { emit(mk(plan)) })
		} else {
			for i := 0; i < maxPer; i++ {
				emit(mk(randomPlan(r, []int{a, b}, i%2 == 1)))
			}
		}
	}
}

// genRandom3: 3 goroutines (sometimes 2 or 4), 1-2 ids, each call a consistent fragment
func genRandom3(r *gen.Rng, kind int) *concCase {
	c := newConc(kind)
	nid := 1 + r.Intn(2)
	if kind == 8 {
		nid = 2 + r.Intn(2)
		c.high = 8 + r.Intn(40)
		c.low = r.Intn(c.high+8) - 3
	}
	ids := pickIds(r, nid)
	pool := []opT{}
	for _, id := range ids {
		np := 2 + r.Intn(2)
		n := 8*np - r.Intn(8)
		c.dgs = append(c.dgs, newDatagram(r, id, n))
		d := &c.dgs[len(c.dgs)-1]
		for _, p := range evenPieces(n, np) {
			pool = append(pool, mkOp(d, p))
			if r.Intn(2) == 0 { // duplicates are the interesting ones
				pool = append(pool, mkOp(d, p))
			}
		}
		if r.Intn(3) == 0 { // an overlapping fragment: the first two pieces in one
			last := 15
			if last > n-1 {
				last = n - 1
			}
			pool = append(pool, mkOp(d, piece{0, last}))
		}
	}
	for i := len(pool) - 1; i > 0; i-- {
		j := r.Intn(i + 1)
		pool[i], pool[j] = pool[j], pool[i]
	}
	k := 3
	switch r.Intn(6) {
	case 0:
		k = 2
	case 1:
		k = 4
	}
	c.progs = make([][]opT, k)
	for i, o := range pool {
		if i >= 9 {
			break
		}
		t := r.Intn(k)
		if i < k {
			t = i
		}
		c.progs[t] = append(c.progs[t], o)
	}
	nsteps := make([]int, k)
	for t := range c.progs {
		nsteps[t] = 3 * len(c.progs[t])
	}
	c.plan = randomPlan(r, nsteps, r.Bool())
	if kind == 7 {
		c.timeout = 0
		c.real = realTimeout
		nb := 1 + r.Intn(2)
		burst := 0
		c.planBurst = make([]int, len(c.plan))
		for i := range c.plan {
			if i > 0 && nb > 0 && r.Intn(len(c.plan)) < 3 {
				burst++
				nb--
			}
			c.planBurst[i] = burst
		}
	}
	return c
}

// ---------------------------------------------------------------- uncontrolled stress

// stressPhase: rounds of [A sequentially; then B, A, B from three goroutines] alternating with
// [A, B, A, B from four goroutines at once], a fresh id per
// round, on one Fragmentation; returns the distinct outcomes with their multiplicities
func stressPhase(r *gen.Rng, budget time.Duration, maxRounds int) ([]*concCase, int) {
	if budget <= 0 || maxRounds <= 0 {
		return nil, 0
	}
	d := newDatagram(r, 0, 16)
	ps := evenPieces(16, 2)
	tmpl := []opT{mkOp(&d, ps[0]), mkOp(&d, ps[1]), mkOp(&d, ps[0]), mkOp(&d, ps[1])}
	f := fragmentation.NewFragmentation(1<<20, 1<<19, fragmentation.DefaultReassembleTimeout)
	outcomes := map[string]*concCase{}
	keys := []string{}
	start := time.Now()
	rounds := 0
	for id := uint32(1); rounds < maxRounds && (rounds%256 != 0 || time.Since(start) < budget); id++ {
		rounds++
		ops := make([]opT, 4)
		copy(ops, tmpl)
		vvs := make([]buffer.VectorisedView, 4)
		for i := range ops {
			ops[i].id = id
			ops[i].executed = true
			vvs[i] = buffer.NewVectorisedView(len(ops[i].pl), []buffer.View{buffer.View(append([]byte(nil), ops[i].pl...))})
		}
		var wg sync.WaitGroup
		if rounds%2 == 0 {
			// all four calls race from the start: no reassembler exists for the id yet
			wg.Add(4)
			for i := 0; i < 4; i++ {
				go func(i int) { defer wg.Done(); call(f, &ops[i], vvs[i]) }(i)
			}
		} else {
			call(f, &ops[0], vvs[0])
			wg.Add(3)
			for i := 1; i < 4; i++ {
				go func(i int) { defer wg.Done(); call(f, &ops[i], vvs[i]) }(i)
			}
		}
		wg.Wait()
		var kb strings.Builder
		for i := range ops {
			fmt.Fprintf(&kb, "%d:%x;", statusOf(&ops[i]), ops[i].ret)
		}
		key := kb.String()
		if c, ok := outcomes[key]; ok {
			c.stress++
			continue
		}
		c := &concCase{high: 1 << 20, low: 1 << 19, stress: 1}
		dd := d
		dd.id = id
		c.dgs = []dgT{dd}
		for i := range ops {
			c.progs = append(c.progs, []opT{ops[i]})
		}
		outcomes[key] = c
		keys = append(keys, key)
	}
	sort.Strings(keys)
	out := []*concCase{}
	for _, k := range keys {
		out = append(out, outcomes[k])
	}
	return out, rounds
}
