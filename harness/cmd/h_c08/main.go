// h_c08: drives the exported fragmentation.Fragmentation.Process (and hash.Hash3Words) of the
// repository under test and prints one Coq term of type NP.Corr.C08.case per line: the inputs of
// every call and what the implementation returned (done, bytes, Size(), panicked) plus a
// read-only snapshot (f.size, len(f.reassemblers), ids in rList order) taken through the accessor
// that lib/specs/C08.py adds to the package with a build overlay (no logic under test in it).
//
// Streams:
//
//	kind 1  consistent fragments of 1..3 interleaved datagrams (8-aligned cuts into <= 5 pieces,
//	        overlapping re-cuts, stretched pieces, duplicates, random or exhaustive orders,
//	        sometimes one piece missing), default limits, no expiry
//	        plus "many pieces" runs: datagrams of 17..64 (a few ~130) 8-byte pieces in random and
//	        adversarial orders (every other piece first, descending, delayed neighbours), re-cuts
//	        overlapping 2-3 neighbouring pieces, duplicates, one or two interleaved ids
//	kind 2  the same with a 40 ms reassembly timeout and 130 ms sleeps between bursts; the model
//	        gets now = burst number and timeout = 0 (expired <=> created in an earlier burst);
//	        a run whose burst took longer than 15 ms is repeated
//	kind 3  consistent fragments of 3..6 small datagrams with small high/low limits (eviction)
//	kind 4  malformed: random (first,last,more,len), first > last, empty payloads, more=false in the
//	        middle, lengths inconsistent with last-first+1, small limits now and then
//	kinds 5-8 and the stress phase: concurrent delivery, see conc.go
package main

import (
	"bufio"
	"flag"
	"fmt"
	"io"
	"log"
	"os"
	"sort"
	"strings"
	"sync"
	"time"

	"aaverif/internal/gen"

	"github.com/brewlin/net-protocol/pkg/buffer"
	"github.com/brewlin/net-protocol/protocol/network/fragmentation"
	"github.com/brewlin/net-protocol/protocol/network/hash"
)

const (
	realTimeout = 40 * time.Millisecond
	realSleep   = 130 * time.Millisecond
	burstMax    = 15 * time.Millisecond
)

func patbyte(salt, i int) byte { return byte(i*31 + (i>>8)*7 + salt) }

type opT struct {
	id          uint32
	first, last uint16
	more        bool
	pl          []byte
	plSeg       string // Coq rendering of pl
	burst       int    // now class
	executed    bool   // concurrent runs: the call was started
	// outputs
	done     bool
	ret      []byte
	rsize    int
	panicked bool
	fsize    int
	nmap     int
	lids     []uint32
}

type dgT struct {
	id   uint32
	salt int
	data []byte
}

type caseT struct {
	kind      int
	high, low int
	timeout   int // model units
	real      time.Duration
	dgs       []dgT
	ops       []opT
	executed  int // number of ops executed (a panic stops the run)
}

func b2s(x bool) string {
	if x {
		return "true"
	}
	return "false"
}

func rawSeg(b []byte) string {
	var sb strings.Builder
	sb.WriteString("Raw [")
	for i, x := range b {
		if i > 0 {
			sb.WriteByte(';')
		}
		fmt.Fprintf(&sb, "%d", x)
	}
	sb.WriteString("]")
	return sb.String()
}

// encodeBytes renders b losslessly as a list of segments; long stretches that follow the test
// pattern of one of the salts become Pat segments.
func encodeBytes(b []byte, salts []int) string {
	if len(b) <= 12 {
		if len(b) == 0 {
			return "[]"
		}
		return "[" + rawSeg(b) + "]"
	}
	var segs []string
	p := 0
	cont := -1 // offset at which the previous Pat segment would continue
	contSalt := 0
	for p < len(b) {
		bestLen, bestOff, bestSalt := 0, 0, 0
		try := func(salt, off int) {
			if off < 0 {
				return
			}
			n := 0
			for p+n < len(b) && b[p+n] == patbyte(salt, off+n) {
				n++
			}
			if n > bestLen {
				bestLen, bestOff, bestSalt = n, off, salt
			}
		}
		if cont >= 0 {
			try(contSalt, cont)
		}
		for _, s := range salts {
			for d := -16; d <= 16; d++ {
				try(s, p+d)
			}
		}
		if bestLen >= 8 {
			segs = append(segs, fmt.Sprintf("Pat %d %d %d", bestSalt, bestOff, bestLen))
			p += bestLen
			cont, contSalt = bestOff+bestLen, bestSalt
			continue
		}
		// raw stretch of up to 16 bytes
		e := p + 16
		if e > len(b) {
			e = len(b)
		}
		segs = append(segs, rawSeg(b[p:e]))
		p = e
		if cont >= 0 {
			cont += 16
		}
	}
	return "[" + strings.Join(segs, ";") + "]"
}

func plSegOf(d *dgT, first, n int) string {
	if n <= 3 {
		if n == 0 {
			return "[]"
		}
		return "[" + rawSeg(d.data[first:first+n]) + "]"
	}
	return fmt.Sprintf("[Pat %d %d %d]", d.salt, first, n)
}

// toVV splits the payload over 1..3 views (the chunk structure is not modelled: C16)
func toVV(r *gen.Rng, b []byte) buffer.VectorisedView {
	c := append([]byte(nil), b...)
	if len(c) < 2 || r.Intn(3) == 0 {
		return buffer.NewVectorisedView(len(c), []buffer.View{buffer.View(c)})
	}
	k := 1 + r.Intn(len(c)-1)
	if len(c)-k >= 2 && r.Bool() {
		k2 := k + 1 + r.Intn(len(c)-k-1)
		return buffer.NewVectorisedView(len(c), []buffer.View{buffer.View(c[:k]), buffer.View(c[k:k2]), buffer.View(c[k2:])})
	}
	return buffer.NewVectorisedView(len(c), []buffer.View{buffer.View(c[:k]), buffer.View(c[k:])})
}

func call(f *fragmentation.Fragmentation, o *opT, vv buffer.VectorisedView) {
	defer func() {
		if e := recover(); e != nil {
			o.panicked = true
			o.done = false
			o.ret = nil
			o.rsize = 0
		}
	}()
	res, done := f.Process(o.id, o.first, o.last, o.more, vv)
	o.done = done
	o.ret = append([]byte(nil), res.ToView()...)
	o.rsize = res.Size()
}

// execute runs the ops of a case on a fresh Fragmentation; false = a burst was too slow for the
// now classes to be trusted (only possible for kind 2)
func execute(c *caseT, vvseed uint64) bool {
	r := gen.New(vvseed)
	f := fragmentation.NewFragmentation(c.high, c.low, c.real)
	burst := 0
	start := time.Now()
	c.executed = 0
	for i := range c.ops {
		o := &c.ops[i]
		if o.burst != burst {
			if time.Since(start) > burstMax {
				return false
			}
			time.Sleep(realSleep * time.Duration(o.burst-burst))
			burst = o.burst
			start = time.Now()
		}
		vv := toVV(r, o.pl)
		o.panicked = false
		call(f, o, vv)
		c.executed = i + 1
		if o.panicked {
			break
		}
		o.fsize, o.nmap, o.lids = f.VerifState()
	}
	return c.kind != 2 || time.Since(start) <= burstMax
}

func render(c *caseT) string {
	var sb strings.Builder
	salts := []int{}
	for _, d := range c.dgs {
		salts = append(salts, d.salt)
	}
	fmt.Fprintf(&sb, "CRun %d %s %s %d [", c.kind, zs(c.high), zs(c.low), c.timeout)
	for i, d := range c.dgs {
		if i > 0 {
			sb.WriteByte(';')
		}
		dd := d
		fmt.Fprintf(&sb, "(%d,%s)", d.id, plSegOf(&dd, 0, len(d.data)))
	}
	sb.WriteString("] [")
	for i := 0; i < c.executed; i++ {
		o := &c.ops[i]
		if i > 0 {
			sb.WriteByte(';')
		}
		ids := make([]string, len(o.lids))
		for k, x := range o.lids {
			ids[k] = fmt.Sprint(x)
		}
		fmt.Fprintf(&sb, "Op %d %d %d %s %s %d %s %s %d %s %d %d [%s]", o.id, o.first, o.last, b2s(o.more), o.plSeg, o.burst,
			b2s(o.done), encodeBytes(o.ret, salts), o.rsize, b2s(o.panicked), o.fsize, o.nmap, strings.Join(ids, ";"))
	}
	sb.WriteString("]")
	return sb.String()
}

func zs(x int) string {
	if x < 0 {
		return fmt.Sprintf("(%d)", x)
	}
	return fmt.Sprint(x)
}

// ---------------------------------------------------------------- generators

type piece struct {
	first, last int
}

// cutPoints returns the pieces of [0,n) cut at the given 8-aligned points
func piecesOf(n int, cuts []int) []piece {
	sort.Ints(cuts)
	ps := []piece{}
	a := 0
	for _, c := range cuts {
		ps = append(ps, piece{a, c - 1})
		a = c
	}
	return append(ps, piece{a, n - 1})
}

func randomCuts(r *gen.Rng, n, maxPieces int) []int {
	m := (n - 1) / 8 // admissible cut points 8,16,...,8m
	k := r.Intn(maxPieces)
	if k > m {
		k = m
	}
	seen := map[int]bool{}
	cuts := []int{}
	for len(cuts) < k {
		c := 8 * (1 + r.Intn(m))
		if !seen[c] {
			seen[c] = true
			cuts = append(cuts, c)
		}
	}
	return cuts
}

func newDatagram(r *gen.Rng, id uint32, n int) dgT {
	salt := r.Intn(251)
	d := make([]byte, n)
	for i := range d {
		d[i] = patbyte(salt, i)
	}
	return dgT{id: id, salt: salt, data: d}
}

func mkOp(d *dgT, p piece) opT {
	n := p.last - p.first + 1
	return opT{id: d.id, first: uint16(p.first), last: uint16(p.last), more: p.last < len(d.data)-1,
		pl: d.data[p.first : p.last+1], plSeg: plSegOf(d, p.first, n)}
}

// consistentSeq: a sequence of fragments of d (see the file comment)
func consistentSeq(r *gen.Rng, d *dgT, maxPieces int) []opT {
	n := len(d.data)
	ps := piecesOf(n, randomCuts(r, n, maxPieces))
	if len(ps) > 1 && r.Intn(7) == 0 { // one piece missing: incomplete set
		k := r.Intn(len(ps))
		ps = append(ps[:k:k], ps[k+1:]...)
	}
	switch r.Intn(4) {
	case 0: // overlapping re-cut
		ps = append(ps, piecesOf(n, randomCuts(r, n, maxPieces))...)
	case 1: // stretched pieces: same aligned start, later end; or an earlier aligned start
		for k := 0; k < 2; k++ {
			p := ps[r.Intn(len(ps))]
			if r.Bool() {
				p.last += r.Intn(n - p.last)
			} else {
				p.first = 8 * r.Intn(p.first/8+1)
			}
			ps = append(ps, p)
		}
	}
	ops := []opT{}
	for _, p := range ps {
		ops = append(ops, mkOp(d, p))
		if r.Intn(4) == 0 { // duplicate
			ops = append(ops, mkOp(d, p))
		}
	}
	// random order
	for i := len(ops) - 1; i > 0; i-- {
		j := r.Intn(i + 1)
		ops[i], ops[j] = ops[j], ops[i]
	}
	return ops
}

func interleave(r *gen.Rng, seqs [][]opT) []opT {
	out := []opT{}
	for {
		live := []int{}
		for i, s := range seqs {
			if len(s) > 0 {
				live = append(live, i)
			}
		}
		if len(live) == 0 {
			return out
		}
		i := live[r.Intn(len(live))]
		out = append(out, seqs[i][0])
		seqs[i] = seqs[i][1:]
	}
}

var idPool = []uint32{0, 1, 2, 7, 0x7fffffff, 0x80000000, 0xfffffffe, 0xffffffff, 1000, 65536}

func pickIds(r *gen.Rng, k int) []uint32 {
	ids := []uint32{}
	for len(ids) < k {
		var x uint32
		if r.Bool() {
			x = idPool[r.Intn(len(idPool))]
		} else {
			x = r.U32()
		}
		dup := false
		for _, y := range ids {
			dup = dup || x == y
		}
		if !dup {
			ids = append(ids, x)
		}
	}
	return ids
}

var bigSizes = []int{65515, 65514, 65508, 65507, 65509, 65512, 65500, 40000}

func smallSize(r *gen.Rng) int {
	switch r.Intn(5) {
	case 0:
		return 1 + r.Intn(17)
	case 1:
		return 8 * (1 + r.Intn(25))
	default:
		return 1 + r.Intn(200)
	}
}

func genConsistent(r *gen.Rng, kind int, big bool) *caseT {
	c := &caseT{kind: kind, high: fragmentation.HighFragThreshold, low: fragmentation.LowFragThreshold,
		timeout: 1000000, real: fragmentation.DefaultReassembleTimeout}
	nid := 1 + r.Intn(3)
	maxN := 0
	if kind == 3 {
		nid = 3 + r.Intn(4)
		c.high = 8 + r.Intn(300)
		c.low = r.Intn(c.high+16) - 5
	}
	ids := pickIds(r, nid)
	seqs := [][]opT{}
	for i, id := range ids {
		n := smallSize(r)
		if kind == 3 {
			n = 1 + r.Intn(120)
		}
		if big && i == 0 {
			n = bigSizes[r.Intn(len(bigSizes))]
		}
		if n > maxN {
			maxN = n
		}
		c.dgs = append(c.dgs, newDatagram(r, id, n))
		d := &c.dgs[len(c.dgs)-1]
		s := consistentSeq(r, d, 5)
		if r.Intn(3) == 0 { // the same datagram id is used again after (possibly) completing
			s = append(s, consistentSeq(r, d, 3)...)
		}
		seqs = append(seqs, s)
	}
	c.ops = interleave(r, seqs)
	if kind == 2 {
		c.timeout = 0
		c.real = realTimeout
		nb := 1 + r.Intn(3)
		burst := 0
		for i := range c.ops {
			if i > 0 && nb > 0 && r.Intn(len(c.ops)) < 3 {
				burst++
				nb--
			}
			c.ops[i].burst = burst
		}
	}
	return c
}

// manySeq: a datagram cut into MANY 8-byte pieces (the hole list of the reassembler grows past
// 16, 32, 64 ... records), delivered in random or adversarial orders, with re-cuts overlapping
// 2-3 neighbouring pieces and duplicates mixed in.
func manySeq(r *gen.Rng, d *dgT) []opT {
	n := len(d.data)
	np := (n + 7) / 8
	pc := func(k, w int) piece { // w pieces starting at piece k
		last := 8*(k+w) - 1
		if last > n-1 {
			last = n - 1
		}
		return piece{8 * k, last}
	}
	order := []int{}
	switch r.Intn(6) {
	case 0: // random
		for k := 0; k < np; k++ {
			order = append(order, k)
		}
		for i := np - 1; i > 0; i-- {
			j := r.Intn(i + 1)
			order[i], order[j] = order[j], order[i]
		}
	case 1: // every other piece first (holes multiply), then the gaps ascending
		for k := 0; k < np; k += 2 {
			order = append(order, k)
		}
		for k := 1; k < np; k += 2 {
			order = append(order, k)
		}
	case 2: // every other piece first, then the gaps in random order
		for k := 0; k < np; k += 2 {
			order = append(order, k)
		}
		gaps := []int{}
		for k := 1; k < np; k += 2 {
			gaps = append(gaps, k)
		}
		for i := len(gaps) - 1; i > 0; i-- {
			j := r.Intn(i + 1)
			gaps[i], gaps[j] = gaps[j], gaps[i]
		}
		order = append(order, gaps...)
	case 3: // descending
		for k := np - 1; k >= 0; k-- {
			order = append(order, k)
		}
	case 4: // ascending with two or three neighbouring pieces delayed
		a := 1 + r.Intn(np-3)
		w := 2 + r.Intn(2)
		delayed := []int{}
		for k := 0; k < np; k++ {
			if k >= a && k < a+w && k < np-1 {
				delayed = append(delayed, k)
			} else {
				order = append(order, k)
			}
		}
		at := len(order) - r.Intn(len(order)/2+1)
		order = append(order[:at:at], append(delayed, order[at:]...)...)
	default: // every third, then the rest descending
		for k := 0; k < np; k += 3 {
			order = append(order, k)
		}
		for k := np - 1; k >= 0; k-- {
			if k%3 != 0 {
				order = append(order, k)
			}
		}
	}
	if r.Intn(12) == 0 && len(order) > 1 { // one piece never arrives
		k := r.Intn(len(order))
		order = append(order[:k:k], order[k+1:]...)
	}
	ops := []opT{}
	for _, k := range order {
		ops = append(ops, mkOp(d, pc(k, 1)))
	}
	// duplicates and overlapping re-cuts, inserted at random positions (more towards the end,
	// when many hole records exist)
	extra := 2 + r.Intn(2+np/6)
	for e := 0; e < extra; e++ {
		var o opT
		if r.Intn(3) == 0 {
			o = mkOp(d, pc(r.Intn(np), 1))
		} else {
			w := 2 + r.Intn(2)
			o = mkOp(d, pc(r.Intn(np-w+1), w))
		}
		lo := 0
		if r.Bool() {
			lo = len(ops) / 2
		}
		at := lo + r.Intn(len(ops)-lo+1)
		ops = append(ops[:at:at], append([]opT{o}, ops[at:]...)...)
	}
	return ops
}

func genMany(r *gen.Rng, huge bool) *caseT {
	c := &caseT{kind: 1, high: fragmentation.HighFragThreshold, low: fragmentation.LowFragThreshold,
		timeout: 1000000, real: fragmentation.DefaultReassembleTimeout}
	nid := 1 + r.Intn(2)
	ids := pickIds(r, nid)
	seqs := [][]opT{}
	for i, id := range ids {
		np := 17 + r.Intn(48) // 17..64 pieces
		if huge && i == 0 {
			np = 120 + r.Intn(16)
		}
		n := 8*np - r.Intn(8)
		c.dgs = append(c.dgs, newDatagram(r, id, n))
		seqs = append(seqs, manySeq(r, &c.dgs[len(c.dgs)-1]))
	}
	c.ops = interleave(r, seqs)
	return c
}

// exhaustive: every cut of a datagram of size n into <= maxPieces pieces, every order
func genExhaustive(r *gen.Rng, n, maxPieces int, emit func(*caseT)) {
	m := (n - 1) / 8
	for mask := 0; mask < 1<<uint(m); mask++ {
		cuts := []int{}
		for b := 0; b < m; b++ {
			if mask&(1<<uint(b)) != 0 {
				cuts = append(cuts, 8*(b+1))
			}
		}
		if len(cuts)+1 > maxPieces {
			continue
		}
		ps := piecesOf(n, cuts)
		perm := make([]int, len(ps))
		for i := range perm {
			perm[i] = i
		}
		var rec func(k int)
		rec = func(k int) {
			if k == len(perm) {
				c := &caseT{kind: 1, high: fragmentation.HighFragThreshold, low: fragmentation.LowFragThreshold,
					timeout: 1000000, real: fragmentation.DefaultReassembleTimeout}
				c.dgs = []dgT{newDatagram(r, uint32(n), n)}
				for _, i := range perm {
					c.ops = append(c.ops, mkOp(&c.dgs[0], ps[i]))
				}
				emit(c)
				return
			}
			for i := k; i < len(perm); i++ {
				perm[k], perm[i] = perm[i], perm[k]
				rec(k + 1)
				perm[k], perm[i] = perm[i], perm[k]
			}
		}
		rec(0)
	}
}

var firsts = []uint16{0, 8, 16, 24, 32, 1, 7, 9, 65528, 65535, 65520, 64}
var lasts = []uint16{0, 7, 15, 23, 31, 8, 65535, 65534, 39, 63}

func genMalformed(r *gen.Rng) *caseT {
	c := &caseT{kind: 4, high: fragmentation.HighFragThreshold, low: fragmentation.LowFragThreshold,
		timeout: 1000000, real: fragmentation.DefaultReassembleTimeout}
	if r.Intn(3) == 0 {
		c.high = r.Intn(60)
		c.low = r.Intn(70) - 5
	}
	ids := pickIds(r, 1+r.Intn(2))
	nops := 1 + r.Intn(10)
	mk := func(id uint32, first, last uint16, more bool, n int) opT {
		pl := r.Bytes(n)
		s := "[]"
		if n > 0 {
			s = "[" + rawSeg(pl) + "]"
		}
		return opT{id: id, first: first, last: last, more: more, pl: pl, plSeg: s}
	}
	if r.Intn(6) == 0 {
		// the shape that made the unrepaired code panic: an empty fragment with first > last
		// followed by one that fills everything else (variations on the payload lengths)
		id := ids[0]
		a := uint16(8 * (1 + r.Intn(4)))
		c.ops = append(c.ops, mk(id, a, a-1, true, r.Intn(2)*r.Intn(4)))
		c.ops = append(c.ops, mk(id, 0, 65535, r.Bool(), r.Intn(2)*r.Intn(9)))
	}
	for i := 0; i < nops; i++ {
		id := ids[r.Intn(len(ids))]
		var first, last uint16
		switch r.Intn(4) {
		case 0:
			first, last = firsts[r.Intn(len(firsts))], lasts[r.Intn(len(lasts))]
		case 1:
			first = uint16(8 * r.Intn(6))
			last = first + uint16(r.Intn(16))
		case 2:
			first = uint16(8 * r.Intn(6))
			last = uint16(r.Intn(48))
		default:
			first, last = uint16(r.U32()), uint16(r.U32())
		}
		n := 0
		switch r.Intn(4) {
		case 0:
			n = 0
		case 1:
			n = int(last) - int(first) + 1 // consistent length (when positive and small)
			if n < 0 || n > 64 {
				n = r.Intn(20)
			}
		default:
			n = r.Intn(20)
		}
		more := r.Intn(3) != 0
		c.ops = append(c.ops, mk(id, first, last, more, n))
	}
	return c
}

// fixedCases: boundary runs that are always made first (kind 4: no consistency promise)
func fixedCases() []*caseT {
	mk := func(id uint32, first, last uint16, more bool, pl []byte) opT {
		s := "[]"
		if len(pl) > 0 {
			s = "[" + rawSeg(pl) + "]"
		}
		return opT{id: id, first: first, last: last, more: more, pl: pl, plSeg: s}
	}
	base := func(ops ...opT) *caseT {
		return &caseT{kind: 4, high: fragmentation.HighFragThreshold, low: fragmentation.LowFragThreshold,
			timeout: 1000000, real: fragmentation.DefaultReassembleTimeout, ops: ops}
	}
	cs := []*caseT{
		// the input on which the unrepaired code panicked ("packet has a hole"), then the id again
		base(mk(1, 8, 7, true, nil), mk(1, 0, 65535, true, nil), mk(1, 0, 3, false, []byte{1, 2, 3, 4})),
		// a variant through a middle fragment with more=false
		base(mk(2, 0, 7, true, []byte{1, 2, 3, 4, 5, 6, 7, 8}), mk(2, 16, 23, false, []byte{9, 9, 9, 9, 9, 9, 9, 9}),
			mk(2, 8, 15, false, nil), mk(2, 8, 15, true, []byte{5})),
		// first offset != 0 at reassembly: everything "covered" by an empty fragment
		base(mk(3, 0, 65535, false, nil)),
		base(mk(3, 8, 65535, false, []byte{7}), mk(3, 0, 7, true, nil)),
		// whole datagram in one call; one byte; maximal last
		base(mk(4, 0, 0, false, []byte{42})),
		base(mk(4, 0, 65535, false, []byte{1, 2, 3})),
		// tiny limits: every stored fragment is evicted at once
		{kind: 4, high: 0, low: 0, timeout: 1000000, real: fragmentation.DefaultReassembleTimeout,
			ops: []opT{mk(5, 0, 7, true, []byte{1, 2, 3, 4, 5, 6, 7, 8}), mk(5, 8, 9, false, []byte{9, 10})}},
		{kind: 4, high: -1, low: -7, timeout: 1000000, real: fragmentation.DefaultReassembleTimeout,
			ops: []opT{mk(5, 0, 7, true, nil), mk(6, 0, 7, true, []byte{1}), mk(5, 8, 9, false, []byte{9, 10})}},
	}
	return cs
}

func main() {
	log.SetOutput(io.Discard)
	seed := flag.Uint64("seed", 1, "seed")
	n := flag.Int("n", 600, "number of random runs")
	nbig := flag.Int("big", 3, "number of runs with a datagram near the maximum size")
	exh := flag.Int("exh", 24, "exhaustive cuts and orders for datagram sizes up to this")
	nhash := flag.Int("hash", 100, "number of Hash3Words cases")
	nmany := flag.Int("many", 200, "number of runs with datagrams of 17..64 (a few ~130) 8-byte pieces")
	spread := flag.Int("spread", 59, "distance between two runs with a large datagram in the output")
	concx := flag.Int("concx", 250, "controlled schedules: shapes with more interleavings than this are sampled (0 = enumerate all)")
	concr := flag.Int("concr", 300, "controlled schedules: random 3-goroutine runs")
	conce := flag.Int("conce", 120, "controlled schedules: random runs with small memory limits")
	conct := flag.Int("conct", 40, "controlled schedules: random runs with reassembly timeouts")
	noconc := flag.Bool("noconc", false, "skip the controlled concurrent runs (the schedule points could not be inserted into fragmentation.go); the stress phase still runs")
	stressMs := flag.Int("stress", 3000, "uncontrolled stress phase: time budget in ms (0 = none)")
	stressMax := flag.Int("stressmax", 400000, "uncontrolled stress phase: maximal number of rounds")
	flag.Parse()
	r := gen.New(*seed)
	// uncontrolled stress first, while the schedule-point hook is still nil
	stressCases, stressRounds := stressPhase(gen.New(*seed+77), time.Duration(*stressMs)*time.Millisecond, *stressMax)
	fragmentation.VerifSetYield(yieldHook)
	cases := []*caseT{}
	add := func(c *caseT) { cases = append(cases, c) }
	for _, c := range fixedCases() {
		add(c)
	}
	// boundary sizes, exhaustively
	for _, sz := range []int{1, 7, 8, 9, 16, 17, 24, 25, 32, 33, 40} {
		if sz <= *exh {
			genExhaustive(r, sz, 4, add)
		}
	}
	for i := 0; i < *n; i++ {
		switch i % 10 {
		case 0, 1, 2, 3:
			add(genConsistent(r, 1, false))
		case 4:
			add(genConsistent(r, 2, false))
		case 5, 6:
			add(genConsistent(r, 3, false))
		default:
			add(genMalformed(r))
		}
	}
	for i := 0; i < *nmany; i++ {
		add(genMany(r, i%20 == 7))
	}
	// datagrams near the maximum size are the expensive ones to judge: one at the head of every
	// block of *spread cases, so that they land in different shards of the in-Coq evaluation
	bigs := []*caseT{}
	for i := 0; i < *nbig; i++ {
		bigs = append(bigs, genConsistent(r, 1, true))
	}
	if len(bigs) > 0 {
		out := []*caseT{}
		for i, c := range cases {
			if i%*spread == 0 && len(bigs) > 0 {
				out = append(out, bigs[0])
				bigs = bigs[1:]
			}
			out = append(out, c)
		}
		cases = append(out, bigs...)
	}
	// execute: kind 2 runs sleep, so they run concurrently (each on its own Fragmentation)
	var wg sync.WaitGroup
	sem := make(chan struct{}, 48)
	retries := 0
	var mu sync.Mutex
	for i, c := range cases {
		vvseed := *seed*1000003 + uint64(i)
		if c.kind != 2 {
			execute(c, vvseed)
			continue
		}
		wg.Add(1)
		sem <- struct{}{}
		go func(c *caseT) {
			defer wg.Done()
			defer func() { <-sem }()
			for k := 0; k < 5; k++ {
				if execute(c, vvseed) {
					return
				}
				mu.Lock()
				retries++
				mu.Unlock()
			}
			c.executed = 0 // never got a trustworthy timing: report no calls (trivial case)
		}(c)
	}
	wg.Wait()
	// controlled concurrent runs (their own PRNG stream, so that the sequential cases of a seed do
	// not depend on the -conc* flags)
	rc := gen.New(*seed + 1000003)
	concs := []*concCase{}
	if *noconc {
		*concx, *concr, *conce, *conct = 1, 0, 0, 0
		fmt.Fprintln(os.Stderr, "controlled concurrent runs skipped (-noconc)")
	}
	if !*noconc {
		genExhaustive2(rc, *concx, func(c *concCase) { concs = append(concs, c) })
	}
	if false {
		genExhaustive2(rc, *concx, func(c *concCase) { concs = append(concs, c) })
	}
	for i := 0; i < *concr; i++ {
		concs = append(concs, genRandom3(rc, 6))
	}
	for i := 0; i < *conce; i++ {
		concs = append(concs, genRandom3(rc, 8))
	}
	for i, c := range concs {
		runConc(c, *seed*2000003+uint64(i))
	}
	// timeout runs sleep: concurrently, each on its own Fragmentation
	tconcs := make([]*concCase, *conct)
	for i := range tconcs {
		tconcs[i] = genRandom3(rc, 7)
	}
	tok := make([]bool, len(tconcs))
	for i, c := range tconcs {
		wg.Add(1)
		sem <- struct{}{}
		go func(i int, c *concCase) {
			defer wg.Done()
			defer func() { <-sem }()
			for k := 0; k < 5 && !tok[i]; k++ {
				tok[i] = runConc(c, *seed*3000017+uint64(i))
				if c.hung {
					tok[i] = true
				}
				if !tok[i] {
					mu.Lock()
					retries++
					mu.Unlock()
				}
			}
		}(i, c)
	}
	wg.Wait()
	for i, c := range tconcs {
		if tok[i] {
			concs = append(concs, c)
		}
	}
	w := bufio.NewWriterSize(os.Stdout, 1<<20)
	defer w.Flush()
	kinds := map[int]int{}
	nops, ndone, npanic, maxLen := 0, 0, 0, 0
	sizes := map[string]int{}
	for _, c := range cases {
		kinds[c.kind]++
		for i := 0; i < c.executed; i++ {
			nops++
			if c.ops[i].done {
				ndone++
			}
			if c.ops[i].panicked {
				npanic++
			}
		}
		for _, d := range c.dgs {
			switch {
			case len(d.data) <= 8:
				sizes["1-8"]++
			case len(d.data) <= 64:
				sizes["9-64"]++
			case len(d.data) <= 200:
				sizes["65-200"]++
			default:
				sizes[">200"]++
			}
			if len(d.data) > maxLen {
				maxLen = len(d.data)
			}
		}
		fmt.Fprintln(w, render(c))
	}
	ckinds := map[int]int{}
	csteps, ccalls, cdone, cpanic, chung := 0, 0, 0, 0, 0
	for _, c := range append(concs, stressCases...) {
		if c.stress == 0 {
			ckinds[c.kind]++
			csteps += len(c.steps)
		}
		if c.hung {
			chung++
		}
		for _, p := range c.progs {
			for i := range p {
				switch statusOf(&p[i]) {
				case 0:
					ccalls++
				case 1:
					ccalls++
					cdone++
				case 2:
					ccalls++
					cpanic++
				}
			}
		}
		fmt.Fprintln(w, renderConc(c))
	}
	for i := 0; i < *nhash; i++ {
		var a, b, c, iv uint32
		if i < 8 {
			bs := []uint32{0, 1, 0xffffffff, 0x80000000}
			a, b, c, iv = bs[i%4], bs[(i/2)%4], bs[(i+1)%4], bs[(i/4)%4]
		} else {
			a, b, c, iv = r.U32(), r.U32(), r.U32(), r.U32()
		}
		fmt.Fprintf(w, "CHash %d %d %d %d %d\n", a, b, c, iv, hash.Hash3Words(a, b, c, iv))
	}
	fmt.Fprintf(w, "# runs by kind: %v; calls %d, delivered %d, panicked %d; datagram sizes %v (max %d); timing retries %d\n",
		kinds, nops, ndone, npanic, sizes, maxLen, retries)
	fmt.Fprintf(w, "# concurrent: controlled runs by kind %v, %d steps; %d calls in controlled runs and distinct stress outcomes, delivered %d, panicked %d, hung %d; uncontrolled stress: %d rounds, %d distinct outcomes\n",
		ckinds, csteps, ccalls, cdone, cpanic, chung, stressRounds, len(stressCases))
}
