// h_smoke: builds the whole stack through the overlay and pings it; used to check the plumbing.
package main

import (
	"fmt"
	"io"
	"log"

	"aaverif/internal/netx"
)

func main() {
	log.SetOutput(io.Discard)
	n := netx.NewNet(netx.Opts{Addr6: "\xfe\x80\x00\x00\x00\x00\x00\x00\x00\x00\x00\x00\x00\x00\x00\x01"})
	echo := []byte{8, 0, 0, 0, 0x12, 0x34, 0, 1, 'h', 'i'}
	c := ^netx.Sum16(echo, 0)
	echo[2], echo[3] = byte(c>>8), byte(c)
	n.L.Inject(netx.ProtoIPv4, netx.IPv4Packet([]byte{10, 0, 0, 2}, []byte{10, 0, 0, 1}, 1, 7, 0, 64, echo))
	for i := 0; i < 1000000; i++ {
		if f := n.L.Take(); len(f) > 0 {
			fmt.Println("reply", f[0].Proto, f[0].Bytes)
			return
		}
	}
	fmt.Println("no reply")
}
