// h_smoke: builds the whole stack (everything that imports pkg/sleep) to check the overlay.
package main

import (
	"fmt"

	"github.com/brewlin/net-protocol/protocol/network/arp"
	"github.com/brewlin/net-protocol/protocol/network/ipv4"
	"github.com/brewlin/net-protocol/protocol/network/ipv6"
	"github.com/brewlin/net-protocol/protocol/transport/tcp"
	"github.com/brewlin/net-protocol/protocol/transport/udp"
	"github.com/brewlin/net-protocol/protocol/link/fdbased"
	_ "github.com/brewlin/net-protocol/protocol/application/http"
	_ "github.com/brewlin/net-protocol/protocol/application/websocket"
	"github.com/brewlin/net-protocol/stack"
)

func main() {
	s := stack.New([]string{ipv4.ProtocolName, ipv6.ProtocolName, arp.ProtocolName}, []string{tcp.ProtocolName, udp.ProtocolName}, stack.Options{})
	_ = fdbased.New
	fmt.Println("stack ok", s != nil)
}
