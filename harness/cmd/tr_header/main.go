// tr_header: a small go/ast -> Gallina translator for the fixed-offset accessors and setters of
// /repo/protocol/header/{tcp,udp,ipv4,ipv6,icmpv4,icmpv6,eth}.go.  It regenerates HeaderGen.v from
// the CURRENT source on every run of the C15 check; coq/GenProofs/HeaderGenP.v (copied next to it)
// then proves gen_f = Model.Hdr*.f for every byte string and every argument, so the C15 round-trip
// and RFC-layout theorems are re-checked against the offsets, widths, shifts and masks the code
// uses now.  Supported subset (a method outside it is listed as skipped and gets no definition;
// HeaderGenP.v then fails on the first theorem that needs it):
//   getters   func (b T) M() R { return E }        E ::= load | conv(E) | (E) | E >> k | E << k
//                                                       | E & mask(2^n-1) | E * k
//             load ::= b[C] | binary.BigEndian.Uint16(b[C:]) | binary.BigEndian.Uint32(b[C:])
//   setters   func (b T) M(params) { S; ...; S }   S ::= b[C] = p | b[C] = byte(p)
//                                                       | binary.BigEndian.PutUint16/32(b[C:], p)
// C is an integer literal or a package constant with an integer literal value; arithmetic is
// rendered in the conventions of Model/Bytes.v (x >> k = x / 2^k, x << k and x * k wrapped to the
// operand width, x & (2^n-1) = x mod 2^n, uintN(x) = wN x).
package main

import (
	"fmt"
	"go/ast"
	"go/parser"
	"go/token"
	"os"
	"path/filepath"
	"sort"
	"strconv"
	"strings"
)

var consts = map[string]int64{}

var recvs = map[string]bool{"TCP": true, "UDP": true, "IPv4": true, "IPv6": true, "ICMPv4": true, "ICMPv6": true, "Ethernet": true}

// identity conversions (same or wider unsigned type) and narrowing ones
var convWidth = map[string]int{"uint8": 8, "byte": 8, "uint16": 16, "uint32": 32,
	"ICMPv4Type": 8, "ICMPv6Type": 8, "tcpip.NetworkProtocolNumber": 32, "tcpip.TransportProtocolNumber": 32}

type untranslatable string

func fail(f string, a ...interface{}) { panic(untranslatable(fmt.Sprintf(f, a...))) }

func constVal(e ast.Expr) int64 {
	switch x := e.(type) {
	case *ast.BasicLit:
		if x.Kind == token.INT {
			v, err := strconv.ParseInt(x.Value, 0, 64)
			if err == nil {
				return v
			}
		}
	case *ast.Ident:
		if v, ok := consts[x.Name]; ok {
			return v
		}
	case *ast.ParenExpr:
		return constVal(x.X)
	}
	fail("not an integer constant: %T", e)
	return 0
}

func isB(e ast.Expr) bool { id, ok := e.(*ast.Ident); return ok && id.Name == "b" }

func selName(e ast.Expr) string {
	switch x := e.(type) {
	case *ast.Ident:
		return x.Name
	case *ast.SelectorExpr:
		return selName(x.X) + "." + x.Sel.Name
	}
	return ""
}

// b[C:] -> C
func sliceFrom(e ast.Expr) int64 {
	s, ok := e.(*ast.SliceExpr)
	if !ok || !isB(s.X) || s.Low == nil || s.High != nil || s.Max != nil {
		fail("expected b[C:]")
	}
	return constVal(s.Low)
}

// value expression: returns (list of binds, pure term over bound variables, width)
type val struct {
	binds []string
	term  string
	width int
	pure  bool // term is just the bound variable of a single load
	load  string
}

var nvar int

func wrap(w int, t string) string { return fmt.Sprintf("w%d (%s)", w, t) }

func expr(e ast.Expr) val {
	switch x := e.(type) {
	case *ast.ParenExpr:
		return expr(x.X)
	case *ast.IndexExpr:
		if !isB(x.X) {
			fail("index of something other than b")
		}
		return mkload(fmt.Sprintf("get8 b %d", constVal(x.Index)), 8)
	case *ast.CallExpr:
		name := selName(x.Fun)
		if len(x.Args) == 1 {
			switch name {
			case "binary.BigEndian.Uint16":
				return mkload(fmt.Sprintf("get16 b %d", sliceFrom(x.Args[0])), 16)
			case "binary.BigEndian.Uint32":
				return mkload(fmt.Sprintf("get32 b %d", sliceFrom(x.Args[0])), 32)
			}
			if w, ok := convWidth[name]; ok {
				v := expr(x.Args[0])
				if w >= v.width {
					v.width = w
					return v
				}
				v.term, v.width, v.pure = wrap(w, v.term), w, false
				return v
			}
		}
		fail("call %s", name)
	case *ast.BinaryExpr:
		v := expr(x.X)
		k := constVal(x.Y)
		switch x.Op {
		case token.SHR:
			v.term = fmt.Sprintf("%s / 2^%d", v.term, k)
		case token.SHL:
			v.term = wrap(v.width, fmt.Sprintf("%s * 2^%d", v.term, k))
		case token.MUL:
			v.term = wrap(v.width, fmt.Sprintf("%s * %d", v.term, k))
		case token.AND:
			if k <= 0 || (k+1)&k != 0 {
				fail("mask %d is not 2^n-1", k)
			}
			v.term = fmt.Sprintf("%s mod %d", v.term, k+1)
		default:
			fail("operator %s", x.Op)
		}
		v.pure = false
		return v
	}
	fail("expression %T", e)
	return val{}
}

func mkload(l string, w int) val {
	nvar++
	n := fmt.Sprintf("x%d", nvar)
	return val{binds: []string{fmt.Sprintf("%s <- %s ;; ", n, l)}, term: n, width: w, pure: true, load: l}
}

// a product of wraps nests as w8 (w8 (..) * 4) in Go's semantics; the inner shift/mask results are
// already in range, so only the outermost wrap is kept when the inner one is a shift right or mask.
func getter(fd *ast.FuncDecl) string {
	if len(fd.Body.List) != 1 {
		fail("body is not a single return")
	}
	r, ok := fd.Body.List[0].(*ast.ReturnStmt)
	if !ok || len(r.Results) != 1 {
		fail("body is not a single one-value return")
	}
	nvar = 0
	v := expr(r.Results[0])
	if v.pure {
		return v.load
	}
	return strings.Join(v.binds, "") + "Some (" + v.term + ")"
}

func setter(fd *ast.FuncDecl, params map[string]bool) string {
	var puts []string
	arg := func(e ast.Expr) string {
		if c, ok := e.(*ast.CallExpr); ok && len(c.Args) == 1 && (selName(c.Fun) == "byte" || selName(c.Fun) == "uint8") {
			e = c.Args[0]
		}
		id, ok := e.(*ast.Ident)
		if !ok || !params[id.Name] {
			fail("stored value is not a parameter")
		}
		return id.Name
	}
	for _, s := range fd.Body.List {
		switch x := s.(type) {
		case *ast.AssignStmt:
			if len(x.Lhs) != 1 || len(x.Rhs) != 1 || x.Tok != token.ASSIGN {
				fail("assignment form")
			}
			ix, ok := x.Lhs[0].(*ast.IndexExpr)
			if !ok || !isB(ix.X) {
				fail("assignment target is not b[C]")
			}
			puts = append(puts, fmt.Sprintf("put8 b %d %s", constVal(ix.Index), arg(x.Rhs[0])))
		case *ast.ExprStmt:
			c, ok := x.X.(*ast.CallExpr)
			if !ok || len(c.Args) != 2 {
				fail("statement is not a two-argument call")
			}
			switch selName(c.Fun) {
			case "binary.BigEndian.PutUint16":
				puts = append(puts, fmt.Sprintf("put16 b %d %s", sliceFrom(c.Args[0]), arg(c.Args[1])))
			case "binary.BigEndian.PutUint32":
				puts = append(puts, fmt.Sprintf("put32 b %d %s", sliceFrom(c.Args[0]), arg(c.Args[1])))
			default:
				fail("call %s", selName(c.Fun))
			}
		default:
			fail("statement %T", s)
		}
	}
	if len(puts) == 0 {
		fail("empty body")
	}
	out := ""
	for i, p := range puts {
		if i < len(puts)-1 {
			out += "b <- " + p + " ;; "
		} else {
			out += p
		}
	}
	return out
}

func main() {
	if len(os.Args) != 3 {
		fmt.Fprintln(os.Stderr, "usage: tr_header <repo>/protocol/header <out.v>")
		os.Exit(2)
	}
	dir, out := os.Args[1], os.Args[2]
	files := []string{"tcp.go", "udp.go", "ipv4.go", "ipv6.go", "icmpv4.go", "icmpv6.go", "eth.go"}
	fset := token.NewFileSet()
	var parsed []*ast.File
	for _, f := range files {
		af, err := parser.ParseFile(fset, filepath.Join(dir, f), nil, 0)
		if err != nil {
			fmt.Fprintln(os.Stderr, "parse error:", err)
			os.Exit(1)
		}
		parsed = append(parsed, af)
	}
	// integer constants with literal values (iota blocks are not needed by the accessors)
	for _, af := range parsed {
		for _, d := range af.Decls {
			gd, ok := d.(*ast.GenDecl)
			if !ok || gd.Tok != token.CONST {
				continue
			}
			for _, s := range gd.Specs {
				vs := s.(*ast.ValueSpec)
				for i, n := range vs.Names {
					if i < len(vs.Values) {
						if bl, ok := vs.Values[i].(*ast.BasicLit); ok && bl.Kind == token.INT {
							if v, err := strconv.ParseInt(bl.Value, 0, 64); err == nil {
								consts[n.Name] = v
							}
						}
					}
				}
			}
		}
	}
	var defs, skipped []string
	for _, af := range parsed {
		for _, d := range af.Decls {
			fd, ok := d.(*ast.FuncDecl)
			if !ok || fd.Recv == nil || fd.Body == nil || len(fd.Recv.List) != 1 || len(fd.Recv.List[0].Names) != 1 {
				continue
			}
			rt, ok := fd.Recv.List[0].Type.(*ast.Ident)
			if !ok || !recvs[rt.Name] || fd.Recv.List[0].Names[0].Name != "b" {
				continue
			}
			name := "gen_" + rt.Name + "_" + fd.Name.Name
			params := map[string]bool{}
			var plist []string
			for _, p := range fd.Type.Params.List {
				for _, n := range p.Names {
					params[n.Name] = true
					plist = append(plist, n.Name)
				}
			}
			func() {
				defer func() {
					if r := recover(); r != nil {
						if u, ok := r.(untranslatable); ok {
							skipped = append(skipped, fmt.Sprintf("%s.%s (%s)", rt.Name, fd.Name.Name, string(u)))
							return
						}
						panic(r)
					}
				}()
				nres := 0
				if fd.Type.Results != nil {
					nres = len(fd.Type.Results.List)
				}
				if nres == 1 && len(plist) == 0 {
					body := getter(fd)
					defs = append(defs, fmt.Sprintf("Definition %s (b : list Z) : option Z := %s.", name, body))
				} else if nres == 0 && len(plist) > 0 {
					for _, p := range plist {
						if p == "_" || p == "b" {
							fail("parameter name %s", p)
						}
					}
					body := setter(fd, params)
					defs = append(defs, fmt.Sprintf("Definition %s (b : list Z) (%s : Z) : option (list Z) := %s.", name, strings.Join(plist, " "), body))
				} else {
					fail("signature outside the subset")
				}
			}()
		}
	}
	var cn []string
	for n := range consts {
		cn = append(cn, n)
	}
	sort.Strings(cn)
	var sb strings.Builder
	sb.WriteString("(* GENERATED by harness/cmd/tr_header from protocol/header/*.go -- do not edit *)\n")
	sb.WriteString("From Coq Require Import ZArith List.\nFrom NP Require Import Model.Bytes.\nImport ListNotations.\nOpen Scope Z_scope.\n\n")
	for _, d := range defs {
		sb.WriteString(d + "\n")
	}
	sb.WriteString("\n(* skipped (outside the translator's subset):\n")
	for _, s := range skipped {
		sb.WriteString("   " + s + "\n")
	}
	sb.WriteString("*)\n")
	if err := os.WriteFile(out, []byte(sb.String()), 0644); err != nil {
		fmt.Fprintln(os.Stderr, err)
		os.Exit(1)
	}
	fmt.Printf("translated %d methods, skipped %d\n", len(defs), len(skipped))
}
