// h_c20: runs the bundled HTTP and WebSocket code of /repo on generated inputs and prints one Coq
// term of type NP.Corr.C20.case per line.
//
// Level 1 (codec): Request.parse / Request.send / build_and_send_response / Connection.handler /
// ServeMux / Conn.SendData / Conn.ReadData / maskBytes / computeAcceptKey / Upgrade, called
// directly through overlay-added accessors on in-memory sockets.
// Level 2 (end to end, -e2e N): one stack with a loopback NIC, the bundled http.Server,
// http.Client, websocket.Client and websocket.Upgrade talking over the stack's own TCP.
package main

import (
	"flag"
	"fmt"
	"io"
	"log"
	"sort"

	"aaverif/internal/gen"
)

func main() {
	log.SetOutput(io.Discard)
	seed := flag.Uint64("seed", 1, "seed")
	n := flag.Int("n", 1500, "number of random codec-level cases")
	big := flag.Int("big", 1, "0: no large WebSocket messages; 1: 65535..65537; 2: + up to 128 KiB; 3: + 200 KiB, 300 KiB")
	e2e := flag.Int("e2e", 0, "number of end-to-end exchanges over the stack (0 = none)")
	flag.BoolVar(&withErrs, "errs", false, "handlers of generated routes sometimes call Response.Error (exhibits known finding C20-error-noop)")
	flag.Parse()
	defer w.Flush()
	r := gen.New(*seed)
	boundary()
	for _, m := range [][]int{{0}, {1}, {125}, {126}, {0, 1, 125, 126, 127}} {
		var ms [][]byte
		for _, k := range m {
			ms = append(ms, r.Bytes(k))
		}
		doWsLoop(ms)
	}
	bigs := bigCases(gen.New(*seed+77), *big)
	if *e2e > 0 {
		e2eSetup()
		bigs = append(bigs, e2eBig(gen.New(*seed+78), *big)...)
		bigs = append(bigs, e2eBursts(*big)...)
	}
	randomCases(r, *n, bigs)
	if *e2e > 0 {
		runE2E(r, *e2e)
		e2eReport()
	}
	ks := make([]string, 0, len(stats))
	for k := range stats {
		ks = append(ks, k)
	}
	sort.Strings(ks)
	for _, k := range ks {
		fmt.Fprintf(w, "# cases %s: %d\n", k, stats[k])
	}
}
