package main

// End-to-end level: ONE stack with a loopback NIC (10.0.0.1), stack.Pstack pointing at it, the
// bundled http.Server listening on :8080 and the bundled http.Client / websocket.Client talking to
// it over the stack's own TCP.  Every exchange runs under a watchdog: the bundled sockets wait for
// a notification that can be lost if data arrives before the waiter is registered, or woken early
// by a writable event; such an exchange proves nothing about C20 (which is about what is delivered,
// not about liveness) and is retried on a fresh connection; the number of retries is reported.

import (
	"fmt"
	"strings"
	"sync"
	"time"

	"aaverif/internal/gen"

	"github.com/brewlin/net-protocol/config"
	tcpip "github.com/brewlin/net-protocol/protocol"
	"github.com/brewlin/net-protocol/protocol/application/http"
	"github.com/brewlin/net-protocol/protocol/application/websocket"
	"github.com/brewlin/net-protocol/protocol/link/loopback"
	"github.com/brewlin/net-protocol/protocol/network/ipv4"
	"github.com/brewlin/net-protocol/protocol/transport/tcp"
	"github.com/brewlin/net-protocol/stack"
)

const e2eIP = "10.0.0.1"
const e2ePort = 8080

var e2eSrv *http.Server
var e2eMu sync.Mutex

func e2eSetup() {
	s := stack.New([]string{ipv4.ProtocolName}, []string{tcp.ProtocolName}, stack.Options{})
	if err := s.CreateNIC(1, loopback.New()); err != nil {
		panic(err.String())
	}
	if err := s.AddAddress(1, ipv4.ProtocolNumber, tcpip.Address("\x0a\x00\x00\x01")); err != nil {
		panic(err.String())
	}
	s.SetRouteTable([]tcpip.Route{{Destination: "\x00\x00\x00\x00", Mask: "\x00\x00\x00\x00", Gateway: "", NIC: 1}})
	stack.Pstack = s
	config.HardwardIp = e2eIP
	config.HardwardName = "lo"
	e2eSrv = http.NewHTTP("tap-unused", "10.0.0.0/24", e2eIP, fmt.Sprint(e2ePort))
	go e2eSrv.ListenAndServ()
	time.Sleep(20 * time.Millisecond)
}

// within runs f with a deadline; false = it did not return in time (its goroutine is abandoned).
func within(d time.Duration, f func()) (ok bool, panicked bool) {
	done := make(chan bool, 1)
	go func() {
		defer func() {
			if recover() != nil {
				done <- true
				return
			}
		}()
		f()
		done <- false
	}()
	select {
	case p := <-done:
		return true, p
	case <-time.After(d):
		return false, false
	}
}

var e2eRetries, e2eGiveUps int

// one HTTP exchange through the exported API only (plus VerifReqOf to look at unexported fields)
func e2eHTTP(q reqSpec, rt []route) bool {
	url := fmt.Sprintf("http://%s:%d%s", e2eIP, e2ePort, q.path)
	for attempt := 0; attempt < 4; attempt++ {
		http.VerifResetMux()
		var mu sync.Mutex
		invoked, ninv := -1, 0
		var seen http.VerifReq
		handlerDone := make(chan struct{}, 8)
		for i := range rt {
			i := i
			e2eSrv.HandleFunc(rt[i].pat, func(rq *http.Request, rs *http.Response) {
				mu.Lock()
				invoked = i
				ninv++
				seen = http.VerifReqOf(rq)
				mu.Unlock()
				for _, c := range rt[i].errs {
					rs.Error(c)
				}
				rs.End(rt[i].body)
				handlerDone <- struct{}{}
			})
		}
		var result string
		var cli http.VerifReq
		var cst int
		var final map[string]string
		var rerr error
		ok, pan := within(3*time.Second, func() {
			c, err := http.NewClient(url)
			if err != nil {
				rerr = err
				return
			}
			time.Sleep(3 * time.Millisecond) // let the server register its waiter (see file comment)
			c.SetMethod(q.method)
			c.SetHeaders(q.extra)
			c.SetData(q.body)
			result, rerr = c.GetResult()
			cli = http.VerifReqOf(c.GetRequest())
			cst = http.VerifConStatus(c.GetConnection())
			final = http.VerifClientHeaders(c)
			c.GetConnection().Close()
		})
		mu.Lock()
		inv, n, sn := invoked, ninv, seen
		mu.Unlock()
		if !ok || pan || rerr != nil || (cli.MethodRaw == "" && cli.Body == "" && result == "") {
			// lost wake-up / early wake-up / panic in the transport glue: not a C20 observation
			e2eRetries++
			time.Sleep(30 * time.Millisecond)
			continue
		}
		if n == 0 {
			sn = http.VerifReq{Headers: map[string]string{}}
		}
		fmt.Fprintf(w, "CE2E %s %s %s %s %s %s %d %s %s %s %s\n", S(q.method), S(q.path), HM(final), S(q.body),
			routesTerm(rt), Z(int64(inv)), n, Req(sn), Req(cli), Z(int64(cst)), S(result))
		count("e2e-http")
		return true
	}
	e2eGiveUps++
	return false
}

type wsMsg struct {
	key     []byte // nil: sent with the bundled client's Push (unmasked); else a raw masked frame
	payload []byte
}

func e2eWS(path string, c2s []wsMsg, s2c [][]byte, lockstep bool) bool {
	url := fmt.Sprintf("http://%s:%d%s", e2eIP, e2ePort, path)
	for attempt := 0; attempt < 4; attempt++ {
		http.VerifResetMux()
		var mu sync.Mutex
		var srvGot []string
		var keySeen string
		got := make(chan struct{}, len(c2s)+4)
		srvDone := make(chan struct{}, 1)
		e2eSrv.HandleFunc(path, func(rq *http.Request, rs *http.Response) {
			defer func() { recover(); srvDone <- struct{}{} }()
			mu.Lock()
			keySeen = rq.GetHeader("Sec-WebSocket-Key")
			mu.Unlock()
			c, err := websocket.Upgrade(rq, rs)
			if err != nil {
				return
			}
			for range c2s {
				d, err := c.ReadData()
				mu.Lock()
				if err != nil {
					srvGot = append(srvGot, "(IErr 6)")
				} else {
					srvGot = append(srvGot, "(IOk "+B(d)+")")
				}
				mu.Unlock()
				got <- struct{}{}
				if err != nil {
					return
				}
			}
			for _, m := range s2c {
				c.SendData(m)
				if lockstep {
					time.Sleep(2 * time.Millisecond)
				}
			}
		})
		var cliGot []string
		var acc string
		ok, pan := within(20*time.Second, func() {
			c, err := websocket.NewClient(url)
			if err != nil {
				return
			}
			time.Sleep(3 * time.Millisecond)
			if err := c.Upgrade(); err != nil {
				return
			}
			acc = websocket.VerifClientHTTP(c).GetRequest().GetHeader("Sec-WebSocket-Accept")
			for _, m := range c2s {
				if m.key == nil {
					c.Push(string(m.payload))
				} else {
					f := fdesc{b0: 0x81, key: m.key, cls: minCls(len(m.payload)), lenv: uint64(len(m.payload)), payload: m.payload}
					websocket.VerifClientCon(c).Write(f.bytes())
				}
				if lockstep {
					select {
					case <-got:
					case <-time.After(10 * time.Second):
						return
					}
				}
			}
			for range s2c {
				d, err := c.Recv()
				if err != nil {
					cliGot = append(cliGot, "(IErr 6)")
					return
				}
				cliGot = append(cliGot, "(IOk "+S(d)+")")
			}
			select {
			case <-srvDone:
			case <-time.After(5 * time.Second):
			}
			c.Close()
		})
		mu.Lock()
		sg, ks := append([]string(nil), srvGot...), keySeen
		mu.Unlock()
		if !ok || pan || acc == "" || len(sg) != len(c2s) || len(cliGot) != len(s2c) {
			e2eRetries++
			time.Sleep(50 * time.Millisecond)
			continue
		}
		var ups []string
		for _, m := range c2s {
			ups = append(ups, fmt.Sprintf("(%s,%s)", B(m.key), patOrB(m.payload)))
		}
		var downs []string
		for _, m := range s2c {
			downs = append(downs, patOrB(m))
		}
		fmt.Fprintf(w, "CWsE2E %s %s %s [%s] [%s] [%s] [%s]\n", S(ks), B(digestOf(ks)), S(acc),
			strings.Join(ups, ";"), strings.Join(downs, ";"), strings.Join(sg, ";"), strings.Join(cliGot, ";"))
		count("e2e-ws")
		return true
	}
	e2eGiveUps++
	return false
}

// large payloads chosen by the driver are pattern bytes, written as (PAT n seed)
var patTerms = map[string]string{}

func patBytes(r *gen.Rng, n int) []byte {
	p := pat{n, r.U32()}
	b := p.bytes()
	if n > 256 {
		patTerms[string(b)] = p.term()
	}
	return b
}
func patOrB(b []byte) string {
	if t, ok := patTerms[string(b)]; ok {
		return t
	}
	return B(b)
}

// ---- bursts: several messages back to back in ONE direction, slow reader ----
// Message idx of a burst is filled with bytes that identify the message and the offset
// (Corr.C20.IDX regenerates them), so that a mix of two messages is visible.
func idxBytes(n, idx int) []byte {
	b := make([]byte, n)
	for j := range b {
		b[j] = byte(idx*61 + j + (j/256)*13)
	}
	return b
}

var burstSeq int

// e2eBurst: dir 0 = client -> server (bundled websocket.Client.Push), dir 1 = server -> client
// (Conn.SendData of the upgraded connection).  The sender writes the whole burst without waiting
// for anything; the receiver issues its first ReadData/Recv only after the last message was
// written.  An attempt that delivers k results (right or wrong) is reported at once; one that does
// not finish in time is retried on a fresh connection, and if no attempt finishes the last one is
// reported with what was received followed by (IErr 7) = did not return.
func e2eBurst(dir int, lens []int) {
	burstSeq++
	path := fmt.Sprintf("/burst%d", burstSeq)
	url := fmt.Sprintf("http://%s:%d%s", e2eIP, e2ePort, path)
	msgs := make([][]byte, len(lens))
	var terms []string
	for i, n := range lens {
		msgs[i] = idxBytes(n, i)
		terms = append(terms, fmt.Sprintf("(IDX %d %d)", n, i))
	}
	var last []string
	const attempts = 3
	for attempt := 0; attempt < attempts; attempt++ {
		http.VerifResetMux()
		var mu sync.Mutex
		var got []string
		record := func(d []byte, err error) bool {
			mu.Lock()
			defer mu.Unlock()
			if err != nil {
				got = append(got, "(IErr 6)")
				return false
			}
			got = append(got, "(IOk "+B(d)+")")
			return true
		}
		upgraded := make(chan struct{})   // client: Upgrade() returned
		written := make(chan struct{})    // sender: whole burst written
		readDone := make(chan struct{})   // receiver: finished
		srvDone := make(chan struct{}, 1) // handler returned
		e2eSrv.HandleFunc(path, func(rq *http.Request, rs *http.Response) {
			defer func() { recover(); srvDone <- struct{}{} }()
			c, err := websocket.Upgrade(rq, rs)
			if err != nil {
				return
			}
			if dir == 0 {
				select {
				case <-written:
				case <-time.After(20 * time.Second):
					return
				}
				for range msgs {
					if !record(c.ReadData()) {
						break
					}
				}
				close(readDone)
			} else {
				select {
				case <-upgraded:
				case <-time.After(20 * time.Second):
					return
				}
				for _, m := range msgs {
					c.SendData(m)
				}
				close(written)
				select {
				case <-readDone:
				case <-time.After(20 * time.Second):
				}
			}
		})
		ok, _ := within(12*time.Second, func() {
			c, err := websocket.NewClient(url)
			if err != nil {
				return
			}
			time.Sleep(3 * time.Millisecond)
			if err := c.Upgrade(); err != nil {
				return
			}
			close(upgraded)
			if dir == 0 {
				for _, m := range msgs {
					c.Push(string(m))
				}
				close(written)
				<-readDone
			} else {
				<-written
				for range msgs {
					d, err := c.Recv()
					if !record([]byte(d), err) {
						break
					}
				}
				close(readDone)
			}
			select {
			case <-srvDone:
			case <-time.After(2 * time.Second):
			}
			c.Close()
		})
		mu.Lock()
		last = append([]string(nil), got...)
		mu.Unlock()
		if ok && len(last) == len(msgs) {
			break
		}
		if ok && len(last) > 0 && last[len(last)-1] == "(IErr 6)" {
			break // the receiver got an error from ReadData: an observation, not a hang
		}
		e2eRetries++
		if attempt == attempts-1 {
			last = append(last, "(IErr 7)")
			e2eGiveUps++
		}
		time.Sleep(50 * time.Millisecond)
	}
	fmt.Fprintf(w, "CWsBurst %d [%s] [%s]\n", dir, strings.Join(terms, ";"), strings.Join(last, ";"))
	count("e2e-burst")
}

// bursts as closures (spread over the output: the large ones are large literals)
func e2eBursts(big int) []func() {
	var out []func()
	add := func(lens ...int) {
		for dir := 0; dir < 2; dir++ {
			dir := dir
			out = append(out, func() { e2eBurst(dir, lens) })
		}
	}
	// later messages fit the capacity of earlier ones
	add(300, 300, 125, 0, 126, 200)
	add(1000, 1000, 70, 1000, 1)
	add(126, 125, 124)
	add(20000, 20000, 300, 16000, 125, 0)
	if big >= 2 {
		add(70000, 70000, 300, 65536, 125, 0)
		add(65536, 65535, 65536)
		add(5, 4, 3, 2, 1, 0)
		add(127, 127, 127, 127)
	}
	if big >= 3 {
		add(200*1024, 200*1024)
		add(131072, 100, 131072, 100)
	}
	return out
}

// the sessions with large messages, as closures that main spreads over the output (see bigCases)
func e2eBig(r *gen.Rng, big int) []func() {
	var out []func()
	if big >= 2 {
		// both sides of the 16-bit boundary in both directions, masked and not, one connection
		a, b, c, d, k := patBytes(r, 65535), patBytes(r, 65536), patBytes(r, 65536), patBytes(r, 65535), r.Bytes(4)
		out = append(out, func() { e2eWS("/wsbig1", []wsMsg{{payload: a}, {key: k, payload: b}}, [][]byte{c, d}, true) })
		e, f, g, h, i, k2 := patBytes(r, 65537), patBytes(r, 65537), patBytes(r, 0), patBytes(r, 65537), patBytes(r, 126), r.Bytes(4)
		out = append(out, func() {
			e2eWS("/wsbig2", []wsMsg{{key: k2, payload: e}, {payload: f}, {payload: g}}, [][]byte{h, i}, true)
		})
	}
	if big >= 3 {
		a, b, k := patBytes(r, 200*1024), patBytes(r, 200*1024), r.Bytes(4)
		out = append(out, func() { e2eWS("/wsbig3", []wsMsg{{key: k, payload: a}}, [][]byte{b}, true) })
		c := patBytes(r, 200*1024)
		out = append(out, func() { e2eWS("/wsbig4", []wsMsg{{payload: c}}, [][]byte{{1}}, true) })
	}
	return out
}

func runE2E(r *gen.Rng, n int) {
	// HTTP exchanges: requests of G (printable paths: the client's URL parser stops at a newline)
	nh := n * 2 / 3
	for i := 0; i < nh; i++ {
		q := genReq(r)
		for strings.ContainsAny(q.path, "\r\n\x00") || !strings.HasPrefix(q.path, "/") {
			q.path = genUri(r)
		}
		rt := genRoutes(r, q.path)
		e2eHTTP(q, rt)
	}
	// WebSocket sessions
	lens := []int{0, 1, 125, 126, 127, 200, 1000}
	nw := n - nh
	for i := 0; i < nw; i++ {
		var c2s []wsMsg
		var s2c [][]byte
		k := 1 + r.Intn(4)
		for j := 0; j < k; j++ {
			m := wsMsg{payload: patBytes(r, lens[r.Intn(len(lens))])}
			if r.Bool() {
				m.key = r.Bytes(4)
			}
			c2s = append(c2s, m)
		}
		k = 1 + r.Intn(4)
		for j := 0; j < k; j++ {
			s2c = append(s2c, patBytes(r, lens[r.Intn(len(lens))]))
		}
		e2eWS(fmt.Sprintf("/ws%d", i), c2s, s2c, i%2 == 0)
	}
}

func e2eReport() {
	fmt.Fprintf(w, "# e2e: %d exchanges retried on a fresh connection (lost or early wake-up in the socket glue), %d given up\n", e2eRetries, e2eGiveUps)
}
