package main

import "aaverif/internal/gen"

func runE2E(r *gen.Rng, n int, big int) {}
