package main

import (
	"crypto/sha1"
	"encoding/binary"
	"fmt"
	"strconv"
	"strings"

	"aaverif/internal/gen"

	"github.com/brewlin/net-protocol/protocol/application/http"
	"github.com/brewlin/net-protocol/protocol/application/websocket"
)

const tokAlpha = "abcdefghijklmnopqrstuvwxyzABCDEFGHIJKLMNOPQRSTUVWXYZ0123456789-_./"

var spice = []string{":", " ", "\r", "\n", "\t", ",", "=", "?", "&", "\x80", "\xff", "\xc2\xa0", "\x00", ": ", "\r\n", "\r\n\r\n", ":  ", "\r\r\n", " :", "\n\r"}

func genStr(r *gen.Rng, lo, hi, spicePct int) string {
	n := lo + r.Intn(hi-lo+1)
	var sb strings.Builder
	for sb.Len() < n {
		if r.Intn(100) < spicePct {
			sb.WriteString(spice[r.Intn(len(spice))])
		} else {
			sb.WriteByte(tokAlpha[r.Intn(len(tokAlpha))])
		}
	}
	return sb.String()
}

func genKey(r *gen.Rng) string {
	for {
		s := genStr(r, 1, 12, 12)
		if !strings.Contains(s, ": ") && !strings.HasPrefix(s, "\r\n") {
			return s
		}
	}
}
func genVal(r *gen.Rng) string {
	for {
		s := genStr(r, 1, 30, 12)
		if !strings.Contains(s, "\r\n") {
			return s
		}
	}
}
func genUri(r *gen.Rng) string {
	for {
		s := genStr(r, 0, 16, 8)
		if r.Intn(8) != 0 {
			s = "/" + s
		}
		if s != "" && !strings.Contains(s, " ") {
			return s
		}
	}
}
func genBody(r *gen.Rng) string {
	switch r.Intn(6) {
	case 0:
		return ""
	case 1:
		return genStr(r, 0, 300, 30)
	default:
		return genStr(r, 0, 60, 20)
	}
}

var methods = []string{"GET", "HEAD", "POST", "PUT"}

type reqSpec struct {
	method, path string
	extra        map[string]string
	body         string
}

// in-grammar request
func genReq(r *gen.Rng) reqSpec {
	q := reqSpec{method: methods[r.Intn(4)], path: genUri(r), extra: map[string]string{}, body: genBody(r)}
	if r.Intn(10) == 0 {
		q.method = "" // Request.send defaults to GET
	}
	nh := r.Intn(5)
	for i := 0; i < nh; i++ {
		q.extra[genKey(r)] = genVal(r)
	}
	if r.Intn(6) == 0 {
		q.extra[[]string{"Host", "Accept", "User-Agent"}[r.Intn(3)]] = genVal(r) // overrides a default
	}
	return q
}

// a request just outside the grammar (the property claims nothing; model vs code only)
func genNearMiss(r *gen.Rng) reqSpec {
	q := genReq(r)
	switch r.Intn(9) {
	case 0:
		q.extra["\r\n"+genKey(r)] = genVal(r)
	case 1:
		q.extra[genKey(r)+": "+genKey(r)] = genVal(r)
	case 2:
		q.extra[genKey(r)] = ""
	case 3:
		q.extra[genKey(r)] = genVal(r) + "\r\n" + genVal(r)
	case 4:
		q.path = genUri(r) + " " + genUri(r)
	case 5:
		q.path = ""
	case 6:
		q.method = []string{"DELETE", "get", "Get", "OPTIONS", "G ET", "PATCH", "\r\n"}[r.Intn(7)]
	case 7:
		q.extra[""] = genVal(r)
	case 8:
		q.extra[genKey(r)] = "\r\n"
	}
	return q
}

func guard(what int, f func()) {
	defer func() {
		if e := recover(); e != nil {
			fmt.Fprintf(w, "CPanic %d\n", what)
			count("PANIC")
		}
	}()
	f()
}

func doMatch(buf, d string) {
	guard(1, func() {
		a, b := http.VerifMatchUntil(buf, d)
		fmt.Fprintf(w, "CMatch %s %s %s %s\n", S(buf), S(d), S(a), S(b))
		count("match")
	})
}

func doParse(raw string, st0 int) {
	guard(2, func() {
		rq, st := http.VerifParse(raw, st0)
		fmt.Fprintf(w, "CParse %s %s %s %s\n", Z(int64(st0)), S(raw), Req(rq), Z(int64(st)))
		count("parse")
	})
}

func doSend(q reqSpec) string {
	var out string
	guard(3, func() {
		raw := http.VerifSend(q.method, q.path, q.extra, q.body)
		out = raw
		m := q.method
		if m == "" {
			m = "GET"
		}
		ord := orderAfter([]byte(raw), len(m)+1+len(q.path)+1+len("HTTP/1.1")+2, q.extra)
		fmt.Fprintf(w, "CSend %s %s %s %s %s %s\n", S(q.method), S(q.path), HM(q.extra), S(q.body), ZL(ord), S(raw))
		count("send")
	})
	return out
}

func doResp(vraw string, st int, hs map[string]string, eb string) {
	guard(4, func() {
		raw := http.VerifBuildResponse(vraw, st, hs, eb)
		ord := orderAfter(raw, len(vraw)+1+len(strconv.Itoa(st))+1+len(http.StatusText(st))+2, hs)
		cli, cst := http.VerifParse(string(raw), 200)
		fmt.Fprintf(w, "CResp %s %s %s %s %s %s %s %s\n", S(vraw), Z(int64(st)), HM(hs), S(eb), ZL(ord), B(raw), Req(cli), Z(int64(cst)))
		count("resp")
	})
}

// withErrs: see flag -errs
var withErrs bool

type route struct {
	pat, body string
	errs      []int
}

func routesTerm(rt []route) string {
	var sb strings.Builder
	sb.WriteByte('[')
	for i, x := range rt {
		if i > 0 {
			sb.WriteByte(';')
		}
		fmt.Fprintf(&sb, "(%s,%s,%s)", S(x.pat), S(x.body), ZL(x.errs))
	}
	sb.WriteByte(']')
	return sb.String()
}

func genRoutes(r *gen.Rng, uri string) []route {
	seen := map[string]bool{}
	var rt []route
	add := func(p string) {
		if p == "" || seen[p] {
			return
		}
		seen[p] = true
		x := route{pat: p, body: genBody(r)}
		if r.Intn(3) == 0 {
			x.body = genStr(r, 1, 40, 25)
		}
		if r.Intn(8) == 0 && withErrs {
			x.errs = []int{[]int{404, 500, 200, 403, 301, 503}[r.Intn(6)]}
		}
		rt = append(rt, x)
	}
	n := r.Intn(5)
	for i := 0; i < n; i++ {
		switch r.Intn(7) {
		case 0, 1:
			add(uri)
		case 2:
			if len(uri) > 1 {
				add(uri[:len(uri)-1]) // proper prefix
			}
		case 3:
			add(uri + genStr(r, 1, 3, 0)) // extension
		case 4:
			add("/")
		case 5:
			if len(uri) > 1 {
				add(uri[1:])
			}
		default:
			add(genUri(r))
		}
	}
	if r.Intn(2) == 0 {
		add(uri)
	}
	// shuffle
	for i := len(rt) - 1; i > 0; i-- {
		j := r.Intn(i + 1)
		rt[i], rt[j] = rt[j], rt[i]
	}
	return rt
}

// doRound: bundled client builds the request, Connection.handler serves it from an in-memory
// socket, the client-side parser reads the response.
func doRound(q reqSpec, ip string, port int, rt []route) {
	guard(5, func() {
		raw, final := http.VerifClientSend(q.path, ip, port, q.method, q.extra, q.body)
		m := q.method
		if m == "" {
			m = "GET"
		}
		ord1 := orderAfter([]byte(raw), len(m)+1+len(q.path)+1+len("HTTP/1.1")+2, final)
		http.VerifResetMux()
		var srv http.Server
		invoked, ninv := -1, 0
		var seen http.VerifReq
		for i := range rt {
			i := i
			srv.HandleFunc(rt[i].pat, func(rq *http.Request, rs *http.Response) {
				invoked = i
				ninv++
				seen = http.VerifReqOf(rq)
				for _, c := range rt[i].errs {
					rs.Error(c)
				}
				rs.End(rt[i].body)
			})
		}
		written, st, sreq, rh := http.VerifServe([]byte(raw))
		if ninv == 0 {
			seen = sreq
		}
		ord2 := orderAfter(written, len(sreq.VersionRaw)+1+len(strconv.Itoa(st))+1+len(http.StatusText(st))+2, rh)
		cli, cst := http.VerifParse(string(written), 200)
		fmt.Fprintf(w, "CRound %s %s %s %d %s %s %s %s %s %s %s %d %s %s %s %s %s %s %s\n",
			S(q.method), S(q.path), S(ip), port, HM(q.extra), S(q.body), HM(final), ZL(ord1), S(raw),
			routesTerm(rt), Z(int64(invoked)), ninv, Req(seen), Z(int64(st)), HM(rh), ZL(ord2), B(written), Req(cli), Z(int64(cst)))
		count("round")
	})
}

func doReg(pats []string) {
	http.VerifResetMux()
	var srv http.Server
	var res []string
	for _, p := range pats {
		pan := false
		func() {
			defer func() {
				if recover() != nil {
					pan = true
				}
			}()
			srv.HandleFunc(p, func(*http.Request, *http.Response) {})
		}()
		res = append(res, bo(pan))
	}
	bl := make([][]byte, len(pats))
	for i, p := range pats {
		bl[i] = []byte(p)
	}
	fmt.Fprintf(w, "CReg %s [%s]\n", BL(bl), strings.Join(res, ";"))
	count("reg")
}

// ---------------------------------------------------------------- WebSocket

func wsEncode(p []byte) []byte {
	s := &http.VerifSock{}
	c := websocket.VerifNewConn(http.NewCon(s))
	c.SendData(p)
	return s.Written()
}

func doWsEnc(p []byte) {
	guard(6, func() {
		out := wsEncode(p)
		fmt.Fprintf(w, "CWsEnc %s %s\n", B(p), B(out))
		count("wsenc")
	})
}

// frame description: first byte, mask key (empty = unmasked), length class (0: 7 bit, 1: 16 bit,
// 2: 64 bit), the value written into the length field, payload.
type fdesc struct {
	b0      byte
	key     []byte
	cls     int
	lenv    uint64
	payload []byte
}

// independent RFC 6455 frame builder (encoding/binary only)
func (f fdesc) bytes() []byte {
	var o []byte
	o = append(o, f.b0)
	mb := byte(0)
	if len(f.key) > 0 {
		mb = 0x80
	}
	switch f.cls {
	case 0:
		o = append(o, mb|byte(f.lenv&0x7f))
	case 1:
		o = append(o, mb|126, 0, 0)
		binary.BigEndian.PutUint16(o[len(o)-2:], uint16(f.lenv))
	default:
		o = append(o, mb|127, 0, 0, 0, 0, 0, 0, 0, 0)
		binary.BigEndian.PutUint64(o[len(o)-8:], f.lenv)
	}
	if len(f.key) > 0 {
		o = append(o, f.key...)
		for i, x := range f.payload {
			o = append(o, x^f.key[i%4])
		}
	} else {
		o = append(o, f.payload...)
	}
	return o
}
func (f fdesc) term() string {
	return fmt.Sprintf("(FD %d %s %d %d %s)", f.b0, B(f.key), f.cls, f.lenv, B(f.payload))
}

func minCls(n int) int {
	if n <= 125 {
		return 0
	}
	if n <= 65535 {
		return 1
	}
	return 2
}

func wsReadAll(stream []byte, n int) (res []string, rest int, closed int) {
	s := &http.VerifSock{In: stream}
	c := websocket.VerifNewConn(http.NewCon(s))
	for i := 0; i < n; i++ {
		var data []byte
		var err error
		pan := false
		func() {
			defer func() {
				if recover() != nil {
					pan = true
				}
			}()
			data, err = c.ReadData()
		}()
		if pan {
			res = append(res, "(IErr 5)")
			break
		}
		if err != nil {
			switch err.Error() {
			case "verif: short stream":
				res = append(res, "(IErr 1)")
			case "not suppeort fragmented message":
				res = append(res, "(IErr 2)")
			case "recived closed message":
				res = append(res, "(IErr 3)")
			case "only support text message":
				res = append(res, "(IErr 4)")
			default:
				res = append(res, "(IErr 6)")
			}
			break
		}
		res = append(res, "(IOk "+B(data)+")")
	}
	return res, len(s.In), s.Closed
}

func doWsStream(fs []fdesc, cut int, n int) {
	var ts []string
	for _, f := range fs {
		ts = append(ts, f.term())
	}
	doWsStreamT(fs, ts, cut, n)
}

func doWsStreamT(fs []fdesc, ts []string, cut int, n int) {
	var stream []byte
	for _, f := range fs {
		stream = append(stream, f.bytes()...)
	}
	if cut > len(stream) {
		cut = len(stream)
	}
	stream = stream[:len(stream)-cut]
	var sum uint32
	for _, x := range stream {
		sum = sum*31 + uint32(x)
	}
	res, rest, closed := wsReadAll(stream, n)
	fmt.Fprintf(w, "CWsStream [%s] %d %d %d %d [%s] %d %d\n", strings.Join(ts, ";"), cut, n, len(stream), sum, strings.Join(res, ";"), rest, closed)
	count("wsstream")
}

func genFrame(r *gen.Rng, n int, wellFormedOnly bool) fdesc {
	f := fdesc{b0: 0x81, payload: r.Bytes(n), cls: minCls(n), lenv: uint64(n)}
	if r.Bool() {
		f.key = r.Bytes(4)
		if r.Intn(8) == 0 {
			f.key = []byte{0, 0, 0, 0}
		}
	}
	if r.Intn(5) == 0 && f.cls < 2 {
		f.cls += 1 + r.Intn(2-f.cls) // a longer length form than needed
	}
	if r.Intn(6) == 0 {
		f.b0 |= []byte{0x40, 0x20, 0x10, 0x70}[r.Intn(4)] // RSV bits (ignored by the code)
	}
	if wellFormedOnly {
		return f
	}
	switch r.Intn(14) {
	case 0:
		f.b0 = []byte{0x01, 0x00, 0x02, 0x08}[r.Intn(4)] // FIN clear
	case 1:
		f.b0 = 0x88 // close
	case 2:
		f.b0 = []byte{0x82, 0x80, 0x89, 0x8a, 0x83, 0x8f}[r.Intn(6)] // other opcodes
	case 3:
		f.cls = 2
		f.lenv = 1<<63 | uint64(r.Intn(1000)) // negative as int64
	case 4:
		if f.cls == 0 && n < 100 {
			f.lenv = uint64(n + 1 + r.Intn(20)) // length field larger than the data that follows
		}
	case 5:
		if n > 0 {
			f.lenv = uint64(r.Intn(n)) // shorter: the tail is read as the next frame
			f.cls = minCls(int(f.lenv))
		}
	}
	return f
}

var wsLens = []int{0, 1, 2, 3, 4, 5, 7, 8, 124, 125, 126, 127, 128, 129, 130, 255, 256, 257, 300, 1000}

func doMask(r *gen.Rng) {
	var key [4]byte
	copy(key[:], r.Bytes(4))
	b := r.Bytes(r.Intn(40))
	in := append([]byte(nil), b...)
	websocket.VerifMaskBytes(key, b)
	fmt.Fprintf(w, "CMask %s %s %s\n", B(key[:]), B(in), B(b))
	count("mask")
}

var guid = "258EAFA5-E914-47DA-95CA-C5AB0DC85B11"

func digestOf(key string) []byte {
	h := sha1.Sum([]byte(key + guid))
	return h[:]
}

func doAccept(key string) {
	acc := websocket.VerifAcceptKey(key)
	fmt.Fprintf(w, "CAccept %s %s %s\n", S(key), B(digestOf(key)), S(acc))
	count("accept")
}

const tokA = "upgradeUPGRADE, \tkKxX-"

func genTokHeader(r *gen.Rng) string {
	switch r.Intn(8) {
	case 0:
		return []string{"Upgrade", "upgrade", "UPGRADE", "keep-alive, Upgrade", "Upgrade, keep-alive", " upgrade ", "upgrade,", ",upgrade", "keep-alive", "", "upgradex", "xupgrade", "up grade", "\tUpGrAdE\t,x", "a,b,upgrade,c"}[r.Intn(15)]
	case 1, 2:
		parts := []string{}
		for i := r.Intn(4); i >= 0; i-- {
			t := []string{"upgrade", "Upgrade", "keep-alive", "close", "upgrad", "UPGRADE", "x"}[r.Intn(7)]
			parts = append(parts, strings.Repeat(" ", r.Intn(3))+t+strings.Repeat([]string{" ", "\t", "\n", "\v", "\f", "\r"}[r.Intn(6)], r.Intn(2)))
		}
		return strings.Join(parts, ",")
	default:
		n := r.Intn(12)
		var sb strings.Builder
		for i := 0; i < n; i++ {
			sb.WriteByte(tokA[r.Intn(len(tokA))])
		}
		return sb.String()
	}
}

func doTok(h, v string) {
	fmt.Fprintf(w, "CTok %s %s %s\n", S(h), S(v), bo(websocket.VerifTokenList(h, v)))
	count("tok")
}

func doUpgrade(r *gen.Rng) {
	hs := map[string]string{
		"Upgrade":               "websocket",
		"Connection":            "Upgrade",
		"Sec-WebSocket-Key":     genStr(r, 1, 24, 0),
		"Sec-WebSocket-Version": "13",
		"Sec-WebSocket-Protcol": "chat, superchat",
	}
	method := "GET"
	if r.Intn(3) == 0 {
		switch r.Intn(12) {
		case 0:
			method = []string{"POST", "get", "", "HEAD"}[r.Intn(4)]
		case 1:
			hs["Sec-WebSocket-Version"] = []string{"12", "13 ", "8", "", "013"}[r.Intn(5)]
		case 2:
			delete(hs, "Sec-WebSocket-Version")
		case 3:
			hs["Connection"] = genTokHeader(r)
		case 4:
			delete(hs, "Connection")
		case 5:
			hs["Upgrade"] = []string{"Websocket", "websocket ", "WEBSOCKET", "h2c", ""}[r.Intn(5)]
		case 6:
			delete(hs, "Upgrade")
		case 7:
			hs["Sec-WebSocket-Key"] = ""
		case 8:
			delete(hs, "Sec-WebSocket-Key")
		case 9:
			hs["Connection"] = "keep-alive, Upgrade"
		case 10:
			hs["sec-websocket-key"] = hs["Sec-WebSocket-Key"] // header names are case-sensitive here
			delete(hs, "Sec-WebSocket-Key")
		case 11:
			hs["Connection"] = "keep-alive"
		}
	}
	st0 := 200
	if r.Intn(4) == 0 {
		st0 = 0
	}
	guard(7, func() {
		s := &http.VerifSock{}
		con := http.VerifMakeCon(s, method, hs, st0)
		c, err := websocket.Upgrade(http.VerifConReq(con), http.VerifConResp(con))
		ok := err == nil && c != nil
		fmt.Fprintf(w, "CUpgrade %s %s %s %d %s %s %s\n", S(method), HM(hs), B(digestOf(hs["Sec-WebSocket-Key"])), st0, bo(ok), B(s.Written()), Z(int64(http.VerifConStatus(con))))
		count("upgrade")
	})
}

// ---------------------------------------------------------------- fixed boundary cases

func boundary() {
	for _, c := range [][2]string{{"", " "}, {" ", " "}, {"a", " "}, {"a b", " "}, {" ab", " "}, {"ab ", " "}, {"a  b", " "},
		{"k: v", ": "}, {"k:: v", ": "}, {": v", ": "}, {"k:", ": "}, {"k :v", ": "}, {"\r\n", "\r\n"}, {"a\r\r\nb", "\r\n"}, {"a\rb\n", "\r\n"},
		{"aaa", "aa"}, {"abab", "ab"}, {"abc", ""}, {"", ""}, {"ab", "abc"}} {
		doMatch(c[0], c[1])
	}
	for _, raw := range []string{
		"", " ", "GET", "GET ", "GET /", "GET / ", "GET / HTTP/1.1", "GET / HTTP/1.1\r\n", "GET / HTTP/1.1\r\n\r\n",
		"GET / HTTP/1.1\r\n\r\nbody", "GET / HTTP/1.0\r\nA: b\r\n\r\nbody", "GET / http/1.1\r\nA: b\r\n\r\n",
		"GET / HTTP/1.2\r\nA: b\r\n\r\nx", "GET / HTTP/0.9\r\n\r\n", "POST /p HTTP/1.1\r\nK: v\r\n\r\n\r\nbody",
		"PUT /p HTTP/1.1\r\nK: v\r\nbody", "HEAD /p HTTP/1.1\r\nK: v\r\nL: w", "HEAD /p HTTP/1.1\r\nK: v\r\nL: w\r\n",
		"GET  HTTP/1.1\r\nK: v\r\n\r\n", " / HTTP/1.1\r\n\r\n", "FOO / HTTP/1.1\r\nK: v\r\n\r\nb", "get / HTTP/1.1\r\n\r\n",
		"GET / HTTP/1.1\r\nK: v\r\nK: w\r\n\r\n", "GET / HTTP/1.1\r\n: v\r\n\r\nb", "GET / HTTP/1.1\r\nK: \r\n\r\nb",
		"GET / HTTP/1.1\r\nK:v\r\n\r\nb: c\r\nd", "GET / HTTP/1.1\r\nK: v\r\n\r\na: b\r\nc: d\r\n\r\n", "GET /\r\n HTTP/1.1\r\n\r\n",
		"HTTP/1.1 200 OK\r\nServer: x\r\nConnection: close\r\n\r\nhello", "HTTP/1.1 299 \r\nServer: x\r\n\r\nhello",
		"HTTP/1.1 404 Not Found\r\nServer: x\r\n\r\n", "GET / HTTP/1.1\r\n\r\n\r\n", "GET / HTTP/1.1\r\n\rK: v\r\n\r\n",
	} {
		doParse(raw, 200)
		doParse(raw, 0)
	}
	doReg([]string{"/", "/a", "/", "", "/a", "/b"})
	doReg([]string{"", "x", "x"})
	// the grammar boundary, through the whole loop
	base := func() reqSpec { return reqSpec{method: "GET", path: "/x", extra: map[string]string{}, body: "hello"} }
	rt := []route{{pat: "/x", body: "RESPONSE-BODY"}, {pat: "/", body: "root"}}
	for i := 0; i < 14; i++ {
		q := base()
		switch i {
		case 0:
		case 1:
			q.body = "\r\nhello\r\n\r\nK: v\r\n"
		case 2:
			q.body = ": "
		case 3:
			q.extra["a:"] = "x\r"
		case 4:
			q.extra["\r"] = "\n"
		case 5:
			q.extra["\n\r"] = ": "
		case 6:
			q.path = "/x\r\ny"
		case 7:
			q.extra["\r\nK"] = "v" // outside: key starts with CRLF
		case 8:
			q.extra["K: L"] = "v" // outside: key contains ": "
		case 9:
			q.extra["K"] = "" // outside: empty value
		case 10:
			q.extra["K"] = "v\r\nw" // outside: CRLF in value
		case 11:
			q.path = "/x y" // outside: space in uri
		case 12:
			q.method = "POST"
			q.body = ""
		case 13:
			q.path = "/"
		}
		doRound(q, "10.0.0.1", 8080, rt)
		doSend(q)
	}
	doRound(base(), "10.0.0.1", 80, nil)
	doRound(base(), "10.0.0.1", 80, []route{{pat: "/", body: "root"}, {pat: "/xy", body: "longer"}, {pat: "x", body: "noslash"}})
	doRound(base(), "10.0.0.1", 80, []route{{pat: "/x", body: ""}})
	if withErrs {
		doRound(base(), "10.0.0.1", 80, []route{{pat: "/x", body: "b", errs: []int{404}}})
	}
	for _, st := range []int{200, 404, 101, 299, 0, -7, 1000, 500, 511, 100} {
		doResp("HTTP/1.1", st, map[string]string{"Server": "s", "Connection": "close"}, "the body\r\n: x")
	}
	doResp("", 200, map[string]string{}, "")
	doResp("HTTP/1.0", 200, map[string]string{"A": "b"}, "")
	for _, n := range wsLens {
		p := make([]byte, n)
		for i := range p {
			p[i] = byte(i*7 + n)
		}
		doWsEnc(p)
		for _, key := range [][]byte{nil, {1, 2, 3, 4}, {0xff, 0, 0x80, 0x7f}} {
			f := fdesc{b0: 0x81, key: key, cls: minCls(n), lenv: uint64(n), payload: p}
			doWsStream([]fdesc{f}, 0, 2)
			if f.cls < 2 {
				f.cls++
				doWsStream([]fdesc{f}, 0, 1)
			}
		}
	}
	doWsStream(nil, 0, 1)
	doWsStream([]fdesc{{b0: 0x81, cls: 0, lenv: 3, payload: []byte("abc")}}, 1, 1)
	doWsStream([]fdesc{{b0: 0x81, cls: 0, lenv: 3, payload: []byte("abc")}}, 4, 1)
	doWsStream([]fdesc{{b0: 0x81, cls: 1, lenv: 3, payload: []byte("abc")}}, 5, 1)
	doWsStream([]fdesc{{b0: 0x81, cls: 2, lenv: 1 << 63, payload: nil}}, 0, 1)
	doWsStream([]fdesc{{b0: 0x81, cls: 2, lenv: 1<<64 - 1, key: []byte{1, 2, 3, 4}, payload: []byte("zz")}}, 0, 2)
	doWsStream([]fdesc{{b0: 0x88, cls: 0, lenv: 0}, {b0: 0x81, cls: 0, lenv: 1, payload: []byte("a")}}, 0, 2)
	doAccept("dGhlIHNhbXBsZSBub25jZQ==") // RFC 6455 section 1.3
	doAccept("")
	doAccept("x")
	for _, h := range []string{"Upgrade", "upgrade", "keep-alive, Upgrade", "Upgrade,keep-alive", " upgrade\t", "upgradex", "", ",", "up,grade", "UPGRADE\r\n"} {
		doTok(h, "upgrade")
	}
}

// ---------------------------------------------------------------- random streams

func randomCases(r *gen.Rng, n int, bigs []func()) {
	step := n
	if len(bigs) > 0 {
		step = n / len(bigs)
	}
	if step < 1 {
		step = 1
	}
	for i := 0; i < n; i++ {
		if i%step == step-1 && len(bigs) > 0 {
			bigs[0]()
			bigs = bigs[1:]
		}
		switch i % 16 {
		case 0, 1, 2, 3, 4:
			q := genReq(r)
			doRound(q, "10.0.0."+strconv.Itoa(1+r.Intn(250)), 80+r.Intn(9000), genRoutes(r, q.path))
		case 5:
			q := genNearMiss(r)
			doRound(q, "10.0.0.2", 8080, genRoutes(r, q.path))
		case 6:
			if r.Bool() {
				doSend(genReq(r))
			} else {
				doSend(genNearMiss(r))
			}
		case 7:
			// malformed stream: a valid request damaged, or soup over the delimiter alphabet
			var raw string
			if r.Bool() {
				q := genReq(r)
				b := []byte(http.VerifSend(q.method, q.path, q.extra, q.body))
				for k := 1 + r.Intn(3); k > 0 && len(b) > 0; k-- {
					p := r.Intn(len(b))
					switch r.Intn(4) {
					case 0:
						b = append(b[:p], b[p+1:]...)
					case 1:
						b = b[:p]
					case 2:
						b = append(b[:p], append([]byte(spice[r.Intn(len(spice))]), b[p:]...)...)
					case 3:
						b[p] = "\r\n: "[r.Intn(4)]
					}
				}
				raw = string(b)
			} else {
				const soup = "GETHAD /:\r\n\r\n  ::HTTP/1.1.0x"
				n := r.Intn(40)
				var sb strings.Builder
				for j := 0; j < n; j++ {
					sb.WriteByte(soup[r.Intn(len(soup))])
				}
				raw = sb.String()
			}
			doParse(raw, []int{200, 200, 0, 404}[r.Intn(4)])
		case 8:
			hs := map[string]string{}
			for k := r.Intn(4); k > 0; k-- {
				hs[genKey(r)] = genVal(r)
			}
			st := []int{200, 200, 404, 400, 101, 500, 299, 0, 1000}[r.Intn(9)]
			if r.Intn(4) == 0 {
				st = 100 + r.Intn(500)
			}
			doResp([]string{"HTTP/1.1", "HTTP/1.0", "", "x y"}[r.Intn(4)], st, hs, genBody(r))
		case 9:
			const a = "ab: \r\n"
			mk := func(n int) string {
				var sb strings.Builder
				for j := 0; j < n; j++ {
					sb.WriteByte(a[r.Intn(len(a))])
				}
				return sb.String()
			}
			doMatch(mk(r.Intn(14)), []string{" ", ": ", "\r\n", "a", "ab", "aa", "aba"}[r.Intn(7)])
		case 10:
			n := wsLens[r.Intn(len(wsLens))]
			if r.Bool() {
				n = r.Intn(400)
			}
			doWsEnc(r.Bytes(n))
		case 11, 12:
			// sequences of frames, mostly well formed
			k := 1 + r.Intn(5)
			var fs []fdesc
			for j := 0; j < k; j++ {
				n := r.Intn(40)
				switch r.Intn(6) {
				case 0:
					n = wsLens[r.Intn(len(wsLens))]
				case 1:
					n = 120 + r.Intn(12)
				}
				fs = append(fs, genFrame(r, n, i%16 == 11))
			}
			cut := 0
			if r.Intn(8) == 0 {
				cut = 1 + r.Intn(12)
			}
			doWsStream(fs, cut, k+r.Intn(2))
		case 13:
			doMask(r)
			doAccept(genStr(r, 0, 30, 5))
		case 14:
			doTok(genTokHeader(r), []string{"upgrade", "upgrade", "Upgrade", "keep-alive", "k"}[r.Intn(5)])
		case 15:
			doUpgrade(r)
		}
	}
	for _, f := range bigs {
		f()
	}
}

// pat is a byte pattern that the Coq side regenerates from (n, seed) by the same recurrence, so
// that a large payload chosen by the driver need not be written out as a literal; everything the
// implementation RETURNS is still written out in full.
type pat struct {
	n    int
	seed uint32
}

func (p pat) bytes() []byte {
	b := make([]byte, p.n)
	x := p.seed & 0x7fffffff
	for i := range b {
		x = (x*1103515245 + 12345) & 0x7fffffff
		b[i] = byte(x >> 16)
	}
	return b
}
func (p pat) term() string { return fmt.Sprintf("(PAT %d %d)", p.n, p.seed&0x7fffffff) }

// big WebSocket messages around the 16-bit boundary and beyond; returned as closures so that main
// can spread them over the output (one shard of cases is evaluated by one coqc process)
func bigCases(r *gen.Rng, level int) []func() {
	var out []func()
	if level <= 0 {
		return out
	}
	enc := func(n int) {
		p := pat{n, r.U32()}
		out = append(out, func() {
			guard(6, func() {
				fmt.Fprintf(w, "CWsEnc %s %s\n", p.term(), B(wsEncode(p.bytes())))
				count("wsenc-big")
			})
		})
	}
	dec := func(ns []int, masked []bool, cls2 bool, extra int) {
		var fs []fdesc
		var ts []string
		for i, n := range ns {
			p := pat{n, r.U32()}
			f := fdesc{b0: 0x81, cls: minCls(n), lenv: uint64(n), payload: p.bytes()}
			if cls2 {
				f.cls = 2
			}
			if masked[i] {
				f.key = r.Bytes(4)
			}
			fs = append(fs, f)
			ts = append(ts, fmt.Sprintf("(FD %d %s %d %d %s)", f.b0, B(f.key), f.cls, f.lenv, p.term()))
		}
		out = append(out, func() { doWsStreamT(fs, ts, 0, len(fs)+extra) })
	}
	loop := func(ns []int) {
		var ps []pat
		for _, n := range ns {
			ps = append(ps, pat{n, r.U32()})
		}
		out = append(out, func() {
			var msgs [][]byte
			var ts []string
			for _, p := range ps {
				msgs = append(msgs, p.bytes())
				ts = append(ts, p.term())
			}
			doWsLoopT(msgs, "["+strings.Join(ts, ";")+"]")
		})
	}
	// level 1 (quick tier): the two sides of the 16-bit/64-bit boundary of the encoder and one
	// masked 64-bit-length frame for the decoder (each large literal costs seconds of coqc time)
	enc(65535)
	enc(65536)
	dec([]int{65536}, []bool{true}, false, 0)
	if level >= 2 {
		enc(65537)
		dec([]int{65535}, []bool{false}, false, 0)
		dec([]int{65536}, []bool{false}, false, 0)
		dec([]int{65537}, []bool{false}, false, 0)
		loop([]int{65535, 65536})
		for _, n := range []int{65534, 70000, 131072} {
			enc(n)
			dec([]int{n}, []bool{true}, false, 1)
		}
		dec([]int{65535}, []bool{true}, false, 0)
		dec([]int{65537}, []bool{true}, false, 0)
		dec([]int{300}, []bool{false}, true, 0) // a short message in the 64-bit form
		dec([]int{65535, 0, 65536, 126, 65537}, []bool{true, false, true, false, true}, false, 1)
		loop([]int{125, 126, 65537, 0, 65536})
	}
	if level >= 3 {
		enc(200 * 1024)
		dec([]int{200 * 1024}, []bool{true}, false, 0)
		enc(300*1024 + r.Intn(1000))
	}
	return out
}

// doWsLoop: the output of SendData fed back into ReadData (both ends are the bundled code)
func doWsLoop(msgs [][]byte) { doWsLoopT(msgs, BL(msgs)) }

func doWsLoopT(msgs [][]byte, term string) {
	guard(8, func() {
		var stream []byte
		for _, p := range msgs {
			stream = append(stream, wsEncode(p)...)
		}
		res, rest, _ := wsReadAll(stream, len(msgs))
		fmt.Fprintf(w, "CWsLoop %s [%s] %d\n", term, strings.Join(res, ";"), rest)
		count("wsloop")
	})
}
