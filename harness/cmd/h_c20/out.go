package main

import (
	"bufio"
	"fmt"
	"os"
	"sort"
	"strings"

	"github.com/brewlin/net-protocol/protocol/application/http"
)

var w = bufio.NewWriterSize(os.Stdout, 1<<20)

// B prints a byte string as the Coq term (B n [w1;w2;...]): big-endian words of 32 bytes, the last
// one holding the remaining n - 32*(k-1) bytes.
func B(b []byte) string {
	var sb strings.Builder
	fmt.Fprintf(&sb, "(B %d [", len(b))
	for i := 0; i < len(b); i += 32 {
		if i > 0 {
			sb.WriteByte(';')
		}
		sb.WriteString("0x")
		for j := i; j < i+32 && j < len(b); j++ {
			fmt.Fprintf(&sb, "%02x", b[j])
		}
	}
	sb.WriteString("])")
	return sb.String()
}
func S(s string) string { return B([]byte(s)) }

func Z(i int64) string {
	if i < 0 {
		return fmt.Sprintf("(%d)", i)
	}
	return fmt.Sprintf("%d", i)
}
func bo(x bool) string {
	if x {
		return "true"
	}
	return "false"
}

func sortedKeys(m map[string]string) []string {
	ks := make([]string, 0, len(m))
	for k := range m {
		ks = append(ks, k)
	}
	sort.Strings(ks)
	return ks
}

// HL prints an association list in the given key order.
func HL(keys []string, m map[string]string) string {
	var sb strings.Builder
	sb.WriteByte('[')
	for i, k := range keys {
		if i > 0 {
			sb.WriteByte(';')
		}
		fmt.Fprintf(&sb, "(%s,%s)", S(k), S(m[k]))
	}
	sb.WriteByte(']')
	return sb.String()
}
func HM(m map[string]string) string { return HL(sortedKeys(m), m) }

func Req(r http.VerifReq) string {
	return fmt.Sprintf("(RQ %s %s %s %s %s %s %s)", S(r.MethodRaw), Z(int64(r.Method)), S(r.Uri),
		S(r.VersionRaw), Z(int64(r.Version)), HM(r.Headers), S(r.Body))
}

func ZL(l []int) string {
	var sb strings.Builder
	sb.WriteByte('[')
	for i, x := range l {
		if i > 0 {
			sb.WriteByte(';')
		}
		sb.WriteString(Z(int64(x)))
	}
	sb.WriteByte(']')
	return sb.String()
}

func BL(l [][]byte) string {
	var sb strings.Builder
	sb.WriteByte('[')
	for i, x := range l {
		if i > 0 {
			sb.WriteByte(';')
		}
		sb.WriteString(B(x))
	}
	sb.WriteByte(']')
	return sb.String()
}

// findOrder: mid must start with the lines "k: v\r\n" of all entries of m in SOME order; returns
// that order as indices into keys (nil if there is none).  Only a search aid: the order is checked
// inside Coq by rebuilding the bytes.
func findOrder(mid []byte, keys []string, m map[string]string) []int {
	lines := make([][]byte, len(keys))
	for i, k := range keys {
		lines[i] = []byte(k + ": " + m[k] + "\r\n")
	}
	used := make([]bool, len(keys))
	var ord []int
	var dfs func(pos int) bool
	dfs = func(pos int) bool {
		if len(ord) == len(keys) {
			return true
		}
		for i := range keys {
			if used[i] || pos+len(lines[i]) > len(mid) || string(mid[pos:pos+len(lines[i])]) != string(lines[i]) {
				continue
			}
			used[i] = true
			ord = append(ord, i)
			if dfs(pos + len(lines[i])) {
				return true
			}
			ord = ord[:len(ord)-1]
			used[i] = false
		}
		return false
	}
	if dfs(0) {
		if ord == nil {
			return []int{}
		}
		return ord
	}
	return nil
}

// orderAfter finds the header order in raw after the first skip bytes.
func orderAfter(raw []byte, skip int, m map[string]string) []int {
	if skip > len(raw) || skip < 0 {
		return []int{-1}
	}
	o := findOrder(raw[skip:], sortedKeys(m), m)
	if o == nil {
		return []int{-1}
	}
	return o
}

var stats = map[string]int{}

func count(k string) { stats[k]++ }
