package main

// Concurrent readers versus packet delivery: one goroutine injects datagrams through the link
// endpoint while 2-3 goroutines call Read in a loop.  The receive buffer is large enough for every
// datagram, so all of them must be accepted; afterwards the main goroutine drains what is left.
// The case records the arrivals in injection order and, per reader, what its Reads returned in
// order; Corr/C11.v checks that the readers' results interleave to exactly the accepted sequence
// (every datagram exactly once, each reader sees arrival order, contents and sender intact).

import (
	"bufio"
	"fmt"
	"runtime"
	"strings"
	"sync"
	"sync/atomic"
	"time"

	"aaverif/internal/gen"
	"aaverif/internal/netx"

	"github.com/brewlin/net-protocol/pkg/buffer"
	tcpip "github.com/brewlin/net-protocol/protocol"
)

func genConc(r *gen.Rng, st *stats, w *bufio.Writer) {
	fam := 4
	if r.Intn(3) == 0 {
		fam = 6
	}
	h := newHist(r, st, fam, false, 1<<22)
	snd, _ := h.senders()
	port := uint16(9000)
	h.bind(nil, port)
	nread := 2 + r.Intn(2)
	m := 20 + r.Intn(50)
	var stop int32
	var total int32
	results := make([][]string, nread)
	var wg sync.WaitGroup
	var pmu sync.Mutex
	panicked := false
	idsAll := make([]int, 0, m)
	for i := 0; i < m; i++ {
		idsAll = append(idsAll, h.nextID+1+i)
	}
	for k := 0; k < nread; k++ {
		wg.Add(1)
		go func(k int) {
			defer wg.Done()
			defer func() {
				if x := recover(); x != nil {
					pmu.Lock()
					panicked = true
					pmu.Unlock()
				}
			}()
			for atomic.LoadInt32(&stop) == 0 {
				var addr tcpip.FullAddress
				var v buffer.View
				v, _, err := h.w.ep.Read(&addr)
				if err != nil {
					runtime.Gosched()
					continue
				}
				results[k] = append(results[k], fmt.Sprintf("RdData %d %s %d %s", addr.NIC, netx.ZList([]byte(addr.Addr)), addr.Port, zp(v, idsAll)))
				atomic.AddInt32(&total, 1)
			}
		}(k)
	}
	for i := 0; i < m && !h.panicked; i++ {
		si := r.Intn(3)
		n := 4 + r.Intn(1200)
		if r.Intn(10) == 0 {
			n = 1472 + r.Intn(3)
		}
		nic := 1 + r.Intn(2)
		h.arriveObs(nic, fam, snd[si], sndP[si], port, n, 0, 0, r.Intn(3), false)
		if r.Intn(3) == 0 {
			runtime.Gosched()
		}
		if r.Intn(16) == 0 {
			time.Sleep(time.Duration(r.Intn(200)) * time.Microsecond)
		}
	}
	deadline := time.Now().Add(2 * time.Second)
	for atomic.LoadInt32(&total) < int32(m) && time.Now().Before(deadline) {
		time.Sleep(200 * time.Microsecond)
	}
	atomic.StoreInt32(&stop, 1)
	wg.Wait()
	// whatever is still queued is read by the main goroutine as one more reader
	var rest []string
	for i := 0; i < m+2; i++ {
		var addr tcpip.FullAddress
		v, _, err := h.w.ep.Read(&addr)
		if err != nil {
			break
		}
		rest = append(rest, fmt.Sprintf("RdData %d %s %d %s", addr.NIC, netx.ZList([]byte(addr.Addr)), addr.Port, zp(v, idsAll)))
	}
	results = append(results, rest)
	if panicked {
		h.out = append(h.out, "St (HPanic 2) 0 0")
	}
	var rs []string
	for _, l := range results {
		rs = append(rs, "["+strings.Join(l, "; ")+"]")
	}
	fmt.Fprintf(w, "CConc [%d; %d; 0] [%s] [%s]\n", h.max, h.fam, strings.Join(h.out, "; "), strings.Join(rs, "; "))
	st.cases++
	st.conc++
}
