// h_c11: UDP datagram semantics of the real stack (property C11).
//
// One case = one history on ONE UDP socket of a fresh stack with two NICs (IPv4 + IPv6 each):
// IP packets carrying UDP datagrams injected through a link endpoint that hands its views over the
// way link/fdbased does (persistent view array, entries cleared after dispatch), Read / Write /
// Bind / Connect / Shutdown / Close calls, ICMP errors.  Every step is printed with what the
// implementation returned, the frames it emitted, and rcvBufSize / queue length afterwards (overlay
// accessors VerifRcvState / VerifSetRcvBufSizeMax added to package udp; no logic under test).
//
// Payloads are slices of deterministic patterns and are printed as (P id n); see Corr/C11.v.
// Output: one Coq term of type NP.Corr.C11.case per line.
package main

import (
	"bufio"
	"encoding/binary"
	"flag"
	"fmt"
	"io"
	"log"
	"os"
	"strings"

	_ "aaverif/aadet"
	"aaverif/internal/gen"
	"aaverif/internal/netx"

	"github.com/brewlin/net-protocol/pkg/buffer"
	"github.com/brewlin/net-protocol/pkg/waiter"
	tcpip "github.com/brewlin/net-protocol/protocol"
	"github.com/brewlin/net-protocol/protocol/network/arp"
	"github.com/brewlin/net-protocol/protocol/network/ipv4"
	"github.com/brewlin/net-protocol/protocol/network/ipv6"
	"github.com/brewlin/net-protocol/protocol/transport/tcp"
	"github.com/brewlin/net-protocol/protocol/transport/udp"
	"github.com/brewlin/net-protocol/stack"
)

// ---------------------------------------------------------------- link endpoint

type frame struct {
	proto tcpip.NetworkProtocolNumber
	b     []byte
}

// link mimics link/fdbased's receive path: a persistent array of views, filled per packet with
// freshly allocated buffers, wrapped in a VectorisedView, dispatched, then cleared.  A transport
// endpoint that keeps the VectorisedView it was handed without cloning the view slice therefore
// sees its views disappear, exactly as with the real link endpoint.
type link struct {
	views      [16]buffer.View
	out        []frame
	dispatcher stack.NetworkDispatcher
}

func (l *link) MTU() uint32                                  { return 1500 }
func (l *link) Capabilities() stack.LinkEndpointCapabilities { return 0 }
func (l *link) MaxHeaderLength() uint16                      { return 0 }
func (l *link) LinkAddress() tcpip.LinkAddress               { return "" }
func (l *link) Attach(d stack.NetworkDispatcher)             { l.dispatcher = d }
func (l *link) IsAttached() bool                             { return l.dispatcher != nil }
func (l *link) WritePacket(r *stack.Route, hdr buffer.Prependable, payload buffer.VectorisedView, protocol tcpip.NetworkProtocolNumber) *tcpip.Error {
	b := append([]byte(nil), hdr.View()...)
	b = append(b, payload.ToView()...)
	l.out = append(l.out, frame{protocol, b})
	return nil
}

func (l *link) take() []frame { o := l.out; l.out = nil; return o }

// inject delivers pkt split into views of the given sizes (the last view takes the rest).
func (l *link) inject(proto tcpip.NetworkProtocolNumber, pkt []byte, chunks []int) {
	rest := pkt
	used := 0
	for _, c := range chunks {
		if len(rest) == 0 || used == len(l.views)-1 {
			break
		}
		if c > len(rest) {
			c = len(rest)
		}
		v := buffer.NewView(c)
		copy(v, rest[:c])
		l.views[used] = v
		used++
		rest = rest[c:]
	}
	if len(rest) > 0 || used == 0 {
		v := buffer.NewView(len(rest))
		copy(v, rest)
		l.views[used] = v
		used++
	}
	vv := buffer.NewVectorisedView(len(pkt), l.views[:used])
	l.dispatcher.DeliverNetworkPacket(l, "", "", proto, vv)
	for i := 0; i < used; i++ {
		l.views[i] = nil
	}
}

// ---------------------------------------------------------------- addresses

var (
	nic4 = [3][]byte{nil, {10, 0, 0, 1}, {10, 0, 1, 1}}
	nic6 = [3][]byte{nil, a6(1, 1), a6(2, 1)}
	// senders: index 0 is the peer a connected socket connects to
	snd4 = [][]byte{{10, 0, 0, 2}, {10, 0, 0, 3}, {192, 168, 7, 9}}
	snd6 = [][]byte{a6(1, 2), a6(1, 3), a6(9, 9)}
	sndP = []uint16{4000, 4001, 53}
)

func a6(net, host byte) []byte {
	b := make([]byte, 16)
	b[0] = 0xfd
	b[7] = net
	b[15] = host
	return b
}

func mapped(a4 []byte) []byte {
	b := make([]byte, 16)
	b[10], b[11] = 0xff, 0xff
	copy(b[12:], a4)
	return b
}

func isMapped(a []byte) bool {
	if len(a) != 16 {
		return false
	}
	for i := 0; i < 10; i++ {
		if a[i] != 0 {
			return false
		}
	}
	return a[10] == 0xff && a[11] == 0xff
}

type world struct {
	s  *stack.Stack
	l  [3]*link
	ep tcpip.Endpoint
	wq waiter.Queue
}

func newWorld() *world {
	w := &world{}
	w.s = stack.New([]string{ipv4.ProtocolName, ipv6.ProtocolName, arp.ProtocolName}, []string{tcp.ProtocolName, udp.ProtocolName}, stack.Options{})
	for n := 1; n <= 2; n++ {
		w.l[n] = &link{}
		id := stack.RegisterLinkEndpoint(w.l[n])
		if err := w.s.CreateNIC(tcpip.NICID(n), id); err != nil {
			panic(err.String())
		}
		if err := w.s.AddAddress(tcpip.NICID(n), ipv4.ProtocolNumber, tcpip.Address(nic4[n])); err != nil {
			panic(err.String())
		}
		if err := w.s.AddAddress(tcpip.NICID(n), ipv6.ProtocolNumber, tcpip.Address(nic6[n])); err != nil {
			panic(err.String())
		}
	}
	z := string(make([]byte, 16))
	w.s.SetRouteTable([]tcpip.Route{
		{Destination: "\x00\x00\x00\x00", Mask: "\x00\x00\x00\x00", Gateway: "", NIC: 1},
		{Destination: tcpip.Address(z), Mask: tcpip.AddressMask(z), Gateway: "", NIC: 1},
	})
	return w
}

// ---------------------------------------------------------------- printing

func pat(id, i int) byte { return byte((id*131 + i*7 + (i/256)*13 + 1) % 256) }

func patBytes(id, n int) []byte {
	b := make([]byte, n)
	for i := range b {
		b[i] = pat(id, i)
	}
	return b
}

func isPat(b []byte, id int) bool {
	for i := range b {
		if b[i] != pat(id, i) {
			return false
		}
	}
	return true
}

// zp prints b as (P id n) when it is a prefix of one of the given patterns.
func zp(b []byte, ids []int) string {
	if len(b) == 0 {
		return "[]"
	}
	if len(b) >= 4 {
		for _, id := range ids {
			if isPat(b, id) {
				return fmt.Sprintf("(P %d %d)", id, len(b))
			}
		}
	}
	return netx.ZList(b)
}

var errCodes = map[*tcpip.Error]int{
	tcpip.ErrWouldBlock: 1, tcpip.ErrClosedForReceive: 2, tcpip.ErrClosedForSend: 3, tcpip.ErrMessageTooLong: 4,
	tcpip.ErrInvalidOptionValue: 5, tcpip.ErrDestinationRequired: 6, tcpip.ErrInvalidEndpointState: 7,
	tcpip.ErrNotConnected: 8, tcpip.ErrControlPortUnreachable: 9, tcpip.ErrControlPacketTooBig: 10,
	tcpip.ErrNoRoute: 11, tcpip.ErrNetworkUnreachable: 12, tcpip.ErrBadLocalAddress: 13, tcpip.ErrPortInUse: 14,
	tcpip.ErrNoPortAvailable: 15, tcpip.ErrNoLinkAddress: 16,
}

func ec(e *tcpip.Error) int {
	if e == nil {
		return 0
	}
	if c, ok := errCodes[e]; ok {
		return c
	}
	return 99
}

// ---------------------------------------------------------------- one history

type hist struct {
	w        *world
	r        *gen.Rng
	out      []string
	ids      []int // pattern ids used so far
	nextID   int
	fam      int
	v6only   bool
	max      int
	panicked bool
	stats    *stats
}

type stats struct {
	arrivals, reads, readsData, writes, writesOK, lenSmall, lenBig, lenTiny, trailing, big, manyViews int
	cases, conc                                                                            int
}

func (h *hist) step(op string) {
	size, qlen := udp.VerifRcvState(h.w.ep)
	h.out = append(h.out, fmt.Sprintf("St (%s) %d %d", op, size, qlen))
}

// guard runs f, reporting a Go panic of the code under test as an HPanic step.
func (h *hist) guard(f func()) {
	defer func() {
		if x := recover(); x != nil {
			h.panicked = true
			h.out = append(h.out, "St (HPanic 1) 0 0")
		}
	}()
	f()
}

func (h *hist) lport() int {
	a, _ := h.w.ep.GetLocalAddress()
	return int(a.Port)
}

func (h *hist) laddr() []byte {
	a, _ := h.w.ep.GetLocalAddress()
	return []byte(a.Addr)
}

func (h *hist) newID() int {
	h.nextID++
	h.ids = append(h.ids, h.nextID)
	return h.nextID
}

var chunkCfg = []int{114, 256, 256, 512, 1024, 2048, 4096, 8192, 16384, 32768}

// arrive injects one UDP datagram.  lenMode: 0 consistent, 1 smaller than the payload, 2 larger than
// the IP payload, 3 below 8; trailing extra bytes after the datagram inside the IP payload.
func (h *hist) arrive(nic, fam int, src []byte, sport, dport uint16, n int, lenMode int, trailing int, chunkMode int) {
	h.arriveObs(nic, fam, src, sport, dport, n, lenMode, trailing, chunkMode, true)
}

// arriveObs: obs = false prints (-1) (-1) instead of rcvBufSize / queue length (concurrent readers
// make them meaningless).
func (h *hist) arriveObs(nic, fam int, src []byte, sport, dport uint16, n int, lenMode int, trailing int, chunkMode int, obs bool) {
	id := h.newID()
	payload := patBytes(id, n)
	var dst []byte
	if fam == 4 {
		dst = nic4[nic]
	} else {
		dst = nic6[nic]
	}
	lf := -1
	switch lenMode {
	case 1:
		if n > 0 {
			lf = 8 + h.r.Intn(n)
			h.stats.lenSmall++
		}
	case 2:
		lf = 8 + n + trailing + 1 + h.r.Intn(20)
		h.stats.lenBig++
	case 3:
		lf = h.r.Intn(8)
		h.stats.lenTiny++
	default:
		if lenMode >= 100 { // exact length field (corpus cases)
			lf = lenMode - 100
		}
	}
	seg := netx.UDPBytes(src, dst, sport, dport, payload, lf)
	tr := make([]byte, trailing)
	for i := range tr {
		tr[i] = byte(200 + i)
	}
	if trailing > 0 {
		h.stats.trailing++
	}
	seg = append(seg, tr...)
	var pkt []byte
	hl := 20
	proto := netx.ProtoIPv4
	if fam == 4 {
		pkt = netx.IPv4Packet(src, dst, 17, uint16(h.r.Intn(65536)), 0, 64, seg)
	} else {
		pkt = netx.IPv6Packet(src, dst, 17, 64, seg)
		hl = 40
		proto = netx.ProtoIPv6
	}
	var chunks []int
	switch chunkMode {
	case 0: // one view
	case 1: // fdbased buffer configuration
		chunks = chunkCfg
	case 2: // header + 8 bytes exactly in the first view
		chunks = []int{hl + 8, 1 + h.r.Intn(700), 1 + h.r.Intn(3000)}
	case 3: // first view too short for the UDP header
		chunks = []int{hl + h.r.Intn(8)}
	case 6: // many views (a datagram reassembled from 9..15 fragments reaches UDP like this)
		k := 8 + h.r.Intn(7)
		per := 1
		if n > k {
			per = 1 + h.r.Intn(n/k)
		}
		chunks = []int{hl + 8 + h.r.Intn(4)}
		for i := 0; i < k; i++ {
			chunks = append(chunks, per)
		}
		h.stats.manyViews++
	default:
		chunks = []int{hl + 8 + h.r.Intn(200), 1 + h.r.Intn(1500)}
	}
	// length of the first view the transport layer sees: the network layer trims its header; a
	// first view holding exactly the header is removed, a shorter one fails the header check
	v0 := len(pkt)
	if len(chunks) > 0 && chunks[0] < v0 {
		v0 = chunks[0]
	}
	first := 0
	switch {
	case v0 > hl:
		first = v0 - hl
	case v0 == hl:
		first = len(pkt) - hl
		if len(chunks) > 1 && chunks[1] < first {
			first = chunks[1]
		}
	}
	h.guard(func() { h.w.l[nic].inject(proto, pkt, chunks) })
	if h.panicked {
		return
	}
	segs := netx.ZList(seg[:8])
	if n > 0 {
		segs += " ++ " + zp(payload, []int{id})
	}
	if trailing > 0 {
		segs += " ++ " + netx.ZList(tr)
	}
	h.stats.arrivals++
	op := fmt.Sprintf("HArrive %d %d %s %s %d (%s)", nic, fam, netx.ZList(src), netx.ZList(dst), first, segs)
	if obs {
		h.step(op)
	} else {
		h.out = append(h.out, fmt.Sprintf("St (%s) (-1) (-1)", op))
	}
}

func (h *hist) read() {
	var addr tcpip.FullAddress
	var v buffer.View
	var err *tcpip.Error
	h.guard(func() { v, _, err = h.w.ep.Read(&addr) })
	if h.panicked {
		return
	}
	h.stats.reads++
	if err != nil {
		h.step(fmt.Sprintf("HRead (RdErr %d)", ec(err)))
		return
	}
	h.stats.readsData++
	h.step(fmt.Sprintf("HRead (RdData %d %s %d %s)", addr.NIC, netx.ZList([]byte(addr.Addr)), addr.Port, zp(v, h.ids)))
}

func (h *hist) bind(addr []byte, port uint16) {
	var err *tcpip.Error
	h.guard(func() { err = h.w.ep.Bind(tcpip.FullAddress{Addr: tcpip.Address(addr), Port: port}, nil) })
	if h.panicked {
		return
	}
	h.step(fmt.Sprintf("HBind %s %d %d %d", netx.ZList(addr), port, ec(err), h.lport()))
}

func (h *hist) connect(addr []byte, port uint16) {
	var err *tcpip.Error
	h.guard(func() { err = h.w.ep.Connect(tcpip.FullAddress{Addr: tcpip.Address(addr), Port: port}) })
	if h.panicked {
		return
	}
	h.step(fmt.Sprintf("HConnect %s %d %d %d %s", netx.ZList(addr), port, ec(err), h.lport(), netx.ZList(h.laddr())))
}

func (h *hist) shutdown(rd, wr bool) {
	var f tcpip.ShutdownFlags
	if rd {
		f |= tcpip.ShutdownRead
	}
	if wr {
		f |= tcpip.ShutdownWrite
	}
	var err *tcpip.Error
	h.guard(func() { err = h.w.ep.Shutdown(f) })
	if h.panicked {
		return
	}
	h.step(fmt.Sprintf("HShutdown %s %s %d", netx.B(rd), netx.B(wr), ec(err)))
}

func (h *hist) close() {
	h.guard(func() { h.w.ep.Close() })
	if h.panicked {
		return
	}
	h.step("HClose")
}

// write: to == nil uses the connected peer.
func (h *hist) write(to []byte, port uint16, n int, more bool) {
	id := h.newID()
	payload := patBytes(id, n)
	la := h.laddr()
	var opts tcpip.WriteOptions
	opts.More = more
	toS := "NoDest"
	routable := true
	rsrc := la
	if to != nil {
		opts.To = &tcpip.FullAddress{Addr: tcpip.Address(to), Port: port}
		toS = fmt.Sprintf("(Dest %s %d)", netx.ZList(to), port)
		eff := to
		effFam := h.fam
		if isMapped(to) {
			eff = to[12:]
			effFam = 4
			if h.v6only {
				routable = false
			}
		}
		if (effFam == 4 && len(eff) != 4) || (effFam == 6 && len(eff) != 16) {
			routable = false
		}
		if len(la) != 0 && len(la) != len(eff) {
			routable = false
		}
		// both default routes leave through NIC 1: a socket bound to an address of NIC 2 has no route
		if len(la) != 0 && string(la) != string(nic4[1]) && string(la) != string(nic6[1]) {
			routable = false
		}
		if len(la) == 0 {
			if effFam == 4 {
				rsrc = nic4[1]
			} else {
				rsrc = nic6[1]
			}
		}
	}
	var cnt uintptr
	var err *tcpip.Error
	h.guard(func() { cnt, _, err = h.w.ep.Write(tcpip.SlicePayload(payload), opts) })
	if h.panicked {
		return
	}
	var fs []string
	for nic := 1; nic <= 2; nic++ {
		for _, f := range h.w.l[nic].take() {
			hl := 20
			if f.proto == netx.ProtoIPv6 {
				hl = 40
			}
			hl += 8
			if len(f.b) >= hl && n >= 4 && len(f.b)-hl <= n && isPat(f.b[hl:], id) && len(f.b) > hl {
				fs = append(fs, fmt.Sprintf("Frame %d (%s ++ P %d %d)", f.proto, netx.ZList(f.b[:hl]), id, len(f.b)-hl))
			} else {
				fs = append(fs, fmt.Sprintf("Frame %d %s", f.proto, netx.ZList(f.b)))
			}
		}
	}
	h.stats.writes++
	if err == nil {
		h.stats.writesOK++
	}
	if n > 9000 {
		h.stats.big++
	}
	h.step(fmt.Sprintf("HWrite %s %s %s %s %s %d %d [%s] %d", netx.B(more), toS, netx.B(routable), netx.ZList(rsrc),
		zp(payload, []int{id}), cnt, ec(err), strings.Join(fs, "; "), h.lport()))
}

// icmp injects an ICMPv4 destination-unreachable quoting a datagram from us (lport) to peer:pport.
func (h *hist) icmp(code byte, peer []byte, pport uint16) {
	lp := h.lport()
	our := nic4[1]
	inner := make([]byte, 28)
	inner[0] = 0x45
	binary.BigEndian.PutUint16(inner[2:], 28+4)
	inner[8] = 64
	inner[9] = 17
	copy(inner[12:16], our)
	copy(inner[16:20], peer)
	binary.BigEndian.PutUint16(inner[10:], ^netx.Sum16(inner[:20], 0))
	binary.BigEndian.PutUint16(inner[20:], uint16(lp))
	binary.BigEndian.PutUint16(inner[22:], pport)
	binary.BigEndian.PutUint16(inner[24:], 12)
	ic := make([]byte, 8+len(inner))
	ic[0] = 3
	ic[1] = code
	binary.BigEndian.PutUint16(ic[6:], 1400)
	copy(ic[8:], inner)
	binary.BigEndian.PutUint16(ic[2:], ^netx.Sum16(ic, 0))
	pkt := netx.IPv4Packet(peer, our, 1, 7, 0, 64, ic)
	h.guard(func() { h.w.l[1].inject(netx.ProtoIPv4, pkt, nil) })
	if h.panicked {
		return
	}
	typ := 1
	if code == 4 {
		typ = 0
	}
	h.step(fmt.Sprintf("HIcmp %d 1 4 %s %s %d %d", typ, netx.ZList(peer), netx.ZList(our), pport, lp))
}

var sizes = []int{0, 1, 7, 8, 9, 1472, 1473}
var maxes = []int{0, 1, 8, 100, 1472, 1473, 3000, 9000, 32768, 32768}

func (h *hist) pickSize(large bool) int {
	switch k := h.r.Intn(10); {
	case k < 5:
		return sizes[h.r.Intn(len(sizes))]
	case k < 8:
		return h.r.Intn(300)
	case k < 9 || !large:
		return h.r.Intn(3001)
	default:
		return h.r.Intn(9001)
	}
}

func (h *hist) senders() ([][]byte, int) {
	if h.fam == 4 {
		return snd4, 4
	}
	return snd6, 6
}

func (h *hist) emit(w *bufio.Writer) {
	v := 0
	if h.v6only {
		v = 1
	}
	fmt.Fprintf(w, "CHist [%d; %d; %d] [%s]\n", h.max, h.fam, v, strings.Join(h.out, "; "))
	h.stats.cases++
}

func newHist(r *gen.Rng, st *stats, fam int, v6only bool, max int) *hist {
	h := &hist{w: newWorld(), r: r, fam: fam, v6only: v6only, max: max, stats: st}
	np := ipv4.ProtocolNumber
	if fam == 6 {
		np = ipv6.ProtocolNumber
	}
	ep, err := h.w.s.NewEndpoint(udp.ProtocolNumber, np, &h.w.wq)
	if err != nil {
		panic(err.String())
	}
	h.w.ep = ep
	if fam == 6 && v6only {
		if err := ep.SetSockOpt(tcpip.V6OnlyOption(1)); err != nil {
			panic(err.String())
		}
	}
	udp.VerifSetRcvBufSizeMax(ep, max)
	return h
}

// receive-side history
func genRecv(r *gen.Rng, st *stats, w *bufio.Writer, large bool) {
	fam := 4
	v6only := false
	if r.Intn(5) < 2 {
		fam = 6
		v6only = r.Intn(3) == 0
	}
	h := newHist(r, st, fam, v6only, maxes[r.Intn(len(maxes))])
	snd, _ := h.senders()
	port := uint16(53 + r.Intn(3)*1000)
	connected := false
	// setup
	switch k := r.Intn(12); {
	case k < 5:
		h.bind(nil, port)
	case k < 7:
		if fam == 4 {
			h.bind(nic4[1+r.Intn(2)], port)
		} else {
			h.bind(nic6[1+r.Intn(2)], port)
		}
	case k < 9:
		h.bind(nil, port)
		h.connect(snd[0], sndP[0])
		connected = true
	case k < 10:
		h.connect(snd[0], sndP[0])
		connected = true
		port = uint16(h.lport())
	case k < 11:
		if fam == 6 {
			h.bind(mapped(nic4[1]), port)
		} else {
			h.bind(nil, 0)
			port = uint16(h.lport())
		}
	default:
		// unbound: a write binds it implicitly, arrivals before that find nobody
		if r.Bool() {
			h.write(snd[0], sndP[0], 3, false)
			port = uint16(h.lport())
		}
	}
	nops := 4 + r.Intn(22)
	nsend := 1 + r.Intn(3)
	for i := 0; i < nops && !h.panicked; i++ {
		switch k := r.Intn(100); {
		case k < 58:
			// arrival
			afam := fam
			if fam == 6 && !v6only && r.Intn(4) == 0 {
				afam = 4 // IPv4 datagram to a dual-stack socket
			}
			sl := snd
			if afam == 4 {
				sl = snd4
			} else {
				sl = snd6
			}
			si := r.Intn(nsend)
			if connected && r.Intn(3) != 0 {
				si = 0
			}
			dp := port
			if r.Intn(12) == 0 {
				dp = port + 1
			}
			nic := 1
			if r.Intn(4) == 0 {
				nic = 2
			}
			lm := 0
			switch q := r.Intn(20); {
			case q < 2:
				lm = 1
			case q < 3:
				lm = 2
			case q < 4:
				lm = 3
			}
			tr := 0
			if r.Intn(8) == 0 {
				tr = 1 + r.Intn(12)
			}
			cm := r.Intn(8)
			if cm == 7 {
				cm = 6
			}
			if cm == 3 && r.Intn(3) != 0 {
				cm = 4
			}
			h.arrive(nic, afam, sl[si], sndP[si], dp, h.pickSize(large), lm, tr, cm)
		case k < 84:
			h.read()
		case k < 88:
			h.shutdown(r.Intn(4) != 0, r.Intn(3) == 0)
		case k < 93:
			if connected && r.Bool() {
				h.write(nil, 0, h.pickSize(false), false)
			} else {
				h.write(snd[r.Intn(2)], sndP[r.Intn(2)], h.pickSize(false), r.Intn(15) == 0)
			}
			if port == 0 || h.lport() != int(port) {
				port = uint16(h.lport())
			}
		case k < 95:
			if fam == 4 || !v6only {
				code := byte(3)
				if r.Bool() {
					code = 4
				}
				h.icmp(code, snd4[0], sndP[0])
			}
		case k < 96:
			h.close()
		case k < 98:
			h.connect(snd[r.Intn(2)], sndP[r.Intn(2)])
			if h.lport() != 0 {
				port = uint16(h.lport())
			}
		default:
			h.bind(nil, port)
		}
	}
	// drain
	for i := 0; i < 3+r.Intn(4) && !h.panicked; i++ {
		h.read()
	}
	h.emit(w)
}

var wsizes = []int{0, 1, 8, 1472, 1473, 65506, 65507, 65508, 65527, 65528, 65535, 65536}

// send-side history: boundary sizes to IPv4 / IPv6 / v4-mapped destinations
func genSend(r *gen.Rng, st *stats, w *bufio.Writer, size int, variant int) {
	fam := 4
	if variant%3 != 0 {
		fam = 6
	}
	h := newHist(r, st, fam, false, 32768)
	var dst []byte
	switch variant % 3 {
	case 0:
		dst = snd4[0]
	case 1:
		dst = snd6[0]
	default:
		dst = mapped(snd4[1])
	}
	switch variant / 3 % 3 {
	case 0: // connected
		h.connect(dst, sndP[0])
		h.write(nil, 0, size, false)
	case 1: // bound, explicit destination
		h.bind(nil, 7000)
		h.write(dst, sndP[1], size, false)
	default: // unbound, explicit destination
		h.write(dst, sndP[2], size, false)
	}
	if r.Intn(3) == 0 {
		h.write(dst, 9, r.Intn(40), false)
	}
	if r.Intn(3) == 0 {
		h.shutdown(false, true)
		h.write(dst, 9, r.Intn(40), false)
	}
	h.emit(w)
}

// genCorpus prints the fixed boundary histories kept in corpus/C11/boundary.case: the witnesses of the
// two repaired defects, the empty datagram, the buffer overshoot.
func genCorpus(r *gen.Rng, st *stats, w *bufio.Writer) {
	// F5: UDP length 12 inside an 18-byte IP payload (the old code delivered 10 bytes), then Length 3
	h := newHist(r, st, 4, false, 32768)
	h.bind(nil, 53)
	h.arrive(1, 4, snd4[0], 4000, 53, 10, 112, 0, 0)
	h.read()
	h.arrive(1, 4, snd4[0], 4000, 53, 4, 103, 0, 0)
	h.read()
	h.emit(w)
	// F6: 65530 bytes over IPv4 (the old code emitted IP total length 22, UDP length 2)
	h = newHist(r, st, 4, false, 32768)
	h.connect(snd4[0], 4000)
	h.write(nil, 0, 65530, false)
	h.write(nil, 0, 65507, false)
	h.emit(w)
	// empty datagrams between two others, from two senders; reads tell them apart from "no data"
	h = newHist(r, st, 6, false, 32768)
	h.bind(nil, 53)
	h.read()
	h.arrive(1, 6, snd6[0], 4000, 53, 5, 0, 0, 0)
	h.arrive(1, 6, snd6[1], 4001, 53, 0, 0, 0, 0)
	h.arrive(2, 6, snd6[0], 4000, 53, 0, 0, 0, 2)
	h.arrive(1, 4, snd4[0], 4000, 53, 1, 0, 0, 0)
	for i := 0; i < 5; i++ {
		h.read()
	}
	h.emit(w)
	// capacity 1: a 4-byte datagram is accepted (the test is "already full?"), the next is dropped whole
	h = newHist(r, st, 4, false, 1)
	h.bind(nic4[1], 53)
	h.arrive(1, 4, snd4[0], 4000, 53, 4, 0, 0, 0)
	h.arrive(1, 4, snd4[1], 4001, 53, 9, 0, 0, 0)
	h.read()
	h.arrive(1, 4, snd4[1], 4001, 53, 9, 0, 0, 0)
	h.shutdown(true, false)
	h.arrive(1, 4, snd4[1], 4001, 53, 2, 0, 0, 0)
	h.read()
	h.read()
	h.emit(w)
}

func main() {
	log.SetOutput(io.Discard)
	seed := flag.Uint64("seed", 1, "seed")
	n := flag.Int("n", 300, "number of receive-side histories")
	nbig := flag.Int("big", 12, "number of send-side boundary histories with sizes above 9000 (others always run)")
	nconc := flag.Int("conc", 8, "number of concurrent reader/delivery histories")
	corpus := flag.Bool("corpus", false, "print only the fixed boundary histories")
	flag.Parse()
	w := bufio.NewWriterSize(os.Stdout, 1<<20)
	defer w.Flush()
	r := gen.New(*seed)
	st := &stats{}
	if *corpus {
		genCorpus(r, st, w)
		return
	}
	// the send-side lattice: every boundary size x {IPv4, IPv6, v4-mapped} x {connected, bound, unbound};
	// large sizes are expensive to judge, take a seeded sample of them and spread them over the run
	type sc struct{ size, variant int }
	var small, big []sc
	for _, s := range wsizes {
		for v := 0; v < 9; v++ {
			if s > 9000 {
				big = append(big, sc{s, v})
			} else {
				small = append(small, sc{s, v})
			}
		}
	}
	for i := len(big) - 1; i > 0; i-- {
		j := r.Intn(i + 1)
		big[i], big[j] = big[j], big[i]
	}
	if *nbig < len(big) {
		big = big[:*nbig]
	}
	every := 1
	if len(big) > 0 {
		every = *n/len(big) + 1
	}
	for _, c := range small {
		genSend(r, st, w, c.size, c.variant)
	}
	for i := 0; i < *n; i++ {
		genRecv(r, st, w, i%5 == 0)
		if i%every == 0 && i/every < len(big) {
			c := big[i/every]
			genSend(r, st, w, c.size, c.variant)
		}
	}
	for i := 0; i < *nconc; i++ {
		genConc(r, st, w)
	}
	fmt.Fprintf(w, "# concurrent histories %d\n", st.conc)
	fmt.Fprintf(w, "# cases %d; arrivals %d (length field smaller %d, larger %d, below 8 %d, trailing bytes %d, in 9+ views %d); reads %d (with data %d); writes %d (ok %d, above 9000 bytes %d)\n",
		st.cases, st.arrivals, st.lenSmall, st.lenBig, st.lenTiny, st.trailing, st.manyViews, st.reads, st.readsData, st.writes, st.writesOK, st.big)
}
