// h_c15: calls the exported protocol/header API (checksum, TCP option encoders and parsers, fixed
// header Encode/accessors/checksum helpers) on generated inputs and prints one Coq term of type
// NP.Corr.C15.case per line (inputs + what the implementation returned; panics are caught and
// reported in the case).  Every random choice derives from gen.New(seed).
package main

import (
	"bufio"
	"encoding/binary"
	"flag"
	"fmt"
	"io"
	"log"
	"os"
	"strings"

	"aaverif/internal/gen"

	"github.com/brewlin/net-protocol/pkg/seqnum"
	tcpip "github.com/brewlin/net-protocol/protocol"
	"github.com/brewlin/net-protocol/protocol/header"
)

var w *bufio.Writer
var r *gen.Rng
var counts = map[string]int{}

func emit(kind string, format string, a ...interface{}) {
	counts[kind]++
	fmt.Fprintf(w, format+"\n", a...)
}

func zi(x int64) string {
	if x < 0 {
		return fmt.Sprintf("(%d)", x)
	}
	return fmt.Sprintf("%d", x)
}
func zl(b []byte) string {
	var sb strings.Builder
	sb.WriteByte('[')
	for i, x := range b {
		if i > 0 {
			sb.WriteByte(';')
		}
		fmt.Fprintf(&sb, "%d", x)
	}
	sb.WriteByte(']')
	return sb.String()
}
func il(b []int64) string {
	var sb strings.Builder
	sb.WriteByte('[')
	for i, x := range b {
		if i > 0 {
			sb.WriteByte(';')
		}
		sb.WriteString(zi(x))
	}
	sb.WriteByte(']')
	return sb.String()
}
func ll(b [][]int64) string {
	var sb strings.Builder
	sb.WriteByte('[')
	for i, x := range b {
		if i > 0 {
			sb.WriteByte(';')
		}
		sb.WriteString(il(x))
	}
	sb.WriteByte(']')
	return sb.String()
}
func bs(x bool) string {
	if x {
		return "true"
	}
	return "false"
}
func b2i(x bool) int64 {
	if x {
		return 1
	}
	return 0
}
func i64s(b []byte) []int64 {
	o := make([]int64, len(b))
	for i, x := range b {
		o[i] = int64(x)
	}
	return o
}

// exact returns a copy of b with cap == len, so that slice expressions panic where the model says.
func exact(b []byte) []byte {
	c := make([]byte, len(b))
	copy(c, b)
	return c[:len(c):len(c)]
}

func try(f func()) (panicked bool) {
	defer func() {
		if e := recover(); e != nil {
			panicked = true
		}
	}()
	f()
	return false
}

// acc runs one accessor; [-1] when it panicked.
func acc(f func() []int64) []int64 {
	var o []int64
	if try(func() { o = f() }) {
		return []int64{-1}
	}
	if o == nil {
		o = []int64{}
	}
	return o
}
func one(x int64) []int64 { return []int64{x} }

var b16 = []uint32{0, 1, 2, 0xff, 0x100, 0x101, 0x7fff, 0x8000, 0xfffe, 0xffff, 0x1234, 0xff00}
var b32 = []uint32{0, 1, 0xff, 0x100, 0xffff, 0x10000, 0x7fffffff, 0x80000000, 0xfffffffe, 0xffffffff, 0x01020304}
var b8 = []uint32{0, 1, 2, 0x0f, 0x10, 0x7f, 0x80, 0xfe, 0xff}

func p16() uint16 { return uint16(r.Pick32(b16)) }
func p32() uint32 { return r.Pick32(b32) }
func p8() uint8   { return uint8(r.Pick32(b8)) }

// content kinds for buffers
func content(kind, n int) []byte {
	b := make([]byte, n)
	switch kind {
	case 0:
	case 1:
		for i := range b {
			b[i] = 0xff
		}
	default:
		b = r.Bytes(n)
	}
	return b
}

// ---------------------------------------------------------------- checksum
var inits = []uint16{0, 1, 0xff, 0x100, 0x7fff, 0x8000, 0xfffe, 0xffff}

func genChecksum(tier string) {
	ck := func(b []byte, init uint16) {
		emit("checksum", "CChecksum %s %d %d", zl(b), init, header.Checksum(b, init))
	}
	maxLen := 600
	for l := 0; l <= maxLen; l++ {
		for k := 0; k < 3; k++ {
			init := uint16(r.U32())
			if j := (l*3 + k) % (len(inits) + 1); j < len(inits) {
				init = inits[j]
			}
			ck(content(k, l), init)
		}
	}
	// short buffers x every boundary initial value
	for l := 0; l <= 33; l++ {
		for k := 0; k < 3; k++ {
			b := content(k, l)
			for _, init := range inits {
				ck(b, init)
			}
		}
	}
	if tier == "thorough" {
		for l := 601; l <= 1600; l += 1 {
			ck(content(2, l), uint16(r.U32()))
		}
		for _, l := range []int{4095, 4096, 4097, 16383, 16384, 16385, 65534, 65535, 65536} {
			for k := 0; k < 3; k++ {
				ck(content(k, l), inits[(l+k)%len(inits)])
			}
		}
		// all 2^16 initial values on short buffers (sampled stride to keep it bounded)
		for init := 0; init < 65536; init += 7 {
			ck(content(2, init%9), uint16(init))
		}
	}
	// ChecksumCombine: boundary lattice + random
	for _, a := range b16 {
		for _, b := range b16 {
			emit("combine", "CCombine %d %d %d", a, b, header.ChecksumCombine(uint16(a), uint16(b)))
		}
	}
	n := 300
	if tier == "thorough" {
		n = 20000
	}
	for i := 0; i < n; i++ {
		a, b := p16(), p16()
		emit("combine", "CCombine %d %d %d", a, b, header.ChecksumCombine(a, b))
	}
	// chunked summation, the way callers walk a VectorisedView
	for i := 0; i < 250; i++ {
		nc := 1 + r.Intn(5)
		var sb strings.Builder
		sb.WriteByte('[')
		init := p16()
		x := init
		for j := 0; j < nc; j++ {
			l := r.Intn(21)
			if i%2 == 0 && j < nc-1 {
				l &^= 1
			}
			c := r.Bytes(l)
			x = header.Checksum(c, x)
			if j > 0 {
				sb.WriteByte(';')
			}
			sb.WriteString(zl(c))
		}
		sb.WriteByte(']')
		emit("chunks", "CChunks %s %d %d", sb.String(), init, x)
	}
	// PseudoHeaderChecksum
	for i := 0; i < 120; i++ {
		ls, ld := 4, 4
		switch i % 4 {
		case 1:
			ls, ld = 16, 16
		case 2:
			ls, ld = r.Intn(18), r.Intn(18)
		}
		s, d := r.Bytes(ls), r.Bytes(ld)
		proto := uint32(p8())
		if i%3 == 0 {
			proto = []uint32{6, 17, 1, 58}[r.Intn(4)]
		}
		x := header.PseudoHeaderChecksum(tcpip.TransportProtocolNumber(proto), tcpip.Address(s), tcpip.Address(d))
		emit("pseudo", "CPseudo %d %s %s %d", proto, zl(s), zl(d), x)
	}
	// a packet carrying the complemented sum verifies
	for i := 0; i < 250; i++ {
		l := 2 + r.Intn(99)
		pkt := content(i%3, l)
		off := 2 * r.Intn(l/2)
		init := p16()
		b := exact(pkt)
		b[off], b[off+1] = 0, 0
		c := header.Checksum(b, init)
		binary.BigEndian.PutUint16(b[off:], ^c)
		r2 := header.Checksum(b, init)
		emit("verify", "CVerify %s %d %d %d %d", zl(pkt), off, init, c, r2)
	}
}

// ---------------------------------------------------------------- TCP options
func synList(o header.TCPSynOptions) []int64 {
	return []int64{int64(o.MSS), int64(o.WS), b2i(o.TS), int64(o.TSVal), int64(o.TSEcr), b2i(o.SACKPermitted)}
}
func optList(o header.TCPOptions) []int64 {
	l := []int64{b2i(o.TS), int64(o.TSVal), int64(o.TSEcr), int64(len(o.SACKBlocks))}
	for _, b := range o.SACKBlocks {
		l = append(l, int64(b.Start), int64(b.End))
	}
	return l
}
func parseSyn(opts []byte, isAck bool) (bool, []int64) {
	var o header.TCPSynOptions
	if try(func() { o = header.ParseSynOptions(exact(opts), isAck) }) {
		return true, []int64{}
	}
	return false, synList(o)
}
func parseOpt(opts []byte) (bool, []int64) {
	var o header.TCPOptions
	if try(func() { o = header.ParseTCPOptions(exact(opts)) }) {
		return true, []int64{}
	}
	return false, optList(o)
}

// an item: [0] NOP, [1 mss], [2 ws], [3 v e], [4] SACKPermitted, [5 s1 e1 ...] SACK blocks
func randItem(valid bool) []int64 {
	switch r.Intn(6) {
	case 0:
		return []int64{0}
	case 1:
		m := int64(p16())
		if valid && m == 0 {
			m = 1460
		}
		return []int64{1, m}
	case 2:
		ws := int64(r.Intn(15))
		if !valid && r.Intn(2) == 0 {
			ws = int64(p8())
		}
		return []int64{2, ws}
	case 3:
		return []int64{3, int64(p32()), int64(p32())}
	case 4:
		return []int64{4}
	default:
		n := 1 + r.Intn(4)
		if !valid {
			n = r.Intn(7)
		}
		it := []int64{5}
		for i := 0; i < n; i++ {
			it = append(it, int64(p32()), int64(p32()))
		}
		return it
	}
}

// encodeItem calls the real encoder for one item on b and returns the int it returned.
func encodeItem(it []int64, b []byte) int {
	switch it[0] {
	case 0:
		return header.EncodeNOP(b)
	case 1:
		return header.EncodeMSSOption(uint32(it[1]), b)
	case 2:
		return header.EncodeWSOption(int(it[1]), b)
	case 3:
		return header.EncodeTSOption(uint32(it[1]), uint32(it[2]), b)
	case 4:
		return header.EncodeSACKPermittedOption(b)
	default:
		var bl []header.SACKBlock
		for i := 1; i+1 < len(it); i += 2 {
			bl = append(bl, header.SACKBlock{Start: seqnum.Value(it[i]), End: seqnum.Value(it[i+1])})
		}
		return header.EncodeSACKBlocks(bl, b)
	}
}

func itemsStr(items [][]int64) string { return ll(items) }

// wireOf encodes a valid item sequence with the real encoders into a fresh buffer.
func wireOf(items [][]int64) []byte {
	buf := make([]byte, 256)
	off := 0
	for _, it := range items {
		off += encodeItem(it, buf[off:])
	}
	return buf[:off]
}

func genOptions(tier string) {
	n := 1
	if tier == "thorough" {
		n = 12
	}
	// (1) item sequences through the encoders, then both parsers
	for i := 0; i < 700*n; i++ {
		valid := i%4 != 3
		k := r.Intn(7)
		items := make([][]int64, k)
		for j := range items {
			items[j] = randItem(valid)
		}
		size := 40
		switch i % 5 {
		case 1:
			size = r.Intn(41)
		case 2:
			size = 60
		}
		buf := r.Bytes(size)
		out := exact(buf)
		off := 0
		for _, it := range items {
			off += encodeItem(it, out[off:])
		}
		isAck := r.Bool()
		_, sr := parseSyn(out[:off], isAck)
		_, or := parseOpt(out[:off])
		emit("items", "CItems %s %s %s %d %s %s %s", itemsStr(items), zl(buf), zl(out), off, bs(isAck), il(sr), il(or))
	}
	// (2) parsers on valid / truncated / mutated / random option bytes
	for i := 0; i < 1800*n; i++ {
		var opts []byte
		switch i % 6 {
		case 0, 1: // valid wire
			k := 1 + r.Intn(6)
			items := make([][]int64, k)
			for j := range items {
				items[j] = randItem(true)
			}
			opts = wireOf(items)
		case 2: // truncated
			k := 1 + r.Intn(5)
			items := make([][]int64, k)
			for j := range items {
				items[j] = randItem(true)
			}
			opts = wireOf(items)
			opts = opts[:r.Intn(len(opts)+1)]
		case 3: // mutated: one or two bytes changed (often a length byte)
			k := 1 + r.Intn(5)
			items := make([][]int64, k)
			for j := range items {
				items[j] = randItem(true)
			}
			opts = exact(wireOf(items))
			for m := 0; m <= r.Intn(2); m++ {
				if len(opts) > 0 {
					opts[r.Intn(len(opts))] = []byte{0, 1, 2, 3, 4, 5, 8, 10, 18, 26, 34, 255, byte(r.U32())}[r.Intn(13)]
				}
			}
		case 4: // noise biased to option kinds and small lengths
			l := r.Intn(41)
			opts = make([]byte, l)
			for j := range opts {
				opts[j] = []byte{0, 1, 1, 2, 3, 4, 5, 8, 2, 3, 4, 10, 18, 26, 34, 6, 12, byte(r.U32()), byte(r.U32())}[r.Intn(19)]
			}
		default: // pure noise
			opts = r.Bytes(r.Intn(61))
		}
		isAck := r.Bool()
		p, sr := parseSyn(opts, isAck)
		emit("syn", "CSyn %s %s %s %s", zl(opts), bs(isAck), bs(p), il(sr))
		p, or := parseOpt(opts)
		emit("opt", "COpt %s %s %s", zl(opts), bs(p), il(or))
	}
	// every kind byte with nothing / too little behind it, and every length byte after every known kind
	both := func(opts []byte) {
		p, sr := parseSyn(opts, true)
		emit("syn", "CSyn %s true %s %s", zl(opts), bs(p), il(sr))
		p, or := parseOpt(opts)
		emit("opt", "COpt %s %s %s", zl(opts), bs(p), il(or))
	}
	zeros := make([]byte, 40)
	for k := 0; k < 256; k++ {
		both([]byte{byte(k)})
		both([]byte{1, byte(k)})
		both([]byte{byte(k), 2})
		both([]byte{byte(k), 3, 7})
		for _, kind := range []byte{2, 3, 4, 5, 8, 9} {
			// length byte k, with exactly k-2, k-3 and 38 bytes behind it
			for _, body := range []int{k - 2, k - 3, 38} {
				if body < 0 || body > 38 {
					continue
				}
				both(append([]byte{kind, byte(k)}, zeros[:body]...))
			}
		}
	}
	// (3) makeSynOptions replayed with the real encoders
	for i := 0; i < 320*n; i++ {
		mss := int64(p16())
		if mss == 0 {
			mss = 536
		}
		ws := int64(r.Intn(16)) - 1
		ts, sp := (i/2)%2 == 0, i%2 == 0
		tsv, tse := p32(), p32()
		buf := r.Bytes(40)
		options := exact(buf)
		offset := header.EncodeMSSOption(uint32(mss), options)
		if ts && sp {
			offset += header.EncodeSACKPermittedOption(options[offset:])
			offset += header.EncodeTSOption(tsv, tse, options[offset:])
		} else if ts {
			offset += header.EncodeNOP(options[offset:])
			offset += header.EncodeNOP(options[offset:])
			offset += header.EncodeTSOption(tsv, tse, options[offset:])
		} else if sp {
			offset += header.EncodeNOP(options[offset:])
			offset += header.EncodeNOP(options[offset:])
			offset += header.EncodeSACKPermittedOption(options[offset:])
		}
		if ws >= 0 {
			offset += header.EncodeNOP(options[offset:])
			offset += header.EncodeWSOption(int(ws), options[offset:])
		}
		pad := header.AddTCPOptionPadding(options, offset)
		isAck := r.Bool()
		_, sr := parseSyn(options[:offset], isAck)
		o := []int64{mss, ws, b2i(ts), int64(tsv), int64(tse), b2i(sp)}
		emit("synmake", "CSynMake %s %s %s %d %s %s", il(o), zl(buf), zl(options[:offset]), pad, bs(isAck), il(sr))
	}
	// (4) makeOptions replayed
	for i := 0; i < 320*n; i++ {
		tsOk, sp := (i/2)%2 == 0, i%2 == 0
		tsv, tse := p32(), p32()
		nb := r.Intn(7)
		var bl []header.SACKBlock
		var flat []int64
		for j := 0; j < nb; j++ {
			s, e := p32(), p32()
			bl = append(bl, header.SACKBlock{Start: seqnum.Value(s), End: seqnum.Value(e)})
			flat = append(flat, int64(s), int64(e))
		}
		buf := r.Bytes(40)
		options := exact(buf)
		offset := 0
		if tsOk {
			offset += header.EncodeNOP(options[offset:])
			offset += header.EncodeNOP(options[offset:])
			offset += header.EncodeTSOption(tsv, tse, options[offset:])
		}
		if sp && len(bl) > 0 {
			offset += header.EncodeNOP(options[offset:])
			offset += header.EncodeNOP(options[offset:])
			offset += header.EncodeSACKBlocks(bl, options[offset:])
		}
		pad := header.AddTCPOptionPadding(options, offset)
		_, or := parseOpt(options[:offset])
		emit("optmake", "COptMake %s %d %d %s %s %s %s %d %s", bs(tsOk), tsv, tse, bs(sp), il(flat), zl(buf), zl(options[:offset]), pad, il(or))
	}
	// (5) AddTCPOptionPadding on every offset of a 40- and a 43-byte buffer
	for _, size := range []int{40, 43, 3} {
		for off := 0; off <= size; off++ {
			buf := r.Bytes(size)
			out := exact(buf)
			p := 0
			pan := try(func() { p = header.AddTCPOptionPadding(out, off) })
			if pan {
				out, p = []byte{}, 0
			}
			emit("pad", "CPad %s %d %s %s %d", zl(buf), off, bs(pan), zl(out), p)
		}
	}
}

// ---------------------------------------------------------------- fixed headers
var hdrSize = map[int]int{1: 20, 2: 40, 3: 8, 4: 20, 5: 8, 6: 4, 7: 4, 8: 14, 9: 28}

func addr(n int, wf bool) []byte {
	if !wf && r.Intn(3) == 0 {
		return r.Bytes(r.Intn(2*n + 2))
	}
	if r.Intn(4) == 0 {
		return content(r.Intn(2), n)
	}
	return r.Bytes(n)
}

// genFields returns a field list for header kind; wf=false makes some field leave the domain on
// which Encode is injective (or an address of the wrong length).
func genFields(kind int, wf bool) [][]int64 {
	s := func(x uint32) []int64 { return one(int64(x)) }
	switch kind {
	case 1:
		ihl := uint32(4 * r.Intn(16))
		fo := uint32(p16()) &^ 7
		fl := uint32(r.Intn(8))
		if !wf {
			switch r.Intn(4) {
			case 0:
				ihl = uint32(p8())
			case 1:
				fo = uint32(p16())
			case 2:
				fl = uint32(p8())
			}
		}
		return [][]int64{s(ihl), s(uint32(p8())), s(uint32(p16())), s(uint32(p16())), s(fl), s(fo), s(uint32(p8())),
			s(uint32(p8())), s(uint32(p16())), i64s(addr(4, wf)), i64s(addr(4, wf))}
	case 2:
		flow := p32() & 0xfffff
		if !wf && r.Intn(2) == 0 {
			flow = p32()
		}
		return [][]int64{s(uint32(p8())), s(flow), s(uint32(p16())), s(uint32(p8())), s(uint32(p8())), i64s(addr(16, wf)), i64s(addr(16, wf))}
	case 3:
		fo := uint32(p16()) & 0x1fff
		if !wf {
			fo = uint32(p16()) | 0x2000
		}
		return [][]int64{s(uint32(p8())), s(fo), one(b2i(r.Bool())), s(p32())}
	case 4:
		do := uint32(4 * r.Intn(16))
		if !wf {
			do = uint32(p8())
		}
		return [][]int64{s(uint32(p16())), s(uint32(p16())), s(p32()), s(p32()), s(do), s(uint32(p8())), s(uint32(p16())), s(uint32(p16())), s(uint32(p16()))}
	case 5:
		return [][]int64{s(uint32(p16())), s(uint32(p16())), s(uint32(p16())), s(uint32(p16()))}
	case 6, 7:
		return [][]int64{s(uint32(p8())), s(uint32(p8())), s(uint32(p16()))}
	case 8:
		ty := uint32(p16())
		if !wf {
			ty = p32()
		}
		return [][]int64{i64s(addr(6, wf)), i64s(addr(6, wf)), s(ty)}
	default:
		return [][]int64{s(uint32(p16())), i64s(addr(6, wf)), i64s(addr(4, wf)), i64s(addr(6, wf)), i64s(addr(4, wf))}
	}
}

func by(l []int64) []byte {
	o := make([]byte, len(l))
	for i, x := range l {
		o[i] = byte(x)
	}
	return o
}

// encode runs the library's Encode (or setter sequence) for header kind on b.
func encode(kind int, b []byte, f [][]int64) {
	switch kind {
	case 1:
		header.IPv4(b).Encode(&header.IPv4Fields{IHL: uint8(f[0][0]), TOS: uint8(f[1][0]), TotalLength: uint16(f[2][0]),
			ID: uint16(f[3][0]), Flags: uint8(f[4][0]), FragmentOffset: uint16(f[5][0]), TTL: uint8(f[6][0]),
			Protocol: uint8(f[7][0]), Checksum: uint16(f[8][0]), SrcAddr: tcpip.Address(by(f[9])), DstAddr: tcpip.Address(by(f[10]))})
	case 2:
		header.IPv6(b).Encode(&header.IPv6Fields{TrafficClass: uint8(f[0][0]), FlowLabel: uint32(f[1][0]), PayloadLength: uint16(f[2][0]),
			NextHeader: uint8(f[3][0]), HopLimit: uint8(f[4][0]), SrcAddr: tcpip.Address(by(f[5])), DstAddr: tcpip.Address(by(f[6]))})
	case 3:
		header.IPv6Fragment(b).Encode(&header.IPv6FragmentFields{NextHeader: uint8(f[0][0]), FragmentOffset: uint16(f[1][0]),
			M: f[2][0] != 0, Identification: uint32(f[3][0])})
	case 4:
		header.TCP(b).Encode(&header.TCPFields{SrcPort: uint16(f[0][0]), DstPort: uint16(f[1][0]), SeqNum: uint32(f[2][0]),
			AckNum: uint32(f[3][0]), DataOffset: uint8(f[4][0]), Flags: uint8(f[5][0]), WindowSize: uint16(f[6][0]),
			Checksum: uint16(f[7][0]), UrgentPointer: uint16(f[8][0])})
	case 5:
		header.UDP(b).Encode(&header.UDPFields{SrcPort: uint16(f[0][0]), DstPort: uint16(f[1][0]), Length: uint16(f[2][0]), Checksum: uint16(f[3][0])})
	case 6:
		h := header.ICMPv4(b)
		h.SetType(header.ICMPv4Type(f[0][0]))
		h.SetCode(byte(f[1][0]))
		h.SetChecksum(uint16(f[2][0]))
	case 7:
		h := header.ICMPv6(b)
		h.SetType(header.ICMPv6Type(f[0][0]))
		h.SetCode(byte(f[1][0]))
		h.SetChecksum(uint16(f[2][0]))
	case 8:
		header.Ethernet(b).Encode(&header.EthernetFields{SrcAddr: tcpip.LinkAddress(by(f[0])), DstAddr: tcpip.LinkAddress(by(f[1])),
			Type: tcpip.NetworkProtocolNumber(uint32(f[2][0]))})
	default:
		h := header.ARP(b)
		h.SetIpv4OverEthernet()
		h.SetOp(header.ARPOp(f[0][0]))
		copy(h.HardwareAddressSender(), by(f[1]))
		copy(h.ProtocolAddressSender(), by(f[2]))
		copy(h.HardwareAddressTarget(), by(f[3]))
		copy(h.ProtocolAddressTarget(), by(f[4]))
	}
}

// accessors runs every accessor of header kind on b.
func accessors(kind int, b []byte) [][]int64 {
	switch kind {
	case 1:
		h := header.IPv4(b)
		return [][]int64{
			acc(func() []int64 { return one(int64(h.HeaderLength())) }),
			acc(func() []int64 { return one(int64(h.ID())) }),
			acc(func() []int64 { return one(int64(h.Protocol())) }),
			acc(func() []int64 { return one(int64(h.Flags())) }),
			acc(func() []int64 { return one(int64(h.TTL())) }),
			acc(func() []int64 { return one(int64(h.FragmentOffset())) }),
			acc(func() []int64 { return one(int64(h.TotalLength())) }),
			acc(func() []int64 { return one(int64(h.Checksum())) }),
			acc(func() []int64 { return i64s([]byte(h.SourceAddress())) }),
			acc(func() []int64 { return i64s([]byte(h.DestinationAddress())) }),
			acc(func() []int64 { t, _ := h.TOS(); return one(int64(t)) }),
			acc(func() []int64 { return one(int64(h.PayloadLength())) }),
			acc(func() []int64 { return i64s(h.Payload()) }),
			acc(func() []int64 { return one(int64(header.IPVersion(b))) }),
			acc(func() []int64 { return one(int64(h.CalculateChecksum())) }),
		}
	case 2:
		h := header.IPv6(b)
		return [][]int64{
			acc(func() []int64 { return one(int64(h.PayloadLength())) }),
			acc(func() []int64 { return one(int64(h.HopLimit())) }),
			acc(func() []int64 { return one(int64(h.NextHeader())) }),
			acc(func() []int64 { return i64s([]byte(h.SourceAddress())) }),
			acc(func() []int64 { return i64s([]byte(h.DestinationAddress())) }),
			acc(func() []int64 { t, l := h.TOS(); return []int64{int64(t), int64(l)} }),
			acc(func() []int64 { return i64s(h.Payload()) }),
			acc(func() []int64 { return one(int64(header.IPVersion(b))) }),
		}
	case 3:
		h := header.IPv6Fragment(b)
		return [][]int64{
			acc(func() []int64 { return one(int64(h.NextHeader())) }),
			acc(func() []int64 { return one(int64(h.FragmentOffset())) }),
			acc(func() []int64 { return one(b2i(h.More())) }),
			acc(func() []int64 { return one(int64(h.ID())) }),
			acc(func() []int64 { return i64s(h.Payload()) }),
			acc(func() []int64 { return one(b2i(h.IsValid())) }),
		}
	case 4:
		h := header.TCP(b)
		return [][]int64{
			acc(func() []int64 { return one(int64(h.SourcePort())) }),
			acc(func() []int64 { return one(int64(h.DestinationPort())) }),
			acc(func() []int64 { return one(int64(h.SequenceNumber())) }),
			acc(func() []int64 { return one(int64(h.AckNumber())) }),
			acc(func() []int64 { return one(int64(h.DataOffset())) }),
			acc(func() []int64 { return one(int64(h.Flags())) }),
			acc(func() []int64 { return one(int64(h.WindowSize())) }),
			acc(func() []int64 { return one(int64(h.Checksum())) }),
			acc(func() []int64 { return i64s(h.Payload()) }),
			acc(func() []int64 { return i64s(h.Options()) }),
		}
	case 5:
		h := header.UDP(b)
		return [][]int64{
			acc(func() []int64 { return one(int64(h.SourcePort())) }),
			acc(func() []int64 { return one(int64(h.DestinationPort())) }),
			acc(func() []int64 { return one(int64(h.Length())) }),
			acc(func() []int64 { return one(int64(h.Checksum())) }),
			acc(func() []int64 { return i64s(h.Payload()) }),
		}
	case 6:
		h := header.ICMPv4(b)
		return [][]int64{
			acc(func() []int64 { return one(int64(h.Type())) }),
			acc(func() []int64 { return one(int64(h.Code())) }),
			acc(func() []int64 { return one(int64(h.Checksum())) }),
			acc(func() []int64 { return i64s(h.Payload()) }),
		}
	case 7:
		h := header.ICMPv6(b)
		return [][]int64{
			acc(func() []int64 { return one(int64(h.Type())) }),
			acc(func() []int64 { return one(int64(h.Code())) }),
			acc(func() []int64 { return one(int64(h.Checksum())) }),
			acc(func() []int64 { return i64s(h.Payload()) }),
		}
	case 8:
		h := header.Ethernet(b)
		return [][]int64{
			acc(func() []int64 { return i64s([]byte(h.SourceAddress())) }),
			acc(func() []int64 { return i64s([]byte(h.DestinationAddress())) }),
			acc(func() []int64 { return one(int64(h.Type())) }),
		}
	default:
		h := header.ARP(b)
		return [][]int64{
			acc(func() []int64 { return one(int64(h.Op())) }),
			acc(func() []int64 { return i64s(h.HardwareAddressSender()) }),
			acc(func() []int64 { return i64s(h.ProtocolAddressSender()) }),
			acc(func() []int64 { return i64s(h.HardwareAddressTarget()) }),
			acc(func() []int64 { return i64s(h.ProtocolAddressTarget()) }),
			acc(func() []int64 { return one(b2i(h.IsValid())) }),
		}
	}
}

// validHeader builds a header of the given kind with the library's own encoder plus a payload.
func validHeader(kind int) []byte {
	b := make([]byte, hdrSize[kind]+r.Intn(24))
	copy(b, r.Bytes(len(b)))
	f := genFields(kind, true)
	if kind == 1 { // make lengths plausible so that Payload() succeeds often
		f[0] = one(int64(20 + 4*r.Intn(2)))
		f[2] = one(int64(len(b) - r.Intn(3)))
	}
	if kind == 2 {
		f[2] = one(int64(len(b) - 40 - r.Intn(2)))
	}
	if kind == 4 {
		f[4] = one(int64(20 + 4*r.Intn(3)))
	}
	try(func() { encode(kind, b, f) })
	return b
}

func genHeaders(tier string) {
	n := 1
	if tier == "thorough" {
		n = 12
	}
	for kind := 1; kind <= 9; kind++ {
		size := hdrSize[kind]
		// Encode
		for i := 0; i < 130*n; i++ {
			wf := i%6 != 5
			l := size + r.Intn(12)
			if i%7 == 6 {
				l = r.Intn(size)
			}
			b0 := content(2*(i%2), l)
			f := genFields(kind, wf)
			out := exact(b0)
			pan := try(func() { encode(kind, out, f) })
			if pan {
				out = []byte{}
			}
			emit(fmt.Sprintf("enc%d", kind), "CEnc %d %s %s %s %s", kind, zl(b0), ll(f), bs(pan), zl(out))
		}
		// accessors on valid / truncated / mutated / random byte strings
		for i := 0; i < 170*n; i++ {
			var b []byte
			switch i % 5 {
			case 0, 1:
				b = validHeader(kind)
			case 2:
				b = validHeader(kind)
				b = b[:r.Intn(len(b)+1)]
			case 3:
				b = validHeader(kind)
				for m := 0; m <= r.Intn(3); m++ {
					b[r.Intn(len(b))] = byte(r.Pick32(b8))
				}
			default:
				b = r.Bytes(r.Intn(size + 16))
			}
			b = exact(b)
			emit(fmt.Sprintf("acc%d", kind), "CAcc %d %s %s", kind, zl(b), ll(accessors(kind, b)))
		}
		// every truncation length of one valid header
		vb := validHeader(kind)
		for l := 0; l <= len(vb); l++ {
			b := exact(vb[:l])
			emit(fmt.Sprintf("acc%d", kind), "CAcc %d %s %s", kind, zl(b), ll(accessors(kind, b)))
		}
	}
	// helper functions
	for i := 0; i < 150*n; i++ {
		var b []byte
		mk := func(kind int) []byte {
			switch i % 4 {
			case 0, 1:
				return exact(validHeader(kind))
			case 2:
				x := validHeader(kind)
				return exact(x[:r.Intn(len(x)+1)])
			default:
				return exact(r.Bytes(r.Intn(hdrSize[kind] + 20)))
			}
		}
		fn := func(id int, b []byte, args []int64, f func(c []byte) []int64) {
			c := exact(b)
			emit(fmt.Sprintf("fn%d", id), "CFn %d %s %s %s", id, zl(b), il(args), il(acc(func() []int64 { return f(c) })))
		}
		b = mk(1)
		sizes := []int64{int64(len(b)), int64(len(b)) - 1, 20, 0, 65535, int64(r.Intn(80))}
		ps := sizes[r.Intn(len(sizes))]
		fn(1, b, []int64{ps}, func(c []byte) []int64 { return one(b2i(header.IPv4(c).IsValid(int(ps)))) })
		partial, tl := p16(), p16()
		fn(5, b, []int64{int64(partial), int64(tl)}, func(c []byte) []int64 {
			header.IPv4(c).EncodePartial(partial, tl)
			return i64s(c)
		})
		fn(10, b, nil, func(c []byte) []int64 {
			h := header.IPv4(c)
			h.SetChecksum(0)
			x := h.CalculateChecksum()
			h.SetChecksum(^x)
			return []int64{int64(x), int64(h.CalculateChecksum())}
		})
		b = mk(2)
		ps = []int64{int64(len(b)), int64(len(b)) - 1, 40, 0, 65535, int64(r.Intn(100))}[r.Intn(6)]
		fn(2, b, []int64{ps}, func(c []byte) []int64 { return one(b2i(header.IPv6(c).IsValid(int(ps)))) })
		b = mk(4)
		partial, tl = p16(), p16()
		fn(6, b, []int64{int64(partial), int64(tl)}, func(c []byte) []int64 {
			return one(int64(header.TCP(c).CalculateChecksum(partial, tl)))
		})
		fn(12, b, []int64{int64(partial), int64(tl)}, func(c []byte) []int64 {
			h := header.TCP(c)
			h.SetChecksum(0)
			x := h.CalculateChecksum(partial, tl)
			h.SetChecksum(^x)
			return []int64{int64(x), int64(h.CalculateChecksum(partial, tl))}
		})
		seq, ack, fl, wnd := p32(), p32(), p8(), p16()
		fn(7, b, []int64{int64(partial), int64(tl), int64(seq), int64(ack), int64(fl), int64(wnd)}, func(c []byte) []int64 {
			header.TCP(c).EncodePartial(partial, tl, seq, ack, fl, wnd)
			return i64s(c)
		})
		b = mk(5)
		fn(8, b, []int64{int64(partial), int64(tl)}, func(c []byte) []int64 {
			return one(int64(header.UDP(c).CalculateChecksum(partial, tl)))
		})
		fn(11, b, []int64{int64(partial), int64(tl)}, func(c []byte) []int64 {
			h := header.UDP(c)
			h.SetChecksum(0)
			x := h.CalculateChecksum(partial, tl)
			h.SetChecksum(^x)
			return []int64{int64(x), int64(h.CalculateChecksum(partial, tl))}
		})
	}
}

func main() {
	log.SetOutput(io.Discard)
	seed := flag.Uint64("seed", 1, "seed")
	tier := flag.String("tier", "quick", "quick|thorough|search")
	only := flag.String("only", "", "checksum|options|headers (default: all)")
	flag.Parse()
	w = bufio.NewWriterSize(os.Stdout, 1<<20)
	defer w.Flush()
	r = gen.New(*seed)
	if *only == "" || *only == "checksum" {
		genChecksum(*tier)
	}
	if *only == "" || *only == "options" {
		genOptions(*tier)
	}
	if *only == "" || *only == "headers" {
		genHeaders(*tier)
	}
	fmt.Fprintf(w, "# generator: seed=%d tier=%s\n", *seed, *tier)
	for _, k := range []string{"checksum", "combine", "chunks", "pseudo", "verify", "items", "syn", "opt", "synmake", "optmake", "pad"} {
		fmt.Fprintf(w, "# cases %s=%d\n", k, counts[k])
	}
	for kind := 1; kind <= 9; kind++ {
		fmt.Fprintf(w, "# cases header kind %d: enc=%d acc=%d\n", kind, counts[fmt.Sprintf("enc%d", kind)], counts[fmt.Sprintf("acc%d", kind)])
	}
	for _, id := range []int{1, 2, 5, 6, 7, 8, 10, 11, 12} {
		fmt.Fprintf(w, "# cases fn %d=%d\n", id, counts[fmt.Sprintf("fn%d", id)])
	}
}
