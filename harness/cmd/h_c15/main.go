package main

import (
	"bufio"
	"flag"
	"fmt"
	"io"
	"log"
	"os"
	"strings"

	"aaverif/internal/gen"

	"github.com/brewlin/net-protocol/protocol/header"
)

func zl(b []byte) string {
	var sb strings.Builder
	sb.WriteByte('[')
	for i, x := range b {
		if i > 0 {
			sb.WriteByte(';')
		}
		fmt.Fprintf(&sb, "%d", x)
	}
	sb.WriteByte(']')
	return sb.String()
}

func main() {
	log.SetOutput(io.Discard)
	seed := flag.Uint64("seed", 1, "seed")
	tier := flag.String("tier", "quick", "quick|thorough|search")
	flag.Parse()
	_ = tier
	w := bufio.NewWriter(os.Stdout)
	defer w.Flush()
	r := gen.New(*seed)
	for l := 0; l <= 100; l++ {
		b := r.Bytes(l)
		fmt.Fprintf(w, "CChecksum %s %d %d\n", zl(b), 7, header.Checksum(b, 7))
	}
}
