// h_c07: barrage correspondence for property C07 (no inbound frame sequence can crash the stack or
// stop it serving).
//
// The driver (parent) re-executes itself as a CHILD (child.go) that hosts one real stack with a
// TCP echo listener, an established TCP connection, and bound UDP sockets, behind either the
// recording link of harness/internal/netx or the repo's link/fdbased endpoint over a socketpair.
// The parent plays the network: for every barrage (a short list of frames from gen.go) it starts a
// fresh child, opens the established connection, sends the frames, and then runs three liveness
// probes under a watchdog: (1) an ICMP echo request (IPv4 and IPv6) is answered, (2) a new TCP
// connection completes the handshake and the echo server returns the bytes sent, (3) a UDP
// datagram reaches the bound socket.  It prints one Coq term of type NP.Corr.C07.case per barrage:
// the frames as sent, what the implementation did (statistics-counter deltas per frame in netx
// mode / over the barrage in fd mode, synchronous replies, datagrams delivered, echo replies) and
// the outcome: 0 = alive and all probes answered, 1 = the child panicked, 2 = the child exited in
// another way, 3 = the child stopped answering on the control pipe, 10 + 4*p3 + 2*p2 + p1 = probe
// k failed (pk = 1).  A failing barrage is shrunk greedily (frames dropped while it still fails)
// before it is printed.
package main

import (
	"bufio"
	"encoding/hex"
	"flag"
	"fmt"
	"io"
	"log"
	"os"
	"sort"
	"strings"
	"sync"
	"time"
)

func main() {
	log.SetOutput(io.Discard)
	if len(os.Args) >= 3 && os.Args[1] == "-child" {
		childMain(os.Args[2])
		return
	}
	seed := flag.Uint64("seed", 1, "seed")
	n := flag.Int("n", 300, "number of barrages")
	workers := flag.Int("workers", 8, "children run concurrently")
	only := flag.String("only", "", "run only barrages whose label contains this text")
	replay := flag.String("replay", "", "replay one barrage: mode:proto/chunk/hex,proto/chunk/hex,...")
	verbose := flag.Bool("v", false, "print labels")
	flag.Parse()
	var err error
	selfExe, err = os.Executable()
	if err != nil {
		fmt.Fprintln(os.Stderr, "cannot find own executable:", err)
		os.Exit(2)
	}
	out := bufio.NewWriterSize(os.Stdout, 1<<20)
	defer out.Flush()

	if *replay != "" {
		b, err := parseReplay(*replay)
		if err != nil {
			fmt.Fprintln(os.Stderr, err)
			os.Exit(2)
		}
		r := runBarrage(b, timing{probe: 4 * time.Second, step: 3 * time.Second})
		fmt.Fprintf(out, "# replay outcome %d %s\n%s\n", r.outcome, r.note, r.coq())
		return
	}

	// calibration: one child per mode must come up and pass the probes with an empty barrage
	for _, m := range []string{"netx", "fd"} {
		var r *result
		for attempt := 0; attempt < 3; attempt++ { // a loaded machine may miss the first deadline; a broken stack misses all
			r = runBarrage(barrage{mode: m, label: "calibration"}, timing{probe: time.Duration(6+6*attempt) * time.Second, step: 6 * time.Second})
			if r.outcome == 0 {
				break
			}
		}
		if r.outcome != 0 {
			// the stack does not even serve an untouched peer: report it as a case with an empty barrage
			fmt.Fprintf(out, "# calibration failed in mode %s: outcome %d %s\n%s\n", m, r.outcome, r.note, r.coq())
			return
		}
	}

	bs := generate(*seed, *n)
	if *only != "" {
		var f []barrage
		for _, b := range bs {
			if strings.Contains(b.label, *only) {
				f = append(f, b)
			}
		}
		bs = f
	}
	results := make([]*result, len(bs))
	var wg sync.WaitGroup
	var mu sync.Mutex
	next, failures, shrunk := 0, 0, 0
	const maxFailures = 8
	tm := timing{probe: 4 * time.Second, step: 3 * time.Second}
	t0 := time.Now()
	for w := 0; w < *workers; w++ {
		wg.Add(1)
		go func() {
			defer wg.Done()
			for {
				mu.Lock()
				if next >= len(bs) || failures >= maxFailures {
					mu.Unlock()
					return
				}
				i := next
				next++
				mu.Unlock()
				r := runBarrage(bs[i], tm)
				if r.outcome != 0 {
					// confirm on a fresh child before calling it a failure (guards against a
					// loaded machine), then shrink
					r2 := runBarrage(bs[i], timing{probe: 2 * tm.probe, step: 2 * tm.step})
					if r2.outcome == 0 {
						r.flaky = true
						r2.flakyFirst = r.outcome
						r = r2
					} else {
						mu.Lock()
						failures++
						doShrink := shrunk < 3
						if doShrink {
							shrunk++
						}
						mu.Unlock()
						if doShrink {
							r = shrink(bs[i], r2, tm)
						} else {
							r = r2
						}
					}
				}
				results[i] = r
			}
		}()
	}
	wg.Wait()

	// metadata
	kinds := map[string]int{}
	frames, fails, flaky := 0, 0, 0
	hist := map[int]int{}
	for i, r := range results {
		if r == nil {
			continue
		}
		kinds[bs[i].mode+"/"+bs[i].kind]++
		frames += len(r.frames)
		hist[len(r.frames)]++
		if r.outcome != 0 {
			fails++
		}
		if r.flakyFirst != 0 {
			flaky++
		}
	}
	var ks []string
	for k, v := range kinds {
		ks = append(ks, fmt.Sprintf("%s=%d", k, v))
	}
	sort.Strings(ks)
	fmt.Fprintf(out, "# seed %d barrages %d frames %d failing %d flaky-first-run %d wall %.1fs\n", *seed, len(results), frames, fails, flaky, time.Since(t0).Seconds())
	fmt.Fprintf(out, "# kinds %s\n", strings.Join(ks, " "))
	var hs []int
	for k := range hist {
		hs = append(hs, k)
	}
	sort.Ints(hs)
	var hp []string
	for _, k := range hs {
		hp = append(hp, fmt.Sprintf("%d:%d", k, hist[k]))
	}
	fmt.Fprintf(out, "# frames-per-barrage (as sent, fd barrages include the barrier frame) %s\n", strings.Join(hp, " "))
	for i, r := range results {
		if r == nil {
			continue
		}
		if r.outcome != 0 {
			fmt.Fprintf(out, "# FAIL barrage %d (%s %s): outcome %d: %s; replay: -replay %s\n", i, bs[i].mode, bs[i].label, r.outcome, r.note, replayString(bs[i].mode, r.frames))
		} else if *verbose {
			fmt.Fprintf(out, "# ok barrage %d (%s %s) frames %d\n", i, bs[i].mode, bs[i].label, len(r.frames))
		}
		if r.flakyFirst != 0 {
			fmt.Fprintf(out, "# note barrage %d (%s): first run had outcome %d, the confirmation run on a fresh child passed\n", i, bs[i].label, r.flakyFirst)
		}
		fmt.Fprintln(out, r.coq())
	}
	if failures >= maxFailures {
		fmt.Fprintf(out, "# stopped after %d failing barrages\n", failures)
	}
}

func replayString(mode string, fs []frame) string {
	p := make([]string, len(fs))
	for i, f := range fs {
		p[i] = fmt.Sprintf("%d/%d/%s", f.proto, f.chunk, hex.EncodeToString(f.b))
	}
	return mode + ":" + strings.Join(p, ",")
}

func parseReplay(s string) (barrage, error) {
	k := strings.Index(s, ":")
	if k < 0 {
		return barrage{}, fmt.Errorf("replay: want mode:frames")
	}
	b := barrage{mode: s[:k], label: "replay", kind: "replay"}
	if s[k+1:] == "" {
		return b, nil
	}
	for _, t := range strings.Split(s[k+1:], ",") {
		var f frame
		var hx string
		parts := strings.SplitN(t, "/", 3)
		if len(parts) != 3 {
			return b, fmt.Errorf("replay: bad frame %q", t)
		}
		fmt.Sscanf(parts[0], "%d", &f.proto)
		fmt.Sscanf(parts[1], "%d", &f.chunk)
		hx = parts[2]
		var err error
		f.b, err = hex.DecodeString(hx)
		if err != nil {
			return b, err
		}
		b.frames = append(b.frames, f)
	}
	return b, nil
}

// shrink: greedy removal while the barrage still fails (any failing outcome): first blocks of
// half, a quarter, ... of the frames, then single frames from the end; bounded in runs; the final
// candidate is confirmed with the full timing.
func shrink(b barrage, failing *result, tm timing) *result {
	fast := timing{probe: 1500 * time.Millisecond, step: 1500 * time.Millisecond, firstFailStops: true}
	cur := append([]frame(nil), b.frames...)
	runs := 0
	budget := 48
	if failing.outcome >= 10 || failing.outcome == 3 {
		budget = 28 // every failing run of a hung stack costs a watchdog period
	}
	fails := func(cand []frame) bool {
		runs++
		r := runBarrage(barrage{mode: b.mode, frames: cand, label: b.label, kind: b.kind}, fast)
		return r.outcome != 0
	}
	for size := len(cur) / 2; size >= 1 && runs < budget; size /= 2 {
		for start := len(cur) - size; start >= 0 && runs < budget && len(cur) > 1; start -= size {
			if start+size > len(cur) {
				continue
			}
			cand := append(append([]frame(nil), cur[:start]...), cur[start+size:]...)
			if len(cand) == 0 {
				continue
			}
			if fails(cand) {
				cur = cand
			}
		}
	}
	if len(cur) == len(b.frames) {
		return failing
	}
	r := runBarrage(barrage{mode: b.mode, frames: cur, label: b.label, kind: b.kind}, tm)
	if r.outcome == 0 {
		return failing
	}
	r.note = clip(r.note + fmt.Sprintf(" (shrunk from %d to %d frames in %d runs)", len(b.frames), len(cur), runs))
	return r
}
