// One barrage against one fresh child: set-up (established connection), the frames, the probes.
package main

import (
	"bytes"
	"encoding/binary"
	"encoding/hex"
	"fmt"
	"os"
	"strings"
	"time"

	"aaverif/internal/netx"
)

var debugTiming = os.Getenv("C07_TIMING") != ""

type patch struct {
	off  int // offset of a big-endian uint32 in frame.b
	base int // 1: add the peer's next sequence number of the established connection; 2: add the stack's
}

type frame struct {
	proto int // network protocol number; -1 = b is a raw link-layer frame (fd mode only)
	chunk int // netx mode: size of the first view (0 = one view)
	b     []byte
	patch []patch
	obs   []int64 // filled by the run (netx mode)
}

type barrage struct {
	mode   string // "netx" | "fd"
	kind   string // generator family
	label  string
	frames []frame
}

type timing struct {
	probe, step    time.Duration
	firstFailStops bool
}

type result struct {
	mode       string
	frames     []frame
	total      []int64
	udp        []int64
	echo4      int64
	outcome    int
	probes     [3]bool
	note       string
	flaky      bool
	flakyFirst int
}

const (
	protoIPv4 = 0x0800
	protoIPv6 = 0x86dd
	protoARP  = 0x0806

	estPeerPort = 4321
	estIRS      = 0x10000000
)

type env struct {
	c        *child
	mode     string
	tm       timing
	res      *result
	base     [nStat]int64
	last     [nStat]int64
	peerNxt  uint32 // established connection: next sequence number the peer (we) would send
	stackNxt uint32 // ... and the next one the stack would send
	tsRecent uint32
	probeN   uint32
	dead     bool // child exited or stopped answering: outcome already set
}

func (r *result) coq() string {
	var sb strings.Builder
	mode := 0
	if r.mode == "fd" {
		mode = 1
	}
	fmt.Fprintf(&sb, "CB %d [", mode)
	for i, f := range r.frames {
		if i > 0 {
			sb.WriteByte(';')
		}
		p := fmt.Sprintf("%d", f.proto)
		if f.proto < 0 {
			p = fmt.Sprintf("(%d)", f.proto)
		}
		fmt.Fprintf(&sb, "Fr %s %d %s 0x1%s%%uint63", p, f.chunk, int63List(f.b), hexDigits(f.obs))
	}
	fmt.Fprintf(&sb, "] %s %s %d %d [%s;%s;%s] \"%s\"%%string", zl(r.total), zl(r.udp), r.echo4, r.outcome,
		netx.B(r.probes[0]), netx.B(r.probes[1]), netx.B(r.probes[2]), strings.ReplaceAll(r.note, "\"", "'"))
	return sb.String()
}

// int63List: the bytes as a Coq list of primitive integers, seven bytes per integer behind a leading 1
func int63List(b []byte) string {
	var sb strings.Builder
	sb.WriteByte('[')
	for i := 0; i < len(b); i += 7 {
		j := i + 7
		if j > len(b) {
			j = len(b)
		}
		if i > 0 {
			sb.WriteByte(';')
		}
		sb.WriteString("0x1")
		sb.WriteString(hex.EncodeToString(b[i:j]))
	}
	sb.WriteString("]%uint63")
	return sb.String()
}

// hexDigits: one hexadecimal digit per entry (entries are tiny: reply bits and counter deltas)
func hexDigits(v []int64) string {
	b := make([]byte, len(v))
	for i, x := range v {
		if x < 0 || x > 15 {
			x = 15
		}
		b[i] = "0123456789abcdef"[x]
	}
	return string(b)
}

func zl(v []int64) string {
	p := make([]string, len(v))
	for i, x := range v {
		if x < 0 {
			p[i] = fmt.Sprintf("(%d)", x)
		} else {
			p[i] = fmt.Sprintf("%d", x)
		}
	}
	return "[" + strings.Join(p, ";") + "]"
}

// ------------------------------------------------------------------ sending

func (e *env) childGone() bool {
	if e.dead {
		return true
	}
	if !e.c.alive() {
		e.markDead()
		return true
	}
	return false
}

func (e *env) markDead() {
	if e.dead {
		return
	}
	e.dead = true
	select {
	case <-e.c.done:
	case <-time.After(2 * time.Second):
	}
	if e.c.alive() {
		e.res.outcome = 3
		e.res.note = "child stopped answering on the control pipe"
		return
	}
	code, msg := e.c.exitInfo()
	if strings.HasPrefix(msg, "panic:") || strings.HasPrefix(msg, "fatal error:") || code == 2 {
		e.res.outcome = 1
	} else {
		e.res.outcome = 2
	}
	e.res.note = fmt.Sprintf("exit %d: %s", code, msg)
}

func (e *env) hung(what string) {
	if e.dead {
		return
	}
	if !e.c.alive() {
		e.markDead()
		return
	}
	e.dead = true
	e.res.outcome = 3
	e.res.note = what
	if w := e.c.stacks(); w != "" {
		e.res.note = clip(what + "; " + w)
	}
}

// send delivers one frame; in netx mode it returns the counters after the frame (lock step).
func (e *env) send(f frame) ([nStat]int64, bool) {
	var z [nStat]int64
	if e.childGone() {
		return z, false
	}
	if e.mode == "netx" {
		for len(e.c.stats) > 0 {
			<-e.c.stats
		}
		if !e.c.command(fmt.Sprintf("I %d %d %s", f.proto, f.chunk, hex.EncodeToString(f.b)), e.tm.step) {
			e.hung("control pipe write failed or timed out (inject)")
			return z, false
		}
		st, ok := e.c.waitStats(e.tm.step)
		if !ok {
			e.hung("no answer to an injected frame within the watchdog period (DeliverNetworkPacket did not return)")
			return z, false
		}
		e.last = st
		return st, true
	}
	raw := f.b
	if f.proto >= 0 {
		raw = ethFrame(f.proto, f.b)
	}
	if !e.c.sendRaw(raw, e.tm.step) {
		e.hung("the socketpair towards fdbased stayed full for the watchdog period (dispatch loop not reading)")
		return z, false
	}
	return z, true
}

// next returns the next packet emitted by the stack, or false at the deadline / child exit.
func (e *env) next(until time.Time) (pkt, bool) {
	d := time.Until(until)
	if d <= 0 {
		select {
		case p := <-e.c.rx:
			return p, true
		default:
			return pkt{}, false
		}
	}
	t := time.NewTimer(d)
	defer t.Stop()
	select {
	case p := <-e.c.rx:
		return p, true
	case <-e.c.done:
		select {
		case p := <-e.c.rx:
			return p, true
		default:
		}
		e.markDead()
		return pkt{}, false
	case <-t.C:
		return pkt{}, false
	}
}

// ------------------------------------------------------------------ outbound packet classification

type oinfo struct {
	kind    string // arp-req arp-rep echo4 icmp4 echo6 na ns icmp6 tcp4 tcp6 udp4 udp6 other
	tcp     netx.TCPSeg
	icmpID  uint16
	icmpSeq uint16
	payload []byte
}

func classify(p pkt) oinfo {
	var o oinfo
	o.kind = "other"
	switch p.proto {
	case protoARP:
		if len(p.b) >= 8 {
			if binary.BigEndian.Uint16(p.b[6:]) == 1 {
				o.kind = "arp-req"
			} else {
				o.kind = "arp-rep"
			}
		}
	case protoIPv4:
		i, ok := netx.ParseIPv4(p.b)
		if !ok {
			return o
		}
		switch i.Proto {
		case 1:
			o.kind = "icmp4"
			if len(i.Payload) >= 4 && i.Payload[0] == 0 {
				// an echo reply (the stack answers requests with as few as 6 ICMP bytes)
				o.kind = "echo4"
				o.icmpID, o.icmpSeq = 0xffff, 0xffff
				if len(i.Payload) >= 8 {
					o.icmpID = binary.BigEndian.Uint16(i.Payload[4:])
					o.icmpSeq = binary.BigEndian.Uint16(i.Payload[6:])
					o.payload = i.Payload[8:]
				}
			}
		case 6:
			if t, ok := netx.ParseTCP(i.Payload); ok {
				o.kind, o.tcp = "tcp4", t
			}
		case 17:
			o.kind = "udp4"
			if len(i.Payload) >= 8 {
				o.payload = i.Payload[8:]
			}
		}
	case protoIPv6:
		if len(p.b) < 40 {
			return o
		}
		pl := p.b[40:]
		switch p.b[6] {
		case 58:
			o.kind = "icmp6"
			if len(pl) >= 8 {
				switch pl[0] {
				case 129:
					o.kind = "echo6"
					o.icmpID = binary.BigEndian.Uint16(pl[4:])
					o.icmpSeq = binary.BigEndian.Uint16(pl[6:])
					o.payload = pl[8:]
				case 136:
					o.kind = "na"
				case 135:
					o.kind = "ns"
				}
			}
		case 6:
			if t, ok := netx.ParseTCP(pl); ok {
				o.kind, o.tcp = "tcp6", t
			}
		case 17:
			o.kind = "udp6"
		}
	}
	return o
}

// reactBits: replies that only the synchronous part of DeliverNetworkPacket can produce.
//
//	1 ARP reply, 2 ICMPv6 echo reply, 4 neighbour advertisement, 8 TCP RST from a port nobody listens on
func reactBit(o oinfo) int64 {
	switch o.kind {
	case "arp-rep":
		return 1
	case "echo6":
		return 2
	case "na":
		return 4
	case "tcp4", "tcp6":
		if o.tcp.Flags&netx.FlagRst != 0 && o.tcp.SrcPort != tcpPort {
			return 8
		}
	}
	return 0
}

// ------------------------------------------------------------------ packet builders (independent of the repo's header package)

func ip4(proto byte, payload []byte) []byte {
	return netx.IPv4Packet(peer4, stack4, proto, 0x4242, 0, 64, payload)
}
func ip6(next byte, payload []byte) []byte {
	return netx.IPv6Packet(peer6, stack6, next, 64, payload)
}

func icmp4Echo(typ byte, id, seq uint16, data []byte) []byte {
	b := make([]byte, 8+len(data))
	b[0] = typ
	binary.BigEndian.PutUint16(b[4:], id)
	binary.BigEndian.PutUint16(b[6:], seq)
	copy(b[8:], data)
	binary.BigEndian.PutUint16(b[2:], ^netx.Sum16(b, 0))
	return b
}

func icmp6(typ, code byte, rest []byte) []byte {
	b := make([]byte, 4+len(rest))
	b[0], b[1] = typ, code
	copy(b[4:], rest)
	binary.BigEndian.PutUint16(b[2:], ^netx.Sum16(b, netx.PseudoSum(peer6, stack6, 58, len(b))))
	return b
}

func icmp6Echo(typ byte, id, seq uint16, data []byte) []byte {
	r := make([]byte, 4+len(data))
	binary.BigEndian.PutUint16(r[0:], id)
	binary.BigEndian.PutUint16(r[2:], seq)
	copy(r[4:], data)
	return icmp6(typ, 0, r)
}

func arpPacket(op uint16, sha, spa, tha, tpa []byte) []byte {
	b := make([]byte, 28)
	binary.BigEndian.PutUint16(b[0:], 1)
	binary.BigEndian.PutUint16(b[2:], 0x0800)
	b[4], b[5] = 6, 4
	binary.BigEndian.PutUint16(b[6:], op)
	copy(b[8:14], sha)
	copy(b[14:18], spa)
	copy(b[18:24], tha)
	copy(b[24:28], tpa)
	return b
}

func tsOpt(val, ecr uint32) []byte {
	o := []byte{1, 1, 8, 10, 0, 0, 0, 0, 0, 0, 0, 0}
	binary.BigEndian.PutUint32(o[4:], val)
	binary.BigEndian.PutUint32(o[8:], ecr)
	return o
}

func tcp4(t netx.TCPSeg) []byte { return ip4(6, netx.TCPBytes(peer4, stack4, t)) }

// ------------------------------------------------------------------ set-up and probes

func tsOf(o []byte) (uint32, bool) {
	for i := 0; i < len(o); {
		switch o[i] {
		case 0:
			return 0, false
		case 1:
			i++
			continue
		}
		if i+1 >= len(o) || o[i+1] < 2 || i+int(o[i+1]) > len(o) {
			return 0, false
		}
		if o[i] == 8 && o[i+1] == 10 {
			return binary.BigEndian.Uint32(o[i+2:]), true
		}
		i += int(o[i+1])
	}
	return 0, false
}

// establish opens the connection the barrages aim at: peer 10.0.0.2:4321 -> stack :80 with
// MSS, window scale, timestamps and SACK negotiated, and exchanges five bytes through the echo server.
func (e *env) establish() bool {
	until := time.Now().Add(e.tm.probe)
	synOpts := []byte{2, 4, 5, 0xb4, 4, 2, 8, 10, 0, 0, 0, 1, 0, 0, 0, 0, 1, 3, 3, 2}
	syn := netx.TCPSeg{SrcPort: estPeerPort, DstPort: tcpPort, Seq: estIRS, Flags: netx.FlagSyn, Wnd: 65535, Opts: synOpts}
	if _, ok := e.send(frame{proto: protoIPv4, b: tcp4(syn)}); !ok {
		return false
	}
	var iss uint32
	got := false
	for !got {
		p, ok := e.next(until)
		if !ok {
			return false
		}
		o := classify(p)
		if o.kind == "tcp4" && o.tcp.DstPort == estPeerPort && o.tcp.Flags == netx.FlagSyn|netx.FlagAck && o.tcp.Ack == estIRS+1 {
			iss, got = o.tcp.Seq, true
			e.tsRecent, _ = tsOf(o.tcp.Opts)
		}
	}
	ack := netx.TCPSeg{SrcPort: estPeerPort, DstPort: tcpPort, Seq: estIRS + 1, Ack: iss + 1, Flags: netx.FlagAck, Wnd: 65535, Opts: tsOpt(2, e.tsRecent)}
	if _, ok := e.send(frame{proto: protoIPv4, b: tcp4(ack)}); !ok {
		return false
	}
	hello := []byte("hello")
	data := ack
	data.Flags |= netx.FlagPsh
	data.Payload = hello
	data.Opts = tsOpt(3, e.tsRecent)
	if _, ok := e.send(frame{proto: protoIPv4, b: tcp4(data)}); !ok {
		return false
	}
	resend := time.Now().Add(300 * time.Millisecond)
	for {
		lim := until
		if resend.Before(lim) {
			lim = resend
		}
		p, ok := e.next(lim)
		if e.dead {
			return false
		}
		if !ok {
			if time.Now().After(until) {
				return false
			}
			if _, ok := e.send(frame{proto: protoIPv4, b: tcp4(data)}); !ok {
				return false
			}
			resend = time.Now().Add(300 * time.Millisecond)
			continue
		}
		o := classify(p)
		if o.kind == "tcp4" && o.tcp.DstPort == estPeerPort && bytes.Equal(o.tcp.Payload, hello) && o.tcp.Seq == iss+1 {
			if v, ok := tsOf(o.tcp.Opts); ok {
				e.tsRecent = v
			}
			break
		}
	}
	e.peerNxt, e.stackNxt = estIRS+1+5, iss+1+5
	fin := netx.TCPSeg{SrcPort: estPeerPort, DstPort: tcpPort, Seq: e.peerNxt, Ack: e.stackNxt, Flags: netx.FlagAck, Wnd: 65535, Opts: tsOpt(4, e.tsRecent)}
	_, ok := e.send(frame{proto: protoIPv4, b: tcp4(fin)})
	return ok
}

// warm: teach the link-address cache the peer's addresses (gratuitous ARP reply, unsolicited
// neighbour advertisement), so that datagrams the UDP echo sends back can leave.
func (e *env) warm() bool {
	if _, ok := e.send(frame{proto: protoARP, b: arpPacket(2, peerMAC, peer4, stackMAC, stack4)}); !ok {
		return false
	}
	na := make([]byte, 28)
	na[0] = 0x60
	copy(na[4:20], peer6)
	na[20], na[21] = 2, 1
	copy(na[22:28], peerMAC)
	_, ok := e.send(frame{proto: protoIPv6, b: ip6(58, icmp6(136, 0, na))})
	return ok
}

// probe 1: echo requests (IPv4 and IPv6) are answered.  Echo replies to barrage frames that
// arrive before the probe's own reply are counted in res.echo4.
func (e *env) probeEcho() bool {
	e.probeN++
	data := []byte(fmt.Sprintf("c07-echo-probe-%d", e.probeN))
	const id = 0x0c07
	req4 := ip4(1, icmp4Echo(8, id, uint16(e.probeN), data))
	req6 := ip6(58, icmp6Echo(128, id, uint16(e.probeN), data))
	until := time.Now().Add(e.tm.probe)
	ok4, ok6 := false, false
	for !(ok4 && ok6) {
		if !ok4 {
			if _, ok := e.send(frame{proto: protoIPv4, b: req4}); !ok {
				return false
			}
		}
		if !ok6 {
			if _, ok := e.send(frame{proto: protoIPv6, b: req6}); !ok {
				return false
			}
		}
		resend := time.Now().Add(250 * time.Millisecond)
		for !(ok4 && ok6) {
			lim := until
			if resend.Before(lim) {
				lim = resend
			}
			p, ok := e.next(lim)
			if e.dead {
				return false
			}
			if !ok {
				break
			}
			o := classify(p)
			switch o.kind {
			case "echo4":
				if o.icmpID == id && o.icmpSeq == uint16(e.probeN) && bytes.Equal(o.payload, data) {
					ok4 = true
				} else if !ok4 {
					e.res.echo4++
				}
			case "echo6":
				if o.icmpID == id && o.icmpSeq == uint16(e.probeN) && bytes.Equal(o.payload, data) {
					ok6 = true
				}
			}
		}
		if time.Now().After(until) {
			break
		}
	}
	return ok4 && ok6
}

// probe 2: a new TCP connection completes the handshake and the echo server returns our bytes.
func (e *env) probeTCP() bool {
	e.probeN++
	sport := uint16(30000 + e.probeN)
	isn := 0x22220000 + e.probeN*0x1000
	data := []byte(fmt.Sprintf("c07-tcp-probe-%d", e.probeN))
	until := time.Now().Add(e.tm.probe)
	syn := netx.TCPSeg{SrcPort: sport, DstPort: tcpPort, Seq: isn, Flags: netx.FlagSyn, Wnd: 65535, Opts: []byte{2, 4, 5, 0xb4}}
	var iss uint32
	haveSynAck := false
	done := false
	for !done {
		if !haveSynAck {
			if _, ok := e.send(frame{proto: protoIPv4, b: tcp4(syn)}); !ok {
				return false
			}
		} else {
			d := netx.TCPSeg{SrcPort: sport, DstPort: tcpPort, Seq: isn + 1, Ack: iss + 1, Flags: netx.FlagAck | netx.FlagPsh, Wnd: 65535, Payload: data}
			if _, ok := e.send(frame{proto: protoIPv4, b: tcp4(d)}); !ok {
				return false
			}
		}
		resend := time.Now().Add(300 * time.Millisecond)
		for {
			lim := until
			if resend.Before(lim) {
				lim = resend
			}
			p, ok := e.next(lim)
			if e.dead {
				return false
			}
			if !ok {
				break
			}
			o := classify(p)
			if o.kind != "tcp4" || o.tcp.DstPort != sport || o.tcp.SrcPort != tcpPort {
				continue
			}
			if !haveSynAck && o.tcp.Flags&(netx.FlagSyn|netx.FlagAck|netx.FlagRst) == netx.FlagSyn|netx.FlagAck && o.tcp.Ack == isn+1 {
				haveSynAck, iss = true, o.tcp.Seq
				a := netx.TCPSeg{SrcPort: sport, DstPort: tcpPort, Seq: isn + 1, Ack: iss + 1, Flags: netx.FlagAck, Wnd: 65535}
				if _, ok := e.send(frame{proto: protoIPv4, b: tcp4(a)}); !ok {
					return false
				}
				break // send the data now
			}
			if haveSynAck && o.tcp.Flags&netx.FlagRst == 0 && o.tcp.Seq == iss+1 && bytes.Equal(o.tcp.Payload, data) {
				done = true
				break
			}
		}
		if !done && time.Now().After(until) {
			return false
		}
	}
	// tidy up: reset the probe connection
	rst := netx.TCPSeg{SrcPort: sport, DstPort: tcpPort, Seq: isn + 1 + uint32(len(data)), Ack: iss + 1 + uint32(len(data)), Flags: netx.FlagRst | netx.FlagAck}
	e.send(frame{proto: protoIPv4, b: tcp4(rst)})
	return true
}

// probe 3: a UDP datagram reaches the bound socket with its payload intact (the IPv4 socket and
// the IPv6 socket).  Datagrams of the barrage that the sockets report before are collected in
// res.udp (length; +100000 for the IPv6 socket); the two sockets are read by two goroutines, so
// only the order within a family is meaningful.
func (e *env) probeUDP() bool {
	e.probeN++
	sport := 40000 + int(e.probeN)
	data := []byte(fmt.Sprintf("c07-udp-probe-%d", e.probeN))
	dg4 := ip4(17, netx.UDPBytes(peer4, stack4, uint16(sport), udpPort, data, -1))
	dg6 := ip6(17, netx.UDPBytes(peer6, stack6, uint16(sport), udpPort, data, -1))
	until := time.Now().Add(e.tm.probe)
	ok4, ok6 := false, false
	for {
		if !ok4 {
			if _, ok := e.send(frame{proto: protoIPv4, b: dg4}); !ok {
				return false
			}
		}
		if !ok6 {
			if _, ok := e.send(frame{proto: protoIPv6, b: dg6}); !ok {
				return false
			}
		}
		resend := time.NewTimer(250 * time.Millisecond)
	wait:
		for {
			select {
			case u := <-e.c.udp:
				if u.sport == sport && u.n == len(data) && bytes.Equal(u.head, data) {
					if u.fam == 4 {
						ok4 = true
					} else {
						ok6 = true
					}
					if ok4 && ok6 {
						resend.Stop()
						return true
					}
					continue
				}
				if (u.fam == 4 && ok4) || (u.fam == 6 && ok6) {
					continue // a duplicate of the probe or late echo; not part of the barrage
				}
				l := int64(u.n)
				if u.fam == 6 {
					l += 100000
				}
				e.res.udp = append(e.res.udp, l)
			case <-e.c.done:
				resend.Stop()
				e.markDead()
				return false
			case <-resend.C:
				break wait
			}
		}
		if time.Now().After(until) {
			return false
		}
	}
}

// ------------------------------------------------------------------ the run

func runBarrage(b barrage, tm timing) *result {
	res := &result{mode: b.mode}
	t0 := time.Now()
	lap := func(what string) {
		if debugTiming {
			fmt.Fprintf(os.Stderr, "%s %s %.1fms\n", b.mode, what, float64(time.Since(t0).Microseconds())/1000)
		}
	}
	c, err := startChild(b.mode)
	lap("started")
	if err != nil {
		res.outcome = 2
		res.note = "child did not start: " + reSan.ReplaceAllString(err.Error(), "?")
		if strings.Contains(err.Error(), "panic:") {
			res.outcome = 1
		}
		if len(res.note) > 240 {
			res.note = res.note[:240]
		}
		return res
	}
	defer func() { c.kill(); lap("killed") }()
	e := &env{c: c, mode: b.mode, tm: tm, res: res}

	if !e.warm() || !e.establish() {
		if !e.dead {
			res.outcome = 4
			res.note = "set-up failed: the stack did not complete the first connection before any barrage frame"
		}
		return res
	}
	// baseline counters, taken when everything sent so far has been dispatched
	if b.mode == "fd" {
		if !e.barrier(false) {
			if !e.dead {
				res.outcome = 4
				res.note = "set-up failed: no answer to the first echo request over fdbased"
			}
			return res
		}
	}
	st, ok := c.query(tm.step)
	if !ok {
		e.hung("no answer to a statistics query")
		return res
	}
	e.base, e.last = st, st
	// whatever the set-up left on the wire is not a reaction to the barrage
	for len(c.rx) > 0 {
		<-c.rx
	}

	lap("setup")
	// ---- the barrage
	for _, f := range b.frames {
		g := frame{proto: f.proto, chunk: f.chunk, b: append([]byte(nil), f.b...)}
		for _, p := range f.patch {
			basev := e.peerNxt
			if p.base == 2 {
				basev = e.stackNxt
			}
			if p.off+4 <= len(g.b) {
				binary.BigEndian.PutUint32(g.b[p.off:], binary.BigEndian.Uint32(g.b[p.off:])+basev)
			}
		}
		if b.mode == "fd" && g.proto >= 0 {
			g = frame{proto: -1, b: ethFrame(g.proto, g.b)}
		}
		prev := e.last
		st, ok := e.send(g)
		if b.mode == "netx" && ok {
			obs := make([]int64, 1+nStat)
			// replies produced inside DeliverNetworkPacket precede the S line on the control pipe
			n := len(c.rx)
			var keep []pkt
			for i := 0; i < n; i++ {
				p := <-c.rx
				if bit := reactBit(classify(p)); bit != 0 {
					obs[0] |= bit
				} else {
					keep = append(keep, p)
				}
			}
			for _, p := range keep { // echo replies etc. are counted by the probes
				select {
				case c.rx <- p:
				default:
				}
			}
			for i := 0; i < nStat; i++ {
				obs[1+i] = st[i] - prev[i]
			}
			g.obs = obs
		}
		res.frames = append(res.frames, g)
		if !ok {
			break
		}
	}
	if !e.dead && b.mode == "fd" {
		e.barrier(true)
	}
	if !e.dead {
		if b.mode == "fd" {
			if st, ok := c.query(tm.step); ok {
				e.last = st
			} else {
				e.hung("no answer to a statistics query after the barrage")
			}
		}
		if !e.dead {
			res.total = make([]int64, nStat)
			for i := range res.total {
				res.total[i] = e.last[i] - e.base[i]
			}
		}
	}
	// a panic in a goroutine of the stack may come a moment after the frame that caused it
	if !e.dead {
		e.childGone()
	}

	lap("barrage")
	// ---- the probes
	if !e.dead {
		res.probes[0] = e.probeEcho()
		lap("echo")
		if !e.dead && !(tm.firstFailStops && !res.probes[0]) {
			res.probes[1] = e.probeTCP()
			lap("tcp")
		}
		if !e.dead && !(tm.firstFailStops && !(res.probes[0] && res.probes[1])) {
			res.probes[2] = e.probeUDP()
			lap("udp")
		}
	}
	if !e.dead {
		// last look: the child must still be there
		time.Sleep(2 * time.Millisecond)
		e.childGone()
	}
	if !e.dead {
		code := 0
		var failed []string
		for k, ok := range res.probes {
			if !ok {
				code |= 1 << uint(k)
				failed = append(failed, []string{"echo request not answered", "new TCP connection did not complete / echo", "UDP datagram not delivered"}[k])
			}
		}
		if code != 0 {
			res.outcome = 10 + code
			res.note = "child alive but " + strings.Join(failed, ", ") + fmt.Sprintf(" within %v", tm.probe)
			if w := c.stacks(); w != "" {
				res.note = clip(res.note + "; " + w)
			}
		}
	}
	return res
}

// barrier (fd mode): an ICMPv6 echo request is answered inside fdbased's dispatch goroutine, so its
// reply on the wire proves that every frame written before it has been dispatched completely.
// When record is set the barrier frame is part of the barrage (it is a frame like any other).
func (e *env) barrier(record bool) bool {
	e.probeN++
	data := []byte(fmt.Sprintf("c07-barrier-%d", e.probeN))
	const id = 0xba22
	req := ip6(58, icmp6Echo(128, id, uint16(e.probeN), data))
	g := frame{proto: -1, b: ethFrame(protoIPv6, req)}
	if _, ok := e.send(g); !ok {
		return false
	}
	if record {
		e.res.frames = append(e.res.frames, g)
	}
	until := time.Now().Add(e.tm.probe)
	var keep []pkt
	defer func() {
		for _, p := range keep {
			select {
			case e.c.rx <- p:
			default:
			}
		}
	}()
	for {
		p, ok := e.next(until)
		if e.dead {
			return false
		}
		if !ok {
			return false
		}
		o := classify(p)
		if o.kind == "echo6" && o.icmpID == id && o.icmpSeq == uint16(e.probeN) {
			return true
		}
		if o.kind == "echo4" {
			keep = append(keep, p)
		}
	}
}
