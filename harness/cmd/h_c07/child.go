// The CHILD half of h_c07: a process that hosts one real stack (IPv4 + IPv6 + ARP, TCP + UDP) with
//   - a TCP listener on port 80 (IPv4) and one on port 80 (IPv6 only) served by a trivial echo
//     server (every accepted connection: Read -> Write back),
//   - a UDP socket bound to port 53 (IPv4) and one bound to port 53 (IPv6 only); every datagram
//     read is reported on the control pipe and sent back to its sender,
//
// behind one of two link endpoints:
//
//	mode "netx": the shared recording link harness/internal/netx.Link; frames are injected
//	             synchronously by the control command I and every outbound frame is reported (O);
//	mode "fd"  : the repo's own link/fdbased endpoint on file descriptor 3 (one end of a
//	             socketpair(AF_UNIX, SOCK_DGRAM) whose other end the parent holds), so that
//	             fdbased.dispatchLoop / dispatch run on every frame (Ethernet framing).
//
// The child contains no judgement: it only hosts the code under test and reports what it sees.
// A Go panic anywhere in the stack kills this process (exit status 2, trace on stderr), which is
// exactly the observable the property is about; nothing is recovered here.
//
// Control pipe, parent -> child (stdin), one command per line:
//
//	I <proto> <chunk> <hex>   netx mode: deliver this network-layer packet (first view of <chunk>
//	                          bytes when 0 < chunk < len, one view otherwise); answered by S
//	Q                         answered by S
//
// child -> parent (stdout):
//
//	READY
//	O <proto> <hex>           netx mode: the stack handed this packet to the link endpoint
//	S <c0> ... <c11>          the stack's statistics counters (see statLine)
//	U <family> <srcport> <len> <hex of at most 32 payload bytes>   a datagram was read from a bound socket
//	A <family>                the echo server accepted a connection
package main

import (
	"bufio"
	"encoding/hex"
	"fmt"
	"io"
	"log"
	"os"
	"strconv"
	"strings"
	"sync"
	"time"

	"aaverif/internal/netx"

	"github.com/brewlin/net-protocol/pkg/buffer"
	"github.com/brewlin/net-protocol/pkg/waiter"
	tcpip "github.com/brewlin/net-protocol/protocol"
	"github.com/brewlin/net-protocol/protocol/link/fdbased"
	"github.com/brewlin/net-protocol/protocol/network/arp"
	"github.com/brewlin/net-protocol/protocol/network/ipv4"
	"github.com/brewlin/net-protocol/protocol/network/ipv6"
	"github.com/brewlin/net-protocol/protocol/transport/tcp"
	"github.com/brewlin/net-protocol/protocol/transport/udp"
	"github.com/brewlin/net-protocol/stack"
)

var (
	stackMAC = []byte{0x02, 0, 0, 0, 0, 0x01}
	peerMAC  = []byte{0x02, 0, 0, 0, 0, 0x02}
	stack4   = []byte{10, 0, 0, 1}
	peer4    = []byte{10, 0, 0, 2}
	stack6   = []byte{0xfd, 0, 0, 0, 0, 0, 0, 0, 0, 0, 0, 0, 0, 0, 0, 1}
	peer6    = []byte{0xfd, 0, 0, 0, 0, 0, 0, 0, 0, 0, 0, 0, 0, 0, 0, 2}
)

const (
	tcpPort = 80
	udpPort = 53
)

type childOut struct {
	mu sync.Mutex
	w  *bufio.Writer
}

func (c *childOut) line(format string, a ...interface{}) {
	c.mu.Lock()
	fmt.Fprintf(c.w, format, a...)
	c.w.WriteByte('\n')
	c.w.Flush()
	c.mu.Unlock()
}

func statLine(s *stack.Stack) string {
	st := s.Stats()
	v := []uint64{
		st.UnknownProtocolRcvdPackets.Value(),   // 0
		st.MalformedRcvdPackets.Value(),         // 1
		st.IP.PacketsReceived.Value(),           // 2
		st.IP.InvalidAddressesReceived.Value(),  // 3
		st.IP.PacketsDelivered.Value(),          // 4
		st.UDP.PacketsReceived.Value(),          // 5
		st.UDP.UnknownPortErrors.Value(),        // 6
		st.UDP.MalformedPacketsReceived.Value(), // 7
		st.TCP.ValidSegmentsReceived.Value(),    // 8
		st.TCP.InvalidSegmentsReceived.Value(),  // 9
		st.TCP.ResetsReceived.Value(),           // 10
	}
	p := make([]string, len(v))
	for i, x := range v {
		p[i] = strconv.FormatUint(x, 10)
	}
	return "S " + strings.Join(p, " ")
}

func must(e *tcpip.Error, what string) {
	if e != nil {
		fmt.Fprintf(os.Stderr, "child setup: %s: %s\n", what, e.String())
		os.Exit(3)
	}
}

func childMain(mode string) {
	log.SetOutput(io.Discard)
	out := &childOut{w: bufio.NewWriterSize(os.Stdout, 1<<16)}

	var s *stack.Stack
	var link *netx.Link
	switch mode {
	case "netx":
		n := netx.NewNet(netx.Opts{MTU: 1500, Caps: stack.CapabilityResolutionRequired, LinkAddr: tcpip.LinkAddress(stackMAC),
			Addr4: string(stack4), Addr6: string(stack6)})
		s, link = n.S, n.L
		link.OnFrame = func(f netx.Frame) { out.line("O %d %s", int(f.Proto), hex.EncodeToString(f.Bytes)) }
	case "fd":
		s = stack.New([]string{ipv4.ProtocolName, ipv6.ProtocolName, arp.ProtocolName}, []string{tcp.ProtocolName, udp.ProtocolName}, stack.Options{})
		id := fdbased.New(&fdbased.Options{FD: 3, MTU: 1500, Address: tcpip.LinkAddress(stackMAC), ResolutionRequired: true})
		must(s.CreateNIC(1, id), "CreateNIC")
		must(s.AddAddress(1, ipv4.ProtocolNumber, tcpip.Address(stack4)), "AddAddress v4")
		must(s.AddAddress(1, ipv6.ProtocolNumber, tcpip.Address(stack6)), "AddAddress v6")
		must(s.AddAddress(1, arp.ProtocolNumber, arp.ProtocolAddress), "AddAddress arp")
		z := string(make([]byte, 16))
		s.SetRouteTable([]tcpip.Route{
			{Destination: "\x00\x00\x00\x00", Mask: "\x00\x00\x00\x00", Gateway: "", NIC: 1},
			{Destination: tcpip.Address(z), Mask: tcpip.AddressMask(z), Gateway: "", NIC: 1},
		})
	default:
		fmt.Fprintln(os.Stderr, "child: unknown mode", mode)
		os.Exit(3)
	}

	// echo servers
	for _, fam := range []int{4, 6} {
		np := ipv4.ProtocolNumber
		if fam == 6 {
			np = ipv6.ProtocolNumber
		}
		wq := &waiter.Queue{}
		lep, err := s.NewEndpoint(tcp.ProtocolNumber, np, wq)
		must(err, "NewEndpoint tcp")
		if fam == 6 {
			must(lep.SetSockOpt(tcpip.V6OnlyOption(1)), "v6only tcp")
		}
		must(lep.Bind(tcpip.FullAddress{Port: tcpPort}, nil), "Bind tcp")
		must(lep.Listen(64), "Listen")
		go acceptLoop(out, fam, lep, wq)

		uq := &waiter.Queue{}
		uep, err := s.NewEndpoint(udp.ProtocolNumber, np, uq)
		must(err, "NewEndpoint udp")
		if fam == 6 {
			must(uep.SetSockOpt(tcpip.V6OnlyOption(1)), "v6only udp")
		}
		uep.SetSockOpt(tcpip.ReceiveBufferSizeOption(4 << 20))
		must(uep.Bind(tcpip.FullAddress{Port: udpPort}, nil), "Bind udp")
		go udpLoop(out, fam, uep, uq)
	}

	out.line("READY")

	in := bufio.NewReaderSize(os.Stdin, 1<<20)
	for {
		ln, err := in.ReadString('\n')
		if err != nil {
			os.Exit(0) // the parent closed the control pipe
		}
		f := strings.Fields(ln)
		if len(f) == 0 {
			continue
		}
		switch f[0] {
		case "I":
			if link == nil || len(f) < 3 {
				continue
			}
			proto, _ := strconv.Atoi(f[1])
			chunk, _ := strconv.Atoi(f[2])
			var pkt []byte
			if len(f) > 3 {
				pkt, _ = hex.DecodeString(f[3])
			}
			// exact capacities: every view handed to the stack has cap == len, as the views of
			// fdbased have after capViews; an over-read therefore panics instead of reading slack
			if chunk > 0 && chunk < len(pkt) {
				link.InjectFrom(tcpip.NetworkProtocolNumber(proto), tcpip.LinkAddress(peerMAC), tcpip.LinkAddress(stackMAC), pkt, chunk, len(pkt)-chunk)
			} else {
				link.InjectFrom(tcpip.NetworkProtocolNumber(proto), tcpip.LinkAddress(peerMAC), tcpip.LinkAddress(stackMAC), pkt, len(pkt))
			}
			out.line("%s", statLine(s))
		case "Q":
			out.line("%s", statLine(s))
		}
	}
}

func acceptLoop(out *childOut, fam int, lep tcpip.Endpoint, wq *waiter.Queue) {
	we, ch := waiter.NewChannelEntry(nil)
	wq.EventRegister(&we, waiter.EventIn)
	for {
		ep, q, err := lep.Accept()
		if err != nil {
			if err != tcpip.ErrWouldBlock {
				// not expected of a listening endpoint; report it and keep serving
				out.line("E accept %d %s", fam, strings.ReplaceAll(err.String(), " ", "_"))
				time.Sleep(time.Millisecond)
				continue
			}
			<-ch
			continue
		}
		out.line("A %d", fam)
		go echoConn(ep, q)
	}
}

func echoConn(ep tcpip.Endpoint, wq *waiter.Queue) {
	we, ch := waiter.NewChannelEntry(nil)
	wq.EventRegister(&we, waiter.EventIn|waiter.EventOut)
	defer func() {
		wq.EventUnregister(&we)
		ep.Close()
	}()
	for {
		v, _, err := ep.Read(nil)
		if err != nil {
			if err == tcpip.ErrWouldBlock {
				<-ch
				continue
			}
			return
		}
		data := append([]byte(nil), v...)
		for len(data) > 0 {
			n, _, err := ep.Write(tcpip.SlicePayload(data), tcpip.WriteOptions{})
			if err != nil && err != tcpip.ErrWouldBlock {
				return
			}
			data = data[n:]
			if len(data) > 0 {
				<-ch
			}
		}
	}
}

func udpLoop(out *childOut, fam int, ep tcpip.Endpoint, wq *waiter.Queue) {
	we, ch := waiter.NewChannelEntry(nil)
	wq.EventRegister(&we, waiter.EventIn)
	for {
		var from tcpip.FullAddress
		v, _, err := ep.Read(&from)
		if err != nil {
			// ErrWouldBlock, or the error left behind by an ICMP error message (udp.HandleControlPacket
			// sets it and never clears it: every later Read of an empty queue returns it): either way
			// there is nothing to read now; wait for the next notification
			<-ch
			continue
		}
		n := len(v)
		if n > 32 {
			n = 32
		}
		out.line("U %d %d %d %s", fam, from.Port, len(v), hex.EncodeToString(v[:n]))
		// echo it back; failures (no route, no link address yet, message too long) are the sender's problem
		ep.Write(tcpip.SlicePayload(buffer.View(append([]byte(nil), v...))), tcpip.WriteOptions{To: &from})
	}
}
