// Parent side of the child process: spawn, the control pipe, the wire (control pipe in netx mode,
// a socketpair in fd mode), and collection of exit status / panic trace.  Every interaction has a
// deadline; a child that does not answer is reported, never waited for.
package main

import (
	"bufio"
	"bytes"
	"encoding/binary"
	"encoding/hex"
	"fmt"
	"os"
	"os/exec"
	"regexp"
	"strconv"
	"strings"
	"sync"
	"syscall"
	"time"
)

const nStat = 11

// pkt is a network-layer packet seen on the wire (either direction).
type pkt struct {
	proto int
	b     []byte
}

type udpRep struct {
	fam, sport, n int
	head          []byte
}

type child struct {
	mode   string // "netx" or "fd"
	cmd    *exec.Cmd
	stdin  *os.File
	fd     int // parent's end of the socketpair (fd mode), -1 otherwise
	stderr bytes.Buffer

	rx    chan pkt // outbound packets of the stack
	stats chan [nStat]int64
	udp   chan udpRep
	ready chan struct{}
	done  chan struct{} // closed when the process has exited
	werr  error         // exit error (valid after done)

	mu       sync.Mutex
	accepted int
}

var selfExe string

func startChild(mode string) (*child, error) {
	c := &child{mode: mode, fd: -1, rx: make(chan pkt, 4096), stats: make(chan [nStat]int64, 16), udp: make(chan udpRep, 4096),
		ready: make(chan struct{}), done: make(chan struct{})}
	c.cmd = exec.Command(selfExe, "-child", mode)
	inR, inW, err := os.Pipe()
	if err != nil {
		return nil, err
	}
	outR, outW, err := os.Pipe()
	if err != nil {
		return nil, err
	}
	c.cmd.Stdin, c.cmd.Stdout, c.cmd.Stderr = inR, outW, &c.stderr
	var childEnd *os.File
	if mode == "fd" {
		fds, err := syscall.Socketpair(syscall.AF_UNIX, syscall.SOCK_DGRAM|syscall.SOCK_CLOEXEC, 0)
		if err != nil {
			return nil, err
		}
		c.fd = fds[0]
		childEnd = os.NewFile(uintptr(fds[1]), "wire")
		c.cmd.ExtraFiles = []*os.File{childEnd} // becomes fd 3 in the child
	}
	if err := c.cmd.Start(); err != nil {
		return nil, err
	}
	inR.Close()
	outW.Close()
	if childEnd != nil {
		childEnd.Close()
	}
	c.stdin = inW
	go c.readControl(outR)
	if mode == "fd" {
		go c.readWire()
	}
	go func() {
		c.werr = c.cmd.Wait()
		close(c.done)
	}()
	select {
	case <-c.ready:
		return c, nil
	case <-c.done:
		return nil, fmt.Errorf("child exited during setup: %v: %s", c.werr, c.stderr.String())
	case <-time.After(20 * time.Second):
		c.kill()
		return nil, fmt.Errorf("child not ready after 20 s")
	}
}

func (c *child) readControl(r *os.File) {
	defer r.Close()
	br := bufio.NewReaderSize(r, 1<<20)
	for {
		ln, err := br.ReadString('\n')
		if err != nil {
			return
		}
		f := strings.Fields(ln)
		if len(f) == 0 {
			continue
		}
		switch f[0] {
		case "READY":
			close(c.ready)
		case "O":
			if len(f) >= 2 {
				p, _ := strconv.Atoi(f[1])
				var b []byte
				if len(f) >= 3 {
					b, _ = hex.DecodeString(f[2])
				}
				select {
				case c.rx <- pkt{p, b}:
				default: // nobody is draining: drop, as a wire would
				}
			}
		case "S":
			var st [nStat]int64
			for i := 0; i < nStat && i+1 < len(f); i++ {
				st[i], _ = strconv.ParseInt(f[i+1], 10, 64)
			}
			select {
			case c.stats <- st:
			default:
			}
		case "U":
			if len(f) >= 4 {
				var u udpRep
				u.fam, _ = strconv.Atoi(f[1])
				u.sport, _ = strconv.Atoi(f[2])
				u.n, _ = strconv.Atoi(f[3])
				if len(f) >= 5 {
					u.head, _ = hex.DecodeString(f[4])
				}
				select {
				case c.udp <- u:
				default:
				}
			}
		case "A":
			c.mu.Lock()
			c.accepted++
			c.mu.Unlock()
		}
	}
}

// readWire: fd mode, frames written by the stack's fdbased endpoint (Ethernet framing).
func (c *child) readWire() {
	buf := make([]byte, 70000)
	for {
		n, err := syscall.Read(c.fd, buf)
		if err != nil {
			if err == syscall.EINTR {
				continue
			}
			return
		}
		if n < 14 {
			continue
		}
		p := pkt{int(binary.BigEndian.Uint16(buf[12:14])), append([]byte(nil), buf[14:n]...)}
		select {
		case c.rx <- p:
		default:
		}
	}
}

// sendRaw writes one frame on the socketpair (fd mode); false if it could not be written in time.
func (c *child) sendRaw(frame []byte, d time.Duration) bool {
	dl := time.Now().Add(d)
	for {
		var err error
		if len(frame) == 0 {
			err = syscall.Sendto(c.fd, nil, syscall.MSG_DONTWAIT, nil)
		} else {
			err = syscall.Sendto(c.fd, frame, syscall.MSG_DONTWAIT, nil)
		}
		if err == nil {
			return true
		}
		if err != syscall.EAGAIN && err != syscall.EINTR && err != syscall.ENOBUFS {
			return false
		}
		if time.Now().After(dl) {
			return false
		}
		time.Sleep(200 * time.Microsecond)
	}
}

func ethFrame(proto int, p []byte) []byte {
	b := make([]byte, 14+len(p))
	copy(b[0:6], stackMAC)
	copy(b[6:12], peerMAC)
	binary.BigEndian.PutUint16(b[12:], uint16(proto))
	copy(b[14:], p)
	return b
}

func (c *child) alive() bool {
	select {
	case <-c.done:
		return false
	default:
		return true
	}
}

// command writes a control line; false when the pipe is broken or the write does not finish in time.
func (c *child) command(line string, d time.Duration) bool {
	c.stdin.SetWriteDeadline(time.Now().Add(d))
	_, err := c.stdin.WriteString(line + "\n")
	return err == nil
}

// getStats: drain stale answers, ask, wait.
func (c *child) waitStats(d time.Duration) ([nStat]int64, bool) {
	select {
	case st := <-c.stats:
		return st, true
	case <-c.done:
		// the answer may have been written before the exit
		select {
		case st := <-c.stats:
			return st, true
		default:
		}
		return [nStat]int64{}, false
	case <-time.After(d):
		return [nStat]int64{}, false
	}
}

func (c *child) query(d time.Duration) ([nStat]int64, bool) {
	for len(c.stats) > 0 {
		<-c.stats
	}
	if !c.command("Q", d) {
		return [nStat]int64{}, false
	}
	return c.waitStats(d)
}

func (c *child) kill() {
	if c.cmd.Process != nil {
		c.cmd.Process.Kill()
	}
	select {
	case <-c.done:
	case <-time.After(5 * time.Second):
	}
	c.stdin.Close()
	if c.fd >= 0 {
		syscall.Shutdown(c.fd, syscall.SHUT_RDWR)
		syscall.Close(c.fd)
		c.fd = -1
	}
}

var reSan = regexp.MustCompile(`[^A-Za-z0-9 .,:;/_=()\[\]<>+*-]`)

// frameOf returns "pkg.Func at dir/file.go:LINE" for the first stack frame at or after line i that
// lies in the repo under test.
func frameOf(lines []string, i int) string {
	for ; i+1 < len(lines); i++ {
		l := lines[i]
		if !strings.HasPrefix(l, "github.com/brewlin/net-protocol/") || !strings.HasPrefix(lines[i+1], "\t") {
			continue
		}
		fn := strings.TrimPrefix(l, "github.com/brewlin/net-protocol/")
		if j := strings.LastIndex(fn, "("); j > 0 {
			fn = fn[:j]
		}
		loc := strings.TrimSpace(lines[i+1])
		if k := strings.Index(loc, " "); k > 0 {
			loc = loc[:k]
		}
		parts := strings.Split(loc, "/")
		if len(parts) > 3 {
			loc = strings.Join(parts[len(parts)-3:], "/")
		}
		return fn + " at " + loc
	}
	return ""
}

func clip(s string) string {
	s = reSan.ReplaceAllString(s, "?")
	if len(s) > 300 {
		s = s[:300]
	}
	return s
}

// exitInfo: (exit code, one-line description of why the child died) once it has exited.
func (c *child) exitInfo() (int, string) {
	code := -1
	if ee, ok := c.werr.(*exec.ExitError); ok {
		code = ee.ExitCode()
	} else if c.werr == nil {
		code = 0
	}
	txt := c.stderr.String()
	lines := strings.Split(txt, "\n")
	first := ""
	at := 0
	for i, l := range lines {
		if strings.HasPrefix(l, "panic:") || strings.HasPrefix(l, "fatal error:") {
			first, at = strings.TrimSpace(l), i
			break
		}
	}
	if first == "" {
		first = strings.TrimSpace(lines[0])
	}
	if w := frameOf(lines, at); w != "" {
		first += " in " + w
	}
	return code, clip(first)
}

// stacks asks a child that is alive but not serving for its goroutine dump (SIGQUIT) and
// summarises where goroutines of the stack under test are blocked on a lock.
func (c *child) stacks() string {
	if !c.alive() || c.cmd.Process == nil {
		return ""
	}
	c.cmd.Process.Signal(syscall.SIGQUIT)
	select {
	case <-c.done:
	case <-time.After(3 * time.Second):
		return ""
	}
	lines := strings.Split(c.stderr.String(), "\n")
	var out []string
	seen := map[string]bool{}
	for i, l := range lines {
		if !strings.HasPrefix(l, "goroutine ") {
			continue
		}
		if !(strings.Contains(l, "semacquire") || strings.Contains(l, "sync.Mutex") || strings.Contains(l, "sync.RWMutex")) {
			continue
		}
		if w := frameOf(lines, i); w != "" && !seen[w] {
			seen[w] = true
			out = append(out, w)
		}
		if len(out) >= 3 {
			break
		}
	}
	if len(out) == 0 {
		return ""
	}
	return "goroutines blocked on a lock in " + strings.Join(out, "; ")
}
