// Barrage generators.  Every random choice derives from aaverif/internal/gen (seeded), so a
// (seed, n) pair replays exactly.  Families:
//
//	regress  minimised crashers found earlier (always run first)
//	trunc    a valid frame cut at every byte (as is / with the IP length fields adjusted to the cut)
//	field    a valid frame with ONE header field (every length / offset / flag / port / address /
//	         type field of ARP, IPv4, IPv6, ICMPv4/v6, UDP, TCP) set to a boundary value
//	tcpopt   TCP option areas with bad kinds / lengths (SYN to the listener, segments to the
//	         established connection, segments to a port nobody listens on)
//	frag     small-scope IPv4 fragment sequences: <= 3 fragments, offsets {0,8,16,65528},
//	         lengths {0,1,8,9}, MF both, same / different ids (the quick tier samples, the thorough
//	         tier enumerates all of them)
//	icmp     ICMP errors (v4 / v6) embedding headers of the stack's own sockets, mutated
//	state    valid-looking TCP traffic at the listener and the established connection: every flag
//	         combination, in / out of window, overlapping data, SYN floods, resets
//	noise    random bytes; on the fdbased link also runt frames of 0..20 bytes and random ethertypes
//	soak     one long barrage mixing all of the above
package main

import (
	"encoding/binary"
	"fmt"

	"aaverif/internal/gen"
	"aaverif/internal/netx"
)

type field struct {
	name   string
	off, w int
}

type tmpl struct {
	name   string
	proto  int
	b      []byte
	patch  []patch
	fields []field
	l3     int // length of the network header (0 for ARP)
}

func (t tmpl) frame() frame {
	return frame{proto: t.proto, b: append([]byte(nil), t.b...), patch: t.patch}
}

var otherMAC = []byte{0x02, 0, 0, 0, 0, 0x09}

func ip4Fields() []field {
	return []field{{"ip.vihl", 0, 1}, {"ip.tos", 1, 1}, {"ip.totlen", 2, 2}, {"ip.id", 4, 2}, {"ip.fragoff", 6, 2}, {"ip.ttl", 8, 1},
		{"ip.proto", 9, 1}, {"ip.csum", 10, 2}, {"ip.src", 12, 4}, {"ip.dst", 16, 4}}
}
func ip6Fields() []field {
	return []field{{"ip6.vtf", 0, 4}, {"ip6.plen", 4, 2}, {"ip6.next", 6, 1}, {"ip6.hop", 7, 1}, {"ip6.src", 8, 16}, {"ip6.dst", 24, 16}}
}
func tcpFields(o int) []field {
	return []field{{"tcp.sport", o, 2}, {"tcp.dport", o + 2, 2}, {"tcp.seq", o + 4, 4}, {"tcp.ack", o + 8, 4}, {"tcp.doff", o + 12, 1},
		{"tcp.flags", o + 13, 1}, {"tcp.wnd", o + 14, 2}, {"tcp.csum", o + 16, 2}, {"tcp.urg", o + 18, 2}}
}
func udpFields(o int) []field {
	return []field{{"udp.sport", o, 2}, {"udp.dport", o + 2, 2}, {"udp.len", o + 4, 2}, {"udp.csum", o + 6, 2}}
}
func icmpFields(o int) []field {
	return []field{{"icmp.type", o, 1}, {"icmp.code", o + 1, 1}, {"icmp.csum", o + 2, 2}, {"icmp.rest", o + 4, 4}}
}

func cat(a ...[]field) []field {
	var r []field
	for _, x := range a {
		r = append(r, x...)
	}
	return r
}

func shift(fs []field, by int, prefix string) []field {
	r := make([]field, len(fs))
	for i, f := range fs {
		r[i] = field{prefix + f.name, f.off + by, f.w}
	}
	return r
}

// segment of the established connection; seq / ack are relative (patched at send time)
func estSeg(flags byte, relSeq, relAck uint32, opts, payload []byte) tmpl {
	t := netx.TCPSeg{SrcPort: estPeerPort, DstPort: tcpPort, Seq: relSeq, Ack: relAck, Flags: flags, Wnd: 65535, Opts: opts, Payload: payload}
	b := tcp4(t)
	return tmpl{proto: protoIPv4, b: b, patch: []patch{{24, 1}, {28, 2}}, l3: 20, fields: cat(ip4Fields(), tcpFields(20))}
}

func embedded4(proto byte, l4 []byte) []byte {
	// the beginning of a packet the stack would have sent: stack -> peer
	return netx.IPv4Packet(stack4, peer4, proto, 7, 0, 64, l4)
}

func templates() []tmpl {
	var ts []tmpl
	add := func(name string, t tmpl) {
		t.name = name
		ts = append(ts, t)
	}
	arpF := []field{{"arp.htype", 0, 2}, {"arp.ptype", 2, 2}, {"arp.hlen", 4, 1}, {"arp.plen", 5, 1}, {"arp.op", 6, 2}, {"arp.sha", 8, 6}, {"arp.spa", 14, 4}, {"arp.tha", 18, 6}, {"arp.tpa", 24, 4}}
	add("arp-req", tmpl{proto: protoARP, b: arpPacket(1, peerMAC, peer4, make([]byte, 6), stack4), fields: arpF})
	add("arp-rep", tmpl{proto: protoARP, b: arpPacket(2, otherMAC, []byte{10, 0, 0, 9}, stackMAC, stack4), fields: arpF})

	payload16 := []byte("0123456789abcdef")
	add("icmp4-echo", tmpl{proto: protoIPv4, b: ip4(1, icmp4Echo(8, 0x77, 1, payload16)), l3: 20, fields: cat(ip4Fields(), icmpFields(20))})
	add("icmp4-echorep", tmpl{proto: protoIPv4, b: ip4(1, icmp4Echo(0, 0x77, 1, payload16)), l3: 20, fields: cat(ip4Fields(), icmpFields(20))})
	// destination unreachable / port unreachable about a datagram of the bound UDP socket
	embU := embedded4(17, netx.UDPBytes(stack4, peer4, udpPort, 40000, []byte("xxxx"), -1))
	un := append([]byte{3, 3, 0, 0, 0, 0, 0, 0}, embU...)
	binary.BigEndian.PutUint16(un[2:], ^netx.Sum16(un, 0))
	add("icmp4-unreach-udp", tmpl{proto: protoIPv4, b: ip4(1, un), l3: 20, fields: cat(ip4Fields(), icmpFields(20), shift(ip4Fields(), 28, "emb."), shift(udpFields(48), 0, "emb."))})
	// fragmentation needed about a segment of the established connection
	embT := embedded4(6, netx.TCPBytes(stack4, peer4, netx.TCPSeg{SrcPort: tcpPort, DstPort: estPeerPort, Seq: 1, Ack: 1, Flags: netx.FlagAck, Wnd: 1000})[:8])
	fn := append([]byte{3, 4, 0, 0, 0, 0, 2, 64}, embT...)
	binary.BigEndian.PutUint16(fn[2:], ^netx.Sum16(fn, 0))
	add("icmp4-fragneeded-tcp", tmpl{proto: protoIPv4, b: ip4(1, fn), l3: 20, fields: cat(ip4Fields(), icmpFields(20), []field{{"icmp.mtu", 26, 2}}, shift(ip4Fields(), 28, "emb."), shift(tcpFields(48)[:3], 0, "emb."))})
	te := append([]byte{11, 0, 0, 0, 0, 0, 0, 0}, embU...)
	add("icmp4-timeexceeded", tmpl{proto: protoIPv4, b: ip4(1, te), l3: 20, fields: cat(ip4Fields(), icmpFields(20))})

	add("udp4-bound", tmpl{proto: protoIPv4, b: ip4(17, netx.UDPBytes(peer4, stack4, 7777, udpPort, []byte("twelve bytes"), -1)), l3: 20, fields: cat(ip4Fields(), udpFields(20))})
	add("udp4-unbound", tmpl{proto: protoIPv4, b: ip4(17, netx.UDPBytes(peer4, stack4, 7777, 9, []byte("discard"), -1)), l3: 20, fields: cat(ip4Fields(), udpFields(20))})
	big := make([]byte, 300)
	for i := range big {
		big[i] = byte(i)
	}
	add("udp4-big", tmpl{proto: protoIPv4, b: ip4(17, netx.UDPBytes(peer4, stack4, 7777, udpPort, big, -1)), l3: 20, fields: cat(ip4Fields(), udpFields(20))})
	// IPv4 header with options (IHL 8)
	{
		u := netx.UDPBytes(peer4, stack4, 7777, udpPort, []byte("opts"), -1)
		b := netx.IPv4Packet(peer4, stack4, 17, 9, 0, 64, append(make([]byte, 12), u...))
		b[0] = 0x48
		copy(b[20:32], []byte{7, 11, 4, 0, 0, 0, 0, 0, 0, 0, 0, 0})
		add("udp4-ipopts", tmpl{proto: protoIPv4, b: b, l3: 32, fields: cat(ip4Fields(), []field{{"ipopt.kind", 20, 1}, {"ipopt.len", 21, 1}, {"ipopt.ptr", 22, 1}}, udpFields(32))})
	}
	add("ip4-proto99", tmpl{proto: protoIPv4, b: ip4(99, []byte("some unknown transport")), l3: 20, fields: ip4Fields()})
	add("ip4-otherdst", tmpl{proto: protoIPv4, b: netx.IPv4Packet(peer4, []byte{10, 0, 0, 9}, 17, 1, 0, 64, netx.UDPBytes(peer4, []byte{10, 0, 0, 9}, 1, udpPort, []byte("x"), -1)), l3: 20, fields: ip4Fields()})

	synOpts := []byte{2, 4, 5, 0xb4, 4, 2, 8, 10, 0, 0, 0, 9, 0, 0, 0, 0, 1, 3, 3, 7}
	add("tcp4-syn", tmpl{proto: protoIPv4, b: tcp4(netx.TCPSeg{SrcPort: 5555, DstPort: tcpPort, Seq: 0x01020304, Flags: netx.FlagSyn, Wnd: 29200, Opts: synOpts}), l3: 20, fields: cat(ip4Fields(), tcpFields(20))})
	add("tcp4-ack-listener", tmpl{proto: protoIPv4, b: tcp4(netx.TCPSeg{SrcPort: 5556, DstPort: tcpPort, Seq: 0x01020305, Ack: 0x0a0b0c0d, Flags: netx.FlagAck, Wnd: 29200}), l3: 20, fields: cat(ip4Fields(), tcpFields(20))})
	add("tcp4-syn-closed", tmpl{proto: protoIPv4, b: tcp4(netx.TCPSeg{SrcPort: 5557, DstPort: 81, Seq: 7, Flags: netx.FlagSyn, Wnd: 1000, Opts: []byte{2, 4, 5, 0xb4}}), l3: 20, fields: cat(ip4Fields(), tcpFields(20))})
	t := estSeg(netx.FlagAck|netx.FlagPsh, 0, 0, tsOpt(10, 1), []byte("data-in-window"))
	add("tcp4-est-data", t)
	t = estSeg(netx.FlagAck, 0, 0, append(tsOpt(11, 1), 1, 1, 5, 10, 0, 0, 0, 100, 0, 0, 0, 200), nil)
	t.patch = append(t.patch, patch{20 + 20 + 12 + 4, 2}, patch{20 + 20 + 12 + 8, 2})
	add("tcp4-est-sack", t)
	add("tcp4-est-fin", estSeg(netx.FlagAck|netx.FlagFin, 0, 0, tsOpt(12, 1), nil))
	add("tcp4-est-rst-far", estSeg(netx.FlagRst, 0x40000000, 0, nil, nil))

	add("icmp6-echo", tmpl{proto: protoIPv6, b: ip6(58, icmp6Echo(128, 0x66, 1, payload16)), l3: 40, fields: cat(ip6Fields(), icmpFields(40))})
	add("icmp6-echorep", tmpl{proto: protoIPv6, b: ip6(58, icmp6Echo(129, 0x66, 1, payload16)), l3: 40, fields: cat(ip6Fields(), icmpFields(40))})
	ns := make([]byte, 28)
	copy(ns[4:20], stack6)
	ns[20], ns[21] = 1, 1
	copy(ns[22:28], peerMAC)
	add("icmp6-ns", tmpl{proto: protoIPv6, b: ip6(58, icmp6(135, 0, ns)), l3: 40, fields: cat(ip6Fields(), icmpFields(40), []field{{"ns.target", 48, 16}, {"ns.opt", 64, 1}, {"ns.optlen", 65, 1}})})
	na := make([]byte, 28)
	na[0] = 0x60
	copy(na[4:20], []byte{0xfd, 0, 0, 0, 0, 0, 0, 0, 0, 0, 0, 0, 0, 0, 0, 9})
	na[20], na[21] = 2, 1
	copy(na[22:28], otherMAC)
	add("icmp6-na", tmpl{proto: protoIPv6, b: ip6(58, icmp6(136, 0, na)), l3: 40, fields: cat(ip6Fields(), icmpFields(40), []field{{"na.target", 48, 16}})})
	emb6 := netx.IPv6Packet(stack6, peer6, 17, 64, netx.UDPBytes(stack6, peer6, udpPort, 40000, []byte("yyyy"), -1))
	add("icmp6-toobig", tmpl{proto: protoIPv6, b: ip6(58, icmp6(2, 0, append([]byte{0, 0, 5, 0}, emb6...))), l3: 40,
		fields: cat(ip6Fields(), icmpFields(40), shift(ip6Fields(), 48, "emb."), shift(udpFields(88), 0, "emb."))})
	add("icmp6-unreach", tmpl{proto: protoIPv6, b: ip6(58, icmp6(1, 4, append([]byte{0, 0, 0, 0}, emb6...))), l3: 40,
		fields: cat(ip6Fields(), icmpFields(40), shift(ip6Fields(), 48, "emb."))})
	// packet too big about a fragmented packet (fragment header between IPv6 and UDP)
	{
		fh := []byte{17, 0, 0, 0, 0, 0, 0, 1}
		e := netx.IPv6Packet(stack6, peer6, 44, 64, append(fh, netx.UDPBytes(stack6, peer6, udpPort, 40000, []byte("zz"), -1)...))
		add("icmp6-toobig-frag", tmpl{proto: protoIPv6, b: ip6(58, icmp6(2, 0, append([]byte{0, 0, 5, 0}, e...))), l3: 40,
			fields: cat(ip6Fields(), icmpFields(40), []field{{"emb.next", 54, 1}, {"emb.frag.next", 88, 1}, {"emb.frag.off", 90, 2}})})
	}
	add("udp6-bound", tmpl{proto: protoIPv6, b: ip6(17, netx.UDPBytes(peer6, stack6, 7777, udpPort, []byte("six bytes!"), -1)), l3: 40, fields: cat(ip6Fields(), udpFields(40))})
	add("udp6-unbound", tmpl{proto: protoIPv6, b: ip6(17, netx.UDPBytes(peer6, stack6, 7777, 9, []byte("discard"), -1)), l3: 40, fields: cat(ip6Fields(), udpFields(40))})
	add("tcp6-syn", tmpl{proto: protoIPv6, b: ip6(6, netx.TCPBytes(peer6, stack6, netx.TCPSeg{SrcPort: 6666, DstPort: tcpPort, Seq: 0x0a000000, Flags: netx.FlagSyn, Wnd: 29200, Opts: synOpts})), l3: 40, fields: cat(ip6Fields(), tcpFields(40))})
	add("ip6-fraghdr", tmpl{proto: protoIPv6, b: ip6(44, append([]byte{17, 0, 0, 1, 0, 0, 0, 5}, netx.UDPBytes(peer6, stack6, 7777, udpPort, []byte("frag"), -1)...)), l3: 40, fields: ip6Fields()})
	return ts
}

// ------------------------------------------------------------------ boundary values

func bounds(f field, t tmpl) [][]byte {
	L := len(t.b)
	var out [][]byte
	put := func(v uint64) {
		b := make([]byte, f.w)
		for i := f.w - 1; i >= 0; i-- {
			b[i] = byte(v)
			v >>= 8
		}
		out = append(out, b)
	}
	switch f.w {
	case 1:
		for _, v := range []uint64{0, 1, 2, 3, 4, 5, 6, 7, 8, 9, 10, 11, 12, 15, 16, 17, 31, 32, 33, 41, 43, 44, 47, 50, 58, 59, 60, 63, 64, 65, 68, 69, 70, 79, 80, 81, 85, 95, 96, 101, 111, 112, 127,
			128, 129, 135, 136, 160, 175, 176, 192, 224, 240, 245, 254, 255} {
			put(v)
		}
	case 2:
		vs := []uint64{0, 1, 2, 3, 4, 7, 8, 9, 19, 20, 21, 27, 28, 29, 39, 40, 41, 47, 48, 59, 60, 61, 67, 68, 255, 256, 1280, 1500, 0x1fff, 0x2000, 0x2001, 0x2002, 0x3fff, 0x4000, 0x4001, 0x5fff, 0x6000,
			0x7fff, 0x8000, 0x8001, 0xfff7, 0xfff8, 0xfffe, 0xffff}
		for _, d := range []int{-41, -40, -21, -20, -9, -8, -1, 0, 1, 8} {
			if L+d >= 0 {
				vs = append(vs, uint64(L+d))
			}
			if L-t.l3+d >= 0 {
				vs = append(vs, uint64(L-t.l3+d))
			}
		}
		for _, v := range vs {
			put(v)
		}
	case 4:
		cur := uint64(binary.BigEndian.Uint32(t.b[f.off:]))
		for _, v := range []uint64{0, 1, 0x7fffffff, 0x80000000, 0x80000001, 0xfffffffe, 0xffffffff, 39, 40, 41, 1279, 1280, 65535, 65536} {
			put(v)
		}
		for _, d := range []uint64{1, 0xffffffff, 14, 65535, 65536, 1 << 30, 1 << 31} {
			put((cur + d) & 0xffffffff)
		}
		if f.w == 4 && (f.name == "ip.src" || f.name == "ip.dst" || f.name == "emb.ip.src" || f.name == "emb.ip.dst") {
			out = append(out, stack4, peer4, []byte{255, 255, 255, 255}, []byte{224, 0, 0, 1}, []byte{127, 0, 0, 1}, []byte{10, 0, 0, 255})
		}
	default: // addresses
		out = append(out, make([]byte, f.w))
		ff := make([]byte, f.w)
		for i := range ff {
			ff[i] = 0xff
		}
		out = append(out, ff)
		if f.w == 16 {
			out = append(out, stack6, peer6, append([]byte{0xff, 0x02}, append(make([]byte, 13), 1)...),
				append([]byte{0xff, 0x02, 0, 0, 0, 0, 0, 0, 0, 0, 0, 1, 0xff, 0, 0}, 1), append(make([]byte, 15), 1),
				append(append(make([]byte, 10), 0xff, 0xff), stack4...))
		}
		if f.w == 6 {
			out = append(out, stackMAC, peerMAC)
		}
	}
	return out
}

func setField(t tmpl, f field, v []byte) frame {
	fr := t.frame()
	if f.off+len(v) <= len(fr.b) {
		copy(fr.b[f.off:], v)
	}
	// a patched (relative) field that is overwritten keeps the absolute value
	var ps []patch
	for _, p := range fr.patch {
		if p.off+4 <= f.off || p.off >= f.off+f.w {
			ps = append(ps, p)
		}
	}
	fr.patch = ps
	return fr
}

// ------------------------------------------------------------------ pools

type item struct {
	label string
	f     frame
}

func fieldPool(ts []tmpl) []item {
	var pool []item
	for _, t := range ts {
		for _, f := range t.fields {
			if f.off+f.w > len(t.b) {
				continue
			}
			for _, v := range bounds(f, t) {
				pool = append(pool, item{t.name + "/" + f.name, setField(t, f, v)})
			}
		}
	}
	return pool
}

// truncPool: every template cut at every length; fix = the IP length fields follow the cut, so
// that the network layer accepts the packet and the cut lands in the next layer.
func truncPool(ts []tmpl, fix bool) []item {
	var pool []item
	for _, t := range ts {
		for k := 0; k < len(t.b); k++ {
			fr := t.frame()
			fr.b = fr.b[:k]
			if fix {
				switch {
				case t.proto == protoIPv4 && k >= t.l3:
					binary.BigEndian.PutUint16(fr.b[2:], uint16(k))
				case t.proto == protoIPv6 && k >= 40:
					binary.BigEndian.PutUint16(fr.b[4:], uint16(k-40))
				default:
					continue
				}
			}
			var ps []patch
			for _, p := range fr.patch {
				if p.off+4 <= k {
					ps = append(ps, p)
				}
			}
			fr.patch = ps
			lab := "trunc"
			if fix {
				lab = "truncfix"
			}
			pool = append(pool, item{fmt.Sprintf("%s/%s@%d", t.name, lab, k), fr})
		}
	}
	return pool
}

// tcpoptPool: option areas of 0..40 bytes in which one option has a bad kind / length / position.
func tcpoptPool() (core []item, rest []item) {
	var areas, coreAreas [][]byte
	kinds := []byte{0, 1, 2, 3, 4, 5, 8, 9, 30, 254, 255}
	lens := []byte{0, 1, 2, 3, 4, 5, 9, 10, 11, 12, 17, 18, 19, 26, 34, 35, 40, 41, 127, 128, 255}
	for _, k := range kinds {
		for _, l := range lens {
			for _, size := range []int{4, 8, 12, 20, 36, 40} {
				for _, atEnd := range []bool{false, true} {
					a := make([]byte, size)
					for i := range a {
						a[i] = 1
					}
					pos := 0
					if atEnd {
						pos = size - 2
						if k == 5 || k == 8 {
							pos = size - 3
						}
					}
					a[pos] = k
					if pos+1 < size {
						a[pos+1] = l
					}
					for i := pos + 2; i < size && i < pos+2+int(l); i++ {
						a[i] = byte(0x80 + i)
					}
					areas = append(areas, a)
				}
			}
		}
	}
	// every fixed-size option one byte at a time past the end of the area: the option starts at
	// size-n+d, so d of its n bytes are missing (d = 0: it fits exactly).  d in {0, 1, n-1} on
	// areas of 12 and 40 bytes is the core that every run covers.
	for _, kn := range [][2]int{{2, 4}, {3, 3}, {4, 2}, {8, 10}, {5, 10}, {5, 18}, {5, 34}, {30, 6}} {
		k, n := kn[0], kn[1]
		for _, size := range []int{12, 20, 40} {
			for d := 0; d < n; d++ {
				pos := size - n + d
				if pos < 0 {
					continue
				}
				a := make([]byte, size)
				for i := range a {
					a[i] = 1
				}
				a[pos] = byte(k)
				if pos+1 < size {
					a[pos+1] = byte(n)
				}
				for i := pos + 2; i < size; i++ {
					a[i] = byte(0x40 + i)
				}
				if size != 20 && (d <= 1 || d == n-1) {
					coreAreas = append(coreAreas, a)
				} else {
					areas = append(areas, a)
				}
			}
		}
	}
	// well-formed ones next to the boundary: MSS 0, window scale 15 / 255, SACK with 1..4 blocks, TS + SACK filling 40 bytes
	// (part of the core: every run sends each of them on a SYN, on the established connection and on a bare ACK)
	boundary := append([][]byte{}, []byte{2, 4, 0, 0}, []byte{3, 3, 15, 1}, []byte{3, 3, 255, 0}, []byte{2, 4, 255, 255, 3, 3, 14, 4, 2, 0, 0},
		append([]byte{1, 1, 5, 10}, make([]byte, 8)...), append([]byte{1, 1, 5, 18}, make([]byte, 16)...), append([]byte{1, 1, 5, 26}, make([]byte, 24)...),
		append([]byte{1, 1, 5, 34}, make([]byte, 32)...), append(append(tsOpt(1, 2), 1, 1, 5, 26), make([]byte, 24)...), append([]byte{5, 34}, make([]byte, 38)...),
		append([]byte{5, 42}, make([]byte, 38)...), append([]byte{5, 3}, make([]byte, 2)...), []byte{8, 10, 0, 0, 0, 1, 0, 0}, []byte{4, 2, 4, 2, 4, 2, 0, 0})
	n := 0
	mk := func(a []byte) []item {
		for len(a)%4 != 0 {
			a = append(a, 1)
		}
		if len(a) > 40 {
			a = a[:40]
		}
		n++
		sp := uint16(20000 + n%5000)
		est := estSeg(netx.FlagAck, 0, 0, a, nil)
		return []item{
			// a SYN at the listener: header.ParseSynOptions(opts, false) in the listener goroutine
			{"tcpopt/syn", frame{proto: protoIPv4, b: tcp4(netx.TCPSeg{SrcPort: sp, DstPort: tcpPort, Seq: uint32(n), Flags: netx.FlagSyn, Wnd: 1000, Opts: a})}},
			// a segment of the established connection: header.ParseTCPOptions in segment.parse
			{"tcpopt/est", est.frame()},
			// a bare ACK at the listener (cookie path) / SYN|ACK (the isAck branch of the SYN parser)
			{"tcpopt/ack", frame{proto: protoIPv4, b: tcp4(netx.TCPSeg{SrcPort: sp, DstPort: tcpPort, Seq: uint32(n), Ack: 1, Flags: netx.FlagAck | byte(n%2)*netx.FlagSyn, Wnd: 1000, Opts: a})}},
			// a port nobody listens on: parsed by HandleUnknownDestinationPacket
			{"tcpopt/closed", frame{proto: protoIPv4, b: tcp4(netx.TCPSeg{SrcPort: 5560, DstPort: 81, Seq: 1, Ack: 1, Flags: netx.FlagAck, Wnd: 1000, Opts: a})}},
		}
	}
	// the well-formed boundary values first: the core is cut off when a run is short of barrages
	for _, a := range boundary {
		core = append(core, mk(a)[:3]...)
	}
	for _, a := range coreAreas {
		core = append(core, mk(a)[:3]...)
	}
	for _, a := range areas {
		rest = append(rest, mk(a)...)
	}
	return core, rest
}

// icmpPool: ICMP errors whose embedded headers are mutated in the ways the control path looks at.
func icmpPool(ts []tmpl) []item {
	var pool []item
	byName := map[string]tmpl{}
	for _, t := range ts {
		byName[t.name] = t
	}
	for _, name := range []string{"icmp4-unreach-udp", "icmp4-fragneeded-tcp"} {
		t := byName[name]
		for ihl := 0; ihl < 16; ihl++ { // embedded IHL
			fr := t.frame()
			fr.b[28] = byte(0x40 | ihl)
			pool = append(pool, item{name + "/emb.ihl", fr})
		}
		for _, code := range []byte{0, 1, 2, 3, 4, 5, 13, 255} {
			for _, mtu := range []uint16{0, 1, 19, 20, 21, 40, 41, 60, 61, 67, 68, 576, 1500, 65535} {
				fr := t.frame()
				fr.b[21] = code
				binary.BigEndian.PutUint16(fr.b[26:], mtu)
				pool = append(pool, item{name + "/code-mtu", fr})
			}
		}
		for _, off := range []uint16{0, 1, 0x1fff, 0x2000, 0x2001, 0x4000} { // embedded fragment offset
			fr := t.frame()
			binary.BigEndian.PutUint16(fr.b[34:], off)
			pool = append(pool, item{name + "/emb.fragoff", fr})
		}
		for k := 28; k <= len(t.b); k++ { // the ICMP payload cut everywhere, outer length following
			fr := t.frame()
			fr.b = fr.b[:k]
			binary.BigEndian.PutUint16(fr.b[2:], uint16(k))
			pool = append(pool, item{name + "/cut", fr})
		}
	}
	for _, name := range []string{"icmp6-toobig", "icmp6-unreach", "icmp6-toobig-frag"} {
		t := byName[name]
		for _, mtu := range []uint32{0, 1, 39, 40, 41, 1279, 1280, 1281, 65535, 65536, 0x7fffffff, 0x80000000, 0xffffffff} {
			fr := t.frame()
			binary.BigEndian.PutUint32(fr.b[44:], mtu)
			pool = append(pool, item{name + "/mtu", fr})
		}
		for _, nh := range []byte{0, 6, 17, 43, 44, 58, 59, 60, 255} {
			fr := t.frame()
			fr.b[54] = nh
			pool = append(pool, item{name + "/emb.next", fr})
		}
		for k := 44; k <= len(t.b); k++ {
			fr := t.frame()
			fr.b = fr.b[:k]
			binary.BigEndian.PutUint16(fr.b[4:], uint16(k-40))
			pool = append(pool, item{name + "/cut", fr})
		}
	}
	return pool
}

// ------------------------------------------------------------------ fragments

type fragShape struct {
	off  int // byte offset (multiple of 8)
	n    int
	more bool
}

var fragOffs = []int{0, 8, 16, 65528}
var fragLens = []int{0, 1, 8, 9}

func fragShapes() []fragShape {
	var s []fragShape
	for _, o := range fragOffs {
		for _, n := range fragLens {
			for _, m := range []bool{false, true} {
				s = append(s, fragShape{o, n, m})
			}
		}
	}
	return s
}

// fragFrame: one IPv4 fragment.  The bytes of the (virtual) datagram at offset 0 are a UDP header
// to the bound port with length field 8, so a reassembled datagram of >= 8 bytes is delivered.
func fragFrame(id uint16, proto byte, sh fragShape) frame {
	pl := make([]byte, sh.n)
	for i := range pl {
		pl[i] = byte(sh.off + i)
	}
	if sh.off == 0 {
		hdr := []byte{0x1e, 0x61, 0, udpPort, 0, 8, 0, 0, 0xaa}
		if proto == 1 {
			hdr = []byte{8, 0, 0, 0, 0, 1, 0, 1, 0xaa}
		}
		copy(pl, hdr)
	}
	ff := uint16(sh.off / 8)
	if sh.more {
		ff |= 0x2000
	}
	return frame{proto: protoIPv4, b: netx.IPv4Packet(peer4, stack4, proto, id, ff, 64, pl)}
}

// fragSeq decodes sequence number k of the enumeration: all sequences of 1, 2, 3 shapes; variant
// 0 = all fragments share the id, variant v > 0 = fragment (v-1) mod len carries another id.
func fragSeqCount() int { return 32 + 32*32 + 32*32*32 }

func fragSeq(k int, variant int, id uint16, proto byte) []frame {
	sh := fragShapes()
	var idx []int
	switch {
	case k < 32:
		idx = []int{k}
	case k < 32+1024:
		k -= 32
		idx = []int{k / 32, k % 32}
	default:
		k -= 32 + 1024
		idx = []int{k / 1024, (k / 32) % 32, k % 32}
	}
	var fs []frame
	for j, i := range idx {
		fid := id
		if variant > 0 && (variant-1)%len(idx) == j {
			fid = id + 0x4000
		}
		fs = append(fs, fragFrame(fid, proto, sh[i]))
	}
	return fs
}

// ------------------------------------------------------------------ stateful TCP traffic

func statePool(r *gen.Rng) []item {
	var pool []item
	// every flag combination at the listener, the established connection (in window) and a closed port
	for fl := 0; fl < 256; fl++ {
		if fl >= 64 && fl%17 != 0 {
			continue
		}
		pool = append(pool, item{"state/flags-listener", frame{proto: protoIPv4, b: tcp4(netx.TCPSeg{SrcPort: uint16(21000 + fl), DstPort: tcpPort, Seq: 100, Ack: 200, Flags: byte(fl), Wnd: 4096})}})
		// the same source twice: the second one meets whatever the first one created
		pool = append(pool, item{"state/flags-listener-2", frame{proto: protoIPv4, b: tcp4(netx.TCPSeg{SrcPort: 21000, DstPort: tcpPort, Seq: 100 + uint32(fl), Ack: 200, Flags: byte(fl), Wnd: 4096, Payload: []byte("pp")})}})
		pool = append(pool, item{"state/flags-closed", frame{proto: protoIPv4, b: tcp4(netx.TCPSeg{SrcPort: 21000, DstPort: 81, Seq: 100, Ack: 200, Flags: byte(fl), Wnd: 4096})}})
		if fl&netx.FlagRst == 0 { // (in-window resets are in the pool below: they end the connection)
			t := estSeg(byte(fl), 0, 0, tsOpt(20, 1), []byte("q"))
			pool = append(pool, item{"state/flags-est", t.frame()})
			t = estSeg(byte(fl), 0, 0, nil, nil) // without the timestamp option the segment must be dropped
			pool = append(pool, item{"state/flags-est-nots", t.frame()})
		}
	}
	// sequence / acknowledgement numbers around the window edges of the established connection
	for _, ds := range []uint32{0, 1, 0xffffffff, 0xfffffff0, 5, 1000, 65535, 65536, 1 << 20, 1 << 30, 1 << 31, 1<<31 + 1} {
		for _, da := range []uint32{0, 1, 0xffffffff, 0xffff0000, 100000, 1 << 31} {
			for _, n := range []int{0, 1, 100} {
				t := estSeg(netx.FlagAck, ds, da, tsOpt(21, 1), make([]byte, n))
				pool = append(pool, item{"state/est-seqack", t.frame()})
			}
		}
		t := estSeg(netx.FlagRst, ds, 0, nil, nil)
		pool = append(pool, item{"state/est-rst", t.frame()})
		t = estSeg(netx.FlagSyn, ds, 0, tsOpt(22, 1), nil)
		pool = append(pool, item{"state/est-syn", t.frame()})
		t = estSeg(netx.FlagFin|netx.FlagAck, ds, 0, tsOpt(23, 1), []byte("bye"))
		pool = append(pool, item{"state/est-fin", t.frame()})
	}
	// window, urgent pointer, zero window
	for _, w := range []uint16{0, 1, 65535} {
		t := estSeg(netx.FlagAck|netx.FlagUrg, 0, 0, tsOpt(24, 1), []byte("urgent"))
		binary.BigEndian.PutUint16(t.b[20+14:], w)
		binary.BigEndian.PutUint16(t.b[20+18:], 0xffff)
		pool = append(pool, item{"state/est-wnd", t.frame()})
	}
	// SYNs with extreme option values from many sources (half-open endpoints pile up)
	for i := 0; i < 120; i++ {
		o := []byte{2, 4, byte(r.Intn(256)), byte(r.Intn(256)), 3, 3, byte(r.Intn(20)), 1}
		if r.Intn(3) == 0 {
			o = append(o, tsOpt(r.U32(), r.U32())...)
		}
		if r.Intn(3) == 0 {
			o = append(o, 4, 2, 1, 1)
		}
		pool = append(pool, item{"state/syn-many", frame{proto: protoIPv4, b: tcp4(netx.TCPSeg{SrcPort: uint16(22000 + i), DstPort: tcpPort, Seq: r.U32(), Flags: netx.FlagSyn, Wnd: uint16(r.Intn(65536)), Opts: o})}})
	}
	return pool
}

// ------------------------------------------------------------------ noise

func noiseFrame(r *gen.Rng, mode string) (string, frame) {
	if mode == "fd" {
		switch r.Intn(4) {
		case 0: // runt: 0..20 bytes
			n := r.Intn(21)
			b := r.Bytes(n)
			if n >= 14 && r.Bool() {
				copy(b, ethFrame([]int{protoIPv4, protoIPv6, protoARP}[r.Intn(3)], nil))
			}
			return "noise/runt", frame{proto: -1, b: b}
		case 1: // valid Ethernet header, random ethertype, random body
			b := ethFrame(int(r.U32()&0xffff), r.Bytes(r.Intn(80)))
			return "noise/ethertype", frame{proto: -1, b: b}
		case 2: // known ethertype, random body
			b := ethFrame([]int{protoIPv4, protoIPv6, protoARP}[r.Intn(3)], r.Bytes(r.Intn(200)))
			return "noise/body", frame{proto: -1, b: b}
		default: // random body that starts like an IP header
			body := r.Bytes(20 + r.Intn(400))
			body[0] = []byte{0x45, 0x46, 0x4f, 0x60, 0x40, 0x00}[r.Intn(6)]
			return "noise/ipish", frame{proto: -1, b: ethFrame([]int{protoIPv4, protoIPv6}[r.Intn(2)], body)}
		}
	}
	protos := []int{protoIPv4, protoIPv6, protoARP, 0x88b5, 0}
	p := protos[r.Intn(len(protos))]
	n := r.Intn(120)
	if r.Intn(4) == 0 {
		n = r.Intn(4)
	}
	body := r.Bytes(n)
	if n > 0 && r.Bool() {
		body[0] = []byte{0x45, 0x46, 0x4f, 0x60, 0x40, 0x00}[r.Intn(6)]
	}
	return "noise/body", frame{proto: p, b: body}
}

// ------------------------------------------------------------------ assembling barrages

var chunkSizes = []int{1, 4, 7, 8, 12, 19, 20, 21, 24, 27, 28, 32, 39, 40, 41, 44, 47, 48, 52, 59, 60, 61, 80}

func generate(seed uint64, n int) []barrage {
	r := gen.New(seed)
	ts := templates()
	fpool := fieldPool(ts)
	tpool := append(truncPool(ts, false), truncPool(ts, true)...)
	ocore, opool := tcpoptPool()
	ipool := icmpPool(ts)
	spool := statePool(r)
	var bs []barrage
	modeOf := func() string {
		if len(bs)%2 == 0 {
			return "netx"
		}
		return "fd"
	}
	// a valid frame now and then keeps the state machines moving between mutants
	pulse := func() frame { return ts[r.Intn(len(ts))].frame() }
	finish := func(kind, label string, mode string, fs []frame) {
		if mode == "netx" && kind != "regress" {
			for i := range fs {
				if fs[i].proto >= 0 && r.Intn(4) == 0 {
					fs[i].chunk = chunkSizes[r.Intn(len(chunkSizes))]
				}
			}
		}
		bs = append(bs, barrage{mode: mode, kind: kind, label: label, frames: fs})
	}

	// ---- regress: always first, both links
	for _, mode := range []string{"netx", "fd"} {
		z := fragShape{8, 0, true}
		finish("regress", "regress/frag-two-empty", mode, []frame{fragFrame(0x5151, 17, z), fragFrame(0x5151, 17, fragShape{0, 0, true})})
		// four fragments, a middle one without MF
		finish("regress", "regress/frag-middle-nomf", mode, []frame{fragFrame(0x5152, 17, fragShape{0, 8, true}), fragFrame(0x5152, 17, fragShape{16, 8, false}),
			fragFrame(0x5152, 17, fragShape{8, 0, true}), fragFrame(0x5152, 17, fragShape{8, 8, true})})
	}
	finish("regress", "regress/runt-10", "fd", []frame{{proto: -1, b: make([]byte, 10)}})
	finish("regress", "regress/runt-14-0", "fd", []frame{{proto: -1, b: ethFrame(protoIPv4, nil)}, {proto: -1, b: nil}})

	// pool-driven families: consecutive slices of a pool (the quick tier starts each slice at a
	// seeded position; with n large enough the whole pool is covered)
	slice := func(kind string, core, pool []item, count, per int) {
		if len(pool) == 0 {
			return
		}
		// the core items first, in order, in every run
		for i := 0; i < len(core) && count > 0; i += per {
			j := i + per
			if j > len(core) {
				j = len(core)
			}
			var fs []frame
			for _, it := range core[i:j] {
				fs = append(fs, frame{proto: it.f.proto, b: it.f.b, patch: it.f.patch})
			}
			finish(kind, core[i].label+"/core", modeOf(), fs)
			count--
		}
		covered := count*per >= len(pool)
		for i := 0; i < count; i++ {
			start := r.Intn(len(pool))
			if covered {
				start = (i * per) % len(pool)
			}
			mode := modeOf()
			var fs []frame
			lab := pool[start].label
			for j := 0; j < per && len(fs) < 20; j++ {
				it := pool[(start+j)%len(pool)]
				fs = append(fs, frame{proto: it.f.proto, b: it.f.b, patch: it.f.patch})
				if r.Intn(9) == 0 && len(fs) < 20 {
					fs = append(fs, pulse())
				}
			}
			finish(kind, lab, mode, fs)
		}
	}
	// the thorough tier (n >= 1800) spends about 1130 barrages on the exhaustive fragment
	// enumeration; the shares below are of what remains
	exhaustive := n >= 1800
	rest := n - len(bs)
	if exhaustive {
		rest -= (fragSeqCount() + 29) / 30
	}
	if rest < 20 {
		rest = 20
	}
	share := func(pct int) int {
		k := rest * pct / 100
		if k < 1 {
			k = 1
		}
		return k
	}
	slice("field", nil, fpool, share(24), 17)
	slice("trunc", nil, tpool, share(13), 18)
	slice("tcpopt", ocore, opool, share(12), 18)
	slice("icmp", nil, ipool, share(6), 17)
	slice("state", nil, spool, share(10), 17)
	nfrag := share(18)

	// ---- fragments
	total := fragSeqCount()
	if exhaustive {
		// thorough tier: EVERY sequence of 1..3 fragments over the shape set (all fragments of a
		// sequence share the id; sequences in one barrage have distinct ids), 30 sequences per
		// barrage, alternating links; plus sampled different-id variants below
		for k := 0; k < total; {
			mode := modeOf()
			var fs []frame
			lab := fmt.Sprintf("frag/all-from-seq%d", k)
			for j := 0; j < 30 && k < total; j++ {
				proto := byte(17)
				if k%7 == 3 {
					proto = 1
				}
				fs = append(fs, fragSeq(k, 0, uint16(0x100+j*8), proto)...)
				k++
			}
			finish("frag", lab, mode, fs)
		}
	}
	for i := 0; i < nfrag; i++ {
		mode := modeOf()
		var fs []frame
		lab := ""
		for len(fs) <= 17 {
			var k, variant int
			// pairs are the densest source of inconsistent hole bookkeeping: half of the samples
			switch r.Intn(4) {
			case 0:
				k = r.Intn(32)
			case 1, 2:
				k = 32 + r.Intn(1024)
			default:
				k = 32 + 1024 + r.Intn(32768)
			}
			variant = 0
			if exhaustive || r.Intn(4) == 0 {
				variant = 1 + r.Intn(3)
			}
			proto := byte(17)
			if r.Intn(5) == 0 {
				proto = 1
			}
			id := uint16(0x100 + len(fs)*8 + r.Intn(8))
			s := fragSeq(k, variant, id, proto)
			if lab == "" {
				lab = fmt.Sprintf("frag/seq%d", k)
			}
			fs = append(fs, s...)
		}
		finish("frag", lab, mode, fs)
	}

	// ---- noise
	for i := 0; i < share(8); i++ {
		mode := modeOf()
		var fs []frame
		lab := ""
		for j := 0; j < 18; j++ {
			l, f := noiseFrame(r, mode)
			if lab == "" {
				lab = l
			}
			fs = append(fs, f)
		}
		finish("noise", lab, mode, fs)
	}

	// ---- soak: long mixed barrages
	all := [][]item{fpool, tpool, opool, ipool, spool}
	for i := 0; i < share(9); i++ {
		mode := modeOf()
		var fs []frame
		for j := 0; j < 150; j++ {
			switch r.Intn(8) {
			case 0:
				_, f := noiseFrame(r, mode)
				fs = append(fs, f)
			case 1:
				fs = append(fs, fragSeq(r.Intn(fragSeqCount()), r.Intn(4), uint16(0x3000+j), 17)...)
			case 2:
				fs = append(fs, pulse())
			default:
				p := all[r.Intn(len(all))]
				it := p[r.Intn(len(p))]
				fs = append(fs, frame{proto: it.f.proto, b: it.f.b, patch: it.f.patch})
			}
		}
		finish("soak", "soak/mixed", mode, fs)
	}
	return bs
}
