// h_c03: TCP connection establishment of the real stack against a scripted raw peer.
// Output: one Coq term of type NP.Corr.C03.case per line.
//   CActive  : active open; scripted inbound segments while in SYN-SENT / SYN-RCVD
//   CPassive : listener in normal mode; SYN, then scripted segments to the half-open endpoint
//   CCookie  : listener in SYN-cookie mode (SynRcvdCountThreshold = 0)
//   CStray   : segments for which no socket exists
//   CListen  : segments with other flag combinations sent to a listener
package main

import (
	"bufio"
	"encoding/binary"
	"flag"
	"fmt"
	"io"
	"log"
	"os"
	"runtime"
	"strings"
	"time"

	"aaverif/aadet"
	"aaverif/internal/gen"
	"aaverif/internal/netx"
	"aaverif/internal/tcpx"

	"github.com/brewlin/net-protocol/pkg/waiter"
	tcpip "github.com/brewlin/net-protocol/protocol"
	"github.com/brewlin/net-protocol/protocol/network/ipv4"
	"github.com/brewlin/net-protocol/protocol/transport/tcp"
	"github.com/brewlin/net-protocol/stack"
)

var peer4 = []byte{10, 0, 0, 2}
var stack4 = []byte{10, 0, 0, 1}

const peerPort = 4321

type synopts struct {
	mss  int
	ws   int
	ts   bool
	sack bool
}

// independent parser of SYN options (what the peer's SYN / SYN-ACK says), mirroring RFC 793/7323
func parseSyn(o []byte) synopts {
	r := synopts{mss: 536, ws: -1}
	for i := 0; i < len(o); {
		switch o[i] {
		case 0:
			return r
		case 1:
			i++
			continue
		}
		if i+1 >= len(o) {
			return r
		}
		l := int(o[i+1])
		if l < 2 || i+l > len(o) {
			return r
		}
		switch o[i] {
		case 2:
			if l != 4 {
				return r
			}
			m := int(o[i+2])<<8 | int(o[i+3])
			if m == 0 {
				return r
			}
			r.mss = m
		case 3:
			if l != 3 {
				return r
			}
			r.ws = int(o[i+2])
			if r.ws > 14 {
				r.ws = 14
			}
		case 8:
			if l != 10 {
				return r
			}
			r.ts = true
		case 4:
			if l != 2 {
				return r
			}
			r.sack = true
		}
		i += l
	}
	return r
}

func hasTS(o []byte) bool {
	for i := 0; i < len(o); {
		switch o[i] {
		case 0:
			return false
		case 1:
			i++
			continue
		}
		if i+1 >= len(o) {
			return false
		}
		l := int(o[i+1])
		if l < 2 || i+l > len(o) {
			return false
		}
		if o[i] == 8 && l == 10 {
			return true
		}
		i += l
	}
	return false
}

func coqSO(s synopts) string {
	ws := fmt.Sprintf("%d", s.ws)
	if s.ws < 0 {
		ws = fmt.Sprintf("(%d)", s.ws)
	}
	return fmt.Sprintf("(mkSO %d %s %s %s)", s.mss, ws, netx.B(s.ts), netx.B(s.sack))
}

func coqSeg(t netx.TCPSeg) string {
	return fmt.Sprintf("(mkHS %d %d %d %d %d %s %s)", t.Seq, t.Ack, t.Flags, t.Wnd, len(t.Payload), coqSO(parseSyn(t.Opts)), netx.B(hasTS(t.Opts)))
}

func coqFrame(t netx.TCPSeg) string {
	o := "None"
	if t.Flags&netx.FlagSyn != 0 {
		o = "(Some " + coqSO(parseSyn(t.Opts)) + ")"
	}
	return fmt.Sprintf("mkHF %d %d %d %d %s", t.Flags, t.Seq, t.Ack, t.Wnd, o)
}

func coqFrames(fr []netx.TCPSeg) string {
	s := make([]string, len(fr))
	for i, f := range fr {
		s[i] = coqFrame(f)
	}
	return "[" + strings.Join(s, ";") + "]"
}

type world struct {
	n     *netx.Net
	r     *gen.Rng
	lport uint16
}

func (w *world) inject(t netx.TCPSeg) {
	t.SrcPort = peerPort
	if t.DstPort == 0 {
		t.DstPort = w.lport
	}
	b := netx.TCPBytes(peer4, stack4, t)
	w.n.L.Inject(netx.ProtoIPv4, netx.IPv4Packet(peer4, stack4, 6, 1, 0, 64, b))
}

func (w *world) frames() []netx.TCPSeg {
	var out []netx.TCPSeg
	for _, f := range w.n.L.Take() {
		if f.Proto != netx.ProtoIPv4 {
			continue
		}
		i, ok := netx.ParseIPv4(f.Bytes)
		if !ok || i.Proto != 6 {
			continue
		}
		if t, ok := netx.ParseTCP(i.Payload); ok {
			t.Payload = append([]byte(nil), t.Payload...)
			t.Opts = append([]byte(nil), t.Opts...)
			out = append(out, t)
		}
	}
	return out
}

func (w *world) waitFrames(n int, d time.Duration) []netx.TCPSeg {
	var got []netx.TCPSeg
	dl := time.Now().Add(d)
	for len(got) < n && time.Now().Before(dl) {
		got = append(got, w.frames()...)
		if len(got) < n {
			time.Sleep(100 * time.Microsecond)
		}
	}
	return got
}

// waitParked waits until the goroutine serving ep's segment queue is parked.
func waitParked(ep tcpip.Endpoint, d time.Duration) bool {
	dl := time.Now().Add(d)
	for i := 0; ; i++ {
		if tcp.VerifSegWakerParked(ep) {
			return true
		}
		if i%64 == 63 {
			if time.Now().After(dl) {
				return false
			}
			time.Sleep(20 * time.Microsecond)
		} else {
			runtime.Gosched()
		}
	}
}

var seqChoices = []uint32{0, 1, 0x7ffffffe, 0x7fffffff, 0x80000000, 0xfffffffe, 0xffffffff, 1000000}

func (w *world) pickSeq() uint32 {
	if w.r.Intn(3) == 0 {
		return w.r.U32()
	}
	return seqChoices[w.r.Intn(len(seqChoices))]
}

// peer SYN option encodings: none, each alone, all, padded, unknown kinds, malformed
func (w *world) synOptBytes() []byte {
	var o []byte
	mss := []int{0, 1, 88, 536, 1300, 1440, 1460, 65535}[w.r.Intn(8)]
	switch w.r.Intn(10) {
	case 0:
		return nil
	case 1: // malformed: truncated MSS
		return []byte{1, 2, 4, 5}
	case 2: // unknown kind then MSS
		o = append(o, 254, 4, 9, 9)
	case 3: // EOL before anything useful
		o = append(o, 0, 0, 0, 0)
	}
	if w.r.Intn(5) != 0 {
		o = append(o, 2, 4, byte(mss>>8), byte(mss))
	}
	if w.r.Intn(2) == 0 {
		o = append(o, 1, 3, 3, byte([]int{0, 1, 7, 14, 15, 200}[w.r.Intn(6)]))
	}
	if w.r.Intn(2) == 0 {
		o = append(o, 1, 1, 8, 10, 0, 0, 1, byte(w.r.Intn(200)), 0, 0, 0, 0)
	}
	if w.r.Intn(2) == 0 {
		o = append(o, 4, 2)
	}
	if w.r.Intn(8) == 0 {
		o = append(o, 3, 2) // WS with a wrong length: parsing stops here
	}
	for len(o)%4 != 0 {
		o = append(o, 1)
	}
	if len(o) > 40 {
		o = o[:40]
	}
	return o
}

func newWorld(r *gen.Rng, sack bool) *world {
	n := netx.NewNet(netx.Opts{Addr4: string(stack4)})
	n.S.SetTransportProtocolOption(tcp.ProtocolNumber, tcp.SACKEnabled(sack))
	return &world{n: n, r: r}
}

func tsOpt(on bool) []byte {
	if !on {
		return nil
	}
	return []byte{1, 1, 8, 10, 0, 0, 2, 2, 0, 0, 0, 9}
}

// ---------------------------------------------------------------- active open

func (w *world) active(out *bufio.Writer, kinds map[string]int) {
	sack := w.r.Bool()
	w.n.S.SetTransportProtocolOption(tcp.ProtocolNumber, tcp.SACKEnabled(sack))
	iss := w.pickSeq()
	ep, err := w.n.S.NewEndpoint(tcp.ProtocolNumber, ipv4.ProtocolNumber, &waiter.Queue{})
	if err != nil {
		return
	}
	defer ep.Close()
	rcvBuf := []int{0, 4096, 65535, 65536, 300000, 2000000}[w.r.Intn(6)]
	if rcvBuf > 0 {
		ep.SetSockOpt(tcpip.ReceiveBufferSizeOption(rcvBuf))
	}
	aadet.ClearQueue()
	aadet.Queue(byte(iss), byte(iss>>8), byte(iss>>16), byte(iss>>24))
	if e := ep.Connect(tcpip.FullAddress{NIC: 1, Addr: tcpip.Address(peer4), Port: peerPort}); e != tcpip.ErrConnectStarted {
		fmt.Fprintf(out, "# connect failed %v\n", e)
		return
	}
	fr := w.waitFrames(1, 3*time.Second)
	if len(fr) != 1 {
		fmt.Fprintf(out, "# no SYN\n")
		return
	}
	syn := fr[0]
	w.lport = syn.SrcPort
	waitParked(ep, 3*time.Second)
	var steps []string
	irs := w.pickSeq()
	curIss := iss
	nseg := 1 + w.r.Intn(6)
	for k := 0; k < nseg; k++ {
		var t netx.TCPSeg
		x := w.r.Intn(100)
		last := k == nseg-1
		switch {
		case x < 25 || last: // the correct SYN-ACK
			kinds["a-synack-ok"]++
			t = netx.TCPSeg{Seq: irs, Ack: curIss + 1, Flags: netx.FlagSyn | netx.FlagAck, Wnd: uint16(w.r.Intn(65536)), Opts: w.synOptBytes()}
		case x < 50: // SYN-ACK / ACK with a wrong acknowledgement number
			kinds["a-wrong-ack"]++
			d := []uint32{0, 2, 0xffffffff, 0x10000, 0x80000000, 0x7fffffff}[w.r.Intn(6)]
			if w.r.Intn(3) == 0 {
				d = w.r.U32()
			}
			fl := byte(netx.FlagAck)
			if w.r.Bool() {
				fl |= netx.FlagSyn
			}
			var pl []byte
			if w.r.Intn(4) == 0 {
				pl = w.r.Bytes(1 + w.r.Intn(5))
			}
			t = netx.TCPSeg{Seq: w.pickSeq(), Ack: curIss + d, Flags: fl, Wnd: 100, Payload: pl}
		case x < 62: // RST, acceptable or not
			kinds["a-rst"]++
			fl := byte(netx.FlagRst)
			ack := curIss + 1
			if w.r.Bool() {
				fl |= netx.FlagAck
			}
			if w.r.Bool() {
				ack = curIss + uint32(w.r.Intn(3))
			}
			t = netx.TCPSeg{Seq: w.pickSeq(), Ack: ack, Flags: fl}
		case x < 75: // bare SYN: simultaneous open
			kinds["a-syn"]++
			t = netx.TCPSeg{Seq: irs, Flags: netx.FlagSyn, Wnd: 5000, Opts: w.synOptBytes()}
		case x < 85: // ACK without SYN acknowledging our SYN
			kinds["a-ack-only"]++
			t = netx.TCPSeg{Seq: irs + 1, Ack: curIss + 1, Flags: netx.FlagAck, Wnd: 700, Opts: tsOpt(w.r.Bool())}
		case x < 93: // SYN with another sequence number (in SYN-RCVD it restarts an active opener)
			kinds["a-syn-other"]++
			fl := byte(netx.FlagSyn)
			if w.r.Bool() {
				fl |= netx.FlagAck
			}
			t = netx.TCPSeg{Seq: irs + 1 + uint32(w.r.Intn(1000)), Ack: curIss + 1, Flags: fl, Wnd: 5000}
		default: // no flags / FIN
			kinds["a-odd-flags"]++
			t = netx.TCPSeg{Seq: irs, Ack: curIss + 1, Flags: []byte{0, netx.FlagFin, netx.FlagPsh}[w.r.Intn(3)]}
		}
		ni := w.pickSeq()
		aadet.ClearQueue()
		aadet.Queue(byte(ni), byte(ni>>8), byte(ni>>16), byte(ni>>24))
		w.inject(t)
		waitParked(ep, 3*time.Second)
		// a completed or failed handshake ends in the main loop or in the error state; both settle quickly
		time.Sleep(50 * time.Microsecond)
		waitParked(ep, 3*time.Second)
		got := w.frames()
		for _, f := range got {
			if f.Flags == netx.FlagSyn { // a restarted handshake sent a SYN with the new ISS
				curIss = f.Seq
			}
		}
		info := tcp.VerifConnInfo(ep)
		steps = append(steps, fmt.Sprintf("(%s, %d, %s, %d)", coqSeg(t), ni, coqFrames(got), info.EState))
		if info.EState != 3 { // no longer connecting
			break
		}
	}
	aadet.ClearQueue()
	info := tcp.VerifConnInfo(ep)
	errc := 0
	if info.Err != "" {
		errc = 1
		if strings.Contains(info.Err, "refused") {
			errc = 1
		} else {
			errc = 2
		}
	}
	so := parseSyn(syn.Opts)
	fmt.Fprintf(out, "CActive %d %d %s %s %d (%s) [%s] (%d, %d, %d, %d, %s, %s, %d, %d, %d)\n", iss, syn.Wnd, coqSO(so), netx.B(sack), rcvBuf, coqFrame(syn),
		strings.Join(steps, ";"), info.EState, errc, info.Mss, info.SndWndScale, netx.B(info.TsOk), netx.B(info.Sack), info.Iss, info.Irs, info.RcvWndScale)
}

// ---------------------------------------------------------------- passive open (normal and cookie mode)

func (w *world) listen(port uint16, rcvBuf int) (tcpip.Endpoint, *waiter.Queue) {
	wq := &waiter.Queue{}
	ep, err := w.n.S.NewEndpoint(tcp.ProtocolNumber, ipv4.ProtocolNumber, wq)
	if err != nil {
		panic(err.String())
	}
	if rcvBuf > 0 {
		ep.SetSockOpt(tcpip.ReceiveBufferSizeOption(rcvBuf))
	}
	if e := ep.Bind(tcpip.FullAddress{Port: port}, nil); e != nil {
		panic(e.String())
	}
	if e := ep.Listen(10); e != nil {
		panic(e.String())
	}
	waitParked(ep, 3*time.Second)
	return ep, wq
}

// marker: an ACK whose acknowledgement number is certainly wrong; a half-open endpoint answers it
// with exactly one RST carrying that number as sequence number and does not change state.
func (w *world) marker(k int) netx.TCPSeg {
	return netx.TCPSeg{Seq: 0x13570000 + uint32(k), Ack: 0xdead0000 + uint32(k), Flags: netx.FlagAck, Wnd: 1}
}

func (w *world) passive(out *bufio.Writer, kinds map[string]int) {
	sack := w.r.Bool()
	w.n.S.SetTransportProtocolOption(tcp.ProtocolNumber, tcp.SACKEnabled(sack))
	tcp.SynRcvdCountThreshold = 1000
	w.lport = uint16(2000 + w.r.Intn(1000))
	rcvBuf := []int{0, 4096, 65535, 65536, 300000}[w.r.Intn(5)]
	lep, _ := w.listen(w.lport, rcvBuf)
	defer lep.Close()
	irs := w.pickSeq()
	syn := netx.TCPSeg{Seq: irs, Flags: netx.FlagSyn, Wnd: uint16(1 + w.r.Intn(65535)), Opts: w.synOptBytes()}
	w.inject(syn)
	fr := w.waitFrames(1, 3*time.Second)
	if len(fr) != 1 {
		fmt.Fprintf(out, "# passive: no SYN-ACK (%d frames)\n", len(fr))
		return
	}
	synack := fr[0]
	iss := synack.Seq
	var steps []string
	nseg := 1 + w.r.Intn(5)
	accepted := false
	est := "[]"
	for k := 0; k < nseg && !accepted; k++ {
		var t netx.TCPSeg
		x := w.r.Intn(100)
		last := k == nseg-1
		switch {
		case x < 30 || last:
			kinds["p-ack-ok"]++
			t = netx.TCPSeg{Seq: irs + 1, Ack: iss + 1, Flags: netx.FlagAck, Wnd: uint16(w.r.Intn(65536)), Opts: tsOpt(w.r.Intn(3) != 0)}
		case x < 60:
			kinds["p-wrong-ack"]++
			d := []uint32{0, 2, 3, 0xffffffff, 0x10000, 0x80000000, 0x7fffffff}[w.r.Intn(7)]
			if w.r.Intn(3) == 0 {
				d = w.r.U32()
				if d == 1 {
					d = 5
				}
			}
			var pl []byte
			if w.r.Intn(4) == 0 {
				pl = w.r.Bytes(1 + w.r.Intn(5))
			}
			t = netx.TCPSeg{Seq: irs + 1, Ack: iss + d, Flags: netx.FlagAck, Wnd: 100, Payload: pl, Opts: tsOpt(w.r.Bool())}
		case x < 70:
			kinds["p-dup-syn"]++
			t = netx.TCPSeg{Seq: irs, Flags: netx.FlagSyn, Wnd: syn.Wnd, Opts: syn.Opts}
		case x < 80:
			kinds["p-syn-other"]++
			t = netx.TCPSeg{Seq: irs + 5 + uint32(w.r.Intn(1000)), Flags: netx.FlagSyn, Wnd: 100}
		case x < 90:
			kinds["p-rst"]++
			seq := irs + 1
			if w.r.Bool() {
				seq = irs + 0x40000000
			}
			t = netx.TCPSeg{Seq: seq, Flags: netx.FlagRst}
		default:
			kinds["p-odd-flags"]++
			t = netx.TCPSeg{Seq: irs + 1, Ack: iss + 1, Flags: []byte{0, netx.FlagFin, netx.FlagPsh}[w.r.Intn(3)]}
		}
		w.inject(t)
		// synchronise on the half-open endpoint itself (found through the demuxer): wait until the
		// goroutine serving its segment queue is parked again, or it was accepted, or it is gone
		id := stack.TransportEndpointID{LocalPort: w.lport, LocalAddress: tcpip.Address(stack4), RemotePort: peerPort, RemoteAddress: tcpip.Address(peer4)}
		var got []netx.TCPSeg
		dl := time.Now().Add(10 * time.Second)
		seen, gone := false, false
		for i := 0; !seen && !gone && !accepted && time.Now().Before(dl); i++ {
			x := w.n.S.VerifLookup(ipv4.ProtocolNumber, tcp.ProtocolNumber, id)
			switch tcp.VerifHalfOpen(x) {
			case 0:
				gone = true
			case 1:
				seen = true
			case 3:
				if e, _, err := lep.Accept(); err == nil {
					accepted = true
					est = estSummary(e)
					e.Close()
				}
			}
			if !seen && !gone && !accepted {
				if i%64 == 63 {
					time.Sleep(50 * time.Microsecond)
				} else {
					runtime.Gosched()
				}
			}
		}
		got = append(got, w.frames()...)
		st := 0 // 0 = still half-open (marker answered), 1 = accepted, 2 = gone/unknown
		if accepted {
			st = 1
		} else if gone || !seen {
			st = 2
		}
		steps = append(steps, fmt.Sprintf("(%s, 0, %s, %d)", coqSeg(t), coqFrames(got), st))
		if st != 0 {
			break
		}
	}
	mtuMss := 1480 - 20
	fmt.Fprintf(out, "CPassive %s %s %d %d (%s) %s [%s] %s\n", coqSeg(syn), netx.B(sack), rcvBuf, mtuMss, coqFrame(synack), netx.B(accepted), strings.Join(steps, ";"), est)
}

func cookieTS() uint32 { return uint32(time.Now().Unix()>>6) & 255 }

func (w *world) cookie(out *bufio.Writer, kinds map[string]int) {
	tcp.SynRcvdCountThreshold = 0
	defer func() { tcp.SynRcvdCountThreshold = 1000 }()
	w.lport = uint16(3000 + w.r.Intn(1000))
	lep, _ := w.listen(w.lport, 0)
	defer lep.Close()
	irs := w.pickSeq()
	syn := netx.TCPSeg{Seq: irs, Flags: netx.FlagSyn, Wnd: 1000, Opts: w.synOptBytes()}
	ts0 := cookieTS()
	w.inject(syn)
	waitParked(lep, 3*time.Second)
	fr := w.frames()
	if len(fr) != 1 {
		fmt.Fprintf(out, "# cookie: expected one SYN-ACK, got %d\n", len(fr))
		return
	}
	synack := fr[0]
	cookie := synack.Seq
	var steps []string
	nseg := 1 + w.r.Intn(4)
	for k := 0; k < nseg; k++ {
		// delta between the acknowledged number and cookie+1
		var d uint32
		x := w.r.Intn(100)
		switch {
		case x < 35:
			kinds["c-ack-exact"]++
			d = 0
		case x < 65:
			kinds["c-ack-near"]++
			d = []uint32{1, 2, 3, 4, 5, 0xffffffff, 0xfffffffe}[w.r.Intn(7)]
		case x < 82:
			kinds["c-ack-far"]++
			d = uint32(3+w.r.Intn(250))<<24 | uint32(w.r.Intn(1<<24))
		default:
			// wrong only in the cookie's time-slot byte (bits 24..31) or by a single bit
			kinds["c-ack-slot-bits"]++
			if w.r.Intn(3) == 0 {
				d = 1 << uint(2+w.r.Intn(30))
			} else {
				d = uint32(1+w.r.Intn(255)) << 24
			}
		}
		seqd := uint32(0)
		if w.r.Intn(5) == 0 {
			kinds["c-seq-off"]++
			seqd = 1 + uint32(w.r.Intn(1000)) // a different peer sequence number: the final ACK of ANOTHER SYN
			if w.r.Intn(2) == 0 {
				// ... acknowledging (about) what the stack would answer that other SYN with
				kinds["c-seq-shifted-consistently"]++
				d = seqd + []uint32{0, 0, 0, 1, 0xffffffff, 2}[w.r.Intn(6)]
			}
		}
		// the number the stack chooses for a SYN with this sequence number (stateless: ask it)
		ck := cookie
		if seqd != 0 {
			w.inject(netx.TCPSeg{Seq: irs + seqd, Flags: netx.FlagSyn, Wnd: 1000, Opts: syn.Opts})
			waitParked(lep, 3*time.Second)
			fr2 := w.frames()
			if len(fr2) != 1 || fr2[0].Flags != netx.FlagSyn|netx.FlagAck {
				fmt.Fprintf(out, "# cookie: expected one SYN-ACK for the shifted SYN, got %d\n", len(fr2))
				return
			}
			ck = fr2[0].Seq
		}
		t := netx.TCPSeg{Seq: irs + 1 + seqd, Ack: cookie + 1 + d, Flags: netx.FlagAck, Wnd: 4000, Opts: tsOpt(w.r.Bool())}
		if w.r.Intn(5) == 0 {
			// the same acknowledgement on a segment that is not a bare ACK (e.g. the RST|ACK a
			// host sends in answer to an unexpected SYN-ACK: backscatter of a spoofed SYN flood)
			kinds["c-ack-other-flags"]++
			t.Flags |= []byte{netx.FlagRst, netx.FlagRst, netx.FlagFin, netx.FlagPsh, netx.FlagRst | netx.FlagPsh}[w.r.Intn(5)]
		}
		w.inject(t)
		waitParked(lep, 3*time.Second)
		got := w.frames()
		acc := false
		var info tcp.VerifConn
		if e, _, err := lep.Accept(); err == nil {
			acc = true
			info = tcp.VerifConnInfo(e)
			e.Close()
			waitParked(lep, time.Second)
			w.frames() // the RST/FIN of closing it
		}
		steps = append(steps, fmt.Sprintf("(%s, %s, %s, %d, %s, %d)", coqSeg(t), coqFrames(got), netx.B(acc), info.Mss, netx.B(info.TsOk), ck))
		if acc {
			break // the 4-tuple now belongs to the accepted endpoint, not to the listener
		}
	}
	ts1 := cookieTS()
	if ts0 != ts1 {
		fmt.Fprintf(out, "# cookie: time slot changed during the script, case dropped\n")
		return
	}
	fmt.Fprintf(out, "CCookie %s %d %d (%s) [%s]\n", coqSeg(syn), ts0, 1480-20, coqFrame(synack), strings.Join(steps, ";"))
}

// ---------------------------------------------------------------- no socket / odd flags to a listener

func (w *world) stray(out *bufio.Writer, kinds map[string]int) {
	w.lport = uint16(5000 + w.r.Intn(1000)) // nobody listens here
	fl := byte(w.r.Intn(64))
	var pl []byte
	if w.r.Intn(3) == 0 {
		pl = w.r.Bytes(1 + w.r.Intn(20))
	}
	t := netx.TCPSeg{Seq: w.pickSeq(), Ack: w.pickSeq(), Flags: fl, Wnd: uint16(w.r.Intn(65536)), Payload: pl}
	if fl&netx.FlagRst != 0 {
		kinds["s-rst"]++
	} else if fl&netx.FlagAck != 0 {
		kinds["s-ack"]++
	} else {
		kinds["s-noack"]++
	}
	w.inject(t)
	fmt.Fprintf(out, "CStray %s %s\n", coqSeg(t), coqFrames(w.frames()))
}

func (w *world) oddListen(out *bufio.Writer, kinds map[string]int) {
	tcp.SynRcvdCountThreshold = 1000
	w.lport = uint16(6000 + w.r.Intn(1000))
	lep, _ := w.listen(w.lport, 0)
	defer lep.Close()
	fl := byte(w.r.Intn(64))
	for fl == netx.FlagSyn || fl == netx.FlagAck {
		fl = byte(w.r.Intn(64))
	}
	kinds["l-odd"]++
	t := netx.TCPSeg{Seq: w.pickSeq(), Ack: w.pickSeq(), Flags: fl, Wnd: 100}
	w.inject(t)
	waitParked(lep, 3*time.Second)
	_, _, err := lep.Accept()
	fmt.Fprintf(out, "CListen %s %s %s\n", coqSeg(t), coqFrames(w.frames()), netx.B(err == nil))
}

// established connection + RST: never answered (finding F16, repaired)
func estRst(r *gen.Rng, out *bufio.Writer, kinds map[string]int) {
	cfg := tcpx.Cfg{PeerWnd: 30000, PeerWS: -1, PeerMSS: 100}
	cfg.ISS, cfg.IRS = seqChoices[r.Intn(len(seqChoices))], seqChoices[r.Intn(len(seqChoices))]
	c, err := tcpx.Dial(cfg)
	if err != nil {
		fmt.Fprintf(out, "# estRst: dial failed: %v\n", err)
		return
	}
	defer c.EP.Close()
	inw := r.Bool()
	seq := c.IRS + 1 + uint32(r.Intn(1000))
	if !inw {
		seq = c.IRS + 1 + 0x40000000
	}
	fl := byte(netx.FlagRst)
	if r.Bool() {
		fl |= netx.FlagAck
	}
	if inw {
		kinds["e-rst-in-window"]++
	} else {
		kinds["e-rst-out-of-window"]++
	}
	t := netx.TCPSeg{Seq: seq, Ack: c.ISS + 1, Flags: fl}
	c.InjectRaw(t)
	c.Sync(3 * time.Second)
	fr := c.Frames()
	st := c.Snap()
	fmt.Fprintf(out, "CEstRst %s %s %s %d\n", netx.B(inw), coqSeg(t), coqFrames(fr), st.EState)
}

// established connection + keepalive enabled + silent peer: after count unanswered probes (pure
// ACKs with sequence number sndNxt-1) the connection is abandoned: the peer is reset (RST|ACK) and
// the endpoint ends in the error state.  (A repair of finding F16 once suppressed this reset too:
// the keepalive time-out reports the same error code as a received RST.)
func estKeepalive(r *gen.Rng, out *bufio.Writer, kinds map[string]int) {
	cfg := tcpx.Cfg{PeerWnd: 30000, PeerWS: -1, PeerMSS: 100}
	cfg.ISS, cfg.IRS = seqChoices[r.Intn(len(seqChoices))], seqChoices[r.Intn(len(seqChoices))]
	c, err := tcpx.Dial(cfg)
	if err != nil {
		fmt.Fprintf(out, "# estKeepalive: dial failed: %v\n", err)
		return
	}
	defer c.EP.Close()
	count := 1 + r.Intn(3)
	c.EP.SetSockOpt(tcpip.KeepaliveIdleOption(15 * time.Millisecond))
	c.EP.SetSockOpt(tcpip.KeepaliveIntervalOption(15 * time.Millisecond))
	c.EP.SetSockOpt(tcpip.KeepaliveCountOption(count))
	c.EP.SetSockOpt(tcpip.KeepaliveEnabledOption(1))
	kinds["e-keepalive"]++
	var fr []netx.TCPSeg
	dl := time.Now().Add(5 * time.Second)
	for time.Now().Before(dl) {
		fr = append(fr, c.Frames()...)
		if len(fr) > 0 && fr[len(fr)-1].Flags&netx.FlagRst != 0 {
			break
		}
		time.Sleep(2 * time.Millisecond)
	}
	time.Sleep(5 * time.Millisecond)
	fr = append(fr, c.Frames()...)
	st := c.Snap()
	fmt.Fprintf(out, "CKeepalive %d %d %d %s %d\n", count, c.ISS, c.IRS, coqFrames(fr), st.EState)
}

func main() {
	log.SetOutput(io.Discard)
	seed := flag.Uint64("seed", 1, "seed")
	n := flag.Int("n", 200, "number of scenarios")
	flag.Parse()
	out := bufio.NewWriter(os.Stdout)
	defer out.Flush()
	kinds := map[string]int{}
	_ = binary.BigEndian
	for i := 0; i < *n; i++ {
		r := gen.New(*seed*7919 + uint64(i))
		w := newWorld(r, true)
		switch x := i % 10; {
		case x < 4:
			w.active(out, kinds)
		case x < 7:
			w.passive(out, kinds)
		case x < 8:
			w.cookie(out, kinds)
		case x < 9:
			for j := 0; j < 6; j++ {
				w.stray(out, kinds)
			}
		default:
			w.oddListen(out, kinds)
			estRst(r, out, kinds)
			if i%20 == 9 {
				estKeepalive(r, out, kinds)
			}
		}
	}
	fmt.Fprintf(out, "# event kinds: %v\n", kinds)
}

// estSummary prints the fields of an accepted connection that Model/TcpEst.v est_summary lists, once
// its protocol goroutine is parked (an empty list if that does not happen in time).
func estSummary(e tcpip.Endpoint) string {
	dl := time.Now().Add(2 * time.Second)
	for !(tcp.VerifSnapshot(e).HasSndRcv && tcp.VerifQuiescent(e)) {
		if time.Now().After(dl) {
			return "[]"
		}
		time.Sleep(50 * time.Microsecond)
	}
	v := tcp.VerifSnapshot(e)
	es := 100 + v.EState
	if v.EState == 4 {
		es = 0
	}
	ts := 0
	if v.TsOk {
		ts = 1
	}
	return fmt.Sprintf("[%d;%d;%d;%d;%d;%d;%d;%d;%d;%d;%d;%d;%d;%d;%d;%d;%d;%d;%d;%d]", v.RcvNxt, v.RcvAcc, v.RcvWndScale, v.PendSize,
		v.Cwnd, v.SndWnd, v.SndUna, v.SndNxt, v.SndNxtList, v.TState, v.Rto, v.MaxPayload, v.SndWndScale, v.MaxSentAck, v.RttSeq, v.FrLast,
		v.RcvBufSize, v.SndBufSize, es, ts)
}
