// h_c10: drives the exported API of protocol/ports.PortManager and prints one Coq term of type
// NP.Corr.C10.case per line (inputs + what the implementation returned).
//
//   CHist [ops]   a history of ReservePort (specific / ephemeral) / ReleasePort / IsPortAvailable
//                 calls on a fresh PortManager
//   CPick ...     one PickEphemeralPort call with a scripted tester
//   CConc [...]   (flag -conc) snapshot of the reservations held at one instant of a run with 8
//                 goroutines reserving and releasing; a search aid only (not replayed on the model)
//
// PickEphemeralPort draws its start offset from math/rand's global source.  The driver makes the
// draw known: rand.Seed(k); offset := rand.Int31n(count); rand.Seed(k); <call>.  The offset is
// printed in the case, so the model is run with the same offset.
package main

import (
	"bufio"
	"flag"
	"fmt"
	"io"
	"log"
	"math/rand"
	"os"
	"strings"
	"sync"
	"time"

	"aaverif/internal/gen"

	tcpip "github.com/brewlin/net-protocol/protocol"
	"github.com/brewlin/net-protocol/protocol/ports"
)

const (
	first = 16000
	count = 49536
)

var (
	netLists = [][]tcpip.NetworkProtocolNumber{{2048}, {34525}, {2048, 34525}, {34525, 2048}}
	trans    = []tcpip.TransportProtocolNumber{6, 17}
	addrs    = []tcpip.Address{"", "\x0a\x00\x00\x01", "\x0a\x00\x00\x02", "\xfe\x80\x00\x00\x00\x00\x00\x00\x00\x00\x00\x00\x00\x00\x00\x01"}
	portSet  = []uint16{80, 22, 16000, 16001, 65535, 30000}
)

// seeds whose first Int31n(count) draw is a boundary offset (verified at start-up; rescanned
// if the toolchain's generator ever changes)
var seedHints = map[int32]int64{0: 34725, 1: 67425, 16000: 52275, 16001: 144917, 49534: 3143, 49535: 108193}

func offsetOf(k int64) int32 {
	rand.Seed(k)
	o := rand.Int31n(count)
	return o
}

func boundarySeeds() []int64 {
	var out []int64
	missing := map[int32]bool{}
	for o, k := range seedHints {
		if offsetOf(k) == o {
			out = append(out, k)
		} else {
			missing[o] = true
		}
	}
	if len(missing) > 0 {
		for k := int64(0); k < 300000 && len(missing) > 0; k++ {
			o := offsetOf(k)
			if missing[o] {
				out = append(out, k)
				delete(missing, o)
			}
		}
	}
	return out
}

func errCode(e *tcpip.Error, custom *tcpip.Error) int {
	switch e {
	case nil:
		return 0
	case tcpip.ErrPortInUse:
		return 1
	case tcpip.ErrNoPortAvailable:
		return 2
	case custom:
		return 3
	}
	return 9
}

func addrID(a tcpip.Address) int {
	for i, x := range addrs {
		if x == a {
			return i
		}
	}
	return -1
}

func netsStr(n []tcpip.NetworkProtocolNumber) string {
	s := make([]string, len(n))
	for i, x := range n {
		s[i] = fmt.Sprint(uint32(x))
	}
	return "[" + strings.Join(s, ";") + "]"
}

func b(x bool) string {
	if x {
		return "true"
	}
	return "false"
}

type held struct {
	nets []tcpip.NetworkProtocolNumber
	tr   tcpip.TransportProtocolNumber
	addr tcpip.Address
	port uint16
}

var stats = map[string]int{}

// history runs one history on a fresh manager and returns the case line.
func history(r *gen.Rng, seeds []int64, bseeds []int64) (line string) {
	var ops []string
	defer func() {
		if e := recover(); e != nil {
			line = "CPanic 1"
			stats["panic"]++
		}
	}()
	pm := ports.NewPortManager()
	var live []held
	var ephPorts []uint16
	nops := 1 + r.Intn(40)
	// a history draws its tuples from a narrowed universe most of the time, so that conflicts happen
	narrowT := r.Intn(3) != 0
	tr0 := trans[r.Intn(2)]
	nPorts := 1 + r.Intn(len(portSet))
	pickTuple := func() held {
		h := held{nets: netLists[r.Intn(len(netLists))], tr: trans[r.Intn(2)], addr: addrs[r.Intn(len(addrs))]}
		if narrowT {
			h.tr = tr0
		}
		if len(ephPorts) > 0 && r.Intn(4) == 0 {
			h.port = ephPorts[r.Intn(len(ephPorts))]
		} else {
			h.port = portSet[r.Intn(nPorts)]
		}
		return h
	}
	for i := 0; i < nops; i++ {
		k := r.Intn(10)
		switch {
		case k < 4: // reserve specific
			h := pickTuple()
			p, err := pm.ReservePort(h.nets, h.tr, h.addr, h.port)
			ops = append(ops, fmt.Sprintf("HReserve %s %d %d %d 0 %d %d", netsStr(h.nets), h.tr, addrID(h.addr), h.port, p, errCode(err, nil)))
			if err == nil {
				live = append(live, h)
				stats["grant"]++
			} else {
				stats["refuse"]++
			}
		case k < 6: // reserve ephemeral
			h := pickTuple()
			var sd int64
			switch r.Intn(3) {
			case 0:
				sd = bseeds[r.Intn(len(bseeds))]
			default:
				sd = seeds[r.Intn(len(seeds))] // few seeds per history: the same start port recurs
			}
			off := offsetOf(sd)
			rand.Seed(sd)
			p, err := pm.ReservePort(h.nets, h.tr, h.addr, 0)
			ops = append(ops, fmt.Sprintf("HReserve %s %d %d 0 %d %d %d", netsStr(h.nets), h.tr, addrID(h.addr), off, p, errCode(err, nil)))
			if err == nil {
				h.port = p
				live = append(live, h)
				ephPorts = append(ephPorts, p)
				stats["eph-grant"]++
				if int(p) != first+int(off) {
					stats["eph-grant-after-collision"]++
				}
			} else {
				stats["eph-fail"]++
			}
		case k < 8: // release
			var h held
			m := r.Intn(10)
			switch {
			case len(live) > 0 && m < 6: // exactly what is held
				j := r.Intn(len(live))
				h = live[j]
				live = append(live[:j:j], live[j+1:]...)
				stats["release-held"]++
			case len(live) > 0 && m < 8: // a held tuple named with another network list (subset / superset), kept in live: may be released again
				h = live[r.Intn(len(live))]
				h.nets = netLists[r.Intn(len(netLists))]
				stats["release-othernets"]++
			default: // anything (mostly not held)
				h = pickTuple()
				stats["release-random"]++
			}
			pm.ReleasePort(h.nets, h.tr, h.addr, h.port)
			ops = append(ops, fmt.Sprintf("HRelease %s %d %d %d", netsStr(h.nets), h.tr, addrID(h.addr), h.port))
		default: // query
			h := pickTuple()
			ok := pm.IsPortAvailable(h.nets, h.tr, h.addr, h.port)
			ops = append(ops, fmt.Sprintf("HQuery %s %d %d %d %s", netsStr(h.nets), h.tr, addrID(h.addr), h.port, b(ok)))
			stats["query"]++
		}
	}
	// closing sweep: observe the final state
	for i := 0; i < 6; i++ {
		h := pickTuple()
		ok := pm.IsPortAvailable(h.nets, h.tr, h.addr, h.port)
		ops = append(ops, fmt.Sprintf("HQuery %s %d %d %d %s", netsStr(h.nets), h.tr, addrID(h.addr), h.port, b(ok)))
	}
	return "CHist [" + strings.Join(ops, "; ") + "]"
}

// pick runs PickEphemeralPort with the tester "accept exactly port p; error at port q".
func pick(sd int64, p, q int) (line string) {
	defer func() {
		if e := recover(); e != nil {
			line = "CPanic 2"
			stats["panic"]++
		}
	}()
	pm := ports.NewPortManager()
	custom := &tcpip.Error{}
	calls := 0
	off := offsetOf(sd)
	rand.Seed(sd)
	port, err := pm.PickEphemeralPort(func(x uint16) (bool, *tcpip.Error) {
		calls++
		var e *tcpip.Error
		if int(x) == q {
			e = custom
		}
		return int(x) == p, e
	})
	return fmt.Sprintf("CPick %d %d %d %d %d %d", off, p, q, port, errCode(err, custom), calls)
}

// portAt is the port probed at step i of a search starting at offset off (what the property
// requires, not what the code computes).
func portAt(off int32, i int) int { return first + (int(off)+i)%count }

func pickCases(w io.Writer, r *gen.Rng, n int, bseeds []int64) {
	emit := func(sd int64, p, q int) {
		fmt.Fprintln(w, pick(sd, p, q))
		switch {
		case p >= first && q >= first:
			stats["pick-port+error"]++
		case p >= first:
			stats["pick-only-p"]++
		case q >= first:
			stats["pick-error"]++
		default:
			stats["pick-none"]++
		}
	}
	steps := func(off int32) []int {
		s := []int{0, 1, 2, count - 1, count - 2, count / 2}
		// positions where offset+i passes 65535 -> 65536 (the 16-bit sum wraps there)
		for _, d := range []int{-2, -1, 0, 1, 2} {
			i := 65536 - int(off) + d
			if i >= 0 && i < count {
				s = append(s, i)
			}
		}
		return s
	}
	// boundary lattice: boundary offsets x boundary positions
	for _, sd := range bseeds {
		off := offsetOf(sd)
		for _, i := range steps(off) {
			emit(sd, portAt(off, i), 0)
		}
		emit(sd, 0, 0)
		emit(sd, 15999, 0)
		emit(sd, 0, portAt(off, 0))
		emit(sd, 0, portAt(off, count-1))
		emit(sd, portAt(off, 5), portAt(off, 5))
		emit(sd, portAt(off, 5), portAt(off, 4))
		emit(sd, portAt(off, 4), portAt(off, 5))
	}
	for c := 0; c < n; c++ {
		var sd int64
		if r.Intn(5) == 0 {
			sd = bseeds[r.Intn(len(bseeds))]
		} else {
			sd = int64(r.Intn(1 << 30))
		}
		off := offsetOf(sd)
		st := steps(off)
		posn := func() int {
			if r.Intn(2) == 0 {
				return st[r.Intn(len(st))]
			}
			return r.Intn(count)
		}
		switch r.Intn(8) {
		case 0, 1, 2, 3: // exactly one acceptable port
			emit(sd, portAt(off, posn()), 0)
		case 4: // nothing acceptable (or only ports below the range)
			emit(sd, []int{0, 1, 15999, 1024}[r.Intn(4)], 0)
		case 5: // error somewhere
			emit(sd, 0, portAt(off, posn()))
		default: // acceptable port and an error: whichever comes first in probe order
			emit(sd, portAt(off, posn()), portAt(off, posn()))
		}
	}
}

// concurrent: 8 goroutines reserve and release random tuples; each holds at most one
// reservation.  Under a snapshot lock the set of currently held reservations is recorded.
func concurrent(w io.Writer, seed uint64, rounds int) {
	pm := ports.NewPortManager()
	var mu sync.RWMutex // writers = snapshot; readers = workers while they hold/change a reservation
	heldNow := make([]*held, 8)
	var wg sync.WaitGroup
	stop := make(chan struct{})
	for g := 0; g < 8; g++ {
		wg.Add(1)
		go func(g int) {
			defer wg.Done()
			r := gen.New(seed*977 + uint64(g))
			for {
				select {
				case <-stop:
					return
				default:
				}
				h := held{nets: netLists[r.Intn(len(netLists))], tr: 6, addr: addrs[r.Intn(len(addrs))], port: portSet[r.Intn(3)]}
				mu.RLock()
				if heldNow[g] == nil {
					if _, err := pm.ReservePort(h.nets, h.tr, h.addr, h.port); err == nil {
						hh := h
						heldNow[g] = &hh
					}
				} else {
					x := heldNow[g]
					pm.ReleasePort(x.nets, x.tr, x.addr, x.port)
					heldNow[g] = nil
				}
				mu.RUnlock()
			}
		}(g)
	}
	for i := 0; i < rounds; i++ {
		time.Sleep(100 * time.Microsecond) // let the workers run between snapshots
		mu.Lock()
		var gs []string
		for _, x := range heldNow {
			if x != nil {
				gs = append(gs, fmt.Sprintf("(%s, %d, %d, %d)", netsStr(x.nets), x.tr, addrID(x.addr), x.port))
			}
		}
		mu.Unlock()
		fmt.Fprintf(w, "CConc [%s]\n", strings.Join(gs, "; "))
		stats["conc-snapshot"]++
	}
	close(stop)
	wg.Wait()
}

func main() {
	log.SetOutput(io.Discard)
	seed := flag.Uint64("seed", 1, "seed")
	n := flag.Int("n", 2000, "number of histories")
	npick := flag.Int("npick", 300, "number of random PickEphemeralPort cases (after the boundary lattice)")
	conc := flag.Int("conc", 0, "number of snapshots of the concurrent run (search aid)")
	flag.Parse()
	w := bufio.NewWriter(os.Stdout)
	defer w.Flush()
	r := gen.New(*seed)
	bseeds := boundarySeeds()
	pickCases(w, r, *npick, bseeds)
	for i := 0; i < *n; i++ {
		seeds := []int64{int64(r.Intn(1 << 30)), int64(r.Intn(1 << 30)), bseeds[r.Intn(len(bseeds))]}
		fmt.Fprintln(w, history(r, seeds, bseeds))
	}
	if *conc > 0 {
		concurrent(w, *seed, *conc)
	}
	fmt.Fprintf(w, "# generator: histories=%d (1-40 ops + 6 closing queries; 4 network lists x 2 transports x 4 addresses incl. wildcard x 6 ports + ephemeral) picks=%d+lattice conc=%d\n", *n, *npick, *conc)
	keys := []string{"grant", "refuse", "eph-grant", "eph-grant-after-collision", "eph-fail", "release-held", "release-othernets", "release-random", "query",
		"pick-only-p", "pick-none", "pick-error", "pick-port+error", "conc-snapshot", "panic"}
	for _, k := range keys {
		fmt.Fprintf(w, "# ops %s=%d\n", k, stats[k])
	}
}
