// h_tcp: lock-step traces of an established TCP connection of the real stack against a scripted
// peer.  Each output line is one Coq term of type NP.Corr.TcpTrace.case: configuration, the peer's
// byte stream, the initial protocol state, and per event (event, state snapshot, frames emitted,
// application result) as produced by the IMPLEMENTATION.  -mix selects the event mix
// (c01 data integrity, c04 windows, c05 loss recovery, c02 close).
package main

import (
	"bufio"
	"flag"
	"fmt"
	"io"
	"log"
	"os"
	"strings"
	"time"

	"aaverif/internal/gen"
	"aaverif/internal/netx"
	"aaverif/internal/tcpx"
)

type script struct {
	r       *gen.Rng
	c       *tcpx.Conn
	mix     string
	peer    []byte // the peer's stream
	pNext   int    // next new offset of the peer stream
	wstream []byte // what the application has written (accepted bytes)
	wTotal  int
	// peer's view of the stack's stream
	maxEnd   uint32 // highest sequence number (end) seen from the stack
	ackedTo  uint32 // last cumulative ack the peer sent
	lastAck  netx.TCPSeg
	haveLast bool
	mss      int
	steps    []string
	finSent  bool
	peerFin  bool
	wscale   int
	evKinds  map[string]int
	advAck   uint32 // last ack / window field seen from the stack
	advWnd   uint16
	rcvScale uint
	bigRcv   bool
	zeroW    int // forced opening: a write of this many bytes whose end is sequence number 2^32 (or 2^31) exactly, then its ACK
	zeroP    int // forced opening: peer data of this many bytes ending exactly on the boundary
	burstG   int // forced first out-of-order burst (0 = none): gap, number of segments
	burstK   int
}

var wnds = []uint16{0, 1, 7, 50, 200, 1000, 4000, 30000, 65535}

func (s *script) snapObs(ev string, res string) bool {
	if !s.c.Sync(5 * time.Second) {
		s.steps = append(s.steps, fmt.Sprintf("HUNG %s", ev))
		return false
	}
	fr := s.c.Frames()
	for _, f := range fr {
		end := f.Seq + uint32(len(f.Payload))
		if f.Flags&netx.FlagFin != 0 {
			end++
		}
		if int32(end-s.maxEnd) > 0 {
			s.maxEnd = end
		}
		if f.Flags&netx.FlagRst == 0 {
			s.advAck, s.advWnd = f.Ack, f.Wnd
		}
	}
	st := s.c.Snap()
	s.steps = append(s.steps, fmt.Sprintf("mkObs (%s) %s %s (%s)", ev, tcpx.CoqState(st), tcpx.CoqFrames(fr), res))
	return st.EState == 4
}

func (s *script) pickWnd() uint16 {
	switch s.mix {
	case "c04":
		return wnds[s.r.Intn(len(wnds))]
	case "c02":
		if s.r.Intn(3) == 0 {
			return wnds[s.r.Intn(5)] // 0, 1, 7, 50, 200: data stays queued while the connection closes
		}
		return 30000
	default:
		if s.r.Intn(6) == 0 {
			return wnds[s.r.Intn(len(wnds))]
		}
		return 30000
	}
}

// withTS adds the timestamp option the scripted peer uses (when timestamps were negotiated)
func (s *script) withTS(t netx.TCPSeg) netx.TCPSeg {
	if s.c.Cfg.PeerTS {
		ecr := uint32(1 + s.r.Intn(1000))
		t.Opts = []byte{1, 1, 8, 10, 0, 0, 0, byte(2 + len(s.steps)), byte(ecr >> 24), byte(ecr >> 16), byte(ecr >> 8), byte(ecr)}
	}
	return t
}

func (s *script) seg(t netx.TCPSeg) bool {
	if s.c.Cfg.PeerTS {
		// timestamp option: NOP NOP TS(val, ecr); ecr non-zero most of the time
		ecr := uint32(1 + s.r.Intn(1000))
		if s.r.Intn(8) == 0 {
			ecr = 0
		}
		o := []byte{1, 1, 8, 10, 0, 0, 0, byte(2 + len(s.steps)), byte(ecr >> 24), byte(ecr >> 16), byte(ecr >> 8), byte(ecr)}
		if s.r.Intn(12) == 0 {
			o = nil // a segment without the option is dropped by the code
		}
		t.Opts = o
	}
	s.c.InjectRaw(t)
	ok := s.c.Sync(5 * time.Second)
	rto := int64(0)
	if ok {
		rto = s.c.Snap().Rto
	}
	return s.snapObs(fmt.Sprintf("ESeg %s %d", tcpx.CoqSeg(t), rto), "RNone")
}

func (s *script) seqOf(off int) uint32 { return s.c.IRS + 1 + uint32(off) }

// peerData injects a data segment that is a slice of the peer stream.
func (s *script) peerData(kind int) bool {
	n := 1 + s.r.Intn(s.mss)
	if s.r.Intn(3) == 0 {
		n = s.mss
	}
	off := s.pNext
	switch kind {
	case 0: // in order
	case 1: // ahead (out of order)
		off = s.pNext + 1 + s.r.Intn(3*s.mss)
	case 2: // overlapping old data
		off = s.pNext - 1 - s.r.Intn(2*s.mss)
		if off < 0 {
			off = 0
		}
	case 3: // far beyond the window
		off = s.pNext + 70000 + s.r.Intn(100000)
	}
	if off+n > len(s.peer) {
		n = len(s.peer) - off
	}
	if n <= 0 {
		return true
	}
	fl := byte(netx.FlagAck)
	if s.r.Intn(3) == 0 {
		fl |= netx.FlagPsh
	}
	fin := false
	if s.mix == "c02" && off+n == len(s.peer) && s.r.Intn(2) == 0 {
		fl |= netx.FlagFin
		fin = true
	}
	t := netx.TCPSeg{Seq: s.seqOf(off), Ack: s.ackNow(), Flags: fl, Wnd: s.pickWnd(), Payload: s.peer[off : off+n]}
	alive := s.seg(t)
	if kind == 0 || (kind == 2 && off+n > s.pNext) {
		if off+n > s.pNext {
			s.pNext = off + n
		}
	}
	if fin && off+n >= s.pNext {
		s.peerFin = true
	}
	return alive
}

// mtuShrink: a router on the path reports a smaller MTU for one of the connection's packets.  The
// sender lowers its maximum payload, rewinds to the first queued segment that no longer fits and
// resends from there (snd.go updateMaxPayloadSize).  There is no model event for this: the step is
// recorded as an application write of zero bytes (which changes nothing in any monitor) and the
// traces of this mode are judged by the monitors only.
func (s *script) mtuShrink() bool {
	st := s.c.Snap()
	cur := st.MaxPayload + 40
	lo := 68
	if cur <= lo+1 {
		return s.read()
	}
	m := lo + s.r.Intn(cur-lo)
	if s.r.Intn(4) == 0 {
		m = cur + s.r.Intn(100) // not smaller: must change nothing
	}
	if s.r.Intn(12) == 0 {
		// absurd values a forged or broken message may carry (below the IPv4 minimum of 68, below
		// the header sizes): the sender must survive and keep every later packet as small as it can
		m = []int{0, 1, 19, 20, 21, 40, 41, 52, 53, 67}[s.r.Intn(10)]
	}
	if !s.c.InjectFragNeeded(uint16(m), st.SndUna) {
		return s.read()
	}
	return s.snapObs(mtuEvent(m), "RCount 0")
}

// an MTU notification in the trace: a "write" that is accepted for 0 bytes and whose "data" are the
// reported next-hop MTUs + 1000 (no byte of a real write can be that large)
func mtuEvent(ms ...int) string {
	v := make([]string, len(ms))
	for i, m := range ms {
		v[i] = fmt.Sprint(1000 + m)
	}
	return "EWrite [" + strings.Join(v, ";") + "]"
}

// mtuDouble: two routers report different MTUs for the same flight, the smaller one first, back to
// back: whichever way the two notifications are folded together, the smaller limit must win.
// Recorded like mtuShrink (an application write of zero bytes).
func (s *script) mtuDouble() bool {
	st := s.c.Snap()
	mp := st.MaxPayload
	if mp < 60 || s.c.Cfg.V6 {
		return s.mtuShrink()
	}
	small := 68 + s.r.Intn((mp+40-68)/2)
	big := small + 1 + s.r.Intn(mp+40-small)
	if !s.c.InjectFragNeededBurst(st.SndUna, uint16(small), uint16(big)) {
		return s.read()
	}
	return s.snapObs(mtuEvent(small, big), "RCount 0")
}

// mtuCoalesced: two routers report different MTUs, the smaller one first, and BOTH messages are
// recorded before the protocol goroutine applies either (deterministically: the goroutine is held
// inside the link endpoint's WritePacket of a pure ACK - the answer to an in-order data segment of
// the peer - while the two ICMP messages are delivered).  The smaller limit must win.  Two
// observations are recorded, both with the state after the whole exchange: the peer's segment with
// the frames emitted before the messages were delivered (the ACK), then the MTU notification with
// everything emitted afterwards.
func (s *script) mtuCoalesced() bool {
	st := s.c.Snap()
	mp := st.MaxPayload
	if mp < 60 || s.c.Cfg.V6 || s.pNext >= len(s.peer) || st.EState != 4 {
		return s.mtuShrink()
	}
	small := 68 + s.r.Intn((mp+40-68)/2)
	big := small + 1 + s.r.Intn(mp+40-small)
	n := 1 + s.r.Intn(s.mss)
	if s.pNext+n > len(s.peer) {
		n = len(s.peer) - s.pNext
	}
	// the segment acknowledges nothing new and repeats the window in force, so that it gives the
	// sender no reason to transmit: the only frame it provokes is the ACK of its data
	t := s.withTS(netx.TCPSeg{Seq: s.seqOf(s.pNext), Ack: st.SndUna, Flags: netx.FlagAck, Wnd: uint16(st.SndWnd >> st.SndWndScale), Payload: s.peer[s.pNext : s.pNext+n]})
	inHook, release := make(chan struct{}, 1), make(chan struct{})
	fired := false
	s.c.N.L.OnFrame = func(f netx.Frame) {
		if fired {
			return
		}
		fired = true
		inHook <- struct{}{}
		<-release
	}
	s.c.InjectRaw(t)
	held := false
	select {
	case <-inHook:
		held = true
	case <-time.After(2 * time.Second):
	}
	var pre []netx.TCPSeg
	if held {
		pre = s.c.Frames()
		s.c.InjectFragNeededBurst(st.SndUna, uint16(small), uint16(big))
		close(release)
	}
	s.c.N.L.OnFrame = nil
	if !held {
		// no frame was emitted in answer (e.g. the segment was dropped): an ordinary segment event
		s.count("mtu-coalesced-not-held")
		rto := int64(0)
		if s.c.Sync(5 * time.Second) {
			rto = s.c.Snap().Rto
		}
		s.pNext += n
		return s.snapObs(fmt.Sprintf("ESeg %s %d", tcpx.CoqSeg(t), rto), "RNone")
	}
	if !s.c.Sync(5 * time.Second) {
		s.steps = append(s.steps, "HUNG mtu-coalesced")
		return false
	}
	s.pNext += n
	post := s.c.Frames()
	for _, f := range append(append([]netx.TCPSeg{}, pre...), post...) {
		end := f.Seq + uint32(len(f.Payload))
		if f.Flags&netx.FlagFin != 0 {
			end++
		}
		if int32(end-s.maxEnd) > 0 {
			s.maxEnd = end
		}
		if f.Flags&netx.FlagRst == 0 {
			s.advAck, s.advWnd = f.Ack, f.Wnd
		}
	}
	fin := s.c.Snap()
	// the first observation is taken "before the notification": same state, old payload limit
	mid := fin
	mid.MaxPayload = mp
	s.steps = append(s.steps, fmt.Sprintf("mkObs (ESeg %s %d) %s %s (RNone)", tcpx.CoqSeg(t), fin.Rto, tcpx.CoqState(mid), tcpx.CoqFrames(pre)))
	s.steps = append(s.steps, fmt.Sprintf("mkObs (%s) %s %s (RCount 0)", mtuEvent(small, big), tcpx.CoqState(fin), tcpx.CoqFrames(post)))
	return fin.EState == 4
}

// mtuRecovery: loss recovery meets a path-MTU reduction.  A flight of full-sized segments, three
// duplicate ACKs (fast retransmit of the head, recovery entered), then the path MTU drops below
// the segment size (the head is re-split and resent), then ACKs that end exactly at the pieces'
// boundaries: every partial ACK makes the sender retransmit the new head through resendSegment,
// which must not be larger than the new maximum payload.
func (s *script) mtuRecovery() bool {
	st := s.c.Snap()
	mp := st.MaxPayload
	if mp < 12 || s.c.Cfg.V6 {
		return true
	}
	if !s.writeN(mp*(3+s.r.Intn(4)) + s.r.Intn(mp)) {
		return false
	}
	if !s.dupAcks(3) {
		return false
	}
	st = s.c.Snap()
	// usually less than half of the old size, so that remainders and untouched old segments
	// are larger than the new maximum
	hi := mp + 40
	if s.r.Intn(4) != 0 {
		hi = mp/2 + 40
	}
	if hi <= 69 {
		hi = 70
	}
	m := 68 + s.r.Intn(hi-68)
	if !s.c.InjectFragNeeded(uint16(m), st.SndUna) {
		return true
	}
	if !s.snapObs(mtuEvent(m), "RCount 0") {
		return false
	}
	for i := 0; i < 4+s.r.Intn(5); i++ {
		if !s.pureAck(5) { // acknowledge exactly the first outstanding piece
			return false
		}
	}
	return true
}

// oooBurst queues k consecutive segments AHEAD of the next expected byte (in random order, so the
// pending heap really reorders), then fills the gap: the drain of the out-of-order queue has to
// deliver all of them at once.  With the peer's sequence numbers placed so that the burst straddles
// 2^31 or 2^32 the heap's ordering is exercised across the boundary.
func (s *script) oooBurst(g, k int) bool {
	type piece struct{ off, n int }
	var ps []piece
	off := s.pNext + g
	for i := 0; i < k; i++ {
		n := s.mss
		if s.r.Intn(3) == 0 {
			n = 1 + s.r.Intn(s.mss)
		}
		if off+n > len(s.peer) {
			n = len(s.peer) - off
		}
		if n <= 0 {
			break
		}
		ps = append(ps, piece{off, n})
		off += n
	}
	if len(ps) == 0 || s.pNext+g > len(s.peer) {
		return s.peerData(0)
	}
	end := off
	for i := len(ps) - 1; i > 0; i-- {
		j := s.r.Intn(i + 1)
		ps[i], ps[j] = ps[j], ps[i]
	}
	for _, p := range ps {
		t := netx.TCPSeg{Seq: s.seqOf(p.off), Ack: s.ackNow(), Flags: netx.FlagAck, Wnd: 30000, Payload: s.peer[p.off : p.off+p.n]}
		if !s.seg(t) {
			return false
		}
	}
	t := netx.TCPSeg{Seq: s.seqOf(s.pNext), Ack: s.ackNow(), Flags: netx.FlagAck, Wnd: 30000, Payload: s.peer[s.pNext : s.pNext+g]}
	alive := s.seg(t)
	s.pNext = end
	return alive
}

// edgeProbe: a data segment whose first byte sits EXACTLY on the right edge of the window the stack
// advertised (wholly outside it: it must not be kept), sometimes one byte before or after, and
// then in-order data that fills the window exactly up to that edge without the application
// reading in between - whatever was wrongly queued at the edge would now be delivered.
func (s *script) edgeProbe() bool {
	st := s.c.Snap()
	edgeOff := s.pNext + int(st.RcvAcc-st.RcvNxt)
	if int(st.RcvAcc-st.RcvNxt) <= 0 || int(st.RcvAcc-st.RcvNxt) > 60000 {
		return s.peerData(0)
	}
	off := edgeOff + []int{0, 0, 0, -1, 1}[s.r.Intn(5)]
	n := 1 + s.r.Intn(s.mss)
	if off < 0 || off+n > len(s.peer) {
		return s.peerData(0)
	}
	t := netx.TCPSeg{Seq: s.seqOf(off), Ack: s.ackNow(), Flags: netx.FlagAck, Wnd: 30000, Payload: s.peer[off : off+n]}
	if !s.seg(t) {
		return false
	}
	// fill the window in order, in one or two segments
	room := edgeOff - s.pNext
	for room > 0 {
		k := room
		if k > 1 && s.r.Intn(2) == 0 {
			k = 1 + s.r.Intn(room)
		}
		f := netx.TCPSeg{Seq: s.seqOf(s.pNext), Ack: s.ackNow(), Flags: netx.FlagAck, Wnd: 30000, Payload: s.peer[s.pNext : s.pNext+k]}
		s.pNext += k
		room -= k
		if !s.seg(f) {
			return false
		}
	}
	return true
}

// peerFill sends in-order data that exactly respects the stack's latest advertised right edge
// (ack + wnd<<scale), in chunks of arbitrary parity, so that a receive buffer with window scaling
// can be filled to within 2^scale-1 bytes of its end.
func (s *script) peerFill() bool {
	edge := s.advAck + uint32(s.advWnd)<<s.rcvScale
	room := int(int32(edge - s.seqOf(s.pNext)))
	if room <= 0 {
		return s.read()
	}
	n := 1 + s.r.Intn(20000)
	if s.r.Intn(3) == 0 || n > room {
		n = room
	}
	if n > 60000 {
		n = 60000 // one IP packet
	}
	if s.pNext+n > len(s.peer) {
		n = len(s.peer) - s.pNext
	}
	if n <= 0 {
		return true
	}
	t := netx.TCPSeg{Seq: s.seqOf(s.pNext), Ack: s.ackNow(), Flags: netx.FlagAck, Wnd: 30000, Payload: s.peer[s.pNext : s.pNext+n]}
	s.pNext += n
	return s.seg(t)
}

func (s *script) ackNow() uint32 {
	// cumulative ack of everything seen
	return s.maxEnd
}

func (s *script) pureAck(kind int) bool {
	ack := s.maxEnd
	una := s.c.Snap().SndUna
	switch kind {
	case 0: // cumulative
	case 1: // partial: somewhere between sndUna and the highest end
		d := int32(s.maxEnd - una)
		if d > 1 {
			ack = una + 1 + uint32(s.r.Intn(int(d-1)))
		}
	case 2: // duplicate of the current sndUna
		ack = una
	case 3: // beyond anything sent
		ack = s.maxEnd + 1 + uint32(s.r.Intn(5000))
	case 4: // old
		ack = una - 1 - uint32(s.r.Intn(3000))
	case 6: // everything but the last sequence number in flight (the FIN, or the last data byte)
		if int32(s.maxEnd-una) > 1 {
			ack = s.maxEnd - 1
		}
	case 5: // segment boundary ack: ack the first outstanding segment only
		st := s.c.Snap()
		if len(st.WriteList) > 0 {
			ack = st.WriteList[0].Seq + uint32(len(st.WriteList[0].Data))
		}
	}
	t := netx.TCPSeg{Seq: s.seqOf(s.pNext), Ack: ack, Flags: netx.FlagAck, Wnd: s.pickWnd()}
	if kind == 2 && s.haveLast && s.lastAck.Ack == ack {
		t.Wnd = s.lastAck.Wnd // an exact duplicate
	}
	s.lastAck, s.haveLast = t, true
	return s.seg(t)
}

func (s *script) dupAcks(k int) bool {
	una := s.c.Snap().SndUna
	w := s.pickWnd()
	if w == 0 {
		w = 30000
	}
	// the first establishes the window, then k exact duplicates
	for i := 0; i <= k; i++ {
		t := netx.TCPSeg{Seq: s.seqOf(s.pNext), Ack: una, Flags: netx.FlagAck, Wnd: w}
		s.lastAck, s.haveLast = t, true
		if !s.seg(t) {
			return false
		}
	}
	return true
}

func (s *script) write() bool {
	sizes := []int{1, s.mss - 1, s.mss, s.mss + 1, 3*s.mss + 7, 12 * s.mss, 40 * s.mss}
	n := sizes[s.r.Intn(len(sizes))]
	if n <= 0 {
		n = 1
	}
	if s.mix != "c04" && s.mix != "c05" && s.mix != "c02" && n > 6*s.mss {
		n = 2*s.mss + 3
	}
	return s.writeN(n)
}

func (s *script) writeN(n int) bool {
	b := make([]byte, n)
	for i := range b {
		b[i] = tcpx.WPat(s.wTotal + i)
	}
	got := s.c.Write(b)
	res := fmt.Sprintf("RCount %d", got)
	if got < 0 {
		res = fmt.Sprintf("RErr (%d)", got)
	} else {
		s.wTotal += got
	}
	return s.snapObs("EWrite "+tcpx.ZL(b), res)
}

func (s *script) read() bool {
	v, e := s.c.Read()
	res := "RBytes " + tcpx.ZL(v)
	if e != 0 {
		res = fmt.Sprintf("RErr (%d)", e)
	}
	return s.snapObs("ERead", res)
}

func (s *script) shutw() bool {
	e := s.c.ShutdownWrite()
	res := "RCount 0"
	if e != 0 {
		res = fmt.Sprintf("RErr (%d)", e)
	}
	s.finSent = true
	return s.snapObs("EShutW", res)
}

func (s *script) rto() bool {
	if !s.c.FireRTO() {
		return true // the timer is not running: no expiry can happen now
	}
	return s.snapObs("ERto", "RNone")
}

func (s *script) peerFinSeg() bool {
	t := netx.TCPSeg{Seq: s.seqOf(s.pNext), Ack: s.ackNow(), Flags: netx.FlagAck | netx.FlagFin, Wnd: s.pickWnd()}
	s.peerFin = true
	return s.seg(t)
}

func (s *script) rst(inWindow bool) bool {
	seq := s.seqOf(s.pNext)
	if !inWindow {
		seq = s.seqOf(s.pNext) + 0x40000000
	}
	return s.seg(netx.TCPSeg{Seq: seq, Ack: s.ackNow(), Flags: netx.FlagRst, Wnd: 0})
}

func (s *script) count(k string) { s.evKinds[k]++ }

// one event according to the mix; returns false when the connection is no longer connected
func (s *script) event() bool {
	if mtuEvents && !s.c.Cfg.V6 && s.r.Intn(12) == 0 {
		switch s.r.Intn(4) {
		case 0:
			s.count("mtu-double-report")
			return s.mtuDouble()
		case 1:
			s.count("mtu-coalesced-reports")
			return s.mtuCoalesced()
		}
		s.count("mtu-shrink")
		return s.mtuShrink()
	}
	x := s.r.Intn(100)
	switch s.mix {
	case "c05":
		switch {
		case x < 25:
			s.count("write")
			return s.write()
		case x < 40:
			s.count("ack-cumulative")
			return s.pureAck(0)
		case x < 50:
			s.count("ack-boundary")
			return s.pureAck(5)
		case x < 60:
			s.count("ack-partial")
			return s.pureAck(1)
		case x < 80:
			s.count("dupacks")
			return s.dupAcks(1 + s.r.Intn(5))
		case x < 92:
			s.count("rto")
			return s.rto()
		case x < 96:
			s.count("peer-data")
			return s.peerData(0)
		default:
			s.count("read")
			return s.read()
		}
	case "c04":
		if s.bigRcv {
			switch {
			case x < 60:
				s.count("peer-fill-to-edge")
				return s.peerFill()
			case x < 85:
				s.count("read")
				return s.read()
			case x < 92:
				s.count("ack-cumulative")
				return s.pureAck(0)
			default:
				s.count("write")
				return s.write()
			}
		}
		switch {
		case x < 25:
			s.count("write")
			return s.write()
		case x < 45:
			s.count("ack-cumulative")
			return s.pureAck(0)
		case x < 55:
			s.count("ack-other")
			return s.pureAck(1 + s.r.Intn(4))
		case x < 70:
			s.count("peer-data")
			return s.peerData(s.r.Intn(4))
		case x < 75:
			s.count("peer-data-at-the-edge")
			return s.edgeProbe()
		case x < 90:
			s.count("read")
			return s.read()
		case x < 95:
			s.count("rto")
			return s.rto()
		default:
			s.count("dupacks")
			return s.dupAcks(3)
		}
	case "c02":
		switch {
		case x < 15:
			s.count("write")
			return s.write()
		case x < 27:
			s.count("ack-cumulative")
			return s.pureAck(0)
		case x < 35:
			// tail loss: everything queued may already have been sent once; the rest (the last
			// segment or the FIN) stays in flight and only the retransmission timer can recover it
			s.count("ack-partial")
			return s.pureAck([]int{1, 5, 6}[s.r.Intn(3)])
		case x < 55:
			s.count("peer-data")
			return s.peerData(s.r.Intn(3))
		case x < 70:
			s.count("read")
			return s.read()
		case x < 80:
			s.count("shutdown-write")
			return s.shutw()
		case x < 90:
			s.count("peer-fin")
			return s.peerFinSeg()
		default:
			s.count("rto")
			return s.rto()
		}
	default: // c01
		switch {
		case x < 18:
			s.count("write")
			return s.write()
		case x < 36:
			s.count("peer-data-inorder")
			return s.peerData(0)
		case x < 40:
			s.count("peer-ooo-burst")
			return s.oooBurst(1+s.r.Intn(s.mss), 2+s.r.Intn(3))
		case x < 52:
			s.count("peer-data-ahead")
			return s.peerData(1)
		case x < 62:
			s.count("peer-data-overlap")
			return s.peerData(2)
		case x < 65:
			s.count("peer-data-far")
			return s.peerData(3)
		case x < 75:
			s.count("read")
			return s.read()
		case x < 82:
			s.count("ack-cumulative")
			return s.pureAck(0)
		case x < 88:
			s.count("ack-partial")
			return s.pureAck(1)
		case x < 91:
			s.count("ack-odd")
			return s.pureAck(2 + s.r.Intn(3))
		case x < 95:
			s.count("rto")
			return s.rto()
		case x < 96:
			s.count("rst-out-of-window")
			return s.rst(false)
		case x < 97:
			s.count("rst-in-window")
			return s.rst(true)
		case x < 98:
			s.count("peer-fin")
			return s.peerFinSeg()
		default:
			s.count("shutdown-write")
			return s.shutw()
		}
	}
}

var issChoices = []uint32{0, 1, 0x7fffff00, 0x7ffffff0, 0x7fffffff, 0x80000000, 0xffffff00, 0xfffffff0, 0xffffffff, 12345678}

var wrapOnly bool
var cubicCC bool
var mtuEvents bool

// neutral: the same script (same random choices, same options, buffers and events) with the initial
// sequence numbers moved far away from 2^31 and 2^32 - the twin a wrap-adjacent placement is
// compared with (C14: "behaves identically wherever the ISS places the stream").
func runScript(seed uint64, idx int, mix string, nev int, kinds map[string]int, neutral bool) (string, error) {
	r := gen.New(seed*1000003 + uint64(idx))
	cfg := tcpx.Cfg{PeerWnd: 30000, PeerWS: -1, Cubic: cubicCC}
	cfg.ISS = issChoices[r.Intn(len(issChoices))]
	cfg.IRS = issChoices[r.Intn(len(issChoices))]
	if r.Intn(3) == 0 {
		cfg.ISS, cfg.IRS = r.U32(), r.U32()
	}
	msss := []int{20, 33, 48, 100, 536, 1460}
	cfg.PeerMSS = msss[r.Intn(4)]
	if r.Intn(10) == 0 {
		cfg.PeerMSS = msss[4+r.Intn(2)]
	}
	if mtuEvents && r.Intn(2) == 0 {
		// room for a real path-MTU reduction (the IPv4 minimum MTU of 68 leaves 28 bytes of payload)
		cfg.PeerMSS = []int{100, 200, 536}[r.Intn(3)]
	}
	if r.Intn(3) == 0 {
		cfg.PeerWS = r.Intn(4)
	}
	if mix == "c04" && r.Intn(3) == 0 {
		// a small window in the SYN-ACK itself (never scaled, RFC 7323 2.2), usually with a scale
		cfg.PeerWnd = []uint16{0, 100, 1000, 5000}[r.Intn(4)]
		if r.Intn(4) != 0 {
			cfg.PeerWS = 1 + r.Intn(3)
		}
	}
	cfg.PeerTS = r.Intn(4) == 0
	cfg.PeerSACK = r.Intn(3) == 0
	cfg.V6 = r.Intn(5) == 0
	if r.Intn(3) == 0 {
		cfg.RcvBuf = []int{300, 1000, 4096}[r.Intn(3)]
	}
	if r.Intn(3) == 0 {
		cfg.SndBuf = []int{200, 1000, 4096}[r.Intn(3)]
	}
	if mix == "c04" && r.Intn(2) == 0 {
		cfg.RcvBuf = []int{100, 300, 700}[r.Intn(3)]
	}
	bigRcv := false
	if mix == "c04" && !wrapOnly && r.Intn(10) == 0 {
		// a receive buffer that needs window scaling and can still be filled within one script
		cfg.RcvBuf = []int{65536, 65537, 70001, 131072}[r.Intn(4)]
		cfg.PeerWS = r.Intn(3)
		bigRcv = true
	}
	// placements that make a window edge (not only the next sequence number) cross 2^32 or 2^31
	// during the script: the receive window's right edge starts just below the boundary, or the
	// peer's window / the stream itself straddles it
	effRcv := uint32(1 << 20)
	if cfg.RcvBuf > 0 {
		effRcv = uint32(cfg.RcvBuf)
	}
	wsel := r.Intn(8)
	burstG, burstK := 0, 0
	zeroW, zeroP := 0, 0
	if wrapOnly {
		// C14's TCP corollary: every script places a window edge or the stream across 2^32 / 2^31
		x := r.Intn(100)
		switch {
		case x < 36:
			wsel = 0
		case x < 48:
			wsel = 1
		case x < 60:
			wsel = 2
		case x < 68:
			wsel = 3
		case x < 72:
			wsel = 4
		case x < 86:
			wsel = 5
		default:
			wsel = 6
		}
		if idx%8 == 3 {
			wsel = 6 // every run has these placements, whatever the seed
		}
		if wsel <= 1 && r.Intn(3) != 0 {
			// a small receive buffer: a window's worth of data fits in one script
			cfg.RcvBuf = []int{100, 300, 700}[r.Intn(3)]
			effRcv = uint32(cfg.RcvBuf)
		}
		if wsel >= 4 {
			near := []uint32{0x7fffff00, 0x7ffffff0, 0x7fffffff, 0xffffff00, 0xfffffff0, 0xffffffff}
			cfg.ISS, cfg.IRS = near[r.Intn(len(near))], near[r.Intn(len(near))]
		}
	}
	switch wsel {
	case 0:
		cfg.IRS = -effRcv - 1 - uint32(r.Intn(900))
	case 1:
		cfg.IRS = uint32(1<<31) - effRcv - 1 - uint32(r.Intn(900))
	case 2:
		cfg.ISS = 0xffffffff - 30000 - uint32(r.Intn(3000))
	case 3:
		cfg.ISS = uint32(1<<31) - 30000 - 1 - uint32(r.Intn(3000))
	case 5:
		// the first event queues 2-4 out-of-order segments whose sequence numbers lie on both
		// sides of 2^31 (2/3) or 2^32 (1/3), then fills the gap
		m := cfg.PeerMSS
		if m > 120 {
			m = 120
		}
		burstG, burstK = 1+r.Intn(m), 2+r.Intn(3)
		j := burstG + 1 + r.Intn((burstK-1)*m) // stream offset that sits exactly on the boundary
		b := uint32(1 << 31)
		if r.Intn(3) == 0 {
			b = 0
		}
		cfg.IRS = b - 1 - uint32(j)
	case 6:
		// a cumulative ACK (the peer's or ours) whose acknowledgement number is EXACTLY 0 (2/3) or
		// 2^31 (1/3): the first write, or the peer's first data, ends on the boundary
		m := cfg.PeerMSS
		if m > 120 {
			m = 120
		}
		b := uint32(0)
		if (idx/16)%3 == 2 {
			b = 1 << 31
		}
		if (idx/8)%2 == 0 {
			zeroW = []int{1, m, 2*m + 3, 5 * m}[r.Intn(4)]
			cfg.ISS = b - 1 - uint32(zeroW)
		} else {
			zeroP = 1 + r.Intn(m)
			cfg.IRS = b - 1 - uint32(zeroP)
		}
	}
	if neutral {
		cfg.ISS, cfg.IRS = 0x10000000+uint32(idx)*7919, 0x30000000+uint32(idx)*104729
	}
	c, err := tcpx.Dial(cfg)
	if err != nil {
		return "", err
	}
	s := &script{r: r, c: c, mix: mix, mss: cfg.PeerMSS, evKinds: kinds}
	if s.mss > 120 {
		// keep the case small: the peer still sends small segments
		s.mss = 120
	}
	s.bigRcv = bigRcv
	s.burstG, s.burstK = burstG, burstK
	s.zeroW, s.zeroP = zeroW, zeroP
	plen := 400 + r.Intn(1200)
	if bigRcv {
		plen = 300000
	}
	s.peer = make([]byte, plen)
	for i := range s.peer {
		s.peer[i] = tcpx.PPat(i)
	}
	s.maxEnd = c.ISS + 1
	init := c.Snap()
	s.rcvScale = uint(init.RcvWndScale)
	s.advAck = init.RcvNxt
	w0 := (init.RcvAcc - init.RcvNxt) >> s.rcvScale
	if w0 > 65535 {
		w0 = 65535
	}
	s.advWnd = uint16(w0)
	if bigRcv && nev > 26 {
		nev = 26 // these traces carry 64+ KiB of queued data in every snapshot
	}
	alive := true
	if mtuEvents && r.Intn(3) == 0 {
		s.count("mtu-recovery-scenario")
		alive = s.mtuRecovery()
	}
	if alive && s.zeroW > 0 {
		s.count("ack-number-exactly-on-boundary")
		alive = s.writeN(s.zeroW) && s.pureAck(0) && s.writeN(1+s.r.Intn(s.mss)) && s.pureAck(0)
	}
	if alive && s.zeroP > 0 && s.zeroP <= len(s.peer) {
		s.count("own-ack-exactly-on-boundary")
		t := netx.TCPSeg{Seq: s.seqOf(0), Ack: s.ackNow(), Flags: netx.FlagAck, Wnd: 30000, Payload: s.peer[:s.zeroP]}
		alive = s.seg(t)
		s.pNext = s.zeroP
	}
	if alive && s.burstK > 0 {
		s.count("peer-ooo-burst-straddling")
		alive = s.oooBurst(s.burstG, s.burstK)
	}
	for i := 0; alive && i < nev; i++ {
		if !s.event() {
			break
		}
	}
	v6 := 0
	if cfg.V6 {
		v6 = 1
	}
	// what the SYN-ACK really carried (an option is only answered when the stack's SYN offered it)
	synTS, synSACK, synWS, _ := tcpx.OptInfo(c.SynOpts)
	effWS := -1
	if cfg.PeerWS >= 0 && synWS {
		effWS = cfg.PeerWS
	}
	rb, sb := cfg.RcvBuf, cfg.SndBuf
	if rb == 0 {
		rb = 1 << 20
	}
	if sb == 0 {
		sb = 1 << 20
	}
	line := fmt.Sprintf("CTrace [%d;%d;%d;%d;%d;%d;(%d);%d;%d;%d;%d;%d;(%d)] %s %s [%s]", c.ISS, c.IRS, cfg.PeerMSS, cfg.MTU, v6, cfg.PeerWnd, effWS,
		b2i(cfg.PeerTS && synTS), b2i(cfg.PeerSACK && synSACK), b2i(synSACK), rb, sb, synShift(c.SynOpts), tcpx.ZL(s.peer), tcpx.CoqState(init), strings.Join(s.steps, ";"))
	c.EP.Close()
	return line, nil
}

func main() {
	log.SetOutput(io.Discard)
	seed := flag.Uint64("seed", 1, "seed")
	n := flag.Int("n", 50, "number of scripts")
	mix := flag.String("mix", "c01", "event mix: c01 c02 c04 c05, or a comma-separated list used round robin")
	nev := flag.Int("events", 30, "events per script")
	flag.BoolVar(&wrapOnly, "wrap", false, "only wrap-adjacent placements of ISS/IRS and window edges")
	flag.BoolVar(&mtuEvents, "mtu", false, "add path-MTU reductions (ICMP fragmentation needed) to every mix (no model event exists: monitors only)")
	flag.BoolVar(&cubicCC, "cubic", false, "run every connection with the CUBIC congestion controller (not modelled: monitors only)")
	twin := flag.Bool("twin", false, "run every script a second time with neutral initial sequence numbers and print the pair")
	flag.Parse()
	w := bufio.NewWriter(os.Stdout)
	defer w.Flush()
	kinds := map[string]int{}
	mixes := strings.Split(*mix, ",")
	for i := 0; i < *n; i++ {
		line, err := runScript(*seed, i, mixes[i%len(mixes)], *nev, kinds, false)
		if err != nil {
			fmt.Fprintf(w, "# setup-failed script %d: %v\n", i, err)
			continue
		}
		if *twin {
			line2, err := runScript(*seed, i, mixes[i%len(mixes)], *nev, map[string]int{}, true)
			if err != nil {
				fmt.Fprintf(w, "# setup-failed twin script %d: %v\n", i, err)
				continue
			}
			line = "CTwin (" + line + ") (" + line2 + ")"
		}
		fmt.Fprintln(w, line)
	}
	fmt.Fprintf(w, "# event kinds: %v\n", kinds)
}

func b2i(b bool) int {
	if b {
		return 1
	}
	return 0
}

// synShift returns the shift count of the window-scale option in a SYN's options (-1: no option).
func synShift(o []byte) int {
	for i := 0; i < len(o); {
		switch o[i] {
		case 0:
			return -1
		case 1:
			i++
			continue
		}
		if i+1 >= len(o) || o[i+1] < 2 || i+int(o[i+1]) > len(o) {
			return -1
		}
		if o[i] == 3 && o[i+1] == 3 {
			return int(o[i+2])
		}
		i += int(o[i+1])
	}
	return -1
}
