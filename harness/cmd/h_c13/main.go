// h_c13: pings a real stack (netx.NewNet: IPv4 + IPv6 on one recording NIC, two addresses per
// family) and prints one Coq term of type NP.Corr.C13.case per line: what was injected (whole IP
// packets, how they were split into views, the addresses the NIC owns) and the IP packets the
// stack emitted in response.
//
// IPv6 answers synchronously inside Inject.  The IPv4 reply is produced by the endpoint's replier
// goroutine, so an IPv4 case is closed by a sentinel echo request sent to the same endpoint:
// requests go through one FIFO channel and one goroutine, so once the sentinel's reply is out
// every reply to the request under test is out as well (the sentinel's own reply is recognised by
// a magic payload and not part of the case).
//
// Bursts: (a) gated: the link endpoint's OnFrame hook blocks the replier goroutine after every
// reply until the driver releases it, which makes the interleaving of arrivals and replier
// iterations exact and reproducible (the case lists the events in their real order);
// (b) free-running: requests injected back to back, then sentinels (listed as ordinary requests)
// until one is answered; only schedule-independent facts are compared (see Corr/C13.v).
// The driver's own idea of the queue occupancy (hint) is used ONLY to choose how long to wait for
// a frame; what is printed is what was observed.
package main

import (
	"bufio"
	"bytes"
	"encoding/binary"
	"flag"
	"fmt"
	"io"
	"log"
	"os"
	"runtime"
	"sort"
	"strings"
	"sync/atomic"
	"time"

	"aaverif/internal/gen"
	"aaverif/internal/netx"

	tcpip "github.com/brewlin/net-protocol/protocol"
	"github.com/brewlin/net-protocol/protocol/network/ipv4"
	"github.com/brewlin/net-protocol/protocol/network/ipv6"
)

var (
	own4 = [][]byte{{10, 0, 0, 1}, {10, 0, 0, 9}}
	own6 = [][]byte{
		{0xfe, 0x80, 0, 0, 0, 0, 0, 0, 0, 0, 0, 0, 0, 0, 0, 1},
		{0x20, 0x01, 0x0d, 0xb8, 0, 0, 0, 0, 0, 0, 0, 0, 0, 0, 0, 9},
	}
	peers4 = [][]byte{{10, 0, 0, 2}, {192, 168, 7, 7}, {10, 0, 0, 9}, {172, 16, 255, 254}}
	peers6 = [][]byte{
		{0xfe, 0x80, 0, 0, 0, 0, 0, 0, 0, 0, 0, 0, 0, 0, 0, 2},
		{0x20, 0x01, 0x0d, 0xb8, 0, 0, 0, 0, 0xff, 0xff, 0xff, 0xff, 0xff, 0xff, 0xff, 0xfe},
	}
	// foreign host on the same subnet, unassigned addresses, broadcast, multicast, zero
	other4 = [][]byte{{10, 0, 0, 77}, {10, 0, 1, 1}, {255, 255, 255, 255}, {224, 0, 0, 1}, {0, 0, 0, 0}, {10, 0, 0, 255}}
	other6 = [][]byte{
		{0xfe, 0x80, 0, 0, 0, 0, 0, 0, 0, 0, 0, 0, 0, 0, 0, 0x77},
		{0x20, 0x01, 0x0d, 0xb8, 0, 0, 0, 0, 0, 0, 0, 0, 0, 0, 0, 8},
		{0xff, 0x02, 0, 0, 0, 0, 0, 0, 0, 0, 0, 0, 0, 0, 0, 1},
		make([]byte, 16),
	}
	ids      = []uint16{0, 1, 0x7fff, 0x8000, 0xffff, 0x1234, 0x00ff, 0xff00}
	boundary = []int{0, 1, 2, 3, 4, 5, 6, 7, 8, 9, 15, 16, 17, 31, 32, 33, 38, 39, 40, 41, 42, 63, 64, 65,
		127, 128, 129, 255, 256, 257, 511, 512, 513, 1023, 1024, 1025, 1399, 1400, 1470, 1471, 1472}
)

type world struct {
	n      *netx.Net
	frames chan []byte
	gated  atomic.Bool
	gate   chan struct{}
	w      *bufio.Writer
	sctr   uint32
	recyc  int
	tmo    int // sentinel timeouts seen
	counts map[string]int
	lens   [8]int
}

func newWorld(out *bufio.Writer) *world {
	w := &world{frames: make(chan []byte, 1<<16), gate: make(chan struct{}), w: out, counts: map[string]int{}}
	w.n = netx.NewNet(netx.Opts{Addr4: string(own4[0]), Addr6: string(own6[0])})
	if err := w.n.S.AddAddress(1, ipv4.ProtocolNumber, tcpip.Address(own4[1])); err != nil {
		panic(err.String())
	}
	if err := w.n.S.AddAddress(1, ipv6.ProtocolNumber, tcpip.Address(own6[1])); err != nil {
		panic(err.String())
	}
	w.n.L.Retain = true
	w.n.L.OnFrame = func(f netx.Frame) {
		b := append([]byte(nil), f.Bytes...)
		w.frames <- b
		if w.gated.Load() && f.Proto == netx.ProtoIPv4 {
			<-w.gate
		}
	}
	return w
}

// ---------------------------------------------------------------- printing
// enc prints a byte string in the compact (lossless) segment syntax of Corr/C13.v:
// [L [literal bytes]; R a d n; ...] where R a d n is the run a, a+d, a+2d, ... (mod 256) of n bytes.
func enc(b []byte) string {
	var segs []string
	lit := 0 // start of the pending literal
	flush := func(to int) {
		if to > lit {
			segs = append(segs, "L "+netx.ZList(b[lit:to]))
		}
	}
	for i := 0; i < len(b); {
		j := i + 1
		if j < len(b) {
			d := b[j] - b[i]
			for j+1 < len(b) && b[j+1]-b[j] == d {
				j++
			}
			j++
		}
		if j-i >= 6 {
			flush(i)
			segs = append(segs, fmt.Sprintf("R %d %d %d", b[i], b[i+1]-b[i], j-i))
			i = j
			lit = j
		} else {
			i++
		}
	}
	flush(len(b))
	return "[" + strings.Join(segs, ";") + "]"
}

func encs(bs [][]byte) string {
	s := make([]string, len(bs))
	for i, b := range bs {
		s[i] = enc(b)
	}
	return "[" + strings.Join(s, ";") + "]"
}
func ints(xs []int) string {
	s := make([]string, len(xs))
	for i, x := range xs {
		s[i] = fmt.Sprint(x)
	}
	return "[" + strings.Join(s, ";") + "]"
}
func (w *world) count(k string) { w.counts[k]++ }
func (w *world) lenBucket(n int) {
	b := 0
	for b < 7 && n >= []int{1, 9, 41, 129, 513, 1025, 1401}[b] {
		b++
	}
	w.lens[b]++
}

// ---------------------------------------------------------------- packet builders (independent of the repo)
func icmp4(typ, code byte, id, seq uint16, payload []byte, badsum bool) []byte {
	b := make([]byte, 8+len(payload))
	b[0], b[1] = typ, code
	binary.BigEndian.PutUint16(b[4:], id)
	binary.BigEndian.PutUint16(b[6:], seq)
	copy(b[8:], payload)
	c := ^netx.Sum16(b, 0)
	if badsum {
		c ^= 0x0101
	}
	binary.BigEndian.PutUint16(b[2:], c)
	return b
}

func icmp6(src, dst []byte, typ, code byte, id, seq uint16, payload []byte, badsum bool) []byte {
	b := make([]byte, 8+len(payload))
	b[0], b[1] = typ, code
	binary.BigEndian.PutUint16(b[4:], id)
	binary.BigEndian.PutUint16(b[6:], seq)
	copy(b[8:], payload)
	fix6(src, dst, b, badsum)
	return b
}

func fix6(src, dst, b []byte, badsum bool) {
	if len(b) < 4 {
		return
	}
	b[2], b[3] = 0, 0
	c := ^netx.Sum16(b, netx.PseudoSum(src, dst, 58, len(b)))
	if badsum {
		c ^= 0x0101
	}
	binary.BigEndian.PutUint16(b[2:], c)
}

func fix4(b []byte) {
	if len(b) < 4 {
		return
	}
	b[2], b[3] = 0, 0
	binary.BigEndian.PutUint16(b[2:], ^netx.Sum16(b, 0))
}

// ipv4 packet with optional header options (ihl in 32-bit words) and trailing padding
func ip4(src, dst []byte, proto byte, id, flagsFrag uint16, payload []byte, ihl int, pad int) []byte {
	if ihl <= 5 && pad == 0 {
		return netx.IPv4Packet(src, dst, proto, id, flagsFrag, 64, payload)
	}
	hl := ihl * 4
	b := make([]byte, hl+len(payload)+pad)
	b[0] = byte(0x40 | ihl)
	binary.BigEndian.PutUint16(b[2:], uint16(hl+len(payload)))
	binary.BigEndian.PutUint16(b[4:], id)
	binary.BigEndian.PutUint16(b[6:], flagsFrag)
	b[8], b[9] = 64, proto
	copy(b[12:16], src)
	copy(b[16:20], dst)
	for i := 20; i < hl; i++ {
		b[i] = 1 // NOP options
	}
	binary.BigEndian.PutUint16(b[10:], ^netx.Sum16(b[:hl], 0))
	copy(b[hl:], payload)
	for i := hl + len(payload); i < len(b); i++ {
		b[i] = 0xee
	}
	return b
}

func runBytes(a, d byte, n int) []byte {
	b := make([]byte, n)
	for i := range b {
		b[i] = a
		a += d
	}
	return b
}

// echo data: short payloads are random bytes; long ones are (mostly) arithmetic runs mod 256,
// possibly two of them around a few random bytes, so that the printed cases stay small
func payload(r *gen.Rng, n int) []byte {
	k := r.Intn(16)
	switch {
	case k == 0:
		return make([]byte, n)
	case k == 1:
		return bytes.Repeat([]byte{0xff}, n)
	case n <= 48 || (k == 2 && n <= 400):
		return r.Bytes(n)
	case k < 6:
		cut := r.Intn(n - 8)
		isl := 1 + r.Intn(7)
		b := append(runBytes(byte(r.U32()), byte(r.U32()), cut), r.Bytes(isl)...)
		return append(b, runBytes(byte(r.U32()), byte(r.U32()), n-cut-isl)...)
	default:
		return runBytes(byte(r.U32()), byte(r.U32()), n)
	}
}

func pick(r *gen.Rng, as [][]byte) []byte { return as[r.Intn(len(as))] }
func pickID(r *gen.Rng) uint16 {
	if r.Intn(2) == 0 {
		return ids[r.Intn(len(ids))]
	}
	return uint16(r.U32())
}

// ---------------------------------------------------------------- running the stack
func (w *world) inject(proto tcpip.NetworkProtocolNumber, pkt []byte, chunks []int) (panicked bool) {
	defer func() {
		if r := recover(); r != nil {
			panicked = true
		}
	}()
	// an unfragmented IPv4 ICMP packet is answered from a copy taken during the call (icmp.go
	// handleICMP: vv.ToView() before the request is queued for the echoReplier goroutine), so the
	// sender may re-use its buffer as soon as the call returns: every second such packet is
	// delivered from a buffer that is overwritten right after delivery
	if proto == netx.ProtoIPv4 && len(pkt) >= 20 && pkt[9] == 1 && (binary.BigEndian.Uint16(pkt[6:])&0x3fff) == 0 {
		w.recyc++
		if w.recyc%2 == 0 {
			w.n.L.InjectRecycled(proto, pkt, chunks...)
			w.count("recycled-buffer")
			return
		}
	}
	w.n.L.Inject(proto, pkt, chunks...)
	return
}

// frames that are already there (nothing pending in another goroutine is waited for)
func (w *world) drainNow() [][]byte {
	var out [][]byte
	for {
		select {
		case f := <-w.frames:
			out = append(out, f)
		default:
			w.n.L.Take()
			return out
		}
	}
}

func (w *world) stray() {
	if fs := w.drainNow(); len(fs) > 0 {
		fmt.Fprintf(w.w, "KStray %s\n", encs(fs))
		w.count("stray")
	}
}

const magic = "C13-sentinel-"

func (w *world) sentinel(dst []byte) (pkt []byte, mark []byte) {
	w.sctr++
	mark = append([]byte(magic), byte(w.sctr>>24), byte(w.sctr>>16), byte(w.sctr>>8), byte(w.sctr))
	return netx.IPv4Packet(peers4[0], dst, 1, 0, 0, 64, icmp4(8, 0, 0xc13, uint16(w.sctr), mark, false)), mark
}

func (w *world) sentinelTimeout() time.Duration {
	if w.tmo >= 3 {
		return 20 * time.Millisecond
	}
	return 2 * time.Second
}

// collects frames until the one carrying mark shows up (not included); ok=false on timeout
func (w *world) until(mark []byte, d time.Duration) (fs [][]byte, hit []byte, ok bool) {
	t := time.NewTimer(d)
	defer t.Stop()
	for {
		select {
		case f := <-w.frames:
			if bytes.Contains(f, mark) {
				return fs, f, true
			}
			fs = append(fs, f)
		case <-t.C:
			return fs, nil, false
		}
	}
}

func owns(as [][]byte, a []byte) bool {
	for _, x := range as {
		if bytes.Equal(x, a) {
			return true
		}
	}
	return false
}

// closes an IPv4 case: sentinel to the endpoint the packet was for (or the first one)
func (w *world) settle4(dst []byte) [][]byte {
	if !owns(own4, dst) {
		dst = own4[0]
	}
	s, mark := w.sentinel(dst)
	w.inject(netx.ProtoIPv4, s, nil)
	fs, _, ok := w.until(mark, w.sentinelTimeout())
	if !ok {
		w.tmo++
		w.count("sentinel-timeout")
	}
	w.n.L.Take()
	return fs
}

func dst4(pkt []byte) []byte {
	if len(pkt) >= 20 {
		return pkt[16:20]
	}
	return own4[0]
}

func (w *world) shot4(pkt []byte, chunks []int, kind string) {
	w.stray()
	pan := w.inject(netx.ProtoIPv4, pkt, chunks)
	fs := w.settle4(dst4(pkt))
	fmt.Fprintf(w.w, "K4 %s %s %s %s %s\n", "own4", enc(pkt), ints(chunks), encs(fs), netx.B(pan))
	w.count(kind)
}

func (w *world) shot4f(p1, p2 []byte, c1, c2 []int, kind string) {
	w.stray()
	pan := w.inject(netx.ProtoIPv4, p1, c1)
	pan = w.inject(netx.ProtoIPv4, p2, c2) || pan
	fs := w.settle4(dst4(p1))
	fmt.Fprintf(w.w, "K4F %s %s %s %s %s %s %s\n", "own4", enc(p1), enc(p2), ints(c1), ints(c2), encs(fs), netx.B(pan))
	w.count(kind)
}

func (w *world) shot6(pkt []byte, chunks []int, kind string) {
	w.stray()
	pan := w.inject(netx.ProtoIPv6, pkt, chunks)
	fs := w.drainNow()
	fmt.Fprintf(w.w, "K6 %s %s %s %s %s\n", "own6", enc(pkt), ints(chunks), encs(fs), netx.B(pan))
	w.count(kind)
}

// ---------------------------------------------------------------- view splits
// sizes of the views after the first one; even: only even sizes
func moreChunks(r *gen.Rng, rest int, even bool) []int {
	var cs []int
	for k := r.Intn(4); k > 0 && rest > 0; k-- {
		c := 1 + r.Intn(rest)
		if r.Intn(3) == 0 {
			c = 1 + r.Intn(9)
		}
		if even {
			c &^= 1
			if c == 0 {
				c = 2
			}
		}
		cs = append(cs, c)
		rest -= c
	}
	return cs
}

// hdr = bytes up to and including the 8-byte ICMP header; the first view always contains them
func chunks(r *gen.Rng, total, hdr int, even bool) []int {
	if total <= hdr {
		return []int{hdr}
	}
	k := r.Intn(total - hdr + 1)
	if r.Intn(3) == 0 {
		k = r.Intn(10)
		if k > total-hdr {
			k = total - hdr
		}
	}
	if even {
		k &^= 1
	}
	cs := []int{hdr + k}
	return append(cs, moreChunks(r, total-hdr-k, even)...)
}

// ---------------------------------------------------------------- single-shot streams
func (w *world) ping4(r *gen.Rng, n int, multi bool) {
	src, dst := pick(r, peers4), pick(r, own4)
	p := ip4(src, dst, 1, uint16(r.U32()), 0, icmp4(8, 0, pickID(r), pickID(r), payload(r, n), false), 5, 0)
	var cs []int
	kind := "v4-echo"
	if multi {
		cs = chunks(r, len(p), 28, false)
		kind = "v4-echo-multiview"
	}
	w.lenBucket(n)
	w.shot4(p, cs, kind)
}

func (w *world) ping6(r *gen.Rng, n int, multi bool) {
	src, dst := pick(r, peers6), pick(r, own6)
	p := netx.IPv6Packet(src, dst, 58, 64, icmp6(src, dst, 128, 0, pickID(r), pickID(r), payload(r, n), false))
	var cs []int
	kind := "v6-echo"
	if multi {
		// splits at even offsets only / at any offset (odd view sizes included), half and half
		cs = chunks(r, len(p), 48, r.Bool())
		kind = "v6-echo-multiview"
	}
	w.lenBucket(n)
	w.shot6(p, cs, kind)
}

// the sizes of the views Inject makes of a packet of total bytes, without the first skip bytes
func dataViews(total int, cs []int, skip int) []int {
	var sizes []int
	rest := total
	for _, c := range cs {
		if c > rest {
			c = rest
		}
		sizes = append(sizes, c)
		rest -= c
	}
	if rest > 0 || len(sizes) == 0 {
		sizes = append(sizes, rest)
	}
	var out []int
	for _, c := range sizes {
		if skip >= c {
			skip -= c
			continue
		}
		if c-skip > 0 {
			out = append(out, c-skip)
		}
		skip = 0
	}
	return out
}

func oddNonFinal(sizes []int) bool {
	for i := 0; i+1 < len(sizes); i++ {
		if sizes[i]%2 == 1 {
			return true
		}
	}
	return false
}

// IPv6 echo requests whose echo data reaches handleICMP in views of which one that is not the last
// has odd length: the input shape of the fixed finding C13-echo6-odd-chunk (before /repo commit
// 1404d7f icmpChecksum summed the payload view by view and the reply's checksum was wrong).
// Always generated; a reply that does not verify is a plain violation.
func (w *world) odd6(r *gen.Rng, k int) {
	src, dst := pick(r, peers6), pick(r, own6)
	mk := func(n int) []byte {
		return netx.IPv6Packet(src, dst, 58, 64, icmp6(src, dst, 128, 0, pickID(r), pickID(r), payload(r, n), false))
	}
	var p []byte
	var cs []int
	kind := ""
	switch k % 6 {
	case 0: // the recorded witness: echo data in views of 3 + 4 bytes (the first view = headers + 3 bytes)
		p, cs, kind = mk(7), []int{51, 4}, "v6-odd-3+4"
	case 1: // 1 + 1 + 1 (+ what is left)
		p, cs, kind = mk([]int{3, 4, 9, 64, 1000}[r.Intn(5)]), []int{49, 1, 1}, "v6-odd-1+1+1"
	case 2: // a view of exactly the 48 header bytes, then an odd data view, then anything
		n := 2 + r.Intn(300)
		if r.Intn(4) == 0 {
			n = 2 + r.Intn(1451)
		}
		first := 1 + 2*r.Intn(n/2)
		p, kind = mk(n), "v6-odd-after-header-view"
		cs = append([]int{48, first}, moreChunks(r, n-first, false)...)
	case 3: // every view of the data odd (up to 7 views, the last takes what is left)
		n := 2 + r.Intn(200)
		p, kind = mk(n), "v6-odd-all-views"
		cs = []int{48 + 1 + 2*r.Intn(4)}
		for left := n - (cs[0] - 48); left > 1 && len(cs) < 6; {
			c := 1 + 2*r.Intn((left+1)/2)
			if r.Intn(2) == 0 {
				c = 1 + 2*r.Intn(3)
			}
			if c >= left {
				break
			}
			cs = append(cs, c)
			left -= c
		}
	default: // random splits at any offset, kept when a non-final data view is odd
		n := []int{7, 3, 2, 9, 64, 2 + r.Intn(300), 1000 + r.Intn(453)}[r.Intn(7)]
		p, kind = mk(n), "v6-odd-random-split"
		for try := 0; ; try++ {
			cs = chunks(r, len(p), 48, false)
			if oddNonFinal(dataViews(len(p), cs, 48)) {
				break
			}
			if try == 30 {
				cs = []int{48 + 1 + 2*r.Intn(n/2)}
				break
			}
		}
	}
	if !oddNonFinal(dataViews(len(p), cs, 48)) {
		w.count("v6-odd-generator-miss")
	}
	w.lenBucket(len(p) - 48)
	w.shot6(p, cs, kind)
}

func (w *world) splitHdr(r *gen.Rng, n int) {
	if r.Bool() {
		p := ip4(pick(r, peers4), pick(r, own4), 1, uint16(r.U32()), 0, icmp4(8, 0, pickID(r), pickID(r), payload(r, n), false), 5, 0)
		first := []int{20, 21, 23, 24, 25, 26, 27, 19, 1}[r.Intn(9)]
		w.shot4(p, append([]int{first}, moreChunks(r, len(p)-first, false)...), "v4-split-header")
	} else {
		src, dst := pick(r, peers6), pick(r, own6)
		p := netx.IPv6Packet(src, dst, 58, 64, icmp6(src, dst, 128, 0, pickID(r), pickID(r), payload(r, n), false))
		first := []int{40, 41, 43, 44, 46, 47, 39, 1}[r.Intn(8)]
		w.shot6(p, append([]int{first}, moreChunks(r, len(p)-first, true)...), "v6-split-header")
	}
}

var types4 = []byte{0, 3, 4, 5, 9, 10, 11, 12, 13, 14, 15, 16, 17, 18, 42, 255}
var types6 = []byte{1, 2, 3, 4, 127, 129, 130, 133, 134, 136, 137, 200, 255, 0, 8}

func (w *world) malformed4(r *gen.Rng, k int) {
	src, dst := pick(r, peers4), pick(r, own4)
	id, seq := pickID(r), pickID(r)
	n := r.Intn(48)
	switch k % 10 {
	case 0: // truncated: every ICMP length below 8, with and without a second view
		for l := 0; l < 8; l++ {
			b := icmp4(8, 0, id, seq, nil, false)[:l]
			fix4(b)
			w.shot4(ip4(src, dst, 1, 1, 0, b, 5, 0), nil, "v4-truncated")
		}
	case 1:
		w.shot4(ip4(src, dst, 1, 2, 0, icmp4(types4[r.Intn(len(types4))], byte(r.Intn(3)), id, seq, payload(r, n), false), 5, 0), nil, "v4-other-type")
	case 2:
		w.shot4(ip4(src, dst, 1, 3, 0, icmp4(8, 0, id, seq, payload(r, n), true), 5, 0), nil, "v4-bad-checksum")
	case 3:
		w.shot4(ip4(src, dst, 1, 4, 0, icmp4(8, byte(1+r.Intn(255)), id, seq, payload(r, n), false), 5, 0), nil, "v4-code-nonzero")
	case 4:
		w.shot4(ip4(src, pick(r, other4), 1, 5, 0, icmp4(8, 0, id, seq, payload(r, n), false), 5, 0), nil, "v4-not-ours")
	case 5: // another protocol number carrying the same bytes
		w.shot4(ip4(src, dst, []byte{17, 99, 2, 58}[r.Intn(4)], 6, 0, icmp4(8, 0, id, seq, payload(r, n), false), 5, 0), nil, "v4-other-proto")
	case 6: // link-layer padding behind the datagram
		w.shot4(ip4(src, dst, 1, 7, 0, icmp4(8, 0, id, seq, payload(r, n), false), 5, 1+r.Intn(26)), nil, "v4-padded")
	case 7: // IP options
		ihl := 6 + r.Intn(10)
		p := ip4(src, dst, 1, 8, 0, icmp4(8, 0, id, seq, payload(r, n), false), ihl, r.Intn(2)*4)
		var cs []int
		if r.Bool() {
			cs = chunks(r, len(p), ihl*4+8, false)
		}
		w.shot4(p, cs, "v4-ip-options")
	case 8: // inconsistent IP header: total length beyond the packet, below the header length, runt
		p := ip4(src, dst, 1, 9, 0, icmp4(8, 0, id, seq, payload(r, n), false), 5, 0)
		switch r.Intn(4) {
		case 0:
			binary.BigEndian.PutUint16(p[2:], uint16(len(p)+1+r.Intn(9)))
		case 1:
			binary.BigEndian.PutUint16(p[2:], uint16(r.Intn(20)))
		case 2:
			p = p[:r.Intn(20)]
		case 3: // total length cuts the ICMP message short
			binary.BigEndian.PutUint16(p[2:], uint16(20+r.Intn(len(p)-20)))
		}
		w.shot4(p, nil, "v4-bad-ip")
	case 9: // one fragment alone never completes
		w.shot4(ip4(src, dst, 1, uint16(0x9000+k), 0x2000, icmp4(8, 0, id, seq, payload(r, 8+n), false), 5, 0), nil, "v4-lone-fragment")
	}
}

func (w *world) malformed6(r *gen.Rng, k int) {
	src, dst := pick(r, peers6), pick(r, own6)
	id, seq := pickID(r), pickID(r)
	n := r.Intn(48)
	mk := func(src, dst, b []byte) []byte { return netx.IPv6Packet(src, dst, 58, 64, b) }
	switch k % 8 {
	case 0:
		for l := 0; l < 8; l++ {
			b := make([]byte, l)
			copy(b, []byte{128, 0, 0, 0, byte(id >> 8), byte(id), byte(seq >> 8), byte(seq)})
			fix6(src, dst, b, false)
			w.shot6(mk(src, dst, b), nil, "v6-truncated")
		}
	case 1:
		w.shot6(mk(src, dst, icmp6(src, dst, types6[r.Intn(len(types6))], byte(r.Intn(3)), id, seq, payload(r, n), false)), nil, "v6-other-type")
	case 2:
		w.shot6(mk(src, dst, icmp6(src, dst, 128, 0, id, seq, payload(r, n), true)), nil, "v6-bad-checksum")
	case 3:
		w.shot6(mk(src, dst, icmp6(src, dst, 128, byte(1+r.Intn(255)), id, seq, payload(r, n), false)), nil, "v6-code-nonzero")
	case 4:
		d := pick(r, other6)
		w.shot6(mk(src, d, icmp6(src, d, 128, 0, id, seq, payload(r, n), false)), nil, "v6-not-ours")
	case 5:
		w.shot6(netx.IPv6Packet(src, dst, []byte{17, 59, 1, 44}[r.Intn(4)], 64, icmp6(src, dst, 128, 0, id, seq, payload(r, n), false)), nil, "v6-other-next-header")
	case 6: // padding behind the datagram
		p := mk(src, dst, icmp6(src, dst, 128, 0, id, seq, payload(r, n), false))
		w.shot6(append(p, bytes.Repeat([]byte{0xee}, 1+r.Intn(26))...), nil, "v6-padded")
	case 7:
		p := mk(src, dst, icmp6(src, dst, 128, 0, id, seq, payload(r, n), false))
		switch r.Intn(3) {
		case 0:
			binary.BigEndian.PutUint16(p[4:], uint16(len(p)-40+1+r.Intn(9)))
		case 1:
			p = p[:r.Intn(40)]
		case 2: // payload length cuts the message short
			binary.BigEndian.PutUint16(p[4:], uint16(r.Intn(len(p)-40)))
		}
		w.shot6(p, nil, "v6-bad-ip")
	}
}

func (w *world) fragments(r *gen.Rng) {
	src, dst := pick(r, peers4), pick(r, own4)
	if r.Intn(8) == 0 {
		dst = pick(r, other4)
	}
	n := 1 + r.Intn(200)
	if r.Intn(4) == 0 {
		n = 1 + r.Intn(1472)
	}
	msg := icmp4(8, 0, pickID(r), pickID(r), payload(r, n), false)
	if r.Intn(10) == 0 {
		msg[0] = 0
		fix4(msg)
	}
	cut := 8 * (1 + r.Intn((len(msg)-1)/8))
	if cut >= len(msg) {
		cut = 8
	}
	w.sctr++
	id := uint16(0x4000 + w.sctr)
	a := ip4(src, dst, 1, id, 0x2000, msg[:cut], 5, 0)
	b := ip4(src, dst, 1, id, uint16(cut/8), msg[cut:], 5, 0)
	var ca, cb []int
	if r.Intn(3) == 0 {
		ca = chunks(r, len(a), 28, false)
	}
	if r.Intn(3) == 0 {
		cb = []int{20 + r.Intn(len(b)-20+1)}
	}
	if r.Bool() {
		w.shot4f(a, b, ca, cb, "v4-fragments-in-order")
	} else {
		w.shot4f(b, a, cb, ca, "v4-fragments-reversed")
	}
}

// ---------------------------------------------------------------- bursts
func (w *world) waitFrame(expect bool) ([]byte, bool) {
	d := 3 * time.Millisecond
	if expect {
		d = w.sentinelTimeout()
	}
	t := time.NewTimer(d)
	defer t.Stop()
	select {
	case f := <-w.frames:
		return f, true
	case <-t.C:
		if expect {
			w.tmo++
			w.count("gate-timeout")
		}
		return nil, false
	}
}

func (w *world) release() {
	select {
	case w.gate <- struct{}{}:
	case <-time.After(time.Second):
		w.count("gate-release-timeout")
	}
}

func (w *world) burstReq(r *gen.Rng, dst []byte, i int) []byte {
	n := r.Intn(9)
	if r.Intn(8) == 0 {
		n = 41 + r.Intn(80)
	}
	return ip4(pick(r, peers4), dst, 1, uint16(r.U32()), 0, icmp4(8, 0, pickID(r), uint16(i), payload(r, n), false), 5, 0)
}

// total arrivals n; pRelease in 1/8ths: how eagerly the replier is let go between arrivals
func (w *world) gatedBurst(r *gen.Rng, n int, pRelease int) {
	w.stray()
	dst := pick(r, own4)
	var evs []string
	pan := false
	held := false
	occ := 0 // hint only (see the package comment)
	w.gated.Store(true)
	got := func() {
		if f, ok := w.waitFrame(occ > 0); ok {
			evs = append(evs, "XR "+enc(f))
			held = true
			if occ > 0 {
				occ--
			}
		}
	}
	for i := 0; i < n; {
		if held && r.Intn(8) < pRelease {
			w.release()
			held = false
			got()
			continue
		}
		p := w.burstReq(r, dst, i)
		i++
		pan = w.inject(netx.ProtoIPv4, p, nil) || pan
		evs = append(evs, "XA "+enc(p))
		if occ < 10 {
			occ++
		}
		if !held {
			got()
		}
	}
	for held {
		w.release()
		held = false
		got()
	}
	w.gated.Store(false)
	// safety: a replier that is (unexpectedly) still parked at the gate is let go
	select {
	case w.gate <- struct{}{}:
		w.count("gate-late-release")
		time.Sleep(3 * time.Millisecond)
	default:
	}
	fmt.Fprintf(w.w, "KGate4 %s [%s] %s\n", "own4", strings.Join(evs, ";"), netx.B(pan))
	w.count("v4-gated-burst")
}

func (w *world) freeBurst(r *gen.Rng, n int, oneP bool) {
	w.stray()
	dst := pick(r, own4)
	reqs := make([][]byte, n)
	for i := range reqs {
		reqs[i] = w.burstReq(r, dst, i)
	}
	if oneP {
		defer runtime.GOMAXPROCS(runtime.GOMAXPROCS(1))
	}
	pan := false
	for _, p := range reqs {
		pan = w.inject(netx.ProtoIPv4, p, nil) || pan
	}
	var fs [][]byte
	for try := 0; try < 400; try++ {
		s, mark := w.sentinel(dst)
		w.inject(netx.ProtoIPv4, s, nil)
		reqs = append(reqs, s)
		more, hit, ok := w.until(mark, 20*time.Millisecond)
		fs = append(fs, more...)
		if ok {
			// here the sentinel is an ordinary request of the case and its reply an ordinary frame
			fs = append(fs, hit)
			break
		}
	}
	// the frames as a queueing link endpoint (protocol/link/channel keeps hdr.View() uncopied)
	// would hand them over now, after the whole burst
	if late := w.n.L.TakeLate(); len(late) == len(fs) {
		for i := range late {
			fs[i] = late[i].Bytes
		}
		w.count("v4-free-burst-late-read")
	}
	fmt.Fprintf(w.w, "KFree4 %s %s %s %s\n", "own4", encs(reqs), encs(fs), netx.B(pan))
	w.count("v4-free-burst")
}

func main() {
	log.SetOutput(io.Discard)
	seed := flag.Uint64("seed", 1, "seed")
	n := flag.Int("n", 200, "random echo requests per family and view mode (other streams scale with it)")
	all := flag.Bool("all", false, "every payload length 0..1472 for both families (thorough tier)")
	flag.Bool("odd6", true, "ignored (kept for old replay files): IPv6 requests whose data arrives in views with an odd non-final size are always generated")
	split := flag.Bool("splithdr", false, "also requests whose ICMP header is not inside the first view (known finding C13-split-header)")
	flag.Parse()
	out := bufio.NewWriterSize(os.Stdout, 1<<20)
	defer out.Flush()
	w := newWorld(out)
	r := gen.New(*seed)

	// boundary lattice (or every length), single view
	lens := boundary
	if *all {
		lens = nil
		for i := 0; i <= 1472; i++ {
			lens = append(lens, i)
		}
	}
	for _, l := range lens {
		w.ping4(r, l, false)
		w.ping6(r, l, false)
	}
	for _, l := range boundary {
		w.ping4(r, l, true)
		w.ping6(r, l, true)
	}
	for i := 0; i < *n; i++ {
		l := r.Intn(1473)
		if i%3 == 0 {
			l = r.Intn(80)
		}
		w.ping4(r, l, i%2 == 1)
		w.ping6(r, r.Intn(1453), i%2 == 0)
		if i%2 == 0 {
			w.malformed4(r, i/2)
			w.malformed6(r, i/2)
		}
		if i%5 == 0 {
			w.fragments(r)
		}
		if i%10 == 0 {
			w.gatedBurst(r, 1+r.Intn(30), []int{0, 0, 1, 2, 4, 7}[r.Intn(6)])
		}
		if i%25 == 0 {
			w.freeBurst(r, 1+r.Intn(30), r.Bool())
		}
		if i%2 == 0 {
			w.odd6(r, i/2)
		}
		if *split && i%4 == 0 {
			w.splitHdr(r, r.Intn(64))
		}
	}
	// IPv6 back-to-back burst (answers are synchronous: one case per request)
	for i := 0; i < 12; i++ {
		w.ping6(r, r.Intn(32), false)
	}
	time.Sleep(20 * time.Millisecond)
	w.stray()
	fmt.Fprintf(out, "KStray []\n")

	fmt.Fprintf(out, "# seed %d n %d all %v odd6 always splithdr %v\n", *seed, *n, *all, *split)
	fmt.Fprintf(out, "# payload length buckets [0,1-8,9-40,41-128,129-512,513-1024,1025-1400,1401-1472]: %v\n", w.lens)
	var keys []string
	for k := range w.counts {
		keys = append(keys, k)
	}
	sort.Strings(keys)
	for _, k := range keys {
		fmt.Fprintf(out, "# stream %s: %d\n", k, w.counts[k])
	}
}
