// h_c14: calls the exported pkg/seqnum API on generated operands and prints one Coq term of
// type NP.Corr.C14.case per line (inputs + the value the implementation returned).
package main

import (
	"bufio"
	"flag"
	"fmt"
	"os"

	"aaverif/internal/gen"

	"github.com/brewlin/net-protocol/pkg/seqnum"
)

var bases = []uint32{0, 1, 2, 0x7ffffffe, 0x7fffffff, 0x80000000, 0x80000001, 0xfffffffe, 0xffffffff, 1000, 0xffff0000}
var dists = []uint32{0, 1, 2, 3, 0x3fffffff, 0x40000000, 0x40000001, 0x7ffffffe, 0x7fffffff, 0x80000000, 0x80000001, 0xbfffffff, 0xfffffffe, 0xffffffff, 65535, 1460}

func b(x bool) string {
	if x {
		return "true"
	}
	return "false"
}

func main() {
	seed := flag.Uint64("seed", 1, "seed")
	n := flag.Int("n", 20000, "number of random cases (after the boundary lattice)")
	flag.Parse()
	w := bufio.NewWriter(os.Stdout)
	defer w.Flush()
	emit2 := func(v, x uint32) {
		V, X := seqnum.Value(v), seqnum.Value(x)
		fmt.Fprintf(w, "CLessThan %d %d %s\n", v, x, b(V.LessThan(X)))
		fmt.Fprintf(w, "CLessThanEq %d %d %s\n", v, x, b(V.LessThanEq(X)))
		fmt.Fprintf(w, "CSize %d %d %d\n", v, x, uint32(V.Size(X)))
		fmt.Fprintf(w, "CAdd %d %d %d\n", v, x, uint32(V.Add(seqnum.Size(x))))
		u := V
		u.UpdateForward(seqnum.Size(x))
		fmt.Fprintf(w, "CUpdateForward %d %d %d\n", v, x, uint32(u))
	}
	emit3 := func(v, a, c uint32) {
		fmt.Fprintf(w, "CInRange %d %d %d %s\n", v, a, c, b(seqnum.Value(v).InRange(seqnum.Value(a), seqnum.Value(c))))
		fmt.Fprintf(w, "CInWindow %d %d %d %s\n", v, a, c, b(seqnum.Value(v).InWindow(seqnum.Value(a), seqnum.Size(c))))
	}
	emit4 := func(a, bb, x, y uint32) {
		fmt.Fprintf(w, "COverlap %d %d %d %d %s\n", a, bb, x, y, b(seqnum.Overlap(seqnum.Value(a), seqnum.Size(bb), seqnum.Value(x), seqnum.Size(y))))
	}
	// boundary lattice: every base x every distance
	for _, v := range bases {
		for _, d := range dists {
			emit2(v, v+d)
			emit2(v, d)
		}
	}
	r := gen.New(*seed)
	for i := 0; i < *n; i++ {
		v := r.Pick32(bases)
		switch i % 4 {
		case 0:
			emit2(v, v+r.Pick32(dists))
		case 1:
			a := v + r.Pick32(dists)
			emit3(v, a, a+r.Pick32(dists))
			emit3(v, a, r.Pick32(dists))
		case 2:
			// windows near each other, small and large sizes
			x := v + r.Pick32(dists)
			emit4(v, r.Pick32(dists), x, r.Pick32(dists))
			emit4(v, uint32(r.Intn(70000)), v+uint32(r.Intn(140000))-70000, uint32(r.Intn(70000)))
		case 3:
			emit2(r.U32(), r.U32())
			emit3(r.U32(), r.U32(), r.U32())
		}
	}
}
