// Concurrent variant of the C17 driver -- SEARCH AID ONLY: nothing is proved about schedules and
// the checks below are made here, in unverified Go, not by the Coq model.  2..6 goroutines share
// one Queue; each owns two entries (so the API contract holds: only the owner registers and
// unregisters an entry) and randomly registers/unregisters them, notifies, or reads
// Events/IsEmpty.  Every call and every callback is stamped with a global atomic counter
// (stamps respect real time: x returned before y started => stamp(x) < stamp(y)).
//
// Checked afterwards:
//   late     a callback of e started although no registration period of e [EventRegister called,
//            EventUnregister returned] contains its start (i.e. after its unregistration returned)
//   dup      one Notify called the same entry twice
//   missing  an entry registered throughout a Notify (EventRegister returned before the Notify
//            started, EventUnregister not yet called when it returned) with intersecting mask
//            was not called by it
//   extra    a Notify called an entry that had no registration period with intersecting mask
//            overlapping the Notify
// Built without -race.
package main

import (
	"runtime"
	"sync"
	"sync/atomic"
	"time"

	"aaverif/internal/gen"

	"github.com/brewlin/net-protocol/pkg/waiter"
)

type concResult struct{ late, dup, missing, extra int }

type life struct {
	rb, re, ub, ue int64
	mask           uint16
}

const inf = int64(1) << 62

type cbRec struct {
	entry int
	gid   int64
	t     int64
}

type ntfRec struct {
	gid    int64
	nb, ne int64
	mask   uint16
}

type concWorld struct {
	q      waiter.Queue
	clk    atomic.Int64
	cbMu   sync.Mutex
	cbs    []cbRec
	nMu    sync.Mutex
	ntfs   []ntfRec
	lives  [][]life // per entry, written by the owner only
	panics atomic.Int32
}

type concCallback struct {
	id int
	w  *concWorld
}

func goid() int64 {
	var buf [64]byte
	n := runtime.Stack(buf[:], false)
	var id int64
	for _, c := range buf[len("goroutine "):n] {
		if c < '0' || c > '9' {
			break
		}
		id = id*10 + int64(c-'0')
	}
	return id
}

func (c *concCallback) Callback(*waiter.Entry) {
	t := c.w.clk.Add(1)
	g := goid()
	c.w.cbMu.Lock()
	c.w.cbs = append(c.w.cbs, cbRec{c.id, g, t})
	c.w.cbMu.Unlock()
}

func runConc(seed uint64, goroutines, opsPer int) concResult {
	w := &concWorld{}
	per := 2
	n := goroutines * per
	entries := make([]waiter.Entry, n)
	w.lives = make([][]life, n)
	for i := range entries {
		entries[i] = waiter.Entry{Callback: &concCallback{id: i, w: w}}
	}
	cmasks := []uint16{1, 2, 3, 4, 6}
	var wg sync.WaitGroup
	start := make(chan struct{})
	for g := 0; g < goroutines; g++ {
		wg.Add(1)
		go func(g int) {
			defer wg.Done()
			defer func() {
				if r := recover(); r != nil {
					w.panics.Add(1)
				}
			}()
			r := gen.New(seed*64 + uint64(g))
			me := goid()
			reg := make([]bool, per)
			<-start
			for i := 0; i < opsPer; i++ {
				x := r.Intn(100)
				switch {
				case x < 45:
					k := r.Intn(per)
					e := g*per + k
					if !reg[k] {
						m := cmasks[r.Intn(len(cmasks))]
						l := life{mask: m, ub: inf, ue: inf}
						l.rb = w.clk.Add(1)
						w.q.EventRegister(&entries[e], waiter.EventMask(m))
						l.re = w.clk.Add(1)
						w.lives[e] = append(w.lives[e], l)
						reg[k] = true
					} else {
						l := &w.lives[e][len(w.lives[e])-1]
						ub := w.clk.Add(1)
						w.q.EventUnregister(&entries[e])
						l.ub, l.ue = ub, w.clk.Add(1)
						reg[k] = false
					}
				case x < 92:
					m := cmasks[r.Intn(len(cmasks))]
					nb := w.clk.Add(1)
					w.q.Notify(waiter.EventMask(m))
					ne := w.clk.Add(1)
					w.nMu.Lock()
					w.ntfs = append(w.ntfs, ntfRec{me, nb, ne, m})
					w.nMu.Unlock()
				case x < 96:
					_ = w.q.Events()
				default:
					_ = w.q.IsEmpty()
				}
				if r.Intn(8) == 0 {
					runtime.Gosched()
				}
			}
			for k := 0; k < per; k++ {
				if reg[k] {
					e := g*per + k
					l := &w.lives[e][len(w.lives[e])-1]
					ub := w.clk.Add(1)
					w.q.EventUnregister(&entries[e])
					l.ub, l.ue = ub, w.clk.Add(1)
				}
			}
		}(g)
	}
	close(start)
	wg.Wait()

	var res concResult
	if w.panics.Load() != 0 {
		return concResult{-2, -2, -2, -2}
	}
	// late
	for _, c := range w.cbs {
		ok := false
		for _, l := range w.lives[c.entry] {
			if l.rb < c.t && c.t < l.ue {
				ok = true
				break
			}
		}
		if !ok {
			res.late++
		}
	}
	// per notify
	byG := map[int64][]cbRec{}
	for _, c := range w.cbs {
		byG[c.gid] = append(byG[c.gid], c)
	}
	for _, nt := range w.ntfs {
		called := map[int]int{}
		for _, c := range byG[nt.gid] {
			if nt.nb < c.t && c.t < nt.ne {
				called[c.entry]++
				okx := false
				for _, l := range w.lives[c.entry] {
					if l.rb < nt.ne && l.ue > nt.nb && l.mask&nt.mask != 0 {
						okx = true
						break
					}
				}
				if !okx {
					res.extra++
				}
			}
		}
		for _, k := range called {
			if k > 1 {
				res.dup++
			}
		}
		for e := range w.lives {
			for _, l := range w.lives[e] {
				if l.re < nt.nb && l.ub > nt.ne && l.mask&nt.mask != 0 && called[e] == 0 {
					res.missing++
				}
			}
		}
	}
	if !w.q.IsEmpty() {
		res.extra++ // everything was unregistered: the queue must be empty again
	}
	return res
}

func runConcWatched(seed uint64, goroutines, opsPer int, timeout time.Duration) concResult {
	done := make(chan concResult, 1)
	go func() { done <- runConc(seed, goroutines, opsPer) }()
	select {
	case r := <-done:
		return r
	case <-time.After(timeout):
		return concResult{-1, -1, -1, -1}
	}
}
