// h_c17: runs histories of EventRegister / EventUnregister / Notify / Events / IsEmpty (and the
// waiter's non-blocking receive on channel entries) against the real pkg/waiter Queue and prints
// one Coq term of type NP.Corr.C17.case per history: the entries' callback kinds, the operations
// and what the implementation did after every operation.
//
// Every history respects the API contract (register only unregistered entries, unregister only
// registered ones), except the two fixed "misuse" histories that replay the witnesses of
// C17_contract_needed_refuted (model-vs-code comparison only).
//
// Each history runs in its own goroutine under a watchdog: an operation that does not return in
// time is reported as status 1 (hung), a panic as status 2; the driver itself never hangs.
//
// -conc N adds N runs of the concurrent variant (conc.go) -- a search aid only.
package main

import (
	"bufio"
	"flag"
	"fmt"
	"io"
	"log"
	"os"
	"strings"
	"sync"
	"time"

	"aaverif/internal/gen"

	"github.com/brewlin/net-protocol/pkg/waiter"
)

const (
	opReg = iota
	opUnreg
	opNotify
	opEvents
	opIsEmpty
	opTake
)

type op struct {
	k int
	e int
	m uint16
}

func (o op) String() string {
	switch o.k {
	case opReg:
		return fmt.Sprintf("ORegister %d %d", o.e, o.m)
	case opUnreg:
		return fmt.Sprintf("OUnregister %d", o.e)
	case opNotify:
		return fmt.Sprintf("ONotify %d", o.m)
	case opEvents:
		return "OEvents"
	case opIsEmpty:
		return "OIsEmpty"
	default:
		return fmt.Sprintf("OTake %d", o.e)
	}
}

// hist is the per-history recorder shared between the history goroutine and the watchdog.
type hist struct {
	mu    sync.Mutex
	cur   []int    // function-callback entries invoked during the current operation
	obs   []string // completed observations
	calls int
}

const maxCalls = 4096 // a Notify that keeps calling back (cyclic list) parks here forever

type fnCallback struct {
	id int
	h  *hist
}

// Callback implements waiter.EntryCallback: log the invocation, nothing else.
func (c *fnCallback) Callback(*waiter.Entry) {
	c.h.mu.Lock()
	if c.h.calls >= maxCalls {
		c.h.mu.Unlock()
		select {} // never returns: the watchdog reports the history as hung
	}
	c.h.calls++
	c.h.cur = append(c.h.cur, c.id)
	c.h.mu.Unlock()
}

func ilist(xs []int) string {
	s := make([]string, len(xs))
	for i, x := range xs {
		s[i] = fmt.Sprint(x)
	}
	return "[" + strings.Join(s, ";") + "]"
}

func b2i(b bool) int {
	if b {
		return 1
	}
	return 0
}

// runHistory executes ops on a fresh Queue with fresh entries (kinds[i] = 0: function callback,
// 1: NewChannelEntry(nil)) and returns the observations of the operations that returned and the
// status (0 ok, 1 hung, 2 panicked).
func runHistory(kinds []int, ops []op, timeout time.Duration) ([]string, int) {
	h := &hist{}
	done := make(chan int, 1)
	go func() {
		defer func() {
			if r := recover(); r != nil {
				done <- 2
			}
		}()
		var q waiter.Queue
		n := len(kinds)
		entries := make([]waiter.Entry, n)
		chans := make([]chan struct{}, n)
		for i, k := range kinds {
			if k == 1 {
				entries[i], chans[i] = waiter.NewChannelEntry(nil)
			} else {
				entries[i] = waiter.Entry{Callback: &fnCallback{id: i, h: h}}
			}
		}
		for _, o := range ops {
			ret := 0
			switch o.k {
			case opReg:
				q.EventRegister(&entries[o.e], waiter.EventMask(o.m))
			case opUnreg:
				q.EventUnregister(&entries[o.e])
			case opNotify:
				q.Notify(waiter.EventMask(o.m))
			case opEvents:
				ret = int(q.Events())
			case opIsEmpty:
				ret = b2i(q.IsEmpty())
			case opTake:
				if chans[o.e] != nil {
					select {
					case <-chans[o.e]:
						ret = 1
					default:
					}
				}
			}
			lens := make([]int, n)
			for i, c := range chans {
				if c != nil {
					lens[i] = len(c)
				}
			}
			ev := int(q.Events())
			emp := b2i(q.IsEmpty())
			h.mu.Lock()
			h.obs = append(h.obs, fmt.Sprintf("CO %s %d %s %d %d", ilist(h.cur), ret, ilist(lens), ev, emp))
			h.cur = nil
			h.mu.Unlock()
		}
		done <- 0
	}()
	status := 0
	t := time.NewTimer(timeout)
	select {
	case status = <-done:
		t.Stop()
	case <-t.C:
		status = 1
	}
	h.mu.Lock()
	obs := append([]string(nil), h.obs...)
	h.mu.Unlock()
	return obs, status
}

type driver struct {
	w        *bufio.Writer
	timeout  time.Duration
	hung     int
	panicked int
	count    int
	opHist   [6]int
	lenHist  map[int]int
	aborted  bool
}

const maxHung = 4 // a hung history may leave a goroutine spinning: stop generating after a few

func (d *driver) emit(kinds []int, ops []op) {
	if d.aborted {
		return
	}
	obs, status := runHistory(kinds, ops, d.timeout)
	so := make([]string, len(ops))
	for i, o := range ops {
		so[i] = o.String()
		d.opHist[o.k]++
	}
	fmt.Fprintf(d.w, "CHist %s [%s] [%s] %d\n", ilist(kinds), strings.Join(so, "; "), strings.Join(obs, "; "), status)
	d.count++
	d.lenHist[len(ops)]++
	if status == 1 {
		d.hung++
		if d.hung >= maxHung {
			d.aborted = true
		}
	}
	if status == 2 {
		d.panicked++
	}
}

var masks = []uint16{0x01, 0x02, 0x03, 0x04, 0x05, 0x06, 0x10, 0x8000, 0xffff, 0}

// random contract-respecting history
func (d *driver) random(r *gen.Rng, maxlen int) {
	n := 3 + r.Intn(3)
	kinds := make([]int, n)
	var chanEntries []int
	for i := range kinds {
		if r.Intn(3) == 0 {
			kinds[i] = 1
			chanEntries = append(chanEntries, i)
		}
	}
	ln := 4 + r.Intn(maxlen-3)
	// a history draws its masks from a small subset so that intersecting and disjoint pairs both occur
	ms := make([]uint16, 2+r.Intn(3))
	for i := range ms {
		ms[i] = masks[r.Intn(len(masks))]
	}
	reg := make([]bool, n)
	nreg := 0
	ops := make([]op, 0, ln)
	for len(ops) < ln {
		x := r.Intn(100)
		switch {
		case x < 30: // register an unregistered entry
			if nreg == n {
				continue
			}
			e := r.Intn(n)
			for reg[e] {
				e = (e + 1) % n
			}
			reg[e] = true
			nreg++
			ops = append(ops, op{opReg, e, ms[r.Intn(len(ms))]})
		case x < 50: // unregister a registered entry
			if nreg == 0 {
				continue
			}
			e := r.Intn(n)
			for !reg[e] {
				e = (e + 1) % n
			}
			reg[e] = false
			nreg--
			ops = append(ops, op{opUnreg, e, 0})
		case x < 80:
			ops = append(ops, op{opNotify, 0, ms[r.Intn(len(ms))]})
		case x < 85:
			ops = append(ops, op{opEvents, 0, 0})
		case x < 90:
			ops = append(ops, op{opIsEmpty, 0, 0})
		default:
			if len(chanEntries) == 0 {
				continue
			}
			ops = append(ops, op{opTake, chanEntries[r.Intn(len(chanEntries))], 0})
		}
	}
	d.emit(kinds, ops)
}

// exhaustive: all contract-respecting histories of exactly `depth` operations over entries
// 0,1 (function callbacks) and 2 (channel entry) x masks {1,2,3} x {Register, Unregister,
// Notify, Take}; every prefix is covered because an observation is taken after every operation.
// prune: skip the two no-op moves (Notify on an empty queue, Take with no token expected) and
// enumerate modulo two symmetries of the code: the two function entries 0<->1 (entry 1 is not
// registered before entry 0 ever was) and the mask bits 1<->2 (the first of the masks 1, 2 that
// a history uses is 1).  The unpruned enumeration uses no symmetry.
func (d *driver) exhaustive(depth int, prune bool) int {
	kinds := []int{0, 0, 1}
	ems := []uint16{1, 2, 3}
	var regm [3]uint16
	var isreg, ever [3]bool
	tok := false
	asym := false // a mask 1 or 2 has been used
	ops := make([]op, 0, depth)
	cnt := 0
	var rec func()
	rec = func() {
		if d.aborted {
			return
		}
		if len(ops) == depth {
			d.emit(kinds, append([]op(nil), ops...))
			cnt++
			return
		}
		for e := 0; e < 3; e++ {
			if !isreg[e] {
				if prune && e == 1 && !ever[0] {
					continue
				}
				for _, m := range ems {
					if prune && !asym && m == 2 {
						continue
					}
					se, sa := ever[e], asym
					isreg[e], ever[e], regm[e] = true, true, m
					asym = asym || m != 3
					ops = append(ops, op{opReg, e, m})
					rec()
					ops = ops[:len(ops)-1]
					isreg[e], ever[e], asym = false, se, sa
				}
			} else {
				isreg[e] = false
				ops = append(ops, op{opUnreg, e, 0})
				rec()
				ops = ops[:len(ops)-1]
				isreg[e] = true
			}
		}
		if !prune || isreg[0] || isreg[1] || isreg[2] {
			for _, m := range ems {
				if prune && !asym && m == 2 {
					continue
				}
				st, sa := tok, asym
				if isreg[2] && regm[2]&m != 0 {
					tok = true
				}
				asym = asym || m != 3
				ops = append(ops, op{opNotify, 0, m})
				rec()
				ops = ops[:len(ops)-1]
				tok, asym = st, sa
			}
		}
		if !prune || tok {
			st := tok
			tok = false
			ops = append(ops, op{opTake, 2, 0})
			rec()
			ops = ops[:len(ops)-1]
			tok = st
		}
	}
	rec()
	return cnt
}

func main() {
	log.SetOutput(io.Discard)
	seed := flag.Uint64("seed", 1, "seed")
	n := flag.Int("n", 1000, "number of random histories")
	maxlen := flag.Int("maxlen", 40, "maximal length of a random history")
	exh := flag.Int("exh", 3, "depth of the full exhaustive enumeration (0 = none)")
	exhp := flag.Int("exhp", 4, "depth of the pruned exhaustive enumeration (0 = none)")
	conc := flag.Int("conc", 0, "runs of the concurrent variant (search aid only)")
	misuse := flag.Bool("misuse", true, "also replay the two contract-violating witness histories")
	tmo := flag.Int("timeout", 3000, "watchdog per history, milliseconds")
	flag.Parse()

	w := bufio.NewWriterSize(os.Stdout, 1<<20)
	defer w.Flush()
	d := &driver{w: w, timeout: time.Duration(*tmo) * time.Millisecond, lenHist: map[int]int{}}

	// boundary histories first
	d.emit([]int{0}, []op{{opNotify, 0, 1}, {opEvents, 0, 0}, {opIsEmpty, 0, 0}})
	d.emit([]int{0}, []op{{opReg, 0, 1}, {opUnreg, 0, 0}, {opNotify, 0, 1}})
	d.emit([]int{1}, []op{{opReg, 0, 1}, {opNotify, 0, 1}, {opNotify, 0, 1}, {opTake, 0, 0}, {opTake, 0, 0}})
	d.emit([]int{0, 1, 0}, []op{{opReg, 0, 1}, {opReg, 1, 1}, {opReg, 2, 1}, {opUnreg, 1, 0}, {opNotify, 0, 1},
		{opUnreg, 2, 0}, {opNotify, 0, 1}, {opReg, 2, 2}, {opUnreg, 0, 0}, {opNotify, 0, 3}, {opUnreg, 2, 0}, {opIsEmpty, 0, 0}})
	if *misuse {
		// witnesses of C17_contract_needed_refuted, against the real code: an entry registered twice
		d.emit([]int{0, 0, 0}, []op{{opReg, 1, 1}, {opReg, 2, 1}, {opReg, 1, 1}, {opNotify, 0, 1}})
	}
	nexh, nexhp := 0, 0
	if *exh > 0 {
		nexh = d.exhaustive(*exh, false)
	}
	if *exhp > 0 {
		nexhp = d.exhaustive(*exhp, true)
	}
	r := gen.New(*seed)
	for i := 0; i < *n && !d.aborted; i++ {
		d.random(r, *maxlen)
	}
	nconc := 0
	for i := 0; i < *conc && !d.aborted; i++ {
		g := 2 + i%5
		s := *seed*100000 + uint64(i)
		res := runConcWatched(s, g, 300, 20*time.Second)
		fmt.Fprintf(w, "CConc %d %d %d %s %s %s %s\n", g, 300, s, zi(res.late), zi(res.dup), zi(res.missing), zi(res.extra))
		nconc++
		if res.late < 0 {
			d.aborted = true
		}
	}
	if *misuse && !d.aborted {
		// second witness: the same entry registered twice in a row is its own successor, every walk
		// of the list loops forever.  Run last (its goroutine keeps spinning until the driver exits);
		// it is expected not to return.
		d.timeout = 300 * time.Millisecond
		h0 := d.hung
		d.emit([]int{0, 0}, []op{{opReg, 1, 1}, {opReg, 1, 1}, {opNotify, 0, 1}})
		d.hung, d.aborted = h0, false
	}
	fmt.Fprintf(w, "# histories=%d exhaustive(depth %d)=%d pruned-exhaustive(depth %d)=%d random=%d concurrent(search aid)=%d\n",
		d.count, *exh, nexh, *exhp, nexhp, *n, nconc)
	fmt.Fprintf(w, "# ops: register=%d unregister=%d notify=%d events=%d isEmpty=%d take=%d\n",
		d.opHist[0], d.opHist[1], d.opHist[2], d.opHist[3], d.opHist[4], d.opHist[5])
	fmt.Fprintf(w, "# hung=%d panicked=%d aborted=%v lengths=%v\n", d.hung, d.panicked, d.aborted, d.lenHist)
}

func zi(x int) string {
	if x < 0 {
		return fmt.Sprintf("(%d)", x)
	}
	return fmt.Sprint(x)
}
