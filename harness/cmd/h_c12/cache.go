package main

// (b) histories on the real linkAddrCache (constructed through the overlay-added
// stack.VerifNewLinkAddrCache with a short ageLimit / resolutionTimeout, the real ring of 512).
//
// Every operation is executed at a wall-clock time that is at least `margin` away from every
// deadline that matters for it (expiration of any entry created so far, next timer of any live
// resolver goroutine), so that the order of events is unambiguous; the measured time (µs since the
// start of the history) is printed with the operation and is the `now` the model is run with.  A
// history in which the scheduler did not keep that promise (an operation took too long, a timer
// fired late) is dropped and counted in the metadata.

import (
	"fmt"
	"sort"
	"strings"
	"sync"
	"time"

	"aaverif/internal/gen"

	"github.com/brewlin/net-protocol/pkg/sleep"
	tcpip "github.com/brewlin/net-protocol/protocol"
	"github.com/brewlin/net-protocol/stack"
)

const (
	opAdd = iota
	opGet
	opCheck
	opRemove
)

type hop struct {
	kind    int
	dtMs    int // advance of the planned time before the operation
	k, v, w int
	att     int
	res     bool // get: a resolver is passed
}

type ccfg struct {
	age, timeout time.Duration
	attempts     int
	realTimers   bool // false: the timeout is an hour, checkLinkRequest is called by the history
}

const staticKey = 255
const staticVal = 999

func keyAddr(k int) tcpip.FullAddress {
	if k == 0 {
		return tcpip.FullAddress{}
	}
	return tcpip.FullAddress{NIC: 1, Addr: tcpip.Address([]byte{10, byte(k >> 16), byte(k >> 8), byte(k)})}
}

func valLink(v int) tcpip.LinkAddress {
	if v == 0 {
		return ""
	}
	return tcpip.LinkAddress([]byte{2, 0, byte(v >> 24), byte(v >> 16), byte(v >> 8), byte(v)})
}

func linkVal(l tcpip.LinkAddress) int {
	if l == "" {
		return 0
	}
	b := []byte(l)
	if len(b) != 6 || b[0] != 2 || b[1] != 0 {
		return -1
	}
	return int(b[2])<<24 | int(b[3])<<16 | int(b[4])<<8 | int(b[5])
}

type reqRec struct {
	k  int
	at time.Duration
}

// testRes is the LinkAddressResolver handed to get: it records the requests.
type testRes struct {
	mu    sync.Mutex
	start time.Time
	log   []reqRec
}

func (r *testRes) LinkAddressRequest(addr, _ tcpip.Address, _ stack.LinkEndpoint) *tcpip.Error {
	k := 0
	if b := []byte(addr); len(b) == 4 {
		k = int(b[1])<<16 | int(b[2])<<8 | int(b[3])
	}
	r.mu.Lock()
	r.log = append(r.log, reqRec{k, time.Since(r.start)})
	r.mu.Unlock()
	return nil
}
func (r *testRes) ResolveStaticAddress(addr tcpip.Address) (tcpip.LinkAddress, bool) {
	if addr == keyAddr(staticKey).Addr {
		return valLink(staticVal), true
	}
	return "", false
}
func (r *testRes) LinkAddressProtocol() tcpip.NetworkProtocolNumber { return 1 }
func (r *testRes) snapshot() []reqRec {
	r.mu.Lock()
	defer r.mu.Unlock()
	return append([]reqRec(nil), r.log...)
}

const margin = 5 * time.Millisecond

// a timer is looked at only procSlack after its deadline (Go timers fire late under load)
const procSlack = 2 * margin

type liveRes struct {
	k       int
	ch      <-chan struct{}
	spawn   time.Duration
	lastReq time.Duration
	att     int
	seen    int // number of requests for this resolver consumed from the log
}

func ilist(l []int) string {
	sort.Ints(l)
	s := make([]string, len(l))
	for i, x := range l {
		s[i] = fmt.Sprint(x)
	}
	return "[" + strings.Join(s, ";") + "]"
}

func us(d time.Duration) int64 { return int64(d / time.Microsecond) }

// runHistory executes one history; ok=false if the timing promise was broken.
func runHistory(cfg ccfg, ops []hop) (line string, ok bool, why string) {
	timeout := cfg.timeout
	if !cfg.realTimers {
		timeout = time.Hour
	}
	c := stack.VerifNewLinkAddrCache(cfg.age, timeout, cfg.attempts)
	start := time.Now()
	res := &testRes{start: start}
	wakers := map[int]*sleep.Waker{}
	waker := func(i int) *sleep.Waker {
		if wakers[i] == nil {
			wakers[i] = &sleep.Waker{}
		}
		return wakers[i]
	}
	var chans []<-chan struct{}
	chClosed := map[int]bool{}
	label := func(ch <-chan struct{}) int {
		for i, c := range chans {
			if c == ch {
				return i
			}
		}
		chans = append(chans, ch)
		return len(chans) - 1
	}
	poll := func() (notified, closed []int) {
		for i, w := range wakers {
			if w.IsAsserted() {
				w.Clear()
				notified = append(notified, i)
			}
		}
		for i, ch := range chans {
			if chClosed[i] {
				continue
			}
			select {
			case <-ch:
				chClosed[i] = true
				closed = append(closed, i)
			default:
			}
		}
		return
	}
	lastAdd := map[int]time.Duration{} // key -> time of the last add
	lastOp := map[int]time.Duration{}  // key -> time of the last add / get / check
	var creations []time.Duration      // times of operations that may have created an entry (for expirations)
	var live []*liveRes
	var evs []string
	spawns := 0

	attributed := 0          // requests of the log accounted for: one per spawn, one per "requested" timer
	chanKey := map[int]int{} // channel label -> key

	// processTimers emits the timer events that are due (deadline at least `margin` in the past):
	// one ETimer group per call of the cache's resolver goroutines observed since the last look.
	processTimers := func(now time.Duration) bool {
		for {
			var due []*liveRes
			for _, x := range live {
				if x.k >= 0 && x.lastReq+cfg.timeout+procSlack <= now {
					due = append(due, x)
				}
			}
			if len(due) == 0 {
				return true
			}
			// a timer that may or may not have fired yet makes the next look ambiguous: come back later
			for _, x := range live {
				if d := x.lastReq + cfg.timeout; x.k >= 0 && d <= now+time.Millisecond && d+procSlack > now {
					return true
				}
			}
			sort.Slice(due, func(i, j int) bool { return due[i].lastReq < due[j].lastReq })
			log := res.snapshot()
			var tuples []string
			var fired, silent []*liveRes
			for _, r := range due {
				d := r.lastReq + cfg.timeout
				// done closed before the timer (by an earlier operation): the goroutine took the
				// done case, no check
				closedBefore := false
				for i, ch := range chans {
					if ch == r.ch && chClosed[i] {
						closedBefore = true
					}
				}
				if closedBefore {
					r.k = -1
					continue
				}
				requested := false
				var at time.Duration
				for i := range log {
					if log[i].k == r.k && log[i].at >= d {
						requested, at = true, log[i].at
						break
					}
				}
				// the check ran somewhere between its deadline and the moment we look (or the logged
				// request); an expiration inside that interval makes its outcome a matter of timing
				hi := time.Since(start)
				if requested {
					hi = at
				}
				for _, ct := range creations {
					if e := ct + cfg.age; e > d-margin-margin/2 && e < hi+margin {
						why = "timer near an expiration"
						return false
					}
				}
				if requested && at > d+procSlack {
					why = fmt.Sprintf("timer late by %v", at-d)
					return false
				}
				tuples = append(tuples, fmt.Sprintf("(%d,%d,%d,%v)", us(d), r.k, r.att, requested))
				fired = append(fired, r)
				if requested {
					attributed++
					r.att++
					r.lastReq = at
					if at+cfg.timeout <= time.Since(start)+time.Millisecond {
						why = "overslept a timer"
						return false
					}
				} else {
					silent = append(silent, r)
				}
			}
			notified, closed := poll()
			// a stop without any effect is what the real code does when the entry was resolved,
			// had already expired or was evicted.  If nothing the driver did explains that, the timer
			// is probably just late: wait, and drop the history if the request or the notification
			// shows up after all.
			if len(notified) == 0 && len(closed) == 0 {
				for _, r := range silent {
					d := r.lastReq + cfg.timeout
					la, okA := lastAdd[r.k]
					lo, okO := lastOp[r.k]
					resolved := okA && la >= r.spawn             // an add made the entry ready
					expiredBefore := okO && lo > r.spawn+cfg.age // an earlier operation on k found it expired
					if !resolved && !expiredBefore {
						time.Sleep(45 * time.Millisecond)
						for _, rec := range res.snapshot() {
							if rec.k == r.k && rec.at >= d {
								why = "late timer (request after a silent stop)"
								return false
							}
						}
						if nt, cl := poll(); len(nt) > 0 || len(cl) > 0 {
							why = "late timer (event after a silent stop)"
							return false
						}
						now = time.Since(start)
					}
				}
			}
			for _, r := range silent {
				r.k = -1
			}
			if len(tuples) > 0 || len(notified) > 0 || len(closed) > 0 {
				evs = append(evs, fmt.Sprintf("ETimer [%s] %s %s", strings.Join(tuples, ";"), ilist(notified), ilist(closed)))
			}
		}
	}
	safe := func(now time.Duration, creates bool) bool {
		for _, ct := range creations {
			if diff := now - (ct + cfg.age); diff > -margin && diff < margin+margin/2 {
				return false
			}
		}
		if cfg.realTimers {
			for _, x := range live {
				if x.k < 0 {
					continue
				}
				d := x.lastReq + cfg.timeout
				if diff := now - d; diff > -margin && diff < procSlack+margin/2 {
					return false
				}
				if creates {
					// the entry this operation may create must not expire near a later timer of x
					for m := 0; m <= cfg.attempts; m++ {
						dm := d + time.Duration(m)*cfg.timeout
						if diff := dm - (now + cfg.age); diff > -2*margin && diff < 3*margin {
							return false
						}
					}
				}
			}
		}
		return true
	}

	planned := time.Duration(0)
	for _, o := range ops {
		planned += time.Duration(o.dtMs) * time.Millisecond
		var now time.Duration
		for {
			now = time.Since(start)
			if cfg.realTimers && !processTimers(now) {
				return "", false, why
			}
			if now < planned {
				wake := planned
				if cfg.realTimers {
					for _, x := range live {
						if x.k >= 0 && x.lastReq+cfg.timeout+procSlack < wake {
							wake = x.lastReq + cfg.timeout + procSlack
						}
					}
				}
				if wake > now {
					time.Sleep(wake - now)
				}
				continue
			}
			if safe(now, o.kind == opAdd || o.kind == opGet) {
				break
			}
			time.Sleep(time.Millisecond)
		}
		planned = now
		// something asserted or closed while we slept that no timer event explains: a timer fired
		// later than procSlack after its deadline and was recorded as silent; the history is dropped
		if cfg.realTimers {
			if nt, cl := poll(); len(nt) > 0 || len(cl) > 0 {
				return "", false, "stray event before an operation (a timer fired late)"
			}
		}
		tb := time.Since(start)
		var ev string
		panicked := false
		func() {
			defer func() {
				if e := recover(); e != nil {
					panicked = true
				}
			}()
			switch o.kind {
			case opAdd:
				lastAdd[o.k] = tb
				c.Add(keyAddr(o.k), valLink(o.v))
			case opGet:
				var lr stack.LinkAddressResolver
				if o.res {
					lr = res
				}
				la, ch, err := c.Get(keyAddr(o.k), lr, "", nil, waker(o.w))
				r, val := 3, 0
				switch {
				case err == nil:
					r, val = 0, linkVal(la)
				case err == tcpip.ErrNoLinkAddress:
					r = 1
				case err == tcpip.ErrWouldBlock:
					r = 2
					known := len(chans)
					val = label(ch)
					if val == known {
						chanKey[val] = o.k
					}
					if val == known && o.res {
						// a channel not seen before: a resolver goroutine was started for it
						spawns++
						attributed++
						if cfg.realTimers {
							live = append(live, &liveRes{k: o.k, ch: ch, spawn: tb, lastReq: tb, att: 0})
						}
					}
				}
				ev = fmt.Sprintf("%d %d", r, val)
			case opCheck:
				stop := c.CheckLinkRequest(keyAddr(o.k), o.att)
				ev = fmt.Sprint(stop)
			case opRemove:
				c.RemoveWaker(keyAddr(o.k), waker(o.w))
			}
		}()
		ta := time.Since(start)
		if ta-tb > margin/2 && cfg.age < 5*time.Second {
			return "", false, fmt.Sprintf("operation took %v", ta-tb)
		}
		if o.kind == opAdd || o.kind == opGet {
			creations = append(creations, tb)
		}
		if o.kind != opRemove {
			lastOp[o.k] = tb
		}
		notified, closed := poll()
		nt, cl := ilist(notified), ilist(closed)
		resZ := 0
		if o.res {
			resZ = 1
		}
		switch o.kind {
		case opAdd:
			evs = append(evs, fmt.Sprintf("EAdd %d %d %d %s %s %v", us(tb), o.k, o.v, nt, cl, panicked))
		case opGet:
			if panicked {
				ev = "9 0"
			}
			evs = append(evs, fmt.Sprintf("EGet %d %d %d %d %s %s %s", us(tb), o.k, resZ, o.w, ev, nt, cl))
		case opCheck:
			if panicked {
				ev = "false"
			}
			evs = append(evs, fmt.Sprintf("ECheck %d %d %d %s %s %s %v", us(tb), o.k, o.att, ev, nt, cl, panicked))
		case opRemove:
			evs = append(evs, fmt.Sprintf("ERemove %d %d %d", us(tb), o.k, o.w))
		}
	}
	// let the resolvers that are still alive finish (real timers), then a last look
	if cfg.realTimers {
		deadline := time.Since(start) + time.Duration(cfg.attempts+1)*cfg.timeout + 2*procSlack
		for time.Since(start) < deadline {
			time.Sleep(2 * time.Millisecond)
			if !processTimers(time.Since(start)) {
				return "", false, why
			}
			alive := false
			for _, x := range live {
				if x.k >= 0 {
					alive = true
				}
			}
			if !alive {
				break
			}
		}
	} else {
		// wait for the first request of every spawned goroutine
		for i := 0; i < 200 && len(res.snapshot()) < spawns; i++ {
			time.Sleep(time.Millisecond)
		}
		time.Sleep(time.Millisecond)
	}
	if cfg.realTimers {
		time.Sleep(procSlack)
		if nt, cl := poll(); len(nt) > 0 || len(cl) > 0 {
			return "", false, "stray event at the end (a timer fired late)"
		}
	}
	nreq := len(res.snapshot())
	if cfg.realTimers && nreq != attributed {
		return "", false, fmt.Sprintf("unattributed request (%d logged, %d explained): a timer fired later than the margin", nreq, attributed)
	}
	tmo := int64(0)
	if cfg.realTimers {
		tmo = us(cfg.timeout)
	}
	return fmt.Sprintf("CCache %d %d %d %d [%s] %d %d", stack.VerifLinkAddrCacheSize, us(cfg.age), cfg.attempts, tmo,
		strings.Join(evs, ";"), nreq, c.Next()), true, ""
}

// ---------------------------------------------------------------- generators

func genExplicit(r *gen.Rng, n int) (ccfg, []hop) {
	cfg := ccfg{age: 55 * time.Millisecond, attempts: 1 + r.Intn(4)}
	nk := 2 + r.Intn(4)
	keys := make([]int, nk)
	for i := range keys {
		keys[i] = 1 + r.Intn(40)
	}
	if r.Intn(4) == 0 {
		keys[0] = 0 // the zero FullAddress is a key like any other
	}
	if r.Intn(4) == 0 {
		keys[nk-1] = staticKey
	}
	val := 0
	var ops []hop
	for i := 0; i < n; i++ {
		o := hop{k: keys[r.Intn(nk)], w: r.Intn(4)}
		switch r.Intn(12) {
		case 0, 1, 2:
			o.dtMs = 0
		case 3, 4, 5, 6, 7:
			o.dtMs = 0
		case 8:
			o.dtMs = 10 + r.Intn(30)
		case 9:
			o.dtMs = 40 + r.Intn(30) // across an expiration
		case 10:
			o.dtMs = 5
		default:
			o.dtMs = 20
		}
		switch r.Intn(10) {
		case 0, 1, 2:
			o.kind = opAdd
			if r.Intn(4) == 0 && val > 0 {
				o.v = 1 + r.Intn(val) // repeat of an earlier value
			} else {
				val++
				o.v = val
			}
			if r.Intn(25) == 0 {
				o.v = 0 // empty link address
			}
		case 3, 4, 5, 6:
			o.kind = opGet
			o.res = r.Intn(3) != 0
		case 7, 8:
			o.kind = opCheck
			o.att = r.Intn(cfg.attempts + 1)
		default:
			o.kind = opRemove
		}
		ops = append(ops, o)
	}
	return cfg, ops
}

// overflow: more neighbours than the ring has slots, then look all of them up
func genOverflow(r *gen.Rng) (ccfg, []hop) {
	cfg := ccfg{age: 10 * time.Second, attempts: 3}
	n := stack.VerifLinkAddrCacheSize + 5
	var ops []hop
	base := 1000 + r.Intn(1000)
	// a pending resolution and a ready entry that will be evicted by the wrap
	ops = append(ops, hop{kind: opGet, k: base - 1, w: 1, res: true})
	ops = append(ops, hop{kind: opAdd, k: base - 2, v: 77})
	extra := r.Intn(3)
	for i := 0; i < n+extra; i++ {
		if r.Intn(3) == 0 {
			ops = append(ops, hop{kind: opGet, k: base + i, w: 2 + i%2, res: true})
		} else {
			ops = append(ops, hop{kind: opAdd, k: base + i, v: 5000 + i})
		}
		if r.Intn(40) == 0 { // overwrite an earlier neighbour with a new link address
			ops = append(ops, hop{kind: opAdd, k: base + r.Intn(i+1), v: 9000 + i})
		}
	}
	for i := -2; i < n+extra; i += 1 + r.Intn(3) {
		ops = append(ops, hop{kind: opGet, k: base + i, w: 3})
	}
	ops = append(ops, hop{kind: opCheck, k: base - 1, att: 2})
	return cfg, ops
}

// real timers: one or two resolutions with replies arriving or not, extra waiters, other traffic
func genTimers(r *gen.Rng) (ccfg, []hop) {
	cfg := ccfg{timeout: 30 * time.Millisecond, attempts: 1 + r.Intn(4), realTimers: true}
	if r.Intn(3) == 0 {
		cfg.age = 75 * time.Millisecond // expires while incomplete when attempts >= 3
	} else {
		cfg.age = 300 * time.Millisecond
	}
	k := 1 + r.Intn(40)
	k2 := k + 1
	var ops []hop
	if r.Intn(3) == 0 {
		ops = append(ops, hop{kind: opAdd, k: k2, v: 5})
	}
	ops = append(ops, hop{kind: opGet, k: k, w: 0, res: true})
	n := 2 + r.Intn(7)
	replied := false
	for i := 0; i < n; i++ {
		o := hop{dtMs: []int{0, 7, 13, 26, 45, 80}[r.Intn(6)], k: k, w: 1 + r.Intn(3)}
		switch r.Intn(10) {
		case 0, 1, 2, 3:
			o.kind = opGet
			o.res = r.Intn(4) != 0
		case 4:
			if !replied && r.Intn(2) == 0 {
				o.kind, o.v = opAdd, 42 // the reply arrives
				replied = true
			} else {
				o.kind, o.res = opGet, true
			}
		case 5:
			o.kind = opRemove
			o.w = r.Intn(4)
		case 6:
			o.kind, o.k, o.res = opGet, k2, true // a second resolution
		case 7:
			o.kind, o.k, o.v = opAdd, k2, 6+i
		default:
			o.kind, o.res = opGet, r.Intn(2) == 0
		}
		ops = append(ops, o)
	}
	return cfg, ops
}

type histJob struct {
	cfg ccfg
	ops []hop
}

func runCache(r *gen.Rng, nExplicit, nOverflow, nTimers, conc int) {
	var jobs []histJob
	for i := 0; i < nOverflow; i++ {
		c, o := genOverflow(r)
		jobs = append(jobs, histJob{c, o})
	}
	for i := 0; i < nExplicit; i++ {
		c, o := genExplicit(r, 4+r.Intn(36))
		jobs = append(jobs, histJob{c, o})
	}
	for i := 0; i < nTimers; i++ {
		c, o := genTimers(r)
		jobs = append(jobs, histJob{c, o})
	}
	lines := make([]string, len(jobs))
	whys := make([]string, len(jobs))
	sem := make(chan struct{}, conc)
	var wg sync.WaitGroup
	for i := range jobs {
		wg.Add(1)
		sem <- struct{}{}
		go func(i int) {
			defer wg.Done()
			defer func() { <-sem }()
			for try := 0; try < 3; try++ {
				l, ok, why := runHistory(jobs[i].cfg, jobs[i].ops)
				if ok {
					lines[i] = l
					return
				}
				whys[i] = why
			}
		}(i)
	}
	wg.Wait()
	dropped := 0
	reasons := map[string]int{}
	for i, l := range lines {
		if l == "" {
			dropped++
			reasons[strings.Fields(whys[i] + " ?")[0]]++
			continue
		}
		fmt.Fprintln(out, l)
	}
	fmt.Fprintf(out, "# cache histories: overflow=%d explicit=%d timers=%d dropped_for_timing=%d %v\n", nOverflow, nExplicit, nTimers, dropped, reasons)
}
