package main

// (c) thorough tier: UDP write / TCP connect towards a next hop whose link address is unknown,
// through a real stack with the REAL constants (3 attempts, 1 s apart, 1 minute age limit).  The
// recording link endpoint plays the neighbour: it lets the first `lost` ARP requests go
// unanswered and answers the next one (if any).  Observed: every frame with its time, the final
// result of the operation.

import (
	"fmt"
	"strings"
	"sync"
	"time"

	"aaverif/internal/netx"

	"github.com/brewlin/net-protocol/pkg/waiter"
	tcpip "github.com/brewlin/net-protocol/protocol"
	"github.com/brewlin/net-protocol/protocol/network/ipv4"
	"github.com/brewlin/net-protocol/protocol/transport/tcp"
	"github.com/brewlin/net-protocol/protocol/transport/udp"
	"github.com/brewlin/net-protocol/stack"
)

type scen struct {
	kind int // 0 UDP write (retried when the done channel closes), 1 TCP connect
	via  int // 0 neighbour on the link, 1 through a gateway, 2 own address, 3 limited broadcast
	lost int // ARP requests that get no answer
}

type sframe struct {
	at    time.Duration
	proto int
	bytes []byte
	dst   []byte
}

func runScen(sc scen) string {
	me := []byte{10, 0, 0, 1}
	n := netx.NewNet(netx.Opts{Caps: stack.CapabilityResolutionRequired, LinkAddr: tcpip.LinkAddress(macMe), Addr4: string(me)})
	dest := []byte{10, 0, 0, 2}
	gw := []byte{}
	switch sc.via {
	case 1:
		dest = []byte{8, 8, 8, 8}
		gw = []byte{10, 0, 0, 254}
		n.S.SetRouteTable([]tcpip.Route{{Destination: "\x00\x00\x00\x00", Mask: "\x00\x00\x00\x00", Gateway: tcpip.Address(gw), NIC: 1}})
	case 2:
		dest = me
	case 3:
		dest = []byte{255, 255, 255, 255}
	}
	peerMAC := []byte{2, 0, 0, 0, 9, byte(sc.lost)}
	var mu sync.Mutex
	var frames []sframe
	start := time.Now()
	arpSeen := 0
	n.L.OnFrame = func(f netx.Frame) {
		mu.Lock()
		frames = append(frames, sframe{time.Since(start), int(f.Proto), f.Bytes, []byte(f.DstLink)})
		answer := false
		if f.Proto == netx.ProtoARP && len(f.Bytes) >= 28 && f.Bytes[7] == 1 {
			arpSeen++
			answer = arpSeen == sc.lost+1
		}
		mu.Unlock()
		if answer {
			b := f.Bytes
			rep := arpPkt{htype: 1, ptype: 0x0800, hlen: 6, plen: 4, op: 2, sha: peerMAC, spa: b[24:28], tha: b[8:14], tpa: b[14:18]}
			go func() {
				time.Sleep(3 * time.Millisecond)
				n.L.InjectFrom(netx.ProtoARP, tcpip.LinkAddress(peerMAC), tcpip.LinkAddress(macMe), rep.bytes())
			}()
		}
	}
	result := 2
	code := func(err *tcpip.Error) int {
		switch err {
		case nil:
			return 0
		case tcpip.ErrNoLinkAddress:
			return 1
		}
		return 2
	}
	wq := &waiter.Queue{}
	switch sc.kind {
	case 0:
		ep, err := n.S.NewEndpoint(udp.ProtocolNumber, ipv4.ProtocolNumber, wq)
		if err != nil {
			return "# scen: " + err.String()
		}
		to := tcpip.FullAddress{NIC: 1, Addr: tcpip.Address(dest), Port: 4242}
		deadline := time.Now().Add(6 * time.Second)
		for time.Now().Before(deadline) {
			_, ch, err := ep.Write(tcpip.SlicePayload([]byte("hello neighbour")), tcpip.WriteOptions{To: &to})
			if err == tcpip.ErrWouldBlock && ch != nil {
				select {
				case <-ch:
				case <-time.After(5 * time.Second):
				}
				continue
			}
			result = code(err)
			break
		}
		ep.Close()
	case 1:
		ep, err := n.S.NewEndpoint(tcp.ProtocolNumber, ipv4.ProtocolNumber, wq)
		if err != nil {
			return "# scen: " + err.String()
		}
		we, ch := waiter.NewChannelEntry(nil)
		wq.EventRegister(&we, waiter.EventOut|waiter.EventErr|waiter.EventHUp)
		cerr := ep.Connect(tcpip.FullAddress{NIC: 1, Addr: tcpip.Address(dest), Port: 4242})
		if cerr != tcpip.ErrConnectStarted {
			result = code(cerr)
			if cerr == nil {
				result = 2
			}
		} else {
			// success here = a SYN went out; failure = the endpoint reports its error
			deadline := time.After(5 * time.Second)
		wait:
			for {
				select {
				case <-ch:
					result = code(ep.GetSockOpt(tcpip.ErrorOption{}))
					if result == 0 {
						result = 2 // woken without an error and without a SYN: unexpected
					}
					break wait
				case <-deadline:
					break wait
				case <-time.After(5 * time.Millisecond):
					mu.Lock()
					syn := false
					for _, f := range frames {
						if f.proto == int(netx.ProtoIPv4) {
							syn = true
						}
					}
					mu.Unlock()
					if syn {
						result = 0
						break wait
					}
				}
			}
		}
		wq.EventUnregister(&we)
		ep.Close()
	}
	tend := time.Since(start)
	time.Sleep(20 * time.Millisecond)
	mu.Lock()
	defer mu.Unlock()
	var fs []string
	for _, f := range frames {
		// (time µs, kind, link destination, a, b): kind 1 = ARP request: a = target IP, b = sender MAC ++ sender IP;
		// kind 2 = IPv4 packet: a = destination IP, b = [protocol]; kind 3 = anything else
		kind, a, b := 3, []byte{}, []byte{}
		switch {
		case f.proto == int(netx.ProtoARP) && len(f.bytes) >= 28 && f.bytes[6] == 0 && f.bytes[7] == 1:
			kind, a, b = 1, f.bytes[24:28], f.bytes[8:18]
		case f.proto == int(netx.ProtoIPv4) && len(f.bytes) >= 20:
			kind, a, b = 2, f.bytes[16:20], f.bytes[9:10]
			if f.bytes[9] == 6 && len(f.bytes) >= 34 && f.bytes[33]&4 != 0 {
				continue // a RST sent while closing the endpoint at the end of the scenario
			}
		}
		fs = append(fs, fmt.Sprintf("(%d,%d,%s,%s,%s)", us(f.at), kind, netx.ZList(f.dst), netx.ZList(a), netx.ZList(b)))
	}
	return fmt.Sprintf("CScen %d %d %d %s %s %s %s %s [%s] %d %d", sc.kind, sc.via, sc.lost, netx.ZList(macMe), netx.ZList(me),
		netx.ZList(dest), netx.ZList(gw), netx.ZList(peerMAC), strings.Join(fs, ";"), us(tend), result)
}

func runScens(rounds int) {
	var all []scen
	for r := 0; r < rounds; r++ {
		for kind := 0; kind < 2; kind++ {
			for lost := 0; lost <= 3; lost++ {
				all = append(all, scen{kind, 0, lost}, scen{kind, 1, lost})
			}
			all = append(all, scen{kind, 2, 0})
		}
		all = append(all, scen{0, 3, 0})
	}
	lines := make([]string, len(all))
	var wg sync.WaitGroup
	for i := range all {
		wg.Add(1)
		go func(i int) {
			defer wg.Done()
			defer func() {
				if e := recover(); e != nil {
					lines[i] = fmt.Sprintf("CScen %d %d %d [] [] [] [] [] [] 0 9", all[i].kind, all[i].via, all[i].lost)
				}
			}()
			lines[i] = runScen(all[i])
		}(i)
		time.Sleep(7 * time.Millisecond)
	}
	wg.Wait()
	for _, l := range lines {
		fmt.Fprintln(out, l)
	}
	fmt.Fprintf(out, "# scenarios: %d (UDP write / TCP connect x direct, gateway, own address, broadcast x 0..3 lost requests)\n", len(all))
}
