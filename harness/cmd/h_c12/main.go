// h_c12: implementation-side driver for C12 (neighbour resolution).  Prints one Coq term of type
// NP.Corr.C12.case per line.
//
//	(a) arp.go: ARP packets injected into a fresh real stack (recording link endpoint declaring
//	    CapabilityResolutionRequired, "arp" protocol address added); observed: frames handed to
//	    the link endpoint and Stack.GetLinkAddress answers afterwards.
//	(b) cache.go: histories on the real linkAddrCache through the overlay-added constructor.
//	(c) scen.go (thorough tier): UDP write / TCP connect to an unresolved next hop, real constants.
//	(d) ndp.go: IPv6 neighbour solicitations / advertisements injected into a fresh real stack, and
//	    the stack's own solicitations (LinkAddressRequest directly, via GetLinkAddress, via a UDP write).
package main

import (
	"bufio"
	"flag"
	"fmt"
	"io"
	"log"
	"os"

	"aaverif/internal/gen"
)

var out *bufio.Writer

func main() {
	log.SetOutput(io.Discard)
	seed := flag.Uint64("seed", 1, "seed")
	n := flag.Int("n", 1500, "number of random ARP packet cases (after the lattice)")
	nh := flag.Int("hist", 120, "number of cache histories with explicit checkLinkRequest calls")
	nov := flag.Int("overflow", 2, "number of ring-overflow histories")
	nt := flag.Int("timers", 60, "number of cache histories with the real resolver timers")
	conc := flag.Int("conc", 32, "cache histories run concurrently")
	nnd := flag.Int("ndp", 250, "number of random neighbour discovery packet cases (after the lattice); 0 = no NDP cases")
	flag.BoolVar(&ndpSN, "ndpsn", false, "also generate inputs of finding C12-ndp-solicited-node-not-joined")
	nsc := flag.Int("scen", 0, "rounds of real-constant UDP/TCP scenarios (19 scenarios, about 4 s per round)")
	flag.Parse()
	out = bufio.NewWriterSize(os.Stdout, 1<<20)
	defer out.Flush()
	r := gen.New(*seed)
	runArp(r, *n)
	if *nnd > 0 {
		runNdp(gen.New(*seed^0x6e6470), *nnd)
	}
	runCache(r, *nh, *nov, *nt, *conc)
	for i := 0; i < *nsc; i++ {
		runScens(1)
	}
	fmt.Fprintf(out, "# done\n")
}
