package main

import (
	"fmt"
	"strings"

	"aaverif/internal/gen"
	"aaverif/internal/netx"

	"github.com/brewlin/net-protocol/pkg/sleep"
	tcpip "github.com/brewlin/net-protocol/protocol"
	"github.com/brewlin/net-protocol/stack"
)

// arpPkt is built with plain byte writes (not the repo's header package).
type arpPkt struct {
	htype, ptype uint16
	hlen, plen   byte
	op           uint16
	sha, spa     []byte
	tha, tpa     []byte
	trail        []byte
}

func (a arpPkt) bytes() []byte {
	b := []byte{byte(a.htype >> 8), byte(a.htype), byte(a.ptype >> 8), byte(a.ptype), a.hlen, a.plen, byte(a.op >> 8), byte(a.op)}
	b = append(b, a.sha...)
	b = append(b, a.spa...)
	b = append(b, a.tha...)
	b = append(b, a.tpa...)
	return append(b, a.trail...)
}

type arpCase struct {
	locals [][]byte // first = primary address
	myMAC  []byte
	srcMAC []byte
	arpOn  bool
	pkt    []byte
	chunk  int      // size of the first view; <0 = whole packet in one view
	extra  [][]byte // additional addresses to look up
}

func zll(l [][]byte) string {
	s := make([]string, len(l))
	for i, x := range l {
		s[i] = netx.ZList(x)
	}
	return "[" + strings.Join(s, ";") + "]"
}

var arpStats = map[string]int{}

// noResolver is a network protocol number without a LinkAddressResolver: GetLinkAddress with it
// reads the cache and never starts a resolution.
const noResolver = tcpip.NetworkProtocolNumber(0xfffe)

func runArpCase(c arpCase) {
	caps := stack.LinkEndpointCapabilities(0)
	if c.arpOn {
		caps = stack.CapabilityResolutionRequired
	}
	n := netx.NewNet(netx.Opts{Caps: caps, LinkAddr: tcpip.LinkAddress(c.myMAC), Addr4: string(c.locals[0])})
	for _, a := range c.locals[1:] {
		if err := n.S.AddAddress(1, netx.ProtoIPv4, tcpip.Address(a)); err != nil {
			panic(err.String())
		}
	}
	// a second interface with an address of its own: requests for it that arrive on NIC 1 are
	// requests for a foreign address as far as NIC 1 is concerned
	id2, _ := netx.NewLink(1500, caps, tcpip.LinkAddress([]byte{2, 0, 0, 0, 2, 2}))
	if err := n.S.CreateNIC(2, id2); err != nil {
		panic(err.String())
	}
	if err := n.S.AddAddress(2, netx.ProtoIPv4, tcpip.Address(otherNIC)); err != nil {
		panic(err.String())
	}
	first := c.pkt
	var chunks []int
	if c.chunk >= 0 && c.chunk < len(c.pkt) {
		chunks = []int{c.chunk}
		first = c.pkt[:c.chunk]
	}
	panicked := false
	func() {
		defer func() {
			if e := recover(); e != nil {
				panicked = true
			}
		}()
		n.L.InjectFrom(netx.ProtoARP, tcpip.LinkAddress(c.srcMAC), tcpip.LinkAddress(c.myMAC), c.pkt, chunks...)
	}()
	frames := n.L.Take()
	fs := make([]string, len(frames))
	for i, f := range frames {
		fs[i] = fmt.Sprintf("(%d,%s,%s)", int(f.Proto), netx.ZList(f.Bytes), netx.ZList([]byte(f.DstLink)))
	}
	// addresses to look up: sender and target protocol address fields when present, the extras
	var ips [][]byte
	seen := map[string]bool{}
	add := func(b []byte) {
		if !seen[string(b)] {
			seen[string(b)] = true
			ips = append(ips, b)
		}
	}
	if len(c.pkt) >= 18 {
		add(c.pkt[14:18])
	}
	if len(c.pkt) >= 28 {
		add(c.pkt[24:28])
		add(c.pkt[18:22])
		add(c.pkt[8:12])
	}
	for _, e := range c.extra {
		add(e)
	}
	ls := make([]string, 0, len(ips))
	w := &sleep.Waker{}
	for _, ip := range ips {
		var la tcpip.LinkAddress
		var err *tcpip.Error
		func() {
			defer func() {
				if e := recover(); e != nil {
					panicked = true
				}
			}()
			la, _, err = n.S.GetLinkAddress(1, tcpip.Address(ip), "", noResolver, w)
		}()
		ls = append(ls, fmt.Sprintf("(%s,%s,%s)", netx.ZList(ip), netx.B(err == nil), netx.ZList([]byte(la))))
	}
	fmt.Fprintf(out, "CArp %s %s %s %s %s %d %s [%s] [%s]\n", zll(c.locals), netx.ZList(c.myMAC), netx.ZList(c.srcMAC),
		netx.B(c.arpOn), netx.ZList(first), len(c.pkt), netx.B(panicked), strings.Join(fs, ";"), strings.Join(ls, ";"))
	switch {
	case len(frames) > 0:
		arpStats["answered"]++
	case len(first) < 28:
		arpStats["runt"]++
	default:
		arpStats["silent"]++
	}
}

var (
	own1    = []byte{10, 0, 0, 1}
	own2    = []byte{10, 0, 0, 77}
	own3    = []byte{192, 168, 7, 3}
	foreign = []byte{10, 0, 0, 2}
	macMe   = []byte{2, 0, 0, 0, 0, 1}
	macPeer = []byte{2, 0, 0, 0, 0, 9}
)

// the address of the stack's second interface (NIC 2); never an address of NIC 1
var otherNIC = []byte{10, 9, 9, 9}

func baseReq(tpa []byte) arpPkt {
	return arpPkt{htype: 1, ptype: 0x0800, hlen: 6, plen: 4, op: 1, sha: macPeer, spa: []byte{10, 0, 0, 9}, tha: make([]byte, 6), tpa: tpa}
}

func runArp(r *gen.Rng, n int) {
	std := func(p []byte, chunk int) arpCase {
		return arpCase{locals: [][]byte{own1, own2}, myMAC: macMe, srcMAC: macPeer, arpOn: true, pkt: p, chunk: chunk,
			extra: [][]byte{own1, foreign}}
	}
	// --- lattice 1: every op x every kind of target
	targets := [][]byte{own1, own2, foreign, otherNIC, {10, 0, 0, 0}, {255, 255, 255, 255}, {0, 0, 0, 0}, {10, 0, 0, 9}}
	ops := []uint16{1, 2, 0, 3, 4, 256, 257, 512, 0x0101, 0x0201, 0x0102, 0xffff}
	for _, op := range ops {
		for _, t := range targets {
			a := baseReq(t)
			a.op = op
			runArpCase(std(a.bytes(), -1))
		}
	}
	// --- lattice 1b: every kind of SENDER protocol address x requests for own / foreign targets and
	// replies: the unspecified address (an RFC 5227 address probe), our own address (gratuitous /
	// conflicting announcement), broadcast, the target itself, another host
	senders := [][]byte{{0, 0, 0, 0}, own1, own2, {255, 255, 255, 255}, foreign, {10, 0, 0, 9}, {127, 0, 0, 1}, {224, 0, 0, 1}}
	for _, op := range []uint16{1, 2} {
		for _, sp := range senders {
			for _, t := range [][]byte{own1, own2, foreign, sp} {
				a := baseReq(t)
				a.op, a.spa = op, sp
				runArpCase(std(a.bytes(), -1))
				a.sha = []byte{0, 0, 0, 0, 0, 0}
				runArpCase(std(a.bytes(), -1))
			}
		}
	}
	// --- lattice 2: one header field wrong at a time, request for our address and reply
	for _, op := range []uint16{1, 2} {
		for _, ht := range []uint16{0, 2, 6, 256, 257, 0x0100, 0xffff} {
			a := baseReq(own1)
			a.op, a.htype = op, ht
			runArpCase(std(a.bytes(), -1))
		}
		for _, pt := range []uint16{0, 0x0806, 0x86dd, 0x0008, 0x0801, 0x0900, 0xffff} {
			a := baseReq(own1)
			a.op, a.ptype = op, pt
			runArpCase(std(a.bytes(), -1))
		}
		for _, hl := range []byte{0, 4, 5, 7, 8, 255} {
			a := baseReq(own1)
			a.op, a.hlen = op, hl
			runArpCase(std(a.bytes(), -1))
		}
		for _, pl := range []byte{0, 3, 5, 6, 16, 255} {
			a := baseReq(own1)
			a.op, a.plen = op, pl
			runArpCase(std(a.bytes(), -1))
		}
	}
	// --- lattice 3: truncated at every length, and longer (trailing bytes / padding), in one view
	// and with the first view cut at every length
	for _, op := range []uint16{1, 2} {
		a := baseReq(own1)
		a.op = op
		a.trail = []byte{9, 8, 7, 6, 5, 4, 3, 2, 1, 0, 9, 8, 7, 6, 5, 4, 3, 2}
		full := a.bytes()
		for l := 0; l <= len(full); l++ {
			runArpCase(std(full[:l], -1))
		}
		for ch := 0; ch <= 30; ch++ {
			runArpCase(std(full, ch))
		}
	}
	// --- lattice 4: link endpoint addresses of unusual length, no arp address, empty source
	for _, mm := range [][]byte{{}, {1, 2, 3}, {1, 2, 3, 4, 5, 6, 7, 8}} {
		c := std(baseReq(own1).bytes(), -1)
		c.myMAC = mm
		runArpCase(c)
	}
	for _, sm := range [][]byte{{}, {1, 2, 3}, {0xff, 0xff, 0xff, 0xff, 0xff, 0xff}} {
		c := std(baseReq(own2).bytes(), -1)
		c.srcMAC = sm
		runArpCase(c)
	}
	for _, op := range []uint16{1, 2} {
		a := baseReq(own1)
		a.op = op
		c := std(a.bytes(), -1)
		c.arpOn = false
		runArpCase(c)
	}
	// --- random
	for i := 0; i < n; i++ {
		locals := [][]byte{own1}
		if r.Intn(2) == 0 {
			locals = append(locals, own2)
		}
		if r.Intn(4) == 0 {
			locals = append(locals, own3)
		}
		if r.Intn(8) == 0 {
			locals = append(locals, r.Bytes(4))
		}
		pickIP := func() []byte {
			switch r.Intn(8) {
			case 0, 1, 2:
				return locals[r.Intn(len(locals))]
			case 3:
				if r.Intn(2) == 0 {
					return otherNIC
				}
				return foreign
			case 4:
				x := append([]byte(nil), locals[r.Intn(len(locals))]...)
				x[r.Intn(4)] ^= 1 << uint(r.Intn(8)) // one bit away from an own address
				return x
			case 5:
				return []byte{255, 255, 255, 255}
			default:
				return r.Bytes(4)
			}
		}
		a := arpPkt{htype: 1, ptype: 0x0800, hlen: 6, plen: 4, op: 1, sha: r.Bytes(6), spa: pickIP(), tha: r.Bytes(6), tpa: pickIP()}
		if r.Intn(6) == 0 {
			a.spa = [][]byte{{0, 0, 0, 0}, {255, 255, 255, 255}, a.tpa}[r.Intn(3)]
		}
		switch r.Intn(10) {
		case 0, 1, 2:
			a.op = 2
		case 3:
			a.op = uint16(r.Intn(5))
		case 4:
			a.op = uint16(r.U32())
		}
		// one mutation of the fixed part in 1/4 of the cases
		if r.Intn(4) == 0 {
			switch r.Intn(4) {
			case 0:
				a.htype = []uint16{0, 2, 256, uint16(r.U32())}[r.Intn(4)]
			case 1:
				a.ptype = []uint16{0x0806, 0x86dd, 0x0008, uint16(r.U32())}[r.Intn(4)]
			case 2:
				a.hlen = byte(r.Intn(9))
			case 3:
				a.plen = byte(r.Intn(9))
			}
		}
		if r.Intn(3) == 0 {
			a.trail = r.Bytes(r.Intn(20))
		}
		p := a.bytes()
		if r.Intn(8) == 0 {
			p = p[:r.Intn(len(p)+1)]
		}
		if r.Intn(40) == 0 {
			p = r.Bytes(r.Intn(64))
		}
		c := arpCase{locals: locals, myMAC: macMe, srcMAC: a.sha, arpOn: r.Intn(25) != 0, pkt: p, chunk: -1,
			extra: [][]byte{locals[0], foreign}}
		if r.Intn(3) == 0 {
			c.srcMAC = r.Bytes(6) // link-layer source differs from the sender hardware address field
		}
		if r.Intn(12) == 0 {
			c.chunk = r.Intn(len(p) + 1)
		}
		if r.Intn(30) == 0 {
			c.myMAC = r.Bytes(r.Intn(9))
		}
		runArpCase(c)
	}
	fmt.Fprintf(out, "# arp cases: answered=%d silent=%d runt=%d\n", arpStats["answered"], arpStats["silent"], arpStats["runt"])
}
