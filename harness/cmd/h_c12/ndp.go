package main

// (d) IPv6 neighbour discovery: neighbour solicitations / advertisements injected as whole IPv6
// packets into a fresh real stack (recording link endpoint, one NIC with a chosen set of IPv6
// addresses, multicast groups only when added explicitly), observed: frames handed to the link
// endpoint and Stack.GetLinkAddress answers afterwards (CNdp); and the stack's own solicitations:
// ipv6 LinkAddressRequest called directly, through Stack.GetLinkAddress (what Route.Resolve calls)
// and through a UDP write to an unresolved neighbour (CNdpReq).  Packets are built with plain byte
// writes and netx's independent checksum, not with the repo's header package.

import (
	"fmt"
	"strings"
	"time"

	"aaverif/internal/gen"
	"aaverif/internal/netx"

	"github.com/brewlin/net-protocol/pkg/sleep"
	"github.com/brewlin/net-protocol/pkg/waiter"
	tcpip "github.com/brewlin/net-protocol/protocol"
	"github.com/brewlin/net-protocol/protocol/network/ipv6"
	"github.com/brewlin/net-protocol/protocol/transport/udp"
	"github.com/brewlin/net-protocol/stack"
)

// inputs that exhibit the recorded finding C12-ndp-solicited-node-not-joined are generated only when
// it is listed in known_findings.json (lib/specs/C12.py passes the flag)
var ndpSN bool

var (
	o6a   = []byte{0x20, 0x01, 0x0d, 0xb8, 0, 0, 0, 0, 0, 0, 0, 0, 0, 0, 0, 1}
	o6b   = []byte{0xfe, 0x80, 0, 0, 0, 0, 0, 0, 0, 0, 0, 0xff, 0xfe, 0x12, 0x34, 0x56}
	peer6 = []byte{0x20, 0x01, 0x0d, 0xb8, 0, 0, 0, 0, 0, 0, 0, 0, 0, 0, 0, 9}
	peer7 = []byte{0x20, 0x01, 0x0d, 0xb8, 0, 0, 0, 0, 0, 0, 0, 0, 0, 0, 1, 7}
	forn6 = []byte{0x20, 0x01, 0x0d, 0xb8, 0, 0, 0, 0, 0, 0, 0, 0, 0, 0, 0, 2}
	unsp6 = make([]byte, 16)
	alln6 = []byte{0xff, 0x02, 0, 0, 0, 0, 0, 0, 0, 0, 0, 0, 0, 0, 0, 1}
	ones6 = []byte{255, 255, 255, 255, 255, 255, 255, 255, 255, 255, 255, 255, 255, 255, 255, 255}
	macX  = []byte{2, 0, 0, 0, 0, 0x55}
)

func sn6(a []byte) []byte {
	b := []byte{0xff, 0x02, 0, 0, 0, 0, 0, 0, 0, 0, 0, 1, 0xff, 0, 0, 0}
	if len(a) >= 3 {
		copy(b[13:], a[len(a)-3:])
	}
	return b
}

func cat(bs ...[]byte) []byte {
	var o []byte
	for _, b := range bs {
		o = append(o, b...)
	}
	return o
}

// icmp6 builds an ICMPv6 message with a checksum that is valid for (src, dst) plus delta.
func icmp6(typ, code byte, body []byte, src, dst []byte, delta uint16) []byte {
	m := cat([]byte{typ, code, 0, 0}, body)
	c := ^netx.Sum16(m, netx.PseudoSum(src, dst, 58, len(m))) + delta
	m[2], m[3] = byte(c>>8), byte(c)
	return m
}

type ndMsg struct {
	typ, code byte
	flags     byte // advertisement flags (first byte behind the checksum)
	target    []byte
	opts      []byte
	src, dst  []byte
	hop       byte
	delta     uint16 // added to the correct checksum
}

func (m ndMsg) packet() []byte {
	body := cat([]byte{m.flags, 0, 0, 0}, m.target, m.opts)
	return netx.IPv6Packet(m.src, m.dst, 58, m.hop, icmp6(m.typ, m.code, body, m.src, m.dst, m.delta))
}

func lladdrOpt(typ byte, mac []byte) []byte { return cat([]byte{typ, 1}, mac) }

type ndpCase struct {
	locals [][]byte
	myMAC  []byte
	srcMAC []byte
	pkt    []byte
	chunks []int
	extra  [][]byte
}

var ndpStats = map[string]int{}

func has(l [][]byte, a []byte) bool {
	for _, x := range l {
		if string(x) == string(a) {
			return true
		}
	}
	return false
}

// finding classifies the INPUT only: "sn" = a solicitation for an own unicast address sent to the
// target's solicited-node group, which the NIC has not joined (the recorded finding); "mc" = the target
// is a group the NIC holds; "opt" = a link-layer address option that contradicts the frame's
// link-layer source (the last two are ordinary cases, counted for the metadata line).
func (c ndpCase) finding() string {
	p := c.pkt
	if len(p) < 64 || p[6] != 58 {
		return ""
	}
	dst, typ, target := p[24:40], p[40], p[48:64]
	answered := typ == 135 && has(c.locals, target)
	if typ == 135 && answered && target[0] != 0xff && !has(c.locals, dst) && string(dst) == string(sn6(target)) {
		return "sn"
	}
	if !has(c.locals, dst) {
		return ""
	}
	if answered && target[0] == 0xff {
		return "mc"
	}
	if (answered || typ == 136) && len(p) >= 72 && p[65] == 1 && ((typ == 135 && p[64] == 1) || (typ == 136 && p[64] == 2)) &&
		string(p[66:72]) != string(c.srcMAC) {
		return "opt"
	}
	return ""
}

func (c ndpCase) allowed() bool { return c.finding() != "sn" || ndpSN }

func intsZ(l []int) string {
	s := make([]string, len(l))
	for i, x := range l {
		s[i] = fmt.Sprint(x)
	}
	return "[" + strings.Join(s, ";") + "]"
}

func runNdpCase(c ndpCase) {
	if !c.allowed() {
		ndpStats["gated"]++
		return
	}
	n := netx.NewNet(netx.Opts{Caps: stack.CapabilityResolutionRequired, LinkAddr: tcpip.LinkAddress(c.myMAC), Addr6: string(c.locals[0])})
	for _, a := range c.locals[1:] {
		if err := n.S.AddAddress(1, netx.ProtoIPv6, tcpip.Address(a)); err != nil {
			panic(err.String())
		}
	}
	panicked := false
	func() {
		defer func() {
			if e := recover(); e != nil {
				panicked = true
			}
		}()
		n.L.InjectFrom(netx.ProtoIPv6, tcpip.LinkAddress(c.srcMAC), tcpip.LinkAddress(c.myMAC), c.pkt, c.chunks...)
	}()
	frames := n.L.Take()
	fs := make([]string, len(frames))
	for i, f := range frames {
		fs[i] = fmt.Sprintf("(%d,%s,%s)", int(f.Proto), netx.ZList(f.Bytes), netx.ZList([]byte(f.DstLink)))
	}
	var ips [][]byte
	seen := map[string]bool{}
	add := func(b []byte) {
		if !seen[string(b)] {
			seen[string(b)] = true
			ips = append(ips, b)
		}
	}
	if len(c.pkt) >= 24 {
		add(c.pkt[8:24])
	}
	if len(c.pkt) >= 64 {
		add(c.pkt[48:64])
	}
	if len(c.pkt) >= 40 {
		add(c.pkt[24:40])
	}
	for _, e := range c.extra {
		add(e)
	}
	ls := make([]string, 0, len(ips))
	w := &sleep.Waker{}
	for _, ip := range ips {
		var la tcpip.LinkAddress
		var err *tcpip.Error
		func() {
			defer func() {
				if e := recover(); e != nil {
					panicked = true
				}
			}()
			la, _, err = n.S.GetLinkAddress(1, tcpip.Address(ip), "", noResolver, w)
		}()
		ls = append(ls, fmt.Sprintf("(%s,%s,%s)", netx.ZList(ip), netx.B(err == nil), netx.ZList([]byte(la))))
	}
	fmt.Fprintf(out, "CNdp %s %s %s %s %s %s [%s] [%s]\n", zll(c.locals), netx.ZList(c.myMAC), netx.ZList(c.srcMAC),
		netx.ZList(c.pkt), intsZ(c.chunks), netx.B(panicked), strings.Join(fs, ";"), strings.Join(ls, ";"))
	switch {
	case panicked:
		ndpStats["panicked"]++
	case len(frames) > 0:
		ndpStats["answered"]++
	default:
		learned := false
		for _, l := range ls {
			if strings.Contains(l, ",true,") {
				learned = true
			}
		}
		if learned {
			ndpStats["learned"]++
		} else {
			ndpStats["silent"]++
		}
	}
	if f := c.finding(); f != "" {
		ndpStats["finding-"+f]++
	}
}

func runNdp(r *gen.Rng, n int) {
	joined := [][]byte{o6a, o6b, sn6(o6a), sn6(o6b), alln6}
	plain := [][]byte{o6a, o6b}
	std := func(locals [][]byte, pkt []byte, chunks ...int) ndpCase {
		return ndpCase{locals: locals, myMAC: macMe, srcMAC: macPeer, pkt: pkt, chunks: chunks, extra: [][]byte{o6a, forn6}}
	}
	ns := func(target, src, dst, opts []byte) ndMsg {
		return ndMsg{typ: 135, target: target, opts: opts, src: src, dst: dst, hop: 255}
	}
	na := func(flags byte, target, src, dst, opts []byte) ndMsg {
		return ndMsg{typ: 136, flags: flags, target: target, opts: opts, src: src, dst: dst, hop: 255}
	}
	slla, tlla := lladdrOpt(1, macPeer), lladdrOpt(2, macPeer)

	// --- lattice 1: solicitations: target x source x destination x {no option, matching option} x NIC config
	targets := [][]byte{o6a, o6b, forn6, unsp6, sn6(o6a), alln6, ones6, peer6}
	for _, locals := range [][][]byte{joined, plain} {
		for _, t := range targets {
			for _, src := range [][]byte{peer6, unsp6} {
				for _, dst := range [][]byte{o6a, sn6(t), alln6} {
					for _, opts := range [][]byte{nil, slla} {
						runNdpCase(std(locals, ns(t, src, dst, opts).packet()))
					}
				}
			}
		}
	}
	// malformed / foreign / contradicting options (unicast destination, joined NIC)
	badOpts := [][]byte{{1, 0, 2, 0, 0, 0, 0, 9}, {1, 2, 2, 0, 0, 0, 0, 9}, {1, 1, 2, 0}, {0xee, 1, 2, 0, 0, 0, 0, 9},
		{2, 1, 2, 0, 0, 0, 0, 9}, {1}, lladdrOpt(1, macX), cat([]byte{14, 1, 1, 2, 3, 4, 5, 6}, slla)}
	for _, t := range [][]byte{o6a, forn6, sn6(o6a)} {
		for _, src := range [][]byte{peer6, unsp6} {
			for _, o := range badOpts {
				runNdpCase(std(joined, ns(t, src, o6a, o).packet()))
			}
		}
	}

	// --- lattice 2: truncation at every length (payload length field adjusted to what is left, or left
	// as it was), first view cut at every length, several views, payload length shorter than the packet
	for _, m := range []ndMsg{ns(o6a, peer6, o6a, cat(slla, []byte{9, 8, 7, 6, 5, 4})), na(0x60, peer6, peer6, o6a, cat(tlla, []byte{9, 8, 7, 6, 5, 4}))} {
		full := m.packet()
		for l := 0; l <= len(full); l++ {
			if l < 36 && l%6 != 0 {
				continue
			}
			p := append([]byte(nil), full[:l]...)
			if l >= 40 {
				p[4], p[5] = byte((l-40)>>8), byte(l-40) // checksum no longer matches: the stack does not verify it
			}
			runNdpCase(std(joined, p))
			if l%5 == 0 {
				runNdpCase(std(joined, full[:l]))
			}
		}
		for _, ch := range []int{0, 1, 20, 39} {
			runNdpCase(std(joined, full, ch))
		}
		for ch := 40; ch <= len(full); ch++ {
			runNdpCase(std(joined, full, ch))
		}
		for _, chs := range [][]int{{40, 24}, {40, 23}, {40, 31}, {40, 32}, {44, 20, 5}, {64, 1, 1}, {63, 1, 8}, {41, 1, 1, 1, 60}, {72, 3}, {10, 30, 32}} {
			runNdpCase(std(joined, full, chs...))
		}
		for _, pl := range []int{0, 3, 4, 23, 24, 25, 31, 32, 33, 37, 39, 0xffff} {
			p := append([]byte(nil), full...)
			p[4], p[5] = byte(pl>>8), byte(pl)
			runNdpCase(std(joined, p))
		}
	}

	// --- lattice 3: advertisements: flags x target x destination x option
	natargets := [][]byte{peer6, peer7, o6a, unsp6, sn6(peer6), forn6, alln6}
	for ti, t := range natargets {
		flagset := []byte{0x60, 0x00, 0x40, 0x20, 0xe0, 0xff}
		if ti >= 2 {
			flagset = []byte{0x60, 0x20, 0x00}
		}
		for _, fl := range flagset {
			for _, dst := range [][]byte{o6a, alln6} {
				optset := [][]byte{tlla}
				if fl == 0x60 {
					optset = [][]byte{tlla, nil, {2, 0, 2, 0, 0, 0, 0, 9}, lladdrOpt(2, macX), {1, 1, 2, 0, 0, 0, 0, 9}}
				}
				for _, o := range optset {
					runNdpCase(std(joined, na(fl, t, peer6, dst, o).packet()))
				}
			}
		}
		runNdpCase(std(joined, na(0x60, t, peer6, forn6, tlla).packet()))
		runNdpCase(std(plain, na(0x20, t, peer6, alln6, tlla).packet()))
		runNdpCase(std(joined, na(0x20, t, unsp6, o6a, tlla).packet()))
		runNdpCase(std(joined, na(0x60, t, t, o6a, tlla).packet()))
	}

	// --- lattice 4: fields the code never looks at (hop limit, code, checksum, version), other next
	// headers and ICMPv6 types, unusual link addresses
	for _, base := range []ndMsg{ns(o6a, peer6, o6a, slla), na(0x60, peer6, peer6, o6a, tlla)} {
		for _, hop := range []byte{255, 254, 1, 0} {
			for _, code := range []byte{0, 1} {
				for _, delta := range []uint16{0, 1} {
					m := base
					m.hop, m.code, m.delta = hop, code, delta
					runNdpCase(std(joined, m.packet()))
				}
			}
		}
		for _, v := range []byte{0x40, 0x00, 0xf0, 0x6f} {
			p := base.packet()
			p[0] = v
			runNdpCase(std(joined, p))
		}
		for _, nh := range []byte{59, 0, 1, 44, 60} {
			p := base.packet()
			p[6] = nh
			runNdpCase(std(joined, p))
		}
		for _, ty := range []byte{133, 134, 137, 0, 1, 2, 3, 4, 127, 128, 129, 130, 255} {
			m := base
			m.typ = ty
			runNdpCase(std(joined, m.packet()))
		}
		for _, mm := range [][]byte{{}, {1, 2, 3}, {1, 2, 3, 4, 5, 6, 7, 8}} {
			c := std(joined, base.packet())
			c.myMAC = mm
			runNdpCase(c)
		}
		for _, sm := range [][]byte{{}, {1, 2, 3}, {0xff, 0xff, 0xff, 0xff, 0xff, 0xff}, {0x33, 0x33, 0xff, 0, 0, 1}} {
			c := std(joined, base.packet())
			c.srcMAC = sm
			runNdpCase(c)
		}
	}

	// --- random: a well-formed message from random choices, then 0-2 mutations
	for i := 0; i < n; i++ {
		locals := [][]byte{o6a}
		if r.Intn(2) == 0 {
			locals = append(locals, o6b)
		}
		if r.Intn(3) != 0 {
			locals = append(locals, sn6(o6a))
		}
		if r.Intn(3) == 0 {
			locals = append(locals, alln6)
		}
		if r.Intn(8) == 0 {
			locals = append(locals, r.Bytes(16))
		}
		pick := func() []byte {
			switch r.Intn(9) {
			case 0, 1, 2:
				return locals[r.Intn(len(locals))]
			case 3:
				return forn6
			case 4:
				x := append([]byte(nil), locals[r.Intn(len(locals))]...)
				x[r.Intn(16)] ^= 1 << uint(r.Intn(8))
				return x
			case 5:
				return [][]byte{unsp6, alln6, ones6, sn6(o6a), sn6(o6b)}[r.Intn(5)]
			case 6:
				return peer6
			default:
				return r.Bytes(16)
			}
		}
		src := [][]byte{peer6, peer6, peer7, unsp6, r.Bytes(16)}[r.Intn(5)]
		mac := [][]byte{macPeer, macPeer, r.Bytes(6)}[r.Intn(3)]
		var m ndMsg
		if r.Intn(5) < 3 {
			t := pick()
			dst := [][]byte{locals[0], locals[r.Intn(len(locals))], sn6(t), alln6, pick()}[r.Intn(5)]
			m = ns(t, src, dst, nil)
			switch r.Intn(4) {
			case 0, 1:
				m.opts = lladdrOpt(1, mac)
			case 2:
				m.opts = r.Bytes(r.Intn(17))
			}
		} else {
			t := [][]byte{src, src, peer7, pick()}[r.Intn(4)]
			dst := [][]byte{locals[0], locals[r.Intn(len(locals))], alln6, pick()}[r.Intn(4)]
			m = na([]byte{0x60, 0x20, 0x40, 0, byte(r.U32())}[r.Intn(5)], t, src, dst, lladdrOpt(2, mac))
			switch r.Intn(5) {
			case 0:
				m.opts = nil
			case 1:
				m.opts = r.Bytes(r.Intn(17))
			}
		}
		if r.Intn(6) == 0 {
			m.hop = byte(r.U32())
		}
		if r.Intn(8) == 0 {
			m.delta = uint16(r.U32())
		}
		if r.Intn(10) == 0 {
			m.code = byte(r.U32())
		}
		if r.Intn(12) == 0 {
			m.typ = []byte{135, 136, 133, 134, 137, 128, 129, 1, 2, byte(r.U32())}[r.Intn(10)]
		}
		p := m.packet()
		for k := r.Intn(3); k > 0; k-- {
			switch r.Intn(5) {
			case 0: // one byte anywhere but the next-header field
				if j := r.Intn(len(p)); j != 6 && j < len(p) {
					p[j] = byte(r.U32())
				}
			case 1:
				if j := r.Intn(len(p)); j != 6 && j < len(p) {
					p[j] ^= 1 << uint(r.Intn(8))
				}
			case 2: // truncate, payload length adjusted
				l := r.Intn(len(p) + 1)
				p = p[:l]
				if l >= 40 {
					p[4], p[5] = byte((l-40)>>8), byte(l-40)
				}
			case 3: // truncate, payload length as it was
				p = p[:r.Intn(len(p)+1)]
			case 4: // payload length field
				if len(p) >= 6 {
					v := []int{0, 4, 23, 24, 31, 32, len(p) - 40, len(p) - 39, len(p) - 41, 65535}[r.Intn(10)]
					if v < 0 {
						v = 0
					}
					p[4], p[5] = byte(v>>8), byte(v)
				}
			}
		}
		if r.Intn(50) == 0 {
			p = r.Bytes(r.Intn(100))
			if len(p) > 6 {
				p[6] = 58
			}
		}
		c := ndpCase{locals: locals, myMAC: macMe, srcMAC: mac, pkt: p, extra: [][]byte{o6a, forn6, peer6}}
		if r.Intn(4) == 0 {
			c.srcMAC = r.Bytes(6) // link-layer source differs from the link-layer address option
		}
		if r.Intn(5) == 0 {
			for k := 1 + r.Intn(3); k > 0; k-- {
				c.chunks = append(c.chunks, r.Intn(len(p)+2))
			}
		}
		if r.Intn(30) == 0 {
			c.myMAC = r.Bytes(r.Intn(9))
		}
		runNdpCase(c)
	}
	fmt.Fprintf(out, "# ndp cases: answered=%d learned-only=%d silent=%d panicked=%d; solicited-node group not joined (recorded finding) run=%d skipped=%d; joined multicast target=%d, option contradicting the link source=%d\n",
		ndpStats["answered"], ndpStats["learned"], ndpStats["silent"], ndpStats["panicked"],
		ndpStats["finding-sn"], ndpStats["gated"], ndpStats["finding-mc"], ndpStats["finding-opt"])
	runNdpReq(r, n/8)
}

// ---------------------------------------------------------------- the stack's own solicitations

func frames4(fr []netx.Frame) string {
	fs := make([]string, len(fr))
	for i, f := range fr {
		fs[i] = fmt.Sprintf("(%d,%s,%s,%s)", int(f.Proto), netx.ZList(f.Bytes), netx.ZList([]byte(f.DstLink)), netx.ZList([]byte(f.SrcLink)))
	}
	return "[" + strings.Join(fs, ";") + "]"
}

// kind 0: ipv6 protocol's LinkAddressRequest called directly on a recording link endpoint
func ndpReqDirect(addr, local, myMAC []byte) {
	_, l := netx.NewLink(1500, stack.CapabilityResolutionRequired, tcpip.LinkAddress(myMAC))
	res := ipv6.NewProtocol().(stack.LinkAddressResolver)
	panicked := false
	func() {
		defer func() {
			if e := recover(); e != nil {
				panicked = true
			}
		}()
		res.LinkAddressRequest(tcpip.Address(addr), tcpip.Address(local), l)
	}()
	fmt.Fprintf(out, "CNdpReq 0 %s %s %s %s %s\n", netx.ZList(addr), netx.ZList(local), netx.ZList(myMAC), netx.B(panicked), frames4(l.Take()))
}

// kind 1: Stack.GetLinkAddress (what Route.Resolve calls) on an empty cache; kind 2: a UDP write to the
// neighbour.  The resolver goroutine sends the first request at once; only that one is looked at
// (the repetitions after 1 s and 2 s are covered by the cache histories and the scenarios).
func ndpReqStack(kind int, addr []byte) {
	n := netx.NewNet(netx.Opts{Caps: stack.CapabilityResolutionRequired, LinkAddr: tcpip.LinkAddress(macMe), Addr6: string(o6a)})
	got := make(chan struct{}, 8)
	n.L.OnFrame = func(netx.Frame) { got <- struct{}{} }
	local := o6a
	switch kind {
	case 1:
		n.S.GetLinkAddress(1, tcpip.Address(addr), tcpip.Address(local), netx.ProtoIPv6, &sleep.Waker{})
	case 2:
		wq := &waiter.Queue{}
		ep, err := n.S.NewEndpoint(udp.ProtocolNumber, netx.ProtoIPv6, wq)
		if err != nil {
			fmt.Fprintf(out, "# ndp request: %s\n", err.String())
			return
		}
		to := tcpip.FullAddress{NIC: 1, Addr: tcpip.Address(addr), Port: 4242}
		ep.Write(tcpip.SlicePayload([]byte("hello neighbour")), tcpip.WriteOptions{To: &to})
	}
	select {
	case <-got:
	case <-time.After(500 * time.Millisecond):
	}
	time.Sleep(2 * time.Millisecond)
	fmt.Fprintf(out, "CNdpReq %d %s %s %s false %s\n", kind, netx.ZList(addr), netx.ZList(local), netx.ZList(macMe), frames4(n.L.Take()))
}

func runNdpReq(r *gen.Rng, n int) {
	for _, a := range [][]byte{peer6, forn6, o6b, sn6(peer6), unsp6, ones6, {0x20, 0x01, 0x0d, 0xb8, 0, 0, 0, 0, 0, 0, 0, 0, 0xab, 0xcd, 0xef, 0x01}} {
		for _, loc := range [][]byte{o6a, o6b, {}, {10, 0, 0, 1}} {
			ndpReqDirect(a, loc, macMe)
		}
	}
	for _, mm := range [][]byte{{}, {1, 2, 3}, {1, 2, 3, 4, 5, 6, 7, 8}} {
		ndpReqDirect(peer6, o6a, mm)
	}
	// addresses that are not 16 bytes long (outside the property; the model must still agree)
	long := cat(peer6, peer7)
	for l := 0; l <= 30; l++ {
		ndpReqDirect(long[:l], o6a, macMe)
	}
	for i := 0; i < n; i++ {
		a := r.Bytes(16)
		if r.Intn(6) == 0 {
			a = r.Bytes(r.Intn(33))
		}
		loc := [][]byte{o6a, o6b, r.Bytes(16)}[r.Intn(3)]
		mm := macMe
		if r.Intn(4) == 0 {
			mm = r.Bytes(6)
		}
		ndpReqDirect(a, loc, mm)
	}
	for _, a := range [][]byte{peer6, forn6, {0x20, 0x01, 0x0d, 0xb8, 0, 0, 0, 0, 0, 0, 0, 0, 0xab, 0xcd, 0xef, 0x01}, r.Bytes(16)} {
		ndpReqStack(1, a)
	}
	for _, a := range [][]byte{peer6, cat([]byte{0x20, 0x01, 0x0d, 0xb8}, r.Bytes(12))} {
		ndpReqStack(2, a)
	}
}
