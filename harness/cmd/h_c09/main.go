// h_c09: inbound demultiplexing of the real stack (property C09).
//
// One case = one history on a fresh stack with two recording NICs: address / subnet / promiscuous
// configuration, UDP and TCP sockets created, bound, connected, listened on and closed through the
// public endpoint API, raw registrations through Stack.RegisterTransportEndpoint with recording
// fake endpoints, and inbound UDP datagrams / TCP segments, each carrying a unique tag.  Every
// event is printed with what the implementation answered: the error of the call, and for a packet
// which sockets' Read (or which fake endpoint's HandlePacket) produced the tag, whether the network
// layer handed it to the transport layer, how many demultiplexers reported "unknown port", and what
// came back on the wire.  Snapshots of the real registration tables and address tables (overlay
// accessors VerifRegs / VerifAddrs) are printed at random points and at the end.
//
// Output: one Coq term of type NP.Corr.C09.case per line.
package main

import (
	"bufio"
	"encoding/binary"
	"flag"
	"fmt"
	"io"
	"log"
	"math/big"
	"math/rand"
	"os"
	"sort"
	"strings"
	"time"

	"aaverif/internal/gen"
	"aaverif/internal/netx"

	"github.com/brewlin/net-protocol/pkg/buffer"
	"github.com/brewlin/net-protocol/pkg/waiter"
	tcpip "github.com/brewlin/net-protocol/protocol"
	"github.com/brewlin/net-protocol/protocol/network/arp"
	"github.com/brewlin/net-protocol/protocol/network/ipv4"
	"github.com/brewlin/net-protocol/protocol/network/ipv6"
	"github.com/brewlin/net-protocol/protocol/transport/tcp"
	"github.com/brewlin/net-protocol/protocol/transport/udp"
	"github.com/brewlin/net-protocol/stack"
)

const (
	pV4  = 2048
	pV6  = 34525
	pTCP = 6
	pUDP = 17
)

// ---------------------------------------------------------------- address universe

func a4(a, b, c, d byte) string { return string([]byte{a, b, c, d}) }
func a6(last byte) string {
	b := make([]byte, 16)
	b[0] = 0xfd
	b[15] = last
	return string(b)
}

var (
	local4   = map[int][]string{1: {a4(10, 0, 1, 1), a4(10, 0, 1, 2), a4(10, 0, 1, 3)}, 2: {a4(10, 0, 2, 1), a4(10, 0, 2, 2), a4(10, 0, 2, 3)}}
	unass4   = []string{a4(10, 0, 1, 9), a4(10, 0, 2, 9), a4(10, 0, 3, 9)}
	foreign4 = []string{a4(10, 0, 1, 100), a4(10, 0, 2, 100), a4(192, 168, 7, 7)}
	local6   = a6(1) // NIC 1 only
	unass6   = a6(9)
	foreign6 = []string{a6(100), a6(101)}
	ports    = []uint16{53, 80, 443, 9000}
	rports   = []uint16{7, 8}
)

// subnets offered to AddSubnet: (address, mask); some malformed
var subnets = [][2]string{
	{a4(10, 0, 1, 0), a4(255, 255, 255, 0)},
	{a4(10, 0, 2, 0), a4(255, 255, 255, 0)},
	{a4(10, 0, 0, 0), a4(255, 255, 0, 0)},
	{a4(10, 0, 0, 9), a4(255, 255, 0, 255)}, // non-contiguous mask: 10.0.x.9
	{a4(10, 0, 1, 9), a4(255, 255, 255, 255)},
	{a4(10, 0, 1, 8), a4(255, 255, 255, 254)},
	{a4(0, 0, 0, 0), a4(0, 0, 0, 0)},
	{a4(10, 0, 1, 1), a4(255, 255, 255, 0)}, // bits outside the mask: NewSubnet fails
	{a4(10, 0, 1, 0), "\xff\xff\xff"},       // length mismatch: NewSubnet fails
	{string(append([]byte{0xfd}, make([]byte, 15)...)), string(append([]byte{0xff, 0xff, 0xff, 0xff, 0xff, 0xff, 0xff, 0xff}, make([]byte, 8)...))},
}

// ---------------------------------------------------------------- printing

// zl prints an address as the Coq term (A n), n = the bytes in base 256 behind a leading 1
// (Corr/C09.v decodes it); "" is [].  One numeral instead of a list keeps the case terms small.
func zl(s string) string {
	if s == "" {
		return "[]"
	}
	n := new(big.Int).SetBytes(append([]byte{1}, []byte(s)...))
	return "(A " + n.String() + ")"
}
func zi(v int64) string {
	if v < 0 {
		return fmt.Sprintf("(%d)", v)
	}
	return fmt.Sprintf("%d", v)
}
func tidStr(id stack.TransportEndpointID) string {
	return fmt.Sprintf("(mkTid %d %s %d %s)", id.LocalPort, zl(string(id.LocalAddress)), id.RemotePort, zl(string(id.RemoteAddress)))
}
func zlist(v []int) string {
	p := make([]string, len(v))
	for i, x := range v {
		p[i] = zi(int64(x))
	}
	return "[" + strings.Join(p, ";") + "]"
}

func errCode(e *tcpip.Error) int {
	switch e {
	case nil:
		return 0
	case tcpip.ErrPortInUse:
		return 1
	case tcpip.ErrBadLocalAddress:
		return 2
	case tcpip.ErrNoRoute:
		return 3
	case tcpip.ErrInvalidEndpointState:
		return 4
	case tcpip.ErrUnknownNICID:
		return 5
	case tcpip.ErrDuplicateAddress:
		return 6
	case tcpip.ErrAlreadyBound:
		return 7
	case tcpip.ErrUnknownProtocol:
		return 10
	case tcpip.ErrNotSupported:
		return 11
	}
	return 99
}

// ---------------------------------------------------------------- fake transport endpoint

type rawEP struct {
	num  int
	seen []uint32 // tags of the packets handed to HandlePacket
}

func (e *rawEP) HandlePacket(r *stack.Route, id stack.TransportEndpointID, vv buffer.VectorisedView) {
	b := []byte(vv.ToView())
	e.seen = append(e.seen, tagOf(b))
}
func (e *rawEP) HandleControlPacket(id stack.TransportEndpointID, typ stack.ControlType, extra uint32, vv buffer.VectorisedView) {
}

// tagOf: transport segment -> tag (udp: first 4 payload bytes; tcp: the sequence number).  The
// caller knows the protocol from the table it registered in; both encodings are tried by length.
func tagOf(seg []byte) uint32 {
	if len(seg) == 12 { // udp header + 4-byte tag
		return binary.BigEndian.Uint32(seg[8:])
	}
	if len(seg) >= 20 { // tcp header
		return binary.BigEndian.Uint32(seg[4:])
	}
	return 0xffffffff
}

// ---------------------------------------------------------------- world

type sockT struct {
	idx   int
	kind  int // pUDP / pTCP
	net   int
	ep    tcpip.Endpoint
	wq    *waiter.Queue
	open  bool
	state int // driver-side guess, only used to choose operations: 0 new, 1 bound, 2 connected, 3 listening
}

type world struct {
	s      *stack.Stack
	links  map[int]*netx.Link
	socks  []*sockT
	raws   []*rawEP
	r      *gen.Rng
	evs    []string
	tag    uint32
	pktN   int
	linger bool
	stats  map[string]int
}

func newWorld(r *gen.Rng, linger bool, stats map[string]int) *world {
	s := stack.New([]string{ipv4.ProtocolName, ipv6.ProtocolName, arp.ProtocolName}, []string{tcp.ProtocolName, udp.ProtocolName}, stack.Options{})
	w := &world{s: s, links: map[int]*netx.Link{}, r: r, linger: linger, stats: stats}
	for nic := 1; nic <= 2; nic++ {
		id, l := netx.NewLink(1500, 0, tcpip.LinkAddress(""))
		if err := s.CreateNIC(tcpip.NICID(nic), id); err != nil {
			panic(err.String())
		}
		w.links[nic] = l
	}
	z16 := string(make([]byte, 16))
	s.SetRouteTable([]tcpip.Route{
		{Destination: tcpip.Address(a4(10, 0, 1, 0)), Mask: tcpip.AddressMask(a4(255, 255, 255, 0)), NIC: 1},
		{Destination: tcpip.Address(a4(10, 0, 2, 0)), Mask: tcpip.AddressMask(a4(255, 255, 255, 0)), NIC: 2},
		{Destination: tcpip.Address(a4(0, 0, 0, 0)), Mask: tcpip.AddressMask(a4(0, 0, 0, 0)), NIC: 1},
		{Destination: tcpip.Address(z16), Mask: tcpip.AddressMask(z16), NIC: 1},
	})
	for i := 0; i < 4; i++ {
		w.raws = append(w.raws, &rawEP{num: 100 + i})
	}
	return w
}

func (w *world) emit(format string, a ...interface{}) { w.evs = append(w.evs, fmt.Sprintf(format, a...)) }

// guard runs f, converting a panic of the code under test into ok=false
func guard(f func()) (ok bool) {
	defer func() {
		if r := recover(); r != nil {
			ok = false
		}
	}()
	f()
	return true
}

func (w *world) op(name string, term string, f func() *tcpip.Error) int {
	code := 96
	guard(func() { code = errCode(f()) })
	w.emit("EOp (%s) %d", term, code)
	w.stats[name]++
	if code != 0 {
		w.stats[name+"/err"]++
	}
	return code
}

func netNum(net int) tcpip.NetworkProtocolNumber { return tcpip.NetworkProtocolNumber(net) }

func (w *world) addAddr(nic, proto int, a string) {
	w.op("addaddr", fmt.Sprintf("OAddAddr %d %d %s", nic, proto, zl(a)), func() *tcpip.Error {
		return w.s.AddAddress(tcpip.NICID(nic), netNum(proto), tcpip.Address(a))
	})
}

func (w *world) refsOf(nic int, a string) int32 {
	for _, x := range w.s.VerifAddrs() {
		if int(x.NIC) == nic && string(x.Addr) == a {
			return x.Refs
		}
	}
	return 0
}

func (w *world) removeAddr(nic int, a string) {
	if !w.linger && w.refsOf(nic, a) > 1 {
		// an open route still references the address: removing it leaves the endpoint in place
		// (see the final report: candidate finding); only generated with -linger
		return
	}
	w.op("rmaddr", fmt.Sprintf("ORemoveAddr %d %s", nic, zl(a)), func() *tcpip.Error {
		return w.s.RemoveAddress(tcpip.NICID(nic), tcpip.Address(a))
	})
}

func (w *world) addSubnet(nic int, sn [2]string) {
	code := 96
	guard(func() {
		x, err := tcpip.NewSubnet(tcpip.Address(sn[0]), tcpip.AddressMask(sn[1]))
		if err != nil {
			code = 12
			return
		}
		code = errCode(w.s.AddSubnet(tcpip.NICID(nic), netNum(pV4), x))
	})
	w.emit("EOp (OAddSubnet %d %s %s) %d", nic, zl(sn[0]), zl(sn[1]), code)
	w.stats["subnet"]++
}

func (w *world) promisc(nic int, b bool) {
	w.op("promisc", fmt.Sprintf("OPromisc %d %s", nic, netx.B(b)), func() *tcpip.Error {
		return w.s.SetPromiscuousMode(tcpip.NICID(nic), b)
	})
}

func (w *world) newSock(kind, net int) *sockT {
	sk := &sockT{idx: len(w.socks), kind: kind, net: net, wq: &waiter.Queue{}, open: true}
	code := w.op("newsock", fmt.Sprintf("ONewSock %d %d %d", sk.idx, kind, net), func() *tcpip.Error {
		ep, err := w.s.NewEndpoint(tcpip.TransportProtocolNumber(kind), netNum(net), sk.wq)
		sk.ep = ep
		return err
	})
	if code != 0 {
		panic("NewEndpoint failed")
	}
	w.socks = append(w.socks, sk)
	return sk
}

func (w *world) bind(sk *sockT, nic int, a string, port uint16) int {
	code := w.op("bind", fmt.Sprintf("OBind %d %d %s %d 0", sk.idx, nic, zl(a), port), func() *tcpip.Error {
		return sk.ep.Bind(tcpip.FullAddress{NIC: tcpip.NICID(nic), Addr: tcpip.Address(a), Port: port}, nil)
	})
	if code == 0 && sk.state == 0 {
		sk.state = 1
	}
	return code
}

func (w *world) connect(sk *sockT, nic int, a string, port uint16) int {
	code := 96
	var la tcpip.FullAddress
	guard(func() {
		code = errCode(sk.ep.Connect(tcpip.FullAddress{NIC: tcpip.NICID(nic), Addr: tcpip.Address(a), Port: port}))
		la, _ = sk.ep.GetLocalAddress()
	})
	eport := 0
	if sk.state == 0 && code == 0 {
		eport = int(la.Port) // the ephemeral port the stack picked (an input of the model)
	}
	w.emit("EConn (OConnect %d %d %s %d %d) %d %s %d", sk.idx, nic, zl(a), port, eport, code, zl(string(la.Addr)), la.Port)
	w.stats["connect"]++
	if code == 0 {
		sk.state = 2
	} else {
		w.stats["connect/err"]++
	}
	return code
}

func (w *world) listen(sk *sockT) int {
	code := w.op("listen", fmt.Sprintf("OListen %d", sk.idx), func() *tcpip.Error { return sk.ep.Listen(16) })
	if code == 0 && sk.kind == pTCP {
		sk.state = 3
	}
	return code
}

func (w *world) closeSock(sk *sockT) {
	w.op("close", fmt.Sprintf("OClose %d", sk.idx), func() *tcpip.Error { sk.ep.Close(); return nil })
	sk.open = false
}

func netsStr(nets []int) string { return zlist(nets) }

func (w *world) rawReg(nic int, nets []int, trans int, id stack.TransportEndpointID, ep *rawEP) {
	np := make([]tcpip.NetworkProtocolNumber, len(nets))
	for i, n := range nets {
		np[i] = netNum(n)
	}
	w.op("rawreg", fmt.Sprintf("ORawReg %d %s %d %s %d", nic, netsStr(nets), trans, tidStr(id), ep.num), func() *tcpip.Error {
		return w.s.RegisterTransportEndpoint(tcpip.NICID(nic), np, tcpip.TransportProtocolNumber(trans), id, ep)
	})
}

func (w *world) rawUnreg(nic int, nets []int, trans int, id stack.TransportEndpointID) {
	np := make([]tcpip.NetworkProtocolNumber, len(nets))
	for i, n := range nets {
		np[i] = netNum(n)
	}
	w.op("rawunreg", fmt.Sprintf("ORawUnreg %d %s %d %s", nic, netsStr(nets), trans, tidStr(id)), func() *tcpip.Error {
		w.s.UnregisterTransportEndpoint(tcpip.NICID(nic), np, tcpip.TransportProtocolNumber(trans), id)
		return nil
	})
}

// child: a registration made by the tcp listener itself for a connection in SYN-RCVD (remote
// port from the per-packet unique range); never part of the compared state
func child(r stack.VerifReg) bool { return r.ID.RemotePort >= 20000 }

func (w *world) epNum(ep stack.TransportEndpoint) int {
	for _, sk := range w.socks {
		if te, ok := sk.ep.(stack.TransportEndpoint); ok && te == ep {
			return sk.idx
		}
	}
	if r, ok := ep.(*rawEP); ok {
		return r.num
	}
	return -1
}

func (w *world) regsSnapshot() []string {
	var out []string
	for _, r := range w.s.VerifRegs() {
		if child(r) {
			continue
		}
		out = append(out, fmt.Sprintf("(%d,%d,%d,%s,%s)", r.NIC, r.Net, r.Trans, tidStr(r.ID), zi(int64(w.epNum(r.EP)))))
	}
	sort.Strings(out)
	return out
}

func (w *world) addrsSnapshot() []string {
	var out []string
	for _, a := range w.s.VerifAddrs() {
		out = append(out, fmt.Sprintf("(%d,%s,%d,%d,%s)", a.NIC, zl(string(a.Addr)), a.Proto, a.Refs, netx.B(a.Insert)))
	}
	sort.Strings(out)
	return out
}

func (w *world) dumpState() {
	w.emit("EState [%s] [%s]", strings.Join(w.regsSnapshot(), ";"), strings.Join(w.addrsSnapshot(), ";"))
	w.stats["state"]++
}

// patience: how long to wait for the listener's goroutines (an answer to a SYN, the tables
// settling after the reset).  It normally takes well under a millisecond; after a few waits have
// run out (a broken stack) the remaining ones are cut short so that the run still ends.
var timeouts int

func patience() time.Duration {
	if timeouts >= 3 {
		return 300 * time.Millisecond
	}
	return 8 * time.Second
}

// ---------------------------------------------------------------- packets

type reply struct {
	flags    byte
	src, dst string
	sport    uint16
	dport    uint16
	seq, ack uint32
}

// tcpFrames parses the frames recorded on both links into TCP replies
func (w *world) tcpFrames() (out []reply, other int) {
	for nic := 1; nic <= 2; nic++ {
		for _, f := range w.links[nic].Take() {
			var src, dst string
			var pl []byte
			var proto byte
			if f.Proto == netx.ProtoIPv4 {
				i, ok := netx.ParseIPv4(f.Bytes)
				if !ok {
					other++
					continue
				}
				src, dst, pl, proto = string(i.Src), string(i.Dst), i.Payload, i.Proto
			} else if f.Proto == netx.ProtoIPv6 && len(f.Bytes) >= 40 {
				src, dst, pl, proto = string(f.Bytes[8:24]), string(f.Bytes[24:40]), f.Bytes[40:], f.Bytes[6]
			} else {
				other++
				continue
			}
			t, ok := netx.ParseTCP(pl)
			if proto != 6 || !ok {
				other++
				continue
			}
			out = append(out, reply{t.Flags, src, dst, t.SrcPort, t.DstPort, t.Seq, t.Ack})
		}
	}
	return
}

type pkt struct {
	nic, net   int
	src, dst   string
	trans      int
	sport      uint16
	dport      uint16
	flags      byte
}

func (w *world) wire(p pkt, tag uint32, flags byte, seq uint32) []byte {
	var seg []byte
	if p.trans == pUDP {
		pl := make([]byte, 4)
		binary.BigEndian.PutUint32(pl, tag)
		seg = netx.UDPBytes([]byte(p.src), []byte(p.dst), p.sport, p.dport, pl, -1)
	} else {
		seg = netx.TCPBytes([]byte(p.src), []byte(p.dst), netx.TCPSeg{SrcPort: p.sport, DstPort: p.dport, Seq: seq, Ack: tag, Flags: flags, Wnd: 65535})
	}
	if p.net == pV6 {
		return netx.IPv6Packet([]byte(p.src), []byte(p.dst), byte(p.trans), 64, seg)
	}
	return netx.IPv4Packet([]byte(p.src), []byte(p.dst), byte(p.trans), uint16(tag), 0, 64, seg)
}

func (w *world) inject(p pkt) {
	w.tag++
	w.pktN++
	tag := w.tag
	if p.trans == pTCP {
		p.sport = uint16(20000 + w.pktN%40000) // unique per packet within a history
	}
	w.tcpFrames() // drop whatever is left over (retransmitted SYN-ACKs of dying children)
	for _, e := range w.raws {
		e.seen = nil
	}
	st := w.s.Stats()
	d0, u0, v0 := st.IP.PacketsDelivered.Value(), st.UDP.UnknownPortErrors.Value(), st.TCP.ValidSegmentsReceived.Value()
	var regs0, addrs0 []string
	if p.trans == pTCP {
		regs0, addrs0 = w.regsSnapshot(), w.addrsSnapshot()
	}
	link := w.links[p.nic]
	b := w.wire(p, tag, p.flags, tag)
	panicked := !guard(func() { link.Inject(netNum(p.net), b) })
	acc := st.IP.PacketsDelivered.Value() > d0
	unk := int(st.UDP.UnknownPortErrors.Value() - u0)
	tcpin := st.TCP.ValidSegmentsReceived.Value() > v0

	var got []int
	for _, e := range w.raws {
		for _, t := range e.seen {
			if t == tag {
				got = append(got, e.num)
			}
		}
	}
	for _, sk := range w.socks {
		if !sk.open || sk.kind != pUDP {
			continue
		}
		for {
			var from tcpip.FullAddress
			v, _, err := sk.ep.Read(&from)
			if err != nil {
				break
			}
			if len(v) == 4 && binary.BigEndian.Uint32(v) == tag {
				got = append(got, sk.idx)
			} else {
				w.stats["stale-datagram"]++
				got = append(got, -2)
			}
		}
	}
	sort.Ints(got)

	// what came back on the wire: 0 nothing, 1 RST mirroring the segment, 2 SYN-ACK mirroring it, 3 anything else
	rep, quiet := 0, true
	classify := func(rs []reply, other int) {
		for _, r := range rs {
			mirror := r.src == p.dst && r.dst == p.src && r.sport == p.dport && r.dport == p.sport
			switch {
			case mirror && r.flags&netx.FlagRst != 0 && rep == 0:
				rep = 1
			case mirror && r.flags == netx.FlagSyn|netx.FlagAck && r.ack == tag+1 && (rep == 0 || rep == 2):
				rep = 2 // (a retransmitted SYN-ACK is the same answer)
			default:
				rep = 3
			}
		}
		if other > 0 {
			rep = 3
		}
	}
	classify(w.tcpFrames())
	if p.trans == pTCP && tcpin && p.flags == netx.FlagSyn && rep == 0 {
		// a real tcp endpoint took the SYN: its answer comes from the listener's goroutines
		deadline := time.Now().Add(patience())
		for rep == 0 && time.Now().Before(deadline) {
			time.Sleep(50 * time.Microsecond)
			classify(w.tcpFrames())
		}
		if rep == 0 {
			timeouts++
		}
	}
	if p.trans == pTCP && tcpin {
		// the SYN-RCVD child (if any) is reset by the peer; wait until the tables are back to what
		// they were before the segment, so that the next event starts from a settled state
		if rep == 2 {
			rb := w.wire(p, tag, netx.FlagRst, tag+1)
			guard(func() { link.Inject(netNum(p.net), rb) })
		}
		// (the child's Close queues a FIN segment that holds a clone of the route for ever: when a
		// SYN-ACK was sent, one more reference stays on the destination's network endpoint; the
		// correspondence accounts for it, see Corr/C09.v leakRef)
		want := addrs0
		if rep == 2 {
			want = leakOne(w.s, addrs0, p)
		}
		deadline := time.Now().Add(patience())
		for {
			gone := true
			for _, r := range w.s.VerifRegs() {
				if r.ID.RemotePort == p.sport {
					gone = false
				}
			}
			if gone && strings.Join(w.regsSnapshot(), ";") == strings.Join(regs0, ";") && strings.Join(w.addrsSnapshot(), ";") == strings.Join(want, ";") {
				break
			}
			if time.Now().After(deadline) {
				quiet = false
				timeouts++
				if os.Getenv("C09_DEBUG") != "" {
					fmt.Fprintf(os.Stderr, "unquiet: gone=%v\n regs0=%v\n regs =%v\n addrs0=%v\n addrs =%v\n", gone, regs0, w.regsSnapshot(), addrs0, w.addrsSnapshot())
				}
				break
			}
			time.Sleep(50 * time.Microsecond)
		}
		w.tcpFrames()
	}
	w.emit("EPkt %d %d %s %s %d %d %d %d %s %s %s %d %d %s %s", p.nic, p.net, zl(p.src), zl(p.dst), p.trans, p.sport, p.dport, p.flags,
		netx.B(acc), zlist(got), netx.B(tcpin), unk, rep, netx.B(quiet), netx.B(panicked))
	w.stats["pkt"]++
	if len(got) > 0 || tcpin {
		w.stats["pkt/delivered"]++
	}
	if !acc {
		w.stats["pkt/filtered"]++
	}
	if rep == 1 {
		w.stats["pkt/rst"]++
	}
	if rep == 2 {
		w.stats["pkt/synack"]++
	}
}

// leakOne: the address snapshot expected after a reset SYN-RCVD child: one more reference on
// (nic, dst), the entry being a temporary one (no insert reference) if it did not exist before
func leakOne(s *stack.Stack, addrs0 []string, p pkt) []string {
	key := fmt.Sprintf("(%d,%s,", p.nic, zl(p.dst))
	var out []string
	found := false
	for _, a := range addrs0 {
		if strings.HasPrefix(a, key) {
			var refs int
			rest := a[len(key):]
			var proto int
			var ins string
			fmt.Sscanf(strings.NewReplacer(",", " ", ")", "").Replace(rest), "%d %d %s", &proto, &refs, &ins)
			a = fmt.Sprintf("%s%d,%d,%s)", key, proto, refs+1, ins)
			found = true
		}
		out = append(out, a)
	}
	if !found {
		out = append(out, fmt.Sprintf("%s%d,1,false)", key, p.net))
	}
	sort.Strings(out)
	return out
}

// ---------------------------------------------------------------- generators

func pick(r *gen.Rng, l []string) string { return l[r.Intn(len(l))] }

func (w *world) anyLocal(net int) string {
	if net == pV6 {
		if w.r.Intn(4) == 0 {
			return unass6
		}
		return local6
	}
	nic := 1 + w.r.Intn(2)
	if w.r.Intn(6) == 0 {
		return pick(w.r, unass4)
	}
	return pick(w.r, local4[nic])
}

// localOn: mostly an address the NIC currently holds (so that the packet passes the address
// filter and the demultiplexer is exercised), sometimes any address of the universe
func (w *world) localOn(nic, net int) string {
	if w.r.Intn(5) != 0 {
		var l []string
		for _, a := range w.s.VerifAddrs() {
			if int(a.NIC) == nic && int(a.Proto) == net {
				l = append(l, string(a.Addr))
			}
		}
		if len(l) > 0 {
			return l[w.r.Intn(len(l))]
		}
	}
	return w.anyLocal(net)
}

func (w *world) anyForeign(net int) string {
	if net == pV6 {
		return pick(w.r, foreign6)
	}
	return pick(w.r, foreign4)
}

func (w *world) pickNic0() int { // 0 (any) most of the time
	if w.r.Intn(3) == 0 {
		return 1 + w.r.Intn(2)
	}
	return 0
}

func (w *world) genPacket() pkt {
	r := w.r
	p := pkt{nic: 1 + r.Intn(2), net: pV4, trans: pUDP, flags: 0}
	var regs []stack.VerifReg
	for _, x := range w.s.VerifRegs() {
		if !child(x) {
			regs = append(regs, x)
		}
	}
	if len(regs) > 0 && r.Intn(10) < 7 {
		// aimed at an existing registration, wildcard fields filled in, then possibly one field perturbed
		x := regs[r.Intn(len(regs))]
		p.net, p.trans = int(x.Net), int(x.Trans)
		if x.NIC != 0 && r.Intn(4) != 0 {
			p.nic = int(x.NIC)
		}
		p.dst, p.dport = string(x.ID.LocalAddress), x.ID.LocalPort
		p.src, p.sport = string(x.ID.RemoteAddress), x.ID.RemotePort
		if p.dst == "" {
			p.dst = w.localOn(p.nic, p.net)
		} else if x.NIC == 0 && r.Intn(4) != 0 {
			// arrive on the NIC that holds the destination
			for _, a := range w.s.VerifAddrs() {
				if string(a.Addr) == p.dst {
					p.nic = int(a.NIC)
				}
			}
		}
		if p.src == "" {
			p.src, p.sport = w.anyForeign(p.net), rports[r.Intn(len(rports))]
			// the remote of some other registration, to meet connected sockets / full ids
			if y := regs[r.Intn(len(regs))]; y.ID.RemoteAddress != "" && int(y.Net) == p.net && r.Intn(2) == 0 {
				p.src, p.sport = string(y.ID.RemoteAddress), y.ID.RemotePort
			}
		}
		switch r.Intn(12) {
		case 0:
			p.dst = w.anyLocal(p.net)
		case 1:
			p.dport = ports[r.Intn(len(ports))]
		case 2:
			p.src = w.anyForeign(p.net)
		case 3:
			p.sport = rports[r.Intn(len(rports))]
		case 4:
			p.nic = 1 + r.Intn(2)
		case 5:
			if p.trans == pUDP {
				p.trans = pTCP
			} else {
				p.trans = pUDP
			}
		}
	} else {
		if r.Intn(6) == 0 {
			p.net = pV6
		}
		if r.Intn(3) == 0 {
			p.trans = pTCP
		}
		p.dst = w.localOn(p.nic, p.net)
		p.src = w.anyForeign(p.net)
		p.dport = ports[r.Intn(len(ports))]
		if r.Intn(8) == 0 {
			p.dport = 5555
		}
		p.sport = rports[r.Intn(len(rports))]
	}
	if p.net != pV4 && p.net != pV6 { // (an arp-table registration made by a raw op: nothing to aim at)
		p.net = pV4
	}
	if (p.net == pV6) != (len(p.dst) == 16) {
		p.dst = w.localOn(p.nic, p.net)
	}
	if p.net == pV6 && r.Intn(3) != 0 {
		p.nic = 1 // the only NIC with an IPv6 address
	}
	if (p.net == pV6) != (len(p.src) == 16) {
		p.src = w.anyForeign(p.net)
	}
	if p.trans == pTCP {
		held := false
		for _, a := range w.s.VerifAddrs() {
			if int(a.NIC) == p.nic && string(a.Addr) == p.dst {
				held = true
			}
		}
		k := r.Intn(8)
		if !held && !w.linger && k > 2 {
			// a SYN that a promiscuous NIC / a subnet lets through to a listener would leave the
			// temporary network endpoint referenced for ever (see leakOne): only with -linger
			k = 0
		}
		switch k {
		case 0:
			p.flags = netx.FlagAck
		case 1:
			p.flags = netx.FlagRst
		case 2:
			p.flags = netx.FlagRst | netx.FlagAck
		default:
			p.flags = netx.FlagSyn
		}
	}
	return p
}

func (w *world) genRawID(net int) stack.TransportEndpointID {
	r := w.r
	id := stack.TransportEndpointID{LocalPort: ports[r.Intn(len(ports))]}
	if r.Intn(2) == 0 {
		id.LocalAddress = tcpip.Address(w.anyLocal(net))
	}
	if r.Intn(2) == 0 {
		id.RemoteAddress, id.RemotePort = tcpip.Address(w.anyForeign(net)), rports[r.Intn(len(rports))]
	}
	return id
}

func (w *world) openSocks(kind int) []*sockT {
	var out []*sockT
	for _, s := range w.socks {
		if s.open && (kind == 0 || s.kind == kind) {
			out = append(out, s)
		}
	}
	return out
}

type rawRec struct {
	nic   int
	nets  []int
	trans int
	id    stack.TransportEndpointID
}

func history(r *gen.Rng, steps int, linger bool, stats map[string]int) string {
	w := newWorld(r, linger, stats)
	has6 := false
	// configuration: 1-3 addresses per NIC (sometimes none on NIC 2), sometimes an IPv6 address on NIC 1
	for nic := 1; nic <= 2; nic++ {
		k := 1 + r.Intn(3)
		if nic == 2 && r.Intn(5) == 0 {
			k = 0
		}
		perm := r.Intn(3)
		for i := 0; i < k; i++ {
			w.addAddr(nic, pV4, local4[nic][(perm+i)%3])
		}
	}
	if r.Intn(2) == 0 {
		w.addAddr(1, pV6, local6)
		has6 = true
	}
	if r.Intn(4) == 0 {
		w.promisc(1+r.Intn(2), true)
	}
	if r.Intn(4) == 0 {
		w.addSubnet(1+r.Intn(2), subnets[r.Intn(len(subnets))])
	}
	var rawLive []rawRec
	for step := 0; step < steps; step++ {
		c := r.Intn(100)
		switch {
		case c < 46:
			w.inject(w.genPacket())
		case c < 60: // new socket, bound (and for tcp usually listening)
			if len(w.socks) >= 9 {
				continue
			}
			kind, net := pUDP, pV4
			if r.Intn(3) == 0 {
				kind = pTCP
			}
			if has6 && r.Intn(4) == 0 || r.Intn(25) == 0 {
				net = pV6
			}
			sk := w.newSock(kind, net)
			a := ""
			if r.Intn(5) < 3 {
				a = w.localOn(1+r.Intn(2), net)
			}
			nic := w.pickNic0()
			if w.bind(sk, nic, a, ports[r.Intn(len(ports))]) == 0 && kind == pTCP && r.Intn(10) < 8 {
				w.listen(sk)
			}
		case c < 64: // unbound udp socket connected straight away (ephemeral local port)
			if len(w.socks) >= 9 {
				continue
			}
			net := pV4
			if has6 && r.Intn(4) == 0 {
				net = pV6
			}
			sk := w.newSock(pUDP, net)
			w.connect(sk, w.pickNic0(), w.anyForeign(net), rports[r.Intn(len(rports))])
		case c < 72: // connect / reconnect an open udp socket
			if l := w.openSocks(pUDP); len(l) > 0 {
				sk := l[r.Intn(len(l))]
				net := sk.net
				if r.Intn(12) == 0 {
					net = pV4 + pV6 - net // wrong family
				}
				port := rports[r.Intn(len(rports))]
				if r.Intn(15) == 0 {
					port = 0
				}
				w.connect(sk, w.pickNic0(), w.anyForeign(net), port)
			}
		case c < 76: // listen (also on sockets that cannot), bind again
			if l := w.openSocks(0); len(l) > 0 {
				sk := l[r.Intn(len(l))]
				if r.Intn(3) == 0 {
					w.bind(sk, w.pickNic0(), w.anyLocal(sk.net), ports[r.Intn(len(ports))])
				} else {
					w.listen(sk)
				}
			}
		case c < 82:
			if l := w.openSocks(0); len(l) > 0 {
				w.closeSock(l[r.Intn(len(l))])
			}
		case c < 90: // raw registration
			net := pV4
			if r.Intn(6) == 0 {
				net = pV6
			}
			nets := []int{net}
			switch r.Intn(10) {
			case 0:
				nets = []int{pV4, pV6}
			case 1:
				nets = []int{pV6, pV4}
			case 2:
				nets = []int{net, net}
			case 3:
				nets = []int{net, 9999} // a pair the demultiplexer does not know
			}
			trans := pUDP
			id := w.genRawID(net)
			if r.Intn(4) == 0 {
				trans = pTCP
				id.RemoteAddress, id.RemotePort = "", 0 // see DESIGN note in the final report: tcp raw ids carry no remote part
			}
			nic := w.pickNic0()
			if r.Intn(30) == 0 {
				nic = 7 // unknown NIC
			}
			if len(rawLive) > 0 && r.Intn(5) == 0 { // the same id again (duplicate), possibly on another demultiplexer
				x := rawLive[r.Intn(len(rawLive))]
				nets, trans, id = x.nets, x.trans, x.id
				if r.Intn(2) == 0 {
					nic = x.nic
				}
			} else if r.Intn(6) == 0 { // the id of a live socket registration
				var regs []stack.VerifReg
				for _, x := range w.s.VerifRegs() {
					if !child(x) && (int(x.Trans) == pUDP || x.ID.RemotePort == 0) {
						regs = append(regs, x)
					}
				}
				if len(regs) > 0 {
					x := regs[r.Intn(len(regs))]
					nets, trans, id = []int{int(x.Net)}, int(x.Trans), x.ID
					if r.Intn(2) == 0 {
						nic = int(x.NIC)
					}
				}
			}
			w.rawReg(nic, nets, trans, id, w.raws[r.Intn(len(w.raws))])
			rawLive = append(rawLive, rawRec{nic, nets, trans, id})
		case c < 93:
			if len(rawLive) > 0 {
				i := r.Intn(len(rawLive))
				x := rawLive[i]
				nets := x.nets
				if r.Intn(5) == 0 {
					nets = nets[:1]
				}
				w.rawUnreg(x.nic, nets, x.trans, x.id)
				rawLive = append(rawLive[:i], rawLive[i+1:]...)
			}
		case c < 95:
			w.promisc(1+r.Intn(2), r.Intn(3) != 0)
		case c < 96:
			w.addSubnet(1+r.Intn(2), subnets[r.Intn(len(subnets))])
		case c < 97:
			nic := 1 + r.Intn(2)
			if r.Intn(4) == 0 && !has6 {
				w.addAddr(1, pV6, local6)
				has6 = true
			} else {
				w.addAddr(nic, pV4, pick(r, local4[nic]))
			}
		case c < 98:
			nic := 1 + r.Intn(2)
			w.removeAddr(nic, pick(r, local4[nic]))
		default:
			w.dumpState()
		}
	}
	w.dumpState()
	// tear down so that the listeners' goroutines end
	for _, sk := range w.socks {
		if sk.open {
			guard(func() { sk.ep.Close() })
		}
	}
	return "Hist [" + strings.Join(w.evs, "; ") + "]"
}

// demoLinger: the scripted history behind the candidate finding "C09-lingering-address": an
// address removed from the NIC keeps accepting packets while (and, after a reconnect, for ever
// after) a connected udp socket's route references its network endpoint.
func demoLinger(stats map[string]int) string {
	w := newWorld(gen.New(1), true, stats)
	A, R := local4[1][0], foreign4[0]
	w.addAddr(1, pV4, A)
	w.addAddr(1, pV4, local4[1][1])
	s0 := w.newSock(pUDP, pV4)
	w.bind(s0, 0, "", 80)
	s1 := w.newSock(pUDP, pV4)
	w.bind(s1, 0, A, 53)
	w.connect(s1, 0, R, 7)
	w.connect(s1, 0, R, 8) // the first route's reference is never released
	w.closeSock(s1)
	w.dumpState()
	w.removeAddr(1, A)
	w.dumpState()
	w.inject(pkt{nic: 1, net: pV4, src: R, dst: A, trans: pUDP, sport: 7, dport: 80})
	w.dumpState()
	return "Hist [" + strings.Join(w.evs, "; ") + "]"
}

// acceptedHistory: a scripted history for the clause "a connected socket before a listener": a
// connection is ACCEPTED through a listener (full three-way handshake from a scripted peer), the
// registration the stack made for the accepted endpoint is read back (EAccept: demultiplexer it
// sits in), listeners are closed / re-created around it (wildcard <-> specific local address), and a
// data segment for the connection's exact 4-tuple is injected (EData: did the accepted endpoint
// read the bytes).  Remote ports stay below 20000 so that the registration is not taken for a
// SYN-RCVD child.
func acceptedHistory(r *gen.Rng, stats map[string]int) string {
	w := newWorld(r, false, stats)
	nic := 1 + r.Intn(2)
	k := 1 + r.Intn(3)
	for i := 0; i < k; i++ {
		w.addAddr(nic, pV4, local4[nic][i])
	}
	if r.Intn(2) == 0 {
		w.addAddr(3-nic, pV4, local4[3-nic][0])
	}
	A := local4[nic][r.Intn(k)]
	R := foreign4[r.Intn(len(foreign4))]
	port := uint16(80 + r.Intn(900))
	sport := uint16(10000 + r.Intn(5000))
	variant := r.Intn(6)
	l1addr := ""
	if variant >= 3 {
		l1addr = A
	}
	L1 := w.newSock(pTCP, pV4)
	if w.bind(L1, 0, l1addr, port) != 0 || w.listen(L1) != 0 {
		return "Hist [" + strings.Join(w.evs, "; ") + "]"
	}
	link := w.links[nic]
	w.tcpFrames()
	iss := uint32(1000 + r.Intn(1<<20))
	seg := func(flags byte, seq, ack uint32, pl []byte) []byte {
		t := netx.TCPBytes([]byte(R), []byte(A), netx.TCPSeg{SrcPort: sport, DstPort: port, Seq: seq, Ack: ack, Flags: flags, Wnd: 65535, Payload: pl})
		return netx.IPv4Packet([]byte(R), []byte(A), 6, uint16(seq), 0, 64, t)
	}
	link.Inject(netNum(pV4), seg(netx.FlagSyn, iss, 0, nil))
	var irs uint32
	gotSA := false
	deadline := time.Now().Add(patience())
	for !gotSA && time.Now().Before(deadline) {
		rs, _ := w.tcpFrames()
		for _, f := range rs {
			if f.flags == netx.FlagSyn|netx.FlagAck && f.dport == sport && f.ack == iss+1 {
				irs, gotSA = f.seq, true
			}
		}
		if !gotSA {
			time.Sleep(time.Millisecond)
		}
	}
	if !gotSA {
		timeouts++
		w.stats["accepted/no-synack"]++
		return "Hist [" + strings.Join(w.evs, "; ") + "]"
	}
	link.Inject(netNum(pV4), seg(netx.FlagAck, iss+1, irs+1, nil))
	var C tcpip.Endpoint
	deadline = time.Now().Add(patience())
	for C == nil && time.Now().Before(deadline) {
		ep, _, err := L1.ep.Accept()
		if err == nil {
			C = ep
		} else {
			time.Sleep(time.Millisecond)
		}
	}
	if C == nil {
		timeouts++
		w.stats["accepted/no-accept"]++
		return "Hist [" + strings.Join(w.evs, "; ") + "]"
	}
	id := stack.TransportEndpointID{LocalPort: port, LocalAddress: tcpip.Address(A), RemotePort: sport, RemoteAddress: tcpip.Address(R)}
	regnic, nreg := -1, 0
	for _, reg := range w.s.VerifRegs() {
		if reg.ID == id {
			regnic = int(reg.NIC)
			nreg++
		}
	}
	child := 500
	w.emit("EAccept %d %d %s %d %d %d", nic, pV4, tidStr(id), regnic, nreg, child)
	w.stats["accepted"]++
	// listeners around the connection
	switch variant {
	case 0, 3: // the first listener stays
	case 1, 4: // closed, a listener on the specific address of the connection takes the port
		w.closeSock(L1)
		L2 := w.newSock(pTCP, pV4)
		w.bind(L2, 0, A, port)
		w.listen(L2)
	case 2, 5: // closed, a wildcard listener takes the port
		w.closeSock(L1)
		L2 := w.newSock(pTCP, pV4)
		w.bind(L2, 0, "", port)
		w.listen(L2)
	}
	if r.Intn(3) == 0 { // and an unrelated udp socket on the same port
		U := w.newSock(pUDP, pV4)
		w.bind(U, 0, A, port)
	}
	w.tcpFrames()
	pl := []byte{0xc0, 0x9e, byte(variant), byte(r.Intn(256))}
	link.Inject(netNum(pV4), seg(netx.FlagAck|netx.FlagPsh, iss+1, irs+1, pl))
	got := 0
	deadline = time.Now().Add(patience())
	for got == 0 && time.Now().Before(deadline) {
		v, _, err := C.Read(nil)
		if err == nil && string(v) == string(pl) {
			got = 1
		} else if err == nil {
			got = 2
		} else {
			time.Sleep(time.Millisecond)
		}
	}
	w.emit("EData %d %d %s %d %d", nic, pV4, tidStr(id), child, got)
	w.stats[fmt.Sprintf("accepted/data-got-%d", got)]++
	C.Close()
	return "Hist [" + strings.Join(w.evs, "; ") + "]"
}

func main() {
	log.SetOutput(io.Discard)
	seed := flag.Uint64("seed", 1, "seed")
	n := flag.Int("n", 300, "number of histories")
	steps := flag.Int("steps", 44, "operations per history after the configuration")
	linger := flag.Bool("linger", false, "also remove addresses that open routes still reference")
	demo := flag.String("demo", "", "print one scripted history instead: linger")
	flag.Parse()
	rand.Seed(int64(*seed)) // ports.PickEphemeralPort draws from the global source
	out := bufio.NewWriter(os.Stdout)
	defer out.Flush()
	stats := map[string]int{}
	if *demo == "linger" {
		fmt.Fprintln(out, demoLinger(stats))
		return
	}
	r := gen.New(*seed)
	for i := 0; i < *n; i++ {
		st := *steps
		if i%8 == 0 {
			st = 12 + r.Intn(20)
		}
		fmt.Fprintln(out, history(r, st, *linger, stats))
	}
	for i := 0; i < *n/5+6; i++ {
		fmt.Fprintln(out, acceptedHistory(r, stats))
	}
	var keys []string
	for k := range stats {
		keys = append(keys, k)
	}
	sort.Strings(keys)
	var parts []string
	for _, k := range keys {
		parts = append(parts, fmt.Sprintf("%s=%d", k, stats[k]))
	}
	fmt.Fprintf(out, "# histories=%d steps=%d events: %s\n", *n, *steps, strings.Join(parts, " "))
}
