// h_c19: controlled-schedule correspondence driver for pkg/sleep (property C19).
//
// It is built with a go build -overlay that (a) applies the standard toolchain patch to
// pkg/sleep, (b) replaces sleep_unsafe.go by an INSTRUMENTED copy generated at check time from the
// current (patched) file by ./instr: every sync/atomic call and the gopark call first pass a
// schedule point, and (c) adds harness/overlay/c19_sched.go.txt (the schedule-point runtime and
// read-only accessors) to package sleep.
//
// In a controlled run exactly one goroutine is granted one atomic operation at a time; it performs
// it on the REAL Sleeper/Wakers and blocks again at its next point (or finishes).  Thread 0 is the
// goroutine that owns the Sleeper (AddWaker / Fetch / Done; it may also Assert/Clear); threads 1..
// only call Assert / Clear / IsAsserted.  Between two API calls every thread passes the boundary
// point 900, so the invocation of a call is a step of its own.
//
// The sleeper's real park is predicted from the real state: a goroutine granted its gopark point
// while waitingG == preparingG will be parked by commitSleep, so the driver waits only until
// waitingG holds a G and then goes on without it; when a later step resets waitingG the parked G
// must have been readied and the driver waits (watchdog) for it to arrive at its next point.  A
// goroutine that does not come back within the watchdog time makes the run `hung`.
//
// The schedule is chosen among the goroutines that are enabled in the real state (not finished,
// not parked): seeded random walks over random client programs, and depth-first enumeration of ALL
// schedules of small client sets with pruning of already visited real states.  Each run is printed
// as one Coq term of type NP.Corr.C19.case:
//
//	Run nw progs sched obs hung panicked maximal
//
// nw: number of wakers; progs: per thread its API calls, one number each: 1000000*kind + 1000*w + a
// (kind 1 AddWaker(w, id=a), 2 Fetch(block=a), 3 Done, 4 Assert(w), 5 Clear(w), 6 IsAsserted(w));
// sched: thread ids in the order steps were granted; obs: eight numbers per step, flattened:
//
//	pos   point the stepping thread is blocked at afterwards (0 finished, 1 parked in gopark)
//	spos  the same for thread 0
//	retv  16*code + value of the API call that returned in this step (0 none; 1 AddWaker; 2 Fetch
//	      returned id=value; 3 Fetch returned nothing; 4 Done; 5 Assert; 6 Clear value; 7 IsAsserted value)
//	ws    sum over wakers of class(w.s) * 4^w   (0 nil, 1 the sleeper, 2 asserted)
//	wg    class of waitingG (0, 1 preparing, 2 a parked G)
//	sh    sharedList as decimal digits of the waker ids, head first
//	lo    localList likewise
//	al    1 + allWakers likewise, or 0 while Done is executing (Done reuses the links)
//
// sched and obs are printed as primitive-integer lists ([...]%uint63), which Coq parses natively.
//
// maximal: the run ended because no goroutine was enabled.
//
// -stress N adds N UNCONTROLLED runs in the style of the repository's dormant sleep_test.go
// (ping-pong between asserting goroutines and one fetching goroutine, runtime.Gosched() injected at
// the points), printed as `Stress wakers iters extra completed`: a SEARCH AID ONLY, not replayable
// and not compared with the model.
package main

import (
	"bufio"
	"flag"
	"fmt"
	"io"
	"log"
	"os"
	"runtime"
	"strings"
	"sync"
	"sync/atomic"
	"time"

	"aaverif/internal/gen"

	"github.com/brewlin/net-protocol/pkg/sleep"
)

const (
	kAdd    = 1
	kFetch  = 2
	kDone   = 3
	kAssert = 4
	kClear  = 5
	kIsAss  = 6
)

type op struct{ kind, w, a int }

func (o op) code() int { return 1000000*o.kind + 1000*o.w + o.a }

type result struct {
	nw                      int
	progs                   [][]op
	sched                   []int
	obs                     [][8]int
	hung, panicked, maximal bool
}

// chooser picks the thread that gets the next step (-1 = stop the run here).
type chooser func(sofar []int, enabled []int, key string) int

var watchdog = 2 * time.Second

var drainFail int

type tstate struct {
	retv   int
	opIdx  int
	inDone bool
}

func pack(ids []int) int {
	x := 0
	for _, i := range ids {
		if i < 0 || i > 9 {
			i = 0
		}
		x = x*10 + i
	}
	return x
}

func execute(nw int, progs [][]op, choose chooser, maxSteps int) result {
	res := result{nw: nw, progs: progs}
	s := new(sleep.Sleeper)
	wk := make([]sleep.Waker, nw)
	n := len(progs)
	run := sleep.VerifNewRun(n)
	ths := make([]*sleep.VerifThread, n)
	ts := make([]*tstate, n)
	var panicked int32
	body := func(t *tstate, prog []op) func() {
		return func() {
			defer func() {
				if e := recover(); e != nil {
					if fmt.Sprintf("%T", e) == "sleep.verifAbort" {
						panic(e)
					}
					atomic.StoreInt32(&panicked, 1)
				}
			}()
			for i, o := range prog {
				t.opIdx = i
				sleep.VerifPoint(900)
				switch o.kind {
				case kAdd:
					s.AddWaker(&wk[o.w], o.a)
					t.retv = 16 * 1
				case kFetch:
					id, ok := s.Fetch(o.a != 0)
					if ok {
						t.retv = 16*2 + (id & 15)
					} else {
						t.retv = 16 * 3
					}
				case kDone:
					t.inDone = true
					s.Done()
					t.inDone = false
					t.retv = 16 * 4
				case kAssert:
					wk[o.w].Assert()
					t.retv = 16 * 5
				case kClear:
					if wk[o.w].Clear() {
						t.retv = 16*6 + 1
					} else {
						t.retv = 16 * 6
					}
				case kIsAss:
					if wk[o.w].IsAsserted() {
						t.retv = 16*7 + 1
					} else {
						t.retv = 16 * 7
					}
				}
			}
			t.opIdx = len(prog)
		}
	}
	finish := func() {
		run.Abort(ths)
		s.VerifUnpark()
		if !run.Drain(ths, 200*time.Millisecond) {
			drainFail++
		}
	}
	for i := range progs {
		ths[i] = run.NewThread(i)
		ts[i] = &tstate{}
		run.Start(ths[i], body(ts[i], progs[i]))
		if ok, _ := run.Wait(ths[i], watchdog, nil); !ok {
			res.hung = true
			finish()
			return res
		}
	}
	var parked *sleep.VerifThread
	posOf := func(t *sleep.VerifThread) int {
		if t.Done {
			return 0
		}
		if t == parked {
			return 1
		}
		return t.Pos
	}
	snapshot := func() (ws, wg, sh, lo, al int) {
		for i := nw - 1; i >= 0; i-- {
			ws = ws*4 + wk[i].VerifS(s)
		}
		shared, local, all, g := s.VerifState(6)
		wg, sh, lo, al = g, pack(shared), pack(local), pack(all)+1
		if ts[0].inDone {
			al = 0
		}
		return
	}
	var kb strings.Builder
	for {
		ws, wg, sh, lo, al := snapshot()
		var enabled []int
		kb.Reset()
		fmt.Fprintf(&kb, "%d,%d,%d,%d,%d", ws, wg, sh, lo, al)
		for i, t := range ths {
			fmt.Fprintf(&kb, "|%d,%d", posOf(t), ts[i].opIdx)
			if !t.Done && !t.Running {
				enabled = append(enabled, t.ID)
			}
		}
		if len(enabled) == 0 {
			res.maximal = true
			break
		}
		if len(res.sched) >= maxSteps {
			break
		}
		ti := choose(res.sched, enabled, kb.String())
		if ti < 0 {
			break
		}
		t := ths[ti]
		ts[ti].retv = 0
		res.sched = append(res.sched, ti)
		expectPark := t.Pos/10%10 == 8 && wg == 1
		run.Grant(t)
		if expectPark {
			arrived, alt := run.Wait(t, watchdog, func() bool { _, _, _, g := s.VerifState(0); return g == 2 })
			if !arrived && !alt {
				res.hung = true
				break
			}
			if alt {
				parked = t
			}
		} else if ok, _ := run.Wait(t, watchdog, nil); !ok {
			res.hung = true
			break
		}
		if parked != nil && parked != t {
			if _, _, _, g := s.VerifState(0); g != 2 {
				// waitingG was reset: the parked G must have been made runnable
				if ok, _ := run.Wait(parked, watchdog, nil); !ok {
					res.hung = true
					break
				}
				parked = nil
			}
		}
		ws, wg, sh, lo, al = snapshot()
		res.obs = append(res.obs, [8]int{posOf(t), posOf(ths[0]), ts[ti].retv, ws, wg, sh, lo, al})
	}
	res.panicked = atomic.LoadInt32(&panicked) != 0
	finish()
	return res
}

func zs(x int) string {
	if x < 0 {
		return fmt.Sprintf("(%d)", x)
	}
	return fmt.Sprintf("%d", x)
}

func ilist(xs []int) string {
	s := make([]string, len(xs))
	for i, x := range xs {
		s[i] = zs(x)
	}
	return "[" + strings.Join(s, ";") + "]"
}

func bs(b bool) string {
	if b {
		return "true"
	}
	return "false"
}

func (r result) String() string {
	ps := make([]string, len(r.progs))
	for i, p := range r.progs {
		c := make([]int, len(p))
		for j, o := range p {
			c[j] = o.code()
		}
		ps[i] = ilist(c)
	}
	var flat []int
	for _, o := range r.obs {
		flat = append(flat, o[:]...)
	}
	return fmt.Sprintf("Run %d [%s] %s%%uint63 %s%%uint63 %s %s %s", r.nw, strings.Join(ps, ";"), ilist(r.sched), ilist(flat),
		bs(r.hung), bs(r.panicked), bs(r.maximal))
}

func wid(w, session int) int { return 1 + w + 3*session }

func add(w, session int) op { return op{kAdd, w, wid(w, session)} }
func fetch(block bool) op {
	if block {
		return op{kFetch, 0, 1}
	}
	return op{kFetch, 0, 0}
}
func done() op        { return op{kDone, 0, 0} }
func assert(w int) op { return op{kAssert, w, 0} }
func clear(w int) op  { return op{kClear, w, 0} }
func isass(w int) op  { return op{kIsAss, w, 0} }

// randomProgs: thread 0 owns the sleeper (AddWaker of 1-3 wakers, Fetches, optionally Done and a
// second session); 1-4 further threads issue Assert / Clear / IsAsserted.
func randomProgs(r *gen.Rng) (int, [][]op) {
	nw := 1 + r.Intn(3)
	var sp []op
	if r.Intn(6) == 0 {
		sp = append(sp, assert(r.Intn(nw))) // asserted before being added
	}
	late := -1
	if nw > 1 && r.Intn(4) == 0 {
		late = r.Intn(nw)
	}
	perm := make([]int, nw)
	for i := range perm {
		perm[i] = i
	}
	for i := nw - 1; i > 0; i-- {
		j := r.Intn(i + 1)
		perm[i], perm[j] = perm[j], perm[i]
	}
	for _, w := range perm {
		if w != late {
			sp = append(sp, add(w, 0))
		}
	}
	fetches := func(k int) {
		for i := 0; i < k; i++ {
			sp = append(sp, fetch(r.Intn(4) != 0))
			if r.Intn(8) == 0 {
				sp = append(sp, assert(r.Intn(nw))) // the sleeper goroutine asserts one of its own wakers
			}
		}
	}
	fetches(1 + r.Intn(3))
	if late >= 0 {
		sp = append(sp, add(late, 0))
		fetches(1 + r.Intn(2))
	}
	if r.Intn(3) == 0 {
		sp = append(sp, done())
		k := 0
		for _, w := range perm {
			if r.Intn(3) != 0 {
				sp = append(sp, add(w, 1))
				k++
			}
		}
		if k > 0 {
			fetches(1 + r.Intn(2))
			if r.Intn(3) == 0 {
				sp = append(sp, done())
			}
		}
	}
	progs := [][]op{sp}
	nt := 1 + r.Intn(4)
	for i := 0; i < nt; i++ {
		k := 1 + r.Intn(4)
		var p []op
		for j := 0; j < k; j++ {
			w := r.Intn(nw)
			switch x := r.Intn(20); {
			case x < 12:
				p = append(p, assert(w))
			case x < 17:
				p = append(p, clear(w))
			default:
				p = append(p, isass(w))
			}
		}
		progs = append(progs, p)
	}
	return nw, progs
}

func contains(xs []int, x int) bool {
	for _, y := range xs {
		if y == x {
			return true
		}
	}
	return false
}

// dfs enumerates the schedules of progs depth-first up to depth steps, pruning a branch when it
// reaches a real state already expanded with at least as much remaining depth.
func dfs(nw int, progs [][]op, depth int, maxRuns int, emit func(result) bool) (runs, states, truncated int) {
	visited := map[string]int{}
	stack := [][]int{{}}
	for len(stack) > 0 && runs < maxRuns {
		p := stack[len(stack)-1]
		stack = stack[:len(stack)-1]
		res := execute(nw, progs, func(sofar []int, enabled []int, key string) int {
			step := len(sofar)
			if step < len(p) {
				if !contains(enabled, p[step]) {
					return -1
				}
				return p[step]
			}
			rem := depth - step
			if rem <= 0 {
				truncated++
				return -1
			}
			if seen, ok := visited[key]; ok && seen >= rem {
				return -1
			}
			visited[key] = rem
			for _, e := range enabled[1:] {
				q := make([]int, step+1)
				copy(q, sofar)
				q[step] = e
				stack = append(stack, q)
			}
			return enabled[0]
		}, depth)
		runs++
		if !emit(res) {
			break
		}
	}
	return runs, len(visited), truncated
}

type dfsSet struct {
	nw    int
	progs [][]op
}

func dfsSets(level int) []dfsSet {
	quick := []dfsSet{
		// the classic window: one assert against one blocking fetch
		{1, [][]op{{add(0, 0), fetch(true)}, {assert(0)}}},
		// assert / clear / re-assert against a blocking and a non-blocking fetch
		{1, [][]op{{add(0, 0), fetch(true), fetch(false)}, {assert(0), clear(0), assert(0)}}},
		// Done racing with an assert, then re-attachment
		{1, [][]op{{add(0, 0), done(), add(0, 1), fetch(true)}, {assert(0)}}},
	}
	if level <= 1 {
		return quick
	}
	return append(quick,
		dfsSet{2, [][]op{{add(0, 0), add(1, 0), fetch(true), fetch(true)}, {assert(0)}, {assert(1)}}},
		dfsSet{2, [][]op{{add(0, 0), add(1, 0), fetch(true), fetch(false)}, {assert(0), clear(0)}, {assert(1), assert(0)}}},
		dfsSet{2, [][]op{{add(0, 0), add(1, 0), fetch(true), done(), add(1, 1), fetch(true)}, {assert(0), assert(1)}, {assert(1)}}},
		dfsSet{2, [][]op{{assert(1), add(0, 0), add(1, 0), fetch(true), fetch(true), done()}, {assert(0), clear(1)}, {assert(0)}}},
		dfsSet{1, [][]op{{add(0, 0), fetch(true), fetch(true)}, {assert(0), assert(0)}, {assert(0), clear(0)}, {assert(0)}}},
	)
}

// stress: uncontrolled ping-pong in the style of sleep_test.go (TestRace / TestBlock): every
// Assert must produce exactly one Fetch.  Search aid only.
func stress(w io.Writer, rounds int, seed uint64) {
	sleep.VerifSetMode(sleep.VerifStress)
	defer sleep.VerifSetMode(sleep.VerifControlled)
	defer runtime.GOMAXPROCS(runtime.GOMAXPROCS(runtime.NumCPU()))
	r := gen.New(seed ^ 0x5354524553)
	for k := 0; k < rounds; k++ {
		nw := 1 + r.Intn(4)
		iters := 400
		s := new(sleep.Sleeper)
		wk := make([]sleep.Waker, nw)
		acks := make([]chan struct{}, nw)
		for i := range wk {
			s.AddWaker(&wk[i], i)
			acks[i] = make(chan struct{}, 4)
		}
		var extra int32
		var wg sync.WaitGroup
		stop := make(chan struct{})
		fin := make(chan struct{})
		go func() { // the fetching goroutine
			defer close(fin)
			defer func() { recover() }()
			for n := 0; n < nw*iters; n++ {
				id, ok := s.Fetch(true)
				if !ok || id < 0 || id >= nw {
					atomic.AddInt32(&extra, 1)
					continue
				}
				select {
				case acks[id] <- struct{}{}:
				default:
					atomic.AddInt32(&extra, 1) // a notification nobody asserted
				}
			}
		}()
		for i := 0; i < nw; i++ {
			wg.Add(1)
			i := i
			go func() {
				defer wg.Done()
				defer func() { recover() }()
				for j := 0; j < iters; j++ {
					wk[i].Assert()
					select {
					case <-acks[i]:
					case <-stop:
						return
					}
				}
			}()
		}
		done := make(chan struct{})
		go func() { wg.Wait(); <-fin; close(done) }()
		completed := true
		select {
		case <-done:
		case <-time.After(10 * time.Second):
			completed = false
			close(stop)
		}
		fmt.Fprintf(w, "Stress %d %d %d %s\n", nw, iters, atomic.LoadInt32(&extra), bs(completed))
		if !completed {
			fmt.Fprintf(w, "# stress: aborted after a run that did not complete (leaked goroutines)\n")
			return
		}
	}
}

func main() {
	log.SetOutput(io.Discard)
	runtime.GOMAXPROCS(2)
	seed := flag.Uint64("seed", 1, "seed")
	n := flag.Int("n", 300, "number of seeded random-walk schedules")
	dfsLevel := flag.Int("dfs", 1, "0 none, 1 small exhaustive sets, 2 thorough sets")
	depth := flag.Int("depth", 48, "DFS depth bound")
	maxRuns := flag.Int("maxruns", 40000, "bound on the runs of one DFS set")
	nstress := flag.Int("stress", 0, "uncontrolled stress rounds (search aid)")
	maxHung := flag.Int("maxhung", 2, "stop generating after this many hung runs")
	flag.Parse()
	w := bufio.NewWriter(os.Stdout)
	defer w.Flush()
	sleep.VerifSetMode(sleep.VerifControlled)
	fmt.Fprintf(w, "# points: %s\n", sleep.VerifPoints)
	hung := 0
	emit := func(res result) bool {
		fmt.Fprintln(w, res.String())
		if res.hung {
			hung++
		}
		return hung < *maxHung
	}
	if *dfsLevel > 0 {
		for _, ps := range dfsSets(*dfsLevel) {
			if hung >= *maxHung {
				break
			}
			runs, states, trunc := dfs(ps.nw, ps.progs, *depth, *maxRuns, emit)
			fmt.Fprintf(w, "# dfs: wakers=%d threads=%d ops=%d depth=%d runs=%d states=%d depth-truncated=%d\n",
				ps.nw, len(ps.progs), totalOps(ps.progs), *depth, runs, states, trunc)
		}
	}
	r := gen.New(*seed)
	runs, steps, maximal, parkedEnd := 0, 0, 0, 0
	byThreads := map[int]int{}
	for i := 0; i < *n && hung < *maxHung; i++ {
		nw, progs := randomProgs(r)
		sticky := r.Intn(3) // 0: uniform; 1: keep the same thread with prob 1/2; 2: with prob 3/4
		last := -1
		res := execute(nw, progs, func(sofar []int, enabled []int, key string) int {
			if sticky > 0 && last >= 0 && contains(enabled, last) && r.Intn(4) < sticky+1 {
				return last
			}
			last = enabled[r.Intn(len(enabled))]
			return last
		}, 60*totalOps(progs)+40)
		runs++
		steps += len(res.sched)
		byThreads[len(progs)]++
		if res.maximal {
			maximal++
		}
		if k := len(res.obs); k > 0 && res.obs[k-1][1] == 1 {
			parkedEnd++
		}
		emit(res)
	}
	fmt.Fprintf(w, "# random: runs=%d steps=%d maximal=%d ended-with-sleeper-parked=%d by-threads=%v\n", runs, steps, maximal, parkedEnd, byThreads)
	if drainFail > 0 {
		fmt.Fprintf(w, "# clean-up: %d run(s) left goroutines behind\n", drainFail)
	}
	if hung > 0 {
		fmt.Fprintf(w, "# hung runs: %d (generation stops after %d)\n", hung, *maxHung)
	}
	if *nstress > 0 && hung == 0 {
		stress(w, *nstress, *seed)
	}
}

func totalOps(progs [][]op) int {
	n := 0
	for _, p := range progs {
		n += len(p)
	}
	return n
}
