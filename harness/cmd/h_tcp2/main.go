// h_tcp2: TWO real endpoints of the stack (A opens, B accepts) joined by a driver-controlled network,
// advanced in lock step with the closed-system model (coq/Proofs/TcpNetP.v sys_step, in the
// incremental form of coq/Model/TcpSys.v).  A move is an application call or an explicit
// retransmission time-out at one endpoint (MAppA / MAppB), or the delivery of a copy of the k-th
// packet one endpoint has emitted since establishment to the other endpoint (MDeliverB / MDeliverA).
// After EVERY move both protocol goroutines are waited for until parked, the runtime timers are
// stopped, both protocol states are snapshot and the packets either side emitted are collected.
// Each output line is one Coq term of type NP.Corr.C02sys.case.
//
// Schedules: (1) the FAIR PUMP WITH DROPS of Model/TcpSys.v run on the real pair, for every drop set
// of at most two (thorough: three) packets of the loss-free run of a scenario (close order x sizes
// x buffers x initial sequence numbers); (2) random closed-system schedules (duplication,
// reordering, stale replay, time-outs, application calls in any order).
// The three handshake packets are shuttled without loss: loss of handshake packets is outside this
// driver (the handshake runs in real time inside handshake.execute).
package main

import (
	"bufio"
	"flag"
	"fmt"
	"io"
	"log"
	"os"
	"reflect"
	"strings"
	"time"

	"aaverif/internal/gen"
	"aaverif/internal/netx"
	"aaverif/internal/tcpx"

	"github.com/brewlin/net-protocol/protocol/transport/tcp"
)

const syncWait = 30 * time.Second

// ---------------------------------------------------------------- one lock-step run

type run struct {
	p            *tcpx.Pair
	sa, sb       tcp.VerifState // latest snapshots
	steps        []string
	hung         bool
	rtoFired     int
	nmoves       int
	initA, initB tcp.VerifState
}

func newRun(cfg tcpx.PairCfg) (*run, error) {
	p, err := tcpx.DialPair(cfg)
	if err != nil {
		return nil, err
	}
	r := &run{p: p}
	r.sa, r.sb = p.A.Snap(), p.B.Snap()
	r.initA, r.initB = r.sa, r.sb
	return r, nil
}

func optState(prev, cur tcp.VerifState) string {
	if reflect.DeepEqual(prev, cur) {
		return "None" // identical, field by field, to the previous snapshot of this endpoint
	}
	return "(Some " + tcpx.CoqState(cur) + ")"
}

// after a move: synchronise, collect, snapshot, record
func (r *run) after(mv, res string) {
	if !r.p.A.Sync(syncWait) || !r.p.B.Sync(syncWait) {
		r.hung = true
		return
	}
	fa, fb := r.p.A.Collect(), r.p.B.Collect()
	sa, sb := r.p.A.Snap(), r.p.B.Snap()
	r.steps = append(r.steps, fmt.Sprintf("mkO2 (%s) %s %s %s %s (%s)", mv, optState(r.sa, sa), optState(r.sb, sb),
		tcpx.CoqFrames(fa), tcpx.CoqFrames(fb), res))
	r.sa, r.sb = sa, sb
	r.nmoves++
}

func (r *run) end(forA bool) *tcpx.End {
	if forA {
		return r.p.A
	}
	return r.p.B
}

func (r *run) snap(forA bool) tcp.VerifState {
	if forA {
		return r.sa
	}
	return r.sb
}

func side(forA bool) string {
	if forA {
		return "MAppA"
	}
	return "MAppB"
}

// application calls; the return values mirror Model.Tcp.result
func (r *run) write(forA bool, b []byte) int {
	n := r.end(forA).Write(b)
	res := fmt.Sprintf("RCount %d", n)
	if n < 0 {
		res = fmt.Sprintf("RErr (%d)", n)
	}
	r.after(fmt.Sprintf("%s (AWrite %s)", side(forA), tcpx.ZL(b)), res)
	return n
}

func (r *run) read(forA bool) ([]byte, int) {
	v, e := r.end(forA).Read()
	res := "RBytes " + tcpx.ZL(v)
	if e != 0 {
		res = fmt.Sprintf("RErr (%d)", e)
	}
	r.after(side(forA)+" ARead", res)
	return v, e
}

func (r *run) shut(forA bool) int {
	e := r.end(forA).ShutdownWrite()
	res := "RCount 0"
	if e != 0 {
		res = fmt.Sprintf("RErr (%d)", e)
	}
	r.after(side(forA)+" AShutW", res)
	return e
}

// rto: an explicit expiry; not a move at all when the timer is disabled
func (r *run) rto(forA bool) bool {
	if !r.end(forA).FireRTO() {
		return false
	}
	r.rtoFired++
	r.after(side(forA)+" ARto", "RNone")
	return true
}

// deliver a copy of the k-th packet emitted by A (fromA) / B to the other endpoint
func (r *run) deliver(fromA bool, k int) bool {
	seg, ok := r.p.Deliver(r.end(fromA), k)
	name := "MDeliverB"
	if !fromA {
		name = "MDeliverA"
	}
	if !ok {
		// no such packet yet: the network has nothing to hand over
		r.after(fmt.Sprintf("%s %d false false 0", name, k), "RNone")
		return false
	}
	to := r.end(!fromA)
	rto := int64(0)
	if to.Sync(syncWait) {
		rto = to.Snap().Rto
	}
	ts, te := tcpx.TSFacts(seg)
	r.after(fmt.Sprintf("%s %d %s %s %d", name, k, netx.B(ts), netx.B(te), rto), "RNone")
	return true
}

func b2i(b bool) int {
	if b {
		return 1
	}
	return 0
}

func bufOr(v int) int {
	if v == 0 {
		return 1 << 20
	}
	return v
}

// the case line
func (r *run) line(kind int, drops []drop) string {
	p := r.p
	smss, sws, sts, ssack := tcpx.SynOpts(p.Syn.Opts)
	amss, aws, ats, asack := tcpx.SynOpts(p.SynAck.Opts)
	c := p.Cfg
	cfg := fmt.Sprintf("[%d;%d;%d;%d;%d;(%d);%d;%d;%d;(%d);%d;%d;%d;%d;%d;%d;%d;%d;%d;%d]",
		p.Syn.Seq, p.SynAck.Seq, p.Syn.Wnd, p.SynAck.Wnd,
		smss, sws, b2i(sts), b2i(ssack), amss, aws, b2i(ats), b2i(asack),
		b2i(c.SackA), b2i(c.SackB), bufOr(c.RcvBufA), bufOr(c.SndBufA), bufOr(c.RcvBufB), bufOr(c.SndBufB), c.MTUA, c.MTUB)
	ds := make([]string, len(drops))
	for i, d := range drops {
		ds[i] = fmt.Sprintf("%d", b2i(!d.fromA)*1000+d.k)
	}
	return fmt.Sprintf("CSys %d %s [%s] %s %s [%s]", kind, cfg, strings.Join(ds, ";"),
		tcpx.CoqState(r.initA), tcpx.CoqState(r.initB), strings.Join(r.steps, ";"))
}

// ---------------------------------------------------------------- scenarios (mirror Model/TcpSys.v)

type pop struct {
	kind int // 0 write, 1 shutdown, 2 read until end of stream
	data []byte
}

type scen struct {
	order, w1, c1, w2 int
	cfg               tcpx.PairCfg
}

func (s scen) String() string {
	return fmt.Sprintf("order=%d w1=%d c1=%d w2=%d issA=%d mtu=%d/%d rcv=%d/%d snd=%d/%d", s.order, s.w1, s.c1, s.w2,
		s.cfg.ISSA, s.cfg.MTUA, s.cfg.MTUB, s.cfg.RcvBufA, s.cfg.RcvBufB, s.cfg.SndBufA, s.cfg.SndBufB)
}

func stream(pat func(int) byte, off, n int) []byte {
	b := make([]byte, n)
	for i := range b {
		b[i] = pat(off + i)
	}
	return b
}

// w bytes in c chunks, the last one takes the remainder (chunks_from)
func writes(pat func(int) byte, w, c int) []pop {
	var out []pop
	if w == 0 {
		return out
	}
	off, left := 0, w
	for ; c > 1; c-- {
		n := left / c
		out = append(out, pop{0, stream(pat, off, n)})
		off, left = off+n, left-n
	}
	return append(out, pop{0, stream(pat, off, left)})
}

func scripts(s scen) (a, b []pop, burst bool) {
	wa, wb := writes(tcpx.WPat, s.w1, s.c1), writes(tcpx.PPat, s.w2, 1)
	sh, rd := pop{kind: 1}, pop{kind: 2}
	cat := func(l ...[]pop) []pop {
		var o []pop
		for _, x := range l {
			o = append(o, x...)
		}
		return o
	}
	switch s.order {
	case 0:
		return cat(wa, []pop{sh, rd}), cat([]pop{rd}, wb, []pop{sh}), false
	case 1:
		return cat([]pop{rd}, wa, []pop{sh}), cat(wb, []pop{sh, rd}), false
	case 2:
		return cat(wa, []pop{sh, rd}), cat(wb, []pop{sh, rd}), true
	default:
		return cat(wa, []pop{sh, rd}), cat(wb, []pop{rd, sh}), false
	}
}

type drop struct {
	fromA bool
	k     int
}

type app struct {
	todo      []pop
	rd, wr    []byte
	eof, fail bool
}

// the fair pump with drops (Model/TcpSys.v pump), on the real pair
type pumper struct {
	r        *run
	a, b     app
	nA, nB   int
	drops    []drop
	dropHit  int
	burst    bool
	finished bool
}

func (p *pumper) dropped(fromA bool, k int) bool {
	for _, d := range p.drops {
		if d.fromA == fromA && d.k == k {
			return true
		}
	}
	return false
}

func canProceed(st tcp.VerifState, o pop) bool {
	switch o.kind {
	case 0:
		return st.EState != 4 || st.SndBufSize-st.SndBufUsed > 0 || len(o.data) == 0
	case 1:
		return true
	default:
		return st.EState != 4 || st.RcvBufUsed > 0 || st.RcvClosedE
	}
}

func (p *pumper) oneApp(forA bool) bool {
	a := &p.b
	if forA {
		a = &p.a
	}
	if len(a.todo) == 0 {
		return false
	}
	o, rest := a.todo[0], a.todo[1:]
	if !canProceed(p.r.snap(forA), o) {
		return false
	}
	fail := func() { a.todo, a.fail = nil, true }
	switch o.kind {
	case 0:
		n := p.r.write(forA, o.data)
		if n < 0 {
			fail()
		} else {
			a.wr = append(a.wr, o.data[:n]...)
			if n >= len(o.data) {
				a.todo = rest
			} else {
				a.todo = append([]pop{{0, o.data[n:]}}, rest...)
			}
		}
	case 1:
		if p.r.shut(forA) != 0 {
			fail()
		} else {
			a.todo = rest
		}
	default:
		v, e := p.r.read(forA)
		switch {
		case e == 0:
			a.rd = append(a.rd, v...)
		case e == -6:
			a.eof, a.todo = true, rest
		default:
			fail()
		}
	}
	return true
}

func (p *pumper) apps() bool {
	if p.burst {
		any := false
		for _, forA := range []bool{true, false} {
			for i := 0; i < 64 && !p.r.hung && p.oneApp(forA); i++ {
				any = true
			}
		}
		return any
	}
	x := p.oneApp(true)
	y := p.oneApp(false)
	return x || y
}

func (p *pumper) netRange(fromA bool, n int) {
	for ; n > 0 && !p.r.hung; n-- {
		k := p.nB
		if fromA {
			k = p.nA
		}
		if p.dropped(fromA, k) {
			p.dropHit++
		} else {
			p.r.deliver(fromA, k)
		}
		if fromA {
			p.nA++
		} else {
			p.nB++
		}
	}
}

func (p *pumper) net() bool {
	ka := len(p.r.p.A.Emitted) - p.nA
	p.netRange(true, ka)
	kb := len(p.r.p.B.Emitted) - p.nB
	p.netRange(false, kb)
	return ka != 0 || kb != 0
}

func (p *pumper) rtoSide(forA bool) bool {
	st := p.r.snap(forA)
	if st.EState == 4 && st.TState != 0 {
		return p.r.rto(forA)
	}
	return false
}

func (p *pumper) pump(fuel int) {
	for ; fuel > 0 && !p.r.hung; fuel-- {
		x := p.apps()
		y := p.net()
		if x || y {
			continue
		}
		u := p.rtoSide(true)
		v := p.rtoSide(false)
		if !(u || v) {
			p.finished = true
			return
		}
	}
}

const pumpFuel = 200

// one pumped schedule on a fresh pair; returns the case line and the numbers of packets emitted
func pumped(s scen, drops []drop, meta map[string]int) (string, int, int, error) {
	r, err := newRun(s.cfg)
	if err != nil {
		return "", 0, 0, err
	}
	defer r.p.Close()
	pa, pb, burst := scripts(s)
	p := &pumper{r: r, a: app{todo: pa}, b: app{todo: pb}, drops: drops, burst: burst}
	p.pump(pumpFuel)
	if r.hung {
		return "", 0, 0, fmt.Errorf("a protocol goroutine did not park within %v", syncWait)
	}
	ok := p.finished && r.sa.EState == 5 && r.sb.EState == 5 && p.a.eof && p.b.eof &&
		string(p.a.rd) == string(p.b.wr) && string(p.b.rd) == string(p.a.wr)
	switch {
	case ok:
		meta["pumped: both closed, everything delivered"]++
	case !p.finished:
		meta["pumped: move budget exhausted"]++
	case r.sa.EState == 6 || r.sb.EState == 6:
		meta["pumped: ended with an endpoint in the error state"]++
	default:
		meta["pumped: ended quiet without closing"]++
	}
	meta["moves"] += r.nmoves
	meta["retransmission time-outs fired"] += r.rtoFired
	meta["packets dropped"] += p.dropHit
	return r.line(1, drops), len(r.p.A.Emitted), len(r.p.B.Emitted), nil
}

// ---------------------------------------------------------------- random closed-system schedules

func randomRun(g *gen.Rng, cfg tcpx.PairCfg, nmoves int, meta map[string]int) (string, error) {
	r, err := newRun(cfg)
	if err != nil {
		return "", err
	}
	defer r.p.Close()
	mss := r.initA.MaxPayload
	if mss > 120 {
		mss = 120
	}
	wOff := [2]int{}
	pat := [2]func(int) byte{tcpx.WPat, tcpx.PPat}
	next := [2]int{} // first index not yet delivered in order
	for i := 0; i < nmoves && !r.hung; i++ {
		if r.sa.EState != 4 && r.sb.EState != 4 {
			break
		}
		forA := g.Bool()
		si := b2i(!forA)
		x := g.Intn(100)
		switch {
		case x < 14:
			sizes := []int{1, mss - 1, mss, mss + 1, 2*mss + 3, 5}
			n := sizes[g.Intn(len(sizes))]
			if n <= 0 {
				n = 1
			}
			b := stream(pat[si], wOff[si], n)
			if got := r.write(forA, b); got > 0 {
				wOff[si] += got
			}
			meta["random: write"]++
		case x < 28:
			r.read(forA)
			meta["random: read"]++
		case x < 33:
			r.shut(forA)
			meta["random: shutdown"]++
		case x < 43:
			if r.snap(forA).EState == 4 && r.rto(forA) {
				meta["random: time-out"]++
			}
		case x < 75:
			// the next packet in order (progress)
			n := len(r.end(forA).Emitted)
			if next[si] < n {
				r.deliver(forA, next[si])
				next[si]++
				meta["random: deliver next in order"]++
			}
		case x < 97:
			// any packet emitted so far: duplication, reordering, stale replay
			n := len(r.end(forA).Emitted)
			if n > 0 {
				k := g.Intn(n)
				if g.Intn(3) == 0 && n > 3 {
					k = n - 1 - g.Intn(3)
				}
				r.deliver(forA, k)
				if k == next[si] {
					next[si]++
				}
				meta["random: deliver any emitted packet"]++
			}
		default:
			r.deliver(forA, len(r.end(forA).Emitted)+g.Intn(3))
			meta["random: deliver a packet not emitted yet (no-op)"]++
		}
	}
	if r.hung {
		return "", fmt.Errorf("a protocol goroutine did not park within %v", syncWait)
	}
	meta["moves"] += r.nmoves
	return r.line(2, nil), nil
}

// ---------------------------------------------------------------- generation

var issChoices = []uint32{0xffffffff, 0xfffffff0, 0xffffffb0, 0x7fffffff, 0x7ffffff0, 0x7fffffb0, 0, 1, 12345678}

func pickCfg(g *gen.Rng, small bool) tcpx.PairCfg {
	var c tcpx.PairCfg
	c.ISSA = issChoices[g.Intn(len(issChoices))]
	if g.Intn(3) == 0 {
		c.ISSA = g.U32()
	}
	mtus := []uint32{80, 88, 100, 140}
	c.MTUA, c.MTUB = mtus[g.Intn(len(mtus))], mtus[g.Intn(len(mtus))]
	if !small && g.Intn(6) == 0 {
		c.MTUA, c.MTUB = 1500, 1500
	}
	bufs := []int{0, 4096, 65535, 1000}
	c.RcvBufA, c.RcvBufB = bufs[g.Intn(len(bufs))], bufs[g.Intn(len(bufs))]
	c.SndBufA, c.SndBufB = bufs[g.Intn(len(bufs))], bufs[g.Intn(len(bufs))]
	c.SackA, c.SackB = g.Intn(4) == 0, g.Intn(4) == 0
	if c.SackA && c.SackB && c.MTUA < 1500 {
		// SACK negotiated: 28 more bytes of every packet are reserved for options
		c.MTUA, c.MTUB = c.MTUA+40, c.MTUB+40
	}
	return c
}

// payloadA is the largest payload A puts into one packet (Model/TcpEst.v initMaxPayload)
func payloadA(c tcpx.PairCfg) int {
	opt := 12
	if c.SackA && c.SackB {
		opt += 28
	}
	m, peer := int(c.MTUA)-40-opt, int(c.MTUB)-40
	if peer <= m {
		return peer
	}
	if m <= 0 {
		return 1
	}
	return m
}

func main() {
	log.SetOutput(io.Discard)
	seed := flag.Uint64("seed", 1, "seed")
	nscen := flag.Int("scen", 4, "number of pumped scenarios (each is run for every drop set)")
	maxDrop := flag.Int("drops", 2, "largest drop set enumerated (1..3)")
	nrand := flag.Int("rand", 30, "number of random closed-system schedules")
	zw := flag.Int("zw", 1, "number of additional small-receive-buffer (closing window) scenarios")
	capSched := flag.Int("cap", 0, "stop enumerating drop sets of a scenario after this many schedules (0 = no cap)")
	one := flag.String("one", "", "replay one pumped schedule: order,w1,c1,w2,issA,mtuA,mtuB,rcvA,sndA,rcvB,sndB;drop,drop,... (drop = A<k> or B<k>)")
	flag.Parse()
	w := bufio.NewWriterSize(os.Stdout, 1<<20)
	defer w.Flush()
	meta := map[string]int{}
	if *one != "" {
		replayOne(w, *one, meta)
		return
	}
	g := gen.New(*seed*7919 + 17)
	var scens []scen
	for i := 0; i < *nscen; i++ {
		s := scen{order: i % 4, cfg: pickCfg(g, true)}
		mss := payloadA(s.cfg)
		w1s := []int{0, 1, mss, 2*mss + 3}
		s.w1 = w1s[g.Intn(len(w1s))]
		s.c1 = 1 + g.Intn(2)
		s.w2 = []int{0, 5}[g.Intn(2)]
		if s.w1 == 0 && s.w2 == 0 && g.Intn(2) == 0 {
			s.w1 = mss
		}
		scens = append(scens, s)
	}
	for i := 0; i < *zw; i++ {
		// the receiver's window closes during the transfer and reopens when the application reads
		// (the first one closes simultaneously: the FINs cross while data is still queued behind the
		// closed window, so the exit test of the main loop is evaluated with unsent data)
		s := scen{order: []int{0, 3}[g.Intn(2)], cfg: pickCfg(g, true)}
		if i == 0 {
			s.order = 2
		}
		s.cfg.RcvBufB = 64
		s.cfg.MTUA, s.cfg.MTUB = 88, 88
		s.w1, s.c1, s.w2 = 64+1+g.Intn(30), 1+g.Intn(2), []int{0, 5}[g.Intn(2)]
		scens = append(scens, s)
	}
	total := 0
	for _, s := range scens {
		line, na, nb, err := pumped(s, nil, meta)
		if err != nil {
			fmt.Fprintf(w, "# setup-failed scenario %v: %v\n", s, err)
			continue
		}
		fmt.Fprintln(w, line)
		var fr []drop
		for k := 0; k < na; k++ {
			fr = append(fr, drop{true, k})
		}
		for k := 0; k < nb; k++ {
			fr = append(fr, drop{false, k})
		}
		var sets [][]drop
		for i := range fr {
			sets = append(sets, []drop{fr[i]})
		}
		if *maxDrop >= 2 {
			for i := range fr {
				for j := i + 1; j < len(fr); j++ {
					sets = append(sets, []drop{fr[i], fr[j]})
				}
			}
		}
		if *maxDrop >= 3 {
			for i := range fr {
				for j := i + 1; j < len(fr); j++ {
					for k := j + 1; k < len(fr); k++ {
						sets = append(sets, []drop{fr[i], fr[j], fr[k]})
					}
				}
			}
		}
		n := 1
		for _, ds := range sets {
			if *capSched > 0 && n >= *capSched {
				break
			}
			line, _, _, err := pumped(s, ds, meta)
			if err != nil {
				fmt.Fprintf(w, "# setup-failed scenario %v drops %v: %v\n", s, ds, err)
				continue
			}
			fmt.Fprintln(w, line)
			n++
		}
		total += n
		fmt.Fprintf(w, "# scenario %v: loss-free run emits %d + %d packets; %d pumped schedules (drop sets of size <= %d)\n", s, na, nb, n, *maxDrop)
	}
	for i := 0; i < *nrand; i++ {
		gr := gen.New(*seed*1000003 + uint64(i))
		line, err := randomRun(gr, pickCfg(gr, false), 30+gr.Intn(31), meta)
		if err != nil {
			fmt.Fprintf(w, "# setup-failed random schedule %d: %v\n", i, err)
			continue
		}
		fmt.Fprintln(w, line)
	}
	fmt.Fprintf(w, "# pumped schedules: %d; random schedules: %d\n", total, *nrand)
	fmt.Fprintf(w, "# distribution: %v\n", meta)
}

func replayOne(w *bufio.Writer, arg string, meta map[string]int) {
	parts := strings.SplitN(arg, ";", 2)
	var v [11]int
	f := strings.Split(parts[0], ",")
	for i := 0; i < len(v) && i < len(f); i++ {
		fmt.Sscanf(f[i], "%d", &v[i])
	}
	s := scen{order: v[0], w1: v[1], c1: v[2], w2: v[3], cfg: tcpx.PairCfg{ISSA: uint32(v[4]), MTUA: uint32(v[5]), MTUB: uint32(v[6]),
		RcvBufA: v[7], SndBufA: v[8], RcvBufB: v[9], SndBufB: v[10]}}
	var ds []drop
	if len(parts) == 2 && parts[1] != "" {
		for _, d := range strings.Split(parts[1], ",") {
			var k int
			fmt.Sscanf(d[1:], "%d", &k)
			ds = append(ds, drop{d[0] == 'A', k})
		}
	}
	line, na, nb, err := pumped(s, ds, meta)
	if err != nil {
		fmt.Fprintf(w, "# setup-failed: %v\n", err)
		return
	}
	fmt.Fprintln(w, line)
	fmt.Fprintf(w, "# scenario %v drops %v: %d + %d packets emitted\n", s, ds, na, nb)
	fmt.Fprintf(w, "# distribution: %v\n", meta)
}
