// h_c18: controlled-schedule correspondence driver for pkg/tmutex (property C18).
//
// It is built with a go build -overlay that replaces pkg/tmutex/tmutex.go by an instrumented
// copy generated at check time from the current file (see ./instr): every sync/atomic call,
// channel receive and channel send of the mutex first passes sched.Point(id).  In a controlled
// run exactly one client goroutine runs at a time: the driver grants one atomic operation to one
// goroutine (Step), the goroutine performs it on the REAL mutex and parks at its next point (or
// finishes), and the driver records (m.v, len(m.ch), where the goroutine parked, which API call
// returned what, how many clients are inside the critical section).  A receive is granted only
// when the real channel holds a token, so no goroutine ever blocks for real; if one does not come
// back within the watchdog time the run is reported as hung.
//
// The schedule is chosen among the goroutines that are enabled in the real state (seeded random
// walk, or depth-first enumeration of all schedules with pruning of already visited real states).
// Each run is printed as one Coq term of type NP.Corr.C18.case:
//
//	Run progs initpos sched obs hung panicked maximal
//
// progs: per goroutine the list of API calls (0 Lock, 1 TryLock, 2 Unlock; the client skips Lock
// while holding and Unlock while not holding); initpos: the point each goroutine parked at before
// the first step; sched: goroutine ids in the order steps were granted; obs: six numbers per step,
// flattened (v, len(ch), point the stepping goroutine parked at afterwards (0 = finished), return events
// (base 8: 1 Lock returned, 2 TryLock true, 3 TryLock false, 4 Unlock returned), occupancy,
// 10*call+k = which API call the client is executing after the step (1 Lock, 2 TryLock, 3 Unlock,
// 0 none) and how many steps it was granted inside it so far);
// maximal: the run ended because no goroutine was enabled.
//
// -stress N adds N UNCONTROLLED runs (real goroutines, runtime.Gosched() injected at the points,
// occupancy counter, watchdog), printed as `Stress goroutines iters maxocc completed`: a search
// aid for failing schedules only, not replayable and not compared with the model.
package main

import (
	"bufio"
	"flag"
	"fmt"
	"io"
	"log"
	"os"
	"strings"
	"sync"
	"sync/atomic"
	"time"

	"aaverif/cmd/h_c18/sched"
	"aaverif/internal/gen"

	"github.com/brewlin/net-protocol/pkg/tmutex"
)

const (
	opLock    = 0
	opTryLock = 1
	opUnlock  = 2
)

type obs struct {
	v                     int32
	ch, pos, ret, occ, cs int
}

type result struct {
	progs                   [][]int
	initpos                 []int
	sched                   []int
	obs                     []obs
	hung, panicked, maximal bool
}

// chooser picks the goroutine that gets the next step (-1 = stop the run here).
type chooser func(sofar []int, enabled []int, key string) int

var watchdog = time.Second

type client struct {
	occ      int
	ret      int
	panicked bool
}

func execute(progs [][]int, choose chooser, maxSteps int) result {
	res := result{progs: progs}
	var m tmutex.Mutex
	m.Init()
	n := len(progs)
	run := sched.NewRun(n)
	ths := make([]*sched.Thread, n)
	cl := &client{}
	body := func(t *sched.Thread, prog []int) func() {
		return func() {
			defer func() {
				if e := recover(); e != nil {
					cl.panicked = true
				}
			}()
			for i, o := range prog {
				t.OpIdx = i
				switch o {
				case opLock:
					if t.Held {
						continue
					}
					t.Call, t.Steps = 1, 0
					m.Lock()
					t.Held = true
					cl.occ++
					cl.ret = cl.ret*8 + 1
				case opTryLock:
					t.Call, t.Steps = 2, 0
					if m.TryLock() {
						t.Held = true
						cl.occ++
						cl.ret = cl.ret*8 + 2
					} else {
						cl.ret = cl.ret*8 + 3
					}
				case opUnlock:
					if !t.Held {
						continue
					}
					t.Held = false
					t.Leaving = true // leaves the critical section with Unlock's first atomic step
					t.Call, t.Steps = 3, 0
					m.Unlock()
					cl.ret = cl.ret*8 + 4
				}
			}
			t.OpIdx = len(prog)
			t.Call, t.Steps = 0, 0
		}
	}
	for i := range progs {
		ths[i] = run.NewThread(i)
		if !run.Start(ths[i], body(ths[i], progs[i]), watchdog) {
			res.hung = true
			return res
		}
		res.initpos = append(res.initpos, ths[i].Pos)
	}
	var kb strings.Builder
	for {
		v, l, c := m.VerifState()
		var enabled []int
		kb.Reset()
		fmt.Fprintf(&kb, "%d,%d", v, l)
		for _, t := range ths {
			fmt.Fprintf(&kb, "|%d,%d,%v,%v", t.Pos, t.OpIdx, t.Held, t.Leaving)
			if t.Done {
				continue
			}
			kind := t.Pos / 10 % 10
			if kind == 5 && l == 0 { // receive on an empty channel
				continue
			}
			if kind == 7 && l >= c { // blocking send on a full channel
				continue
			}
			enabled = append(enabled, t.ID)
		}
		if len(enabled) == 0 {
			res.maximal = true
			break
		}
		if len(res.sched) >= maxSteps {
			break
		}
		ti := choose(res.sched, enabled, kb.String())
		if ti < 0 {
			break
		}
		t := ths[ti]
		cl.ret = 0
		if t.Leaving {
			t.Leaving = false
			cl.occ--
		}
		res.sched = append(res.sched, ti)
		t.Steps++
		if !run.Step(t, watchdog) {
			res.hung = true
			break
		}
		if t.Done && t.Leaving {
			t.Leaving = false
			cl.occ--
		}
		v, l, _ = m.VerifState()
		k := t.Steps
		if k > 9 {
			k = 9
		}
		res.obs = append(res.obs, obs{v, l, t.Pos, cl.ret, cl.occ, t.Call*10 + k})
	}
	res.panicked = cl.panicked
	return res
}

func zs(x int) string {
	if x < 0 {
		return fmt.Sprintf("(%d)", x)
	}
	return fmt.Sprintf("%d", x)
}

func ilist(xs []int) string {
	s := make([]string, len(xs))
	for i, x := range xs {
		s[i] = zs(x)
	}
	return "[" + strings.Join(s, ";") + "]"
}

func bs(b bool) string {
	if b {
		return "true"
	}
	return "false"
}

func (r result) String() string {
	ps := make([]string, len(r.progs))
	for i, p := range r.progs {
		ps[i] = ilist(p)
	}
	os := make([]string, len(r.obs))
	for i, o := range r.obs {
		os[i] = fmt.Sprintf("%s;%d;%d;%d;%s;%d", zs(int(o.v)), o.ch, o.pos, o.ret, zs(o.occ), o.cs)
	}
	return fmt.Sprintf("Run [%s] %s %s [%s] %s %s %s", strings.Join(ps, ";"), ilist(r.initpos), ilist(r.sched),
		strings.Join(os, ";"), bs(r.hung), bs(r.panicked), bs(r.maximal))
}

func totalOps(progs [][]int) int {
	n := 0
	for _, p := range progs {
		n += len(p)
	}
	return n
}

// randomProgs: 2-4 goroutines x 1..6 API calls, every program ends with Unlock.
func randomProgs(r *gen.Rng) [][]int {
	n := 2 + r.Intn(3)
	progs := make([][]int, n)
	for i := range progs {
		var p []int
		if r.Intn(2) == 0 { // acquire/release pairs
			k := 1 + r.Intn(3)
			for j := 0; j < k; j++ {
				if r.Intn(3) == 0 {
					p = append(p, opTryLock)
				} else {
					p = append(p, opLock)
				}
				p = append(p, opUnlock)
			}
		} else { // arbitrary calls (the client skips the ones the contract forbids)
			k := 1 + r.Intn(6)
			for j := 0; j < k-1; j++ {
				p = append(p, r.Intn(3))
			}
			p = append(p, opUnlock)
		}
		progs[i] = p
	}
	return progs
}

func contains(xs []int, x int) bool {
	for _, y := range xs {
		if y == x {
			return true
		}
	}
	return false
}

type stats struct {
	runs, steps, hung, maximal int
	byThreads                  map[int]int
}

// dfs enumerates the schedules of progs depth-first up to depth steps, pruning a branch when it
// reaches a real state already expanded with at least as much remaining depth.  Every edge of the
// explored state graph is executed on the real code at least once.
func dfs(progs [][]int, depth int, emit func(result) bool) (runs, states, truncated int) {
	visited := map[string]int{}
	stack := [][]int{{}}
	for len(stack) > 0 {
		p := stack[len(stack)-1]
		stack = stack[:len(stack)-1]
		res := execute(progs, func(sofar []int, enabled []int, key string) int {
			step := len(sofar)
			if step < len(p) {
				if !contains(enabled, p[step]) {
					return -1
				}
				return p[step]
			}
			rem := depth - step
			if rem <= 0 {
				truncated++
				return -1
			}
			if seen, ok := visited[key]; ok && seen >= rem {
				return -1
			}
			visited[key] = rem
			for _, e := range enabled[1:] {
				q := make([]int, step+1)
				copy(q, sofar)
				q[step] = e
				stack = append(stack, q)
			}
			return enabled[0]
		}, depth)
		runs++
		if !emit(res) {
			break
		}
	}
	return runs, len(visited), truncated
}

var (
	LU   = []int{0, 2}
	TU   = []int{1, 2}
	LULU = []int{0, 2, 0, 2}
	LUTU = []int{0, 2, 1, 2}
	TULU = []int{1, 2, 0, 2}
	LTU  = []int{0, 1, 2}
	TLU  = []int{1, 0, 2}
	TTU  = []int{1, 1, 2}
)

func dfsSets(level int) [][][]int {
	quick := [][][]int{{LU, LU}, {LU, TU}, {TLU, LU}, {LU, LU, TU}}
	if level <= 1 {
		return quick
	}
	fam := [][]int{LU, TU, LULU, LUTU, TULU, LTU, TLU, TTU}
	var sets [][][]int
	for i := range fam {
		for j := i; j < len(fam); j++ {
			sets = append(sets, [][]int{fam[i], fam[j]})
		}
	}
	sets = append(sets,
		[][]int{LU, LU, LU}, [][]int{LU, LU, TU}, [][]int{LU, TU, TU}, [][]int{TLU, LU, LU},
		[][]int{LULU, LU, LU}, [][]int{LULU, LU, TU}, [][]int{LUTU, TULU, LU}, [][]int{LULU, LULU, LU})
	return sets
}

func stress(w io.Writer, rounds int, seed uint64) {
	sched.SetMode(sched.Stress)
	defer sched.SetMode(sched.Controlled)
	r := gen.New(seed ^ 0x5354524553)
	for k := 0; k < rounds; k++ {
		g := 3 + r.Intn(6)
		iters := 300
		var m tmutex.Mutex
		m.Init()
		var occ, maxocc int32
		var wg sync.WaitGroup
		for i := 0; i < g; i++ {
			wg.Add(1)
			try := i%3 == 2
			go func() {
				defer wg.Done()
				defer func() { recover() }()
				for j := 0; j < iters; j++ {
					if try {
						if !m.TryLock() {
							continue
						}
					} else {
						m.Lock()
					}
					o := atomic.AddInt32(&occ, 1)
					for {
						mx := atomic.LoadInt32(&maxocc)
						if o <= mx || atomic.CompareAndSwapInt32(&maxocc, mx, o) {
							break
						}
					}
					sched.Point(999)
					atomic.AddInt32(&occ, -1)
					m.Unlock()
				}
			}()
		}
		done := make(chan struct{})
		go func() { wg.Wait(); close(done) }()
		completed := true
		select {
		case <-done:
		case <-time.After(10 * time.Second):
			completed = false
		}
		fmt.Fprintf(w, "Stress %d %d %d %s\n", g, iters, atomic.LoadInt32(&maxocc), bs(completed))
		if !completed {
			fmt.Fprintf(w, "# stress: aborted after a run that did not complete (leaked goroutines)\n")
			return
		}
	}
}

func main() {
	log.SetOutput(io.Discard)
	seed := flag.Uint64("seed", 1, "seed")
	n := flag.Int("n", 300, "number of seeded random-walk schedules")
	dfsLevel := flag.Int("dfs", 1, "0 none, 1 small exhaustive sets, 2 thorough sets")
	depth := flag.Int("depth", 64, "DFS depth bound")
	nstress := flag.Int("stress", 0, "uncontrolled stress rounds (search aid)")
	maxHung := flag.Int("maxhung", 3, "stop generating after this many hung runs")
	flag.Parse()
	w := bufio.NewWriter(os.Stdout)
	defer w.Flush()
	sched.SetMode(sched.Controlled)
	fmt.Fprintf(w, "# points: %s\n", tmutex.VerifPoints)
	hung := 0
	emit := func(res result) bool {
		fmt.Fprintln(w, res.String())
		if res.hung {
			hung++
		}
		return hung < *maxHung
	}
	// 1. exhaustive enumeration for small client sets
	if *dfsLevel > 0 {
		for _, ps := range dfsSets(*dfsLevel) {
			if hung >= *maxHung {
				break
			}
			runs, states, trunc := dfs(ps, *depth, emit)
			fmt.Fprintf(w, "# dfs: progs=%v depth=%d runs=%d states=%d depth-truncated=%d\n", ps, *depth, runs, states, trunc)
		}
	}
	// 2. seeded random walks
	r := gen.New(*seed)
	st := stats{byThreads: map[int]int{}}
	for i := 0; i < *n && hung < *maxHung; i++ {
		progs := randomProgs(r)
		sticky := r.Intn(3) // 0: uniform; 1: keep the same goroutine with prob 1/2; 2: with prob 3/4
		last := -1
		res := execute(progs, func(sofar []int, enabled []int, key string) int {
			if sticky > 0 && last >= 0 && contains(enabled, last) && r.Intn(4) < sticky+1 {
				return last
			}
			last = enabled[r.Intn(len(enabled))]
			return last
		}, 7*totalOps(progs)+8)
		st.runs++
		st.steps += len(res.sched)
		st.byThreads[len(progs)]++
		if res.maximal {
			st.maximal++
		}
		emit(res)
	}
	fmt.Fprintf(w, "# random: runs=%d steps=%d maximal=%d by-goroutines=%v\n", st.runs, st.steps, st.maximal, st.byThreads)
	if hung > 0 {
		fmt.Fprintf(w, "# hung runs: %d (generation stops after %d)\n", hung, *maxHung)
	}
	// 3. uncontrolled stress (search aid)
	if *nstress > 0 && hung == 0 {
		stress(w, *nstress, *seed)
	}
}
