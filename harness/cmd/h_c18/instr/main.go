// instr: generates the instrumented copy of pkg/tmutex/tmutex.go used by the C18
// controlled-schedule driver.  It parses the CURRENT file (so any edit of the algorithm is
// carried through unchanged) and wraps
//
//	the pointer argument of every sync/atomic call      atomic.F(p, ...)  ->  atomic.F(sched.PI32(id, p), ...)
//	the channel operand of every receive                <-c               ->  <-sched.PCh(id, c)
//	the channel operand of every send (also in select)  c <- x            ->  sched.PCh(id, c) <- x
//
// where PI32/PCh are identity functions that first pass schedule point id.  Nothing else is
// touched.  Point ids: 100*function (Lock 1, TryLock 2, Unlock 3, other 9) + 10*kind (Add 1, Load 2,
// Swap 3, CompareAndSwap 4, receive 5, non-blocking send = send in a select with default 6,
// blocking send 7, Store 8, other 9) + occurrence index within (function, kind).
// It also writes an added file with a read-only accessor and the table of points.
//
// usage: instr <in tmutex.go> <out instrumented.go> <out zz_verif_c18.go>
// Fails (exit 2) if the file does not parse, if Mutex.Lock/TryLock/Unlock are not found, or if
// one of them contains no operation to instrument.
package main

import (
	"fmt"
	"go/ast"
	"go/parser"
	"go/token"
	"os"
	"sort"
	"strings"
)

type edit struct {
	off  int
	text string
	seq  int
}

func die(f string, a ...interface{}) {
	fmt.Fprintf(os.Stderr, "instr: "+f+"\n", a...)
	os.Exit(2)
}

func main() {
	if len(os.Args) != 4 {
		die("usage: instr in.go out.go out_access.go")
	}
	src, err := os.ReadFile(os.Args[1])
	if err != nil {
		die("%v", err)
	}
	fset := token.NewFileSet()
	f, err := parser.ParseFile(fset, os.Args[1], src, parser.ParseComments)
	if err != nil {
		die("cannot parse %s: %v", os.Args[1], err)
	}
	if f.Name.Name != "tmutex" {
		die("package is %q, want tmutex", f.Name.Name)
	}
	atomicName := ""
	for _, im := range f.Imports {
		if im.Path.Value == `"sync/atomic"` {
			atomicName = "atomic"
			if im.Name != nil {
				atomicName = im.Name.Name
			}
		}
	}
	var edits []edit
	var points []string
	found := map[string]int{}
	off := func(p token.Pos) int { return fset.Position(p).Offset }
	for _, d := range f.Decls {
		fd, ok := d.(*ast.FuncDecl)
		if !ok || fd.Body == nil {
			continue
		}
		fidx := 9
		if fd.Recv != nil && len(fd.Recv.List) == 1 {
			if st, ok := fd.Recv.List[0].Type.(*ast.StarExpr); ok {
				if id, ok := st.X.(*ast.Ident); ok && id.Name == "Mutex" {
					switch fd.Name.Name {
					case "Lock":
						fidx = 1
					case "TryLock":
						fidx = 2
					case "Unlock":
						fidx = 3
					case "Init":
						continue // runs before any client goroutine exists
					}
				}
			}
		}
		occ := map[int]int{}
		add := func(kind int, from, to token.Pos, wrapper string) {
			id := fidx*100 + kind*10 + occ[kind]
			if occ[kind] > 9 {
				die("more than 10 operations of kind %d in %s", kind, fd.Name.Name)
			}
			occ[kind]++
			edits = append(edits, edit{off(from), fmt.Sprintf("sched.%s(%d, ", wrapper, id), len(edits)})
			edits = append(edits, edit{off(to), ")", len(edits)})
			points = append(points, fmt.Sprintf("%d", id))
			found[fd.Name.Name]++
		}
		// sends that are the Comm of a select clause, with whether that select has a default
		selSend := map[*ast.SendStmt]bool{}
		ast.Inspect(fd.Body, func(n ast.Node) bool {
			if s, ok := n.(*ast.SelectStmt); ok {
				hasDefault := false
				for _, c := range s.Body.List {
					if cc := c.(*ast.CommClause); cc.Comm == nil {
						hasDefault = true
					}
				}
				for _, c := range s.Body.List {
					if ss, ok := c.(*ast.CommClause).Comm.(*ast.SendStmt); ok {
						selSend[ss] = hasDefault
					}
				}
			}
			return true
		})
		ast.Inspect(fd.Body, func(n ast.Node) bool {
			switch x := n.(type) {
			case *ast.CallExpr:
				sel, ok := x.Fun.(*ast.SelectorExpr)
				if !ok {
					return true
				}
				pk, ok := sel.X.(*ast.Ident)
				if !ok || atomicName == "" || pk.Name != atomicName {
					return true
				}
				if !strings.HasSuffix(sel.Sel.Name, "Int32") || len(x.Args) == 0 {
					die("%s: unsupported sync/atomic call %s", fd.Name.Name, sel.Sel.Name)
				}
				kind := 9
				switch sel.Sel.Name {
				case "AddInt32":
					kind = 1
				case "LoadInt32":
					kind = 2
				case "SwapInt32":
					kind = 3
				case "CompareAndSwapInt32":
					kind = 4
				case "StoreInt32":
					kind = 8
				}
				add(kind, x.Args[0].Pos(), x.Args[0].End(), "PI32")
			case *ast.UnaryExpr:
				if x.Op == token.ARROW {
					add(5, x.X.Pos(), x.X.End(), "PCh")
				}
			case *ast.SendStmt:
				kind := 7
				if def, in := selSend[x]; in && def {
					kind = 6
				}
				add(kind, x.Chan.Pos(), x.Chan.End(), "PCh")
			}
			return true
		})
	}
	for _, name := range []string{"Lock", "TryLock", "Unlock"} {
		if found[name] == 0 {
			die("anchor not found: method (*Mutex).%s with at least one atomic/channel operation", name)
		}
	}
	// import right after the package clause
	edits = append(edits, edit{off(f.Name.End()), "\n\nimport sched \"aaverif/cmd/h_c18/sched\"\n", len(edits)})
	sort.Slice(edits, func(i, j int) bool {
		if edits[i].off != edits[j].off {
			return edits[i].off > edits[j].off
		}
		return edits[i].seq > edits[j].seq
	})
	out := string(src)
	for _, e := range edits {
		out = out[:e.off] + e.text + out[e.off:]
	}
	out = "// Code generated by /verif/harness/cmd/h_c18/instr from pkg/tmutex/tmutex.go. DO NOT EDIT.\n" + out
	if err := os.WriteFile(os.Args[2], []byte(out), 0o644); err != nil {
		die("%v", err)
	}
	acc := `// Code generated by /verif/harness/cmd/h_c18/instr. Read-only access for the C18 driver.
package tmutex

import "sync/atomic"

// VerifState returns the lock word, and the length and capacity of the wake-up channel.
func (m *Mutex) VerifState() (int32, int, int) { return atomic.LoadInt32(&m.v), len(m.ch), cap(m.ch) }

// VerifPoints lists the schedule points inserted into this build of tmutex.go.
const VerifPoints = "` + strings.Join(points, ",") + `"
`
	if err := os.WriteFile(os.Args[3], []byte(acc), 0o644); err != nil {
		die("%v", err)
	}
	fmt.Println(strings.Join(points, ","))
}
