// Package sched is the schedule-point runtime used by the INSTRUMENTED copy of
// pkg/tmutex/tmutex.go (generated at check time by ../instr, delivered through go build
// -overlay).  Every sync/atomic call, channel receive and channel send of the mutex is preceded
// by Point(id).  It contains no logic of the code under test.
//
// Modes:
//   Off        Point is a no-op.
//   Controlled exactly one goroutine runs at a time; Point parks the caller and hands control
//              back to the driver, which grants one step at a time (Step).
//   Stress     uncontrolled: Point yields the processor at pseudo-random times (search aid only).
package sched

import (
	"runtime"
	"sync/atomic"
	"time"
)

const (
	Off = iota
	Controlled
	Stress
)

var mode int32

// Thread is one client goroutine of a controlled run.
type Thread struct {
	ID      int
	Pos     int // id of the point the goroutine is parked at; 0 = finished
	OpIdx   int // index of the client program entry being executed (maintained by the driver)
	Held    bool
	Leaving bool // client is inside Unlock and has not yet been granted its first step
	Done    bool
	Call    int // API call the client is executing (0 none, 1 Lock, 2 TryLock, 3 Unlock); set by the client
	Steps   int // atomic steps granted inside the current call; reset by the client, counted by the driver
	grant   chan struct{}
}

// Run is one controlled execution.
type Run struct {
	cur    *Thread
	events chan *Thread
}

var active *Run

func SetMode(m int) { atomic.StoreInt32(&mode, int32(m)) }

func NewRun(nthreads int) *Run {
	r := &Run{events: make(chan *Thread, nthreads+4)}
	active = r
	return r
}

func (r *Run) NewThread(id int) *Thread { return &Thread{ID: id, grant: make(chan struct{}, 1)} }

// Start launches body as thread t and waits until it parks at its first point or finishes.
// Returns false if it does neither within the watchdog time.
func (r *Run) Start(t *Thread, body func(), watchdog time.Duration) bool {
	r.cur = t
	go func() {
		defer func() {
			t.Pos = 0
			t.Done = true
			r.events <- t
		}()
		body()
	}()
	return r.wait(t, watchdog)
}

// Step grants thread t its next atomic operation and waits until it parks again or finishes.
func (r *Run) Step(t *Thread, watchdog time.Duration) bool {
	r.cur = t
	t.grant <- struct{}{}
	return r.wait(t, watchdog)
}

func (r *Run) wait(t *Thread, watchdog time.Duration) bool {
	tm := time.NewTimer(watchdog)
	defer tm.Stop()
	select {
	case <-r.events:
		return true
	case <-tm.C:
		return false
	}
}

var stressCtr uint64

// Point is called by the instrumented code immediately before the operation with this id.
func Point(id int) {
	switch atomic.LoadInt32(&mode) {
	case Off:
		return
	case Stress:
		x := atomic.AddUint64(&stressCtr, 0x9E3779B97F4A7C15)
		x ^= x >> 29
		x *= 0xBF58476D1CE4E5B9
		x ^= x >> 32
		if x&1 == 0 {
			runtime.Gosched()
		}
		if x&0xff == 7 {
			time.Sleep(time.Microsecond)
		}
		return
	}
	r := active
	t := r.cur
	t.Pos = id
	r.events <- t
	<-t.grant
}

// PI32 is the identity on its pointer argument after passing schedule point id.
func PI32(id int, p *int32) *int32 { Point(id); return p }

// PCh is the identity on its channel argument after passing schedule point id.
func PCh(id int, c chan struct{}) chan struct{} { Point(id); return c }
