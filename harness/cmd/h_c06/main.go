// h_c06: every frame a real stack emits, captured at the link layer, with the scenario's identity.
// Output: one Coq term of type NP.Corr.C06.case per line.
//   CFrame scen link proto offload rdst rsrc expect chunks : one captured frame (link 0 = the
//          network-layer packet handed to a recording link endpoint together with the route's link
//          addresses; link 1 = an Ethernet frame read from the far end of a socketpair behind the
//          fdbased endpoint) and what the scenario knows about its addressing
//   CIds   : IPv4 headers of the consecutive packets of one flow
//   CRoute : Stack.FindRoute on a generated route table / NIC configuration
package main

import (
	"bufio"
	"encoding/binary"
	"flag"
	"fmt"
	"io"
	"log"
	"os"
	"sort"
	"strings"
	"syscall"
	"time"

	"aaverif/internal/gen"
	"aaverif/internal/netx"

	"github.com/brewlin/net-protocol/pkg/waiter"
	tcpip "github.com/brewlin/net-protocol/protocol"
	"github.com/brewlin/net-protocol/protocol/network/ipv4"
	"github.com/brewlin/net-protocol/protocol/network/ipv6"
	"github.com/brewlin/net-protocol/protocol/transport/ping"
	"github.com/brewlin/net-protocol/protocol/transport/tcp"
	"github.com/brewlin/net-protocol/protocol/transport/udp"
	"github.com/brewlin/net-protocol/stack"
)

var (
	stack4  = []byte{10, 0, 0, 1}
	peer4   = []byte{10, 0, 0, 2}
	stack6  = []byte{0xfe, 0x80, 0, 0, 0, 0, 0, 0, 0, 0, 0, 0, 0, 0, 0, 1}
	peer6   = []byte{0xfe, 0x80, 0, 0, 0, 0, 0, 0, 0, 0, 0, 0, 0, 0, 0, 2}
	nicMAC  = []byte{2, 0, 0, 0, 0, 1}
	peerMAC = []byte{2, 0, 0, 0, 0, 2}
	gwMAC   = []byte{2, 0, 0, 0, 0, 0xfe}
	bcast   = []byte{255, 255, 255, 255, 255, 255}
)

const (
	kPlain   = 0 // recording link, nothing to resolve
	kOffload = 1 // recording link that declares checksum offload
	kResolve = 2 // recording link with CapabilityResolutionRequired and a MAC
	kEth     = 3 // fdbased over a socketpair, resolution required
)

const wt = 2 * time.Second // upper bound of waits that end as soon as the expected frame arrives (generous: the machine may be loaded)

// env: one stack with one NIC and one peer.
type env struct {
	w            *world
	p            *port
	kind         int
	v6           bool
	stackA, peer []byte
	np           tcpip.NetworkProtocolNumber
	wire         tcpip.NetworkProtocolNumber
}

func newEnv(o *output, kind int, v6 bool, mtu uint32) *env {
	n := nicSpec{id: 1, mtu: mtu, a4: []string{string(stack4)}, a6: []string{string(stack6)}}
	switch kind {
	case kOffload:
		n.caps = stack.CapabilityChecksumOffload
	case kResolve:
		n.caps, n.mac = stack.CapabilityResolutionRequired, string(nicMAC)
	case kEth:
		n.caps, n.mac, n.eth = stack.CapabilityResolutionRequired, string(nicMAC), true
	}
	w := newWorld([]nicSpec{n}, defaultRoutes(1))
	e := &env{w: w, kind: kind, v6: v6, stackA: stack4, peer: peer4, np: ipv4.ProtocolNumber, wire: netx.ProtoIPv4}
	if v6 {
		e.stackA, e.peer, e.np, e.wire = stack6, peer6, ipv6.ProtocolNumber, netx.ProtoIPv6
	}
	var pm []byte
	if kind >= kResolve {
		pm = peerMAC
	}
	e.p = w.port(1, kind == kOffload, pm)
	if kind >= kResolve {
		e.prime(o)
	}
	return e
}

// prime lets the stack learn the peer's link address from the peer's own ARP request / neighbour
// solicitation; the answers are frames like any other.
func (e *env) prime(o *output) {
	if !e.v6 {
		e.p.inject(netx.ProtoARP, arpPacket(1, peerMAC, peer4, make([]byte, 6), stack4), bcast)
		e.p.wait(1, wt)
		e.p.flush(o, 8, "arp-reply", func(capFrame) expect {
			return expect{src: stack4, dst: peer4, tproto: 2, sport: -1, dport: -1, smac: nicMAC, dmac: peerMAC}
		})
	} else {
		sn := solicited(stack6)
		ns := ndp(peer6, sn, 135, 0, stack6, peerMAC, 1)
		e.p.inject(netx.ProtoIPv6, netx.IPv6Packet(peer6, sn, 58, 255, ns), []byte{0x33, 0x33, 0xff, 0, 0, 1})
		e.p.wait(1, wt)
		e.p.flush(o, 7, "ndp-advert", func(capFrame) expect {
			return expect{src: stack6, dst: peer6, tproto: 58, sport: -1, dport: -1, smac: nicMAC, dmac: peerMAC}
		})
	}
}

func (e *env) exp(tproto, sport, dport int) expect {
	x := expect{src: e.stackA, dst: e.peer, tproto: tproto, sport: sport, dport: dport}
	if e.kind >= kResolve {
		x.smac, x.dmac = nicMAC, peerMAC
	}
	return x
}

func (e *env) ipPacket(proto byte, payload []byte) []byte {
	if e.v6 {
		return netx.IPv6Packet(e.peer, e.stackA, proto, 64, payload)
	}
	return netx.IPv4Packet(e.peer, e.stackA, proto, 7, 0, 64, payload)
}

func (e *env) injectIP(proto byte, payload []byte) { e.p.inject(e.wire, e.ipPacket(proto, payload), nicMAC) }

func (e *env) close() { e.w.close() }

// ---------------------------------------------------------------- UDP

func udpSizes(r *gen.Rng, v6, big bool) []int {
	s := []int{0, 1, 2, 3, 8, 9, 41, 40, 2*r.Intn(300) + 1, 2 * r.Intn(300), 1472, 1473}
	if big {
		if v6 {
			s = append(s, 65527, 65526, 65528)
		} else {
			s = append(s, 65507, 65506, 65508)
		}
	}
	return s
}

func scenUDP(o *output, r *gen.Rng, kind int, v6, big bool) {
	mtu := uint32(1500)
	if big {
		mtu = 65535
	}
	e := newEnv(o, kind, v6, mtu)
	defer e.close()
	wq := &waiter.Queue{}
	ep, err := e.w.s.NewEndpoint(udp.ProtocolNumber, e.np, wq)
	if err != nil {
		panic(err.String())
	}
	defer ep.Close()
	lport, pport := 1024+r.Intn(60000), 1+r.Intn(65535)
	connected := r.Bool()
	if r.Bool() {
		if er := ep.Bind(tcpip.FullAddress{Port: uint16(lport)}, nil); er != nil {
			panic(er.String())
		}
	} else {
		lport = -1
	}
	to := &tcpip.FullAddress{NIC: 1, Addr: tcpip.Address(e.peer), Port: uint16(pport)}
	if connected {
		if er := ep.Connect(*to); er != nil {
			panic(er.String())
		}
		to = nil
	}
	var sent [][]byte
	for _, n := range udpSizes(r, v6, big) {
		_, ch, er := ep.Write(tcpip.SlicePayload(pattern(r, n)), tcpip.WriteOptions{To: to})
		if er == tcpip.ErrWouldBlock && ch != nil {
			<-ch
			_, _, er = ep.Write(tcpip.SlicePayload(pattern(r, n)), tcpip.WriteOptions{To: to})
		}
		if er != nil {
			fmt.Fprintf(o.w, "# udp write of %d bytes: %s\n", n, er.String())
		}
		e.p.wait(1, 20*time.Millisecond)
	}
	e.p.settle()
	if lport < 0 {
		if a, er := ep.GetLocalAddress(); er == nil && a.Port != 0 {
			lport = int(a.Port)
		}
	}
	tp := 17
	e.p.flush(o, 1, fmt.Sprintf("udp%d-k%d", map[bool]int{false: 4, true: 6}[v6], kind), func(capFrame) expect { return e.exp(tp, lport, pport) })
	_ = sent
	if !v6 {
		o.ids(12, e.p.packets())
	}
}

// ---------------------------------------------------------------- TCP

type peerOpts struct {
	mss      int // 0 = no MSS option
	ws       int // -1 = none
	ts, sack bool
}

func (po peerOpts) synBytes(tsval, tsecr uint32) []byte {
	var b []byte
	if po.mss > 0 {
		b = append(b, 2, 4, byte(po.mss>>8), byte(po.mss))
	}
	if po.sack {
		b = append(b, 4, 2)
	}
	if po.ts {
		b = append(b, 8, 10)
		b = binary.BigEndian.AppendUint32(b, tsval)
		b = binary.BigEndian.AppendUint32(b, tsecr)
	}
	if po.ws >= 0 {
		b = append(b, 3, 3, byte(po.ws))
	}
	for len(b)%4 != 0 {
		b = append(b, 1)
	}
	return b
}

// what the stack's own SYN / SYN-ACK offered
func parseOffer(o []byte) (ts, sack bool, tsval uint32) {
	for i := 0; i < len(o); {
		switch o[i] {
		case 0:
			return
		case 1:
			i++
			continue
		}
		if i+1 >= len(o) || o[i+1] < 2 || i+int(o[i+1]) > len(o) {
			return
		}
		switch o[i] {
		case 8:
			ts = true
			if o[i+1] == 10 {
				tsval = binary.BigEndian.Uint32(o[i+2:])
			}
		case 4:
			sack = true
		}
		i += int(o[i+1])
	}
	return
}

type tcpPeer struct {
	e            *env
	lport, pport uint16
	seq          uint32 // peer's next sequence number
	ack          uint32 // next byte expected from the stack
	haveAck      bool
	ts           bool
	tsclock      uint32
	lastTS       uint32
}

func (t *tcpPeer) segOpts() []byte {
	if !t.ts {
		return nil
	}
	t.tsclock++
	b := []byte{1, 1, 8, 10}
	b = binary.BigEndian.AppendUint32(b, t.tsclock)
	return binary.BigEndian.AppendUint32(b, t.lastTS)
}

func (t *tcpPeer) send(s netx.TCPSeg) {
	s.SrcPort, s.DstPort = t.pport, t.lport
	t.e.injectIP(6, netx.TCPBytes(t.e.peer, t.e.stackA, s))
}

// take parses the TCP segments among fs, tracking the stack's sequence space and timestamps.
func (t *tcpPeer) take(fs []capFrame) []netx.TCPSeg {
	var out []netx.TCPSeg
	for _, f := range fs {
		var pl []byte
		if f.proto == netx.ProtoIPv4 {
			i, ok := netx.ParseIPv4(f.pkt)
			if !ok || i.Proto != 6 {
				continue
			}
			pl = i.Payload
		} else if f.proto == netx.ProtoIPv6 && len(f.pkt) >= 40 && f.pkt[6] == 6 {
			pl = f.pkt[40:]
		} else {
			continue
		}
		s, ok := netx.ParseTCP(pl)
		if !ok {
			continue
		}
		if _, _, v := parseOffer(s.Opts); v != 0 {
			t.lastTS = v
		}
		end := s.Seq + uint32(len(s.Payload))
		if s.Flags&(netx.FlagSyn|netx.FlagFin) != 0 {
			end++
		}
		if !t.haveAck || int32(end-t.ack) > 0 {
			t.ack, t.haveAck = end, true
		}
		out = append(out, s)
	}
	return out
}

// waitPayload waits until n payload bytes were seen (or the time-out) and returns the segments.
func (t *tcpPeer) waitPayload(n int, d time.Duration) []netx.TCPSeg {
	var got []netx.TCPSeg
	dl := time.Now().Add(d)
	tot := 0
	for tot < n && time.Now().Before(dl) {
		for _, s := range t.take(t.e.p.wait(1, 5*time.Millisecond)) {
			tot += len(s.Payload)
			got = append(got, s)
		}
	}
	return got
}

type tcpCfg struct {
	long      bool
	kind      int
	v6        bool
	po        peerOpts
	stackSack bool
	abort     bool
	mtu       uint32
}

// after the handshake: data both ways, out-of-order data (SACK blocks), close or abort
func (t *tcpPeer) exercise(r *gen.Rng, ep tcpip.Endpoint, cfg tcpCfg) {
	e := t.e
	// the application writes; the peer acknowledges
	writes := []int{2*r.Intn(5) + 1, 2 * (1 + r.Intn(400))}
	islands := uint32(1)
	if cfg.long {
		writes = []int{1 + r.Intn(9), 2 * (1 + r.Intn(400)), 2*r.Intn(700) + 1, 3000 + r.Intn(2000)}
		islands = 3
	}
	if r.Intn(2) == 0 {
		// more islands than a SACK option can carry (4 blocks, 3 next to a timestamp option)
		islands = 4 + uint32(r.Intn(3))
	}
	for _, n := range writes {
		if _, _, er := ep.Write(tcpip.SlicePayload(pattern(r, n)), tcpip.WriteOptions{}); er != nil {
			break
		}
		t.waitPayload(n, 150*time.Millisecond)
		t.send(netx.TCPSeg{Seq: t.seq, Ack: t.ack, Flags: netx.FlagAck, Wnd: 60000, Opts: t.segOpts()})
		t.take(e.p.wait(1, 2*time.Millisecond))
	}
	// in-order data from the peer: the stack acknowledges
	d := pattern(r, 1+r.Intn(200))
	t.send(netx.TCPSeg{Seq: t.seq, Ack: t.ack, Flags: netx.FlagAck | netx.FlagPsh, Wnd: 60000, Opts: t.segOpts(), Payload: d})
	t.seq += uint32(len(d))
	t.take(e.p.wait(1, wt))
	// out-of-order data: two islands, then a third, then the first hole is filled
	hole := uint32(10 + r.Intn(50))
	for k := uint32(0); k < islands; k++ {
		isl := pattern(r, 5+r.Intn(40))
		t.send(netx.TCPSeg{Seq: t.seq + hole + k*200, Ack: t.ack, Flags: netx.FlagAck, Wnd: 60000, Opts: t.segOpts(), Payload: isl})
		t.take(e.p.wait(1, wt))
	}
	fill := pattern(r, int(hole))
	t.send(netx.TCPSeg{Seq: t.seq, Ack: t.ack, Flags: netx.FlagAck, Wnd: 60000, Opts: t.segOpts(), Payload: fill})
	t.take(e.p.wait(1, wt))
	if cfg.abort {
		// unread data in the receive buffer: Close aborts the connection with a RST
		ep.Close()
		t.take(e.p.wait(1, wt))
		return
	}
	// read everything, orderly close from the stack's side, then the peer's FIN
	for {
		if _, _, er := ep.Read(nil); er != nil {
			break
		}
	}
	ep.Shutdown(tcpip.ShutdownWrite)
	fs := t.take(e.p.wait(1, wt))
	_ = fs
	t.send(netx.TCPSeg{Seq: t.seq, Ack: t.ack, Flags: netx.FlagAck | netx.FlagFin, Wnd: 60000, Opts: t.segOpts()})
	t.seq++
	t.take(e.p.wait(1, wt))
	ep.Close()
}

func scenTCPActive(o *output, r *gen.Rng, cfg tcpCfg) {
	e := newEnv(o, cfg.kind, cfg.v6, cfg.mtu)
	defer e.close()
	e.w.s.SetTransportProtocolOption(tcp.ProtocolNumber, tcp.SACKEnabled(cfg.stackSack))
	wq := &waiter.Queue{}
	ep, err := e.w.s.NewEndpoint(tcp.ProtocolNumber, e.np, wq)
	if err != nil {
		panic(err.String())
	}
	t := &tcpPeer{e: e, pport: uint16(1 + r.Intn(65535)), seq: r.U32()}
	if er := ep.Connect(tcpip.FullAddress{NIC: 1, Addr: tcpip.Address(e.peer), Port: t.pport}); er != tcpip.ErrConnectStarted {
		fmt.Fprintf(o.w, "# connect: %v\n", er)
		return
	}
	syn := t.take(e.p.wait(1, wt))
	kind := fmt.Sprintf("tcp-active-k%d", cfg.kind)
	done := func() {
		e.p.settle()
		lp, pp := int(t.lport), int(t.pport)
		if t.lport == 0 {
			lp = -1
		}
		e.p.flush(o, 2, kind, func(capFrame) expect { return e.exp(6, lp, pp) })
		if !cfg.v6 {
			o.ids(12, e.p.packets())
		}
	}
	defer done()
	if len(syn) != 1 || syn[0].Flags != netx.FlagSyn {
		fmt.Fprintf(o.w, "# active open: expected one SYN, got %d segments %+v\n", len(syn), cfg)
		return
	}
	t.lport = syn[0].SrcPort
	offTS, offSack, tsv := parseOffer(syn[0].Opts)
	po := cfg.po
	po.ts = po.ts && offTS
	po.sack = po.sack && offSack
	t.ts = po.ts
	t.lastTS = tsv
	t.tsclock = r.U32()
	t.send(netx.TCPSeg{Seq: t.seq, Ack: t.ack, Flags: netx.FlagSyn | netx.FlagAck, Wnd: 60000, Opts: po.synBytes(t.tsclock, tsv)})
	t.seq++
	ack := t.take(e.p.wait(1, wt))
	if len(ack) != 1 || ack[0].Flags != netx.FlagAck {
		fmt.Fprintf(o.w, "# active open: expected the final ACK, got %d segments %v %+v\n", len(ack), ack, cfg)
		return
	}
	t.exercise(r, ep, cfg)
}

func scenTCPPassive(o *output, r *gen.Rng, cfg tcpCfg) {
	e := newEnv(o, cfg.kind, cfg.v6, cfg.mtu)
	defer e.close()
	e.w.s.SetTransportProtocolOption(tcp.ProtocolNumber, tcp.SACKEnabled(cfg.stackSack))
	wq := &waiter.Queue{}
	lep, err := e.w.s.NewEndpoint(tcp.ProtocolNumber, e.np, wq)
	if err != nil {
		panic(err.String())
	}
	defer lep.Close()
	t := &tcpPeer{e: e, lport: uint16(1024 + r.Intn(60000)), pport: uint16(1 + r.Intn(65535)), seq: r.U32()}
	if er := lep.Bind(tcpip.FullAddress{Port: t.lport}, nil); er != nil {
		panic(er.String())
	}
	if er := lep.Listen(10); er != nil {
		panic(er.String())
	}
	kind := fmt.Sprintf("tcp-passive-k%d", cfg.kind)
	defer func() {
		e.p.settle()
		e.p.flush(o, 3, kind, func(capFrame) expect { return e.exp(6, int(t.lport), int(t.pport)) })
		if !cfg.v6 {
			o.ids(12, e.p.packets())
		}
	}()
	t.tsclock = r.U32()
	t.ts = cfg.po.ts
	t.send(netx.TCPSeg{Seq: t.seq, Flags: netx.FlagSyn, Wnd: 60000, Opts: cfg.po.synBytes(t.tsclock, 0)})
	t.seq++
	sa := t.take(e.p.wait(1, wt))
	if len(sa) != 1 || sa[0].Flags != netx.FlagSyn|netx.FlagAck {
		fmt.Fprintf(o.w, "# passive open: expected a SYN-ACK, got %d segments\n", len(sa))
		return
	}
	offTS, _, _ := parseOffer(sa[0].Opts)
	t.ts = t.ts && offTS
	t.send(netx.TCPSeg{Seq: t.seq, Ack: t.ack, Flags: netx.FlagAck, Wnd: 60000, Opts: t.segOpts()})
	var ep tcpip.Endpoint
	dl := time.Now().Add(wt)
	for ep == nil && time.Now().Before(dl) {
		if x, _, er := lep.Accept(); er == nil {
			ep = x
		} else {
			time.Sleep(100 * time.Microsecond)
		}
	}
	if ep == nil {
		fmt.Fprintf(o.w, "# passive open: nothing to accept\n")
		return
	}
	t.exercise(r, ep, cfg)
}

// segments for which no socket exists: the stack answers with a RST (replyWithReset)
func scenRST(o *output, r *gen.Rng, kind int, v6 bool) {
	e := newEnv(o, kind, v6, 1500)
	defer e.close()
	t := &tcpPeer{e: e}
	for i := 0; i < 6; i++ {
		t.lport, t.pport = uint16(1+r.Intn(65535)), uint16(1+r.Intn(65535))
		flags := []byte{netx.FlagSyn, netx.FlagAck, netx.FlagAck | netx.FlagPsh, netx.FlagFin | netx.FlagAck, netx.FlagSyn | netx.FlagAck, netx.FlagFin}[i]
		var pl []byte
		if flags&netx.FlagPsh != 0 {
			pl = pattern(r, 1+r.Intn(30))
		}
		t.send(netx.TCPSeg{Seq: r.U32(), Ack: r.U32(), Flags: flags, Wnd: 1000, Payload: pl})
		e.p.wait(1, wt)
		lp, pp := int(t.lport), int(t.pport)
		e.p.flush(o, 4, fmt.Sprintf("tcp-rst-k%d", kind), func(capFrame) expect { return e.exp(6, lp, pp) })
	}
}

// ---------------------------------------------------------------- ICMP echo, NDP, ARP

func scenEcho(o *output, r *gen.Rng, kind int, v6 bool) {
	e := newEnv(o, kind, v6, 1500)
	defer e.close()
	for _, n := range []int{0, 1, 2, 3, 56, 57, 2 * r.Intn(600), 2*r.Intn(600) + 1} {
		id, seq := uint16(r.Intn(65536)), uint16(r.Intn(65536))
		if v6 {
			e.injectIP(58, icmp6Echo(e.peer, e.stackA, 128, id, seq, pattern(r, n)))
		} else {
			e.injectIP(1, icmp4Echo(8, id, seq, pattern(r, n)))
		}
		e.p.wait(1, wt)
	}
	tp, sc, k := 1, 5, "icmp4-echo"
	if v6 {
		tp, sc, k = 58, 6, "icmp6-echo"
	}
	e.p.flush(o, sc, fmt.Sprintf("%s-k%d", k, kind), func(capFrame) expect { return e.exp(tp, -1, -1) })
}

// the stack itself resolves a neighbour: ARP request / neighbour solicitation, then the datagram
// goes to the resolved link address; with a gateway route the next hop is resolved, not the destination
func scenResolve(o *output, r *gen.Rng, eth, v6, viaGw, alt bool) {
	n := nicSpec{id: 1, caps: stack.CapabilityResolutionRequired, mac: string(nicMAC), eth: eth,
		a4: []string{string(stack4)}, a6: []string{string(stack6)}}
	routes := defaultRoutes(1)
	dst, hop, hopMAC := peer4, peer4, peerMAC
	stackA, np := stack4, ipv4.ProtocolNumber
	if v6 {
		dst, hop, stackA, np = peer6, peer6, stack6, ipv6.ProtocolNumber
	}
	if alt {
		// another on-link neighbour with its own link address
		if v6 {
			a := append([]byte(nil), peer6...)
			a[13], a[14], a[15] = byte(r.Intn(256)), byte(r.Intn(256)), byte(3+r.Intn(250))
			dst, hop = a, a
		} else {
			a := []byte{10, 0, byte(r.Intn(256)), byte(3 + r.Intn(250))}
			dst, hop = a, a
		}
		hopMAC = []byte{2, 0, 0, byte(r.Intn(256)), byte(r.Intn(256)), byte(3 + r.Intn(250))}
	}
	if viaGw {
		dst, hop, hopMAC = []byte{8, 8, 4, 4}, []byte{10, 0, 0, 254}, gwMAC
		routes = []tcpip.Route{{Destination: "\x0a\x00\x00\x00", Mask: "\xff\xff\xff\x00", NIC: 1},
			{Destination: tcpip.Address(zero4), Mask: tcpip.AddressMask(zero4), Gateway: tcpip.Address(hop), NIC: 1}}
	}
	w := newWorld([]nicSpec{n}, routes)
	defer w.close()
	p := w.port(1, false, hopMAC)
	wq := &waiter.Queue{}
	ep, err := w.s.NewEndpoint(udp.ProtocolNumber, np, wq)
	if err != nil {
		panic(err.String())
	}
	defer ep.Close()
	pport := 1 + r.Intn(65535)
	to := &tcpip.FullAddress{NIC: 1, Addr: tcpip.Address(dst), Port: uint16(pport)}
	payload := pattern(r, 1+r.Intn(100))
	_, ch, er := ep.Write(tcpip.SlicePayload(payload), tcpip.WriteOptions{To: to})
	if er != tcpip.ErrWouldBlock || ch == nil {
		fmt.Fprintf(o.w, "# resolve: first write returned %v\n", er)
	}
	p.wait(1, wt)
	link := map[bool]string{false: "link", true: "eth"}[eth]
	if v6 {
		p.flush(o, 10, "ndp-solicit-"+link, func(capFrame) expect {
			// on a bare link endpoint the request's throw-away route carries no local link address
			x := expect{src: stackA, dst: solicited(hop), tproto: 58, sport: -1, dport: -1, dmac: bcast}
			if eth {
				x.smac = nicMAC
			}
			return x
		})
		na := ndp(hop, stackA, 136, 0x60, hop, hopMAC, 2)
		p.inject(netx.ProtoIPv6, netx.IPv6Packet(hop, stackA, 58, 255, na), nicMAC)
	} else {
		p.flush(o, 9, "arp-request-"+link, func(capFrame) expect {
			x := expect{src: stackA, dst: hop, tproto: 1, sport: -1, dport: -1, dmac: bcast}
			if eth {
				x.smac = nicMAC
			}
			return x
		})
		p.inject(netx.ProtoARP, arpPacket(2, hopMAC, hop, nicMAC, stackA), nicMAC)
	}
	if ch != nil {
		select {
		case <-ch:
		case <-time.After(wt):
			fmt.Fprintf(o.w, "# resolve: no completion eth=%v v6=%v gw=%v\n", eth, v6, viaGw)
			if os.Getenv("C06_DEBUG") != "" {
				p.poll()
				for _, f := range p.all {
					fmt.Fprintf(os.Stderr, "  frame proto=%x len=%d printed=%v %v\n", f.proto, len(f.raw), f.printed, f.raw[:min(len(f.raw), 60)])
				}
			}
		}
	}
	for i := 0; i < 3; i++ {
		ep.Write(tcpip.SlicePayload(pattern(r, 1+r.Intn(100))), tcpip.WriteOptions{To: to})
		p.wait(1, 20*time.Millisecond)
	}
	p.settle()
	lp := -1
	if a, er := ep.GetLocalAddress(); er == nil {
		lp = int(a.Port)
	}
	p.flush(o, 9, "udp-resolved-"+link, func(capFrame) expect {
		return expect{src: stackA, dst: dst, tproto: 17, sport: lp, dport: pport, smac: nicMAC, dmac: hopMAC}
	})
}

// ---------------------------------------------------------------- several NICs and routes

func scenMultiNIC(o *output, r *gen.Rng) {
	a1, a2, a2b := "\x0a\x00\x00\x01", "\xc0\xa8\x01\x01", "\xc0\xa8\x01\x02"
	nics := []nicSpec{{id: 1, a4: []string{a1}}, {id: 2, a4: []string{a2, a2b}}}
	net10 := tcpip.Route{Destination: "\x0a\x00\x00\x00", Mask: "\xff\xff\xff\x00", NIC: 1}
	net192 := tcpip.Route{Destination: "\xc0\xa8\x00\x00", Mask: "\xff\xff\x00\x00", NIC: 2}
	def1 := tcpip.Route{Destination: tcpip.Address(zero4), Mask: tcpip.AddressMask(zero4), Gateway: "\x0a\x00\x00\xfe", NIC: 1}
	def2 := tcpip.Route{Destination: tcpip.Address(zero4), Mask: tcpip.AddressMask(zero4), Gateway: "\xc0\xa8\x01\xfe", NIC: 2}
	type probe struct {
		bind string // "" = unbound
		dst  string
		nic  tcpip.NICID // expected egress NIC, 0 = ErrNoRoute
		src  string
	}
	tables := []struct {
		routes []tcpip.Route
		probes []probe
	}{
		{[]tcpip.Route{net10, net192, def1}, []probe{
			{"", "\x0a\x00\x00\x09", 1, a1}, {"", "\xc0\xa8\x01\x4d", 2, a2}, {"", "\x08\x08\x08\x08", 1, a1},
			{a2b, "\xc0\xa8\x07\x07", 2, a2b}, {a2b, "\x0a\x00\x00\x09", 0, ""}}},
		// the first matching entry wins, not the longest prefix
		{[]tcpip.Route{def2, net10, net192}, []probe{
			{"", "\x0a\x00\x00\x09", 2, a2}, {"", "\xc0\xa8\x01\x4d", 2, a2}, {a1, "\x0a\x00\x00\x09", 1, a1}}},
		// no default route
		{[]tcpip.Route{net192, net10}, []probe{
			{"", "\x08\x08\x08\x08", 0, ""}, {"", "\x0a\x00\x00\x63", 1, a1}, {"", "\xc0\xa8\xff\x01", 2, a2}}},
	}
	for _, tb := range tables {
		w := newWorld(nics, tb.routes)
		ports := map[tcpip.NICID]*port{1: w.port(1, false, nil), 2: w.port(2, false, nil)}
		for _, pr := range tb.probes {
			wq := &waiter.Queue{}
			ep, _ := w.s.NewEndpoint(udp.ProtocolNumber, ipv4.ProtocolNumber, wq)
			if pr.bind != "" {
				if er := ep.Bind(tcpip.FullAddress{Addr: tcpip.Address(pr.bind)}, nil); er != nil {
					panic(er.String())
				}
			}
			pport := 1 + r.Intn(65535)
			_, _, er := ep.Write(tcpip.SlicePayload(pattern(r, 1+r.Intn(80))), tcpip.WriteOptions{To: &tcpip.FullAddress{Addr: tcpip.Address(pr.dst), Port: uint16(pport)}})
			lp := -1
			if a, e2 := ep.GetLocalAddress(); e2 == nil && a.Port != 0 {
				lp = int(a.Port)
			}
			for id, p := range ports {
				p.poll()
				if id != pr.nic && len(p.all) > 0 && !p.all[len(p.all)-1].printed {
					// a frame on the wrong interface: print it with the expectation it violates
					p.flush(o, 11, "udp-multinic", func(capFrame) expect {
						return expect{src: []byte{0, 0, 0, 0}, dst: []byte(pr.dst), tproto: 17, sport: lp, dport: pport}
					})
				}
			}
			if pr.nic == 0 {
				if er != tcpip.ErrNoRoute {
					fmt.Fprintf(o.w, "# multinic: expected ErrNoRoute, got %v\n", er)
				}
				o.kinds["udp-noroute"]++
			} else {
				ports[pr.nic].flush(o, 11, "udp-multinic", func(capFrame) expect {
					return expect{src: []byte(pr.src), dst: []byte(pr.dst), tproto: 17, sport: lp, dport: pport}
				})
			}
			ep.Close()
		}
		w.close()
	}
}

// ---------------------------------------------------------------- consecutive packets of one flow

func scenIDs(o *output, r *gen.Rng) {
	e := newEnv(o, kPlain, false, 1500)
	defer e.close()
	wq := &waiter.Queue{}
	ep, _ := e.w.s.NewEndpoint(udp.ProtocolNumber, ipv4.ProtocolNumber, wq)
	defer ep.Close()
	pport := 1 + r.Intn(65535)
	ep.Connect(tcpip.FullAddress{NIC: 1, Addr: tcpip.Address(peer4), Port: uint16(pport)})
	// total length = 28 + n: 40 -> 68 (small), 41 -> 69 (large)
	for _, n := range []int{100, 41, 40, 200, 300, 10, 41, 0, 500, 1000, 39, 42} {
		ep.Write(tcpip.SlicePayload(pattern(r, n)), tcpip.WriteOptions{})
	}
	e.p.settle()
	lp := -1
	if a, er := ep.GetLocalAddress(); er == nil {
		lp = int(a.Port)
	}
	e.p.flush(o, 12, "udp-ids", func(capFrame) expect { return e.exp(17, lp, pport) })
	o.ids(12, e.p.packets())
}

// ---------------------------------------------------------------- the ping transport (echo requests)

func scenPing(o *output, r *gen.Rng, kind int, v6 bool) {
	e := newEnv(o, kind, v6, 1500)
	defer e.close()
	wq := &waiter.Queue{}
	tp := ping.ProtocolNumber4
	typ := byte(8)
	if v6 {
		tp, typ = ping.ProtocolNumber6, 128
	}
	ep, err := e.w.s.NewEndpoint(tp, e.np, wq)
	if err != nil {
		fmt.Fprintf(o.w, "# ping endpoint: %s\n", err.String())
		return
	}
	defer ep.Close()
	// data sizes after the 8-byte echo header: empty, odd and even, short and long (the IPv6
	// requests were sent without the pseudo-header in their checksum before /repo 65b8ba4)
	for _, n := range []int{0, 1, 2, 3, 8, 57, 56, 2*r.Intn(600) + 1, 2 * r.Intn(600), 1399 + r.Intn(2)} {
		b := make([]byte, 8+n)
		b[0] = typ
		binary.BigEndian.PutUint16(b[6:], uint16(r.Intn(65536)))
		copy(b[8:], pattern(r, n))
		to := &tcpip.FullAddress{NIC: 1, Addr: tcpip.Address(e.peer)}
		_, ch, er := ep.Write(tcpip.SlicePayload(b), tcpip.WriteOptions{To: to})
		if er == tcpip.ErrNoLinkAddress && ch != nil {
			select {
			case <-ch:
			case <-time.After(wt):
			}
			_, _, er = ep.Write(tcpip.SlicePayload(b), tcpip.WriteOptions{To: to})
		}
		if er != nil {
			fmt.Fprintf(o.w, "# ping write of %d bytes kind %d: %s\n", len(b), kind, er.String())
		}
		e.p.wait(1, 20*time.Millisecond)
	}
	e.p.settle()
	x := 1
	if v6 {
		x = 58
	}
	e.p.flush(o, 13, fmt.Sprintf("ping%d-k%d", map[bool]int{false: 4, true: 6}[v6], kind), func(capFrame) expect { return e.exp(x, -1, -1) })
}

// UDP datagrams whose checksum computes to zero: RFC 768 has them sent with 0xffff in the field
// (the code sent 0 = "no checksum" before /repo 723c609).  Per address family: the datagram named by
// the former known finding (10.0.0.1:4568 -> 10.0.0.2:5535, payload c4 60; over IPv6 the payload
// that does the same for these ports) and searched ones: random ports, a random payload of even or
// odd length in which two bytes at an even offset are solved for a one's-complement total of 0xffff.
func zeroSumPayload(r *gen.Rng, src, dst []byte, lport, pport, n int) []byte {
	pl := pattern(r, n)
	k := 0 // even offset of the two solved bytes
	if n > 3 {
		k = 2 * r.Intn((n-1)/2)
	}
	pl[k], pl[k+1] = 0, 0
	hdr := make([]byte, 8)
	binary.BigEndian.PutUint16(hdr[0:], uint16(lport))
	binary.BigEndian.PutUint16(hdr[2:], uint16(pport))
	binary.BigEndian.PutUint16(hdr[4:], uint16(8+n))
	s := netx.Sum16(append(hdr, pl...), netx.PseudoSum(src, dst, 17, 8+n))
	v := ^s // s + v = 0xffff
	pl[k], pl[k+1] = byte(v>>8), byte(v)
	if netx.Sum16(append(hdr, pl...), netx.PseudoSum(src, dst, 17, 8+n)) != 0xffff {
		panic("zeroSumPayload: the datagram does not sum to 0xffff")
	}
	return pl
}

func scenUDPZero(o *output, r *gen.Rng, kind int, v6 bool) {
	e := newEnv(o, kind, v6, 1500)
	defer e.close()
	type dgram struct {
		lport, pport int
		pl           []byte
	}
	ds := []dgram{{4568, 5535, nil}}
	if !v6 {
		ds[0].pl = []byte{0xc4, 0x60}
	} else {
		ds[0].pl = zeroSumPayload(r, e.stackA, e.peer, 4568, 5535, 2)
	}
	for _, n := range []int{2, 3, 2 * (2 + r.Intn(30)), 2*(2+r.Intn(30)) + 1, 1472} {
		lp, pp := 1024+r.Intn(60000), 1+r.Intn(65535)
		ds = append(ds, dgram{lp, pp, zeroSumPayload(r, e.stackA, e.peer, lp, pp, n)})
	}
	seen := map[string]bool{}
	for _, d := range ds {
		seen[fmt.Sprintf("%d/%d/%x", d.lport, d.pport, d.pl)] = true
		wq := &waiter.Queue{}
		ep, err := e.w.s.NewEndpoint(udp.ProtocolNumber, e.np, wq)
		if err != nil {
			panic(err.String())
		}
		if er := ep.Bind(tcpip.FullAddress{Port: uint16(d.lport)}, nil); er != nil {
			fmt.Fprintf(o.w, "# udp-zero bind %d: %s\n", d.lport, er.String())
			ep.Close()
			continue
		}
		if _, _, er := ep.Write(tcpip.SlicePayload(d.pl), tcpip.WriteOptions{To: &tcpip.FullAddress{NIC: 1, Addr: tcpip.Address(e.peer), Port: uint16(d.pport)}}); er != nil {
			fmt.Fprintf(o.w, "# udp-zero write: %s\n", er.String())
		}
		e.p.wait(1, 20*time.Millisecond)
		e.p.settle()
		lp, pp := d.lport, d.pport
		// what the code put into the checksum field (metadata only; the judgement is Coq's)
		for _, f := range e.p.all {
			if f.printed {
				continue
			}
			off := 20
			if v6 {
				off = 40
			}
			if len(f.pkt) >= off+8 {
				o.kinds[fmt.Sprintf("udp-zero-checksum-field-%04x", binary.BigEndian.Uint16(f.pkt[off+6:]))]++
			}
		}
		e.p.flush(o, 1, fmt.Sprintf("udp%d-zero-checksum-k%d", map[bool]int{false: 4, true: 6}[v6], kind), func(capFrame) expect { return e.exp(17, lp, pp) })
		ep.Close()
	}
	o.kinds[fmt.Sprintf("udp%d-zero-checksum-distinct-inputs", map[bool]int{false: 4, true: 6}[v6])] += len(seen)
}

// ---------------------------------------------------------------- FindRoute

func zl(s string) string { return netx.ZList([]byte(s)) }

func scenRoute(o *output, r *gen.Rng) {
	v6 := r.Intn(4) == 0
	pool4 := []string{"\x0a\x00\x00\x01", "\x0a\x00\x01\x01", "\xc0\xa8\x01\x01", "\xac\x10\x00\x05", "\x00\x00\x00\x00", "\xff\xff\xff\xff", "\x0a\x00\x00\x02"}
	p6 := func(a, b byte) string {
		x := make([]byte, 16)
		x[0], x[1], x[14], x[15] = 0xfe, a, 0, b
		return string(x)
	}
	pool6 := []string{p6(0x80, 1), p6(0x80, 2), p6(0xc0, 1)}
	type pfx struct{ d, m string }
	m6 := func(n int) string {
		x := make([]byte, 16)
		for i := 0; i < n; i++ {
			x[i] = 0xff
		}
		return string(x)
	}
	pf := []pfx{{zero4, zero4}, {"\x0a\x00\x00\x00", "\xff\xff\xff\x00"}, {"\x0a\x00\x00\x00", "\xff\x00\x00\x00"}, {"\xc0\xa8\x00\x00", "\xff\xff\x00\x00"},
		{"\x0a\x00\x00\x02", "\xff\xff\xff\xff"}, {"\xac\x10\x00\x00", "\xff\xf0\x00\x00"}, {"\x08\x00\x00\x00", "\x0f\x00\x00\x00"},
		{zero16, zero16}, {p6(0x80, 0), m6(2)}, {p6(0xc0, 0), m6(15)}}
	nn := 1 + r.Intn(3)
	var specs []nicSpec
	var nicsCoq []string
	for i := 1; i <= nn; i++ {
		n := nicSpec{id: tcpip.NICID(i)}
		k := r.Intn(4)
		var list []string
		seen := map[string]bool{}
		for j := 0; j < k; j++ {
			var a string
			if v6 {
				a = pool6[r.Intn(len(pool6))]
			} else {
				a = pool4[r.Intn(len(pool4))]
			}
			if seen[a] {
				continue
			}
			seen[a] = true
			list = append(list, a)
		}
		if v6 {
			n.a6 = list
		} else {
			n.a4 = list
		}
		specs = append(specs, n)
		var as []string
		for _, a := range list {
			as = append(as, zl(a))
		}
		nicsCoq = append(nicsCoq, fmt.Sprintf("mkNic %d [%s]", i, strings.Join(as, ";")))
	}
	var routes []tcpip.Route
	var tabCoq []string
	for i, k := 0, r.Intn(6); i < k; i++ {
		p := pf[r.Intn(len(pf))]
		gw := ""
		if r.Bool() {
			gw = string(r.Bytes(len(p.d)))
		}
		nic := 1 + r.Intn(nn+1) // sometimes a NIC that does not exist
		routes = append(routes, tcpip.Route{Destination: tcpip.Address(p.d), Mask: tcpip.AddressMask(p.m), Gateway: tcpip.Address(gw), NIC: tcpip.NICID(nic)})
		tabCoq = append(tabCoq, fmt.Sprintf("mkRE %s %s %s %d", zl(p.d), zl(p.m), zl(gw), nic))
	}
	w := newWorldNoSolicit(specs, routes)
	for q := 0; q < 4; q++ {
		var raddr, laddr string
		dsts4 := []string{"\x0a\x00\x00\x02", "\x0a\x00\x05\x05", "\xc0\xa8\x09\x09", "\x08\x08\x08\x08", "\xac\x1f\x00\x01", "\x18\x01\x01\x01"}
		dsts6 := []string{p6(0x80, 9), p6(0xc0, 0), p6(0x90, 1)}
		if v6 {
			raddr = dsts6[r.Intn(len(dsts6))]
		} else {
			raddr = dsts4[r.Intn(len(dsts4))]
		}
		if r.Intn(8) == 0 {
			raddr = ""
		}
		if r.Intn(3) == 0 {
			if v6 {
				laddr = pool6[r.Intn(len(pool6))]
			} else {
				laddr = pool4[r.Intn(len(pool4))]
			}
		}
		nicid := 0
		if r.Intn(3) == 0 {
			nicid = 1 + r.Intn(nn)
		}
		np := ipv4.ProtocolNumber
		if v6 {
			np = ipv6.ProtocolNumber
		}
		rt, er := w.s.FindRoute(tcpip.NICID(nicid), tcpip.Address(laddr), tcpip.Address(raddr), np)
		res := "NoRoute"
		if er == nil {
			res = fmt.Sprintf("(Found %d %s %s)", int(rt.NICID()), zl(string(rt.LocalAddress)), zl(string(rt.NextHop)))
			rt.Release()
			o.kinds["route-found"]++
		} else {
			o.kinds["route-none"]++
		}
		fmt.Fprintf(o.w, "CRoute [%s] [%s] %d %s %s %s\n", strings.Join(tabCoq, ";"), strings.Join(nicsCoq, ";"), nicid, zl(laddr), zl(raddr), res)
		o.n++
	}
}

// like newWorld but without the solicited-node addresses (the address lists are printed as given)
func newWorldNoSolicit(nics []nicSpec, routes []tcpip.Route) *world {
	var plain []nicSpec
	for _, n := range nics {
		m := n
		m.a6 = nil
		plain = append(plain, m)
	}
	w := newWorld(plain, routes)
	for _, n := range nics {
		for _, a := range n.a6 {
			if err := w.s.AddAddress(n.id, ipv6.ProtocolNumber, tcpip.Address(a)); err != nil {
				panic(err.String())
			}
		}
	}
	return w
}

// ---------------------------------------------------------------- main

func main() {
	log.SetOutput(io.Discard)
	seed := flag.Uint64("seed", 1, "seed")
	n := flag.Int("n", 1, "rounds of the randomised scenarios")
	routes := flag.Int("routes", 60, "FindRoute configurations per round")
	only := flag.String("only", "", "run only the scenarios whose name has this prefix (debugging)")
	flag.Parse()
	var rl syscall.Rlimit
	if syscall.Getrlimit(syscall.RLIMIT_NOFILE, &rl) == nil {
		rl.Cur = rl.Max
		syscall.Setrlimit(syscall.RLIMIT_NOFILE, &rl)
	}
	r := gen.New(*seed)
	o := &output{w: bufio.NewWriterSize(os.Stdout, 1<<20), kinds: map[string]int{}}
	defer o.w.Flush()

	guard := func(name string, f func()) {
		if *only != "" && !strings.HasPrefix(name, *only) {
			return
		}
		defer func() {
			if x := recover(); x != nil {
				fmt.Fprintf(o.w, "# PANIC in %s: %v\n", name, x)
				o.w.Flush()
				fmt.Fprintf(os.Stderr, "panic in scenario %s: %v\n", name, x)
				os.Exit(3)
			}
		}()
		f()
	}

	for round := 0; round < *n; round++ {
		first := round == 0
		// UDP: every link kind, both families; the 64 KiB boundary once per run
		for _, v6 := range []bool{false, true} {
			for _, k := range []int{kPlain, kOffload, kResolve, kEth} {
				v6, k := v6, k
				guard("udp", func() { scenUDP(o, r, k, v6, false) })
			}
			if first {
				v6 := v6
				guard("udp-big", func() { scenUDP(o, r, kPlain, v6, true) })
			}
		}
		guard("ids", func() { scenIDs(o, r) })
		// TCP: all 16 peer option combinations, active and passive, IPv4; a rotating subset on the
		// other link kinds and IPv6
		for c := 0; c < 16; c++ {
			po := peerOpts{ws: -1}
			if c&1 != 0 {
				po.mss = []int{536, 1460, 1200, 9000}[r.Intn(4)]
			}
			if c&2 != 0 {
				po.ws = []int{0, 2, 7, 14}[r.Intn(4)]
			}
			po.ts = c&4 != 0
			po.sack = c&8 != 0
			cfg := tcpCfg{kind: kPlain, po: po, stackSack: true, abort: c%5 == 4, mtu: 1500, long: (c+round)%4 == 0}
			// the SYN-ACK mirrors the peer's options: every combination; the stack's own SYN does
			// not depend on the peer, so the active side samples the TS/SACK combinations
			guard("tcp-passive", func() { scenTCPPassive(o, r, cfg) })
			if c == 0 || c == 5 || c == 6 || c == 9 || c == 12 || c == 15 {
				cfg.long = c >= 12
				guard("tcp-active", func() { scenTCPActive(o, r, cfg) })
			}
			if c%2 == 0 {
				alt := tcpCfg{kind: []int{kOffload, kResolve, kEth, kPlain}[(c/2+round)%4], v6: (c/4+round)%2 == 0, po: po, stackSack: c != 6, abort: c%5 == 2,
					mtu: []uint32{1500, 576, 9000}[(c/2+round)%3], long: c == 8}
				if (c/2)%2 == round%2 {
					guard("tcp-active-alt", func() { scenTCPActive(o, r, alt) })
				} else {
					guard("tcp-passive-alt", func() { scenTCPPassive(o, r, alt) })
				}
			}
		}
		for _, v6 := range []bool{false, true} {
			for _, k := range []int{kPlain, kEth} {
				v6, k := v6, k
				guard("rst", func() { scenRST(o, r, k, v6) })
				guard("echo", func() { scenEcho(o, r, k, v6) })
			}
			v6 := v6
			guard("echo-resolve", func() { scenEcho(o, r, kResolve, v6) })
			// echo requests of the ping transport; over IPv6 also through the fd-based link
			guard("ping", func() { scenPing(o, r, kPlain, v6) })
			if v6 {
				guard("ping-eth", func() { scenPing(o, r, kEth, v6) })
			}
			for _, eth := range []bool{false, true} {
				eth := eth
				// eth && v6: the neighbour solicitation through fdbased (source MAC was 00:00:00:00:00:00
				// before /repo 8cee966)
				guard("resolve", func() { scenResolve(o, r, eth, v6, false, false) })
				guard("resolve-alt", func() { scenResolve(o, r, eth, v6, false, true) })
			}
		}
		guard("resolve-gw", func() { scenResolve(o, r, false, false, true, false) })
		guard("resolve-gw-eth", func() { scenResolve(o, r, true, false, true, false) })
		guard("multinic", func() { scenMultiNIC(o, r) })
		for i := 0; i < *routes; i++ {
			guard("route", func() { scenRoute(o, r) })
		}
		guard("udp-zero", func() { scenUDPZero(o, r, kPlain, false) })
		guard("udp-zero6", func() { scenUDPZero(o, r, kPlain, true) })
		if first {
			guard("udp-zero-eth", func() { scenUDPZero(o, r, kEth, false) })
			guard("udp-zero6-eth", func() { scenUDPZero(o, r, kEth, true) })
		}
	}
	var ks []string
	for k := range o.kinds {
		ks = append(ks, k)
	}
	sort.Strings(ks)
	for _, k := range ks {
		fmt.Fprintf(o.w, "# kind %s: %d\n", k, o.kinds[k])
	}
	fmt.Fprintf(o.w, "# cases: %d\n", o.n)
}
