package main

import (
	"bufio"
	"bytes"
	"encoding/binary"
	"fmt"
	"strings"
	"syscall"
	"time"

	"aaverif/internal/gen"
	"aaverif/internal/netx"

	tcpip "github.com/brewlin/net-protocol/protocol"
	"github.com/brewlin/net-protocol/protocol/link/fdbased"
	"github.com/brewlin/net-protocol/protocol/network/arp"
	"github.com/brewlin/net-protocol/protocol/network/ipv4"
	"github.com/brewlin/net-protocol/protocol/network/ipv6"
	"github.com/brewlin/net-protocol/protocol/transport/ping"
	"github.com/brewlin/net-protocol/protocol/transport/tcp"
	"github.com/brewlin/net-protocol/protocol/transport/udp"
	"github.com/brewlin/net-protocol/stack"
)

// ---------------------------------------------------------------- output

type expect struct {
	src, dst     []byte
	tproto       int
	sport, dport int
	smac, dmac   []byte
}

func noExp() expect { return expect{tproto: -1, sport: -1, dport: -1} }

func zi(v int) string {
	if v < 0 {
		return fmt.Sprintf("(%d)", v)
	}
	return fmt.Sprintf("%d", v)
}

func (e expect) coq() string {
	return fmt.Sprintf("(mkExp %s %s %s %s %s %s %s)", netx.ZList(e.src), netx.ZList(e.dst), zi(e.tproto), zi(e.sport), zi(e.dport),
		netx.ZList(e.smac), netx.ZList(e.dmac))
}

// chunks prints b as a Coq list of chunks: runs of >= 24 bytes in arithmetic progression (mod 256)
// become (Run a d n), the rest literal.  The expansion is checked against b before printing.
func chunks(b []byte) string {
	type ck struct {
		raw     []byte
		a, d, n int
	}
	var cs []ck
	rawStart := 0
	flush := func(end int) {
		if end > rawStart {
			cs = append(cs, ck{raw: b[rawStart:end]})
		}
	}
	for i := 0; i < len(b); {
		if i+1 < len(b) {
			d := b[i+1] - b[i]
			j := i + 1
			for j+1 < len(b) && b[j+1]-b[j] == d {
				j++
			}
			if n := j - i + 1; n >= 24 {
				flush(i)
				cs = append(cs, ck{a: int(b[i]), d: int(d), n: n})
				i = j + 1
				rawStart = i
				continue
			}
		}
		i++
	}
	flush(len(b))
	// self-check
	var back []byte
	parts := make([]string, 0, len(cs))
	for _, c := range cs {
		if c.raw != nil {
			back = append(back, c.raw...)
			parts = append(parts, "Raw "+netx.ZList(c.raw))
		} else {
			v := byte(c.a)
			for k := 0; k < c.n; k++ {
				back = append(back, v)
				v += byte(c.d)
			}
			parts = append(parts, fmt.Sprintf("Run %d %d %d", c.a, c.d, c.n))
		}
	}
	if !bytes.Equal(back, b) {
		panic("chunk encoding does not expand to the captured bytes")
	}
	return "[" + strings.Join(parts, ";") + "]"
}

type output struct {
	w     *bufio.Writer
	kinds map[string]int
	n     int
}

func (o *output) frame(scen, link int, proto tcpip.NetworkProtocolNumber, offload bool, rdst, rsrc []byte, e expect, b []byte) {
	fmt.Fprintf(o.w, "CFrame %d %d %d %s %s %s %s %s\n", scen, link, int(proto), netx.B(offload), netx.ZList(rdst), netx.ZList(rsrc), e.coq(), chunks(b))
	o.n++
}

func (o *output) ids(scen int, frames [][]byte) {
	var hs []string
	for _, f := range frames {
		if len(f) >= 20 && f[0]>>4 == 4 {
			hs = append(hs, netx.ZList(f[:20]))
		}
	}
	if len(hs) == 0 {
		return
	}
	fmt.Fprintf(o.w, "CIds %d [%s]\n", scen, strings.Join(hs, ";"))
	o.kinds["ids"]++
	o.n++
}

// ---------------------------------------------------------------- payload patterns

// pattern returns n bytes: an arithmetic progression with random start and step (compressible),
// or, for short payloads half of the time, random bytes.
func pattern(r *gen.Rng, n int) []byte {
	b := make([]byte, n)
	if n <= 48 && r.Bool() {
		copy(b, r.Bytes(n))
		return b
	}
	a, d := byte(r.Intn(256)), byte(r.Intn(256))
	for i := range b {
		b[i] = a
		a += d
	}
	return b
}

// ---------------------------------------------------------------- worlds

type nicSpec struct {
	id   tcpip.NICID
	mtu  uint32
	caps stack.LinkEndpointCapabilities
	mac  string
	a4   []string
	a6   []string
	eth  bool // fdbased over a socketpair instead of the recording link
}

type world struct {
	s     *stack.Stack
	links map[tcpip.NICID]*netx.Link
	eth   map[tcpip.NICID]*ethPort
}

type ethPort struct {
	fdStack, fdPeer int
	mac             []byte
}

func solicited(a []byte) []byte {
	return append([]byte{0xff, 2, 0, 0, 0, 0, 0, 0, 0, 0, 0, 1, 0xff}, a[13:]...)
}

func newWorld(nics []nicSpec, routes []tcpip.Route) *world {
	s := stack.New([]string{ipv4.ProtocolName, ipv6.ProtocolName, arp.ProtocolName},
		[]string{tcp.ProtocolName, udp.ProtocolName, ping.ProtocolName4, ping.ProtocolName6}, stack.Options{})
	w := &world{s: s, links: map[tcpip.NICID]*netx.Link{}, eth: map[tcpip.NICID]*ethPort{}}
	for _, n := range nics {
		if n.mtu == 0 {
			n.mtu = 1500
		}
		var id tcpip.LinkEndpointID
		if n.eth {
			fds, err := syscall.Socketpair(syscall.AF_UNIX, syscall.SOCK_SEQPACKET, 0)
			if err != nil {
				panic(err)
			}
			syscall.SetNonblock(fds[1], true)
			// room for a burst of frames in the socket buffers
			syscall.SetsockoptInt(fds[0], syscall.SOL_SOCKET, syscall.SO_SNDBUF, 1<<20)
			syscall.SetsockoptInt(fds[1], syscall.SOL_SOCKET, syscall.SO_RCVBUF, 1<<20)
			id = fdbased.New(&fdbased.Options{FD: fds[0], MTU: n.mtu, Address: tcpip.LinkAddress(n.mac),
				ResolutionRequired: n.caps&stack.CapabilityResolutionRequired != 0,
				ChecksumOffload:    n.caps&stack.CapabilityChecksumOffload != 0})
			w.eth[n.id] = &ethPort{fdStack: fds[0], fdPeer: fds[1], mac: []byte(n.mac)}
		} else {
			var l *netx.Link
			id, l = netx.NewLink(n.mtu, n.caps, tcpip.LinkAddress(n.mac))
			w.links[n.id] = l
		}
		if err := s.CreateNIC(n.id, id); err != nil {
			panic(err.String())
		}
		for _, a := range n.a4 {
			if err := s.AddAddress(n.id, ipv4.ProtocolNumber, tcpip.Address(a)); err != nil {
				panic(err.String())
			}
		}
		for _, a := range n.a6 {
			if err := s.AddAddress(n.id, ipv6.ProtocolNumber, tcpip.Address(a)); err != nil {
				panic(err.String())
			}
			// neighbour solicitations are addressed to the solicited-node multicast group
			s.AddAddress(n.id, ipv6.ProtocolNumber, tcpip.Address(solicited([]byte(a))))
		}
		if n.caps&stack.CapabilityResolutionRequired != 0 {
			if err := s.AddAddress(n.id, arp.ProtocolNumber, arp.ProtocolAddress); err != nil {
				panic(err.String())
			}
		}
	}
	s.SetRouteTable(routes)
	return w
}

// close deliberately leaves the socketpairs open: the stack's dispatch goroutine cannot be stopped
// and would otherwise keep polling a descriptor number that a later world reuses (and steal its
// frames); a few hundred descriptors per run are within the limit raised in main.
func (w *world) close() {}

var zero4 = "\x00\x00\x00\x00"
var zero16 = string(make([]byte, 16))

func defaultRoutes(nic tcpip.NICID) []tcpip.Route {
	return []tcpip.Route{
		{Destination: tcpip.Address(zero4), Mask: tcpip.AddressMask(zero4), NIC: nic},
		{Destination: tcpip.Address(zero16), Mask: tcpip.AddressMask(zero16), NIC: nic},
	}
}

// ---------------------------------------------------------------- a port: where frames come out and go in

// port abstracts the two kinds of link: the recording link endpoint (network-layer packets plus the
// route's link addresses) and fdbased over a socketpair (Ethernet frames).
type port struct {
	w       *world
	nic     tcpip.NICID
	l       *netx.Link
	e       *ethPort
	offload bool
	peerMAC []byte
	all     []capFrame
}

type capFrame struct {
	proto      tcpip.NetworkProtocolNumber // EtherType
	pkt        []byte                      // network-layer packet
	raw        []byte                      // what was captured (Ethernet frame or the packet)
	rdst, rsrc []byte
	printed    bool
}

func (w *world) port(nic tcpip.NICID, offload bool, peerMAC []byte) *port {
	return &port{w: w, nic: nic, l: w.links[nic], e: w.eth[nic], offload: offload, peerMAC: peerMAC}
}

func (p *port) link() int {
	if p.e != nil {
		return 1
	}
	return 0
}

// poll moves newly emitted frames into p.all and returns how many arrived.
func (p *port) poll() int {
	n := 0
	if p.l != nil {
		for _, f := range p.l.Take() {
			p.all = append(p.all, capFrame{proto: f.Proto, pkt: f.Bytes, raw: f.Bytes, rdst: []byte(f.DstLink), rsrc: []byte(f.SrcLink)})
			n++
		}
		return n
	}
	buf := make([]byte, 70000)
	for {
		k, err := syscall.Read(p.e.fdPeer, buf)
		if err != nil || k <= 0 {
			return n
		}
		raw := append([]byte(nil), buf[:k]...)
		cf := capFrame{raw: raw}
		if k >= 14 {
			cf.proto = tcpip.NetworkProtocolNumber(binary.BigEndian.Uint16(raw[12:]))
			cf.pkt = raw[14:]
		}
		p.all = append(p.all, cf)
		n++
	}
}

// wait polls until at least n new frames arrived or d elapsed; returns the new frames.
func (p *port) wait(n int, d time.Duration) []capFrame {
	start := len(p.all)
	dl := time.Now().Add(d)
	for {
		p.poll()
		if len(p.all)-start >= n || time.Now().After(dl) {
			break
		}
		time.Sleep(100 * time.Microsecond)
	}
	return p.all[start:]
}

// settle waits a little for stragglers.
func (p *port) settle() { p.wait(1<<30, 3*time.Millisecond) }

// inject hands a network-layer packet from the peer to the stack.
func (p *port) inject(proto tcpip.NetworkProtocolNumber, pkt []byte, dstMAC []byte) {
	if p.l != nil {
		p.l.InjectFrom(proto, tcpip.LinkAddress(p.peerMAC), tcpip.LinkAddress(dstMAC), pkt)
		return
	}
	f := make([]byte, 14+len(pkt))
	copy(f[0:6], dstMAC)
	copy(f[6:12], p.peerMAC)
	binary.BigEndian.PutUint16(f[12:], uint16(proto))
	copy(f[14:], pkt)
	for i := 0; i < 2000; i++ {
		if _, err := syscall.Write(p.e.fdPeer, f); err == nil {
			return
		}
		time.Sleep(100 * time.Microsecond)
	}
}

// flush prints every captured frame not printed yet with the expectation ex computes for it.
func (p *port) flush(o *output, scen int, kind string, ex func(capFrame) expect) {
	for i := range p.all {
		f := &p.all[i]
		if f.printed {
			continue
		}
		f.printed = true
		o.frame(scen, p.link(), f.proto, p.offload, f.rdst, f.rsrc, ex(*f), f.raw)
		o.kinds[kind]++
	}
}

func (p *port) packets() [][]byte {
	var out [][]byte
	for _, f := range p.all {
		if f.proto == netx.ProtoIPv4 {
			out = append(out, f.pkt)
		}
	}
	return out
}

// ---------------------------------------------------------------- independent builders for inbound traffic

func icmp4Echo(typ byte, id, seq uint16, payload []byte) []byte {
	b := make([]byte, 8+len(payload))
	b[0] = typ
	binary.BigEndian.PutUint16(b[4:], id)
	binary.BigEndian.PutUint16(b[6:], seq)
	copy(b[8:], payload)
	binary.BigEndian.PutUint16(b[2:], ^netx.Sum16(b, 0))
	return b
}

func pseudo6(src, dst []byte, next byte, n int) uint32 {
	return netx.PseudoSum(src, dst, next, n)
}

func icmp6(src, dst []byte, body []byte) []byte {
	b := append([]byte(nil), body...)
	b[2], b[3] = 0, 0
	binary.BigEndian.PutUint16(b[2:], ^netx.Sum16(b, pseudo6(src, dst, 58, len(b))))
	return b
}

func icmp6Echo(src, dst []byte, typ byte, id, seq uint16, payload []byte) []byte {
	b := make([]byte, 8+len(payload))
	b[0] = typ
	binary.BigEndian.PutUint16(b[4:], id)
	binary.BigEndian.PutUint16(b[6:], seq)
	copy(b[8:], payload)
	return icmp6(src, dst, b)
}

// ndp builds a neighbour solicitation (135) / advertisement (136) with one link-layer address option.
func ndp(src, dst []byte, typ byte, flags byte, target, lla []byte, optType byte) []byte {
	b := make([]byte, 32)
	b[0] = typ
	b[4] = flags
	copy(b[8:24], target)
	b[24], b[25] = optType, 1
	copy(b[26:], lla)
	return icmp6(src, dst, b)
}

func arpPacket(op uint16, sha, spa, tha, tpa []byte) []byte {
	b := make([]byte, 28)
	b[1], b[2], b[4], b[5] = 1, 8, 6, 4
	binary.BigEndian.PutUint16(b[6:], op)
	copy(b[8:], sha)
	copy(b[14:], spa)
	copy(b[18:], tha)
	copy(b[24:], tpa)
	return b
}
