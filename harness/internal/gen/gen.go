// Package gen: one deterministic PRNG (splitmix64) from which every random choice of a driver
// is derived, so that a (seed, n) pair replays exactly.
package gen

type Rng struct{ s uint64 }

// New hashes the seed first: with s = seed*G + c and U64 adding G per draw, seed k would be seed 1's
// stream advanced by k-1 draws, and drivers whose cases consume a variable number of draws would
// re-synchronise across seeds.
func New(seed uint64) *Rng {
	r := &Rng{s: seed*0x9E3779B97F4A7C15 + 0x1234567}
	return &Rng{s: r.U64() ^ (seed << 32)}
}

func (r *Rng) U64() uint64 {
	r.s += 0x9E3779B97F4A7C15
	z := r.s
	z = (z ^ (z >> 30)) * 0xBF58476D1CE4E5B9
	z = (z ^ (z >> 27)) * 0x94D049BB133111EB
	return z ^ (z >> 31)
}
func (r *Rng) U32() uint32 { return uint32(r.U64() >> 32) }

// Intn returns a value in [0,n).
func (r *Rng) Intn(n int) int {
	if n <= 0 {
		return 0
	}
	return int(r.U64() % uint64(n))
}
func (r *Rng) Bool() bool { return r.U64()&1 == 1 }

// Pick32 returns a boundary value with probability 3/4, else a uniformly random one.
func (r *Rng) Pick32(boundary []uint32) uint32 {
	if r.Intn(4) != 0 {
		return boundary[r.Intn(len(boundary))]
	}
	return r.U32()
}
func (r *Rng) Bytes(n int) []byte {
	b := make([]byte, n)
	for i := range b {
		b[i] = byte(r.U64())
	}
	return b
}
