package tcpx

import (
	"fmt"

	"aaverif/internal/netx"
)

// The two deterministic byte streams of the TCP drivers.  Payloads that are slices of them are
// printed as the compact Coq terms (wp off len) / (pp off len) (functions defined in
// coq/Corr/TcpTrace.v that expand to the same byte lists), everything else as a literal list.

// WPat is byte number off of the stream the application writes.
func WPat(off int) byte { return byte(off*7 + off/251) }

// PPat is byte number off of the stream the scripted peer sends.
func PPat(off int) byte { return byte(off*13 + off/256 + 1) }

const patMax = 400000

var wIdx, pIdx map[uint32][]int32

func key(f func(int) byte, o int) uint32 {
	return uint32(f(o))<<24 | uint32(f(o+1))<<16 | uint32(f(o+2))<<8 | uint32(f(o+3))
}

func init() {
	wIdx, pIdx = map[uint32][]int32{}, map[uint32][]int32{}
	for o := 0; o < patMax; o++ {
		k := key(WPat, o)
		wIdx[k] = append(wIdx[k], int32(o))
		k = key(PPat, o)
		pIdx[k] = append(pIdx[k], int32(o))
	}
}

func find(b []byte, f func(int) byte, idx map[uint32][]int32) int {
	k := uint32(b[0])<<24 | uint32(b[1])<<16 | uint32(b[2])<<8 | uint32(b[3])
	for _, o := range idx[k] {
		ok := true
		for i := range b {
			if b[i] != f(int(o)+i) {
				ok = false
				break
			}
		}
		if ok {
			return int(o)
		}
	}
	return -1
}

// ZL prints bytes as a Coq term of type list Z.
func ZL(b []byte) string {
	if len(b) >= 6 {
		if o := find(b, WPat, wIdx); o >= 0 {
			return fmt.Sprintf("(wp %d %d)", o, len(b))
		}
		if o := find(b, PPat, pIdx); o >= 0 {
			return fmt.Sprintf("(pp %d %d)", o, len(b))
		}
	}
	return netx.ZList(b)
}
