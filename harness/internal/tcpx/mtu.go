package tcpx

import (
	"encoding/binary"

	"aaverif/internal/netx"

	"github.com/brewlin/net-protocol/protocol/transport/tcp"
)

// InjectFragNeeded delivers an ICMPv4 "destination unreachable / fragmentation needed" message
// naming next-hop MTU mtu for a packet of this connection (IPv4 connections only): the embedded
// original datagram is the stack's own IP header plus the first 8 bytes of its TCP header.
func (c *Conn) InjectFragNeeded(mtu uint16, seq uint32) bool {
	if c.Cfg.V6 {
		return false
	}
	if c.EP != nil && c.established {
		tcp.VerifTouch(c.EP)
	}
	c.N.L.Inject(netx.ProtoIPv4, c.fragNeeded(mtu, seq))
	return true
}

// InjectFragNeededBurst delivers several ICMP messages back to back (packets built beforehand), so
// that they are usually all recorded before the protocol goroutine, which has to be woken first,
// applies any of them: they collapse into one notification, as messages from two routers do.
func (c *Conn) InjectFragNeededBurst(seq uint32, mtus ...uint16) bool {
	if c.Cfg.V6 {
		return false
	}
	if c.EP != nil && c.established {
		tcp.VerifTouch(c.EP)
	}
	var pkts [][]byte
	for _, m := range mtus {
		pkts = append(pkts, c.fragNeeded(m, seq))
	}
	for _, p := range pkts {
		c.N.L.Inject(netx.ProtoIPv4, p)
	}
	return true
}

func (c *Conn) fragNeeded(mtu uint16, seq uint32) []byte {
	th := make([]byte, 8)
	binary.BigEndian.PutUint16(th[0:], c.LPort)
	binary.BigEndian.PutUint16(th[2:], PeerPort)
	binary.BigEndian.PutUint32(th[4:], seq)
	// the stack is the source of the original datagram, the scripted peer its destination
	orig := netx.IPv4Packet(c.dst, c.src, 6, 1, 0x4000, 63, th)
	// IPv4Packet sets the total length to header + 8; a router quotes the original length: fine
	icmp := make([]byte, 8, 8+len(orig))
	icmp[0], icmp[1] = 3, 4
	binary.BigEndian.PutUint16(icmp[6:], mtu)
	icmp = append(icmp, orig...)
	binary.BigEndian.PutUint16(icmp[2:], ^netx.Sum16(icmp, 0))
	return netx.IPv4Packet(c.src, c.dst, 1, 7, 0, 64, icmp)
}
