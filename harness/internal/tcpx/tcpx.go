// Package tcpx: an established TCP connection of the stack under test whose peer is the driver
// itself, advanced in lock step: after every event the driver waits until the protocol goroutine is
// parked (tcp.VerifQuiescent, an accessor added by the overlay), stops the runtime timers, and
// takes a snapshot of the protocol state and the frames emitted.  Time never produces an event by
// itself: retransmission time-outs are delivered with FireRTO.
package tcpx

import (
	"encoding/binary"
	"fmt"
	"runtime"
	"strings"
	"time"

	"aaverif/aadet"
	"aaverif/internal/netx"

	"github.com/brewlin/net-protocol/pkg/buffer"
	"github.com/brewlin/net-protocol/pkg/waiter"
	tcpip "github.com/brewlin/net-protocol/protocol"
	"github.com/brewlin/net-protocol/protocol/network/ipv4"
	"github.com/brewlin/net-protocol/protocol/network/ipv6"
	"github.com/brewlin/net-protocol/protocol/transport/tcp"
)

type Cfg struct {
	ISS, IRS       uint32
	PeerMSS        int  // MSS option in the peer's SYN-ACK (0 = none)
	PeerWS         int  // window-scale option of the peer (-1 = none)
	PeerTS         bool // peer agrees to timestamps
	PeerSACK       bool // peer agrees to SACK
	PeerWnd        uint16
	Cubic          bool // select the CUBIC congestion controller for the endpoint
	RcvBuf, SndBuf int // 0 = default
	MTU            uint32
	V6             bool
	Passive        bool // the stack accepts the connection instead of opening it
}

type Conn struct {
	N        *netx.Net
	EP       tcpip.Endpoint
	WQ       *waiter.Queue
	Cfg      Cfg
	ISS, IRS uint32
	SynOpts  []byte
	LPort    uint16
	src, dst []byte // peer address, stack address
	established bool
}

const PeerPort = 4321

var peer4 = []byte{10, 0, 0, 2}
var stack4 = []byte{10, 0, 0, 1}
var peer6 = []byte{0xfe, 0x80, 0, 0, 0, 0, 0, 0, 0, 0, 0, 0, 0, 0, 0, 2}
var stack6 = []byte{0xfe, 0x80, 0, 0, 0, 0, 0, 0, 0, 0, 0, 0, 0, 0, 0, 1}

func (c *Conn) wire(t netx.TCPSeg) []byte {
	t.SrcPort, t.DstPort = PeerPort, c.LPort
	b := netx.TCPBytes(c.src, c.dst, t)
	if c.Cfg.V6 {
		return netx.IPv6Packet(c.src, c.dst, 6, 64, b)
	}
	return netx.IPv4Packet(c.src, c.dst, 6, 1, 0, 64, b)
}

func (c *Conn) proto() tcpip.NetworkProtocolNumber {
	if c.Cfg.V6 {
		return netx.ProtoIPv6
	}
	return netx.ProtoIPv4
}

// InjectRaw hands a TCP segment from the peer to the stack.
func (c *Conn) InjectRaw(t netx.TCPSeg) {
	if c.EP != nil && c.established {
		tcp.VerifTouch(c.EP)
	}
	c.N.L.Inject(c.proto(), c.wire(t))
}

// Frames returns the TCP segments emitted since the last call.
func (c *Conn) Frames() []netx.TCPSeg {
	var out []netx.TCPSeg
	for _, f := range c.N.L.Take() {
		var p []byte
		if f.Proto == netx.ProtoIPv4 {
			i, ok := netx.ParseIPv4(f.Bytes)
			if !ok || i.Proto != 6 {
				continue
			}
			p = i.Payload
		} else if f.Proto == netx.ProtoIPv6 {
			if len(f.Bytes) < 40 || f.Bytes[6] != 6 {
				continue
			}
			p = f.Bytes[40:]
		} else {
			continue
		}
		if t, ok := netx.ParseTCP(p); ok {
			t.Payload = append([]byte(nil), t.Payload...)
			t.Opts = append([]byte(nil), t.Opts...)
			out = append(out, t)
		}
	}
	return out
}

func (c *Conn) waitFrames(n int, d time.Duration) []netx.TCPSeg {
	var got []netx.TCPSeg
	dl := time.Now().Add(d)
	for len(got) < n && time.Now().Before(dl) {
		got = append(got, c.Frames()...)
		if len(got) < n {
			time.Sleep(200 * time.Microsecond)
		}
	}
	return got
}

func synOptions(cfg Cfg, synHasTS, synHasSACK, synHasWS bool, tsval uint32) []byte {
	var o []byte
	if cfg.PeerMSS > 0 {
		o = append(o, 2, 4, byte(cfg.PeerMSS>>8), byte(cfg.PeerMSS))
	}
	if cfg.PeerWS >= 0 && synHasWS {
		o = append(o, 3, 3, byte(cfg.PeerWS), 1)
	}
	if cfg.PeerTS && synHasTS {
		o = append(o, 1, 1, 8, 10, 0, 0, 0, 1)
		o = binary.BigEndian.AppendUint32(o, tsval)
	}
	if cfg.PeerSACK && synHasSACK {
		o = append(o, 4, 2, 1, 1)
	}
	for len(o)%4 != 0 {
		o = append(o, 1)
	}
	return o
}

func optInfo(o []byte) (ts, sack, ws bool, tsval uint32) {
	for i := 0; i < len(o); {
		switch o[i] {
		case 0:
			return
		case 1:
			i++
			continue
		}
		if i+1 >= len(o) || o[i+1] < 2 || i+int(o[i+1]) > len(o) {
			return
		}
		switch o[i] {
		case 8:
			ts = true
			if o[i+1] == 10 {
				tsval = binary.BigEndian.Uint32(o[i+2:])
			}
		case 4:
			sack = true
		case 3:
			ws = true
		}
		i += int(o[i+1])
	}
	return
}

// Dial creates the stack, the endpoint and completes the three-way handshake with the scripted
// peer (active open by the stack, initial sequence number cfg.ISS through the deterministic
// crypto/rand reader).
func Dial(cfg Cfg) (*Conn, error) {
	if cfg.MTU == 0 {
		cfg.MTU = 1500
	}
	n := netx.NewNet(netx.Opts{MTU: cfg.MTU, Addr4: string(stack4), Addr6: string(stack6)})
	c := &Conn{N: n, Cfg: cfg, IRS: cfg.IRS}
	c.src, c.dst = peer4, stack4
	np := ipv4.ProtocolNumber
	if cfg.V6 {
		c.src, c.dst = peer6, stack6
		np = ipv6.ProtocolNumber
	}
	// let the small buffer sizes of the scripts really apply (the stack-wide minimum is 4096)
	n.S.SetTransportProtocolOption(tcp.ProtocolNumber, tcp.ReceiveBufferSizeOption{Min: 64, Default: tcp.DefaultBufferSize, Max: 4 << 20})
	n.S.SetTransportProtocolOption(tcp.ProtocolNumber, tcp.SendBufferSizeOption{Min: 64, Default: tcp.DefaultBufferSize, Max: 4 << 20})
	if cfg.Cubic {
		if e := n.S.SetTransportProtocolOption(tcp.ProtocolNumber, tcp.CongestionControlOption("cubic")); e != nil {
			return nil, fmt.Errorf("cubic: %s", e.String())
		}
	}
	c.WQ = &waiter.Queue{}
	ep, err := n.S.NewEndpoint(tcp.ProtocolNumber, np, c.WQ)
	if err != nil {
		return nil, fmt.Errorf("NewEndpoint: %s", err.String())
	}
	c.EP = ep
	if cfg.RcvBuf > 0 {
		ep.SetSockOpt(tcpip.ReceiveBufferSizeOption(cfg.RcvBuf))
	}
	if cfg.SndBuf > 0 {
		ep.SetSockOpt(tcpip.SendBufferSizeOption(cfg.SndBuf))
	}
	aadet.Queue(byte(cfg.ISS), byte(cfg.ISS>>8), byte(cfg.ISS>>16), byte(cfg.ISS>>24))
	if e := ep.Connect(tcpip.FullAddress{NIC: 1, Addr: tcpip.Address(c.src), Port: PeerPort}); e != tcpip.ErrConnectStarted {
		return nil, fmt.Errorf("Connect: %v", e)
	}
	fr := c.waitFrames(1, 3*time.Second)
	if len(fr) != 1 || fr[0].Flags != netx.FlagSyn {
		return nil, fmt.Errorf("expected one SYN, got %v", fr)
	}
	syn := fr[0]
	c.ISS, c.LPort, c.SynOpts = syn.Seq, syn.SrcPort, syn.Opts
	ts, sack, ws, tsval := optInfo(syn.Opts)
	c.InjectRaw(netx.TCPSeg{Seq: cfg.IRS, Ack: c.ISS + 1, Flags: netx.FlagSyn | netx.FlagAck, Wnd: cfg.PeerWnd,
		Opts: synOptions(cfg, ts, sack, ws, tsval)})
	fr = c.waitFrames(1, 3*time.Second)
	if len(fr) != 1 || fr[0].Flags != netx.FlagAck {
		return nil, fmt.Errorf("expected the final ACK, got %v", fr)
	}
	dl := time.Now().Add(3 * time.Second)
	for !(tcp.VerifSnapshot(ep).HasSndRcv && tcp.VerifSnapshot(ep).EState == 4 && tcp.VerifQuiescent(ep)) {
		if time.Now().After(dl) {
			return nil, fmt.Errorf("connection did not become established/quiescent")
		}
		time.Sleep(100 * time.Microsecond)
	}
	tcp.VerifStopTimers(ep)
	c.established = true
	return c, nil
}

// Sync waits until the protocol goroutine is parked; false if it does not happen within d.
func (c *Conn) Sync(d time.Duration) bool {
	dl := time.Now().Add(d)
	for i := 0; ; i++ {
		if tcp.VerifQuiescent(c.EP) {
			tcp.VerifStopTimers(c.EP)
			return true
		}
		if i%64 == 63 {
			if time.Now().After(dl) {
				return false
			}
			time.Sleep(20 * time.Microsecond)
		} else {
			runtime.Gosched()
		}
	}
}

func (c *Conn) Snap() tcp.VerifState { return tcp.VerifSnapshot(c.EP) }

// application calls ----------------------------------------------------------

// Write returns the number of bytes accepted or a negative error code (see Model/Tcp.v appWrite).
func (c *Conn) Write(b []byte) int {
	tcp.VerifTouch(c.EP)
	n, _, err := c.EP.Write(tcpip.SlicePayload(append([]byte(nil), b...)), tcpip.WriteOptions{})
	if err != nil && err != tcpip.ErrWouldBlock {
		switch err {
		case tcpip.ErrClosedForSend:
			return -1
		default:
			return -3
		}
	}
	if err == tcpip.ErrWouldBlock && n == 0 {
		return -2
	}
	return int(n)
}

// Read returns the bytes or a negative error code (see Model/Tcp.v appRead).
func (c *Conn) Read() ([]byte, int) {
	tcp.VerifTouch(c.EP)
	v, _, err := c.EP.Read(nil)
	if err != nil {
		switch err {
		case tcpip.ErrWouldBlock:
			return nil, -5
		case tcpip.ErrClosedForReceive:
			return nil, -6
		case tcpip.ErrInvalidEndpointState:
			return nil, -7
		default:
			return nil, -3
		}
	}
	return append([]byte(nil), buffer.View(v)...), 0
}

func (c *Conn) ShutdownWrite() int {
	tcp.VerifTouch(c.EP)
	if err := c.EP.Shutdown(tcpip.ShutdownWrite); err != nil {
		return -4
	}
	return 0
}

func (c *Conn) FireRTO() bool {
	tcp.VerifTouch(c.EP)
	return tcp.VerifFireRTO(c.EP)
}

// ---------------------------------------------------------------- printing as Coq terms

func z(v int64) string {
	if v < 0 {
		return fmt.Sprintf("(%d)", v)
	}
	return fmt.Sprintf("%d", v)
}

func wsegs(l []tcp.VerifWSeg, ctor string) string {
	var sb strings.Builder
	sb.WriteByte('[')
	for i, w := range l {
		if i > 0 {
			sb.WriteByte(';')
		}
		fmt.Fprintf(&sb, "%s %d %d %s", ctor, w.Seq, w.Flags, ZL(w.Data))
	}
	sb.WriteByte(']')
	return sb.String()
}

// EState codes of the Go endpoint (stateInitial.. ) mapped to the model's 0 connected / 1 closed / 2 error.
func estate(v tcp.VerifState) int {
	switch v.EState {
	case 4: // stateConnected
		return 0
	case 5: // stateClosed
		return 1
	case 6: // stateError
		return 2
	}
	return 9
}

// CoqState prints a snapshot as a term of type NP.Model.Tcp.tcp (field out = []).
func CoqState(v tcp.VerifState) string {
	rl := make([]string, len(v.RcvList))
	for i, b := range v.RcvList {
		rl[i] = ZL(b)
	}
	r := fmt.Sprintf("(mkRcvr %d %d %d %s %s %d %d)", v.RcvNxt, v.RcvAcc, v.RcvWndScale, netx.B(v.RClosed),
		wsegs(v.Pending, "mkP"), v.PendUsed, v.PendSize)
	wn := v.WriteNext
	s := fmt.Sprintf("(mkSndr %s %s %d %d %s %s %s %s %s %d %d %d %d %s %s %s %d %d %d %d %d %d)",
		z(int64(v.DupAck)), netx.B(v.FrActive), v.FrFirst, v.FrLast, z(int64(v.FrMaxCwnd)), z(int64(v.Cwnd)), z(int64(v.Ssthresh)),
		z(int64(v.CaCount)), z(int64(v.Outstanding)), v.SndWnd, v.SndUna, v.SndNxt, v.SndNxtList, netx.B(v.SClosed),
		wsegs(v.WriteList[:wn], "mkW"), wsegs(v.WriteList[wn:], "mkW"), v.TState, v.Rto, v.MaxPayload, v.SndWndScale, v.MaxSentAck, v.RttSeq)
	return fmt.Sprintf("(mkTcp %s %s [%s] %s %s %s %s %s %s %d %s [])", r, s, strings.Join(rl, ";"), z(int64(v.RcvBufUsed)), z(int64(v.RcvBufSize)),
		netx.B(v.RcvClosedE), z(int64(v.SndBufSize)), z(int64(v.SndBufUsed)), netx.B(v.SndClosedE), estate(v), netx.B(v.TsOk))
}

// CoqFrames prints emitted segments as a list of NP.Model.Tcp.frame.
func CoqFrames(fr []netx.TCPSeg) string {
	var sb strings.Builder
	sb.WriteByte('[')
	for i, f := range fr {
		if i > 0 {
			sb.WriteByte(';')
		}
		fmt.Fprintf(&sb, "mkF %d %d %d %d %s", f.Seq, f.Ack, f.Flags, f.Wnd, ZL(f.Payload))
	}
	sb.WriteByte(']')
	return sb.String()
}

// CoqSeg prints an inbound segment as NP.Model.Tcp.seg.
func CoqSeg(t netx.TCPSeg) string {
	ts, _, _, _ := optInfo(t.Opts)
	tsecr := false
	if ts {
		for i := 0; i+10 <= len(t.Opts); i++ {
			if t.Opts[i] == 8 && t.Opts[i+1] == 10 {
				tsecr = binary.BigEndian.Uint32(t.Opts[i+6:]) != 0
				break
			}
			if t.Opts[i] != 1 {
				break
			}
		}
	}
	return fmt.Sprintf("(mkSeg %d %d %d %d %s %s %s)", t.Seq, t.Ack, t.Flags, t.Wnd, ZL(t.Payload), netx.B(ts), netx.B(tsecr))
}

// OptInfo reports which SYN options an option block carries (timestamps, SACK-permitted, window scale).
func OptInfo(o []byte) (ts, sack, ws bool, tsval uint32) { return optInfo(o) }
