package tcpx

// Two REAL stacks joined by a driver-controlled network (used by harness/cmd/h_tcp2).
// Stack A (address stack4) opens a connection to stack B (address peer4), which listens.  Each
// stack has its own recording link; nothing crosses from one link to the other unless the driver
// copies it.  The three handshake packets are shuttled without loss (the handshake runs in real
// time inside handshake.execute and is outside the lock-step part); from then on every packet an
// endpoint emits is recorded with its index, and Deliver hands the other stack a byte-for-byte copy
// of the k-th packet emitted since establishment - any number of times, in any order, or never.

import (
	"fmt"
	"time"

	"aaverif/aadet"
	"aaverif/internal/netx"

	"github.com/brewlin/net-protocol/pkg/waiter"
	tcpip "github.com/brewlin/net-protocol/protocol"
	"github.com/brewlin/net-protocol/protocol/network/ipv4"
	"github.com/brewlin/net-protocol/protocol/transport/tcp"
)

type PairCfg struct {
	ISSA             uint32 // A's initial sequence number (through the deterministic crypto/rand reader)
	MTUA, MTUB       uint32 // link MTUs (0 = 1500)
	RcvBufA, SndBufA int    // 0 = default
	RcvBufB, SndBufB int    // RcvBufB is the listener's receive buffer (inherited by the accepted endpoint)
	SackA, SackB     bool   // stack-wide SACK option of each stack
}

// End is one endpoint of the pair together with everything it has emitted since establishment.
type End struct {
	*Conn
	Name    string
	Emitted []netx.TCPSeg // TCP segments emitted since establishment, oldest first
	Raw     [][]byte      // the IPv4 packets that carried them
}

type Pair struct {
	Cfg              PairCfg
	A, B             *End
	Listener         tcpip.Endpoint
	Syn, SynAck, Ack netx.TCPSeg // the handshake packets as they crossed the wire
	PortA, PortB     uint16
}

const pairPortB = 8080

func takeTCP(n *netx.Net) (segs []netx.TCPSeg, raw [][]byte) {
	for _, f := range n.L.Take() {
		if f.Proto != netx.ProtoIPv4 {
			continue
		}
		i, ok := netx.ParseIPv4(f.Bytes)
		if !ok || i.Proto != 6 {
			continue
		}
		t, ok := netx.ParseTCP(i.Payload)
		if !ok {
			continue
		}
		t.Payload = append([]byte(nil), t.Payload...)
		t.Opts = append([]byte(nil), t.Opts...)
		segs = append(segs, t)
		raw = append(raw, append([]byte(nil), f.Bytes...))
	}
	return
}

func waitTCP(n *netx.Net, want int, d time.Duration) (segs []netx.TCPSeg, raw [][]byte) {
	dl := time.Now().Add(d)
	for {
		s, r := takeTCP(n)
		segs, raw = append(segs, s...), append(raw, r...)
		if len(segs) >= want || time.Now().After(dl) {
			return
		}
		time.Sleep(100 * time.Microsecond)
	}
}

func newStack(addr []byte, mtu uint32, sack bool) *netx.Net {
	n := netx.NewNet(netx.Opts{MTU: mtu, Addr4: string(addr)})
	n.S.SetTransportProtocolOption(tcp.ProtocolNumber, tcp.ReceiveBufferSizeOption{Min: 64, Default: tcp.DefaultBufferSize, Max: 4 << 20})
	n.S.SetTransportProtocolOption(tcp.ProtocolNumber, tcp.SendBufferSizeOption{Min: 64, Default: tcp.DefaultBufferSize, Max: 4 << 20})
	n.S.SetTransportProtocolOption(tcp.ProtocolNumber, tcp.SACKEnabled(sack))
	return n
}

// DialPair builds the two stacks and completes the three-way handshake between them.
func DialPair(cfg PairCfg) (*Pair, error) {
	if cfg.MTUA == 0 {
		cfg.MTUA = 1500
	}
	if cfg.MTUB == 0 {
		cfg.MTUB = 1500
	}
	const wait = 20 * time.Second
	na := newStack(stack4, cfg.MTUA, cfg.SackA)
	nb := newStack(peer4, cfg.MTUB, cfg.SackB)
	p := &Pair{Cfg: cfg, PortB: pairPortB}

	// B listens
	lwq := &waiter.Queue{}
	lep, err := nb.S.NewEndpoint(tcp.ProtocolNumber, ipv4.ProtocolNumber, lwq)
	if err != nil {
		return nil, fmt.Errorf("NewEndpoint(B): %s", err.String())
	}
	if cfg.RcvBufB > 0 {
		lep.SetSockOpt(tcpip.ReceiveBufferSizeOption(cfg.RcvBufB))
	}
	if e := lep.Bind(tcpip.FullAddress{Port: pairPortB}, nil); e != nil {
		return nil, fmt.Errorf("Bind(B): %s", e.String())
	}
	if e := lep.Listen(4); e != nil {
		return nil, fmt.Errorf("Listen(B): %s", e.String())
	}
	p.Listener = lep
	// the listen loop reads its cookie nonces from crypto/rand when it starts: wait until it is parked,
	// so that the bytes queued below really become A's initial sequence number
	for dl := time.Now().Add(wait); !tcp.VerifSegWakerParked(lep); {
		if time.Now().After(dl) {
			return nil, fmt.Errorf("the listener did not start")
		}
		time.Sleep(50 * time.Microsecond)
	}

	// A connects
	awq := &waiter.Queue{}
	aep, err := na.S.NewEndpoint(tcp.ProtocolNumber, ipv4.ProtocolNumber, awq)
	if err != nil {
		return nil, fmt.Errorf("NewEndpoint(A): %s", err.String())
	}
	if cfg.RcvBufA > 0 {
		aep.SetSockOpt(tcpip.ReceiveBufferSizeOption(cfg.RcvBufA))
	}
	if cfg.SndBufA > 0 {
		aep.SetSockOpt(tcpip.SendBufferSizeOption(cfg.SndBufA))
	}
	aadet.ClearQueue()
	aadet.Queue(byte(cfg.ISSA), byte(cfg.ISSA>>8), byte(cfg.ISSA>>16), byte(cfg.ISSA>>24))
	if e := aep.Connect(tcpip.FullAddress{NIC: 1, Addr: tcpip.Address(peer4), Port: pairPortB}); e != tcpip.ErrConnectStarted {
		return nil, fmt.Errorf("Connect(A): %v", e)
	}
	// SYN: A -> B
	segs, raw := waitTCP(na, 1, wait)
	if len(segs) != 1 || segs[0].Flags != netx.FlagSyn {
		return nil, fmt.Errorf("expected one SYN from A, got %d segments", len(segs))
	}
	p.Syn, p.PortA = segs[0], segs[0].SrcPort
	nb.L.Inject(netx.ProtoIPv4, raw[0])
	// SYN-ACK: B -> A
	segs, raw = waitTCP(nb, 1, wait)
	if len(segs) != 1 || segs[0].Flags != netx.FlagSyn|netx.FlagAck {
		return nil, fmt.Errorf("expected one SYN-ACK from B, got %d segments", len(segs))
	}
	p.SynAck = segs[0]
	na.L.Inject(netx.ProtoIPv4, raw[0])
	// ACK: A -> B
	segs, raw = waitTCP(na, 1, wait)
	if len(segs) != 1 || segs[0].Flags != netx.FlagAck {
		return nil, fmt.Errorf("expected the final ACK from A, got %d segments", len(segs))
	}
	p.Ack = segs[0]
	nb.L.Inject(netx.ProtoIPv4, raw[0])
	aadet.ClearQueue()

	// B accepts
	var bep tcpip.Endpoint
	var bwq *waiter.Queue
	dl := time.Now().Add(wait)
	for {
		e, q, aerr := lep.Accept()
		if aerr == nil {
			bep, bwq = e, q
			break
		}
		if time.Now().After(dl) {
			return nil, fmt.Errorf("Accept(B): %s", aerr.String())
		}
		time.Sleep(100 * time.Microsecond)
	}
	if cfg.SndBufB > 0 {
		bep.SetSockOpt(tcpip.SendBufferSizeOption(cfg.SndBufB))
	}
	ca := &Conn{N: na, EP: aep, WQ: awq, ISS: p.Syn.Seq, IRS: p.SynAck.Seq, LPort: p.PortA, src: peer4, dst: stack4}
	cb := &Conn{N: nb, EP: bep, WQ: bwq, ISS: p.SynAck.Seq, IRS: p.Syn.Seq, LPort: pairPortB, src: stack4, dst: peer4}
	for _, c := range []*Conn{ca, cb} {
		dl := time.Now().Add(wait)
		for {
			v := tcp.VerifSnapshot(c.EP)
			if v.HasSndRcv && v.EState == 4 && v.WorkerRunning && tcp.VerifQuiescent(c.EP) {
				break
			}
			if time.Now().After(dl) {
				return nil, fmt.Errorf("an endpoint did not become established and quiescent")
			}
			time.Sleep(100 * time.Microsecond)
		}
		tcp.VerifStopTimers(c.EP)
		c.established = true
	}
	p.A = &End{Conn: ca, Name: "A"}
	p.B = &End{Conn: cb, Name: "B"}
	// nothing may have been emitted beyond the three handshake packets
	if s, _ := takeTCP(na); len(s) != 0 {
		return nil, fmt.Errorf("A emitted %d unexpected segments during establishment", len(s))
	}
	if s, _ := takeTCP(nb); len(s) != 0 {
		return nil, fmt.Errorf("B emitted %d unexpected segments during establishment", len(s))
	}
	return p, nil
}

// Collect moves the packets the endpoint's stack has emitted since the last call to Emitted and
// returns them.
func (e *End) Collect() []netx.TCPSeg {
	s, r := takeTCP(e.N)
	e.Emitted = append(e.Emitted, s...)
	e.Raw = append(e.Raw, r...)
	return s
}

// Deliver injects a copy of the k-th packet `from` has emitted since establishment into the other
// stack.  ok=false (nothing happens) if there is no such packet yet.
func (p *Pair) Deliver(from *End, k int) (seg netx.TCPSeg, ok bool) {
	if k < 0 || k >= len(from.Raw) {
		return seg, false
	}
	to := p.A
	if from == p.A {
		to = p.B
	}
	tcp.VerifTouch(to.EP)
	to.N.L.Inject(netx.ProtoIPv4, from.Raw[k])
	return from.Emitted[k], true
}

// Close releases both connections and the listener.
func (p *Pair) Close() {
	p.A.EP.Close()
	p.B.EP.Close()
	p.Listener.Close()
}

// TSFacts reports what the model's inbound-segment record says about a segment's timestamp option
// (exactly as CoqSeg computes it): ts = a timestamp option is present, tsecr = its echo value is
// non-zero.
func TSFacts(t netx.TCPSeg) (ts, tsecr bool) {
	ts, _, _, _ = optInfo(t.Opts)
	if ts {
		for i := 0; i+10 <= len(t.Opts); i++ {
			if t.Opts[i] == 8 && t.Opts[i+1] == 10 {
				tsecr = t.Opts[i+6] != 0 || t.Opts[i+7] != 0 || t.Opts[i+8] != 0 || t.Opts[i+9] != 0
				break
			}
			if t.Opts[i] != 1 {
				break
			}
		}
	}
	return
}

// SynOpts decodes the options of a SYN / SYN-ACK: MSS (0 = absent), window scale (-1 = absent),
// timestamps, SACK-permitted.
func SynOpts(o []byte) (mss, ws int, ts, sack bool) {
	ws = -1
	for i := 0; i < len(o); {
		switch o[i] {
		case 0:
			return
		case 1:
			i++
			continue
		}
		if i+1 >= len(o) || o[i+1] < 2 || i+int(o[i+1]) > len(o) {
			return
		}
		switch o[i] {
		case 2:
			if o[i+1] == 4 {
				mss = int(o[i+2])<<8 | int(o[i+3])
			}
		case 3:
			if o[i+1] == 3 {
				ws = int(o[i+2])
			}
		case 8:
			ts = true
		case 4:
			sack = true
		}
		i += int(o[i+1])
	}
	return
}
