// Package netx: shared implementation-side plumbing for the stack-level drivers: a recording link
// endpoint, a one-NIC (or several) stack factory, and raw frame builders/parsers that use only
// encoding/binary (NOT the repo's header package, so that the harness' view of the wire format is
// independent of the code under test).
package netx

import (
	"encoding/binary"
	"sync"

	_ "aaverif/aadet"

	"github.com/brewlin/net-protocol/pkg/buffer"
	tcpip "github.com/brewlin/net-protocol/protocol"
	"github.com/brewlin/net-protocol/protocol/network/arp"
	"github.com/brewlin/net-protocol/protocol/network/ipv4"
	"github.com/brewlin/net-protocol/protocol/network/ipv6"
	"github.com/brewlin/net-protocol/protocol/transport/tcp"
	"github.com/brewlin/net-protocol/protocol/transport/udp"
	"github.com/brewlin/net-protocol/stack"
)

// Frame is one packet handed to the link layer by the stack.
type Frame struct {
	Proto     tcpip.NetworkProtocolNumber
	Bytes     []byte // network-layer packet (header + payload), no link header
	DstLink   tcpip.LinkAddress
	SrcLink   tcpip.LinkAddress
	HdrChunks int
}

// Link is a LinkEndpoint that records every outbound packet synchronously inside WritePacket.
type Link struct {
	mu         sync.Mutex
	out        []Frame
	dispatcher stack.NetworkDispatcher
	Mtu        uint32
	Caps       stack.LinkEndpointCapabilities
	Addr       tcpip.LinkAddress
	MaxHdr     uint16
	OnFrame    func(Frame) // optional, called inside WritePacket
	// Retain makes the link behave like the repository's channel endpoint, which queues
	// hdr.View() and payload.ToView() without copying the header: TakeLate then reads the
	// retained buffers when it is called, not when the packet was written.
	Retain bool
	refs   [][2][]byte
}

func NewLink(mtu uint32, caps stack.LinkEndpointCapabilities, addr tcpip.LinkAddress) (tcpip.LinkEndpointID, *Link) {
	l := &Link{Mtu: mtu, Caps: caps, Addr: addr}
	return stack.RegisterLinkEndpoint(l), l
}

func (l *Link) MTU() uint32                                  { return l.Mtu }
func (l *Link) Capabilities() stack.LinkEndpointCapabilities { return l.Caps }
func (l *Link) MaxHeaderLength() uint16                      { return l.MaxHdr }
func (l *Link) LinkAddress() tcpip.LinkAddress               { return l.Addr }
func (l *Link) Attach(d stack.NetworkDispatcher)             { l.dispatcher = d }
func (l *Link) IsAttached() bool                             { return l.dispatcher != nil }

func (l *Link) WritePacket(r *stack.Route, hdr buffer.Prependable, payload buffer.VectorisedView, protocol tcpip.NetworkProtocolNumber) *tcpip.Error {
	b := append([]byte(nil), hdr.View()...)
	b = append(b, payload.ToView()...)
	f := Frame{Proto: protocol, Bytes: b}
	if r != nil {
		f.DstLink, f.SrcLink = r.RemoteLinkAddress, r.LocalLinkAddress
	}
	l.mu.Lock()
	l.out = append(l.out, f)
	if l.Retain {
		l.refs = append(l.refs, [2][]byte{hdr.View(), payload.ToView()})
	}
	cb := l.OnFrame
	l.mu.Unlock()
	if cb != nil {
		cb(f)
	}
	return nil
}

// Take returns and clears the frames recorded so far.
func (l *Link) Take() []Frame {
	l.mu.Lock()
	o := l.out
	l.out = nil
	l.refs = nil
	l.mu.Unlock()
	return o
}

// TakeLate is Take for a Retain link: the bytes of every frame are read now from the buffers the
// stack handed to WritePacket (what a consumer of a queueing link endpoint sees).
func (l *Link) TakeLate() []Frame {
	l.mu.Lock()
	o, refs := l.out, l.refs
	l.out, l.refs = nil, nil
	l.mu.Unlock()
	if len(refs) != len(o) {
		return o
	}
	for i := range o {
		b := append([]byte(nil), refs[i][0]...)
		o[i].Bytes = append(b, refs[i][1]...)
	}
	return o
}

// Inject delivers a network-layer packet to the stack; chunks, when given, are the sizes of the
// views the packet is split into (the link layer may hand the stack a packet in several views).
func (l *Link) Inject(proto tcpip.NetworkProtocolNumber, pkt []byte, chunks ...int) {
	l.InjectFrom(proto, "", "", pkt, chunks...)
}

func (l *Link) InjectFrom(proto tcpip.NetworkProtocolNumber, remote, local tcpip.LinkAddress, pkt []byte, chunks ...int) {
	var views []buffer.View
	rest := append([]byte(nil), pkt...)
	for _, c := range chunks {
		if c > len(rest) {
			c = len(rest)
		}
		views = append(views, buffer.View(rest[:c:c]))
		rest = rest[c:]
	}
	if len(rest) > 0 || len(views) == 0 {
		views = append(views, buffer.View(rest))
	}
	vv := buffer.NewVectorisedView(len(pkt), views)
	l.dispatcher.DeliverNetworkPacket(l, remote, local, proto, vv)
}

// InjectRecycled delivers pkt like Inject and, as soon as DeliverNetworkPacket has returned,
// overwrites the delivered bytes: a sender that re-uses its buffer (an application writing through
// the loopback interface with a by-reference payload, a link endpoint recycling its receive
// buffer).  Only for packets whose handling must not retain the bytes beyond the call.
func (l *Link) InjectRecycled(proto tcpip.NetworkProtocolNumber, pkt []byte, chunks ...int) {
	var views []buffer.View
	all := append([]byte(nil), pkt...)
	rest := all
	for _, c := range chunks {
		if c > len(rest) {
			c = len(rest)
		}
		views = append(views, buffer.View(rest[:c:c]))
		rest = rest[c:]
	}
	if len(rest) > 0 || len(views) == 0 {
		views = append(views, buffer.View(rest))
	}
	vv := buffer.NewVectorisedView(len(pkt), views)
	defer func() {
		for i := range all {
			all[i] = 0xA5
		}
	}()
	l.dispatcher.DeliverNetworkPacket(l, "", "", proto, vv)
}

const (
	ProtoIPv4 = tcpip.NetworkProtocolNumber(0x0800)
	ProtoIPv6 = tcpip.NetworkProtocolNumber(0x86dd)
	ProtoARP  = tcpip.NetworkProtocolNumber(0x0806)
)

// Net is a stack with one recording NIC.
type Net struct {
	S     *stack.Stack
	L     *Link
	NIC   tcpip.NICID
	Addr  tcpip.Address // IPv4
	Addr6 tcpip.Address
}

type Opts struct {
	MTU      uint32
	Caps     stack.LinkEndpointCapabilities
	LinkAddr tcpip.LinkAddress
	Addr4    string // 4 bytes
	Addr6    string // 16 bytes or ""
}

// NewNet builds a stack with IPv4, IPv6, ARP, TCP and UDP, one NIC with the given addresses and a
// default route for each family through that NIC.
func NewNet(o Opts) *Net {
	if o.MTU == 0 {
		o.MTU = 1500
	}
	if o.Addr4 == "" {
		o.Addr4 = "\x0a\x00\x00\x01"
	}
	s := stack.New([]string{ipv4.ProtocolName, ipv6.ProtocolName, arp.ProtocolName}, []string{tcp.ProtocolName, udp.ProtocolName}, stack.Options{})
	id, l := NewLink(o.MTU, o.Caps, o.LinkAddr)
	if err := s.CreateNIC(1, id); err != nil {
		panic(err.String())
	}
	if err := s.AddAddress(1, ipv4.ProtocolNumber, tcpip.Address(o.Addr4)); err != nil {
		panic(err.String())
	}
	n := &Net{S: s, L: l, NIC: 1, Addr: tcpip.Address(o.Addr4)}
	routes := []tcpip.Route{{Destination: "\x00\x00\x00\x00", Mask: "\x00\x00\x00\x00", Gateway: "", NIC: 1}}
	if o.Addr6 != "" {
		if err := s.AddAddress(1, ipv6.ProtocolNumber, tcpip.Address(o.Addr6)); err != nil {
			panic(err.String())
		}
		n.Addr6 = tcpip.Address(o.Addr6)
		z := string(make([]byte, 16))
		routes = append(routes, tcpip.Route{Destination: tcpip.Address(z), Mask: tcpip.AddressMask(z), Gateway: "", NIC: 1})
	}
	if o.Caps&stack.CapabilityResolutionRequired != 0 {
		if err := s.AddAddress(1, arp.ProtocolNumber, arp.ProtocolAddress); err != nil {
			panic(err.String())
		}
	}
	s.SetRouteTable(routes)
	return n
}

// ---------------------------------------------------------------- independent wire helpers

// Sum16 is the RFC 1071 one's-complement sum of b (zero padded) added to init, folded to 16 bits.
func Sum16(b []byte, init uint32) uint16 {
	s := init
	for i := 0; i+1 < len(b); i += 2 {
		s += uint32(b[i])<<8 | uint32(b[i+1])
	}
	if len(b)%2 == 1 {
		s += uint32(b[len(b)-1]) << 8
	}
	for s>>16 != 0 {
		s = s&0xffff + s>>16
	}
	return uint16(s)
}

// IPv4Packet builds an IPv4 packet (20-byte header, checksum filled) around payload.
func IPv4Packet(src, dst []byte, proto byte, id uint16, flagsFrag uint16, ttl byte, payload []byte) []byte {
	b := make([]byte, 20+len(payload))
	b[0] = 0x45
	binary.BigEndian.PutUint16(b[2:], uint16(len(b)))
	binary.BigEndian.PutUint16(b[4:], id)
	binary.BigEndian.PutUint16(b[6:], flagsFrag)
	b[8] = ttl
	b[9] = proto
	copy(b[12:16], src)
	copy(b[16:20], dst)
	binary.BigEndian.PutUint16(b[10:], ^Sum16(b[:20], 0))
	copy(b[20:], payload)
	return b
}

// IPv6Packet builds an IPv6 packet (40-byte header) around payload.
func IPv6Packet(src, dst []byte, next byte, hop byte, payload []byte) []byte {
	b := make([]byte, 40+len(payload))
	b[0] = 0x60
	binary.BigEndian.PutUint16(b[4:], uint16(len(payload)))
	b[6] = next
	b[7] = hop
	copy(b[8:24], src)
	copy(b[24:40], dst)
	copy(b[40:], payload)
	return b
}

// PseudoSum is the pseudo-header sum for TCP/UDP/ICMPv6 over IPv4 or IPv6 (by address length).
func PseudoSum(src, dst []byte, proto byte, length int) uint32 {
	var s uint32
	add := func(b []byte) {
		for i := 0; i+1 < len(b); i += 2 {
			s += uint32(b[i])<<8 | uint32(b[i+1])
		}
	}
	add(src)
	add(dst)
	s += uint32(proto)
	s += uint32(length)
	return s
}

type TCPSeg struct {
	SrcPort, DstPort uint16
	Seq, Ack         uint32
	Flags            byte
	Wnd              uint16
	Opts             []byte // already padded to a multiple of 4
	Payload          []byte
	Urg              uint16
}

const (
	FlagFin = 1
	FlagSyn = 2
	FlagRst = 4
	FlagPsh = 8
	FlagAck = 16
	FlagUrg = 32
)

// TCPBytes builds the TCP segment bytes with a valid checksum for the given addresses.
func TCPBytes(src, dst []byte, t TCPSeg) []byte {
	hl := 20 + len(t.Opts)
	b := make([]byte, hl+len(t.Payload))
	binary.BigEndian.PutUint16(b[0:], t.SrcPort)
	binary.BigEndian.PutUint16(b[2:], t.DstPort)
	binary.BigEndian.PutUint32(b[4:], t.Seq)
	binary.BigEndian.PutUint32(b[8:], t.Ack)
	b[12] = byte(hl/4) << 4
	b[13] = t.Flags
	binary.BigEndian.PutUint16(b[14:], t.Wnd)
	binary.BigEndian.PutUint16(b[18:], t.Urg)
	copy(b[20:], t.Opts)
	copy(b[hl:], t.Payload)
	binary.BigEndian.PutUint16(b[16:], ^Sum16(b, PseudoSum(src, dst, 6, len(b))))
	return b
}

// ParseTCP decodes a TCP segment (no validation beyond lengths); ok=false if too short.
func ParseTCP(b []byte) (t TCPSeg, ok bool) {
	if len(b) < 20 {
		return t, false
	}
	hl := int(b[12]>>4) * 4
	if hl < 20 || hl > len(b) {
		return t, false
	}
	t.SrcPort = binary.BigEndian.Uint16(b[0:])
	t.DstPort = binary.BigEndian.Uint16(b[2:])
	t.Seq = binary.BigEndian.Uint32(b[4:])
	t.Ack = binary.BigEndian.Uint32(b[8:])
	t.Flags = b[13]
	t.Wnd = binary.BigEndian.Uint16(b[14:])
	t.Urg = binary.BigEndian.Uint16(b[18:])
	t.Opts = b[20:hl]
	t.Payload = b[hl:]
	return t, true
}

// UDPBytes builds a UDP datagram with a valid checksum; length overrides the length field if >= 0.
func UDPBytes(src, dst []byte, sport, dport uint16, payload []byte, length int) []byte {
	b := make([]byte, 8+len(payload))
	binary.BigEndian.PutUint16(b[0:], sport)
	binary.BigEndian.PutUint16(b[2:], dport)
	if length < 0 {
		length = len(b)
	}
	binary.BigEndian.PutUint16(b[4:], uint16(length))
	copy(b[8:], payload)
	c := ^Sum16(b, PseudoSum(src, dst, 17, len(b)))
	if c == 0 {
		c = 0xffff
	}
	binary.BigEndian.PutUint16(b[6:], c)
	return b
}

// IPv4Info splits an IPv4 packet.
type IPv4Info struct {
	HL, TotalLen int
	ID           uint16
	FlagsFrag    uint16
	TTL, Proto   byte
	Src, Dst     []byte
	Payload      []byte
	HdrSumOK     bool
}

func ParseIPv4(b []byte) (i IPv4Info, ok bool) {
	if len(b) < 20 || b[0]>>4 != 4 {
		return i, false
	}
	i.HL = int(b[0]&0xf) * 4
	i.TotalLen = int(binary.BigEndian.Uint16(b[2:]))
	if i.HL < 20 || i.HL > len(b) || i.TotalLen > len(b) || i.TotalLen < i.HL {
		return i, false
	}
	i.ID = binary.BigEndian.Uint16(b[4:])
	i.FlagsFrag = binary.BigEndian.Uint16(b[6:])
	i.TTL, i.Proto = b[8], b[9]
	i.Src, i.Dst = b[12:16], b[16:20]
	i.Payload = b[i.HL:i.TotalLen]
	i.HdrSumOK = Sum16(b[:i.HL], 0) == 0xffff
	return i, true
}

// ZList prints a byte slice as a Coq list of Z: [1;2;3].
func ZList(b []byte) string {
	buf := make([]byte, 0, len(b)*4+2)
	buf = append(buf, '[')
	for i, x := range b {
		if i > 0 {
			buf = append(buf, ';')
		}
		buf = appendInt(buf, int(x))
	}
	return string(append(buf, ']'))
}

func appendInt(b []byte, v int) []byte {
	if v == 0 {
		return append(b, '0')
	}
	var t [20]byte
	i := len(t)
	for v > 0 {
		i--
		t[i] = byte('0' + v%10)
		v /= 10
	}
	return append(b, t[i:]...)
}

func B(x bool) string {
	if x {
		return "true"
	}
	return "false"
}
