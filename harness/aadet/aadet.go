// Package aadet makes crypto/rand deterministic for the process.  Its import path sorts before
// github.com/..., so (Go >= 1.21 initialises packages in import-path order when dependencies
// allow) its init runs before the repo's packages read crypto/rand in their own init functions
// (hash.hashIV, tcp cookie nonces).  Drivers can later queue exact bytes for the next reads
// (e.g. the 4 bytes that become a TCP initial sequence number).
package aadet

import (
	"crypto/rand"
	"sync"
)

type reader struct {
	mu    sync.Mutex
	s     uint64
	queue []byte
}

var R = &reader{s: 0x5eed}

func (r *reader) Read(p []byte) (int, error) {
	r.mu.Lock()
	defer r.mu.Unlock()
	for i := range p {
		if len(r.queue) > 0 {
			p[i] = r.queue[0]
			r.queue = r.queue[1:]
			continue
		}
		r.s += 0x9E3779B97F4A7C15
		z := r.s
		z = (z ^ (z >> 30)) * 0xBF58476D1CE4E5B9
		z = (z ^ (z >> 27)) * 0x94D049BB133111EB
		p[i] = byte(z ^ (z >> 31))
	}
	return len(p), nil
}

// Queue makes the next crypto/rand reads return exactly these bytes.
func Queue(b ...byte) {
	R.mu.Lock()
	R.queue = append(R.queue, b...)
	R.mu.Unlock()
}

// ClearQueue drops queued bytes that were not consumed.
func ClearQueue() {
	R.mu.Lock()
	R.queue = nil
	R.mu.Unlock()
}

// Reseed restarts the pseudo-random stream.
func Reseed(s uint64) {
	R.mu.Lock()
	R.s = s
	R.queue = nil
	R.mu.Unlock()
}

func init() { rand.Reader = R }
