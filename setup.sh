#!/bin/sh
# MANIFEST.setup_cmd: build the Coq development (full .vo build) and warm the Go build cache. Offline.
set -e
cd "$(dirname "$0")"
export GOFLAGS=-mod=mod GOPROXY=off GOSUMDB=off GOTOOLCHAIN=local
(cd coq && coq_makefile -f _CoqProject -o Makefile >/dev/null && timeout 7200 make -j16)
cp /repo/go.sum harness/go.sum 2>/dev/null || true
(cd harness && go build ./internal/... >/dev/null 2>&1 || true)
echo setup-ok
