#!/bin/sh
# MANIFEST.setup_cmd: build the Coq development (full .vo build, never -vos) and warm the Go build
# cache. Offline. Every check rebuilds its own proof cone (make <targets>) and its Go driver from
# /repo on every run, so this is a warm-up: -k keeps going if a file that belongs to a property not
# yet registered does not compile.
cd "$(dirname "$0")"
export GOFLAGS=-mod=mod GOPROXY=off GOSUMDB=off GOTOOLCHAIN=local
./coqbuild -k > /tmp/verif-setup-coq.log 2>&1 || echo "setup: some Coq files did not build (see /tmp/verif-setup-coq.log); registered checks rebuild their own cones"
tail -3 /tmp/verif-setup-coq.log
echo setup-ok
