#!/bin/sh
# MANIFEST.setup_cmd: build the Coq development (full .vo build) and warm the Go build cache. Offline.
set -e
cd "$(dirname "$0")"
export GOFLAGS=-mod=mod GOPROXY=off GOSUMDB=off GOTOOLCHAIN=local
./coqbuild


echo setup-ok
