(* C03 correspondence: connection establishment of the real stack against a scripted raw peer
   (harness/cmd/h_c03).  [corr] runs Model.TcpHs on the same segments; [spec] is the property
   monitor on the implementation's observations only. *)
From Coq Require Import ZArith List Bool.
From NP Require Export Model.Seqnum Model.TcpHs.
From NP Require Model.Tcp Model.TcpEst.
Import ListNotations.
Open Scope Z_scope.

Definition astep := (hseg * Z * list hframe * Z)%type.      (* segment, next random ISS, frames, state after *)
(* segment, frames, accepted, maxPayload, tsOk, and the sequence number the stack chose for a SYN
   whose sequence number is this segment's minus one: the driver obtains it by sending that SYN
   to the (stateless) listener and reading the SYN-ACK; it is the case's own cookie when the
   segment's sequence number is the original SYN's plus one *)
Definition cstep := (hseg * list hframe * bool * Z * bool * Z)%type.
(* final: estate, error class (0 none, 1 refused, 2 other), maxPayload, sndWndScale, tsOk, sack, iss, irs, rcvWndScale *)
Definition afinal := (Z * Z * Z * Z * bool * bool * Z * Z * Z)%type.

Inductive case :=
| CActive (iss synWnd : Z) (synOpts : synopts) (stackSack : bool) (rcvBuf : Z) (syn : hframe)
          (steps : list astep) (final : afinal)
| CPassive (syn : hseg) (stackSack : bool) (rcvBuf mtuMss : Z) (synack : hframe) (accepted : bool)
           (steps : list astep)
           (est : list Z)   (* TcpEst.est_summary of the accepted connection's first snapshot ([] = none) *)
| CCookie (syn : hseg) (ts mtuMss : Z) (synack : hframe) (steps : list cstep)
| CStray (s : hseg) (frames : list hframe)
| CListen (s : hseg) (frames : list hframe) (accepted : bool)
(* an established connection receives a RST (sequence number inside the receive window or far
   outside); frames emitted in response and the endpoint state afterwards (4 connected, 6 error) *)
| CEstRst (inWindow : bool) (s : hseg) (frames : list hframe) (estAfter : Z)
(* an established connection with keepalive enabled and a silent peer: everything it emitted until
   it gave up, and the endpoint state afterwards *)
| CKeepalive (count iss irs : Z) (frames : list hframe) (estAfter : Z).

(* ---------------------------------------------------------------- equality on observations *)
Fixpoint zl_eqb (a b : list Z) : bool :=
  match a, b with
  | [], [] => true
  | x :: a', y :: b' => (x =? y) && zl_eqb a' b'
  | _, _ => false
  end.

Definition so_eqb (a b : synopts) : bool :=
  (so_mss a =? so_mss b) && (so_ws a =? so_ws b) && Bool.eqb (so_ts a) (so_ts b) && Bool.eqb (so_sack a) (so_sack b).
Definition oso_eqb (a b : option synopts) : bool :=
  match a, b with Some x, Some y => so_eqb x y | None, None => true | _, _ => false end.
Definition hf_eqb (a b : hframe) : bool :=
  (hf_flags a =? hf_flags b) && (hf_seq a =? hf_seq b) && (hf_ack a =? hf_ack b) && (hf_wnd a =? hf_wnd b)
  && oso_eqb (hf_opts a) (hf_opts b).
Fixpoint hfs_eqb (a b : list hframe) : bool :=
  match a, b with
  | [], [] => true
  | x :: a', y :: b' => hf_eqb x y && hfs_eqb a' b'
  | _, _ => false
  end.

(* the receive buffer size a socket ends up with (SetSockOpt clamps to the stack's [4096, 4 MiB]) *)
Definition effBuf (b : Z) : Z := if b =? 0 then 1048576 else if b <? 4096 then 4096 else if 4194304 <? b then 4194304 else b.

(* sender.updateMaxPayloadSize at creation: min(peer MSS, route MTU - 20 - maximal option length) *)
Definition initialMaxPayload (mss : Z) (ts sack : bool) : Z :=
  let optlen := if ts && sack then 40 else if ts then 12 else if sack then 36 else 0 in
  let m := 1480 - 20 - optlen in
  if mss <=? m then mss else if m <=? 0 then 1 else m.

Definition estConnecting := 3.
Definition estConnected := 4.
Definition estError := 6.

(* active open: fold the model over the scripted segments *)
Fixpoint activeCorr (k : Z) (h : hstate) (steps : list astep) : Z * hstate * Z :=
  match steps with
  | [] => (0, h, 0)
  | (s, ni, fr, est) :: rest =>
      let '(h1, mfr, err) := hsHandle h s ni in
      let want := if negb (err =? 0) then estError else if h_state h1 =? stCompleted then estConnected else estConnecting in
      if negb (hfs_eqb mfr fr) then (100 * k + 1, h1, err)
      else if negb (want =? est) then (100 * k + 2, h1, err)
      else if negb (want =? estConnecting) then (0, h1, err)
      else activeCorr (k + 1) h1 rest
  end.

Definition finalCorr (h : hstate) (err : Z) (f : afinal) : Z :=
  let '(est, errc, mp, sws, ts, sk, iss, irs, rws) := f in
  if negb (err =? 0) then
    if (est =? estError) && (errc =? (if err =? errRefused then 1 else 2)) then 0 else 91
  else if h_state h =? stCompleted then
    if (est =? estConnected) && (mp =? initialMaxPayload (h_mss h) (h_tsOk h) (h_sack h))
       && (sws =? (if h_sndWndScale h <? 0 then 0 else h_sndWndScale h))
       && Bool.eqb ts (h_tsOk h) && Bool.eqb sk (h_sack h) && (iss =? h_iss h) && (irs =? u32 (h_ackNum h - 1))
       && (rws =? effectiveRcvWndScale h)
    then 0 else 92
  else if est =? estConnecting then 0 else 93.

(* passive open, normal mode *)
Fixpoint passiveCorr (k : Z) (h : hstate) (steps : list astep) : Z * bool :=
  match steps with
  | [] => (0, false)
  | (s, _, fr, st) :: rest =>
      let '(h1, mfr, err) := hsHandle h s 0 in
      let want := if negb (err =? 0) then 2 else if h_state h1 =? stCompleted then 1 else 0 in
      if negb (hfs_eqb mfr fr) then (100 * k + 1, false)
      else if negb (want =? st) then (100 * k + 2, false)
      else if want =? 1 then (0, true)
      else if want =? 2 then (0, false)
      else passiveCorr (k + 1) h1 rest
  end.

(* cookie mode: the hash is not observable; any H consistent with the issued cookie decides the
   near-miss acknowledgements identically (see DESIGN C03), so take H ts 1 = 0 and solve for H 0 0 *)
Definition cookieH (cookie irs ts data : Z) (t n : Z) : Z :=
  if n =? 0 then u32 (cookie - irs - Z.shiftl ts tsOffset - data) else 0.

Fixpoint cookieCorr (k : Z) (H : Z -> Z -> Z) (ts mtuMss data : Z) (steps : list cstep) : Z :=
  match steps with
  | [] => 0
  | (s, fr, acc, mp, tsok, ck) :: rest =>
      if negb (ck =? createCookie H ts (u32 (hs_seq s - 1)) data) then 100 * k + 3 else
      let ok :=
        match listenHandle H true ts 1048576 mtuMss s with
        | LAccept _ _ mss t => acc && (mp =? initialMaxPayload mss t false) && Bool.eqb tsok t
        | LIgnore => negb acc
        | _ => false
        end in
      if negb ok then 100 * k + 1
      else if negb (hfs_eqb fr []) then 100 * k + 2
      else cookieCorr (k + 1) H ts mtuMss data rest
  end.

Definition corr (c : case) : Z :=
  match c with
  | CActive iss synWnd so sk rb syn steps final =>
      let h0 := hsActiveInit iss (effBuf rb) 1460 sk in
      if negb (hf_eqb (executeSyn h0) syn) then 1
      else let '(r, h, err) := activeCorr 1 h0 steps in
           if negb (r =? 0) then r else finalCorr h err final
  | CPassive syn sk rb mtuMss synack acc steps est =>
      let h0 := hsPassiveInit (hf_seq synack) (hs_seq syn) (effBuf rb) mtuMss (hs_opts syn) sk in
      if negb (hf_eqb (executeSyn h0) synack) then 1
      else let '(r, a) := passiveCorr 1 h0 steps in
           if negb (r =? 0) then r else if negb (Bool.eqb a acc) then 94
           else if acc && negb (Nat.eqb (length est) 0)
                   && negb (zl_eqb est (TcpEst.est_summary
                              (TcpEst.passive_established (hf_seq synack) (hs_seq syn) (hs_wnd syn) (hs_opts syn) sk
                                                          (effBuf rb) 1048576 (mtuMss + 20))))
           then 95 else 0
  | CCookie syn ts mtuMss synack steps =>
      let data := encodeMSS (so_mss (hs_opts syn)) in
      let H := cookieH (hf_seq synack) (hs_seq syn) ts data in
      match listenHandle H true ts 1048576 mtuMss syn with
      | LCookieSynAck f => if negb (hf_eqb f synack) then 1 else cookieCorr 1 H ts mtuMss data steps
      | _ => 2
      end
  | CStray s frames => if hfs_eqb (unknownDestination s) frames then 0 else 1
  | CListen s frames acc =>
      match listenHandle (fun _ _ => 0) false 0 1048576 1460 s with
      | LIgnore => if hfs_eqb frames [] && negb acc then 0 else 1
      | _ => 2
      end
  | CKeepalive count iss irs frames est =>
      (* connect.go keepaliveTimerExpired: [count] probes (a pure ACK numbered sndNxt-1), then the
         connection is reset: RST|ACK numbered sndUna, acknowledging rcvNxt, window 0; error state.
         Keepalive is not part of Model.Tcp: this is the expected behaviour written out. *)
      let probe_ok := fun f => (hf_flags f =? 16) && (hf_seq f =? u32 iss) && (hf_ack f =? u32 (irs + 1)) in
      let rst_ok := fun f => (hf_flags f =? 20) && (hf_seq f =? u32 (iss + 1)) && (hf_ack f =? u32 (irs + 1)) && (hf_wnd f =? 0) in
      if (Z.of_nat (length frames) =? count + 1)
         && forallb probe_ok (firstn (Z.to_nat count) frames)
         && forallb rst_ok (skipn (Z.to_nat count) frames)
         && (est =? estError) then 0 else 1
  | CEstRst inw s frames est =>
      (* Model.Tcp.handleSegment: acceptable RST -> abortOnReset (no frame, error state);
         otherwise ignored (Proofs/TcpRstP.v) *)
      if hfs_eqb frames [] && (est =? (if inw then estError else estConnected)) then 0 else 1
  end.

(* ---------------------------------------------------------------- property monitor *)
Definition isRstFor (f : hframe) (seq : Z) : bool :=
  has (hf_flags f) fRst && (hf_seq f =? seq).

(* the reset that answers segment s, per the property text *)
Definition resetOK (s : hseg) (frames : list hframe) : bool :=
  match frames with
  | [f] =>
      (hf_flags f =? 20) && (hf_seq f =? (if has (hs_flags s) fAck then hs_ack s else 0))
      && (hf_ack f =? (hs_seq s + hs_len s + (if has (hs_flags s) fSyn then 1 else 0)
                       + (if has (hs_flags s) fFin then 1 else 0)) mod 2^32)
  | _ => false
  end.

(* active open: track the ISS through restarts (a restart is visible as a new bare SYN) *)
Fixpoint activeSpec (iss : Z) (steps : list astep) : Z :=
  match steps with
  | [] => 0
  | (s, _, fr, est) :: rest =>
      let wrongAck := has (hs_flags s) fAck && negb (has (hs_flags s) fRst) && negb (hs_ack s =? (iss + 1) mod 2^32) in
      (* a connection exists only after a SYN-ACK acknowledging exactly our SYN (or, after a
         simultaneous open, an ACK doing so) *)
      (* a reset is never answered, whatever else it carries *)
      if has (hs_flags s) fRst && negb (hfs_eqb fr []) then 1
      else if (est =? estConnected) && negb (has (hs_flags s) fAck && negb (has (hs_flags s) fRst) && (hs_ack s =? (iss + 1) mod 2^32)) then 1
      else if wrongAck && negb (resetOK s fr && (est =? estConnecting)) then 1
      else
        let iss' := fold_left (fun i f => if hf_flags f =? fSyn then hf_seq f else i) fr iss in
        if est =? estConnecting then activeSpec iss' rest else 0
  end.

Fixpoint passiveSpec (iss : Z) (steps : list astep) : Z :=
  match steps with
  | [] => 0
  | (s, _, fr, st) :: rest =>
      let ackOK := has (hs_flags s) fAck && negb (has (hs_flags s) fRst) && (hs_ack s =? (iss + 1) mod 2^32) in
      let wrongAck := has (hs_flags s) fAck && negb (has (hs_flags s) fRst) && negb (hs_ack s =? (iss + 1) mod 2^32) in
      if has (hs_flags s) fRst && negb (hfs_eqb fr []) then 1
      else if (st =? 1) && negb ackOK then 1
      else if wrongAck && negb (resetOK s fr && (st =? 0)) then 1
      else if st =? 0 then passiveSpec iss rest else 0
  end.

(* cookie mode: 2 = known pattern C03-cookie-lowbits (an acknowledgement up to 3 above or below the
   issued cookie is accepted when it decodes to another valid MSS class) *)
(* The listener is stateless in cookie mode: an ACK with sequence number x+1 is the final ACK of a
   handshake whose SYN carried x, and "the sequence number the stack chose" for that SYN is what it
   answers such a SYN with ([ck], observed).  A connection may be handed out iff the ACK
   acknowledges exactly ck (+1); the known pattern: it is off by a small k that still decodes to
   an MSS class. *)
Fixpoint cookieSpec (data : Z) (steps : list cstep) : Z :=
  match steps with
  | [] => 0
  | (s, fr, acc, _, _, ck) :: rest =>
      let d := (hs_ack s - 1 - ck) mod 2^32 in
      let ds := if d <? 2^31 then d else d - 2^32 in
      let r := if has (hs_flags s) fRst then
                 (* a reset creates no connection and is never answered *)
                 (if acc || negb (hfs_eqb fr []) then 1 else 0)
               else if acc then
                 if d =? 0 then 0
                 else if (-3 <=? ds) && (ds <=? 3) && (0 <=? data + ds) && (data + ds <? 4) then 2 else 1
               else 0 in
      if negb (r =? 0) then r else cookieSpec data rest
  end.

Definition spec (c : case) : Z :=
  match c with
  | CActive iss _ _ _ _ syn steps final =>
      if negb ((hf_flags syn =? fSyn) && (hf_seq syn =? iss)) then 1 else activeSpec iss steps
  | CPassive syn _ _ _ synack acc steps _ =>
      if negb ((hf_flags synack =? 18) && (hf_ack synack =? (hs_seq syn + 1) mod 2^32)) then 1
      else passiveSpec (hf_seq synack) steps
  | CCookie syn _ _ synack steps =>
      if negb ((hf_flags synack =? 18) && (hf_ack synack =? (hs_seq syn + 1) mod 2^32)) then 1
      else cookieSpec (encodeMSS (so_mss (hs_opts syn))) steps
  | CStray s frames =>
      if has (hs_flags s) fRst then (if hfs_eqb frames [] then 0 else 1)
      else if resetOK s frames then 0 else 1
  | CListen s frames acc =>
      if acc then 1
      else if has (hs_flags s) fRst && negb (hfs_eqb frames []) then 1   (* a reset is never answered *)
      else 0
  | CEstRst _ s frames _ => if hfs_eqb frames [] then 0 else 1     (* a reset is never answered *)
  | CKeepalive _ _ _ _ _ => 0     (* no clause of the property text; judged by the correspondence only *)
  end.

Definition tag (c : case) : Z :=
  match c with
  | CActive _ _ _ _ _ _ steps _ => if Nat.ltb 1 (length steps) then 2 else 1
  | CPassive _ _ _ _ _ acc steps _ => if acc then 3 else 4
  | CCookie _ _ _ _ steps => if existsb (fun x => match x with (_, _, a, _, _, _) => a end) steps then 5 else 6
  | CStray s _ => if has (hs_flags s) fRst then 0 else 7
  | CListen _ _ _ => 8
  | CEstRst inw _ _ _ => if inw then 9 else 10
  | CKeepalive _ _ _ _ _ => 11
  end.

Definition judge (c : case) : list Z := [corr c; spec c; tag c].
Definition judge_all (cs : list case) : list Z := flat_map judge cs.
