(* C01 correspondence: lock-step TCP traces (Corr/TcpTrace.v) + the data-integrity monitor. *)
From Coq Require Import ZArith List Bool.
From NP Require Export Model.Seqnum Model.Tcp Corr.TcpTrace.
Import ListNotations.
Open Scope Z_scope.

Definition case := TcpTrace.case.

(* Property monitor, on the implementation's observations only:
   (a) everything the application read so far is a prefix of the peer's stream;
   (b) every emitted segment that carries data carries exactly the bytes of the application's
       accepted writes at the offset its sequence number names (seq - iss - 1 mod 2^32). *)
Definition spec (c : case) : Z :=
  match c with
  | CTrace cfg peer init steps =>
      let iss := cfg_get cfg 0 in
      let reads := reads_of steps in
      let w := writes_of steps in
      if negb (is_prefix reads peer) then 1
      else if negb (forallb (fun f => (Z.of_nat (length (f_data f)) =? 0)
                                     || is_slice w (f_data f) (u32 (f_seq f - iss - 1))) (frames_of steps))
      then 1 else 0
  end.

(* non-trivial: the trace moved data in at least one direction *)
Definition tag (c : case) : Z :=
  match c with
  | CTrace _ _ _ steps =>
      (if negb (Z.of_nat (length (reads_of steps)) =? 0) then 1 else 0) +
      (if existsb (fun f => negb (Z.of_nat (length (f_data f)) =? 0)) (frames_of steps) then 2 else 0)
  end.

Definition judge (c : case) : list Z := [trace_corr c; spec c; tag c].
Definition judge_all (cs : list case) : list Z := flat_map judge cs.
