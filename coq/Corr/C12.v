(* Correspondence vocabulary for C12 (neighbour resolution).  [judge] is evaluated by vm_compute
   on the case lines printed by harness/cmd/h_c12.

   CArp: one ARP packet injected into a fresh real stack (recording link endpoint, capability
   ResolutionRequired), with what the implementation did: frames handed to the link endpoint and
   the answers of Stack.GetLinkAddress for a few addresses afterwards.

   CCache: one history on a real linkAddrCache (built through the overlay-added constructor; ring
   of N = 512, ageLimit [age] and resolutionTimeout [timeout] in microseconds, [attempts]); every
   event carries the time it was executed at (microseconds since the start of the history) and what
   the implementation returned / which wakers it asserted / which done channels it closed.
   Keys and link addresses are integers (0 = the zero FullAddress / the empty link address); key
   255 is the one the test resolver answers statically (with 999).  Done channels are labelled by
   the driver in order of first appearance; ETimer is a checkLinkRequest made by the cache's own
   resolver goroutine ([requested] = it sent another request afterwards). *)
From Coq Require Import ZArith Bool List.
From NP Require Import Model.Bytes Model.Arp Model.LinkCache.
Import ListNotations.
Open Scope Z_scope.

Inductive cev :=
| EAdd (now k v : Z) (notified closed : list Z) (panicked : bool)
(* res: 0 = no resolver, 1 = the test resolver; r: 0 address [val], 1 ErrNoLinkAddress,
   2 ErrWouldBlock with done channel label [val], 3 another error, 9 panic *)
| EGet (now k res w r val : Z) (notified closed : list Z)
| ECheck (now k att : Z) (stop : bool) (notified closed : list Z) (panicked : bool)
| ERemove (now k w : Z)
| ETimer (now k att : Z) (requested : bool) (notified closed : list Z).

Inductive case :=
(* locals: IPv4 addresses of the NIC; myMAC: the link endpoint's address; srcMAC: link-layer source
   the frame was injected with; arpOn: the NIC has the "arp" protocol address; first: the first
   view of the injected packet (what vv.First() returns); total: length of the whole packet;
   panicked: the stack panicked; frames: (ethertype, bytes, link destination) of every frame
   emitted; lookups: (ip, found, mac) answers of GetLinkAddress after the injection *)
| CArp (locals : list (list Z)) (myMAC srcMAC : list Z) (arpOn : bool) (first : list Z) (total : Z)
       (panicked : bool) (frames : list (Z * list Z * list Z)) (lookups : list (list Z * bool * list Z))
(* nreq: LinkAddressRequest calls seen by the test resolver; next: the cache's ring index at the end *)
| CCache (N age attempts timeout : Z) (evs : list cev) (nreq next : Z).

Definition bneq (a b : bool) : Z := if Bool.eqb a b then 0 else 1.
Definition zneq (a b : Z) : Z := if a =? b then 0 else 1.

Fixpoint leqb (x y : list Z) : bool :=
  match x, y with
  | [], [] => true
  | a :: x', b :: y' => (a =? b) && leqb x' y'
  | _, _ => false
  end.

Definition frame_eqb (f g : Z * list Z * list Z) : bool :=
  match f, g with (p1, b1, d1), (p2, b2, d2) => (p1 =? p2) && leqb b1 b2 && leqb d1 d2 end.
Fixpoint frames_eqb (f g : list (Z * list Z * list Z)) : bool :=
  match f, g with
  | [], [] => true
  | a :: f', b :: g' => frame_eqb a b && frames_eqb f' g'
  | _, _ => false
  end.

Definition arpProto : Z := 2054.

(* what a lookup must answer on a cache that was empty before the packet *)
Definition lookup_ok (learn : option (list Z * list Z)) (l : list Z * bool * list Z) : bool :=
  match l with (ip, found, mac) =>
    match learn with
    | Some (a, m) => if leqb ip a then found && leqb mac m else negb found
    | None => negb found
    end
  end.

(* ---- corr: the model on the same bytes does what the implementation did ---- *)
Definition corr (c : case) : Z :=
  match c with
  | CArp locals myMAC srcMAC arpOn first total panicked frames lookups =>
      match nic_deliver_arp arpOn locals myMAC srcMAC first with
      | Panic => bneq panicked true
      | Done reply learn =>
          if panicked then 1 else
          let want := match reply with Some (b, d) => [(arpProto, b, d)] | None => [] end in
          if frames_eqb want frames && forallb (lookup_ok learn) lookups then 0 else 1
      end
  end.

(* ---- spec: the property text, evaluated on the implementation's output, without the model ---- *)
Definition sub (p : list Z) (off n : nat) : list Z := firstn n (skipn off p).
Definition zpad (n : nat) (m : list Z) : list Z := firstn n (m ++ repeat 0 n).

Definition spec (c : case) : Z :=
  match c with
  | CArp locals myMAC srcMAC arpOn first total panicked frames lookups =>
      if panicked then 1 else
      let wf := arpOn && (28 <=? length first)%nat && leqb (sub first 0 6) [0; 1; 8; 0; 6; 4] in
      let isreq := wf && leqb (sub first 6 2) [0; 1] && existsb (leqb (sub first 24 4)) locals in
      let isrep := wf && leqb (sub first 6 2) [0; 2] in
      (* answered iff a request for one of our addresses; with our link address, addressed to the requester *)
      let frames_ok :=
        if isreq then
          match frames with
          | [(p, b, d)] =>
              (p =? arpProto) &&
              leqb b ([0; 1; 8; 0; 6; 4; 0; 2] ++ zpad 6 myMAC ++ sub first 24 4 ++ sub first 8 6 ++ sub first 14 4) &&
              leqb d srcMAC
          | _ => false
          end
        else match frames with [] => true | _ => false end in
      (* learned from replies and from requests addressed to us; never a value for another address *)
      let learn_ok :=
        forallb (fun l => match l with (ip, found, mac) =>
          if (isreq || isrep) && leqb ip (sub first 14 4) then found && leqb mac (sub first 8 6)
          else negb found end) lookups in
      if frames_ok && learn_ok then 0 else 1
  end.

(* ---- tag: 0 = runt / not delivered; 1 answered request; 2 reply learned; 3 valid request for a
   foreign address; 4 valid header, other op; 5 malformed header of full length ---- *)
Definition tag (c : case) : Z :=
  match c with
  | CArp locals myMAC srcMAC arpOn first total panicked frames lookups =>
      if negb arpOn || (length first <? 28)%nat then 0 else
      if negb (leqb (sub first 0 6) [0; 1; 8; 0; 6; 4]) then 5 else
      if leqb (sub first 6 2) [0; 1] then (if existsb (leqb (sub first 24 4)) locals then 1 else 3) else
      if leqb (sub first 6 2) [0; 2] then 2 else 4
  end.

Definition judge (c : case) : list Z := [corr c; spec c; tag c].
Definition judge_all (cs : list case) : list Z := flat_map judge cs.
