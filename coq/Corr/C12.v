(* Correspondence vocabulary for C12 (neighbour resolution).  [judge] is evaluated by vm_compute
   on the case lines printed by harness/cmd/h_c12.

   CArp: one ARP packet injected into a fresh real stack (recording link endpoint, capability
   ResolutionRequired), with what the implementation did: frames handed to the link endpoint and
   the answers of Stack.GetLinkAddress for a few addresses afterwards.

   CCache: one history on a real linkAddrCache (built through the overlay-added constructor; ring
   of N = 512, ageLimit [age] and resolutionTimeout [timeout] in microseconds, [attempts]); every
   event carries the time it was executed at (microseconds since the start of the history) and what
   the implementation returned / which wakers it asserted / which done channels it closed.
   Keys and link addresses are integers (0 = the zero FullAddress / the empty link address); key
   255 is the one the test resolver answers statically (with 999).  Done channels are labelled by
   the driver in order of first appearance; ETimer is a group of checkLinkRequest calls
   (time, key, attempt, requested) made by the cache's own resolver goroutines since the driver
   last looked, almost always one ([requested] = the goroutine sent another request afterwards),
   with the wakers asserted and channels closed in the meantime.

   CScen (thorough tier): a UDP write (kind 0) or TCP connect (kind 1) through a real stack with the
   real constants towards [dest] (route gateway [gw], "" = on-link), the neighbour (the harness)
   leaving the first [lost] ARP requests unanswered; frames = (time in microseconds, kind, link
   destination, a, b): kind 1 = ARP request (a = target IP, b = sender MAC ++ sender IP),
   kind 2 = IPv4 packet (a = destination IP, b = [protocol]), 3 = anything else; tend = when the
   operation finished; result: 0 done (datagram / SYN on the wire), 1 ErrNoLinkAddress, 2 other.

   CNdp: one IPv6 packet (a neighbour solicitation / advertisement and mutations of them) injected
   into a fresh real stack whose NIC has the IPv6 addresses [locals] (multicast groups only when
   listed), handed up as views of the sizes [chunks] ([] = one view) with link-layer source
   [srcMAC]; observed: frames handed to the link endpoint (ethertype, bytes, link destination) and
   the answers of Stack.GetLinkAddress afterwards, as for CArp.

   CNdpReq: the stack's own neighbour solicitation for [addr]: kind 0 = ipv6 LinkAddressRequest
   called directly with (addr, localAddr, a recording link endpoint with address myMAC), kind 1 =
   Stack.GetLinkAddress on an empty cache (what Route.Resolve calls), kind 2 = a UDP write to the
   unresolved neighbour; frames = (ethertype, bytes, link destination, link source) of what was
   handed to the link endpoint (kinds 1, 2: until shortly after the first frame). *)
From Coq Require Import ZArith Bool List.
From NP Require Import Model.Bytes Model.Arp Model.LinkCache Model.Resolve.
From NP Require Model.Echo.
From NP Require Import Model.Ndp.
Import ListNotations.
Open Scope Z_scope.

Inductive cev :=
| EAdd (now k v : Z) (notified closed : list Z) (panicked : bool)
(* res: 0 = no resolver, 1 = the test resolver; r: 0 address [val], 1 ErrNoLinkAddress,
   2 ErrWouldBlock with done channel label [val], 3 another error, 9 panic *)
| EGet (now k res w r val : Z) (notified closed : list Z)
| ECheck (now k att : Z) (stop : bool) (notified closed : list Z) (panicked : bool)
| ERemove (now k w : Z)
| ETimer (ts : list (Z * Z * Z * bool)) (notified closed : list Z).

Inductive case :=
(* locals: IPv4 addresses of the NIC; myMAC: the link endpoint's address; srcMAC: link-layer source
   the frame was injected with; arpOn: the NIC has the "arp" protocol address; first: the first
   view of the injected packet (what vv.First() returns); total: length of the whole packet;
   panicked: the stack panicked; frames: (ethertype, bytes, link destination) of every frame
   emitted; lookups: (ip, found, mac) answers of GetLinkAddress after the injection *)
| CArp (locals : list (list Z)) (myMAC srcMAC : list Z) (arpOn : bool) (first : list Z) (total : Z)
       (panicked : bool) (frames : list (Z * list Z * list Z)) (lookups : list (list Z * bool * list Z))
(* nreq: LinkAddressRequest calls seen by the test resolver; next: the cache's ring index at the end *)
| CCache (N age attempts timeout : Z) (evs : list cev) (nreq next : Z)
| CScen (kind via lost : Z) (myMAC myIP dest gw peerMAC : list Z)
        (frames : list (Z * Z * list Z * list Z * list Z)) (tend result : Z)
| CNdp (locals : list (list Z)) (myMAC srcMAC : list Z) (pkt : list Z) (chunks : list Z)
       (panicked : bool) (frames : list (Z * list Z * list Z)) (lookups : list (list Z * bool * list Z))
| CNdpReq (kind : Z) (addr localAddr myMAC : list Z) (panicked : bool)
          (frames : list (Z * list Z * list Z * list Z)).

Definition bneq (a b : bool) : Z := if Bool.eqb a b then 0 else 1.
Definition zneq (a b : Z) : Z := if a =? b then 0 else 1.

Fixpoint leqb (x y : list Z) : bool :=
  match x, y with
  | [], [] => true
  | a :: x', b :: y' => (a =? b) && leqb x' y'
  | _, _ => false
  end.

Definition frame_eqb (f g : Z * list Z * list Z) : bool :=
  match f, g with (p1, b1, d1), (p2, b2, d2) => (p1 =? p2) && leqb b1 b2 && leqb d1 d2 end.
Fixpoint frames_eqb (f g : list (Z * list Z * list Z)) : bool :=
  match f, g with
  | [], [] => true
  | a :: f', b :: g' => frame_eqb a b && frames_eqb f' g'
  | _, _ => false
  end.

Definition arpProto : Z := 2054.

(* what a lookup must answer on a cache that was empty before the packet *)
Definition lookup_ok (learn : option (list Z * list Z)) (l : list Z * bool * list Z) : bool :=
  match l with (ip, found, mac) =>
    match learn with
    | Some (a, m) => if leqb ip a then found && leqb mac m else negb found
    | None => negb found
    end
  end.

(* ---- helpers for the cache histories ---- *)
Fixpoint insert_u (x : Z) (l : list Z) : list Z :=
  match l with
  | [] => [x]
  | y :: t => if x <? y then x :: l else if x =? y then l else y :: insert_u x t
  end.
Definition sort_u (l : list Z) : list Z := fold_right insert_u [] l.

Definition mem (x : Z) (l : list Z) : bool := existsb (Z.eqb x) l.
Fixpoint assoc (x : Z) (m : list (Z * Z)) : option Z :=
  match m with [] => None | (a, b) :: t => if a =? x then Some b else assoc x t end.

Definition notified_of (evs : list ev) : list Z :=
  sort_u (flat_map (fun e => match e with Notify _ w => [w] | Close _ => [] end) evs).
(* the done channels closed by the model, as driver labels (a channel the driver never saw has none) *)
Definition closed_of (chmap : list (Z * Z)) (evs : list ev) : list Z :=
  sort_u (flat_map (fun e => match e with
                             | Close ch => match assoc ch chmap with Some l => [l] | None => [] end
                             | Notify _ _ => [] end) evs).
Definition obs_ok (chmap : list (Z * Z)) (evs : list ev) (notified closed : list Z) : bool :=
  leqb (notified_of evs) (sort_u notified) && leqb (closed_of chmap evs) (sort_u closed).

Definition staticKey : Z := 255.
Definition staticVal : Z := 999.
Definition res_of (res k : Z) : option (option Z) :=
  if res =? 0 then None else Some (if k =? staticKey then Some staticVal else None).

Fixpoint corr_timers (P : params) (c : cache) (reqs : Z) (ts : list (Z * Z * Z * bool)) (acc : list ev)
  : option (cache * Z * list ev) :=
  match ts with
  | [] => Some (c, reqs, acc)
  | (now, k, att, requested) :: rest =>
      match checkLinkRequest P c now k att with
      | None => None
      | Some (c', b, e) =>
          if Bool.eqb b (negb requested) then corr_timers P c' (if b then reqs else reqs + 1) rest (acc ++ e)
          else None
      end
  end.

(* state of the comparison: model cache, model channel id -> driver label, requests the model
   expects the resolver goroutines to have sent *)
Fixpoint corr_cache (P : params) (c : cache) (chmap : list (Z * Z)) (reqs : Z) (evs : list cev)
  : option (cache * Z) :=
  match evs with
  | [] => Some (c, reqs)
  | EAdd now k v notified closed panicked :: rest =>
      match add P c now k v with
      | None => None
      | Some (c', e) =>
          if negb panicked && obs_ok chmap e notified closed then corr_cache P c' chmap reqs rest else None
      end
  | EGet now k res w r val notified closed :: rest =>
      match get P c now k (res_of res k) w with
      | None => None
      | Some (c', g, e) =>
          match g with
          | GAddr v => if (r =? 0) && (val =? v) && obs_ok chmap e notified closed
                       then corr_cache P c' chmap reqs rest else None
          | GNoLink => if (r =? 1) && obs_ok chmap e notified closed
                       then corr_cache P c' chmap reqs rest else None
          | GBlock (Some ch) sp =>
              let chmap' := match assoc ch chmap with Some _ => chmap | None => (ch, val) :: chmap end in
              let fresh_ok := match assoc ch chmap with
                              | Some l => l =? val
                              | None => negb (mem val (map snd chmap))
                              end in
              if (r =? 2) && fresh_ok && obs_ok chmap' e notified closed
              then corr_cache P c' chmap' (if sp then reqs + 1 else reqs) rest else None
          | GBlock None _ => None
          end
      end
  | ECheck now k att stop notified closed panicked :: rest =>
      match checkLinkRequest P c now k att with
      | None => None
      | Some (c', b, e) =>
          if negb panicked && Bool.eqb b stop && obs_ok chmap e notified closed
          then corr_cache P c' chmap reqs rest else None
      end
  | ERemove now k w :: rest => corr_cache P (removeWaker c k w) chmap reqs rest
  | ETimer ts notified closed :: rest =>
      match corr_timers P c reqs ts [] with
      | None => None
      | Some (c', reqs', e) =>
          if obs_ok chmap e notified closed then corr_cache P c' chmap reqs' rest else None
      end
  end.

(* -- scenarios -- *)
Definition fkind (f : Z * Z * list Z * list Z * list Z) : Z := match f with (_, k, _, _, _) => k end.
Definition ftime (f : Z * Z * list Z * list Z * list Z) : Z := match f with (t, _, _, _, _) => t end.
Definition fdst (f : Z * Z * list Z * list Z * list Z) : list Z := match f with (_, _, d, _, _) => d end.
Definition fa (f : Z * Z * list Z * list Z * list Z) : list Z := match f with (_, _, _, a, _) => a end.
Definition fb (f : Z * Z * list Z * list Z * list Z) : list Z := match f with (_, _, _, _, b) => b end.
Definition nonempty {A} (l : list A) : bool := match l with [] => false | _ => true end.
Definition zabs_le (x bound : Z) : bool := (- bound <=? x) && (x <=? bound).

(* observed request times (µs, relative to the first) against the model's (ns) within 300 ms *)
Fixpoint times_ok (t0 : Z) (obs : list Z) (model : list Z) : bool :=
  match obs, model with
  | [], [] => true
  | o :: obs', m :: model' => zabs_le ((o - t0) * 1000 - m) 300000000 && times_ok t0 obs' model'
  | _, _ => false
  end.

Definition corr_scen (lost : Z) (myMAC myIP dest gw peerMAC : list Z)
  (frames : list (Z * Z * list Z * list Z * list Z)) (tend result : Z) : bool :=
  let arps := filter (fun f => fkind f =? 1) frames in
  let datas := filter (fun f => fkind f =? 2) frames in
  let direct (l : list Z) :=
    negb (nonempty arps) && (result =? 0) && nonempty datas && forallb (fun f => leqb (fdst f) l) datas in
  match resolve_next true [] myMAC gw dest myIP with
  | Known l => direct l
  | Ask a =>
      match resolve_static a with
      | Some l => direct l
      | None =>
          let k := be_int a + 1 in
          match get stackParams init 0 k (Some None) 0 with
          | Some (c1, GBlock (Some _) true, _) =>
              let reply (j : Z) := if lost =? j then [OAdd (j * stackTimeout + 3000000) k 1] else [] in
              match res_run stackParams stackTimeout k c1 0 0 [reply 0; reply 1; reply 2] with
              | Some (c2, reqs, Some fin, _) =>
                  match get stackParams c2 fin k None 0, arps with
                  | Some (_, g, _), first :: _ =>
                      times_ok (ftime first) (map ftime arps) (0 :: reqs) &&
                      forallb (fun f => leqb (fa f) a) arps &&
                      match g with
                      | GAddr _ =>
                          (result =? 0) && nonempty datas &&
                          forallb (fun f => leqb (fdst f) peerMAC &&
                                            forallb (fun r => ftime r <? ftime f) arps) datas
                      | GNoLink =>
                          (result =? 1) && negb (nonempty datas) &&
                          zabs_le ((tend - ftime first) * 1000 - fin) 500000000
                      | GBlock _ _ => false
                      end
                  | _, _ => false
                  end
              | _ => false
              end
          | _ => false
          end
      end
  end.

(* -- neighbour discovery -- *)
Definition ip6Proto : Z := 34525.
(* netx.Link.InjectFrom: for each chunk size c: c = min(c, len(rest)); views += rest[:c]; rest = rest[c:];
   then if len(rest) > 0 || len(views) == 0 { views += rest } *)
Fixpoint split_rec (pkt : list Z) (chunks : list Z) : list (list Z) :=
  match chunks with
  | [] => match pkt with [] => [] | _ => [pkt] end
  | c :: cs => firstn (Z.to_nat c) pkt :: split_rec (skipn (Z.to_nat c) pkt) cs
  end.
Definition split_views (pkt : list Z) (chunks : list Z) : list (list Z) :=
  match chunks with [] => [pkt] | _ => split_rec pkt chunks end.

(* what a lookup must answer on a cache that was empty before the AddLinkAddress calls [learn]
   (in program order: the last call for an address decides) *)
Definition learned_of (learn : list (list Z * list Z)) (ip : list Z) : option (list Z) :=
  fold_left (fun acc e => if leqb (fst e) ip then Some (snd e) else acc) learn None.
Definition lookup_ok_l (learn : list (list Z * list Z)) (l : list Z * bool * list Z) : bool :=
  match l with (ip, found, mac) =>
    match learned_of learn ip with
    | Some m => found && leqb mac m
    | None => negb found
    end
  end.

Definition corr_ndp (locals : list (list Z)) (myMAC srcMAC pkt chunks : list Z) (panicked : bool)
  (frames : list (Z * list Z * list Z)) (lookups : list (list Z * bool * list Z)) : Z :=
  let views := split_views pkt chunks in
  let check (want : option (list (Z * list Z * list Z))) (learn : list (list Z * list Z)) :=
    match want with
    | None => 1
    | Some w => if negb panicked && frames_eqb w frames && forallb (lookup_ok_l learn) lookups then 0 else 1
    end in
  match nd_deliver locals myMAC srcMAC views with
  | NdPanic => bneq panicked true
  | NdDone sent learn =>
      check (match sent with
             | None => Some []
             | Some p => match nd_frame p with
                         | Some b => Some [(ip6Proto, b, np_linkdst p)]
                         | None => None
                         end
             end) learn
  | NdOther =>
      (* not a neighbour discovery message: the other branches of handleICMP (Model/Echo.v); nothing
         is learned; an echo request is answered to the link-layer source *)
      match Echo.nic6_deliver locals views with
      | Some (Echo.NICMP r v) =>
          match Echo.handleICMP6 r v with
          | None => bneq panicked true
          | Some (Echo.A6Reply p) =>
              check (match Echo.ip6_write p with Some b => Some [(ip6Proto, b, srcMAC)] | None => None end) []
          | Some _ => check (Some []) []
          end
      | _ => check (Some []) []
      end
  end.

Definition frame4_eqb (f g : Z * list Z * list Z * list Z) : bool :=
  match f, g with (p1, b1, d1, s1), (p2, b2, d2, s2) => (p1 =? p2) && leqb b1 b2 && leqb d1 d2 && leqb s1 s2 end.

Definition corr_ndpreq (kind : Z) (addr localAddr myMAC : list Z) (panicked : bool)
  (frames : list (Z * list Z * list Z * list Z)) : Z :=
  match nd_link_address_request addr localAddr myMAC with
  | None => if kind =? 0 then bneq panicked true else 1
  | Some (b, d, s) =>
      match frames with
      | [f] => if negb panicked && frame4_eqb (ip6Proto, b, d, s) f then 0 else 1
      | _ => 1
      end
  end.

(* ---- corr: the model on the same inputs does what the implementation did ---- *)
Definition corr (c : case) : Z :=
  match c with
  | CArp locals myMAC srcMAC arpOn first total panicked frames lookups =>
      match nic_deliver_arp arpOn locals myMAC srcMAC first with
      | Panic => bneq panicked true
      | Done reply learn =>
          if panicked then 1 else
          let want := match reply with Some (b, d) => [(arpProto, b, d)] | None => [] end in
          if frames_eqb want frames && forallb (lookup_ok learn) lookups then 0 else 1
      end
  | CCache N age attempts timeout evs nreq next =>
      let P := mkParams (Z.to_nat N) age attempts in
      match corr_cache P init [] 0 evs with
      | Some (c', reqs) => if (reqs =? nreq) && (Z.of_nat (c_next c') =? next) then 0 else 1
      | None => 1
      end
  | CScen kind via lost myMAC myIP dest gw peerMAC frames tend result =>
      if corr_scen lost myMAC myIP dest gw peerMAC frames tend result then 0 else 1
  | CNdp locals myMAC srcMAC pkt chunks panicked frames lookups =>
      corr_ndp locals myMAC srcMAC pkt chunks panicked frames lookups
  | CNdpReq kind addr localAddr myMAC panicked frames =>
      corr_ndpreq kind addr localAddr myMAC panicked frames
  end.

(* ---- spec: the property text, evaluated on the implementation's output, without the model ---- *)
Definition sub (p : list Z) (off n : nat) : list Z := firstn n (skipn off p).
Definition zpad (n : nat) (m : list Z) : list Z := firstn n (m ++ repeat 0 n).

Definition spec_arp locals myMAC srcMAC (arpOn : bool) first (panicked : bool)
  (frames : list (Z * list Z * list Z)) (lookups : list (list Z * bool * list Z)) : Z :=
  if panicked then 1 else
  let wf := arpOn && (28 <=? length first)%nat && leqb (sub first 0 6) [0; 1; 8; 0; 6; 4] in
  let isreq := wf && leqb (sub first 6 2) [0; 1] && existsb (leqb (sub first 24 4)) locals in
  let isrep := wf && leqb (sub first 6 2) [0; 2] in
  (* answered iff a request for one of our addresses; with our link address, addressed to the requester *)
  let frames_ok :=
    if isreq then
      match frames with
      | [(p, b, d)] =>
          (p =? arpProto) &&
          leqb b ([0; 1; 8; 0; 6; 4; 0; 2] ++ zpad 6 myMAC ++ sub first 24 4 ++ sub first 8 6 ++ sub first 14 4) &&
          leqb d srcMAC
      | _ => false
      end
    else match frames with [] => true | _ => false end in
  (* learned from replies and from requests addressed to us; never a value for another address *)
  let learn_ok :=
    forallb (fun l => match l with (ip, found, mac) =>
      if (isreq || isrep) && leqb ip (sub first 14 4) then found && leqb mac (sub first 8 6)
      else negb found end) lookups in
  if frames_ok && learn_ok then 0 else 1.

(* -- monitor for cache histories; [pre] = the earlier events, most recent first -- *)
Definition ev_time (e : cev) : Z :=
  match e with
  | EAdd t _ _ _ _ _ | EGet t _ _ _ _ _ _ _ | ECheck t _ _ _ _ _ _ | ERemove t _ _ => t
  | ETimer _ _ _ => 0
  end.
(* the adds for k among the earlier events, most recent first: (time, value, events after it) *)
Fixpoint adds_for (k : Z) (pre : list cev) (after : Z) : list (Z * Z * Z) :=
  match pre with
  | [] => []
  | EAdd t k' v _ _ _ :: r => if k' =? k then (t, v, after) :: adds_for k r (after + 1) else adds_for k r (after + 1)
  | _ :: r => adds_for k r (after + 1)
  end.
(* a get with a resolver for k at time >= lo among the earlier events *)
Definition resolving_get_since (k lo : Z) (pre : list cev) : bool :=
  existsb (fun e => match e with EGet t k' res _ _ _ _ _ => (k' =? k) && (res =? 1) && (lo <=? t) | _ => false end) pre.

(* a get that returned the address [val]: it is the value of the latest add for k, no older than age *)
Definition get_sound (age now k val : Z) (pre : list cev) : bool :=
  match adds_for k pre 0 with
  | (t, v, _) :: _ => (v =? val) && (now <=? t + age)
  | [] => false
  end.
(* a get that did not return an address although it had to: the latest add for k is young, was
   not a repetition of the same value, did not complete a pending resolution, and fewer than N-1
   events (each allocates at most one slot) followed it *)
Definition get_must_answer (N age now k : Z) (pre : list cev) : bool :=
  match adds_for k pre 0 with
  | (t, v, after) :: older =>
      negb (v =? 0) && (now <=? t + age) && (after <? N - 1) &&
      negb (existsb (fun a => match a with (t', v', _) => (v' =? v) && (t - age <=? t') end) older) &&
      negb (resolving_get_since k (t - age) pre)
  | [] => false
  end.
(* the time and key of the first get that returned channel label c *)
Fixpoint first_block (c : Z) (pre : list cev) : option (Z * Z) :=
  match pre with
  | [] => None
  | EGet t k _ _ r val _ _ :: rest =>
      match first_block c rest with
      | Some x => Some x
      | None => if (r =? 2) && (val =? c) then Some (t, k) else None
      end
  | _ :: rest => first_block c rest
  end.
(* a check for key k that closed one of k's channels before the budget was used up, although the
   entry had not expired *)
Definition failed_early (age attempts now k att : Z) (closed : list Z) (pre : list cev) : bool :=
  existsb (fun c => match first_block c pre with
                    | Some (t0, k0) => (k0 =? k) && (att + 1 <? attempts) && (now <=? t0 + age)
                    | None => false end) closed.
(* has waker w blocked on anything before *)
Definition ever_blocked (w : Z) (pre : list cev) : bool :=
  existsb (fun e => match e with EGet _ _ _ w' r _ _ _ => (w' =? w) && (r =? 2) | _ => false end) pre.
(* wakers with an active registration on channel c: a blocking get returned c and no removeWaker
   for (that key, that waker) followed; [pre] most recent first *)
Fixpoint registered (c : Z) (pre : list cev) (removed : list (Z * Z)) : list Z :=
  match pre with
  | [] => []
  | ERemove _ k w :: rest => registered c rest ((k, w) :: removed)
  | EGet _ k _ w r val _ _ :: rest =>
      if (r =? 2) && (val =? c) && negb (existsb (fun p => (fst p =? k) && (snd p =? w)) removed)
      then w :: registered c rest removed else registered c rest removed
  | _ :: rest => registered c rest removed
  end.
Definition waiters_ok (notified closed : list Z) (pre_with_this : list cev) : bool :=
  forallb (fun w => ever_blocked w pre_with_this) notified &&
  forallb (fun c => forallb (fun w => mem w notified) (registered c pre_with_this [])) closed.

(* resolution completed (an address or a definite no-link-address for k): every done channel handed
   out for k earlier has been closed, i.e. whoever waited was told *)
Definition ev_closed (e : cev) : list Z :=
  match e with
  | EAdd _ _ _ _ c _ | EGet _ _ _ _ _ _ _ c | ECheck _ _ _ _ _ c _ | ETimer _ _ c => c
  | ERemove _ _ _ => []
  end.
Definition waiters_told (k : Z) (closed_now : list Z) (pre : list cev) : bool :=
  let closed_all := closed_now ++ flat_map ev_closed pre in
  forallb (fun e => match e with
                    | EGet _ k' _ _ r val _ _ => negb ((k' =? k) && (r =? 2)) || mem val closed_all
                    | _ => true end) pre.

Fixpoint spec_cache (N age attempts : Z) (pre : list cev) (evs : list cev) : Z :=
  match evs with
  | [] => 0
  | e :: rest =>
      let bad :=
        match e with
        | EAdd now k v notified closed panicked => panicked || negb (waiters_ok notified closed pre)
        | EGet now k res w r val notified closed =>
            (3 <=? r) || negb (waiters_ok notified closed (e :: pre)) ||
            if (res =? 1) && (k =? staticKey) then negb ((r =? 0) && (val =? staticVal))
            else if (r <=? 1) && negb (waiters_told k closed pre) then true
            else if r =? 0 then negb (get_sound age now k val pre)
            else get_must_answer N age now k pre
        | ECheck now k att stop notified closed panicked =>
            panicked || negb (waiters_ok notified closed pre) ||
            (negb stop && (attempts <=? att + 1)) || failed_early age attempts now k att closed pre
        | ERemove _ _ _ => false
        | ETimer ts notified closed =>
            negb (waiters_ok notified closed pre) ||
            existsb (fun t => match t with (now, k, att, requested) =>
                       (attempts <=? att) || (requested && (attempts <=? att + 1)) ||
                       failed_early age attempts now k att closed pre end) ts
        end in
      if bad then 1 else spec_cache N age attempts (e :: pre) rest
  end.

(* -- monitor for the scenarios -- *)
Definition bcast : list Z := [255; 255; 255; 255; 255; 255].
Fixpoint spaced (ts : list Z) : bool :=
  match ts with
  | a :: ((b :: _) as r) => (750000 <=? b - a) && (b - a <=? 1400000) && spaced r
  | _ => true
  end.
Definition spec_scen (via lost : Z) (myMAC myIP dest gw peerMAC : list Z)
  (frames : list (Z * Z * list Z * list Z * list Z)) (tend result : Z) : bool :=
  let arps := filter (fun f => fkind f =? 1) frames in
  let datas := filter (fun f => fkind f =? 2) frames in
  let hop := match gw with [] => dest | _ => gw end in
  let want := if 2 <=? via then 0 else Z.min (lost + 1) 3 in
  (* requests: broadcast, for the next hop, from us, one second apart, as many as the budget allows *)
  (Z.of_nat (length arps) =? want) &&
  forallb (fun f => leqb (fdst f) bcast && leqb (fa f) hop && leqb (fb f) (myMAC ++ myIP)) arps &&
  spaced (map ftime arps) &&
  negb (existsb (fun f => fkind f =? 3) frames) &&
  if (via <? 2) && (3 <=? lost) then
    (* no answer within the budget: nothing but requests on the wire, no-link-address after about 3 s *)
    negb (nonempty datas) && (result =? 1) &&
    match arps with first :: _ => (2750000 <=? tend - ftime first) && (tend - ftime first <=? 4000000) | [] => false end
  else
    (* nothing for the next hop before it is resolved; then to the learned address *)
    (result =? 0) && nonempty datas &&
    forallb (fun f => leqb (fa f) dest &&
                      leqb (fdst f) (if via <? 2 then peerMAC else if via =? 2 then myMAC else bcast) &&
                      forallb (fun r => ftime r <? ftime f) arps) datas.

(* -- monitor for neighbour discovery (RFC 4861 section 4.3/4.4 layouts, RFC 4443 2.3 checksum, RFC 4291
   2.7.1 solicited-node address), written with plain byte positions and its own one's-complement sum --

   Reading of the property text for IPv6: "its own addresses" = the addresses the NIC holds (every
   address added to it, a multicast group added with AddAddress included); a solicitation is
   "addressed to it" when its IPv6 destination is an address / group of the NIC, or - for a unicast
   target - the solicited-node multicast address of the target (the group every holder of the target
   must listen on); "its own link address" = the link endpoint's address in a target link-layer
   address option; "addressed to the requester" = IPv6 destination = the solicitation's source, link
   destination = the frame's link-layer source; "the sender's mapping" = the sender's IPv6 address
   and, for advertisements, the advertised target address, each with the link address the frame came
   from (nothing is required for the unspecified address).  The ICMPv6 checksum, hop limit and code
   of the inbound message and the contents of its options are not part of the property text and are
   not looked at.
   Messages whose first view ends inside the part the handler reads (the C13-split-header
   situation) may be answered / learned from or not.
   Result: 0 ok, 1 violation,
     2 = a solicitation for an own unicast address sent to the target's solicited-node multicast
         address is not answered because the NIC never joined that group
         (C12-ndp-solicited-node-not-joined). *)
Fixpoint wsum16 (l : list Z) : Z :=
  match l with
  | a :: b :: t => a * 256 + b + wsum16 t
  | [a] => a * 256
  | [] => 0
  end.
Definition fold16 (x : Z) : Z :=
  let y := x mod 65536 + x / 65536 in y mod 65536 + y / 65536.
(* RFC 4443 2.3 / RFC 2460 8.1: pseudo-header (source, destination, 32-bit upper-layer length, three
   zero bytes, next header 58) followed by the message sums to 0xffff *)
Definition icmp6_sum_ok (src dst msg : list Z) : bool :=
  let n := Z.of_nat (length msg) in
  fold16 (wsum16 (src ++ dst ++ [0; 0; n / 256; n mod 256] ++ [0; 0; 0; 58] ++ msg)) =? 65535.
Definition is_mc (a : list Z) : bool := match a with x :: _ => x =? 255 | [] => false end.
Definition sn_of (a : list Z) : list Z := [255; 2; 0; 0; 0; 0; 0; 0; 0; 0; 0; 1; 255] ++ skipn 13 a.
Definition all_zero (l : list Z) : bool := forallb (Z.eqb 0) l.

(* [b] is an IPv6 packet carrying exactly one ICMPv6 message [msg] of 32 bytes from [src] to [dst]
   with hop limit 255 and a valid checksum *)
Definition ip6_icmp32 (b src dst : list Z) : bool :=
  (length b =? 72)%nat && (nth 0 b 0 / 16 =? 6) && leqb (sub b 4 4) [0; 32; 58; 255] &&
  leqb (sub b 8 16) src && leqb (sub b 24 16) dst && icmp6_sum_ok src dst (skipn 40 b).

Definition spec_ndp (locals : list (list Z)) (myMAC srcMAC pkt chunks : list Z) (panicked : bool)
  (frames : list (Z * list Z * list Z)) (lookups : list (list Z * bool * list Z)) : Z :=
  if panicked then 1 else
  let firstlen := match chunks with [] => length pkt | c :: _ => Nat.min (Z.to_nat c) (length pkt) end in
  let plen := nth 4 pkt 0 * 256 + nth 5 pkt 0 in
  let hdr_ok := (40 <=? firstlen)%nat && (plen <=? Z.of_nat (length pkt) - 40) && (nth 6 pkt 0 =? 58) in
  let src := sub pkt 8 16 in
  let dst := sub pkt 24 16 in
  let msg := firstn (Z.to_nat plen) (skipn 40 pkt) in
  let seen := Nat.min (firstlen - 40) (length msg) in
  let ty := nth 0 msg 0 in
  let target := sub msg 8 16 in
  let accepted := existsb (leqb dst) locals in
  let is_ns := hdr_ok && (ty =? 135) && (24 <=? length msg)%nat in
  let is_na := hdr_ok && (ty =? 136) && (32 <=? length msg)%nat in
  let split := (is_ns && (seen <? 24)%nat) || (is_na && (seen <? 32)%nat) in
  let own := existsb (leqb target) locals in
  let reply_ok :=
    match frames with
    | [(p, b, d)] =>
        (p =? ip6Proto) && leqb d srcMAC && ip6_icmp32 b target src &&
        leqb (sub b 40 2) [136; 0] &&
        (* flags: not a router; solicited (RFC 4861 7.2.4; either way for a probe from the unspecified
           address); override is a SHOULD; reserved bits zero *)
        (let fl := nth 44 b 0 in (fl =? 96) || (fl =? 64) || (all_zero src && ((fl =? 32) || (fl =? 0)))) &&
        all_zero (sub b 45 3) && leqb (sub b 48 16) target &&
        leqb (sub b 64 8) ([2; 1] ++ zpad 6 myMAC)
    | _ => false
    end in
  (* no frame is a neighbour advertisement (an echo request among the mutations is answered by an echo reply) *)
  let no_advert :=
    forallb (fun f => match f with (p, b, d) => negb ((p =? ip6Proto) && (nth 40 b 0 =? 136)) end) frames in
  (* lookups: [must] = addresses that have to be known, [may] = may be known, all others unknown;
     a known address carries the link address the frame came from *)
  let learn_ok (must may : list (list Z)) :=
    forallb (fun l => match l with (ip, found, m) =>
      if existsb (leqb ip) must then found && leqb m srcMAC
      else if existsb (leqb ip) may then negb found || leqb m srcMAC
      else negb found end) lookups in
  let judge_learn (must may : list (list Z)) : Z := if learn_ok must may then 0 else 1 in
  (* the sender's own address, unless it is the unspecified address (nothing to learn then) *)
  let sender_must := if all_zero src then [] else [src] in
  let sender_may := if all_zero src then [src] else [] in
  match frames with
  | _ :: _ =>
      if is_ns && accepted && own then (if reply_ok then judge_learn sender_must sender_may else 1)
      else if no_advert && negb is_ns && negb is_na then judge_learn [] []
      else 1
  | [] =>
      if is_ns && negb split && own && accepted then 1
      else if is_ns && negb split && own && negb (is_mc target) && leqb dst (sn_of target) then 2
      else if is_na && accepted then
        (if split then judge_learn [] [target; src] else judge_learn (target :: sender_must) sender_may)
      else judge_learn [] []
  end.

Definition spec_ndpreq (kind : Z) (addr localAddr myMAC : list Z) (panicked : bool)
  (frames : list (Z * list Z * list Z * list Z)) : Z :=
  if negb ((length addr =? 16)%nat && (length localAddr =? 16)%nat) then 0 (* not an IPv6 address: outside the property *)
  else if panicked then 1 else
  match frames with
  | [(p, b, d, s)] =>
      (* "a request is broadcast": to the target's solicited-node group, on the link to everybody
         (ff:ff:ff:ff:ff:ff, what the code does) or to the group's Ethernet address (RFC 2464: 33:33:ff:xx:xx:xx) *)
      if (p =? ip6Proto) && (leqb d bcast || leqb d ([51; 51; 255] ++ skipn 13 addr)) &&
         ip6_icmp32 b localAddr (sn_of addr) &&
         leqb (sub b 40 2) [135; 0] && all_zero (sub b 44 4) && leqb (sub b 48 16) addr &&
         leqb (sub b 64 8) ([1; 1] ++ zpad 6 myMAC)
      then 0 else 1
  | _ => 1
  end.

Definition spec (c : case) : Z :=
  match c with
  | CArp locals myMAC srcMAC arpOn first total panicked frames lookups =>
      spec_arp locals myMAC srcMAC arpOn first panicked frames lookups
  | CCache N age attempts timeout evs nreq next => spec_cache N age attempts [] evs
  | CScen kind via lost myMAC myIP dest gw peerMAC frames tend result =>
      if spec_scen via lost myMAC myIP dest gw peerMAC frames tend result then 0 else 1
  | CNdp locals myMAC srcMAC pkt chunks panicked frames lookups =>
      spec_ndp locals myMAC srcMAC pkt chunks panicked frames lookups
  | CNdpReq kind addr localAddr myMAC panicked frames =>
      spec_ndpreq kind addr localAddr myMAC panicked frames
  end.

(* ---- tag: CArp: 0 = runt / not delivered; 1 answered request; 2 reply learned; 3 valid request
   for a foreign address; 4 valid header, other op; 5 malformed header of full length.
   CCache: 0 = nothing returned an address or blocked; 11 explicit history; 12 ring overflow
   (more events than slots); 13 real resolver timers, a resolution failed; 14 real timers, other.
   CScen: 21 resolved after [lost] lost requests; 22 failed; 23 no resolution needed.
   CNdp: 0 = never reaches the ICMPv6 handler (runt, bad payload length, other next header,
   destination not an address of the NIC); 31 solicitation for an assigned unicast address;
   32 solicitation for another target; 33 advertisement; 34 solicitation / advertisement too short
   or split behind its first view; 35 another ICMPv6 type; 36 solicitation for a joined multicast
   group; 37 solicitation for an own address to a solicited-node group the NIC did not join.
   CNdpReq: 0 = address not 16 bytes; 40 direct call; 41 via GetLinkAddress; 42 via a UDP write ---- *)
Definition tag (c : case) : Z :=
  match c with
  | CArp locals myMAC srcMAC arpOn first total panicked frames lookups =>
      if negb arpOn || (length first <? 28)%nat then 0 else
      if negb (leqb (sub first 0 6) [0; 1; 8; 0; 6; 4]) then 5 else
      if leqb (sub first 6 2) [0; 1] then (if existsb (leqb (sub first 24 4)) locals then 1 else 3) else
      if leqb (sub first 6 2) [0; 2] then 2 else 4
  | CCache N age attempts timeout evs nreq next =>
      if negb (existsb (fun e => match e with EGet _ _ _ _ r _ _ _ => (r =? 0) || (r =? 2) | _ => false end) evs) then 0
      else if N <? Z.of_nat (length evs) then 12
      else if timeout =? 0 then 11
      else if existsb (fun e => match e with ETimer _ _ (_ :: _) => true | _ => false end) evs then 13
      else 14
  | CScen kind via lost myMAC myIP dest gw peerMAC frames tend result =>
      if 2 <=? via then 23 else if 3 <=? lost then 22 else 21
  | CNdp locals myMAC srcMAC pkt chunks panicked frames lookups =>
      let firstlen := match chunks with [] => length pkt | c :: _ => Nat.min (Z.to_nat c) (length pkt) end in
      let plen := nth 4 pkt 0 * 256 + nth 5 pkt 0 in
      let hdr_ok := (40 <=? firstlen)%nat && (plen <=? Z.of_nat (length pkt) - 40) && (nth 6 pkt 0 =? 58) in
      let dst := sub pkt 24 16 in
      let msg := firstn (Z.to_nat plen) (skipn 40 pkt) in
      let seen := Nat.min (firstlen - 40) (length msg) in
      let ty := nth 0 msg 0 in
      let target := sub msg 8 16 in
      let assigned := existsb (leqb target) locals in
      if negb hdr_ok then 0
      else if negb (existsb (leqb dst) locals) then
        (if (ty =? 135) && (24 <=? length msg)%nat && assigned && negb (is_mc target) && leqb dst (sn_of target) then 37 else 0)
      else if ty =? 135 then
        (if (seen <? 24)%nat then 34 else if assigned then (if is_mc target then 36 else 31) else 32)
      else if ty =? 136 then (if (seen <? 32)%nat then 34 else 33)
      else 35
  | CNdpReq kind addr localAddr myMAC panicked frames =>
      if negb ((length addr =? 16)%nat && (length localAddr =? 16)%nat) then 0 else 40 + kind
  end.

Definition judge (c : case) : list Z := [corr c; spec c; tag c].
Definition judge_all (cs : list case) : list Z := flat_map judge cs.
