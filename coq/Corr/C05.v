(* C05 correspondence: lock-step TCP traces (Corr/TcpTrace.v) + the loss-recovery / congestion
   monitor.  [spec] is computed from the implementation's observations only (events, state
   snapshots, emitted frames); it does not call Model.Tcp.step. *)
From Coq Require Import ZArith List Bool.
From NP Require Export Model.Seqnum Model.Tcp Corr.TcpTrace.
Import ListNotations.
Open Scope Z_scope.

Definition case := TcpTrace.case.

(* ---- vocabulary of the monitor (simple list / arithmetic definitions) ---- *)

Definition isDataF (f : frame) : bool := negb (len (f_data f) =? 0).
Definition dataFrames (fs : list frame) : list frame := filter isDataF fs.
Definition nData (fs : list frame) : Z := Z.of_nat (length (dataFrames fs)).
Definition fEnd (f : frame) : Z := u32 (f_seq f + len (f_data f)).

Fixpoint memZ (x : Z) (l : list Z) : bool :=
  match l with [] => false | y :: r => (x =? y) || memZ x r end.
Fixpoint addAll (xs l : list Z) : list Z :=
  match xs with [] => l | x :: r => if memZ x l then addAll r l else addAll r (x :: l) end.

(* the segment reaches the sender's ACK processing *)
Definition procd (prev : tcp) (sg : seg) : bool :=
  (estate prev =? 0) && negb (has (s_flags sg) fRst) && has (s_flags sg) fAck &&
  negb (tsOk prev && negb (s_ts sg)).
Definition pureAck (sg : seg) : bool :=
  (len (s_data sg) =? 0) && negb (has (s_flags sg) fSyn) && negb (has (s_flags sg) fFin).
Definition swnd (prev : tcp) (sg : seg) : Z := u32 (Z.shiftl (s_wnd sg) (sndWndScale (SN prev))).

(* exact duplicate ACK for the current left edge, with data outstanding (RFC 5681) *)
Definition dupStrict (prev : tcp) (sg : seg) : bool :=
  let s := SN prev in
  procd prev sg && pureAck sg && (swnd prev sg =? sndWnd s) && (s_ack sg =? sndUna s) &&
  negb (sndUna s =? sndNxt s).
(* the counter D of the bound also accepts the recovery point during fast recovery (as theorem
   C05_reno_cwnd_bound does; the two coincide whenever fr.first = sndUna) *)
Definition dupCounted (prev : tcp) (sg : seg) : bool :=
  let s := SN prev in
  dupStrict prev sg ||
  (procd prev sg && pureAck sg && (swnd prev sg =? sndWnd s) && frActive s && (s_ack sg =? frFirst s)).

Definition wlen (w : wseg) : Z :=
  u32 (len (w_data w) + (if has (w_flags w) fSyn then 1 else 0) + (if has (w_flags w) fFin then 1 else 0)).
(* number of leading write-list segments wholly covered by k newly acknowledged bytes *)
Fixpoint coveredM (l : list wseg) (k : Z) : Z :=
  match l with
  | [] => 0
  | w :: r => if 0 <? k then (if k <? wlen w then 0 else 1 + coveredM r (k - wlen w)) else 0
  end.
Definition wlist (t : tcp) : list wseg := wsent (SN t) ++ wunsent (SN t).

Definition realRto (prev : tcp) : bool := (estate prev =? 0) && (tstate (SN prev) =? 1).

(* ---- monitor state ---- *)
Record mon := mkMon {
  m_prev : tcp;          (* previous snapshot *)
  m_pre : bool;          (* no ESeg / ERto event yet *)
  m_npre : Z;            (* data frames emitted so far while m_pre *)
  m_A : Z; m_D : Z;      (* segments acknowledged / duplicate ACKs so far *)
  m_ends : list Z;       (* distinct ends of the data frames emitted since the last time-out and not yet acknowledged *)
  m_recov : bool;        (* a time-out or a fast retransmit happened earlier in the trace *)
  m_dups : Z;            (* consecutive exact duplicate ACKs *)
  m_infr : bool;         (* inside the fast recovery whose entry the monitor saw *)
  m_rp : Z;              (* highest sequence number outstanding at the last recovery event (RFC 6582 "recover") *)
  m_lastRto : bool;      (* the last recovery event was a time-out *)
  m_bad : Z;             (* first violated clause, 0 = none *)
  m_tag : Z }.

Definition orTag (t b : Z) : Z := Z.lor t b.

(* [reno]: judge the Reno in-flight bound (b); the other clauses do not depend on the controller *)
Definition mstep (reno : bool) (m : mon) (o : obs) : mon :=
  let prev := m_prev m in
  let sp := SN prev in
  let cur := o_st o in
  let sc := SN cur in
  let fs := o_frames o in
  let una' := sndUna sc in
  let isSeg := match o_ev o with ESeg _ _ => true | _ => false end in
  let isRto := match o_ev o with ERto => true | _ => false end in
  let rrto := isRto && realRto prev in
  (* (a) initial window *)
  let pre' := m_pre m && negb isSeg && negb isRto in
  let npre' := if pre' then m_npre m + nData fs else m_npre m in
  let badA := pre' && (10 <? npre') in
  (* counters *)
  let A' := m_A m + coveredM (wlist prev) (size (sndUna sp) una') in
  let isdupC := match o_ev o with ESeg sg _ => dupCounted prev sg | _ => false end in
  let isdupS := match o_ev o with ESeg sg _ => dupStrict prev sg | _ => false end in
  let D' := m_D m + (if isdupC then 1 else 0) in
  (* (b) in flight *)
  let ends0 := if rrto then [] else m_ends m in
  let ends1 := addAll (map fEnd (dataFrames fs)) ends0 in
  let ends' := filter (fun e => lessThan una' e) ends1 in
  let badB := reno && (10 + A' + D' <? Z.of_nat (length ends')) in
  (* duplicate-ACK run *)
  let procSeg := match o_ev o with ESeg sg _ => procd prev sg | _ => false end in
  let dups' := if isdupS then m_dups m + 1 else if procSeg || isRto then 0 else m_dups m in
  let third := isdupS && (dups' =? 3) && negb (frActive sp) in
  let rexmitUna := existsb (fun f => f_seq f =? sndUna sp) (dataFrames fs) in
  (* (c) fast retransmit on the third duplicate ACK: first recovery of the trace, or after a
     time-out once sndUna is beyond the sequence numbers outstanding at that time-out *)
  (* third duplicate after a FINISHED fast recovery (no time-out since), sndUna beyond that
     recovery's point (RFC 6582 "recover"): the code retransmits only if its fr.last - moved up to
     sndNxt-1 when the recovery ended - is before sndUna; otherwise known finding
     C05-dupacks-after-recovery (code 2 below) *)
  let afterFR := third && m_recov m && negb (m_lastRto m) && negb (m_infr m) && lessThan (m_rp m) (sndUna sp) in
  let frCovers := negb (lessThan (frLast sp) (sndUna sp)) in
  let enter := third && (negb (m_recov m) || (m_lastRto m && lessThan (m_rp m) (sndUna sp)) ||
                         (afterFR && negb frCovers)) in
  let badC := enter && negb rexmitUna in
  (* (c0) "otherwise it is retransmitted by timeout": fewer than three duplicates retransmit nothing *)
  let badC0 := isdupS && (dups' <? 3) && negb (frActive sp) && rexmitUna in
  (* (c2) partial ACK inside that recovery: pure ACK, same window, advances sndUna, not beyond the recovery point *)
  let partial := match o_ev o with
                 | ESeg sg _ => m_infr m && procd prev sg && pureAck sg && (swnd prev sg =? sndWnd sp) &&
                                inRange (u32 (s_ack sg - 1)) (sndUna sp) (sndNxt sp) &&
                                negb (lessThan (m_rp m) (s_ack sg))
                 | _ => false end in
  let badC2 := partial && negb (existsb (fun f => f_seq f =? una') (dataFrames fs)) in
  let infr' := if rrto then false else if enter then true
               else if m_infr m && lessThan (m_rp m) una' then false else m_infr m in
  let rp' := if enter || rrto then u32 (sndNxt sp - 1) else m_rp m in
  let lastRto' := if rrto then true else if enter then false else m_lastRto m in
  (* known finding C05-dupacks-after-recovery: exactly that situation with fr.last not before
     sndUna and no data frame at sndUna emitted *)
  let f12 := afterFR && frCovers && negb rexmitUna in
  (* (d) time-out *)
  let head := match wlist prev with w :: _ => Some w | [] => None end in
  let mustSend := match head with
                  | Some w => negb (len (w_data w) =? 0) && negb (w_flags w =? 0) &&
                              lessThan (w_seq w) (add (sndUna sp) (sndWnd sp))
                  | None => false end in
  let badD := rrto && (rto sp <? 60000000000) &&
              (negb (rto sc =? 2 * rto sp) || (1 <? nData fs) ||
               (mustSend && negb ((nData fs =? 1) && existsb (fun f => f_seq f =? sndUna sp) (dataFrames fs)))) in
  (* (e) floors *)
  let badE := (rto sc <? 200000000) || (reno && ((cwnd sc <? 1) || (ssthresh sc <? 2))) in
  let bad' := if negb (m_bad m =? 0) then m_bad m
              else if badA then 1 else if badB then 2 else if badC then 3 else if badC2 then 4
              else if badD then 5 else if badE then 6 else if badC0 then 7 else 0 in
  let tag' := orTag (orTag (orTag (orTag (orTag (orTag (orTag (m_tag m)
                (if 0 <? nData fs then 1 else 0))
                (if enter then 2 else 0))
                (if rrto then 4 else 0))
                (if partial then 8 else 0))
                (if cwnd sp <? cwnd sc then 16 else 0))
                (if f12 then 32 else 0))
                (if rrto && (60000000000 <=? rto sp) then 64 else 0) in
  mkMon cur pre' npre' A' D' ends' (m_recov m || rrto || enter) dups' infr' rp' lastRto' bad' tag'.

Definition mon0 (init : tcp) : mon := mkMon init true 0 0 0 [] false 0 false 0 false 0 0.

Definition monitor_gen (reno : bool) (c : case) : mon :=
  match c with CTrace _ _ init steps => fold_left (mstep reno) steps (mon0 init) end.
Definition monitor (c : case) : mon := monitor_gen true c.

(* clause that failed (1 initial window, 2 in flight, 3 fast retransmit, 4 partial ACK,
   5 time-out, 6 floors, 7 retransmission on fewer than three duplicates); for diagnosis *)
Definition spec_clause (c : case) : Z := m_bad (monitor c).

(* 0 = satisfied, 1 = violated, 2 = the only deviation of the trace is the known-finding pattern
   C05-dupacks-after-recovery (tag bit 32); any other violation, including any other missing
   fast retransmit, is 1 and takes precedence *)
Definition spec_gen (reno : bool) (c : case) : Z :=
  let m := monitor_gen reno c in
  if negb (m_bad m =? 0) then 1 else if Z.land (m_tag m) 32 =? 32 then 2 else 0.
Definition spec (c : case) : Z := spec_gen true c.

(* classes reached: 1 data segments emitted, 2 fast recovery entered, 4 time-out, 8 partial ACK in
   recovery, 16 cwnd grew, 32 three duplicate ACKs beyond a finished recovery's point triggered no
   retransmission (known finding C05-dupacks-after-recovery), 64 connection given up after back-off *)
Definition tag (c : case) : Z := m_tag (monitor c).

Definition judge (c : case) : list Z := [trace_corr c; spec c; tag c].
Definition judge_all (cs : list case) : list Z := flat_map judge cs.
