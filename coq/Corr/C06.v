(* Correspondence vocabulary for C06.
   CFrame : one frame captured at the link layer of a real stack, with the scenario's identity
            (which addresses / ports / MACs the socket or the answered packet dictates);
   CIds   : the IPv4 headers of consecutive packets of one flow, in emission order;
   CRoute : one call of Stack.FindRoute with the route table and the NICs' address lists.
   [spec] is written with Model/Rfc.v only (independent of the builders); [corr] re-encodes the
   frame with the builders of Model/Emit.v from its decoded fields and the scenario identity. *)
From Coq Require Import ZArith List Bool.
From NP Require Export Model.Emit.
From NP Require Import Model.Rfc.
Import ListNotations.
Open Scope Z_scope.

(* frames are printed compactly: literal bytes, or a run a, a+d, a+2d, ... (mod 256) of n bytes
   (the driver's payload patterns; the driver checks that the encoding expands to the captured bytes) *)
Inductive chunk := Raw (l : list Z) | Run (a d n : Z).
Fixpoint run (n : nat) (a d : Z) : list Z :=
  match n with O => [] | S n' => a :: run n' ((a + d) mod 256) d end.
Definition expand (cs : list chunk) : list Z :=
  flat_map (fun c => match c with Raw l => l | Run a d n => run (Z.to_nat n) a d end) cs.

(* what the scenario knows: [] / -1 = not asserted *)
Record expect := mkExp {
  eSrc : list Z; eDst : list Z;       (* network addresses (ARP: sender / target protocol address) *)
  eTproto : Z;                         (* transport protocol number (ARP: opcode) *)
  eSport : Z; eDport : Z;
  eSrcMac : list Z; eDstMac : list Z }.

Inductive rres := NoRoute | Found (nic : Z) (local nexthop : list Z).

Inductive case :=
| CFrame (scen link proto : Z) (offload : bool) (rdst rsrc : list Z) (e : expect) (frame : list chunk)
| CIds (scen : Z) (hdrs : list (list Z))
| CRoute (table : list rentry) (nics : list nicinfo) (nicid : Z) (laddr raddr : list Z) (res : rres).

Definition bz (b : bool) : Z := if b then 0 else 1.

(* ------------------------------------------------------------------ spec (independent) *)
Definition want_l (e actual : list Z) : bool := match e with [] => true | _ => leq e actual end.
Definition want_z (e actual : Z) : bool := (e <? 0) || (e =? actual).

Definition ports_ok (e : expect) (tp : Z) (pl : list Z) : bool :=
  if (tp =? 6) || (tp =? 17) then want_z (eSport e) (b16 pl 0) && want_z (eDport e) (b16 pl 2) else true.

Definition net_addr_ok (e : expect) (proto : Z) (p : list Z) : bool :=
  if proto =? 2048 then
    want_l (eSrc e) (ip4_src p) && want_l (eDst e) (ip4_dst p) && want_z (eTproto e) (ip4_proto p) &&
    ports_ok e (ip4_proto p) (ip4_payload p)
  else if proto =? 34525 then
    want_l (eSrc e) (ip6_src p) && want_l (eDst e) (ip6_dst p) && want_z (eTproto e) (ip6_nh p) &&
    ports_ok e (ip6_nh p) (ip6_payload p)
  else
    want_l (eSrc e) (arp_spa p) && want_l (eDst e) (arp_tpa p) && want_z (eTproto e) (arp_op_of p).

(* the frame is addressed as the scenario dictates; on a bare link endpoint the link addresses are
   those of the route handed to it, on Ethernet those of the frame *)
Definition addr_ok (link proto : Z) (rdst rsrc : list Z) (e : expect) (f : list Z) : bool :=
  if link =? 1 then
    net_addr_ok e (eth_type_of f) (skipn 14 f) &&
    want_l (eSrcMac e) (eth_src f) && want_l (eDstMac e) (eth_dst f)
  else
    net_addr_ok e proto f && want_l (eSrcMac e) rsrc && want_l (eDstMac e) rdst.

(* No known-finding patterns are left.  The three shapes that used to have codes 2..4 -
   C06-udp-zero-checksum (UDP checksum field 0 where the checksum computes to 0; repaired by /repo
   723c609), C06-ping6-no-pseudo-header (ICMPv6 echo request summed without the pseudo-header;
   65b8ba4), C06-ndp-solicit-zero-src-mac (neighbour solicitation leaving the fd-based link with
   source MAC 00:00:00:00:00:00; 8cee966) - are plain violations (code 1) if they ever come back:
   the first two fail [wf_frame] (wf_udp wants a non-zero verifying checksum, wf_icmp6 a sum over the
   pseudo-header), the third fails [addr_ok] (the scenario dictates the NIC's address as source).
   The driver keeps producing the inputs that exhibited them. *)
Definition net_of (link : Z) (f : list Z) : list Z := if link =? 1 then skipn 14 f else f.
Definition proto_of (link proto : Z) (f : list Z) : Z := if link =? 1 then eth_type_of f else proto.

Fixpoint adjacent_distinct (l : list Z) : bool :=
  match l with
  | a :: t => (match t with b :: _ => negb (a =? b) | [] => true end) && adjacent_distinct t
  | [] => true
  end.
(* consecutive large (> 68 bytes) packets of one flow carry different identifiers *)
Definition ids_ok (hdrs : list (list Z)) : bool :=
  adjacent_distinct (map ip4_id (filter (fun h => 68 <? ip4_total h) hdrs)).

(* The identifier counter is shared by all flows that hash to the same bucket, and a frame of the
   flow itself can miss the capture window of its scenario on a loaded machine (a late
   retransmission, the reset of a closed connection): the exact prediction of Model/Emit.v
   [model_ids] is accepted, and so is a sequence in which every large packet's identifier is 1..8
   ahead of the previous large packet's (small packets carry 0). *)
Fixpoint ids_lenient (hdrs : list (list Z)) (counter : option Z) : bool :=
  match hdrs with
  | [] => true
  | h :: rest =>
      let len := ip4_total h in
      let id := ip4_id h in
      if 68 <? len then
        match counter with
        | None => ids_lenient rest (Some id)
        | Some c => let d := (id - c) mod 65536 in (1 <=? d) && (d <=? 8) && ids_lenient rest (Some id)
        end
      else (id =? 0) && ids_lenient rest counter
  end.

(* FindRoute: the answer of Model/Rfc.v [first_match] (first eligible table entry, in order) *)
Definition to_rt (e : rentry) : rt_entry := (reDst e, reMask e, reGw e, reNic e).
Definition to_if (n : nicinfo) : rt_iface := (nId n, nAddrs n).
Definition route_ok (table : list rentry) (nics : list nicinfo) (nicid : Z) (laddr raddr : list Z) (res : rres) : bool :=
  match first_match (map to_rt table) (map to_if nics) nicid laddr raddr, res with
  | None, NoRoute => true
  | Some (n, a, g), Found nic local nh => (nic =? n) && leq a local && leq g nh
  | _, _ => false
  end.

Definition spec (c : case) : Z :=
  match c with
  | CFrame _ link proto offload rdst rsrc e fr =>
      let f := expand fr in
      let wf := wf_frame link proto offload f in
      let ad := addr_ok link proto rdst rsrc e f in
      if wf && ad then 0 else 1
  | CIds _ hdrs => bz (ids_ok hdrs)
  | CRoute table nics nicid laddr raddr res => bz (route_ok table nics nicid laddr raddr res)
  end.

(* ------------------------------------------------------------------ corr (model) *)
Definition res_eq (a b : rres) : bool :=
  match a, b with
  | NoRoute, NoRoute => true
  | Found n l h, Found n' l' h' => (n =? n') && leq l l' && leq h h'
  | _, _ => false
  end.
Definition to_rres (r : option (Z * list Z * list Z)) : rres :=
  match r with None => NoRoute | Some (n, l, h) => Found n l h end.

Definition pick (e actual : list Z) : list Z := match e with [] => actual | _ => e end.
Definition pickz (e actual : Z) : Z := if e <? 0 then actual else e.

Definition corr (c : case) : Z :=
  match c with
  | CFrame _ link proto offload rdst rsrc e fr =>
      let f := expand fr in
      match reencode link proto offload (pick (eSrcMac e) rsrc) (pick (eDstMac e) rdst)
                     (eSrc e) (eDst e) (eSport e) (eDport e) f with
      | Some f' => bz (leq f f')
      | None => 1
      end
  | CIds _ hdrs => bz (leq (map ip4_id hdrs) (model_ids hdrs) || ids_lenient hdrs None)
  | CRoute table nics nicid laddr raddr res =>
      bz (res_eq (to_rres (find_route table nics nicid laddr raddr)) res)
  end.

(* ------------------------------------------------------------------ tag *)
Definition tag (c : case) : Z :=
  match c with
  | CFrame _ link proto _ _ _ _ fr =>
      let f := expand fr in
      let p := net_of link f in
      let pr := proto_of link proto f in
      (if link =? 1 then 10 else 0) +
      (if pr =? 2054 then 1
       else if pr =? 2048 then (if ip4_proto p =? 1 then 2 else if ip4_proto p =? 17 then 3 else 4)
       else (if ip6_nh p =? 58 then 5 else if ip6_nh p =? 17 then 6 else 7))
  | CIds _ hdrs => if (length hdrs <? 2)%nat then 0 else 21
  | CRoute table _ _ _ _ res => match table with [] => 0 | _ => match res with NoRoute => 23 | _ => 22 end end
  end.

Definition judge (c : case) : list Z := [corr c; spec c; tag c].
Definition judge_all (cs : list case) : list Z := flat_map judge cs.
