(* Correspondence vocabulary for C09: one case = one history on a fresh stack with NICs 1 and 2
   (driver harness/cmd/h_c09): configuration calls, socket API calls, raw registrations and inbound
   packets, each with what the implementation answered, plus snapshots of the real registration
   and address tables.  [judge] is evaluated by vm_compute.

   corr: the model (Model/Demux.v [step]) replays the history and must produce the same error
         codes, the same receivers / replies for every packet and the same tables at every snapshot.
   spec: a monitor written from the property text over socket BINDINGS (what the API calls said),
         not over the model's tables: see [spec_ev]. *)
From Coq Require Import ZArith Bool List.
From NP Require Export Model.Demux.
Import ListNotations.
Open Scope Z_scope.

(* addresses are printed by the driver as (A n): n = the bytes in base 256 behind a leading 1 *)
Fixpoint dec_addr (fuel : nat) (z : Z) (acc : list Z) : list Z :=
  match fuel with
  | O => acc
  | S f => if z <=? 1 then acc else dec_addr f (z / 256) (z mod 256 :: acc)
  end.
Definition A (z : Z) : addr := dec_addr 20 z [].

Inductive ev :=
| EOp (o : op) (err : Z)
    (* a call and the error code it returned (0 = nil, 96 = it panicked) *)
| EConn (o : op) (err : Z) (la : addr) (lp : Z)
    (* udp Connect, then GetLocalAddress: the local address and port of the endpoint afterwards *)
| EPkt (nic net : Z) (src dst : addr) (trans sport dport flags : Z)
       (acc : bool)        (* IP.PacketsDelivered moved: the network layer handed it to the transport layer *)
       (got : list Z)      (* sockets whose Read returned the tag / fake endpoints whose HandlePacket saw it *)
       (tcpin : bool)      (* a real tcp endpoint's HandlePacket ran (TCP.ValidSegmentsReceived moved) *)
       (unk : Z)           (* by how much UDP.UnknownPortErrors moved (one per demultiplexer that found nothing) *)
       (reply : Z)         (* 0 nothing came back; 1 a RST mirroring the segment; 2 a SYN-ACK mirroring it; 3 anything else *)
       (quiet : bool)      (* the tables settled again after the driver reset the SYN-RCVD child *)
       (panicked : bool)
| EState (regs : list (Z * Z * Z * tid * Z)) (addrs : list (Z * addr * Z * Z * bool))
| EAccept (nic net : Z) (id : tid) (regnic nreg child : Z)
    (* a connection with 4-tuple id whose SYN arrived on nic was accepted through a listener; the stack
       registered the accepted endpoint nreg times, (last) in the demultiplexer of regnic (0 = the
       stack-wide one); child = the number the harness gives that endpoint *)
| EData (nic net : Z) (id : tid) (child got : Z).
    (* a data segment for exactly that 4-tuple was injected on nic; got = 1 the accepted endpoint
       read exactly its bytes, 0 it read nothing, 2 it read something else *)
    (* regs: (nic or 0, network, transport, id, endpoint number);  addrs: (nic, address, protocol, refs, holdsInsertRef) *)

Inductive case := Hist (evs : list ev).

(* the stack the driver builds: NICs 1 and 2, and this route table *)
Definition routes0 : list rt :=
  [ mkRt [10;0;1;0] [255;255;255;0] [] 1;
    mkRt [10;0;2;0] [255;255;255;0] [] 2;
    mkRt [0;0;0;0] [0;0;0;0] [] 1;
    mkRt (repeat 0 16) (repeat 0 16) [] 1 ].
Definition stack0 : stack := newStack [1; 2] routes0.

Definition FlagSyn : Z := 2.
Definition hasRst (flags : Z) : bool := negb (Z.land flags 4 =? 0).

(* ------------------------------------------------------------------ corr *)

Definition zlist_eqb (a b : list Z) : bool := addr_eqb a b.

Definition reg_eqb (a b : Z * Z * Z * tid * Z) : bool :=
  let '(n1, p1, t1, i1, e1) := a in let '(n2, p2, t2, i2, e2) := b in
  (n1 =? n2) && (p1 =? p2) && (t1 =? t2) && tid_eqb i1 i2 && (e1 =? e2).
Definition ad_eqb (a b : Z * addr * Z * Z * bool) : bool :=
  let '(n1, a1, p1, r1, i1) := a in let '(n2, a2, p2, r2, i2) := b in
  (n1 =? n2) && addr_eqb a1 a2 && (p1 =? p2) && (r1 =? r2) && Bool.eqb i1 i2.

Definition same_set {A} (eqb : A -> A -> bool) (x y : list A) : bool :=
  Nat.eqb (length x) (length y) && forallb (fun a => existsb (eqb a) y) x && forallb (fun b => existsb (eqb b) x) y.

Definition regs_of_demux (nicid : Z) (d : demuxer) : list (Z * Z * Z * tid * Z) :=
  flat_map (fun kt => map (fun ie => (nicid, fst (fst kt), snd (fst kt), fst ie, snd ie)) (snd kt)) d.
Definition model_regs (st : stack) : list (Z * Z * Z * tid * Z) :=
  regs_of_demux 0 (st_demux st) ++ flat_map (fun n => regs_of_demux (n_id n) (n_demux n)) (st_nics st).
Definition model_addrs (st : stack) : list (Z * addr * Z * Z * bool) :=
  flat_map (fun n => map (fun e => (n_id n, ne_addr e, ne_proto e, ne_refs e, ne_insert e)) (n_eps n)) (st_nics st).

(* is endpoint number e a real tcp socket of the history? (fake endpoints are numbered from 100) *)
Definition isTcpSock (st : stack) (e : Z) : bool :=
  match lookupSock (st_socks st) e with Some s => s_kind s =? TCP | None => false end.

(* The driver resets the SYN-RCVD child a listener creates for a SYN; the child's Close() queues a
   FIN segment that clones the route and is never released, so one reference stays on the network
   endpoint of the destination address (a temporary endpoint then stays in place).  This is
   behaviour of the tcp connection code (outside Model/Demux.v); the driver waits until exactly
   this state is reached (quiet), and the replay accounts for it here. *)
Definition leakRef (st : stack) (nicid net : Z) (a : addr) : stack :=
  match lookupNic (st_nics st) nicid with
  | None => st
  | Some n =>
      match lookupNep (n_eps n) a with
      | Some _ => putNic st (setEps n (incRef (n_eps n) a))
      | None => putNic st (setEps n (n_eps n ++ [mkNep a net 1 false]))
      end
  end.

(* how many demultiplexers count an unknown udp port before the packet is placed *)
Definition unk_expected (st : stack) (nicid net trans : Z) (id : tid) : Z :=
  if negb (trans =? UDP) then 0
  else match lookupNic (st_nics st) nicid with
       | None => 0
       | Some n =>
           match deliverPacket (n_demux n) net trans id with
           | Some _ => 0
           | None => match deliverPacket (st_demux st) net trans id with Some _ => 1 | None => 2 end
           end
       end.

Definition corr_ev (st : stack) (e : ev) : stack * bool :=
  match e with
  | EOp o err =>
      let '(st', r) := step st o in
      (st', match r with RErr x => x =? err | _ => false end)
  | EConn o err la lp =>
      let '(st', r) := step st o in
      let okr := match r with RErr x => x =? err | _ => false end in
      let oka := if err =? 0 then
                   match o with
                   | OConnect i _ _ _ _ =>
                       match lookupSock (st_socks st') i with
                       | Some s => addr_eqb (laddr (s_id s)) la && (lport (s_id s) =? lp)
                       | None => false
                       end
                   | _ => false
                   end
                 else true in
      (st', okr && oka)
  | EPkt nicid net src dst trans sport dport flags acc got tcpin unk reply quiet panicked =>
      let id := mkTid dport dst sport src in
      let '(st', r) := step st (OPacket nicid net src dst trans sport dport (hasRst flags)) in
      match r with
      | RPkt acc' o =>
          let '(got', tcpin', reply', unk') :=
            match o with
            | Dropped | NoTransport => ([], false, 0, 0)
            | Delivered e =>
                if isTcpSock st e then ([], true, (if flags =? FlagSyn then 2 else 0), 0)
                else ([e], false, 0, unk_expected st nicid net trans id)
            | Unknown rst => ([], false, (if rst then 1 else 0), unk_expected st nicid net trans id)
            end in
          let st'' := if tcpin' && (reply' =? 2) then leakRef st' nicid net dst else st' in
          (st'', Bool.eqb acc acc' && zlist_eqb got got' && Bool.eqb tcpin tcpin' && (reply =? reply') && (unk =? unk')
                 && quiet && negb panicked)
      | _ => (st', false)
      end
  | EState regs addrs =>
      (st, same_set reg_eqb regs (model_regs st) && same_set ad_eqb addrs (model_addrs st))
  | EAccept nicid net id regnic nreg child =>
      (* accept.go createConnectedEndpoint: n.boundNICID = s.route.NICID(); registered for the
         route's network protocol only, under the segment's id *)
      let '(st', r) := step st (ORawReg nicid [net] TCP id child) in
      (st', (regnic =? nicid) && (nreg =? 1) && match r with RErr x => x =? 0 | _ => false end)
  | EData nicid net id child got =>
      let '(st', r) := step st (OPacket nicid net (raddr id) (laddr id) TCP (rport id) (lport id) false) in
      match r with
      | RPkt _ (Delivered e) => (st', got =? (if e =? child then 1 else 0))
      | RPkt _ _ => (st', got =? 0)
      | _ => (st', false)
      end
  end.

(* 0 = every event agrees; otherwise 1 + the index of the first event that does not *)
Fixpoint corr_evs (st : stack) (evs : list ev) (i : Z) : Z :=
  match evs with
  | [] => 0
  | e :: evs' => let '(st', ok) := corr_ev st e in if ok then corr_evs st' evs' (i + 1) else i + 1
  end.

Definition corr (c : case) : Z := match c with Hist evs => corr_evs stack0 evs 0 end.

(* ------------------------------------------------------------------ spec (independent of the model's tables)

   The monitor keeps, from the API calls and their error codes alone:
   - which addresses were assigned to / removed from each NIC, which NICs are promiscuous, the subnets;
   - one BINDING per open socket that can receive (udp: bound or connected; tcp: listening) and per
     successful raw registration: transport, network protocols, NIC pin (0 = none), local port,
     local address ([] = any), remote port and address ([] / 0 = any).
   For every packet it computes, by scoring all bindings, who must receive it:
     candidates = live bindings of the packet's transport and network protocol, pinned to no NIC or
       to the receiving one, whose port equals the destination port, whose local address is any or
       the destination address, whose remote part is any or the source address and port;
     precedence = bindings pinned to the NIC first, then: specific local address and remote (3) >
       any local address but remote (2) > specific local address, any remote (1) > local port only (0).
   and checks: delivered to at most one; exactly to the best candidate; to nobody when there is no
   candidate (tcp: a RST comes back unless the segment carried RST; udp: nothing comes back) or when
   the destination address is not assigned to the NIC, the NIC is not promiscuous and none of its
   subnets contains the address (then nothing comes back either).
   Codes: 1 = violation; 2 = the packet was accepted for an address that is no longer / was never
   assigned but had been held earlier (lingering reference; only generated with the driver's
   -linger flag). *)

Record sbind := mkB { b_sock : Z; b_trans : Z; b_nets : list Z; b_pin : Z; b_port : Z; b_laddr : addr;
                      b_rport : Z; b_raddr : addr }.

(* what the monitor remembers of a socket between calls: kind, net, bind nic, bind address, port,
   owner NIC of the bind address at bind time, stage (0 new, 1 bound, 2 connected, 3 listening, 4 closed) *)
Record ssock := mkS { k_kind : Z; k_net : Z; k_nic : Z; k_addr : addr; k_port : Z; k_owner : Z; k_stage : Z }.

Record sstate := mkSS { ss_binds : list sbind; ss_socks : list (Z * ssock); ss_addrs : list (Z * addr);
                        ss_promisc : list Z; ss_subnets : list (Z * addr * addr); ss_held : list (Z * addr) }.

Definition ss0 : sstate := mkSS [] [] [] [] [] [].

Definition memZ (x : Z) (l : list Z) : bool := existsb (Z.eqb x) l.
Definition na_eqb (a b : Z * addr) : bool := (fst a =? fst b) && addr_eqb (snd a) (snd b).
Definition memNA (x : Z * addr) (l : list (Z * addr)) : bool := existsb (na_eqb x) l.

Fixpoint sslookup (l : list (Z * ssock)) (i : Z) : option ssock :=
  match l with [] => None | (j, s) :: l' => if j =? i then Some s else sslookup l' i end.
Definition ssput (l : list (Z * ssock)) (i : Z) (s : ssock) : list (Z * ssock) :=
  (i, s) :: filter (fun js => negb (fst js =? i)) l.

(* big-endian value of an address *)
Definition num (a : addr) : Z := fold_left (fun acc x => acc * 256 + x) a 0.
Definition sn_has (am : addr * addr) (a : addr) : bool :=
  Nat.eqb (length a) (length (fst am)) && (Z.land (num a) (num (snd am)) =? num (fst am)).
(* tcpip.NewSubnet accepts (a, m) *)
Definition sn_ok (a m : addr) : bool := Nat.eqb (length a) (length m) && (Z.land (num a) (num m) =? num a).

Definition owner_of (s : sstate) (a : addr) : Z :=
  match filter (fun na => addr_eqb (snd na) a) (ss_addrs s) with na :: _ => fst na | [] => 0 end.

Definition drop_sock (bs : list sbind) (i : Z) : list sbind := filter (fun b => negb (b_sock b =? i)) bs.

Definition setBinds (s : sstate) (bs : list sbind) : sstate :=
  mkSS bs (ss_socks s) (ss_addrs s) (ss_promisc s) (ss_subnets s) (ss_held s).
Definition setSocks (s : sstate) (l : list (Z * ssock)) : sstate :=
  mkSS (ss_binds s) l (ss_addrs s) (ss_promisc s) (ss_subnets s) (ss_held s).

Definition same_id (b : sbind) (id : tid) : bool :=
  (b_port b =? lport id) && addr_eqb (b_laddr b) (laddr id) && (b_rport b =? rport id) && addr_eqb (b_raddr b) (raddr id).

Definition filter_ok (s : sstate) (nicid : Z) (dst : addr) : bool :=
  memNA (nicid, dst) (ss_addrs s) || memZ nicid (ss_promisc s)
  || existsb (fun x => let '(n, a, m) := x in (n =? nicid) && sn_has (a, m) dst) (ss_subnets s).

(* bookkeeping for a call that returned [err] *)
Definition spec_op (s : sstate) (o : op) (err : Z) (la : addr) (lp : Z) : sstate :=
  if negb (err =? 0) then s else
  match o with
  | OAddAddr nicid _ a =>
      mkSS (ss_binds s) (ss_socks s) ((nicid, a) :: ss_addrs s) (ss_promisc s) (ss_subnets s) ((nicid, a) :: ss_held s)
  | ORemoveAddr nicid a =>
      mkSS (ss_binds s) (ss_socks s) (filter (fun x => negb (na_eqb x (nicid, a))) (ss_addrs s)) (ss_promisc s) (ss_subnets s) (ss_held s)
  | OAddSubnet nicid a m =>
      mkSS (ss_binds s) (ss_socks s) (ss_addrs s) (ss_promisc s) ((nicid, a, m) :: ss_subnets s) (ss_held s)
  | OPromisc nicid b =>
      mkSS (ss_binds s) (ss_socks s) (ss_addrs s)
           (if b then nicid :: ss_promisc s else filter (fun x => negb (x =? nicid)) (ss_promisc s)) (ss_subnets s) (ss_held s)
  | ONewSock i kind net => setSocks s (ssput (ss_socks s) i (mkS kind net 0 [] 0 0 0))
  | OBind i nicid a port _ =>
      match sslookup (ss_socks s) i with
      | None => s
      | Some k =>
          (* tcp Bind: boundNICID = CheckLocalAddress(addr.NIC, ...): a bind that names a NIC and
             succeeded is pinned to THAT NIC (which may hold the address only through promiscuous
             mode or a subnet); without a NIC it is the NIC owning the address *)
          (* ... and when several NICs would accept the address (own address on one, promiscuous mode
             or a covering subnet on another) CheckLocalAddress(0, ...) returns whichever NIC Go's map
             iteration visits first: the pin is then unknown to the monitor (-1) *)
          let k' := mkS (k_kind k) (k_net k) nicid a port
                        (if nicid =? 0
                         then match filter (fun n => filter_ok s n a) [1; 2] with
                              | [n] => n
                              | [] =>
                                  (* no NIC accepts the address now, yet the bind may succeed on an
                                     address that lingers (known finding): the endpoint is then pinned
                                     to the NIC still holding it - the one the monitor saw accept a
                                     packet for it, otherwise unknown *)
                                  let o := owner_of s a in
                                  if negb (o =? 0) || isNil a then o
                                  else match filter (fun n => memNA (n, a) (ss_held s)) [1; 2] with
                                       | [n] => n
                                       | _ => -1
                                       end
                              | _ => -1
                              end
                         else nicid) 1 in
          let s1 := setSocks s (ssput (ss_socks s) i k') in
          if k_kind k =? UDP then
            let nets := if (k_net k =? IPv6) && isNil a then [IPv6; IPv4] else [k_net k] in
            setBinds s1 (mkB i UDP nets nicid port a 0 [] :: drop_sock (ss_binds s1) i)
          else s1
      end
  | OConnect i nicid ra rp _ =>
      match sslookup (ss_socks s) i with
      | None => s
      | Some k =>
          let pin := if negb (k_stage k =? 0) && negb (k_nic k =? 0) then k_nic k else nicid in
          let nets := if k_net k =? IPv6 then [IPv4; IPv6] else [k_net k] in
          let k' := mkS (k_kind k) (k_net k) (k_nic k) (k_addr k) lp (k_owner k) 2 in
          setBinds (setSocks s (ssput (ss_socks s) i k')) (mkB i UDP nets pin lp la rp ra :: drop_sock (ss_binds s) i)
      end
  | OListen i =>
      match sslookup (ss_socks s) i with
      | None => s
      | Some k =>
          if (k_kind k =? TCP) && (k_stage k =? 1) then
            let nets := if (k_net k =? IPv6) && isNil (k_addr k) then [IPv6; IPv4] else [k_net k] in
            let pin := if isNil (k_addr k) then 0 else k_owner k in
            setBinds (setSocks s (ssput (ss_socks s) i (mkS (k_kind k) (k_net k) (k_nic k) (k_addr k) (k_port k) (k_owner k) 3)))
                     (mkB i TCP nets pin (k_port k) (k_addr k) 0 [] :: drop_sock (ss_binds s) i)
          else s
      end
  | OClose i =>
      match sslookup (ss_socks s) i with
      | None => s
      | Some k => setBinds (setSocks s (ssput (ss_socks s) i (mkS (k_kind k) (k_net k) (k_nic k) (k_addr k) (k_port k) (k_owner k) 4)))
                           (drop_sock (ss_binds s) i)
      end
  | ORawReg nicid nets trans id ep =>
      setBinds s (mkB ep trans nets nicid (lport id) (laddr id) (rport id) (raddr id) :: ss_binds s)
  | ORawUnreg nicid nets trans id =>
      (* whatever is registered under this id on this demultiplexer stops listening on these networks *)
      setBinds s (map (fun b => if (b_pin b =? nicid) && (b_trans b =? trans) && same_id b id
                                then mkB (b_sock b) (b_trans b) (filter (fun n => negb (memZ n nets)) (b_nets b)) (b_pin b)
                                         (b_port b) (b_laddr b) (b_rport b) (b_raddr b)
                                else b) (ss_binds s))
  | OPacket _ _ _ _ _ _ _ _ => s
  end.

Definition remote_any (b : sbind) : bool := isNil (b_raddr b) && (b_rport b =? 0).

Definition candidate (b : sbind) (nicid net : Z) (src dst : addr) (trans sport dport : Z) : bool :=
  (b_trans b =? trans) && memZ net (b_nets b) && ((b_pin b =? 0) || (b_pin b =? nicid)) && (b_port b =? dport)
  && (isNil (b_laddr b) || addr_eqb (b_laddr b) dst)
  && (remote_any b || (addr_eqb (b_raddr b) src && (b_rport b =? sport))).

(* larger = takes precedence *)
Definition prec (b : sbind) : Z :=
  (if b_pin b =? 0 then 0 else 4) + (if remote_any b then 0 else 2) + (if isNil (b_laddr b) then 0 else 1).

Fixpoint best (bs : list sbind) (cur : option sbind) : option sbind :=
  match bs with
  | [] => cur
  | b :: bs' => best bs' (match cur with None => Some b | Some c => if prec c <? prec b then Some b else Some c end)
  end.

Definition spec_pkt (s : sstate) (nicid net : Z) (src dst : addr) (trans sport dport flags : Z)
           (acc : bool) (got : list Z) (tcpin : bool) (reply : Z) (quiet panicked : bool) : Z :=
  if panicked || negb quiet then 1
  else if reply =? 3 then 1
  else if (Z.of_nat (length got) + (if tcpin then 1 else 0)) >? 1 then 1
  else if negb acc then
    if filter_ok s nicid dst then 1
    else match got with [] => if tcpin || negb (reply =? 0) then 1 else 0 | _ => 1 end
  else
    let lingering := negb (filter_ok s nicid dst) in
    if lingering && negb (memNA (nicid, dst) (ss_held s)) then 1
    else
      let verdict_of (bs : list sbind) :=
        match best (filter (fun b => candidate b nicid net src dst trans sport dport) bs) None with
        | Some b =>
            if (b_trans b =? TCP) && (b_sock b <? 100) then
              (* a listening tcp socket: it takes the segment and answers a SYN with a SYN-ACK from the destination *)
              match got with
              | [] => if tcpin && (reply =? (if flags =? FlagSyn then 2 else 0)) then 0 else 1
              | _ => 1
              end
            else
              match got with
              | [g] => if (g =? b_sock b) && negb tcpin && (reply =? 0) then 0 else 1
              | _ => 1
              end
        | None =>
            match got with
            | [] => if tcpin then 1
                    else if reply =? (if (trans =? TCP) && negb (hasRst flags) then 1 else 0) then 0 else 1
            | _ => 1
            end
        end in
      (* a listener whose pin is unknown (-1) is registered either on this packet's NIC or on
         another one: both readings are acceptable *)
      let as_any := map (fun b => if b_pin b =? -1 then mkB (b_sock b) (b_trans b) (b_nets b) nicid (b_port b) (b_laddr b) (b_rport b) (b_raddr b) else b) (ss_binds s) in
      let without := filter (fun b => negb (b_pin b =? -1)) (ss_binds s) in
      let v1 := verdict_of as_any in
      let verdict := if v1 =? 0 then 0 else verdict_of without in
      if verdict =? 0 then (if lingering then 2 else 0) else verdict.

Definition worse (a b : Z) : Z := if a =? 1 then 1 else if b =? 1 then 1 else Z.max a b.

Fixpoint spec_evs (s : sstate) (evs : list ev) (acc : Z) : Z :=
  match evs with
  | [] => acc
  | e :: evs' =>
      match e with
      | EOp o err => spec_evs (spec_op s o err [] 0) evs' (if err =? 96 then 1 else acc)
      | EConn o err la lp => spec_evs (spec_op s o err la lp) evs' (if err =? 96 then 1 else acc)
      | EPkt nicid net src dst trans sport dport flags a got tcpin unk reply quiet panicked =>
          let v := spec_pkt s nicid net src dst trans sport dport flags a got tcpin reply quiet panicked in
          (* an address the NIC accepted a packet for is, from then on, one it has held *)
          let s' := if a then mkSS (ss_binds s) (ss_socks s) (ss_addrs s) (ss_promisc s) (ss_subnets s) ((nicid, dst) :: ss_held s) else s in
          spec_evs s' evs' (worse acc v)
      | EState _ _ => spec_evs s evs' acc
      | EAccept _ _ _ _ _ _ => spec_evs s evs' acc
      | EData _ _ _ _ got =>
          (* the connected socket is the most specific match of its own 4-tuple whatever listeners
             or bound sockets exist (its local address stays assigned in these histories) *)
          spec_evs s evs' (worse acc (if got =? 1 then 0 else 1))
      end
  end.

Definition spec (c : case) : Z := match c with Hist evs => spec_evs ss0 evs 0 end.

(* ------------------------------------------------------------------ tag
   0 = no packet reached anybody and nothing came back; otherwise
   1 (some packet was delivered to a socket / fake endpoint) + 2 (some RST came back)
   + 4 (some packet was accepted by a promiscuous NIC or through a subnet for an unassigned address) *)
Fixpoint tag_evs (s : sstate) (evs : list ev) (d r p : bool) : Z :=
  match evs with
  | [] => (if d then 1 else 0) + (if r then 2 else 0) + (if p then 4 else 0)
  | e :: evs' =>
      match e with
      | EOp o err => tag_evs (spec_op s o err [] 0) evs' d r p
      | EConn o err la lp => tag_evs (spec_op s o err la lp) evs' d r p
      | EPkt nicid _ _ dst _ _ _ _ a got tcpin _ reply _ _ =>
          tag_evs s evs' (d || tcpin || negb (Nat.eqb (length got) 0)) (r || (reply =? 1))
                  (p || (a && negb (memNA (nicid, dst) (ss_addrs s))))
      | EState _ _ => tag_evs s evs' d r p
      | EAccept _ _ _ _ _ _ => tag_evs s evs' d r p
      | EData _ _ _ _ got => tag_evs s evs' (d || (got =? 1)) r p
      end
  end.
Definition tag (c : case) : Z := match c with Hist evs => tag_evs ss0 evs false false false end.

Definition judge (c : case) : list Z := [corr c; spec c; tag c].
Definition judge_all (cs : list case) : list Z := flat_map judge cs.
