(* Correspondence vocabulary for C13 (ICMP echo).  One case = what the driver h_c13 injected into a
   real stack (whole IP packets, how they were split into views, which addresses the NIC owns)
   together with the IP packets the stack emitted in response.  [judge] is evaluated by vm_compute.

   corr: the model (Model/Echo.v: NIC address filter, HandlePacket, handleICMP, the bounded queue
         state machine, sendPing4 / the ipv6 echo branch, WritePacket) run on the same input
         produces exactly the emitted packets, byte for byte (the IPv4 identification, which comes
         from a global counter, is read from the observed frame and used only where the code uses it).
   spec: an RFC 792 / RFC 4443 monitor on the observed packets, written without the model functions.
   tag : branch class. *)
From Coq Require Import ZArith Bool List.
From NP Require Import Model.Bytes Model.Checksum Model.HdrIP Model.Echo.
Import ListNotations.
Open Scope Z_scope.

Inductive ev :=
| EA (pkt : list Z)      (* an IPv4 packet injected as one view *)
| ER (frame : list Z).   (* the replier goroutine handed this packet to the link endpoint *)

(* decoded cases (all byte strings expanded); the driver prints the compact form [case] below *)
Inductive dcase :=
(* one IPv4 packet injected as views of the given sizes on an idle endpoint; frames = everything the
   stack emitted before the reply to a later sentinel request came out of the same FIFO *)
| C4 (owned : list (list Z)) (pkt : list Z) (chunks : list Z) (frames : list (list Z)) (panicked : bool)
(* the same for a datagram sent as two IPv4 fragments (in the order injected) *)
| C4F (owned : list (list Z)) (pkt1 pkt2 : list Z) (chunks1 chunks2 : list Z)
      (frames : list (list Z)) (panicked : bool)
(* one IPv6 packet; the reply is emitted synchronously *)
| C6 (owned : list (list Z)) (pkt : list Z) (chunks : list Z) (frames : list (list Z)) (panicked : bool)
(* a burst on one IPv4 endpoint with the replier goroutine held at the link endpoint between
   replies: the exact order of arrivals and of replier iterations, queue drained at the end *)
| CGate4 (owned : list (list Z)) (events : list ev) (panicked : bool)
(* a free-running burst: requests injected back to back, then (request by request) until the
   queue had drained; frames in emission order *)
| CFree4 (owned : list (list Z)) (reqs : list (list Z)) (frames : list (list Z)) (panicked : bool)
(* frames that showed up outside any of the above (expected: none) *)
| CStray (frames : list (list Z)).

(* ------------------------------------------------------------------ harness side: Inject's view split *)
(* netx.Link.InjectFrom: for each chunk size c: c = min(c, len(rest)); views += rest[:c]; rest = rest[c:];
   then if len(rest) > 0 || len(views) == 0 { views += rest } *)
Fixpoint split_rec (pkt : list Z) (chunks : list Z) : vv :=
  match chunks with
  | [] => match pkt with [] => [] | _ => [pkt] end
  | c :: cs => firstn (Z.to_nat c) pkt :: split_rec (skipn (Z.to_nat c) pkt) cs
  end.
Definition split_views (pkt : list Z) (chunks : list Z) : vv :=
  match chunks with [] => [pkt] | _ => split_rec pkt chunks end.

(* ------------------------------------------------------------------ corr *)
Definition b2z (ok : bool) : Z := if ok then 0 else 1.

Fixpoint list_eqb (a b : list Z) : bool :=
  match a, b with
  | [], [] => true
  | x :: a', y :: b' => (x =? y) && list_eqb a' b'
  | _, _ => false
  end.

(* the packet the model hands to ipv4.WritePacket, encoded with the identification of the observed frame *)
Definition frame4_matches (p : packet) (frame : list Z) : bool :=
  match get16 frame 4 with
  | None => false
  | Some id => match ip4_write p id with Some b => list_eqb b frame | None => false end
  end.
Definition frame6_matches (p : packet) (frame : list Z) : bool :=
  match ip6_write p with Some b => list_eqb b frame | None => false end.

Fixpoint all2 {A B : Type} (f : A -> B -> bool) (l : list A) (m : list B) : bool :=
  match l, m with
  | [], [] => true
  | a :: l', b :: m' => f a b && all2 f l' m'
  | _, _ => false
  end.

(* the model's verdict for one run: None = the model panics *)
Definition verdict (expected : option bool) (panicked : bool) : Z :=
  match expected with
  | None => b2z panicked
  | Some ok => b2z (ok && negb panicked)
  end.

(* an IPv4 packet arriving on an endpoint whose echo state is [s]: the state after handleICMP
   (None = panic on the way) *)
Definition arrive4 (owned : list (list Z)) (s : ep4) (views : vv) : option ep4 :=
  match nic4_deliver owned views with
  | None => None
  | Some (NICMP r v) => let s' := step4 s (Arrive r v) in if crashed s' then None else Some s'
  | Some _ => Some s
  end.

Definition drain4 (s : ep4) : option ep4 :=
  let s' := step4 s Drain in if crashed s' then None else Some s'.

Definition corr4_single (owned : list (list Z)) (views : vv) (frames : list (list Z)) : option bool :=
  s <- arrive4 owned ep4_init views ;;
  s <- drain4 s ;;
  s <- drain4 s ;;
  Some (all2 frame4_matches (sent s) frames && match pending s with [] => true | _ => false end).

Definition corr4_frag (owned : list (list Z)) (v1 v2 : vv) (frames : list (list Z)) : option bool :=
  a1 <- nic4_deliver owned v1 ;;
  a2 <- nic4_deliver owned v2 ;;
  match a1, a2 with
  | NFragment _ f1, NFragment r2 f2 =>
      match reasm2 f1 f2 with
      | None => Some false      (* outside the two-fragment domain of the model: never generated *)
      | Some views =>
          if f_proto f2 =? 1 then
            let s := step4 ep4_init (Arrive r2 views) in
            if crashed s then None else
            s <- drain4 s ;;
            Some (all2 frame4_matches (sent s) frames)
          else Some (match frames with [] => true | _ => false end)
      end
  | NDrop, _ | _, NDrop => Some (match frames with [] => true | _ => false end)
  | _, _ => Some false
  end.

Definition corr6_single (owned : list (list Z)) (views : vv) (frames : list (list Z)) : option bool :=
  a <- nic6_deliver owned views ;;
  match a with
  | NICMP r v =>
      act <- handleICMP6 r v ;;
      match act with
      | A6Reply p => Some (all2 frame6_matches [p] frames)
      | A6Solicit => Some false (* neighbour solicitations are not generated *)
      | _ => Some (match frames with [] => true | _ => false end)
      end
  | _ => Some (match frames with [] => true | _ => false end)
  end.

(* gated burst: every event is replayed on the queue state machine; a reply event must be the
   replier's next iteration (head of the channel), byte for byte; at the end the channel is empty *)
Fixpoint corr4_events (owned : list (list Z)) (s : ep4) (evs : list ev) : option bool :=
  match evs with
  | [] => Some (match pending s with [] => true | _ => false end)
  | EA pkt :: rest =>
      match arrive4 owned s [pkt] with
      | None => None
      | Some s' => corr4_events owned s' rest
      end
  | ER frame :: rest =>
      match pending s with
      | [] => Some false        (* a reply nobody asked for *)
      | _ =>
          match drain4 s with
          | None => None
          | Some s' =>
              if match rev (sent s') with p :: _ => frame4_matches p frame | [] => false end
              then corr4_events owned s' rest else Some false
          end
      end
  end.

(* free-running burst: which of the requests beyond the first ten got into the channel depends on
   how fast the replier ran, so the comparison is: the frames are, in order, the model's replies
   to a subsequence of the requests that contains each of the first [q4_cap] echo requests
   (those always find room).  [room] = how many more requests are certain to be accepted. *)
Definition reply4_of (owned : list (list Z)) (pkt : list Z) : option (option packet) :=
  s <- arrive4 owned ep4_init [pkt] ;;
  match pending s with
  | [] => Some None
  | _ => s' <- drain4 s ;; Some (match sent s' with p :: _ => Some p | [] => None end)
  end.

Fixpoint corr4_free (owned : list (list Z)) (room : nat) (reqs frames : list (list Z)) : option bool :=
  match reqs with
  | [] => Some (match frames with [] => true | _ => false end)
  | pkt :: reqs' =>
      match reply4_of owned pkt with
      | None => None
      | Some None => corr4_free owned room reqs' frames
      | Some (Some p) =>
          match frames with
          | f :: frames' =>
              if frame4_matches p f then corr4_free owned (Nat.pred room) reqs' frames'
              else match room with O => corr4_free owned O reqs' frames | S _ => Some false end
          | [] => match room with O => corr4_free owned O reqs' [] | S _ => Some false end
          end
      end
  end.

Definition dcorr (c : dcase) : Z :=
  match c with
  | C4 owned pkt chunks frames panicked =>
      verdict (corr4_single owned (split_views pkt chunks) frames) panicked
  | C4F owned p1 p2 c1 c2 frames panicked =>
      verdict (corr4_frag owned (split_views p1 c1) (split_views p2 c2) frames) panicked
  | C6 owned pkt chunks frames panicked =>
      verdict (corr6_single owned (split_views pkt chunks) frames) panicked
  | CGate4 owned evs panicked => verdict (corr4_events owned ep4_init evs) panicked
  | CFree4 owned reqs frames panicked => verdict (corr4_free owned q4_cap reqs frames) panicked
  | CStray frames => b2z (match frames with [] => true | _ => false end)
  end.

(* ------------------------------------------------------------------ spec: RFC monitor *)
(* everything below reads packets by byte position and uses its own one's-complement sum *)
Definition byte_at (l : list Z) (i : nat) : Z := nth i l 0.
Definition word_at (l : list Z) (i : nat) : Z := byte_at l i * 256 + byte_at l (S i).
Definition sub (l : list Z) (off n : nat) : list Z := firstn n (skipn off l).
Definition zlen (l : list Z) : Z := Z.of_nat (length l).

(* RFC 1071: 16-bit one's-complement sum with end-around carry, odd tail padded with a zero byte *)
Definition eac (x : Z) : Z := if x <? 65536 then x else x - 65535.
Fixpoint ocsum (l : list Z) (acc : Z) : Z :=
  match l with
  | hi :: lo :: t => ocsum t (eac (acc + hi * 256 + lo))
  | [hi] => eac (acc + hi * 256)
  | [] => acc
  end.

Definition mem (owned : list (list Z)) (a : list Z) : bool := existsb (list_eqb a) owned.

(* --- IPv4 --- *)
Record req := mkR { q_src : list Z; q_dst : list Z; q_icmp : list Z; q_echo : bool; q_good : bool }.

(* an IPv4 packet read as a (possible) echo request.  q_echo: an unfragmented ICMP message of
   type 8 to an owned address; q_good: in addition a complete, well-formed RFC 792 echo request
   (8-byte header, code 0, correct checksum, lengths consistent) *)
Definition parse4 (owned : list (list Z)) (pkt : list Z) : req :=
  let ihl := byte_at pkt 0 mod 16 * 4 in
  let tlen := word_at pkt 2 in
  let okip := (20 <=? zlen pkt) && (byte_at pkt 0 / 16 =? 4) && (20 <=? ihl) && (ihl <=? tlen) &&
              (tlen <=? zlen pkt) && (word_at pkt 6 mod 16384 =? 0) && (byte_at pkt 9 =? 1) in
  let icmp := sub pkt (Z.to_nat ihl) (Z.to_nat (tlen - ihl)) in
  let src := sub pkt 12 4 in
  let dst := sub pkt 16 4 in
  let echo := okip && mem owned dst && (1 <=? zlen icmp) && (byte_at icmp 0 =? 8) in
  let good := echo && (8 <=? zlen icmp) && (byte_at icmp 1 =? 0) && (ocsum icmp 0 =? 65535) in
  mkR src dst icmp echo good.

(* [frame] is a correct echo reply to [r]: a complete unfragmented IPv4 packet (header checksum
   valid, total length = frame length, ttl > 0) from the pinged address to the requester carrying
   an ICMP message of type 0 code 0 whose bytes after the checksum field equal the request's and
   whose checksum verifies *)
Definition answers4 (r : req) (frame : list Z) : bool :=
  let ihl := byte_at frame 0 mod 16 * 4 in
  let icmp := skipn (Z.to_nat ihl) frame in
  (20 <=? zlen frame) && (byte_at frame 0 / 16 =? 4) && (20 <=? ihl) && (ihl <=? zlen frame) &&
  (word_at frame 2 =? zlen frame) && (word_at frame 6 mod 16384 =? 0) && (0 <? byte_at frame 8) &&
  (byte_at frame 9 =? 1) && (ocsum (sub frame 0 (Z.to_nat ihl)) 0 =? 65535) &&
  list_eqb (sub frame 12 4) (q_dst r) && list_eqb (sub frame 16 4) (q_src r) &&
  (4 <=? zlen icmp) && (byte_at icmp 0 =? 0) && (byte_at icmp 1 =? 0) &&
  list_eqb (skipn 4 icmp) (skipn 4 (q_icmp r)) && (ocsum icmp 0 =? 65535).

(* the ICMP header (8 bytes) lies inside the first view the link endpoint delivered *)
Definition hdr_in_first_view (pkt : list Z) (chunks : list Z) (need : Z) : bool :=
  match chunks with [] => true | c :: _ => (need <=? c) || (zlen pkt <=? c) end.

Definition spec4_single (owned : list (list Z)) (pkt : list Z) (chunks : list Z) (frames : list (list Z)) : Z :=
  let r := parse4 owned pkt in
  match frames with
  | [] =>
      if q_good r then
        (if hdr_in_first_view pkt chunks (byte_at pkt 0 mod 16 * 4 + 8) then 1 else 3)
      else 0
  | [f] => if q_echo r && answers4 r f then 0 else 1
  | _ => 1
  end.

(* two fragments tiling one datagram: the monitor reassembles by position *)
Definition spec4_frag (owned : list (list Z)) (p1 p2 : list Z) (frames : list (list Z)) : Z :=
  let off (p : list Z) := word_at p 6 mod 8192 * 8 in
  let body (p : list Z) := sub p 20 (Z.to_nat (word_at p 2 - 20)) in
  let '(a, b) := if off p1 =? 0 then (p1, p2) else (p2, p1) in
  let icmp := body a ++ body b in
  let wellformed := (byte_at a 0 =? 69) && (byte_at b 0 =? 69) && (off a =? 0) && (off b =? zlen (body a)) &&
                    (word_at a 6 / 8192 mod 2 =? 1) && (word_at b 6 / 8192 mod 2 =? 0) &&
                    (byte_at a 9 =? 1) && (byte_at b 9 =? 1) && (word_at a 4 =? word_at b 4) &&
                    list_eqb (sub a 12 8) (sub b 12 8) in
  let dst := sub a 16 4 in
  let echo := wellformed && mem owned dst && (1 <=? zlen icmp) && (byte_at icmp 0 =? 8) in
  let good := echo && (8 <=? zlen icmp) && (byte_at icmp 1 =? 0) && (ocsum icmp 0 =? 65535) in
  let r := mkR (sub a 12 4) dst icmp echo good in
  match frames with
  | [] => if good then 1 else 0
  | [f] => if echo && answers4 r f then 0 else 1
  | _ => 1
  end.

(* --- IPv6 --- *)
Definition be32z (n : Z) : list Z := [n / 16777216 mod 256; n / 65536 mod 256; n / 256 mod 256; n mod 256].

Definition parse6 (owned : list (list Z)) (pkt : list Z) : req :=
  let plen := word_at pkt 4 in
  let okip := (40 <=? zlen pkt) && (byte_at pkt 0 / 16 =? 6) && (40 + plen <=? zlen pkt) && (byte_at pkt 6 =? 58) in
  let icmp := sub pkt 40 (Z.to_nat plen) in
  let src := sub pkt 8 16 in
  let dst := sub pkt 24 16 in
  let echo := okip && mem owned dst && (1 <=? zlen icmp) && (byte_at icmp 0 =? 128) in
  let good := echo && (8 <=? zlen icmp) && (byte_at icmp 1 =? 0) &&
              (ocsum (src ++ dst ++ be32z (zlen icmp) ++ [0; 0; 0; 58] ++ icmp) 0 =? 65535) in
  mkR src dst icmp echo good.

(* everything an echo reply must satisfy except the checksum *)
Definition answers6_nosum (r : req) (frame : list Z) : bool :=
  let icmp := skipn 40 frame in
  (40 <=? zlen frame) && (byte_at frame 0 / 16 =? 6) && (word_at frame 4 =? zlen icmp) &&
  (byte_at frame 6 =? 58) && (0 <? byte_at frame 7) &&
  list_eqb (sub frame 8 16) (q_dst r) && list_eqb (sub frame 24 16) (q_src r) &&
  (4 <=? zlen icmp) && (byte_at icmp 0 =? 129) &&
  ((byte_at icmp 1 =? 0) || negb (byte_at (q_icmp r) 1 =? 0)) &&
  list_eqb (skipn 4 icmp) (skipn 4 (q_icmp r)).
Definition sum6_ok (frame : list Z) : bool :=
  let icmp := skipn 40 frame in
  ocsum (sub frame 8 32 ++ be32z (zlen icmp) ++ [0; 0; 0; 58] ++ icmp) 0 =? 65535.

(* A reply whose checksum does not verify is a plain violation (code 1) however the request was
   split into views: the input pattern of the former known finding C13-echo6-odd-chunk (a view of
   the echo data, other than the last, of odd length; pattern code 2 until /repo commit 1404d7f
   repaired icmpChecksum) is no longer excused.  Code 2 is not reused. *)
Definition spec6_single (owned : list (list Z)) (pkt : list Z) (chunks : list Z) (frames : list (list Z)) : Z :=
  let r := parse6 owned pkt in
  match frames with
  | [] => if q_good r then (if hdr_in_first_view pkt chunks 48 then 1 else 3) else 0
  | [f] =>
      if q_echo r && answers6_nosum r f then
        (if sum6_ok f then 0 else 1)
      else 1
  | _ => 1
  end.

(* --- bursts --- *)
(* outstanding requests: (request, must it be answered) *)
Fixpoint take_answered (out : list (req * bool)) (frame : list Z) : option (list (req * bool)) :=
  match out with
  | [] => None
  | (r, m) :: rest =>
      if q_echo r && answers4 r frame then Some rest
      else match take_answered rest frame with Some rest' => Some ((r, m) :: rest') | None => None end
  end.
Definition n_must (out : list (req * bool)) : nat := length (filter snd out).

(* "at most one reply per request, nothing unsolicited, every request that arrives while fewer
   than ten are pending is answered": a reply must answer an outstanding request (which it then
   consumes); a well-formed request is marked must-answer when fewer than ten must-answer
   requests are outstanding; at the end no must-answer request is left *)
Fixpoint spec4_events (owned : list (list Z)) (out : list (req * bool)) (evs : list ev) : Z :=
  match evs with
  | [] => if (0 <? n_must out)%nat then 1 else 0
  | EA pkt :: rest =>
      let r := parse4 owned pkt in
      spec4_events owned (out ++ [(r, q_good r && (n_must out <? 10)%nat)]) rest
  | ER frame :: rest =>
      match take_answered out frame with
      | None => 1
      | Some out' => spec4_events owned out' rest
      end
  end.

(* free-running burst: every frame answers a distinct request; the first ten well-formed requests
   (which certainly arrive with fewer than ten pending) are answered *)
Fixpoint mark_first (k : nat) (rs : list req) : list (req * bool) :=
  match rs with
  | [] => []
  | r :: rest =>
      if q_good r then (r, match k with O => false | S _ => true end) :: mark_first (Nat.pred k) rest
      else (r, false) :: mark_first k rest
  end.
Fixpoint spec4_free (out : list (req * bool)) (frames : list (list Z)) : Z :=
  match frames with
  | [] => if (0 <? n_must out)%nat then 1 else 0
  | f :: rest =>
      match take_answered out f with
      | None => 1
      | Some out' => spec4_free out' rest
      end
  end.

Definition is_echo_reply (frame : list Z) : bool :=
  if byte_at frame 0 / 16 =? 4
  then (byte_at frame 9 =? 1) && (byte_at frame (Z.to_nat (byte_at frame 0 mod 16 * 4)) =? 0)
  else (byte_at frame 6 =? 58) && (byte_at frame 40 =? 129).

Definition dspec (c : dcase) : Z :=
  match c with
  | C4 owned pkt chunks frames panicked =>
      if panicked then 1 else spec4_single owned pkt chunks frames
  | C4F owned p1 p2 _ _ frames panicked => if panicked then 1 else spec4_frag owned p1 p2 frames
  | C6 owned pkt chunks frames panicked =>
      if panicked then 1 else spec6_single owned pkt chunks frames
  | CGate4 owned evs panicked => if panicked then 1 else spec4_events owned [] evs
  | CFree4 owned reqs frames panicked =>
      if panicked then 1 else spec4_free (mark_first 10 (map (parse4 owned) reqs)) frames
  | CStray frames => if existsb is_echo_reply frames then 1 else 0
  end.

(* ------------------------------------------------------------------ tag *)
(* 0 = trivial (not even an IP header / nothing observed);
   1/2 = IPv4 request answered, single view / several views;  3 = IPv4 not answered (short, other
   type, foreign or unassigned destination, ...);  4/5/6 = the same for IPv6;  7 = fragments;
   8 = gated burst without a dropped request, 9 = with one;  10 = free-running burst;
   11 = IPv6 request answered whose echo data (everything behind the 40 + 8 header bytes) arrived
   in views of which one that is not the last has odd length (the input shape of the fixed finding
   C13-echo6-odd-chunk; counted separately so that the evidence shows the shape is exercised) *)
Definition multi (chunks : list Z) : bool := match chunks with [] => false | _ => true end.
Fixpoint drop_sizes (sizes : list Z) (n : Z) : list Z :=
  match sizes with
  | [] => []
  | c :: rest => if n <=? 0 then sizes else if n <? c then (c - n) :: rest else drop_sizes rest (n - c)
  end.
Fixpoint odd_nonfinal (sizes : list Z) : bool :=
  match sizes with
  | [] | [_] => false
  | c :: rest => Z.odd c || odd_nonfinal rest
  end.
Definition view_sizes (pkt : list Z) (chunks : list Z) : list Z := map zlen (split_views pkt chunks).
Definition odd_chunk6 (pkt : list Z) (chunks : list Z) : bool :=
  odd_nonfinal (filter (fun c => 0 <? c) (drop_sizes (view_sizes pkt chunks) 48)).
Definition n_arrivals (evs : list ev) : nat :=
  length (filter (fun e => match e with EA _ => true | ER _ => false end) evs).
Definition n_replies (evs : list ev) : nat :=
  length (filter (fun e => match e with EA _ => false | ER _ => true end) evs).
Definition dtag (c : dcase) : Z :=
  match c with
  | C4 _ pkt chunks frames _ =>
      if zlen pkt <? 20 then 0
      else match frames with [] => 3 | _ => if multi chunks then 2 else 1 end
  | C4F _ _ _ _ _ _ _ => 7
  | C6 _ pkt chunks frames _ =>
      if zlen pkt <? 40 then 0
      else match frames with
           | [] => 6
           | _ => if multi chunks then (if odd_chunk6 pkt chunks then 11 else 5) else 4
           end
  | CGate4 _ evs _ =>
      match evs with [] => 0 | _ => if (n_replies evs <? n_arrivals evs)%nat then 9 else 8 end
  | CFree4 _ reqs _ _ => match reqs with [] => 0 | _ => 10 end
  | CStray _ => 0
  end.

(* ------------------------------------------------------------------ compact case syntax *)
(* Byte strings are printed by the driver as segments: literal bytes, or a run a, a+d, a+2d, ...
   (mod 256) of n bytes.  This is a lossless encoding chosen by the driver's printer for what it
   injected and for what it observed (long echo payloads are generated as such runs, which the
   stack copies into its replies); it keeps the Coq terms small. *)
Inductive seg := L (b : list Z) | R (a d n : Z).
Fixpoint run (a d : Z) (n : nat) : list Z :=
  match n with O => [] | S k => a :: run ((a + d) mod 256) d k end.
Definition unseg (s : seg) : list Z := match s with L b => b | R a d n => run a d (Z.to_nat n) end.
Definition bs (ss : list seg) : list Z := flat_map unseg ss.
Definition bss (l : list (list seg)) : list (list Z) := map bs l.

(* the address sets of the driver's NIC (printed by name) *)
Definition own4 : list (list Z) := [[10; 0; 0; 1]; [10; 0; 0; 9]].
Definition own6 : list (list Z) :=
  [[254; 128; 0; 0; 0; 0; 0; 0; 0; 0; 0; 0; 0; 0; 0; 1]; [32; 1; 13; 184; 0; 0; 0; 0; 0; 0; 0; 0; 0; 0; 0; 9]].

Inductive cev := XA (pkt : list seg) | XR (frame : list seg).
Definition dev (e : cev) : ev := match e with XA p => EA (bs p) | XR f => ER (bs f) end.

Inductive case :=
| K4 (owned : list (list Z)) (pkt : list seg) (chunks : list Z) (frames : list (list seg)) (panicked : bool)
| K4F (owned : list (list Z)) (pkt1 pkt2 : list seg) (chunks1 chunks2 : list Z)
      (frames : list (list seg)) (panicked : bool)
| K6 (owned : list (list Z)) (pkt : list seg) (chunks : list Z) (frames : list (list seg)) (panicked : bool)
| KGate4 (owned : list (list Z)) (events : list cev) (panicked : bool)
| KFree4 (owned : list (list Z)) (reqs : list (list seg)) (frames : list (list seg)) (panicked : bool)
| KStray (frames : list (list seg)).

Definition decode (c : case) : dcase :=
  match c with
  | K4 o p ch fs pn => C4 o (bs p) ch (bss fs) pn
  | K4F o p1 p2 c1 c2 fs pn => C4F o (bs p1) (bs p2) c1 c2 (bss fs) pn
  | K6 o p ch fs pn => C6 o (bs p) ch (bss fs) pn
  | KGate4 o evs pn => CGate4 o (map dev evs) pn
  | KFree4 o rs fs pn => CFree4 o (bss rs) (bss fs) pn
  | KStray fs => CStray (bss fs)
  end.

Definition corr (c : case) : Z := dcorr (decode c).
Definition spec (c : case) : Z := dspec (decode c).
Definition tag (c : case) : Z := dtag (decode c).

Definition judge (c : case) : list Z := [corr c; spec c; tag c].
Definition judge_all (cs : list case) : list Z := flat_map judge cs.
