(* Correspondence vocabulary for C16 (pkg/buffer).  One case = one history of operations on
   real buffer objects with everything the implementation let us observe after every step:
   * [CVV]: a VectorisedView built from chunks (sub-slices of larger arrays, so capacities
     matter) and up to two clones of it; after every operation, for every live object: the bytes
     and cap of every View of Views(), Size(), ToView(), First();
   * [CView]: a single View under TrimFront / CapLength / NextBytes and raw re-slicing
     (v[i:j], v[i:j:k]); after every operation: did it panic, the returned bytes, the visible
     bytes, v[:cap(v)], and Size()/ToView() of v.ToVectorisedView();
   * [CPrep]: a Prependable under Prepend(k) + fill; after every operation: nil/region/panic,
     len and cap of the region, UsedLength(), View() (or that View() panicked).
   [corr] runs the model of Model/Buffer.v on the same history and compares every observation;
   [spec] is a plain byte-string oracle that does not use the model. *)
From Coq Require Import ZArith Bool List.
From NP Require Export Model.Buffer.
Import ListNotations.
Open Scope Z_scope.

Inductive chunk := Ch (arr : list Z) (off len : Z).
Inductive oobs := Ob (chunks : list (list Z)) (caps : list Z) (sz : Z) (flat first : list Z).
Inductive sobs := So (panicked : bool) (objs : list oobs).
Inductive vop := VTrim (n : Z) | VCap (n : Z) | VNext (n : Z) | VSlice2 (i j : Z) | VSlice3 (i j k : Z).
Inductive vobs := Vo (panicked : bool) (ret bytes full : list Z) (tvsize : Z) (tvflat : list Z).
(* kind: 0 = Prepend returned nil, 1 = a region, 2 = it panicked *)
Inductive pobs := Po (kind rlen rcap used : Z) (vpanic : bool) (view : list Z).

Inductive case :=
| CVV (init : list chunk) (ops : list wop) (obs0 : oobs) (obs : list sobs)
| CView (arr : list Z) (off len : Z) (ops : list vop) (obs : list vobs)
| CPrep (fromView : bool) (size : Z) (initb : list Z) (ops : list (Z * list Z)) (obs : list pobs).

(* ---------------------------------------------------------------- equality tests *)
Fixpoint zl_eqb (a b : list Z) : bool :=
  match a, b with
  | [], [] => true
  | x :: a', y :: b' => (x =? y) && zl_eqb a' b'
  | _, _ => false
  end.
Fixpoint zll_eqb (a b : list (list Z)) : bool :=
  match a, b with
  | [], [] => true
  | x :: a', y :: b' => zl_eqb x y && zll_eqb a' b'
  | _, _ => false
  end.
Definition len {A : Type} (l : list A) : Z := Z.of_nat (length l).
Definition b2z (ok : bool) : Z := if ok then 0 else 1.

(* ================================================================ corr: model vs implementation *)

Definition chunk_view (c : chunk) : View := let '(Ch a o l) := c in viewOf a o l.
Definition chunk_len (c : chunk) : Z := let '(Ch _ _ l) := c in l.

Definition init_world (init : list chunk) : world :=
  let '(h, vv) := newVectorisedView [] (fold_right Z.add 0 (map chunk_len init)) (map chunk_view init) in
  mkW h [vv].

Definition obj_match (h : heap) (vv : VV) (o : oobs) : bool :=
  let '(Ob chunks caps sz flat first) := o in
  let vs := vv_views h vv in
  zll_eqb (map vbytes vs) chunks && zl_eqb (map vcap vs) caps && (vv_size vv =? sz)
  && match vv_toView h vv with Ok u => zl_eqb (vbytes u) flat | Panic => false end
  && zl_eqb (vbytes (vv_first h vv)) first.

Fixpoint objs_match (h : heap) (vvs : list VV) (os : list oobs) : bool :=
  match vvs, os with
  | [], [] => true
  | vv :: vvs', o :: os' => obj_match h vv o && objs_match h vvs' os'
  | _, _ => false
  end.

Fixpoint corr_vv (w : world) (ops : list wop) (obs : list sobs) : bool :=
  match ops, obs with
  | [], [] => true
  | op :: ops', So p objs :: obs' =>
    match wstep w op with
    | Ok w' => negb p && objs_match (wheap w') (wobjs w') objs && corr_vv w' ops' obs'
    | Panic => p
    end
  | _, _ => false
  end.

(* one View-level step of the model: new receiver and the returned bytes *)
Definition vstep (v : View) (op : vop) : res (View * list Z) :=
  match op with
  | VTrim n => match view_trimFront v n with Ok v' => Ok (v', []) | Panic => Panic end
  | VCap n => match view_capLength v n with Ok v' => Ok (v', []) | Panic => Panic end
  | VNext n => match view_nextBytes v n with Ok (r, v') => Ok (v', vbytes r) | Panic => Panic end
  | VSlice2 i j => match slice2 v i j with Ok v' => Ok (v', []) | Panic => Panic end
  | VSlice3 i j k => match slice3 v i j k with Ok v' => Ok (v', []) | Panic => Panic end
  end.

Definition view_match (v : View) (r : list Z) (o : vobs) : bool :=
  let '(Vo _ ret bytes full tvsize tvflat) := o in
  let '(h, vv) := view_toVectorisedView [] v in
  zl_eqb r ret && zl_eqb (vbytes v) bytes && zl_eqb (vfull v) full && (vv_size vv =? tvsize)
  && match vv_toView h vv with Ok u => zl_eqb (vbytes u) tvflat | Panic => false end.

Definition vobs_panicked (o : vobs) : bool := let '(Vo p _ _ _ _ _) := o in p.

Fixpoint corr_view (v : View) (ops : list vop) (obs : list vobs) : bool :=
  match ops, obs with
  | [], [] => true
  | op :: ops', o :: obs' =>
    match vstep v op with
    | Ok (v', r) => negb (vobs_panicked o) && view_match v' r o && corr_view v' ops' obs'
    | Panic => vobs_panicked o && view_match v [] o && corr_view v ops' obs'
    end
  | _, _ => false
  end.

Definition prep_match (p : Prependable) (r : prepres) (o : pobs) : bool :=
  let '(Po kind rlen rcap used vpanic view) := o in
  match r with
  | PNil => (kind =? 0) && (rlen =? 0) && (rcap =? 0)
  | PRegion x => (kind =? 1) && (rlen =? vlen x) && (rcap =? vcap x)
  | PPanic => (kind =? 2)
  end
  && (p_usedLength p =? used)
  && match p_view p with
     | Ok v => negb vpanic && zl_eqb (vbytes v) view
     | Panic => vpanic
     end.

Fixpoint corr_prep (p : Prependable) (ops : list (Z * list Z)) (obs : list pobs) : bool :=
  match ops, obs with
  | [], [] => true
  | op :: ops', o :: obs' =>
    let p' := p_step p op in
    prep_match p' (snd (p_prepend p (fst op))) o && corr_prep p' ops' obs'
  | _, _ => false
  end.

Definition corr (c : case) : Z :=
  match c with
  | CVV init ops obs0 obs =>
    let w := init_world init in
    b2z (objs_match (wheap w) (wobjs w) [obs0] && corr_vv w ops obs)
  | CView arr off l ops obs => b2z (corr_view (viewOf arr off l) ops obs)
  | CPrep fromView size initb ops obs =>
    if fromView then b2z (corr_prep (newPrependableFromView (mkView initb 0 (len initb) (len initb))) ops obs)
    else match newPrependable size with
         | Ok p => b2z (corr_prep p ops obs)
         | Panic => 1
         end
  end.

(* ================================================================ spec: plain byte-string oracle
   (written from the property text; uses only firstn / skipn / ++ on byte strings) *)

Definition sub (off n : Z) (l : list Z) : list Z := firstn (Z.to_nat n) (skipn (Z.to_nat off) l).
Definition bs_trim (n : Z) (b : list Z) : list Z := skipn (Z.to_nat n) b.
Definition bs_cap (n : Z) (b : list Z) : list Z := if len b <? n then b else firstn (Z.to_nat n) b.

(* --- vectorised views: one byte string per live object + "has been capped" *)
Definition ostate := list (list Z * bool).

Fixpoint modify {A : Type} (o : nat) (f : A -> A) (l : list A) : list A :=
  match l, o with
  | [], _ => []
  | x :: t, O => f x :: t
  | x :: t, S o' => x :: modify o' f t
  end.

(* length of what First() showed for object o in the previous observation *)
Definition firstlen (prev : list oobs) (o : nat) : Z :=
  match nth_error prev o with
  | Some (Ob _ _ _ _ first) => len first
  | None => 0
  end.

Definition o_step (st : ostate) (prev : list oobs) (op : wop) : ostate :=
  match op with
  | WTrim o n => modify (Z.to_nat o) (fun x => (bs_trim n (fst x), snd x)) st
  | WCap o n => modify (Z.to_nat o) (fun x => if len (fst x) <? n then x else (bs_cap n (fst x), true)) st
  | WRemoveFirst o => modify (Z.to_nat o) (fun x => (bs_trim (firstlen prev (Z.to_nat o)) (fst x), snd x)) st
  | WClone o _ => match nth_error st (Z.to_nat o) with Some x => st ++ [x] | None => st end
  end.

Fixpoint caps_ok (chunks : list (list Z)) (caps : list Z) (capped : bool) : bool :=
  match chunks, caps with
  | [], [] => true
  | [c], [k] => if capped then k =? len c else len c <=? k
  | c :: cs, k :: ks => (len c <=? k) && caps_ok cs ks capped
  | _, _ => false
  end.

(* what every observation of an object must look like if it stands for byte string b *)
Definition obj_ok (x : list Z * bool) (o : oobs) : bool :=
  let '(Ob chunks caps sz flat first) := o in
  zl_eqb (concat chunks) (fst x) && zl_eqb flat (fst x) && (sz =? len (fst x))
  && zl_eqb first (hd [] chunks) && caps_ok chunks caps (snd x).

Fixpoint objs_ok (st : ostate) (os : list oobs) : bool :=
  match st, os with
  | [], [] => true
  | x :: st', o :: os' => obj_ok x o && objs_ok st' os'
  | _, _ => false
  end.

Fixpoint spec_vv (st : ostate) (prev : list oobs) (ops : list wop) (obs : list sobs) : bool :=
  match ops, obs with
  | [], [] => true
  | op :: ops', So p objs :: obs' =>
    let st' := o_step st prev op in
    negb p && objs_ok st' objs && spec_vv st' objs ops' obs'
  | _, _ => false
  end.

(* --- a single View: visible bytes b and the tail t still reachable by re-slicing.  Go slice
   semantics: trimming needs 0 <= n <= len; v[:n:n] needs 0 <= n <= len+reach (a count between
   len and cap re-slices INTO the tail: see view_capLength_beyond_len_refuted) and leaves no
   tail: from then on nothing beyond the cap may ever become visible again *)
Definition vstate := (list Z * list Z)%type.

Definition v_step (s : vstate) (op : vop) : option (vstate * list Z) :=
  let '(b, t) := s in
  let all := b ++ t in
  match op with
  | VTrim n => if (0 <=? n) && (n <=? len b) then Some ((bs_trim n b, t), []) else None
  | VCap n => if (0 <=? n) && (n <=? len all) then Some ((sub 0 n all, []), []) else None
  | VNext n => if (0 <=? n) && (n <=? len b) then Some ((bs_trim n b, t), sub 0 n b) else None
  | VSlice2 i j => if (0 <=? i) && (i <=? j) && (j <=? len all)
                   then Some ((sub i (j - i) all, bs_trim j all), []) else None
  | VSlice3 i j k => if (0 <=? i) && (i <=? j) && (j <=? k) && (k <=? len all)
                     then Some ((sub i (j - i) all, sub j (k - j) all), []) else None
  end.

Definition vobs_ok (s : vstate) (r : list Z) (bound : option Z) (o : vobs) : bool :=
  let '(Vo _ ret bytes full tvsize tvflat) := o in
  zl_eqb ret r && zl_eqb bytes (fst s) && zl_eqb full (fst s ++ snd s)
  && (tvsize =? len (fst s)) && zl_eqb tvflat (fst s)
  && match bound with Some n => len full <=? n | None => true end.

Fixpoint spec_view (s : vstate) (bound : option Z) (ops : list vop) (obs : list vobs) : bool :=
  match ops, obs with
  | [], [] => true
  | op :: ops', o :: obs' =>
    match v_step s op with
    | Some (s', r) =>
      let bound' := match op with VCap n => Some n | _ => bound end in
      negb (vobs_panicked o) && vobs_ok s' r bound' o && spec_view s' bound' ops' obs'
    | None => vobs_panicked o && vobs_ok s [] bound o && spec_view s bound ops' obs'
    end
  | _, _ => false
  end.

(* --- Prependable: free space in front, content so far.  Prepend k with 0 <= k: nil and no
   change when k exceeds the free space, else a region of len = cap = k whose data ends up in
   front of the content.  A negative k is outside the contract (Go panics and the index is
   corrupted): the oracle requires the panic and stops judging that history. *)
Fixpoint spec_prep (avail : Z) (content : list Z) (ops : list (Z * list Z)) (obs : list pobs) : bool :=
  match ops, obs with
  | [], [] => true
  | (k, d) :: ops', Po kind rlen rcap used vpanic view :: obs' =>
    if k <? 0 then kind =? 2
    else if avail <? k then
      (kind =? 0) && (used =? len content) && negb vpanic && zl_eqb view content
      && spec_prep avail content ops' obs'
    else
      let content' := firstn (Z.to_nat k) d ++ content in
      (kind =? 1) && (rlen =? k) && (rcap =? k) && (len d =? k) && (used =? len content')
      && negb vpanic && zl_eqb view content' && spec_prep (avail - k) content' ops' obs'
  | _, _ => false
  end.

Definition chunk_bytes (c : chunk) : list Z := let '(Ch a o l) := c in sub o l a.

Definition spec (c : case) : Z :=
  match c with
  | CVV init ops obs0 obs =>
    let st := [(concat (map chunk_bytes init), false)] in
    b2z (objs_ok st [obs0] && spec_vv st [obs0] ops obs)
  | CView arr off l ops obs => b2z (spec_view (sub off l arr, bs_trim (off + l) arr) None ops obs)
  | CPrep fromView size initb ops obs =>
    if fromView then b2z (spec_prep 0 initb ops obs) else b2z (spec_prep size [] ops obs)
  end.

(* ================================================================ tag *)
Definition is_clone (op : wop) : bool := match op with WClone _ _ => true | _ => false end.
Definition is_cap (op : wop) : bool := match op with WCap _ _ => true | _ => false end.
Definition po_kind (o : pobs) : Z := let '(Po k _ _ _ _ _) := o in k.

(* 0 = trivial (no operation, or no bytes at all); VV: 1 = one object, no cap; 2 = clones, no cap;
   3 = cap, one object; 4 = cap and clones; View: 5 = some step panicked, 6 = none did;
   Prependable: 7 = some Prepend was refused (nil) or panicked, 8 = all were served *)
Definition tag (c : case) : Z :=
  match c with
  | CVV init ops _ _ =>
    if (len ops =? 0) || (fold_right Z.add 0 (map chunk_len init) =? 0) then 0
    else 1 + (if existsb is_clone ops then 1 else 0) + (if existsb is_cap ops then 2 else 0)
  | CView _ _ _ ops obs => if len ops =? 0 then 0 else if existsb vobs_panicked obs then 5 else 6
  | CPrep _ _ _ ops obs =>
    if len ops =? 0 then 0 else if forallb (fun o => po_kind o =? 1) obs then 8 else 7
  end.

Definition judge (c : case) : list Z := [corr c; spec c; tag c].
Definition judge_all (cs : list case) : list Z := flat_map judge cs.
