(* Correspondence vocabulary for C10 (protocol/ports).  One case = one history of exported
   PortManager calls on a fresh manager, or one call of PickEphemeralPort with a scripted tester,
   with what the Go implementation returned.  [judge] is evaluated by vm_compute on cases.v. *)
From Coq Require Import ZArith Bool List.
From NP Require Import Model.Ports Proofs.PortsP.
Import ListNotations.
Open Scope Z_scope.

(* error codes printed by the driver: 0 nil, 1 ErrPortInUse, 2 ErrNoPortAvailable,
   3 the tester's own error, 9 anything else *)
Inductive hop :=
| HReserve (nets : list Z) (tr addr port offset : Z) (rport rerr : Z)   (* ReservePort; offset = the rand draw *)
| HRelease (nets : list Z) (tr addr port : Z)                            (* ReleasePort *)
| HQuery (nets : list Z) (tr addr port : Z) (r : bool).                  (* IsPortAvailable *)

Inductive case :=
| CHist (ops : list hop)
(* PickEphemeralPort with the tester  port |-> (port == p, if port == q then customErr else nil),
   counting its calls; p or q outside [16000,65535] never match *)
| CPick (offset p q : Z) (rport rerr calls : Z)
(* search aid, not model-checked: [grants] = reservations held simultaneously at some instant of a
   concurrent run (8 goroutines) *)
| CConc (grants : list (list Z * Z * Z * Z))
| CPanic (what : Z).

Definition bneq (a b : bool) : Z := if Bool.eqb a b then 0 else 1.
Definition zneq (a b : Z) : Z := if a =? b then 0 else 1.

(* ---- corr: the model, run on the same calls, returns what the implementation returned ---- *)
Fixpoint corr_hist (t : table) (ops : list hop) : Z :=
  match ops with
  | [] => 0
  | HReserve nets tr addr port offset rport rerr :: rest =>
      match reservePort t nets tr addr port offset with
      | (t', (p, e)) => if (p =? rport) && (e =? rerr) then corr_hist t' rest else 1
      end
  | HRelease nets tr addr port :: rest => corr_hist (releasePort t nets tr addr port) rest
  | HQuery nets tr addr port r :: rest =>
      if Bool.eqb (isPortAvailable t nets tr addr port) r then corr_hist t rest else 1
  end.

Definition customErr : Z := 3.
Definition scripted (p q : Z) : Z -> Z -> Z * (bool * option Z) :=
  fun calls port => (calls + 1, (port =? p, if port =? q then Some customErr else None)).

Definition corr (c : case) : Z :=
  match c with
  | CHist ops => corr_hist emptyTable ops
  | CPick offset p q rport rerr calls =>
      (* pickEphemeralFast = pickEphemeral (Proofs.PortsP.pickEphemeralFast_eq) *)
      match pickEphemeralFast offset (scripted p q) 0 with
      | (n, PickOk x) => if (x =? rport) && (rerr =? 0) && (n =? calls) then 0 else 1
      | (n, PickErr e) => if (rport =? 0) && (rerr =? e) && (n =? calls) then 0 else 1
      | (n, PickNone) => if (rport =? 0) && (rerr =? errNoPortAvailable) && (n =? calls) then 0 else 1
      end
  | CConc _ => 0
  | CPanic _ => 1
  end.

(* ---- spec: the property, evaluated on the implementation's answers, without the model ---- *)
Definition inrange (x : Z) : bool := (16000 <=? x) && (x <=? 65535).

(* live = reservations the implementation granted and that were not released since *)
Fixpoint spec_hist (live : list resv) (ops : list hop) : Z :=
  match ops with
  | [] => 0
  | HReserve nets tr addr port offset rport rerr :: rest =>
      if port =? 0 then
        if rerr =? 0 then
          (* granted port must be in the ephemeral range and free *)
          if inrange rport && free_of live (Resv nets tr addr rport)
          then spec_hist (Resv nets tr addr rport :: live) rest else 1
        else if rerr =? 2 then
          (* may fail only when no port of the range is acceptable; every live reservation blocks
             one port, so with fewer than 49536 of them some port is free *)
          if (Z.of_nat (length live) <? 49536) || negb (rport =? 0) then 1 else spec_hist live rest
        else 1
      else
        let r := Resv nets tr addr port in
        if rerr =? 0 then
          if (rport =? port) && free_of live r then spec_hist (r :: live) rest else 1
        else if rerr =? 1 then
          if free_of live r || negb (rport =? 0) then 1 else spec_hist live rest
        else 1
  | HRelease nets tr addr port :: rest => spec_hist (live_release live (Resv nets tr addr port)) rest
  | HQuery nets tr addr port r :: rest =>
      if Bool.eqb r (free_of live (Resv nets tr addr port)) then spec_hist live rest else 1
  end.

(* position of port x in the cyclic search that starts at 16000 + offset *)
Definition pos (offset x : Z) : Z := (x - 16000 - offset) mod 49536.

Definition spec (c : case) : Z :=
  match c with
  | CHist ops => spec_hist [] ops
  | CPick offset p q rport rerr calls =>
      let pa := inrange p in
      let qa := inrange q in
      if qa && (negb pa || (pos offset q <=? pos offset p)) then
        (* the tester's error is met first: it must come back unchanged *)
        if (rport =? 0) && (rerr =? 3) then 0 else 1
      else if pa then
        (* an acceptable port exists: it must be returned *)
        if (rport =? p) && (rerr =? 0) then 0 else 1
      else
        if (rport =? 0) && (rerr =? 2) then 0 else 1
  | CConc grants =>
      if exclusiveb (map (fun g => match g with (nets, tr, addr, port) => Resv nets tr addr port end) grants)
      then 0 else 1
  | CPanic _ => 1
  end.

(* ---- tag ---- *)
Fixpoint count_ops (f : hop -> bool) (ops : list hop) : Z :=
  match ops with [] => 0 | o :: r => (if f o then 1 else 0) + count_ops f r end.
Definition is_grant (o : hop) := match o with HReserve _ _ _ _ _ _ e => e =? 0 | _ => false end.
Definition is_refusal (o : hop) := match o with HReserve _ _ _ _ _ _ e => negb (e =? 0) | HQuery _ _ _ _ r => negb r | _ => false end.
Definition is_eph_grant (o : hop) := match o with HReserve _ _ _ p _ _ e => (p =? 0) && (e =? 0) | _ => false end.

(* 0 trivial (nothing granted / nothing acceptable and no error);
   1 grants only, 2 grants and refusals, 3 also an ephemeral grant;
   4 port found before offset+i reaches 65536, 5 found at or after that point (the 16-bit wrap zone),
   6 tester error returned, 7 full scan fails; 8 concurrent snapshot *)
Definition tag (c : case) : Z :=
  match c with
  | CHist ops =>
      if count_ops is_grant ops =? 0 then 0
      else if 0 <? count_ops is_eph_grant ops then 3
      else if 0 <? count_ops is_refusal ops then 2 else 1
  | CPick offset p q rport rerr calls =>
      if inrange q && (negb (inrange p) || (pos offset q <=? pos offset p)) then 6
      else if inrange p then (if offset + pos offset p <? 65536 then 4 else 5)
      else 7
  | CConc g => match g with [] => 0 | _ => 8 end
  | CPanic _ => 9
  end.

Definition judge (c : case) : list Z := [corr c; spec c; tag c].
Definition judge_all (cs : list case) : list Z := flat_map judge cs.
