(* C05 with the CUBIC controller (protocol/transport/tcp/cubic.go): CUBIC's window arithmetic is
   floating point over wall-clock time and is NOT modelled, so there is no correspondence here
   (corr = 0 by construction apart from the handshake-derived first snapshot): these lock-step
   traces are judged by the property monitors alone, on the implementation's observations - the
   clauses of C05 that do not depend on the controller (initial window of 10, fast retransmit on the
   third duplicate ACK, partial ACKs in recovery, one segment per time-out with doubling, the 200 ms
   floor; NOT the Reno in-flight bound), and the C01 data-integrity, C04 window and C02 stall
   monitors.  Labelled in the evidence as monitor-only. *)
From Coq Require Import ZArith List Bool.
From NP Require Export Model.Seqnum Model.Tcp Corr.TcpTrace.
From NP Require Corr.C01 Corr.C04 Corr.C02 Corr.C05.
Import ListNotations.
Open Scope Z_scope.

Definition case := TcpTrace.case.

Definition spec (c : case) : Z :=
  let e := C05.spec_gen false c in
  let a := C01.spec c in
  let b := C04.spec c in
  let d := C02.spec c in
  if negb ((e =? 0) || (e =? 2)) then 1
  else if negb (a =? 0) then 1 else if negb ((b =? 0) || (b =? 2)) then 1
  else if (d =? 0) || (d =? 2) then 0 else 1.

Definition tag (c : case) : Z := C05.m_tag (C05.monitor_gen false c).

Definition corr (c : case) : Z :=
  match c with CTrace cfg _ init _ => init_corr cfg init end.

Definition judge (c : case) : list Z := [corr c; spec c; tag c].
Definition judge_all (cs : list case) : list Z := flat_map judge cs.
