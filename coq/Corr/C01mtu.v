(* Path-MTU reductions (ICMP "fragmentation needed" -> snd.go updateMaxPayloadSize: lower the maximum
   payload, rewind writeNext to the first queued segment that no longer fits, resend from there).
   Model.Tcp has no event for this, so there is no correspondence for these lock-step traces beyond
   the handshake-derived first snapshot (corr = 0 by construction): they are judged by the property
   monitors alone, on the implementation's observations - here C01 data integrity (every emitted
   segment is the slice of the written stream its sequence number names; reads are a prefix of the
   peer's stream); the C04 check judges traces of the same kind by its window / MSS monitor.  In the trace the
   notification appears as an application write accepted for zero bytes (see is_mtu_step).  Labelled monitor-only in the evidence. *)
From Coq Require Import ZArith List Bool.
From NP Require Export Model.Seqnum Model.Tcp Corr.TcpTrace.
From NP Require Corr.C01 Corr.C14tcp.
Import ListNotations.
Open Scope Z_scope.

Definition case := TcpTrace.case.

(* C01's own clause only; the same traces are judged against the window / MSS clauses by the C04
   check (Corr/C04mtu.v) *)
Definition spec (c : case) : Z := C01.spec c.

(* an MTU notification: a "write" accepted for 0 bytes whose "data" are the reported next-hop MTUs
   + 1000 (no byte of a real write is that large) *)
Definition is_mtu_step (o : obs) : bool :=
  match o_ev o, o_res o with
  | EWrite (m :: _), RCount 0 => 1000 <=? m
  | _, _ => false
  end.
Definition reported_mtus (o : obs) : list Z :=
  match o_ev o with EWrite l => map (fun m => m - 1000) l | _ => [] end.

(* C01's classes (1 data read, 2 data sent) + 4: an MTU notification was followed by emitted data *)
Definition tag (c : case) : Z :=
  C01.tag c +
  match c with
  | CTrace _ _ _ steps =>
      if existsb (fun o => is_mtu_step o && existsb (fun f => negb (Z.of_nat (length (f_data f)) =? 0)) (o_frames o)) steps
      then 4 else 0
  end.

Definition corr (c : case) : Z :=
  match c with CTrace cfg _ init _ => init_corr cfg init end.

Definition judge (c : case) : list Z := [corr c; spec c; tag c].
Definition judge_all (cs : list case) : list Z := flat_map judge cs.
