(* Correspondence vocabulary for C17.  One case = one sequential history run against the real
   pkg/waiter Queue (entries 0..n-1; kind 0 = function callback that logs, 1 = NewChannelEntry)
   with what the implementation did after every operation, or one concurrent stress run
   (search aid only; its checks are made by the driver).  [judge] is evaluated by vm_compute. *)
From Coq Require Import ZArith Bool List.
From NP Require Export Model.WaiterSpec.
From NP Require Import Model.Ilist Model.Waiter.
Import ListNotations.
Open Scope Z_scope.

(* observation after one operation:
   called  function-callback entries invoked during the operation, in order (harness log)
   ret     Events(): the mask; IsEmpty()/take: 1/0; otherwise 0
   chlens  len(ch) of every entry's channel after the operation (0 for function entries)
   ev emp  q.Events() and q.IsEmpty() called right after the operation *)
Inductive cobs := CO (called : list Z) (ret : Z) (chlens : list Z) (ev : Z) (emp : Z).

Inductive case :=
| CHist (kinds : list Z) (ops : list op) (obs : list cobs) (status : Z)
    (* status 0 = all operations returned; 1 = the operation after the listed observations did
       not return within the watchdog time; 2 = it panicked *)
| CConc (goroutines rounds seed : Z) (late dup missing extra : Z).
    (* violations counted by the driver: callbacks after EventUnregister returned; an entry
       called twice by one Notify; an entry registered throughout a Notify with intersecting
       mask not called; an entry called that was not registered at any point of the Notify *)

Definition kind_of (kinds : list Z) (e : Z) : kind :=
  match nth_error kinds (Z.to_nat e) with
  | Some 1 => KChan
  | _ => KFunc
  end.

Definition is_func (k : Z -> kind) (e : Z) : bool :=
  match k e with KFunc => true | KChan => false end.

Definition entries (n : nat) : list Z := map Z.of_nat (seq 0 n).

Fixpoint leqb (a b : list Z) : bool :=
  match a, b with
  | [], [] => true
  | x :: a', y :: b' => (x =? y) && leqb a' b'
  | _, _ => false
  end.

Definition cobs_eqb (a b : cobs) : bool :=
  match a, b with
  | CO c1 r1 l1 e1 m1, CO c2 r2 l2 e2 m2 =>
      leqb c1 c2 && (r1 =? r2) && leqb l1 l2 && (e1 =? e2) && (m1 =? m2)
  end.

Fixpoint lcobs_eqb (a b : list cobs) : bool :=
  match a, b with
  | [], [] => true
  | x :: a', y :: b' => cobs_eqb x y && lcobs_eqb a' b'
  | _, _ => false
  end.

(* ---- model side: the model of the Go code run on the case's operations ---- *)
Fixpoint mrun (fuel : nat) (k : Z -> kind) (n : nat) (w : world) (ops : list op) : list cobs * Z :=
  match ops with
  | [] => ([], 0)
  | o :: r =>
      match step fuel k w o with
      | None => ([], 1)
      | Some (w1, ob) =>
          match events fuel w1 with
          | None => ([], 1)
          | Some ev =>
              let (l, s) := mrun fuel k n w1 r in
              (CO (filter (is_func k) (invoked ob)) (WaiterSpec.ret ob) (map (wch w1) (entries n))
                  ev (b2z (isEmpty w1)) :: l, s)
          end
      end
  end.

(* ---- specification side: the abstract queue of Model/WaiterSpec.v (no model function) ---- *)
Fixpoint srun (k : Z -> kind) (n : nat) (a : astate) (ops : list op) : list cobs :=
  match ops with
  | [] => []
  | o :: r =>
      let (a1, ob) := sstep k a o in
      CO (filter (is_func k) (invoked ob)) (WaiterSpec.ret ob)
         (map (fun e => if mem e (atok a1) then 1 else 0) (entries n))
         (union_masks (areg a1)) (match areg a1 with [] => 1 | _ => 0 end)
      :: srun k n a1 r
  end.

Definition corr (c : case) : Z :=
  match c with
  | CHist kinds ops obs status =>
      let k := kind_of kinds in
      let (mo, ms) := mrun (S (length ops)) k (length kinds) w0 ops in
      if lcobs_eqb mo obs && (ms =? status) then 0 else 1
  | CConc _ _ _ _ _ _ _ => 0
  end.

(* property monitor on the implementation's observations: on a history that respects the API
   contract every operation returns and does exactly what the abstract queue does (each Notify
   calls back exactly the registered entries with intersecting mask, once, in registration
   order; tokens; Events; IsEmpty).  Outside the contract the property says nothing. *)
Definition spec (c : case) : Z :=
  match c with
  | CHist kinds ops obs status =>
      if contractb [] ops
      then if (status =? 0) && lcobs_eqb (srun (kind_of kinds) (length kinds) a0 ops) obs then 0 else 1
      else 0
  | CConc _ _ _ late dup missing extra =>
      if (late =? 0) && (dup =? 0) && (missing =? 0) && (extra =? 0) then 0 else 1
  end.

Definition any_called (obs : list cobs) : bool :=
  existsb (fun o => match o with CO c _ _ _ _ => match c with [] => false | _ => true end end) obs.
Definition any_token (obs : list cobs) : bool :=
  existsb (fun o => match o with CO _ _ l _ _ => existsb (fun x => negb (x =? 0)) l end) obs.
Definition has_unregister (ops : list op) : bool :=
  existsb (fun o => match o with OUnregister _ => true | _ => false end) ops.

(* 0 = trivial (no callback ran, no token); 1 = function callbacks only; 2 = a channel token was
   observed; +2 if the history also unregisters; 5 = concurrent run; 8 = did not return /
   panicked; 9 = history outside the contract (model-vs-code only) *)
Definition tag (c : case) : Z :=
  match c with
  | CHist kinds ops obs status =>
      if negb (contractb [] ops) then 9
      else if negb (status =? 0) then 8
      else (if any_token obs then 2 else if any_called obs then 1 else 0)
           + (if (any_token obs || any_called obs) && has_unregister ops then 2 else 0)
  | CConc _ _ _ _ _ _ _ => 5
  end.

Definition judge (c : case) : list Z := [corr c; spec c; tag c].
Definition judge_all (cs : list case) : list Z := flat_map judge cs.
