(* Correspondence vocabulary for C19 (pkg/sleep under controlled schedules).

   One [Run] case = one controlled execution of the REAL (instrumented) sleep_unsafe.go by the
   driver harness/cmd/h_c19:
     nw       number of wakers
     progs    per thread its API calls, one number each: 1000000*kind + 1000*w + a
              (kind 1 AddWaker(w, id=a), 2 Fetch(block=a), 3 Done, 4 Assert(w), 5 Clear(w),
              6 IsAsserted(w)); thread 0 owns the Sleeper
     sched    thread ids in the order the driver granted steps (one atomic operation each)
     flatobs  eight numbers per step (flattened): pos spos retv ws wg sh lo al
              pos   point the stepping thread is stopped at afterwards (0 finished, 1 parked in
                    gopark, 900 between two API calls, otherwise the id given by h_c19/instr)
              spos  the same for thread 0
              retv  16*code + value of the API call that returned in this step (0 none;
                    1 AddWaker; 2 Fetch returned id=value; 3 Fetch returned nothing; 4 Done;
                    5 Assert; 6 Clear returned value; 7 IsAsserted returned value)
              ws    sum over the wakers of class(w.s)*4^w (0 nil, 1 the sleeper, 2 asserted)
              wg    class of waitingG (0, 1 preparingG, 2 a G)
              sh lo   sharedList / localList as decimal digits of the waker ids (head first)
              al      1 + allWakers likewise, or 0 while Done executes (Done reuses the links)
     hung     a granted step (or a readied sleeper) did not come back within the watchdog time
     panicked some client goroutine panicked
     maximal  the run ended because no goroutine was enabled in the real state
   [Stress] = one UNCONTROLLED stress run (search aid; not compared with the model). *)
From Coq Require Import ZArith Bool List Arith.
From Coq Require Export Uint63.
From NP Require Import Model.Sleep.
Import ListNotations.
Open Scope Z_scope.

(* [sched] and [flatobs] are written as primitive 63-bit integers ([...]%uint63): their literals
   are parsed natively, which makes the case files about three times cheaper to load than with Z
   literals; they are converted to Z before anything is done with them *)
Inductive case :=
| Run (nw : Z) (progs : list (list Z)) (sched63 : list int) (flatobs63 : list int) (hung panicked maximal : bool)
| Stress (wakers iters extra : Z) (completed : bool).

Definition zs (l : list int) : list Z := map Uint63.to_Z l.

Definition ob := (Z * Z * Z * Z * Z * Z * Z * Z)%type.

Fixpoint unflat (fuel : nat) (l : list Z) : list ob :=
  match fuel with
  | O => []
  | S f => match l with
           | [] => []
           | a :: b :: c :: d :: e :: g :: h :: i :: r => (a, b, c, d, e, g, h, i) :: unflat f r
           | _ => [(-7, -7, -7, -7, -7, -7, -7, -7)]
           end
  end.
Definition obs_of (l : list Z) : list ob := unflat (length l) l.

(* ------------------------------------------------------------------ model side *)
Definition op_of (z : Z) : option op :=
  let k := z / 1000000 in
  let w := Z.to_nat ((z / 1000) mod 1000) in
  let a := z mod 1000 in
  if k =? 1 then Some (OAdd w a)
  else if k =? 2 then Some (OFetch (negb (a =? 0)))
  else if k =? 3 then Some ODone
  else if k =? 4 then Some (OAssert w)
  else if k =? 5 then Some (OClear w)
  else if k =? 6 then Some (OIsAsserted w)
  else None.

Fixpoint zprog_of (l : list Z) : option (list op) :=
  match l with
  | [] => Some []
  | z :: r => match op_of z, zprog_of r with Some o, Some p => Some (o :: p) | _, _ => None end
  end.
Fixpoint progs_of (l : list (list Z)) : option (list (list op)) :=
  match l with
  | [] => Some []
  | z :: r => match zprog_of z, progs_of r with Some o, Some p => Some (o :: p) | _, _ => None end
  end.

(* the schedule point at which a model thread is stopped *)
Definition pos_of (st : state) (t : nat) : Z :=
  match pc_of st t with
  | PIdle => match prog_of st t with [] => 0 | _ => 900 end
  | PAwLoad _ => 110 | PAwCas _ _ => 140
  | PNwLoad1 _ => 210 | PNwStoreP _ => 260 | PNwLoad2 _ => 211 | PNwStore0 _ => 261
  | PNwPark _ => 280 | PNwParked _ => 1 | PNwSwap _ => 230
  | PFSwap _ _ => 330
  | PDLoad _ _ _ => 410 | PDCas _ _ _ => 440
  | PEnqLoad _ _ => 510 | PEnqCas _ _ _ => 540 | PEnqLoadG _ _ => 550 | PEnqCasG _ _ _ => 570
  | PAsLoad _ => 610 | PAsSwap _ => 630
  | PClLoad _ => 710 | PClCas _ => 740
  | PIsLoad _ => 810
  | PPanic => -1
  end.

Definition b2z (b : bool) : Z := if b then 1 else 0.

Fixpoint retv_of (evs : list event) : Z :=
  match evs with
  | [] => 0
  | e :: r =>
      match e with
      | ERetAdd _ _ => 16
      | ERetFetch _ _ id => 32 + id mod 16
      | ERetFetchNone _ => 48
      | ERetDone _ => 64
      | ERetAssert _ _ => 80
      | ERetClear _ _ b => 96 + b2z b
      | ERetIs _ _ b => 112 + b2z b
      | _ => retv_of r
      end
  end.

Definition wclass (s : wstate) : Z := match s with WNil => 0 | WSlp => 1 | WAst => 2 end.
Definition gclass (g : gstate) : Z := match g with G0 => 0 | GPrep => 1 | GPark => 2 end.

Fixpoint ws_pack (st : state) (n : nat) : Z :=   (* wakers 0..n-1, waker 0 least significant *)
  match n with
  | O => 0
  | S k => ws_pack st k + wclass (ws st k) * 4 ^ (Z.of_nat k)
  end.

Definition digit (z : Z) : Z := if (z <? 0) || (9 <? z) then 0 else z.
Definition ids_pack (st : state) (l : list nat) : Z :=
  fold_left (fun acc w => acc * 10 + digit (wident st w)) l 0.

Definition in_done (p : pc) : bool :=
  match p with
  | PDLoad _ _ _ | PDCas _ _ _ => true
  | PNwLoad1 (CDone _) | PNwStoreP (CDone _) | PNwLoad2 (CDone _) | PNwStore0 (CDone _)
  | PNwPark (CDone _) | PNwParked (CDone _) | PNwSwap (CDone _) => true
  | _ => false
  end.

Definition model_ob (st : state) (nw : nat) (t : nat) (evs : list event) : ob :=
  (pos_of st t, pos_of st 0, retv_of evs, ws_pack st nw, gclass (wg st),
   ids_pack st (shared st), ids_pack st (local st),
   if in_done (pc_of st 0) then 0 else 1 + ids_pack st (allw st)).

Definition ob_eqb (a b : ob) : bool :=
  match a, b with
  | (a1, a2, a3, a4, a5, a6, a7, a8), (b1, b2, b3, b4, b5, b6, b7, b8) =>
      (a1 =? b1) && (a2 =? b2) && (a3 =? b3) && (a4 =? b4) && (a5 =? b5) && (a6 =? b6) && (a7 =? b7) && (a8 =? b8)
  end.

(* run the model along the schedule with the SAME [step_ev] the theorems are about, comparing every
   observation; a step the model says is not enabled (blocked / finished thread) fails *)
Fixpoint follow (st : state) (nw : nat) (sched : list Z) (obs : list ob) : option state :=
  match sched, obs with
  | [], [] => Some st
  | t :: r, o :: ro =>
      if t <? 0 then None else
      match step_ev st (Z.to_nat t) with
      | None => None
      | Some (st', evs) =>
          if ob_eqb (model_ob st' nw (Z.to_nat t) evs) o then follow st' nw r ro else None
      end
  | _, _ => None
  end.

Fixpoint none_enabled (st : state) (n : nat) : bool :=
  match n with
  | O => true
  | S k => match step_ev st k with None => none_enabled st k | Some _ => false end
  end.

(* 0 = the model, run on the same programs and schedule, shows exactly what the real code showed
   after every step, and agrees that nothing is enabled at the end of a maximal run *)
Definition corr (c : case) : Z :=
  match c with
  | Run nw progs sched63 fobs63 hung panicked maximal =>
      let sched := zs sched63 in let fobs := zs fobs63 in
      if hung || panicked then 1 else
      match progs_of progs with
      | None => 1
      | Some ps =>
          match follow (init ps) (Z.to_nat nw) sched (obs_of fobs) with
          | None => 1
          | Some sf => if maximal && negb (none_enabled sf (length ps)) then 1 else 0
          end
      end
  | Stress _ _ _ _ => 0
  end.

(* ------------------------------------------------------------------ property monitor
   Written from the property text on the API-call history of the run (which call was invoked /
   returned what at which step) -- no model function is used:
   (a) an id returned by Fetch is the id given in the last AddWaker of a waker for which an Assert
       call may have taken effect since that waker was last returned by Fetch or cleared
       (an Assert invoked since, or still in flight then) -- no invented wake-up, and one
       notification per assertion episode;
   (b) Clear / IsAsserted return true only for such a waker; they return true for a waker that is
       surely asserted (some Assert call on it returned, and no Fetch returned it / Clear cleared it
       after that call was invoked);
   (c) Fetch(false) returns nothing only if no attached waker is surely asserted with no Assert
       call on it in flight when the Fetch was invoked (then its enqueue had completed);
       Fetch(true) never returns nothing;
   (d) no lost wake-up: a run that ends with no goroutine enabled has finished every thread except
       possibly thread 0, which may then only be parked inside a blocking Fetch while NO attached
       waker is surely asserted (never inside Done);
   (e) no real blocking (hung) and no panic;
   (f) after Done has returned and until the next AddWaker is invoked, nothing touches the sleeper:
       in every observed state its lists are empty and no waker refers to it. *)
Record mst := mkM {
  m_pos : list Z;           (* where each thread is stopped *)
  m_idx : list nat;         (* number of calls each thread has invoked *)
  m_cur : list Z;           (* the call each thread is executing (0 none) *)
  m_clean : list bool;      (* thread is in an Assert call and no consumption of its waker since *)
  m_snap : list (list bool);(* per thread, per waker: surely asserted since the call was invoked *)
  m_infl : list Z;          (* per waker: Assert calls in flight *)
  m_may : list bool;        (* per waker: an assertion may be pending *)
  m_sure : list bool;       (* per waker: an assertion is surely pending *)
  m_att : list bool;        (* per waker: AddWaker returned and no Done invoked since *)
  m_lastid : list Z;        (* per waker: id given in the last AddWaker (0 none) *)
  m_det : bool;             (* Done has returned and no AddWaker was invoked since *)
  m_bad : bool;
  m_woke : bool; m_done : bool
}.

Definition okind (z : Z) : Z := z / 1000000.
Definition owk (z : Z) : nat := Z.to_nat ((z / 1000) mod 1000).
Definition oarg (z : Z) : Z := z mod 1000.

(* waker w was consumed (returned by Fetch, or cleared) *)
Definition consume (m : mst) (w : nat) : mst :=
  mkM (m_pos m) (m_idx m) (m_cur m)
      (map (fun '(c, cl) => if (okind c =? 4) && Nat.eqb (owk c) w then false else cl)
           (combine (m_cur m) (m_clean m)))
      (map (fun s => lset s w false) (m_snap m))
      (m_infl m) (lset (m_may m) w (0 <? nth w (m_infl m) 0)) (lset (m_sure m) w false)
      (m_att m) (m_lastid m) (m_det m) (m_bad m) (m_woke m) (m_done m).

Definition set_bad (m : mst) (b : bool) : mst :=
  mkM (m_pos m) (m_idx m) (m_cur m) (m_clean m) (m_snap m) (m_infl m) (m_may m) (m_sure m)
      (m_att m) (m_lastid m) (m_det m) (m_bad m || b) (m_woke m) (m_done m).

Fixpoint find_id (ids : list Z) (id : Z) (i : nat) : option nat :=
  match ids with
  | [] => None
  | x :: r => if x =? id then Some i else find_id r id (S i)
  end.

Definition and_lists (a b : list bool) : list bool := map (fun '(x, y) => x && y) (combine a b).

Definition invoke (m : mst) (t : nat) (c : Z) : mst :=
  let k := okind c in
  let w := owk c in
  let m1 := mkM (m_pos m) (lset (m_idx m) t (S (nth t (m_idx m) O))) (lset (m_cur m) t c)
                (m_clean m) (m_snap m) (m_infl m) (m_may m) (m_sure m) (m_att m) (m_lastid m)
                (m_det m) (m_bad m) (m_woke m) (m_done m) in
  if k =? 1 then
    mkM (m_pos m1) (m_idx m1) (m_cur m1) (m_clean m1) (m_snap m1) (m_infl m1) (m_may m1) (m_sure m1)
        (m_att m1) (lset (m_lastid m1) w (oarg c)) false (m_bad m1) (m_woke m1) (m_done m1)
  else if k =? 2 then
    let quiet := map (fun n => n =? 0) (m_infl m1) in
    mkM (m_pos m1) (m_idx m1) (m_cur m1) (m_clean m1)
        (lset (m_snap m1) t (and_lists (and_lists (m_sure m1) (m_att m1)) quiet))
        (m_infl m1) (m_may m1) (m_sure m1) (m_att m1) (m_lastid m1) (m_det m1) (m_bad m1) (m_woke m1) (m_done m1)
  else if k =? 3 then
    mkM (m_pos m1) (m_idx m1) (m_cur m1) (m_clean m1) (m_snap m1) (m_infl m1) (m_may m1) (m_sure m1)
        (map (fun _ => false) (m_att m1)) (m_lastid m1) (m_det m1) (m_bad m1) (m_woke m1) true
  else if k =? 4 then
    mkM (m_pos m1) (m_idx m1) (m_cur m1) (lset (m_clean m1) t true) (m_snap m1)
        (lset (m_infl m1) w (nth w (m_infl m1) 0 + 1)) (lset (m_may m1) w true) (m_sure m1)
        (m_att m1) (m_lastid m1) (m_det m1) (m_bad m1) (m_woke m1) (m_done m1)
  else
    mkM (m_pos m1) (m_idx m1) (m_cur m1) (m_clean m1) (lset (m_snap m1) t (m_sure m1))
        (m_infl m1) (m_may m1) (m_sure m1) (m_att m1) (m_lastid m1) (m_det m1) (m_bad m1) (m_woke m1) (m_done m1).

Definition returned (m : mst) (t : nat) (retv : Z) : mst :=
  let code := retv / 16 in
  let val := retv mod 16 in
  let c := nth t (m_cur m) 0 in
  let k := okind c in
  let w := owk c in
  let snap_t := nth t (m_snap m) [] in
  let m0 := mkM (m_pos m) (m_idx m) (lset (m_cur m) t 0) (m_clean m) (m_snap m) (m_infl m) (m_may m)
                (m_sure m) (m_att m) (m_lastid m) (m_det m) (m_bad m) (m_woke m) (m_done m) in
  if code =? 1 then
    set_bad (mkM (m_pos m0) (m_idx m0) (m_cur m0) (m_clean m0) (m_snap m0) (m_infl m0) (m_may m0) (m_sure m0)
                 (lset (m_att m0) w true) (m_lastid m0) (m_det m0) (m_bad m0) (m_woke m0) (m_done m0))
            (negb (k =? 1))
  else if code =? 2 then
    match find_id (m_lastid m) val O with
    | None => set_bad m0 true
    | Some fw => set_bad (consume m0 fw) (negb (k =? 2) || negb (nth fw (m_may m) false))
    end
  else if code =? 3 then
    set_bad m0 (negb (k =? 2) || negb (oarg c =? 0) || existsb (fun b => b) snap_t)
  else if code =? 4 then
    set_bad (mkM (m_pos m0) (m_idx m0) (m_cur m0) (m_clean m0) (m_snap m0) (m_infl m0) (m_may m0) (m_sure m0)
                 (m_att m0) (m_lastid m0) true (m_bad m0) (m_woke m0) (m_done m0))
            (negb (k =? 3))
  else if code =? 5 then
    set_bad (mkM (m_pos m0) (m_idx m0) (m_cur m0) (m_clean m0) (m_snap m0)
                 (lset (m_infl m0) w (nth w (m_infl m0) 0 - 1)) (m_may m0)
                 (if nth t (m_clean m0) false then lset (m_sure m0) w true else m_sure m0)
                 (m_att m0) (m_lastid m0) (m_det m0) (m_bad m0) (m_woke m0) (m_done m0))
            (negb (k =? 4))
  else if code =? 6 then
    if val =? 1 then set_bad (consume m0 w) (negb (k =? 5) || negb (nth w (m_may m) false))
    else set_bad m0 (negb (k =? 5) || nth w snap_t false)
  else if code =? 7 then
    if val =? 1 then set_bad m0 (negb (k =? 6) || negb (nth w (m_may m) false))
    else set_bad m0 (negb (k =? 6) || nth w snap_t false)
  else set_bad m0 true.

(* some base-4 digit of the packed waker classes is 1 (a waker refers to the sleeper) *)
Fixpoint has_digit1 (fuel : nat) (z : Z) : bool :=
  match fuel with
  | O => false
  | S f => if z <=? 0 then false else ((z mod 4) =? 1) || has_digit1 f (z / 4)
  end.

Definition spec_step (progs : list (list Z)) (m : mst) (tz : Z) (o : ob) : mst :=
  match o with
  | (pos, spos, retv, wsp, _, sh, lo, _) =>
      if tz <? 0 then set_bad m true else
      let t := Z.to_nat tz in
      let pre := nth t (m_pos m) (-1) in
      let m1 := if pre =? 900
                then invoke m t (nth (nth t (m_idx m) O) (nth t progs []) 0)
                else m in
      let m2 := if retv =? 0 then m1 else returned m1 t retv in
      let woke := (nth O (m_pos m2) 0 =? 1) && negb (spos =? 1) in
      mkM (lset (lset (m_pos m2) t pos) O spos) (m_idx m2) (m_cur m2) (m_clean m2) (m_snap m2) (m_infl m2)
          (m_may m2) (m_sure m2) (m_att m2) (m_lastid m2)
          (m_det m2)
          (m_bad m2 || (pre =? 0) || (pre =? 1) ||
           (m_det m2 && (negb (sh =? 0) || negb (lo =? 0) || has_digit1 8 wsp)))
          (m_woke m2 || woke) (m_done m2)
  end.

Fixpoint spec_run (progs : list (list Z)) (m : mst) (sched : list Z) (obs : list ob) : mst :=
  match sched, obs with
  | t :: r, o :: ro => spec_run progs (spec_step progs m t o) r ro
  | _, _ => m
  end.

Definition spec_init (nw : nat) (progs : list (list Z)) : mst :=
  let nt := length progs in
  mkM (map (fun p => match p with [] => 0 | _ => 900 end) progs) (repeat O nt) (repeat 0 nt) (repeat false nt)
      (repeat (repeat false nw) nt) (repeat 0 nw) (repeat false nw) (repeat false nw) (repeat false nw)
      (repeat 0 nw) false false false false.

Definition spec_final (nw : nat) (progs : list (list Z)) (sched : list Z) (obs : list ob) : mst :=
  spec_run progs (spec_init nw progs) sched obs.

(* (d): the end of a maximal run *)
Definition end_ok (m : mst) : bool :=
  match m_pos m with
  | [] => true
  | p0 :: others =>
      forallb (fun p => p =? 0) others &&
      ((p0 =? 0) ||
       ((p0 =? 1) && (okind (nth O (m_cur m) 0) =? 2) &&
        negb (existsb (fun b => b) (and_lists (m_sure m) (m_att m)))))
  end.

Definition spec (c : case) : Z :=
  match c with
  | Run nw progs sched63 fobs63 hung panicked maximal =>
      let sched := zs sched63 in let fobs := zs fobs63 in
      if hung || panicked then 1 else
      let m := spec_final (Z.to_nat nw) progs sched (obs_of fobs) in
      if m_bad m then 1
      else if negb (Nat.eqb (length sched) (length (obs_of fobs))) then 1
      else if maximal && negb (end_ok m) then 1
      else 0
  | Stress _ _ extra completed => if negb (extra =? 0) || negb completed then 1 else 0
  end.

(* 0 = nothing was scheduled; 1 = the sleeper never parked, or never left the park;
   2 = the sleeper parked and was woken; 3 = the run ended with the sleeper parked and it had been
   woken before; 4 = Done was executed; 5 = uncontrolled stress run *)
Definition tag (c : case) : Z :=
  match c with
  | Run nw progs sched63 fobs63 hung panicked maximal =>
      let sched := zs sched63 in let fobs := zs fobs63 in
      match sched with
      | [] => 0
      | _ =>
          let m := spec_final (Z.to_nat nw) progs sched (obs_of fobs) in
          if m_done m then 4
          else if m_woke m then (if nth O (m_pos m) 0 =? 1 then 3 else 2)
          else 1
      end
  | Stress _ _ _ _ => 5
  end.

Definition judge (c : case) : list Z := [corr c; spec c; tag c].
Definition judge_all (cs : list case) : list Z := flat_map judge cs.
