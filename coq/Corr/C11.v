(* Correspondence vocabulary for C11.  One case = one history on ONE UDP socket of a real stack
   (two NICs, IPv4 + IPv6): packets injected through the link layer, Read / Write / Bind / Connect /
   Shutdown / Close calls, ICMP errors; for every step what the implementation returned, the frames
   it emitted, and (through a read-only accessor) rcvBufSize and the queue length afterwards.

   [corr]  replays the history on Model.Udp (the demultiplexer's decision and the answers of
           Bind/Connect/route lookup are inputs, see Model/Udp.v) and compares every observable;
   [spec]  an abstract oracle written from the property text, independent of the model functions:
           a FIFO of accepted datagrams; reads must return its head; emitted frames must be one
           well-formed packet carrying exactly the written bytes;
   [tag]   0 for a history without a delivered datagram or an emitted frame. *)
From Coq Require Import ZArith List Bool.
From NP Require Import Model.Bytes Model.Udp.
Import ListNotations.
Open Scope Z_scope.

(* compact notation of the driver for payloads: byte i of pattern [id] is
   (id * 131 + i * 7 + i / 256 * 13 + 1) mod 256, generated incrementally (x = the current byte,
   j = i mod 256) so that no division is needed per element *)
Fixpoint pgen (k : nat) (x j : Z) : list Z :=
  match k with
  | O => []
  | S k' =>
      let j' := if j =? 255 then 0 else j + 1 in
      let x' := if j =? 255 then x + 20 else x + 7 in
      x :: pgen k' (if 256 <=? x' then x' - 256 else x') j'
  end.
Definition P (id n : Z) : list Z := pgen (Z.to_nat n) ((id * 131 + 1) mod 256) 0.
(* the defining formula, for reference and for the sanity check below *)
Definition pat_byte (id i : Z) : Z := (id * 131 + i * 7 + i / 256 * 13 + 1) mod 256.

Inductive robs := RdData (nic : Z) (addr : list Z) (port : Z) (payload : list Z) | RdErr (err : Z).
Inductive frame := Frame (proto : Z) (bytes : list Z).
Inductive dest := NoDest | Dest (addr : list Z) (port : Z).

Inductive hop :=
(* an IP packet (family fam, src -> dst, protocol 17) injected on NIC nic; seg = the IP payload;
   first = length of the first view that reaches the transport layer *)
| HArrive (nic fam : Z) (src dst : list Z) (first : Z) (seg : list Z)
(* an ICMP error quoting a datagram of ours: typ 0 = packet too big, 1 = port unreachable; the
   quoted datagram went from dst:dport (us) to src:sport *)
| HIcmp (typ nic fam : Z) (src dst : list Z) (sport dport : Z)
| HRead (r : robs)
| HShutdown (rd wr : bool) (err : Z)
| HClose
| HBind (addr : list Z) (port : Z) (err lport : Z)
| HConnect (addr : list Z) (port : Z) (err lport : Z) (laddr : list Z)
(* routable / rsrc: whether the driver expects a route to the destination and the local address it
   expects the route to use; lport = local port after the call *)
| HWrite (more : bool) (to : dest) (routable : bool) (rsrc : list Z) (payload : list Z)
         (n err : Z) (frames : list frame) (lport : Z)
(* the call panicked inside the code under test (recovered by the driver) *)
| HPanic (what : Z).

Inductive hstep := St (o : hop) (size qlen : Z).
(* cfg = [rcvBufSizeMax; socket family 4|6; v6only 0|1] *)
(* CConc: steps (bind, then arrivals injected by one goroutine, observations (-1) = not taken) ran
   concurrently with several goroutines calling Read; readers = what each reader's successful
   Reads returned, in its own order; the last list is the final drain by the main goroutine *)
Inductive case :=
| CHist (cfg : list Z) (steps : list hstep)
| CConc (cfg : list Z) (steps : list hstep) (readers : list (list robs)).

Definition cfg_max (cfg : list Z) : Z := nth 0 cfg 0.
Definition cfg_fam (cfg : list Z) : Z := nth 1 cfg 4.
Definition cfg_v6only (cfg : list Z) : bool := nth 2 cfg 0 =? 1.

Fixpoint zl_eqb (a b : list Z) : bool :=
  match a, b with
  | [], [] => true
  | x :: a', y :: b' => (x =? y) && zl_eqb a' b'
  | _, _ => false
  end.

Definition proto_of_fam (fam : Z) : Z := if fam =? 4 then 2048 else 34525.

(* ---- which packets the demultiplexer hands to the socket (stack/transport_demuxer.go): test
   scaffolding shared by corr and spec, not a model function ---- *)
Record reg := mkReg { g_active : bool; g_protos : list Z; g_laddr : list Z; g_lport : Z; g_raddr : list Z; g_rport : Z }.
Definition reg0 : reg := mkReg false [] [] 0 [] 0.

Definition is_mapped (a : list Z) : bool :=
  (length a =? 16)%nat && zl_eqb (firstn 12 a) [0;0;0;0;0;0;0;0;0;0;255;255].
(* checkV4Mapped: (network family, address) actually used *)
Definition unmap (sockfam : Z) (a : list Z) : Z * list Z :=
  if is_mapped a then (4, let b := skipn 12 a in if zl_eqb b [0;0;0;0] then [] else b) else (sockfam, a).

Definition mem (x : Z) (l : list Z) : bool := existsb (Z.eqb x) l.

Definition deliverable (g : reg) (fam : Z) (src dst : list Z) (sport dport : Z) : bool :=
  g_active g && mem fam (g_protos g) && (dport =? g_lport g) &&
  (zl_eqb (g_laddr g) [] || zl_eqb (g_laddr g) dst) &&
  ((zl_eqb (g_raddr g) [] && (g_rport g =? 0)) || (zl_eqb (g_raddr g) src && (g_rport g =? sport))).

Definition reg_bind (cfg : list Z) (addr : list Z) (lport : Z) : reg :=
  let '(np, a) := unmap (cfg_fam cfg) addr in
  let protos := if (np =? 6) && negb (cfg_v6only cfg) && zl_eqb a [] then [6; 4] else [np] in
  mkReg true protos a lport [] 0.
Definition reg_connect (cfg : list Z) (addr : list Z) (port lport : Z) (laddr : list Z) : reg :=
  let '(np, a) := unmap (cfg_fam cfg) addr in
  let protos := if (np =? 6) && negb (cfg_v6only cfg) then [4; 6] else [np] in
  mkReg true protos laddr lport a port.

Definition be16 (b : list Z) (i : nat) : Z := nth i b 0 * 256 + nth (S i) b 0.
Definition slice (b : list Z) (i n : nat) : list Z := firstn n (skipn i b).

(* (proto, src, dst, ttl, transport bytes) of an emitted network-layer packet *)
Definition parse_frame (f : frame) : option (Z * list Z * list Z * Z * list Z) :=
  match f with
  | Frame proto b =>
      if proto =? 2048 then
        if (nth 0 b 0 =? 69) && (20 <=? len b) then Some (proto, slice b 12 4, slice b 16 4, nth 8 b 0, skipn 20 b) else None
      else if proto =? 34525 then
        if (nth 0 b 0 / 16 =? 6) && (40 <=? len b) then Some (proto, slice b 8 16, slice b 24 16, nth 7 b 0, skipn 40 b) else None
      else None
  end.

(* ======================= corr: replay on the model ======================= *)

Definition seg_eqb (sg : segment) (f : frame) : bool :=
  match parse_frame f with
  | Some (proto, src, dst, ttl, tr) =>
      (sg_netProto sg =? proto) && zl_eqb (sg_src sg) src && zl_eqb (sg_dst sg) dst &&
      (sg_ttl sg =? ttl) && zl_eqb (sg_bytes sg) tr
  | None => false
  end.
Fixpoint segs_eqb (l : list segment) (fs : list frame) : bool :=
  match l, fs with
  | [], [] => true
  | sg :: l', f :: fs' => seg_eqb sg f && segs_eqb l' fs'
  | _, _ => false
  end.

Definition is_initial (e : endpoint) : bool := match state e with stateInitial => true | _ => false end.
Definition is_dead (e : endpoint) : bool := match state e with stateClosed => true | _ => false end.

(* one step: None = the model and the implementation differ *)
Definition corr_step (cfg : list Z) (st : endpoint * reg) (h : hstep) : option (endpoint * reg) :=
  let '(e, g) := st in
  match h with
  | St o size qlen =>
      let res : option (endpoint * reg) :=
        match o with
        | HArrive nic fam src dst first seg =>
            if deliverable g fam src dst (be16 seg 0) (be16 seg 2) && (8 <=? first) then
              match step e (OArrive nic src (Z.to_nat first) seg) with
              | (e', OutNone) => Some (e', g)
              | _ => None
              end
            else Some (e, g)
        | HIcmp typ nic fam src dst sport dport =>
            if deliverable g fam src dst sport dport then Some (fst (step e (OControl typ)), g) else Some (e, g)
        | HRead r =>
            match step e ORead, r with
            | (e', OutRead (RData f v)), RdData nic addr port payload =>
                if (fa_nic f =? nic) && zl_eqb (fa_addr f) addr && (fa_port f =? port) && zl_eqb v payload
                then Some (e', g) else None
            | (e', OutRead (RErr err)), RdErr err' => if err =? err' then Some (e', g) else None
            | _, _ => None
            end
        | HShutdown rd wr err =>
            match step e (OShutdown rd wr) with
            | (e', OutErr err') => if err =? err' then Some (e', g) else None
            | _ => None
            end
        | HClose => Some (fst (step e OClose), reg0)
        | HBind addr port err lport =>
            match step e (OBind (if err =? 0 then inr lport else inl err)) with
            | (e', OutErr err') =>
                if err =? err' then Some (e', if err =? 0 then reg_bind cfg addr lport else g) else None
            | _ => None
            end
        | HConnect addr port err lport laddr =>
            let '(np, a) := unmap (cfg_fam cfg) addr in
            let r := mkRoute (proto_of_fam np) laddr a 255 false in
            match step e (OConnect port (if err =? 0 then inr (r, lport) else inl err)) with
            | (e', OutErr err') =>
                if err =? err' then Some (e', if err =? 0 then reg_connect cfg addr port lport laddr else g) else None
            | _ => None
            end
        | HWrite more to routable rsrc payload n err frames lport =>
            let to' := match to with NoDest => None | Dest _ p => Some p end in
            let rt := match to with
                      | NoDest => inl err
                      | Dest a _ => if routable
                                    then let '(np, a') := unmap (cfg_fam cfg) a in inr (mkRoute (proto_of_fam np) rsrc a' 255 false)
                                    else inl err
                      end in
            let env := mkWEnv (if lport =? 0 then inl err else inr lport) rt 0 0 in
            match step e (OWrite more to' env payload) with
            | (e', OutWrite r) =>
                if negb (w_panic r) && (w_n r =? n) && (w_err r =? err) && segs_eqb (w_emitted r) frames
                   && (localPort e' =? lport)
                then Some (e', if is_initial e && negb (is_initial e') then reg_bind cfg [] lport else g)
                else None
            | _ => None
            end
        | HPanic _ => None
        end in
      match res with
      | Some (e', g') =>
          if (size =? -1) || ((rcvBufSize e' =? size) && (Z.of_nat (length (rcvList e')) =? qlen)) then Some (e', g') else None
      | None => None
      end
  end.

Fixpoint corr_run (cfg : list Z) (st : endpoint * reg) (steps : list hstep) (i : Z) : Z :=
  match steps with
  | [] => 0
  | h :: rest => match corr_step cfg st h with
                 | Some st' => corr_run cfg st' rest (i + 1)
                 | None => i + 1          (* 1-based index of the first diverging step *)
                 end
  end.

Fixpoint corr_fold (cfg : list Z) (st : endpoint * reg) (steps : list hstep) : option (endpoint * reg) :=
  match steps with
  | [] => Some st
  | h :: rest => match corr_step cfg st h with Some st' => corr_fold cfg st' rest | None => None end
  end.

Definition robs_eqb (a b : robs) : bool :=
  match a, b with
  | RdData n1 a1 p1 v1, RdData n2 a2 p2 v2 => (n1 =? n2) && zl_eqb a1 a2 && (p1 =? p2) && zl_eqb v1 v2
  | RdErr e1, RdErr e2 => e1 =? e2
  | _, _ => false
  end.

(* remove r from the front of the first reader whose next result it is *)
Fixpoint pop_match (r : robs) (rs : list (list robs)) : option (list (list robs)) :=
  match rs with
  | [] => None
  | l :: rest =>
      match l with
      | h :: t => if robs_eqb h r then Some (t :: rest)
                  else match pop_match r rest with Some rest' => Some (l :: rest') | None => None end
      | [] => match pop_match r rest with Some rest' => Some (l :: rest') | None => None end
      end
  end.
(* the readers' sequences are an interleaving of [reads]: every element exactly once, each reader in order *)
Fixpoint interleaves (reads : list robs) (rs : list (list robs)) : bool :=
  match reads with
  | [] => forallb (fun l => match l with [] => true | _ => false end) rs
  | r :: rest => match pop_match r rs with Some rs' => interleaves rest rs' | None => false end
  end.

(* m Reads of the model *)
Fixpoint model_reads (m : nat) (e : endpoint) : list robs :=
  match m with
  | O => []
  | S m' => match read e with
            | (e', RData f v) => RdData (fa_nic f) (fa_addr f) (fa_port f) v :: model_reads m' e'
            | (e', RErr err) => RdErr err :: model_reads m' e'
            end
  end.

Definition corr (c : case) : Z :=
  match c with
  | CHist cfg steps => corr_run cfg (newEndpoint (cfg_max cfg), reg0) steps 0
  | CConc cfg steps readers =>
      (* one linearization: the arrivals in injection order, then as many Reads as succeeded *)
      match corr_fold cfg (newEndpoint (cfg_max cfg), reg0) steps with
      | Some (e, _) =>
          let m := fold_right (fun l acc => (length l + acc)%nat) O readers in
          if interleaves (model_reads m e) readers then 0 else 2
      | None => 1
      end
  end.

(* ======================= spec: abstract oracle from the property text ======================= *)

Record item := mkItem { i_nic : Z; i_addr : list Z; i_port : Z; i_payload : list Z }.
Definition qsize (q : list item) : Z := fold_right (fun d acc => len (i_payload d) + acc) 0 q.

Record sst := mkS {
  s_q : list item; s_rclosed : bool; s_wclosed : bool; s_dead : bool; s_reg : reg;
  s_conn : bool; s_caddr : list Z; s_cport : Z;
  (* statistics for the tag *)
  n_read : Z; n_full : Z; n_mal : Z; n_wok : Z; n_cdrop : Z }.

Definition s0 : sst := mkS [] false false false reg0 false [] 0 0 0 0 0 0.

(* integer sum of the big-endian 16-bit words of b (odd tail padded with 0) *)
Fixpoint wsum (b : list Z) (acc : Z) : Z :=
  match b with
  | hi :: lo :: t => wsum t (acc + hi * 256 + lo)
  | [hi] => acc + hi * 256
  | [] => acc
  end.
(* "the one's complement sum of pseudo header, header and data is all ones" *)
Definition sum_verifies (total : Z) : bool := (0 <? total) && (total mod 65535 =? 0).

Definition max_payload (proto : Z) : Z := if proto =? 2048 then 65507 else 65527.

(* the emitted frame is ONE packet: IP lengths consistent with the frame, protocol 17, expected
   addresses; UDP ports, length = 8 + n, payload = the written bytes, checksum verifying *)
Definition frame_ok (f : frame) (src dst : list Z) (sport dport : Z) (payload : list Z) : bool :=
  match f with
  | Frame proto b =>
      match parse_frame f with
      | None => false
      | Some (_, fsrc, fdst, ttl, tr) =>
          let n := len payload in
          (if proto =? 2048
           then (be16 b 2 =? len b) && (nth 9 b 0 =? 17) && (be16 b 6 mod 16384 =? 0) && sum_verifies (wsum (firstn 20 b) 0)
           else (be16 b 4 =? len b - 40) && (nth 6 b 0 =? 17)) &&
          zl_eqb fsrc src && zl_eqb fdst dst &&
          (len tr =? 8 + n) && (n <=? max_payload proto) &&
          (be16 tr 0 =? sport) && (be16 tr 2 =? dport) && (be16 tr 4 =? 8 + n) &&
          zl_eqb (skipn 8 tr) payload &&
          sum_verifies (wsum fsrc 0 + wsum fdst 0 + 17 + len tr + wsum tr 0)
      end
  end.

Definition upd_q (s : sst) (q : list item) : sst :=
  mkS q (s_rclosed s) (s_wclosed s) (s_dead s) (s_reg s) (s_conn s) (s_caddr s) (s_cport s)
      (n_read s) (n_full s) (n_mal s) (n_wok s) (n_cdrop s).
Definition upd_reg (s : sst) (g : reg) : sst :=
  mkS (s_q s) (s_rclosed s) (s_wclosed s) (s_dead s) g (s_conn s) (s_caddr s) (s_cport s)
      (n_read s) (n_full s) (n_mal s) (n_wok s) (n_cdrop s).
Definition bump (s : sst) (r f m w c : Z) : sst :=
  mkS (s_q s) (s_rclosed s) (s_wclosed s) (s_dead s) (s_reg s) (s_conn s) (s_caddr s) (s_cport s)
      (n_read s + r) (n_full s + f) (n_mal s + m) (n_wok s + w) (n_cdrop s + c).

(* None = the property is violated at this step *)
Definition spec_step (cfg : list Z) (s : sst) (h : hstep) : option sst :=
  match h with
  | St o size qlen =>
      let res : option sst :=
        match o with
        | HArrive nic fam src dst first seg =>
            if deliverable (s_reg s) fam src dst (be16 seg 0) (be16 seg 2) && (8 <=? first) then
              let L := be16 seg 4 in
              if negb ((8 <=? L) && (L <=? len seg)) then Some (bump s 0 0 1 0 0)
              else if s_rclosed s then Some (bump s 0 0 0 0 1)
              else if negb (qsize (s_q s) <? cfg_max cfg) then Some (bump s 0 1 0 0 0)
              else Some (upd_q s (s_q s ++ [mkItem nic src (be16 seg 0) (slice seg 8 (Z.to_nat (L - 8)))]))
            else Some s
        | HIcmp _ _ _ _ _ _ _ => Some s
        | HRead r =>
            match s_q s, r with
            | d :: rest, RdData nic addr port payload =>
                if (i_nic d =? nic) && zl_eqb (i_addr d) addr && (i_port d =? port) && zl_eqb (i_payload d) payload
                then Some (bump (upd_q s rest) 1 0 0 0 0) else None
            | [], RdErr err => if err =? 0 then None else Some s
            | _, _ => None
            end
        | HShutdown rd wr err =>
            if err =? 0
            then Some (mkS (s_q s) (s_rclosed s || rd) (s_wclosed s || wr) (s_dead s) (s_reg s) (s_conn s) (s_caddr s)
                           (s_cport s) (n_read s) (n_full s) (n_mal s) (n_wok s) (n_cdrop s))
            else Some s
        | HClose =>
            Some (mkS [] true true true reg0 (s_conn s) (s_caddr s) (s_cport s)
                      (n_read s) (n_full s) (n_mal s) (n_wok s) (n_cdrop s))
        | HBind addr port err lport =>
            if err =? 0 then Some (upd_reg s (reg_bind cfg addr lport)) else Some s
        | HConnect addr port err lport laddr =>
            if err =? 0
            then Some (mkS (s_q s) (s_rclosed s) (s_wclosed s) (s_dead s) (reg_connect cfg addr port lport laddr) true
                           (snd (unmap (cfg_fam cfg) addr)) port (n_read s) (n_full s) (n_mal s) (n_wok s) (n_cdrop s))
            else Some s
        | HWrite more to routable rsrc payload n err frames lport =>
            let '(daddr, dport, proto, has_dest) :=
              match to with
              | Dest a p => let '(np, a') := unmap (cfg_fam cfg) a in (a', p, proto_of_fam np, true)
              | NoDest => (s_caddr s, s_cport s, (if (length (s_caddr s) =? 4)%nat then 2048 else 34525), s_conn s)
              end in
            let must_fail := more || s_wclosed s || (max_payload proto <? len payload) || negb has_dest in
            let must_succeed := negb must_fail && negb (s_dead s) &&
                                match to with Dest _ _ => routable | NoDest => true end in
            let ok :=
              if err =? 0
              then negb must_fail && (n =? len payload) &&
                   match frames with [f] => frame_ok f rsrc daddr lport dport payload | _ => false end
              else negb must_succeed && (n =? 0) && match frames with [] => true | _ => false end &&
                   (if negb more && negb (s_wclosed s) && (max_payload proto <? len payload) && has_dest && negb (s_dead s)
                       && match to with Dest _ _ => routable | NoDest => true end
                    then err =? 4 else true) in
            if ok then
              let s1 := if err =? 0 then bump s 0 0 0 1 0 else s in
              (* a write on a never-bound socket binds it to an ephemeral port on all addresses *)
              Some (if negb (g_active (s_reg s1)) && negb (s_dead s1) && negb (lport =? 0)
                    then upd_reg s1 (reg_bind cfg [] lport) else s1)
            else None
        | HPanic _ => None
        end in
      match res with
      | Some s' => if (size =? -1) || ((qsize (s_q s') =? size) && (Z.of_nat (length (s_q s')) =? qlen)) then Some s' else None
      | None => None
      end
  end.

Fixpoint spec_run (cfg : list Z) (s : sst) (steps : list hstep) : option sst :=
  match steps with
  | [] => Some s
  | h :: rest => match spec_step cfg s h with Some s' => spec_run cfg s' rest | None => None end
  end.

Definition spec (c : case) : Z :=
  match c with
  | CHist cfg steps => match spec_run cfg s0 steps with Some _ => 0 | None => 1 end
  | CConc cfg steps readers =>
      (* every accepted datagram is returned exactly once, unchanged, and every reader sees arrival order *)
      match spec_run cfg s0 steps with
      | Some s =>
          if interleaves (map (fun d => RdData (i_nic d) (i_addr d) (i_port d) (i_payload d)) (s_q s)) readers
          then 0 else 1
      | None => 1
      end
  end.

Definition b2z (b : bool) : Z := if b then 1 else 0.

(* 0 = nothing delivered and nothing emitted; otherwise 1 + bit set {buffer-full drop, malformed
   length drop, successful write, read-closed drop} *)
Definition tag (c : case) : Z :=
  match c with
  | CHist cfg steps =>
      match spec_run cfg s0 steps with
      | Some s =>
          if (n_read s + n_wok s =? 0) then 0
          else 1 + b2z (0 <? n_full s) + 2 * b2z (0 <? n_mal s) + 4 * b2z (0 <? n_wok s) + 8 * b2z (0 <? n_cdrop s)
      | None => 1
      end
  | CConc _ _ readers =>
      (* 32 + number of readers that got something *)
      32 + Z.of_nat (length (filter (fun l => match l with [] => false | _ => true end) readers))
  end.

Definition judge (c : case) : list Z := [corr c; spec c; tag c].
Definition judge_all (cs : list case) : list Z := flat_map judge cs.
