(* Correspondence vocabulary for C15: one case = one call (or short call sequence) of the exported
   protocol/header API with what the Go implementation returned.  [judge] is evaluated by
   vm_compute on the driver's output (harness/cmd/h_c15).
   corr = 0 iff the models of Model/{Checksum,TcpOptions,HdrIP,HdrTransport,HdrLink}.v give exactly
   the implementation's output; spec = property monitor written with the specification vocabulary
   only (rfc1071_sum, item_bytes/apply_*, the bit-level reader of Model/HdrRfc.v, and the
   list-consuming reference option parsers below). *)
From Coq Require Import ZArith Bool List.
From NP Require Import Model.Bytes Model.Checksum Model.TcpOptions Model.HdrIP Model.HdrTransport
  Model.HdrLink Model.HdrRfc Model.HdrDNS.
Import ListNotations.
Open Scope Z_scope.

Inductive case :=
| CChecksum (buf : list Z) (init r : Z)
(* the same on the buffer of [len] bytes all equal to [x] *)
| CChecksumRep (len x init r : Z)
(* the same on [len] pseudo-random bytes: x' = (1103515245 x + 12345) mod 2^31, byte = x' / 2^16 mod 256 *)
| CChecksumLcg (len seed init r : Z)
| CCombine (a b r : Z)
| CChunks (chunks : list (list Z)) (init r : Z)
| CPseudo (proto : Z) (src dst : list Z) (r : Z)
(* zero the 16-bit field at [off], c = Checksum, store ^c, r2 = Checksum again *)
| CVerify (pkt : list Z) (off init c r2 : Z)
(* ParseSynOptions(opts, isAck): synr = [mss; ws; ts; tsval; tsecr; sackPermitted], [] when it panicked;
   ParseTCPOptions(opts): optr = [ts; tsval; tsecr; nblocks; start1; end1; ...] *)
| CParse (opts : list Z) (isAck psyn : bool) (synr : list Z) (popt : bool) (optr : list Z)
(* a sequence of encoder calls offset += EncodeX(.., buf[offset:]), then both parsers on buf[:offset] *)
| CItems (items : list (list Z)) (buf out : list Z) (off : Z) (isAck : bool) (synr optr : list Z)
(* makeSynOptions / makeOptions replayed with the real encoders on a 40-byte pool buffer *)
| CSynMake (o : list Z) (buf out : list Z) (pad : Z) (isAck : bool) (synr : list Z)
| COptMake (tsOk : bool) (tsVal tsEcr : Z) (sackp : bool) (blocks buf out : list Z) (pad : Z) (optr : list Z)
| CPad (options : list Z) (offset : Z) (panicked : bool) (out : list Z) (p : Z)
(* Encode (or the setter sequence) of header [kind] on a copy of b0 *)
| CEnc (kind : Z) (b0 : list Z) (fields : list (list Z)) (panicked : bool) (out : list Z)
(* every accessor of header [kind] on b; one entry per accessor, [-1] = panicked *)
| CAcc (kind : Z) (b : list Z) (r : list (list Z))
(* other helpers: r = result list, [-1] = panicked *)
| CFn (fn : Z) (b : list Z) (args : list Z) (r : list Z)
(* DNS query: d := h; d.Setheader(id); d.SetCount(qd,an,ns,qa); d.SetQuestion(join(labels,"."), qtype, qclass);
   a = [id; qd; an; ns; qa; qtype; qclass]; out = d; dlen = d.GetDomainLen() (-1 = panicked);
   getters = [GetId; GetQDCount; GetANCount; GetNSCount; GetARCount] *)
| CDns (h a : list Z) (labels : list (list Z)) (panicked : bool) (out : list Z) (dlen : Z) (getters : list Z).

(* ---------- small tools ---------- *)
Definition zneq (a b : Z) : Z := if a =? b then 0 else 1.
Definition b2z (b : bool) : Z := if b then 1 else 0.
Definition ok (b : bool) : Z := if b then 0 else 1.
Fixpoint leqb (a b : list Z) : bool :=
  match a, b with
  | [], [] => true
  | x :: a', y :: b' => (x =? y) && leqb a' b'
  | _, _ => false
  end.
Fixpoint lleqb (a b : list (list Z)) : bool :=
  match a, b with
  | [], [] => true
  | x :: a', y :: b' => leqb x y && lleqb a' b'
  | _, _ => false
  end.
Definition sc (l : list (list Z)) (i : nat) : Z := hd 0 (nth i l []).
Definition ls (l : list (list Z)) (i : nat) : list Z := nth i l [].
Definition panic : list Z := [-1].
Definition oz (o : option Z) : list Z := match o with Some v => [v] | None => panic end.
Definition ol (o : option (list Z)) : list Z := match o with Some v => v | None => panic end.
Definition ob (o : option bool) : list Z := match o with Some v => [b2z v] | None => panic end.
Definition u16b (x : Z) : bool := (0 <=? x) && (x <? 65536).
Definition u32b (x : Z) : bool := (0 <=? x) && (x <? 2^32).
Definition arg (l : list Z) (i : nat) : Z := nth i l 0.

Fixpoint lcg_bytes (n : nat) (x : Z) : list Z :=
  match n with
  | O => []
  | S n' => let x' := (x * 1103515245 + 12345) mod 2^31 in (x' / 2^16) mod 256 :: lcg_bytes n' x'
  end.

(* ---------- TCP options ---------- *)
Definition syn_list (s : synOpts) : list Z :=
  [sMSS s; sWS s; b2z (sTS s); sTSVal s; sTSEcr s; b2z (sSACKPermitted s)].
Definition opt_list (s : tcpOpts) : list Z :=
  [b2z (oTS s); oTSVal s; oTSEcr s; Z.of_nat (length (oSACKBlocks s))] ++
  flat_map (fun b => [fst b; snd b]) (oSACKBlocks s).
Definition syn_res (r : res synOpts) : bool * list Z :=
  match r with Ok s => (false, syn_list s) | _ => (true, []) end.
Definition opt_res (r : res tcpOpts) : bool * list Z :=
  match r with Ok s => (false, opt_list s) | _ => (true, []) end.
Fixpoint pairs (l : list Z) : list (Z * Z) :=
  match l with a :: b :: t => (a, b) :: pairs t | _ => [] end.
Definition item_of (l : list Z) : item :=
  match l with
  | 1 :: m :: _ => IMSS m
  | 2 :: w :: _ => IWS w
  | 3 :: v :: e :: _ => ITS v e
  | 4 :: _ => ISackPerm
  | 5 :: t => ISack (pairs t)
  | _ => INop
  end.
Definition wf_itemb (it : item) : bool :=
  match it with
  | IMSS m => (1 <=? m) && (m <? 65536)
  | IWS w => (0 <=? w) && (w <=? 14)
  | ITS v e => u32b v && u32b e
  | ISack bl => (1 <=? length bl)%nat && (length bl <=? 4)%nat && forallb (fun b => u32b (fst b) && u32b (snd b)) bl
  | _ => true
  end.
Definition wire (items : list item) : list Z := concat (map item_bytes items).

(* reference parsers: consume the option list kind/length/body, the way RFC 793 3.1 describes it *)
Definition split_at (n : nat) (l : list Z) : option (list Z * list Z) :=
  if (n <=? length l)%nat then Some (firstn n l, skipn n l) else None.
Fixpoint ref_syn (fuel : nat) (l : list Z) (isAck : bool) (s : synOpts) : synOpts :=
  match fuel with O => s | S f =>
  match l with
  | [] => s
  | k :: t =>
    if k =? 0 then s else if k =? 1 then ref_syn f t isAck s else
    match t with
    | [] => s
    | len :: t2 =>
      if len <? 2 then s else
      match split_at (Z.to_nat (len - 2)) t2 with
      | None => s
      | Some (body, rest) =>
        if k =? 2 then
          if len =? 4 then
            if be_int body =? 0 then s
            else ref_syn f rest isAck (mkSyn (be_int body) (sWS s) (sTS s) (sTSVal s) (sTSEcr s) (sSACKPermitted s))
          else s
        else if k =? 3 then
          if len =? 3 then
            ref_syn f rest isAck (mkSyn (sMSS s) (Z.min (be_int body) 14) (sTS s) (sTSVal s) (sTSEcr s) (sSACKPermitted s))
          else s
        else if k =? 8 then
          if len =? 10 then
            ref_syn f rest isAck (mkSyn (sMSS s) (sWS s) true (be_int (firstn 4 body))
                                        (if isAck then be_int (skipn 4 body) else sTSEcr s) (sSACKPermitted s))
          else s
        else if k =? 4 then
          if len =? 2 then ref_syn f rest isAck (mkSyn (sMSS s) (sWS s) (sTS s) (sTSVal s) (sTSEcr s) true)
          else s
        else ref_syn f rest isAck s
      end
    end
  end end.
Fixpoint blocks_of (fuel : nat) (body : list Z) : list (Z * Z) :=
  match fuel with O => [] | S f =>
  match body with
  | [] => []
  | _ => (be_int (firstn 4 body), be_int (firstn 4 (skipn 4 body))) :: blocks_of f (skipn 8 body)
  end end.
Fixpoint ref_opt (fuel : nat) (l : list Z) (s : tcpOpts) : tcpOpts :=
  match fuel with O => s | S f =>
  match l with
  | [] => s
  | k :: t =>
    if k =? 0 then s else if k =? 1 then ref_opt f t s else
    match t with
    | [] => s
    | len :: t2 =>
      if len <? 2 then s else
      match split_at (Z.to_nat (len - 2)) t2 with
      | None => s
      | Some (body, rest) =>
        if k =? 8 then
          if len =? 10 then ref_opt f rest (mkOpts true (be_int (firstn 4 body)) (be_int (skipn 4 body)) (oSACKBlocks s))
          else s
        else if k =? 5 then
          if (len - 2) mod 8 =? 0 then
            ref_opt f rest (mkOpts (oTS s) (oTSVal s) (oTSEcr s) (blocks_of (length body) body))
          else s
        else ref_opt f rest s
      end
    end
  end end.

Definition syn_of_list (o : list Z) : synOpts :=
  mkSyn (arg o 0) (arg o 1) (0 <? arg o 2) (arg o 3) (arg o 4) (0 <? arg o 5).
(* what must come back from a SYN built from [o] *)
Definition syn_back (o : synOpts) (isAck : bool) : list Z :=
  [sMSS o; sWS o; b2z (sTS o); (if sTS o then sTSVal o else 0);
   (if sTS o && isAck then sTSEcr o else 0); b2z (sSACKPermitted o)].

(* ---------- fixed headers ---------- *)
Definition ipv4_of (l : list (list Z)) : ipv4Fields :=
  mkIPv4 (sc l 0) (sc l 1) (sc l 2) (sc l 3) (sc l 4) (sc l 5) (sc l 6) (sc l 7) (sc l 8) (ls l 9) (ls l 10).
Definition ipv4_to (f : ipv4Fields) : list (list Z) :=
  [[ip4IHL f]; [ip4TOS f]; [ip4TotalLength f]; [ip4ID f]; [ip4Flags f]; [ip4FragmentOffset f];
   [ip4TTL f]; [ip4Protocol f]; [ip4Checksum f]; ip4SrcAddr f; ip4DstAddr f].
Definition ipv6_of (l : list (list Z)) : ipv6Fields :=
  mkIPv6 (sc l 0) (sc l 1) (sc l 2) (sc l 3) (sc l 4) (ls l 5) (ls l 6).
Definition ipv6_to (f : ipv6Fields) : list (list Z) :=
  [[ip6TrafficClass f]; [ip6FlowLabel f]; [ip6PayloadLength f]; [ip6NextHeader f]; [ip6HopLimit f];
   ip6SrcAddr f; ip6DstAddr f].
Definition frag_of (l : list (list Z)) : ipv6FragFields := mkIPv6Frag (sc l 0) (sc l 1) (0 <? sc l 2) (sc l 3).
Definition frag_to (f : ipv6FragFields) : list (list Z) :=
  [[fragNextHeader f]; [fragFragmentOffset f]; [b2z (fragM f)]; [fragIdentification f]].
Definition tcp_of (l : list (list Z)) : tcpFields :=
  mkTCP (sc l 0) (sc l 1) (sc l 2) (sc l 3) (sc l 4) (sc l 5) (sc l 6) (sc l 7) (sc l 8).
Definition tcp_to (t : tcpFields) : list (list Z) :=
  [[tcpSrcPort t]; [tcpDstPort t]; [tcpSeqNum t]; [tcpAckNum t]; [tcpDataOffset t]; [tcpFlags t];
   [tcpWindowSize t]; [tcpChecksum t]; [tcpUrgentPointer t]].
Definition udp_of (l : list (list Z)) : udpFields := mkUDP (sc l 0) (sc l 1) (sc l 2) (sc l 3).
Definition udp_to (u : udpFields) : list (list Z) := [[udpSrcPort u]; [udpDstPort u]; [udpLength u]; [udpChecksum u]].
Definition icmp_of (l : list (list Z)) : icmpFields := mkICMP (sc l 0) (sc l 1) (sc l 2).
Definition icmp_to (f : icmpFields) : list (list Z) := [[icmpType f]; [icmpCode f]; [icmpChecksum f]].
Definition eth_of (l : list (list Z)) : ethFields := mkEth (ls l 0) (ls l 1) (sc l 2).
Definition eth_to (e : ethFields) : list (list Z) := [ethSrcAddr e; ethDstAddr e; [ethType e]].
Definition arp_of (l : list (list Z)) : arpFields := mkARP (sc l 0) (ls l 1) (ls l 2) (ls l 3) (ls l 4).
Definition arp_to (f : arpFields) : list (list Z) := [[arpOp f]; arpSHA f; arpSPA f; arpTHA f; arpTPA f].

(* model: Encode of header [kind] *)
Definition enc_model (kind : Z) (b0 : list Z) (l : list (list Z)) : option (list Z) :=
  if kind =? 1 then ipv4_encode b0 (ipv4_of l)
  else if kind =? 2 then ipv6_encode b0 (ipv6_of l)
  else if kind =? 3 then ipv6frag_encode b0 (frag_of l)
  else if kind =? 4 then tcp_encode b0 (tcp_of l)
  else if kind =? 5 then udp_encode b0 (udp_of l)
  else if (kind =? 6) || (kind =? 7) then icmp_encode b0 (icmp_of l)
  else if kind =? 8 then eth_encode b0 (eth_of l)
  else arp_encode b0 (arp_of l).
(* fixed header size, well-formedness of the field list, and the fields as the RFC reader sees them *)
Definition hdr_size (kind : Z) : nat :=
  if kind =? 1 then 20 else if kind =? 2 then 40 else if kind =? 3 then 8 else if kind =? 4 then 20
  else if kind =? 5 then 8 else if (kind =? 6) || (kind =? 7) then 4 else if kind =? 8 then 14 else 28.
Definition enc_wf (kind : Z) (l : list (list Z)) : bool :=
  if kind =? 1 then wf_ipv4 (ipv4_of l) else if kind =? 2 then wf_ipv6 (ipv6_of l)
  else if kind =? 3 then wf_ipv6frag (frag_of l) else if kind =? 4 then wf_tcp (tcp_of l)
  else if kind =? 5 then wf_udp (udp_of l) else if (kind =? 6) || (kind =? 7) then wf_icmp (icmp_of l)
  else if kind =? 8 then wf_eth (eth_of l) else wf_arp (arp_of l).
Definition rfc_fields (kind : Z) (b : list Z) : list (list Z) :=
  if kind =? 1 then ipv4_to (ipv4_rfc791 b) else if kind =? 2 then ipv6_to (ipv6_rfc2460 b)
  else if kind =? 3 then frag_to (ipv6frag_rfc2460 b) else if kind =? 4 then tcp_to (tcp_rfc793 b)
  else if kind =? 5 then udp_to (udp_rfc768 b) else if (kind =? 6) || (kind =? 7) then icmp_to (icmp_rfc792 b)
  else if kind =? 8 then eth_to (eth_rfc894 b) else arp_to (arp_rfc826 b).
(* constant parts of a header an encoder must produce *)
Definition rfc_consts (kind : Z) (b : list Z) : bool :=
  if kind =? 1 then bits b 0 4 =? 4 else if kind =? 2 then bits b 0 4 =? 6
  else if kind =? 9 then leqb (arp_fixed_rfc826 b) [1; 2048; 6; 4] else true.

(* model: all accessors of header [kind], in the order the driver prints them *)
Definition acc_model (kind : Z) (b : list Z) : list (list Z) :=
  if kind =? 1 then
    [oz (ipv4_headerLength b); oz (ipv4_id b); oz (ipv4_protocol b); oz (ipv4_flags b); oz (ipv4_ttl b);
     oz (ipv4_fragmentOffset b); oz (ipv4_totalLength b); oz (ipv4_checksum b); ol (ipv4_sourceAddress b);
     ol (ipv4_destinationAddress b); oz (ipv4_tos b); oz (ipv4_payloadLength b); ol (ipv4_payload b);
     [ipVersion b]; oz (ipv4_calculateChecksum b)]
  else if kind =? 2 then
    [oz (ipv6_payloadLength b); oz (ipv6_hopLimit b); oz (ipv6_nextHeader b); ol (ipv6_sourceAddress b);
     ol (ipv6_destinationAddress b);
     match ipv6_tos b with Some (t, l) => [t; l] | None => panic end; ol (ipv6_payload b); [ipVersion b]]
  else if kind =? 3 then
    [oz (ipv6frag_nextHeader b); oz (ipv6frag_fragmentOffset b); ob (ipv6frag_more b); oz (ipv6frag_id b);
     ol (ipv6frag_payload b); [b2z (ipv6frag_isValid b)]]
  else if kind =? 4 then
    [oz (tcp_sourcePort b); oz (tcp_destinationPort b); oz (tcp_sequenceNumber b); oz (tcp_ackNumber b);
     oz (tcp_dataOffset b); oz (tcp_flags b); oz (tcp_windowSize b); oz (tcp_checksum b); ol (tcp_payload b);
     ol (tcp_options b)]
  else if kind =? 5 then
    [oz (udp_sourcePort b); oz (udp_destinationPort b); oz (udp_length b); oz (udp_checksum b); ol (udp_payload b)]
  else if (kind =? 6) || (kind =? 7) then
    [oz (icmp_type b); oz (icmp_code b); oz (icmp_checksum b); ol (icmp_payload b)]
  else if kind =? 8 then
    [ol (eth_sourceAddress b); ol (eth_destinationAddress b); oz (eth_type b)]
  else
    [oz (arp_op b); ol (arp_hardwareAddressSender b); ol (arp_protocolAddressSender b);
     ol (arp_hardwareAddressTarget b); ol (arp_protocolAddressTarget b); ob (arp_isValid b)].

(* spec: which entries of an accessor result are the header fields, in the order of rfc_fields *)
Definition acc_fields (kind : Z) (r : list (list Z)) : list (list Z) :=
  if kind =? 1 then [ls r 0; ls r 10; ls r 6; ls r 1; ls r 3; ls r 5; ls r 4; ls r 2; ls r 7; ls r 8; ls r 9]
  else if kind =? 2 then [[hd 0 (ls r 5)]; [nth 1 (ls r 5) 0]; ls r 0; ls r 2; ls r 1; ls r 3; ls r 4]
  else if kind =? 3 then [ls r 0; ls r 1; ls r 2; ls r 3]
  else if kind =? 4 then [ls r 0; ls r 1; ls r 2; ls r 3; ls r 4; ls r 5; ls r 6; ls r 7]
  else if kind =? 5 then [ls r 0; ls r 1; ls r 2; ls r 3]
  else if (kind =? 6) || (kind =? 7) then [ls r 0; ls r 1; ls r 2]
  else if kind =? 8 then [ls r 0; ls r 1; ls r 2]
  else [ls r 0; ls r 1; ls r 2; ls r 3; ls r 4].
(* TCP has no urgent-pointer accessor: compare only the first 8 fields there *)
Definition acc_rfc (kind : Z) (b : list Z) : list (list Z) :=
  if kind =? 4 then firstn 8 (rfc_fields kind b) else rfc_fields kind b.

(* ---------- helper functions (CFn) ---------- *)
Definition fn_model (fn : Z) (b : list Z) (a : list Z) : list Z :=
  if fn =? 1 then ob (ipv4_isValid b (arg a 0))
  else if fn =? 2 then ob (ipv6_isValid b (arg a 0))
  else if fn =? 5 then ol (ipv4_encodePartial b (arg a 0) (arg a 1))
  else if fn =? 6 then oz (tcp_calculateChecksum b (arg a 0) (arg a 1))
  else if fn =? 7 then ol (tcp_encodePartial b (arg a 0) (arg a 1) (arg a 2) (arg a 3) (arg a 4) (arg a 5))
  else if fn =? 8 then oz (udp_calculateChecksum b (arg a 0) (arg a 1))
  else if fn =? 10 then
    (* SetChecksum(0); c := CalculateChecksum(); SetChecksum(^c); CalculateChecksum() *)
    match ipv4_setChecksum b 0 with None => panic | Some b0 =>
    match ipv4_calculateChecksum b0 with None => panic | Some c =>
    match ipv4_setChecksum b0 (lnot16 c) with None => panic | Some b1 =>
    match ipv4_calculateChecksum b1 with None => panic | Some c2 => [c; c2] end end end end
  else if fn =? 11 then
    (* UDP: SetChecksum(0); c := CalculateChecksum(p, len); SetChecksum(^c); CalculateChecksum(p, len) *)
    match udp_setChecksum b 0 with None => panic | Some b0 =>
    match udp_calculateChecksum b0 (arg a 0) (arg a 1) with None => panic | Some c =>
    match udp_setChecksum b0 (lnot16 c) with None => panic | Some b1 =>
    match udp_calculateChecksum b1 (arg a 0) (arg a 1) with None => panic | Some c2 => [c; c2] end end end end
  else if fn =? 12 then
    match tcp_setChecksum b 0 with None => panic | Some b0 =>
    match tcp_calculateChecksum b0 (arg a 0) (arg a 1) with None => panic | Some c =>
    match tcp_setChecksum b0 (lnot16 c) with None => panic | Some b1 =>
    match tcp_calculateChecksum b1 (arg a 0) (arg a 1) with None => panic | Some c2 => [c; c2] end end end end
  else panic.

(* the header bytes a transport checksum covers, from the RFC reader *)
Definition fn_spec (fn : Z) (b : list Z) (a r : list Z) : Z :=
  if fn =? 1 then
    (* RFC 791: valid iff 20 bytes are there, header length <= total length <= packet size *)
    ok (leqb r [b2z ((20 <=? length b)%nat && (4 * bits b 4 4 <=? bits b 16 16) && (bits b 16 16 <=? arg a 0))])
  else if fn =? 2 then
    ok (leqb r [b2z ((40 <=? length b)%nat && (bits b 32 16 <=? arg a 0 - 40))])
  else if fn =? 5 then
    if (length b <? 12)%nat then ok (leqb r panic) else
    ok ((length r =? length b)%nat && (bits r 16 16 =? arg a 1) &&
        (bits r 80 16 =? lnot16 (ocadd (arg a 0) (arg a 1))) &&
        leqb (firstn 2 r) (firstn 2 b) && leqb (firstn 6 (skipn 4 r)) (firstn 6 (skipn 4 b)) &&
        leqb (skipn 12 r) (skipn 12 b))
  else if fn =? 6 then
    let d := Z.to_nat (4 * bits b 96 4) in
    if (length b <? 13)%nat || (length b <? d)%nat then ok (leqb r panic) else
    ok (leqb r [rfc1071_sum (firstn d b) (ocadd (arg a 0) (arg a 1))])
  else if fn =? 7 then
    if (length b <? 18)%nat then ok (leqb r panic) else
    let c := fold_left ocadd [arg a 1; arg a 4; bits r 32 16; bits r 48 16; bits r 64 16; bits r 80 16; bits r 112 16] (arg a 0) in
    ok ((length r =? length b)%nat && (bits r 32 32 =? arg a 2) && (bits r 64 32 =? arg a 3) &&
        (bits r 104 8 =? arg a 4) && (bits r 112 16 =? arg a 5) && (bits r 128 16 =? lnot16 c) &&
        leqb (firstn 4 r) (firstn 4 b) && (bits r 96 8 =? bits b 96 8) && leqb (skipn 18 r) (skipn 18 b))
  else if fn =? 8 then
    if (length b <? 8)%nat then ok (leqb r panic) else
    ok (leqb r [rfc1071_sum (firstn 8 b) (ocadd (arg a 0) (arg a 1))])
  else if fn =? 10 then
    (* "a packet carrying the complemented sum always verifies" *)
    let hl := Z.to_nat (4 * bits b 4 4) in
    if (length b <? 12)%nat then ok (leqb r panic)
    else if (length b <? hl)%nat then ok (leqb r panic)
    else if (hl <? 12)%nat then 0
    else ok (nth 1 r 0 =? 65535)
  else if fn =? 11 then
    if (length b <? 8)%nat then ok (leqb r panic) else ok (nth 1 r 0 =? 65535)
  else if fn =? 12 then
    let d := Z.to_nat (4 * bits b 96 4) in
    if (length b <? 18)%nat || (length b <? d)%nat then ok (leqb r panic)
    else if (d <? 18)%nat then 0
    else ok (nth 1 r 0 =? 65535)
  else 1.

(* ---------- DNS ---------- *)
Definition dns_model (h a : list Z) (labels : list (list Z)) : option (list Z * Z * list Z) :=
  match obind (dns_setheader h (arg a 0)) (fun d1 => dns_setCount d1 (arg a 1) (arg a 2) (arg a 3) (arg a 4)) with
  | None => None
  | Some d1 =>
    let d := dns_setQuestion d1 labels (arg a 5) (arg a 6) in
    Some (d, match dns_getDomainLen d with DOk n => n | DPanic => -1 | DFuel => -2 end,
          match dns_getId d, dns_getQDCount d, dns_getANCount d, dns_getNSCount d, dns_getARCount d with
          | Some i, Some q, Some n1, Some n2, Some n3 => [i; q; n1; n2; n3]
          | _, _, _, _, _ => panic
          end)
  end.
Definition wf_labelb (seg : list Z) : bool :=
  (1 <=? length seg)%nat && (length seg <=? 63)%nat && bytes_okb seg.

(* ---------- corr ---------- *)
Definition emit_model (items : list (list Z)) (buf : list Z) : list Z * nat :=
  emit_items (map item_of items) (buf, 0%nat).

Definition corr (c : case) : Z :=
  match c with
  | CChecksum buf init r => zneq (checksum buf init) r
  | CChecksumRep len x init r => zneq (checksum (repeat x (Z.to_nat len)) init) r
  | CChecksumLcg len seed init r => zneq (checksum (lcg_bytes (Z.to_nat len) seed) init) r
  | CCombine a b r => zneq (checksumCombine a b) r
  | CChunks chunks init r => zneq (checksum_chunks chunks init) r
  | CPseudo proto src dst r => zneq (pseudoHeaderChecksum proto src dst) r
  | CVerify pkt off init c r2 =>
      match put16 pkt (Z.to_nat off) 0 with
      | None => 1
      | Some p0 =>
        let c' := checksum p0 init in
        match put16 p0 (Z.to_nat off) (lnot16 c') with
        | None => 1
        | Some p1 => ok ((c' =? c) && (checksum p1 init =? r2))
        end
      end
  | CParse opts isAck psyn synr popt optr =>
      let '(p1, l1) := syn_res (parseSynOptions opts isAck) in
      let '(p2, l2) := opt_res (parseTCPOptions opts) in
      ok (Bool.eqb p1 psyn && leqb l1 synr && Bool.eqb p2 popt && leqb l2 optr)
  | CItems items buf out off isAck synr optr =>
      let '(o, n) := emit_model items buf in
      let bytes := firstn n o in
      ok (leqb o out && (Z.of_nat n =? off) &&
          leqb (snd (syn_res (parseSynOptions bytes isAck))) synr &&
          leqb (snd (opt_res (parseTCPOptions bytes))) optr)
  | CSynMake o buf out pad isAck synr =>
      match make_options (syn_program (syn_of_list o)) buf with
      | None => 1
      | Some (bytes, p) =>
        ok (leqb bytes out && (p =? pad) && leqb (snd (syn_res (parseSynOptions bytes isAck))) synr)
      end
  | COptMake tsOk tsVal tsEcr sackp blocks buf out pad optr =>
      match make_options (opt_program tsOk tsVal tsEcr sackp (pairs blocks)) buf with
      | None => 1
      | Some (bytes, p) =>
        ok (leqb bytes out && (p =? pad) && leqb (snd (opt_res (parseTCPOptions bytes))) optr)
      end
  | CPad options offset panicked out p =>
      match addTCPOptionPadding options (Z.to_nat offset) with
      | None => ok panicked
      | Some (o, q) => ok (negb panicked && leqb o out && (q =? p))
      end
  | CEnc kind b0 fields panicked out =>
      match enc_model kind b0 fields with
      | None => ok panicked
      | Some o => ok (negb panicked && leqb o out)
      end
  | CAcc kind b r => ok (lleqb (acc_model kind b) r)
  | CFn fn b a r => ok (leqb (fn_model fn b a) r)
  | CDns h a labels panicked out dlen getters =>
      match dns_model h a labels with
      | None => ok panicked
      | Some (d, n, g) => ok (negb panicked && leqb d out && (n =? dlen) && leqb g getters)
      end
  end.

(* ---------- spec ---------- *)
Definition all_even_but_last (chunks : list (list Z)) : bool :=
  forallb (fun c => Nat.even (length c)) (removelast chunks).

Definition spec (c : case) : Z :=
  match c with
  | CChecksum buf init r => zneq (rfc1071_sum buf init) r
  | CChecksumRep len x init r =>
      (* len bytes x: len/2 words x*257 and, for odd len, a last word x*256; the one's-complement
         sum is the representative of the integer total modulo 65535 (0 only for total 0) *)
      let total := init + (len / 2) * (x * 257) + (len mod 2) * (x * 256) in
      if 131072 <? len then 0 else zneq (oc_norm total) r
  | CChecksumLcg len seed init r => zneq (rfc1071_sum (lcg_bytes (Z.to_nat len) seed) init) r
  | CCombine a b r => zneq (ocadd a b) r
  | CChunks chunks init r =>
      if all_even_but_last chunks then zneq (rfc1071_sum (concat chunks) init) r else 0
  | CPseudo proto src dst r =>
      if Nat.even (length src) && Nat.even (length dst)
      then zneq (rfc1071_sum (src ++ dst ++ [0; proto]) 0) r else 0
  | CVerify pkt off init c r2 => zneq r2 65535
  | CParse opts isAck psyn synr popt optr =>
      ok (negb psyn && leqb synr (syn_list (ref_syn (S (length opts)) opts isAck syn_default)) &&
          negb popt && leqb optr (opt_list (ref_opt (S (length opts)) opts opts_default)))
  | CItems items buf out off isAck synr optr =>
      let its := map item_of items in
      if forallb wf_itemb its && (length (wire its) <=? length buf)%nat then
        (* everything fits: the wire format is written, the rest of the buffer untouched, and both
           parsers recover the options *)
        ok (leqb out (wire its ++ skipn (length (wire its)) buf) && (off =? Z.of_nat (length (wire its))) &&
            leqb synr (syn_list (fold_left (apply_syn isAck) its syn_default)) &&
            leqb optr (opt_list (fold_left apply_opt its opts_default)))
      else
        (* not everything fits: the encoders stay inside the buffer, the parsers do not panic *)
        ok ((length out =? length buf)%nat && (0 <=? off) && (off <=? Z.of_nat (length buf)) &&
            leqb (skipn (Z.to_nat off) out) (skipn (Z.to_nat off) buf) &&
            negb (leqb synr []) && negb (leqb optr []))
  | CSynMake o buf out pad isAck synr =>
      ok ((pad =? 0) && (Z.of_nat (length out) mod 4 =? 0) && (length out <=? 40)%nat &&
          leqb synr (syn_back (syn_of_list o) isAck))
  | COptMake tsOk tsVal tsEcr sackp blocks buf out pad optr =>
      let fit := firstn (if tsOk then 3 else 4) (pairs blocks) in
      ok ((pad =? 0) && (Z.of_nat (length out) mod 4 =? 0) && (length out <=? 40)%nat &&
          leqb optr (opt_list (mkOpts tsOk (if tsOk then tsVal else 0) (if tsOk then tsEcr else 0)
                                      (if sackp then fit else []))))
  | CPad options offset panicked out p =>
      let off := Z.to_nat offset in
      let need := (- offset) mod 4 in
      if (length options <? off + Z.to_nat need)%nat then ok panicked
      else ok (negb panicked && (p =? need) && ((offset + p) mod 4 =? 0) &&
               leqb out (firstn off options ++ repeat 1 (Z.to_nat need) ++ skipn (off + Z.to_nat need) options))
  | CEnc kind b0 fields panicked out =>
      if (length b0 <? hdr_size kind)%nat then ok panicked
      else if negb (enc_wf kind fields) then ok (negb panicked)
      else ok (negb panicked && (length out =? length b0)%nat &&
               lleqb (rfc_fields kind out) fields && rfc_consts kind out &&
               leqb (skipn (hdr_size kind) out) (skipn (hdr_size kind) b0))
  | CAcc kind b r =>
      if (length b <? hdr_size kind)%nat then 0
      else ok (lleqb (acc_fields kind r) (acc_rfc kind b))
  | CFn fn b a r => fn_spec fn b a r
  | CDns h a labels panicked out dlen getters =>
      if (length h <? 12)%nat then ok panicked
      else if negb ((length h =? 12)%nat && forallb wf_labelb labels && forallb u16b a) then ok (negb panicked)
      else
        (* RFC 1035 4.1: ID, flags = RD only, the four counts; then QNAME labels, QTYPE, QCLASS *)
        ok (negb panicked &&
            leqb [bits out 0 16; bits out 16 16; bits out 32 16; bits out 48 16; bits out 64 16; bits out 80 16]
                 [arg a 0; 256; arg a 1; arg a 2; arg a 3; arg a 4] &&
            match rfc1035_labels (S (length labels)) (skipn 12 out) with
            | Some (ls, rest) => lleqb ls labels && leqb rest [arg a 5 / 256; arg a 5 mod 256; arg a 6 / 256; arg a 6 mod 256]
            | None => false
            end &&
            (dlen =? fold_right (fun seg acc => 1 + Z.of_nat (length seg) + acc) 1 labels) &&
            leqb getters [arg a 0; arg a 1; arg a 2; arg a 3; arg a 4])
  end.

(* ---------- tag: 0 = trivial ---------- *)
Definition tag (c : case) : Z :=
  match c with
  | CChecksum buf _ _ => match buf with [] => 0 | _ => if Nat.odd (length buf) then 2 else 1 end
  | CChecksumRep len x _ _ => if len =? 0 then 0 else if Z.odd len then 2 else 1
  | CChecksumLcg len _ _ _ => if len =? 0 then 0 else if Z.odd len then 2 else 1
  | CCombine a b _ => if (a =? 0) || (b =? 0) then 0 else if 65536 <=? a + b then 4 else 3
  | CChunks chunks _ _ => match chunks with [] => 0 | _ => if all_even_but_last chunks then 5 else 6 end
  | CPseudo _ src _ _ => match src with [] => 0 | _ => 7 end
  | CVerify _ _ _ _ _ => 8
  | CParse opts _ _ synr _ optr =>
      match opts with [] => 0 | _ =>
        9 + (if leqb synr (syn_list syn_default) then 0 else 1) + (if leqb optr (opt_list opts_default) then 0 else 2) end
  | CItems items buf _ _ _ _ _ =>
      match items with [] => 0 | _ =>
        if forallb wf_itemb (map item_of items) && (length (wire (map item_of items)) <=? length buf)%nat
        then 13 else 14 end
  | CSynMake _ _ _ _ _ _ => 15
  | COptMake _ _ _ _ _ _ _ _ _ => 16
  | CPad _ _ _ _ p => if p =? 0 then 0 else 17
  | CEnc kind b0 fields panicked _ =>
      if panicked then 0 else if enc_wf kind fields then 20 + kind else 30 + kind
  | CAcc kind b r => if (length b <? hdr_size kind)%nat then 0 else 40 + kind
  | CFn fn _ _ r => if leqb r panic then 0 else 50 + fn
  | CDns h _ labels panicked _ _ _ =>
      if panicked then 0 else if (length h =? 12)%nat && forallb wf_labelb labels then 70 else 71
  end.

Definition judge (c : case) : list Z := [corr c; spec c; tag c].
Definition judge_all (cs : list case) : list Z := flat_map judge cs.
