From Coq Require Import ZArith Bool List.
From NP Require Import Model.Bytes Model.Checksum.
Import ListNotations.
Open Scope Z_scope.

Inductive case :=
| CChecksum (buf : list Z) (init r : Z).

Definition zneq (a b : Z) : Z := if a =? b then 0 else 1.
Definition corr (c : case) : Z :=
  match c with
  | CChecksum buf init r => zneq (checksum buf init) r
  end.
Definition spec (c : case) : Z :=
  match c with
  | CChecksum buf init r => zneq (rfc1071_sum buf init) r
  end.
Definition tag (c : case) : Z :=
  match c with
  | CChecksum buf init r => match buf with [] => 0 | _ => if Nat.odd (length buf) then 2 else 1 end
  end.
Definition judge (c : case) : list Z := [corr c; spec c; tag c].
Definition judge_all (cs : list case) : list Z := flat_map judge cs.
