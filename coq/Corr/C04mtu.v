(* Path-MTU reductions, judged by the C04 monitor (see Corr/C01mtu.v for the set-up: ICMP
   "fragmentation needed" -> snd.go updateMaxPayloadSize; Model.Tcp has no event for it, so there is
   no correspondence beyond the handshake-derived first snapshot; monitor-only).  C04's clause "nor
   a segment larger than the peer's MSS or the path MTU allows": every emitted segment is at most the
   maximum payload size in force after the step, also when it is a fast or partial-ACK
   retransmission of a segment that was queued before the reduction (repaired defect, /repo ef33e73);
   plus the peer-window, advertised-window and delivery clauses and the C02 stall clause. *)
From Coq Require Import ZArith List Bool.
From NP Require Export Model.Seqnum Model.Tcp Corr.TcpTrace.
From NP Require Corr.C04 Corr.C02 Corr.C01mtu.
Import ListNotations.
Open Scope Z_scope.

Definition case := TcpTrace.case.

(* the path MTU in force: the link MTU, lowered by every reported next-hop MTU (the smallest one
   wins, also when several reports are folded into one notification); from the step of a report on,
   every emitted IPv4 packet that carries data fits it: payload + 20 (IP) + 20 (TCP) + 12 when
   timestamps are in use (SACK blocks are not counted: lenient) *)
Fixpoint pmtu_checks (pm : Z) (steps : list obs) : bool :=
  match steps with
  | [] => true
  | o :: rest =>
      (* RFC 1191: a path MTU below 68 does not exist; such a report (forged or broken) binds nobody *)
      let pm' := if C01mtu.is_mtu_step o
                 then fold_left Z.min (filter (fun m => 68 <=? m) (C01mtu.reported_mtus o)) pm else pm in
      let hdr := 40 + (if tsOk (o_st o) then 12 else 0) in
      forallb (fun f => let n := Z.of_nat (length (f_data f)) in (n =? 0) || (n + hdr <=? Z.max pm' (hdr + 1))) (o_frames o)
      && pmtu_checks pm' rest
  end.

(* C04's monitor (2 = its own known pattern C04-edge-rounding, reported by the main phase), the
   reported-MTU clause, and the stall clause of C02 (2 = known zero-window stall) *)
Definition spec (c : case) : Z :=
  let b := C04.spec c in
  let d := C02.spec c in
  let pm0 := match c with CTrace cfg _ _ _ => if cfg_get cfg 3 =? 0 then 1500 else cfg_get cfg 3 end in
  let p := match c with CTrace cfg _ _ steps => if cfg_get cfg 4 =? 0 then pmtu_checks pm0 steps else true end in
  if negb ((b =? 0) || (b =? 2)) then 1 else if negb p then 1 else if (d =? 0) || (d =? 2) then 0 else 1.

Definition tag (c : case) : Z := C01mtu.tag c.
Definition corr (c : case) : Z := C01mtu.corr c.
Definition judge (c : case) : list Z := [corr c; spec c; tag c].
Definition judge_all (cs : list case) : list Z := flat_map judge cs.
