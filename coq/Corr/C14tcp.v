(* C14, last clause ("every TCP property above holds unchanged when initial sequence numbers sit just
   below 2^31 or 2^32"): lock-step TCP traces (Corr/TcpTrace.v) whose ISS / IRS / window edges are
   ALL placed across 2^31 or 2^32, judged by the data-integrity monitor of C01, the window
   monitor of C04 and the close/stall monitor of C02 together.  The other properties' own
   known-finding patterns (C04 edge rounding, C02 zero-window stall) are not C14's business and are
   not reported here. *)
From Coq Require Import ZArith List Bool.
From NP Require Export Model.Seqnum Model.Tcp Corr.TcpTrace.
From NP Require Corr.C01 Corr.C04 Corr.C02.
Import ListNotations.
Open Scope Z_scope.

Definition case := TcpTrace.case.

Definition spec (c : case) : Z :=
  let a := C01.spec c in
  let b := C04.spec c in
  let d := C02.spec c in
  if negb (a =? 0) then 1 else if negb ((b =? 0) || (b =? 2)) then 1
  else if (d =? 0) || (d =? 2) then 0 else 1.

(* non-trivial: data moved and a boundary was actually crossed by a sequence number in the trace *)
Definition crosses (x y : Z) : bool :=
  ((x <? 2^31) && (2^31 <=? y)) || (y <? x).
Definition tag (c : case) : Z :=
  match c with
  | CTrace cfg _ init steps =>
      let moved := negb (Z.of_nat (length (reads_of steps)) =? 0) || existsb (fun f => negb (Z.of_nat (length (f_data f)) =? 0)) (frames_of steps) in
      let fin := match rev steps with o :: _ => o_st o | [] => init end in
      let cr := crosses (rcvNxt (RC init)) (rcvNxt (RC fin)) || crosses (sndUna (SN init)) (sndNxt (SN fin))
                || crosses (rcvNxt (RC init)) (rcvAcc (RC fin)) || crosses (sndUna (SN init)) (add (sndUna (SN fin)) (sndWnd (SN fin))) in
      if moved then (if cr then 2 else 1) else 0
  end.

Definition judge (c : case) : list Z := [trace_corr c; spec c; tag c].
Definition judge_all (cs : list case) : list Z := flat_map judge cs.
