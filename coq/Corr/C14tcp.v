(* C14, last clause ("every TCP property above holds unchanged when initial sequence numbers sit just
   below 2^31 or 2^32"): lock-step TCP traces (Corr/TcpTrace.v) whose ISS / IRS / window edges are
   ALL placed across 2^31 or 2^32, judged by the data-integrity monitor of C01, the window
   monitor of C04 and the close/stall monitor of C02 together.  The other properties' own
   known-finding patterns (C04 edge rounding, C02 zero-window stall) are not C14's business and are
   not reported here. *)
From Coq Require Import ZArith List Bool.
From NP Require Export Model.Seqnum Model.Tcp Corr.TcpTrace.
From NP Require Corr.C01 Corr.C04 Corr.C02.
Import ListNotations.
Open Scope Z_scope.

(* a wrap-adjacent trace and its twin: the same script replayed against a connection whose initial
   sequence numbers are far from both boundaries *)
Inductive case := CTwin (a b : TcpTrace.case).

(* what an observer sees, with sequence numbers expressed as offsets from the connection's own
   initial sequence numbers: every emitted frame (sequence number relative to ISS+1, acknowledgement
   number relative to IRS+1 when the ACK flag is set, flags, window field, payload) and every
   application result, step by step.  Model-independent: it looks at the implementation's
   observations only. *)
Definition norm_frame (iss irs : Z) (f : frame) : list Z :=
  [u32 (f_seq f - iss - 1);
   (if Z.land (f_flags f) 16 =? 0 then f_ack f else u32 (f_ack f - irs - 1));
   f_flags f; f_wnd f] ++ encBytes (f_data f).
Definition norm_obs (iss irs : Z) (o : obs) : list Z :=
  encList (norm_frame iss irs) (o_frames o) ++ encRes (o_res o).
Definition norm_trace (c : TcpTrace.case) : list (list Z) :=
  match c with
  | CTrace cfg _ _ steps => map (norm_obs (cfg_get cfg 0) (cfg_get cfg 1)) steps
  end.
Fixpoint zll_eqb (a b : list (list Z)) : bool :=
  match a, b with
  | [], [] => true
  | x :: a', y :: b' => zlist_eqb x y && zll_eqb a' b'
  | _, _ => false
  end.
(* "behaves identically wherever the ISS places the stream" *)
Definition twin_same (a b : TcpTrace.case) : bool := zll_eqb (norm_trace a) (norm_trace b).

Definition spec1 (c : TcpTrace.case) : Z :=
  let a := C01.spec c in
  let b := C04.spec c in
  let d := C02.spec c in
  if negb (a =? 0) then 1 else if negb ((b =? 0) || (b =? 2)) then 1
  else if (d =? 0) || (d =? 2) then 0 else 1.

(* non-trivial: data moved and a boundary was actually crossed by a sequence number in the trace *)
Definition crosses (x y : Z) : bool :=
  ((x <? 2^31) && (2^31 <=? y)) || (y <? x).
Definition spec (c : case) : Z :=
  match c with
  | CTwin a b => if negb (spec1 a =? 0) then 1 else if twin_same a b then 0 else 1
  end.

Definition tag1 (c : TcpTrace.case) : Z :=
  match c with
  | CTrace cfg _ init steps =>
      let moved := negb (Z.of_nat (length (reads_of steps)) =? 0) || existsb (fun f => negb (Z.of_nat (length (f_data f)) =? 0)) (frames_of steps) in
      let fin := match rev steps with o :: _ => o_st o | [] => init end in
      let cr := crosses (rcvNxt (RC init)) (rcvNxt (RC fin)) || crosses (sndUna (SN init)) (sndNxt (SN fin))
                || crosses (rcvNxt (RC init)) (rcvAcc (RC fin)) || crosses (sndUna (SN init)) (add (sndUna (SN fin)) (sndWnd (SN fin))) in
      if moved then (if cr then 2 else 1) else 0
  end.

Definition tag (c : case) : Z := match c with CTwin a _ => tag1 a end.
Definition corr (c : case) : Z :=
  match c with
  | CTwin a b => let x := trace_corr a in if negb (x =? 0) then x else
                 let y := trace_corr b in if negb (y =? 0) then 500000 + y else 0
  end.

Definition judge (c : case) : list Z := [corr c; spec c; tag c].
Definition judge_all (cs : list case) : list Z := flat_map judge cs.
