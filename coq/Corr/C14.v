(* Correspondence vocabulary for C14: one case = one call of the exported seqnum API with the
   result the Go implementation returned.  [judge] is evaluated by vm_compute on cases.v. *)
From Coq Require Import ZArith Bool List.
From NP Require Import Model.Seqnum.
Import ListNotations.
Open Scope Z_scope.

Inductive case :=
| CLessThan (v w : Z) (r : bool)
| CLessThanEq (v w : Z) (r : bool)
| CInRange (v a b : Z) (r : bool)
| CInWindow (v f s : Z) (r : bool)
| COverlap (a b x y : Z) (r : bool)
| CAdd (v s : Z) (r : Z)
| CSize (v w : Z) (r : Z)
| CUpdateForward (v s : Z) (r : Z).

Definition bneq (a b : bool) : Z := if Bool.eqb a b then 0 else 1.
Definition zneq (a b : Z) : Z := if a =? b then 0 else 1.

(* correspondence: 0 = the model returns what the implementation returned *)
Definition corr (c : case) : Z :=
  match c with
  | CLessThan v w r => bneq (lessThan v w) r
  | CLessThanEq v w r => bneq (lessThanEq v w) r
  | CInRange v a b r => bneq (inRange v a b) r
  | CInWindow v f s r => bneq (inWindow v f s) r
  | COverlap a b x y r => bneq (overlap a b x y) r
  | CAdd v s r => zneq (add v s) r
  | CSize v w r => zneq (size v w) r
  | CUpdateForward v s r => zneq (updateForward v s) r
  end.

(* property monitor on the implementation's answer, independent of the model functions:
   0 = satisfies the spec; 1 = violates it; >= 2 = violates it in a listed known pattern
   (2 = C14-half: distance exactly 2^31;  3 = C14-empty: an empty window or sizes summing
   above 2^31 in Overlap). *)
Definition spec (c : case) : Z :=
  match c with
  | CLessThan v w r =>
      if Bool.eqb r (precedes_spec v w) then 0 else if fdist v w =? 2^31 then 2 else 1
  | CLessThanEq v w r =>
      if Bool.eqb r ((v =? w) || precedes_spec v w) then 0 else if fdist v w =? 2^31 then 2 else 1
  | CInRange v a b r => bneq r (inRange_spec_b v a b)
  | CInWindow v f s r => bneq r (inWindow_spec_b v f s)
  | COverlap a b x y r =>
      if Bool.eqb r (overlap_spec_b a b x y) then 0
      else if (b =? 0) || (y =? 0) || (2^31 <? b + y) then 3 else 1
  | CAdd v s r => zneq r ((v + s) mod 2^32)
  | CSize v w r => zneq r (fdist v w)
  | CUpdateForward v s r => zneq r ((v + s) mod 2^32)
  end.

(* non-triviality tag: 0 = trivial (equal operands / zero sizes), otherwise which region *)
Definition tag (c : case) : Z :=
  match c with
  | CLessThan v w _ | CLessThanEq v w _ => if v =? w then 0 else if w <? v then 2 else 1
  | CInRange v a b _ => if a =? b then 0 else if b <? a then 2 else 1
  | CInWindow v f s _ => if s =? 0 then 0 else if 2^32 <=? f + s then 2 else 1
  | COverlap a b x y _ => if (b =? 0) || (y =? 0) then 0 else 1
  | CAdd v s _ | CUpdateForward v s _ => if s =? 0 then 0 else if 2^32 <=? v + s then 2 else 1
  | CSize v w _ => if v =? w then 0 else if w <? v then 2 else 1
  end.

Definition judge (c : case) : list Z := [corr c; spec c; tag c].
Definition judge_all (cs : list case) : list Z := flat_map judge cs.
