(* Correspondence vocabulary for C18 (pkg/tmutex under controlled schedules).

   One [Run] case = one controlled execution of the REAL (instrumented) tmutex.go by the driver
   harness/cmd/h_c18:
     progs    per goroutine its client program (0 Lock, 1 TryLock, 2 Unlock)
     initpos  the schedule point each goroutine was parked at before the first step
     sched    goroutine ids in the order the driver granted steps (one atomic operation each)
     flatobs  six numbers per step (flattened, to keep the case lines cheap to parse): m.v,
              len(m.ch), point the stepping goroutine parked at afterwards (0 = finished),
              API return events of the step (base 8 digits: 1 Lock returned, 2 TryLock true,
              3 TryLock false, 4 Unlock returned), number of clients inside the critical section,
              and the client-side call word 10*call + k: which API call the stepping goroutine's
              client is executing after the step (0 none/finished, 1 Lock, 2 TryLock, 3 Unlock;
              recorded by the harness client, not derived from the point ids) and how many
              atomic steps it has been granted inside that call so far (k, capped at 9)
     hung     the last granted step did not come back within the watchdog time (no obs for it)
     panicked some client goroutine panicked
     maximal  the run ended because no goroutine was enabled in the real state
   Schedule point ids (assigned by harness/cmd/h_c18/instr): 110 Lock/AddInt32, 120 Lock/LoadInt32,
   130 Lock/SwapInt32, 150 Lock/receive, 220 TryLock/LoadInt32, 240 TryLock/CompareAndSwapInt32,
   330 Unlock/SwapInt32, 360 Unlock/select-send.

   [Stress] = one UNCONTROLLED stress run (search aid; not compared with the model). *)
From Coq Require Import ZArith Bool List.
From NP Require Import Model.Tmutex.
Import ListNotations.
Open Scope Z_scope.

Definition ob := (Z * Z * Z * Z * Z * Z)%type.

Inductive case :=
| Run (progs : list (list Z)) (initpos : list Z) (sched : list Z) (flatobs : list Z)
      (hung panicked maximal : bool)
| Stress (goroutines iters maxocc : Z) (completed : bool).

(* six numbers per step -> one observation per step; a ragged tail yields an impossible
   observation so that the comparison fails *)
Fixpoint unflat (fuel : nat) (l : list Z) : list ob :=
  match fuel with
  | O => []
  | S f => match l with
           | [] => []
           | v :: c :: p :: e :: o :: cs :: r => (v, c, p, e, o, cs) :: unflat f r
           | _ => [(0, -1, -1, -1, -1, -1)]
           end
  end.
Definition obs_of (l : list Z) : list ob := unflat (length l) l.

(* ------------------------------------------------------------------ model side *)
Definition op_of (z : Z) : option op :=
  if z =? 0 then Some OLock else if z =? 1 then Some OTryLock else if z =? 2 then Some OUnlock else None.
Fixpoint prog_of (l : list Z) : option (list op) :=
  match l with
  | [] => Some []
  | z :: r => match op_of z, prog_of r with Some o, Some p => Some (o :: p) | _, _ => None end
  end.
Fixpoint progs_of (l : list (list Z)) : option (list (list op)) :=
  match l with
  | [] => Some []
  | z :: r => match prog_of z, progs_of r with Some o, Some p => Some (o :: p) | _, _ => None end
  end.

(* the schedule point at which the model thread is parked *)
Definition pos_of (th : thread) : Z :=
  match t_pc th with
  | PIdle => match next_op (t_held th) (t_prog th) with
             | None => 0
             | Some (OLock, _) => 110
             | Some (OTryLock, _) => 220
             | Some (OUnlock, _) => 330
             end
  | PLload => 120 | PLswap => 130 | PLrecv => 150 | PTcas => 240 | PUsend => 360
  end.

Fixpoint zlist_eqb (a b : list Z) : bool :=
  match a, b with
  | [], [] => true
  | x :: r, y :: q => (x =? y) && zlist_eqb r q
  | _, _ => false
  end.

(* run the model along the schedule, comparing every observation *)
Fixpoint follow (s : state) (sched : list Z) (obs : list ob) : option state :=
  match sched, obs with
  | [], [] => Some s
  | t :: r, (v, c, p, e, o, _) :: ro =>   (* the client-side call word is for [spec] only *)
      if t <? 0 then None else
      match step_ev s (Z.to_nat t) with
      | None => None            (* the model says this goroutine is blocked / finished *)
      | Some (s', ev) =>
          let p' := match nth_error (s_thr s') (Z.to_nat t) with Some th => pos_of th | None => -1 end in
          if (s_v s' =? v) && (b2z (s_ch s') =? c) && (p' =? p) && (ev =? e) && (holders s' =? o)
          then follow s' r ro else None
      end
  | _, _ => None
  end.

(* 0 = the model, run on the same programs and schedule, shows exactly what the real code showed *)
Definition corr (c : case) : Z :=
  match c with
  | Run progs initpos sched fobs hung panicked maximal =>
      let obs := obs_of fobs in
      if hung || panicked then 1 else
      match progs_of progs with
      | None => 1
      | Some ps =>
          let s0 := init ps in
          if negb (zlist_eqb (map pos_of (s_thr s0)) initpos) then 1 else
          match follow s0 sched obs with
          | None => 1
          | Some sf => if maximal then (match enabled sf with [] => 0 | _ => 1 end) else 0
          end
      end
  | Stress _ _ _ _ => 0
  end.

(* ------------------------------------------------------------------ property monitor
   Written from the property text on the observations only (no model function is used):
   (a) at most one client is inside the critical section after every step, and a Lock / a
       successful TryLock returns only into an empty critical section;
   (b) TryLock does not fail when the mutex is free and nobody else is contending: if, when the
       call starts, nobody is inside the critical section and every other goroutine is between
       API calls, and no other goroutine takes a step during the call, it must return true;
   (b') TryLock never blocks: a TryLock call consists of at most two atomic steps of its caller
       (the load and the compare-and-swap) and its caller is never parked at a blocking
       operation.  Checked twice, independently: on the client-side call word (while the client
       is inside TryLock it has been granted at most one step and is not parked at a receive
       (kind 5) or blocking send (kind 7) point -- "TryLock blocked"), and on the point ids (a
       goroutine that steps from TryLock's load point either returns from TryLock or is parked at
       TryLock's CAS point, and the step from the CAS point returns from TryLock: any other
       point reached during a TryLock call is a violation);
   (c) no goroutine is left blocked for ever: a run that ends with no goroutine enabled must have
       finished every client program (all generated programs end by unlocking);
   (d) no real blocking (hung) and no panic. *)
Record sst := mkSst {
  ss_pos : list Z;        (* where each goroutine is parked *)
  ss_occ : Z;             (* occupancy after the previous step *)
  ss_try : list bool;     (* goroutine is inside a TryLock that started "free and uncontended" and
                             has not been interfered with *)
  ss_bad : bool;
  ss_woke : bool; ss_slow : bool
}.

Fixpoint zset {A} (l : list A) (i : nat) (x : A) : list A :=
  match l, i with
  | [], _ => []
  | _ :: r, O => x :: r
  | a :: r, S j => a :: zset r j x
  end.

Definition between_calls (p : Z) : bool := (p =? 0) || (p =? 110) || (p =? 220) || (p =? 330).

Fixpoint others_between (pos : list Z) (skip : nat) : bool :=
  match pos with
  | [] => true
  | p :: r => match skip with
              | O => forallb between_calls r
              | S k => between_calls p && others_between r k
              end
  end.

(* base-8 digits of the return-event word (at most 6 examined) *)
Fixpoint digits (fuel : nat) (e : Z) : list Z :=
  match fuel with
  | O => []
  | S f => if e <=? 0 then [] else (e mod 8) :: digits f (e / 8)
  end.

Definition spec_step (st : sst) (t : Z) (o : ob) : sst :=
  match o with
  | (v, c, p, e, occ, cs) =>
      let i := Z.to_nat t in
      let pre := nth i (ss_pos st) (-1) in
      let ds := digits 6 e in
      let quiet0 := (ss_occ st =? 0) && others_between (ss_pos st) i in
      let inflight := nth i (ss_try st) false in
      let bad_occ := (occ <? 0) || (1 <? occ) in
      let acquired := existsb (fun d => (d =? 1) || (d =? 2)) ds in
      let bad_acq := acquired && (negb (ss_occ st =? 0) || negb (occ =? 1)) in
      let tryfalse := existsb (fun d => d =? 3) ds in
      let bad_try := tryfalse && (((pre =? 220) && quiet0) || ((pre =? 240) && inflight)) in
      let tryret := existsb (fun d => (d =? 2) || (d =? 3)) ds in
      let kind := (p / 10) mod 10 in
      let bad_tryblock :=
        (* client-side: inside TryLock after the step *)
        ((cs / 10 =? 2) && ((1 <? cs mod 10) || (kind =? 5) || (kind =? 7)))
        (* point ids: from the load point: return or CAS point; from the CAS point: return *)
        || ((pre =? 220) && negb tryret && negb (p =? 240))
        || ((pre =? 240) && negb tryret) in
      let try' := zset (map (fun _ => false) (ss_try st)) i ((pre =? 220) && quiet0 && (p =? 240)) in
      mkSst (zset (ss_pos st) i p) occ try'
            (ss_bad st || bad_occ || bad_acq || bad_try || bad_tryblock || (t <? 0))
            (ss_woke st || (pre =? 150)) (ss_slow st || (p =? 120))
  end.

Fixpoint spec_run (st : sst) (sched : list Z) (obs : list ob) : sst :=
  match sched, obs with
  | t :: r, o :: ro => spec_run (spec_step st t o) r ro
  | _, _ => st
  end.

Definition spec_final (progs : list (list Z)) (initpos sched : list Z) (obs : list ob) : sst :=
  spec_run (mkSst initpos 0 (map (fun _ => false) initpos) false false false) sched obs.

Definition spec (c : case) : Z :=
  match c with
  | Run progs initpos sched fobs hung panicked maximal =>
      let obs := obs_of fobs in
      if hung || panicked then 1 else
      let st := spec_final progs initpos sched obs in
      if ss_bad st then 1
      else if maximal && existsb (fun p => negb (p =? 0)) (ss_pos st) then 1
      else 0
  | Stress _ _ maxocc completed => if (1 <? maxocc) || negb completed then 1 else 0
  end.

(* 0 = nothing was scheduled; 1 = uncontended; 2 = some Lock entered the slow path;
   3 = a sleeper received a wake-up token; 5 = uncontrolled stress run *)
Definition tag (c : case) : Z :=
  match c with
  | Run progs initpos sched fobs _ _ _ =>
      let obs := obs_of fobs in
      match sched with
      | [] => 0
      | _ => let st := spec_final progs initpos sched obs in
             if ss_woke st then 3 else if ss_slow st then 2 else 1
      end
  | Stress _ _ _ _ => 5
  end.

Definition judge (c : case) : list Z := [corr c; spec c; tag c].
Definition judge_all (cs : list case) : list Z := flat_map judge cs.
