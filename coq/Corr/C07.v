(* Correspondence vocabulary for C07: one case = one BARRAGE (a short list of frames) sent by the
   driver harness/cmd/h_c07 to a fresh child process hosting the real stack (IPv4 + IPv6 + ARP,
   TCP echo listeners on port 80 with one established connection, UDP sockets bound to port 53),
   with what the implementation did and how it ended.  [judge] is evaluated by vm_compute.

   mode 0: the recording link of harness/internal/netx; a frame is (protocol, size of the first
           view or 0, packet bytes); the driver works in lock step, so [obs] of every frame is
           [synchronous replies (bits); deltas of the 11 statistics counters].
   mode 1: the repo's link/fdbased endpoint over a socketpair; a frame is the raw link-layer frame
           (protocol = -1); the last frame of the list is the driver's barrier (an ICMPv6 echo
           request answered inside the dispatch goroutine); only totals are observed.
   total : counter deltas over the whole barrage (empty if the child was gone)
   udp   : payload lengths the bound sockets reported for barrage datagrams (+100000: IPv6 socket)
   echo4 : ICMPv4 echo replies to barrage frames
   outcome: 0 alive and all probes answered / 1 the child panicked / 2 it exited otherwise /
            3 it stopped answering (a call into the stack did not return) / 4 the very first
            connection, before any barrage frame, failed / 10 + bits: alive, probe k failed
   probes: echo answered (IPv4 and IPv6); new TCP connection completed and echoed; UDP datagram
           delivered to the bound socket

   corr: Model/Inbound.v, run on the same frames from the initial state, predicts for every
         frame which counters move and which synchronous reply is written (compared frame by frame
         in mode 0, summed in mode 1), the datagrams delivered to the bound sockets, the number of
         ICMPv4 echo requests queued, and - for every barrage - "no panic, dispatch loop still
         running" (Proofs/InboundP.v proves that is ALL the model ever predicts), which must agree
         with outcome 0.
   spec: written from the property text alone: the stack must be alive and all three probes
         answered; anything else violates the property, with the barrage as the replay. *)
From Coq Require Import ZArith Bool List String.
From Coq Require Export Uint63.
From NP Require Import Model.Inbound.
Import ListNotations.
Open Scope Z_scope.

(* Compact notation (the elaboration of long list / numeral literals dominates the evaluation time
   otherwise): the bytes of a frame are a list of primitive 63-bit integers, each holding up to
   seven bytes as hexadecimal digits behind a leading 1 (0x1 = no byte); the observation of a frame
   is one such integer with one hexadecimal digit per entry (entries above 15 are printed as 15;
   0x1 = no observation). *)
Inductive fr := Fr (proto chunk : Z) (bytes : list Uint63.int) (obs : Uint63.int).

(* digits of [k] bits each, read from the least significant end of the numeral (structural in
   the binary representation, so decoding is linear in the size of the frame) *)
Fixpoint dec_pos (bitsPer : nat) (p : positive) (k : nat) (cur w : Z) (acc : list Z) : list Z :=
  match p with
  | xH => acc
  | xO q => if Nat.eqb (S k) bitsPer then dec_pos bitsPer q 0 0 1 (cur :: acc)
            else dec_pos bitsPer q (S k) cur (2 * w) acc
  | xI q => if Nat.eqb (S k) bitsPer then dec_pos bitsPer q 0 0 1 (cur + w :: acc)
            else dec_pos bitsPer q (S k) (cur + w) (2 * w) acc
  end.
Definition dec_digits (bitsPer : nat) (z : Z) : list Z :=
  match z with Zpos p => dec_pos bitsPer p 0 0 1 [] | _ => [] end.
Definition dec_bytes (l : list Uint63.int) : list Z := flat_map (fun i => dec_digits 8 (Uint63.to_Z i)) l.
Definition dec_obs (i : Uint63.int) : list Z := dec_digits 4 (Uint63.to_Z i).

Inductive case :=
  CB (mode : Z) (frames : list fr) (total udp : list Z) (echo4 outcome : Z) (probes : list bool) (note : string).

(* the stack the child builds *)
Definition cfg0 : config :=
  mkCfg [10;0;0;1] [253;0;0;0;0;0;0;0;0;0;0;0;0;0;0;1] [2;0;0;0;0;1] [80] [80] [53] [53].
Definition peerMAC : list Z := [2;0;0;0;0;2].

Definition to_in (mode : Z) (f : fr) : frame_in :=
  match f with Fr proto chunk b _ => if mode =? 1 then FdFrame (dec_bytes b) else NetxPacket proto chunk (dec_bytes b) end.

Fixpoint count (i : Z) (l : list Z) : Z :=
  match l with [] => 0 | x :: t => (if x =? i then 1 else 0) + count i t end.
Definition nCounters : list Z := [0;1;2;3;4;5;6;7;8;9;10].
Definition vec (o : out) : list Z := map (fun i => count i (o_ev o)) nCounters.
Fixpoint zlist_eqb (a b : list Z) : bool :=
  match a, b with
  | [], [] => true
  | x :: a', y :: b' => (x =? y) && zlist_eqb a' b'
  | _, _ => false
  end.
Fixpoint vadd (a b : list Z) : list Z :=
  match a, b with
  | x :: a', y :: b' => (x + y) :: vadd a' b'
  | _, _ => []
  end.
Definition vsum (l : list (list Z)) : list Z := fold_left vadd l (map (fun _ => 0) nCounters).

(* the two bound sockets are read by two goroutines: only the order within a family is meaningful *)
Definition by_family (l : list Z) : list Z :=
  filter (fun x => x <? 100000) l ++ filter (fun x => 100000 <=? x) l.

(* mode 0: every frame's observation equals the model's *)
Fixpoint frames_agree (fs : list fr) (os : list out) : bool :=
  match fs, os with
  | [], [] => true
  | Fr _ _ _ obs :: fs', o :: os' => zlist_eqb (dec_obs obs) (o_react o :: vec o) && frames_agree fs' os'
  | _, _ => false
  end.

Definition corr (c : case) : Z :=
  match c with
  | CB mode frames total udp echo4 outcome probes _ =>
      match run cfg0 peerMAC state0 (map (to_in mode) frames) with
      | None => if outcome =? 1 then 0 else 1            (* the model predicts a panic: never happens (InboundP) *)
      | Some (cont, _, os) =>
          if negb cont then (if (10 <=? outcome) || (outcome =? 3) then 0 else 1)   (* likewise: predicted "loop stopped" *)
          else if negb (outcome =? 0) then 1
          else if (mode =? 0) && negb (frames_agree frames os) then 2
          else if negb (zlist_eqb total (vsum (map vec os))) then 3
          else if negb (zlist_eqb (by_family udp) (by_family (flat_map o_udp os))) then 4
          else let q := fold_left Z.add (map o_echo4 os) 0 in
               if (q <? echo4) || ((q <=? 10) && negb (q =? echo4)) then 5 else 0
      end
  end.

(* the property monitor: independent of the model *)
Definition spec (c : case) : Z :=
  match c with
  | CB _ _ _ _ _ outcome probes _ =>
      if (outcome =? 0) && forallb (fun b => b) probes && (List.length probes =? 3)%nat then 0 else 1
  end.

(* 0 = nothing was sent; otherwise the deepest branch class the model sees in the barrage *)
Definition tag (c : case) : Z :=
  match c with
  | CB mode frames _ _ _ _ _ _ =>
      match frames with
      | [] => 0
      | _ => match run cfg0 peerMAC state0 (map (to_in mode) frames) with
             | Some (_, _, os) => fold_left Z.max (map o_cls os) 1
             | None => 99
             end
      end
  end.

Definition judge (c : case) : list Z := [corr c; spec c; tag c].
Definition judge_all (cs : list case) : list Z := flat_map judge cs.
