(* Correspondence vocabulary for C20.  One case = one call (or one scripted exchange) of the real
   HTTP / WebSocket code with everything it returned.  Byte strings are written (B n [w1;w2;..])
   with 32-byte big-endian words.  [judge] is evaluated by vm_compute. *)
From Coq Require Import String.
From Coq Require Import ZArith List Bool.
From NP Require Import Model.Http Model.Base64 Model.Ws Proofs.HttpP.
Import ListNotations.
Open Scope Z_scope.

(* ---- byte string literals ---- *)
(* the bytes of a positive, most significant first, without leading zero bytes (bit peeling:
   linear in the size of the literal, no big-number division) *)
Fixpoint pbytes (p : positive) (wt cur : Z) (acc : list Z) : list Z :=
  match p with
  | xH => (cur + wt) :: acc
  | xO q => if wt =? 128 then pbytes q 1 0 (cur :: acc) else pbytes q (2 * wt) cur acc
  | xI q => if wt =? 128 then pbytes q 1 0 ((cur + wt) :: acc) else pbytes q (2 * wt) (cur + wt) acc
  end.
(* a word of k bytes, big endian *)
Definition unpack (k : nat) (w : Z) : list Z :=
  let bs := match w with Zpos p => pbytes p 1 0 [] | _ => [] end in
  repeat 0 (k - length bs) ++ bs.
Fixpoint B (n : Z) (ws : list Z) : list Z :=
  match ws with
  | [] => []
  | [w] => unpack (Z.to_nat n) w
  | w :: t => unpack 32 w ++ B (n - 32) t
  end.

(* (PAT n seed): the n pattern bytes the driver generated from seed (same recurrence as
   harness/cmd/h_c20 pat.bytes); used for large payloads CHOSEN by the driver only *)
Fixpoint pat_from (n : nat) (x : Z) : list Z :=
  match n with
  | O => []
  | S k => let x' := (x * 1103515245 + 12345) mod 2^31 in (x' / 2^16) mod 256 :: pat_from k x'
  end.
Definition PAT (n seed : Z) : list Z := pat_from (Z.to_nat n) seed.

(* (IDX n idx): message number idx of a burst, n bytes that identify the message and the offset
   (same formula as harness/cmd/h_c20 idxBytes) *)
Fixpoint idx_from (n : nat) (j idx : Z) : list Z :=
  match n with
  | O => []
  | S k => (idx * 61 + j + (j / 256) * 13) mod 256 :: idx_from k (j + 1) idx
  end.
Definition IDX (n idx : Z) : list Z := idx_from (Z.to_nat n) 0 idx.

(* the driver writes requests as (RQ method_raw method uri version_raw version headers body) *)
Definition RQ := mkReq.

Inductive fdesc := FD (b0 : Z) (key : list Z) (cls lenv : Z) (payload : list Z).
Inductive ires := IOk (p : list Z) | IErr (code : Z).
Definition route := (list Z * list Z * list Z)%type.   (* pattern, End(body), Error codes *)

Inductive case :=
| CPanic (what : Z)
| CMatch (buf d a b : list Z)
| CParse (st0 : Z) (raw : list Z) (r : request) (st : Z)
| CSend (m u : list Z) (hs : hdrs) (b : list Z) (ord : list Z) (raw : list Z)
| CResp (vraw : list Z) (st : Z) (hs : hdrs) (eb : list Z) (ord : list Z) (raw : list Z)
        (cli : request) (cst : Z)
| CRound (m path ip : list Z) (port : Z) (extra : hdrs) (b : list Z) (hs : hdrs) (ord1 : list Z)
         (raw : list Z) (rt : list route) (invoked ninv : Z) (seen : request) (st : Z) (rh : hdrs)
         (ord2 : list Z) (written : list Z) (cli : request) (cst : Z)
| CReg (pats : list (list Z)) (res : list bool)
| CWsEnc (p out : list Z)
| CWsStream (fs : list fdesc) (cut n slen ssum : Z) (res : list ires) (rest closed : Z)
| CWsLoop (msgs : list (list Z)) (res : list ires) (rest : Z)
| CMask (key b out : list Z)
| CAccept (key digest acc : list Z)
| CTok (h v : list Z) (r : bool)
| CUpgrade (m : list Z) (hs : hdrs) (digest : list Z) (st0 : Z) (ok : bool) (written : list Z) (st : Z)
  (* end to end over the stack's own TCP (loopback NIC) *)
| CE2E (m path : list Z) (hs : hdrs) (b : list Z) (rt : list route) (invoked ninv : Z)
       (seen : request) (cli : request) (cst : Z) (result : list Z)
| CWsE2E (key digest acc : list Z) (c2s : list (list Z * list Z)) (s2c : list (list Z))
         (srv_got cli_got : list ires)
  (* a burst of messages in one direction (0: client -> server, 1: server -> client) over one
     upgraded connection, written back to back, read only after the last one was written *)
| CWsBurst (dir : Z) (msgs : list (list Z)) (got : list ires).

(* ---- helpers ---- *)
Definition b2z (b : bool) : Z := if b then 0 else 1.
Definition zlenb (l : list Z) := Z.of_nat (length l).

Definition hdrs_eq (impl mdl : hdrs) : bool :=
  (Nat.eqb (length impl) (length mdl))
  && forallb (fun kv => match hlookup (fst kv) mdl with Some v => beq v (snd kv) | None => false end) impl.

Definition req_eq (a m : request) : bool :=
  beq (method_raw a) (method_raw m) && (method a =? method m) && beq (uri a) (uri m)
  && beq (version_raw a) (version_raw m) && (version a =? version m)
  && hdrs_eq (headers a) (headers m) && beq (body a) (body m).

Definition permute (ord : list Z) (hs : hdrs) : hdrs :=
  map (fun i => nth (Z.to_nat i) hs ([], [])) ord.
Definition is_perm (ord : list Z) (n : nat) : bool :=
  Nat.eqb (length ord) n && forallb (fun i => existsb (Z.eqb (Z.of_nat i)) ord) (seq 0 n).

Fixpoint enum_from {A} (i : Z) (l : list A) : list (Z * A) :=
  match l with [] => [] | x :: t => (i, x) :: enum_from (i + 1) t end.

Definition mux_of (rt : list route) : mux (Z * route) :=
  fold_left (fun m ir => match handle_func m (fst (fst (snd ir))) ir with Some m' => m' | None => m end)
            (enum_from 0 rt) [].
Definition run_route (ir : Z * route) (_ : request) : hresult :=
  mkHR (snd (fst (snd ir))) (snd (snd ir)).

Definition ires_of (r : wres) : ires :=
  match r with
  | WOk p => IOk p | WErrRead => IErr 1 | WErrFrag => IErr 2 | WErrClose => IErr 3
  | WErrType => IErr 4 | WPanic => IErr 5
  end.
Definition ires_eq (a b : ires) : bool :=
  match a, b with
  | IOk p, IOk q => beq p q
  | IErr x, IErr y => x =? y
  | _, _ => false
  end.
Fixpoint all2 {A} (f : A -> A -> bool) (a b : list A) : bool :=
  match a, b with
  | [], [] => true
  | x :: a', y :: b' => f x y && all2 f a' b'
  | _, _ => false
  end.

(* ---- frames as the driver builds them (written here from RFC 6455 5.2, not from the model) ---- *)
Fixpoint be_bytes (k : nat) (v : Z) (acc : list Z) : list Z :=
  match k with O => acc | S k' => be_bytes k' (v / 256) (v mod 256 :: acc) end.
Fixpoint xor_key (key : list Z) (i : Z) (p : list Z) : list Z :=
  match p with
  | [] => []
  | x :: t => Z.lxor x (nth (Z.to_nat (i mod 4)) key 0) :: xor_key key (i + 1) t
  end.
Definition fd_bytes (f : fdesc) : list Z :=
  let '(FD b0 key cls lenv payload) := f in
  let mb := if isnil key then 0 else 128 in
  [b0]
  ++ (if cls =? 0 then [mb + lenv mod 128]
      else if cls =? 1 then (mb + 126) :: be_bytes 2 lenv []
      else (mb + 127) :: be_bytes 8 lenv [])
  ++ (if isnil key then payload else key ++ xor_key key 0 payload).
Definition fd_wellformed (f : fdesc) : bool :=
  let '(FD b0 key cls lenv payload) := f in
  (b0 =? 129) && (lenv =? zlenb payload)
  && ((cls =? 0) && (lenv <=? 125) || (cls =? 1) && (lenv <? 65536) || (cls =? 2) && (lenv <? 2^63))
  && (isnil key || Nat.eqb (length key) 4).
Definition checksum (s : list Z) : Z := fold_left (fun a x => (a * 31 + x) mod 2^32) s 0.

(* results must be [IOk payload] for every leading well-formed text frame that is completely in
   the stream, in order, as long as reads are issued *)
Fixpoint stream_spec (fs : list fdesc) (res : list ires) (n avail : Z) : Z :=
  match fs with
  | [] => 0
  | f :: fs' =>
      let size := zlenb (fd_bytes f) in
      if negb (fd_wellformed f) || (avail <? size) || (n <=? 0) then 0
      else match res with
           | IOk p :: res' =>
               let '(FD _ _ _ _ payload) := f in
               if beq p payload then stream_spec fs' res' (n - 1) (avail - size) else 1
           | _ => 1
           end
  end.

Fixpoint find_route (path : list Z) (i : Z) (rt : list route) : option (Z * route) :=
  match rt with
  | [] => None
  | r :: t => if beq (fst (fst r)) path then Some (i, r) else find_route path (i + 1) t
  end.

(* decimal value of a digit string, -1 if it is not one *)
Definition dec_val (s : list Z) : Z :=
  if isnil s || negb (forallb (fun c => (48 <=? c) && (c <=? 57)) s) then -1
  else fold_left (fun a c => a * 10 + (c - 48)) s 0.

(* what the property promises about one request/response exchange whose request is in G.
   2 = known pattern C20-error-noop: the handler called Error(c), c <> 200, the client got 200. *)
Definition exchange_spec (m path : list Z) (hs : hdrs) (b : list Z) (rt : list route)
           (invoked ninv : Z) (seen cli : request) : Z :=
  let m' := if isnil m then s2b "GET" else m in
  if negb (Gb m' path hs) then 0
  else match find_route path 0 rt with
       | None => if (invoked =? -1) && (ninv =? 0) then 0 else 1
       | Some (i, (_, rbody, errs)) =>
           if negb ((invoked =? i) && (ninv =? 1) && beq (method_raw seen) m' && beq (uri seen) path
                    && hdrs_eq (headers seen) hs && beq (body seen) b) then 1
           else if existsb (fun c => negb (c =? 200)) errs then
             (if dec_val (uri cli) =? 200 then 2
              else if existsb (fun c => c =? dec_val (uri cli)) errs then 0 else 1)
           else if (dec_val (uri cli) =? 200)
                   && beq (body cli) (if isnil rbody then default_success_msg else rbody) then 0
           else 1
       end.

Definition first_ok (d a : list Z) : bool := negb (contains d (a ++ removelast d)).

Definition ws_enc_ok (p out : list Z) : bool :=
  let len := zlenb p in
  match out with
  | b0 :: b1 :: t =>
      (b0 =? 129)
      && (if len <=? 125 then (b1 =? len) && beq t p
          else if len <=? 65535 then (b1 =? 126) && beq (firstn 2 t) (be_bytes 2 len []) && beq (skipn 2 t) p
          else (b1 =? 127) && beq (firstn 8 t) (be_bytes 8 len []) && beq (skipn 8 t) p)
  | _ => false
  end.

Definition upgrade_resp_ok (digest written : list Z) : bool :=
  let pre := s2b "HTTP/1.1 101 Switching Protocols" ++ CRLF ++ s2b "Upgrade: websocket" ++ CRLF
             ++ s2b "Connection: Upgrade" ++ CRLF ++ s2b "Sec-WebSocket-Accept: " in
  has_prefix pre written
  && (let rest := skipn (length pre) written in
      match b64_decode (firstn (length rest - 4) rest) with
      | Some d => beq d digest && beq (skipn (length rest - 4) rest) (CRLF ++ CRLF)
      | None => false
      end).

(* ---- correspondence: 0 = the model reproduces what the implementation returned ---- *)
Definition corr (c : case) : Z :=
  match c with
  | CPanic _ => 1
  | CMatch buf d a b => let '(a', b') := match_until buf d in b2z (beq a a' && beq b b')
  | CParse st0 raw r st => let '(r', st') := parse st0 raw in b2z (req_eq r r' && (st =? st'))
  | CSend m u hs b ord raw =>
      b2z (is_perm ord (length hs) && beq raw (send m u (permute ord hs) b))
  | CResp vraw st hs eb ord raw cli cst =>
      let '(c', cs') := client_parse raw in
      b2z (is_perm ord (length hs) && beq raw (build_response vraw st (permute ord hs) eb)
           && req_eq cli c' && (cst =? cs'))
  | CRound m path ip port extra b hs ord1 raw rt invoked ninv seen st rh ord2 written cli cst =>
      let hs_m := set_headers extra (client_default_headers (ip ++ [58] ++ itoa port)) in
      let sv := serve run_route (mux_of rt) raw in
      let '(c', cs') := client_parse written in
      b2z (hdrs_eq hs hs_m
           && is_perm ord1 (length hs) && beq raw (send m path (permute ord1 hs) b)
           && match sv_invoked sv with
              | None => (invoked =? -1) && (ninv =? 0)
              | Some ir => (invoked =? fst ir) && (ninv =? 1)
              end
           && req_eq seen (sv_request sv) && (st =? sv_status sv) && hdrs_eq rh (sv_headers sv)
           && is_perm ord2 (length rh) && beq written (served_bytes sv (permute ord2 rh))
           && req_eq cli c' && (cst =? cs'))
  | CReg pats res =>
      let step := fun (acc : mux unit * list bool) p =>
                    match handle_func (fst acc) p tt with
                    | Some m' => (m', snd acc ++ [false])
                    | None => (fst acc, snd acc ++ [true])
                    end in
      b2z (all2 Bool.eqb res (snd (fold_left step pats ([], []))))
  | CWsEnc p out => b2z (beq out (ws_encode p))
  | CWsStream fs cut n slen ssum res rest closed =>
      let full := flat_map fd_bytes fs in
      let stream := firstn (Z.to_nat (zlenb full - cut)) full in
      let '(rm, sm) := ws_read_many (Z.to_nat n) stream in
      b2z ((zlenb stream =? slen) && (checksum stream =? ssum)
           && all2 ires_eq res (map ires_of rm) && (rest =? zlenb sm)
           && (closed =? (if existsb (fun r => ires_eq r (IErr 3)) res then 1 else 0)))
  | CWsLoop msgs res rest =>
      let '(rm, sm) := ws_read_many (length msgs) (flat_map ws_encode msgs) in
      b2z (all2 ires_eq res (map ires_of rm) && (rest =? zlenb sm))
  | CMask key b out => b2z (beq out (mask_bytes key b))
  | CAccept key digest acc => b2z (beq acc (compute_accept_key (fun _ => digest) key))
  | CTok h v r => b2z (Bool.eqb r (token_list_contains h v))
  | CUpgrade m hs digest st0 ok written st =>
      let r := mkReq m 0 [] [] 0 hs [] in
      match upgrade (fun _ => digest) r st0 with
      | (Some w, st') => b2z (ok && beq written w && (st =? st'))
      | (None, st') => b2z (negb ok && isnil written && (st =? st'))
      end
  | CE2E m path hs b rt invoked ninv seen cli cst result =>
      let raw := send m path hs b in
      let sv := serve run_route (mux_of rt) raw in
      let '(c', cs') := client_parse (served_bytes sv (sv_headers sv)) in
      (* the request is visible to the driver only through the handler's arguments *)
      b2z (match sv_invoked sv with
           | None => (invoked =? -1) && (ninv =? 0)
           | Some ir => (invoked =? fst ir) && (ninv =? 1) && req_eq seen (sv_request sv)
           end
           && req_eq cli c' && (cst =? cs') && beq result (body c'))
  | CWsE2E key digest acc c2s s2c srv_got cli_got =>
      let up := flat_map (fun kp => if isnil (fst kp) then ws_encode (snd kp)
                                    else ws_encode_masked (fst kp) (snd kp)) c2s in
      let down := flat_map ws_encode s2c in
      b2z (beq acc (compute_accept_key (fun _ => digest) key)
           && all2 ires_eq srv_got (map ires_of (fst (ws_read_many (length c2s) up)))
           && all2 ires_eq cli_got (map ires_of (fst (ws_read_many (length s2c) down))))
  | CWsBurst dir msgs got =>
      b2z (all2 ires_eq got (map ires_of (fst (ws_read_many (length msgs) (flat_map ws_encode msgs)))))
  end.

(* ---- property monitor on the implementation's outputs (written from the property text) ---- *)
Definition spec (c : case) : Z :=
  match c with
  | CPanic _ => 1
  | CMatch buf d a b =>
      (* strings.Index semantics: split at the FIRST occurrence, or ("","") when there is none *)
      if contains d buf then b2z (beq buf (a ++ d ++ b) && (isnil d || first_ok d a))
      else b2z (isnil a && isnil b)
  | CParse _ _ _ _ => 0
  | CSend _ _ _ _ _ _ => 0
  | CResp vraw st hs eb ord raw cli cst =>
      (* a response with a known reason phrase comes back through the client's (request) parser:
         status in the uri position, body and headers intact *)
      if uri_ok vraw && forallb hdr_ok hs && keys_distinct hs && (0 <=? st) && negb (isnil (version_raw cli))
      then b2z ((dec_val (uri cli) =? st) && beq (body cli) eb && hdrs_eq (headers cli) hs
                && beq (method_raw cli) vraw)
      else 0
  | CRound m path ip port extra b hs ord1 raw rt invoked ninv seen st rh ord2 written cli cst =>
      exchange_spec m path hs b rt invoked ninv seen cli
  | CReg _ _ => 0
  | CWsEnc p out => b2z (ws_enc_ok p out)
  | CWsStream fs cut n slen ssum res rest closed => stream_spec fs res n slen
  | CWsLoop msgs res rest => b2z (all2 ires_eq res (map IOk msgs) && (rest =? 0))
  | CMask key b out => b2z (beq out (xor_key key 0 b))
  | CAccept key digest acc =>
      (* RFC 6455 4.2.2: base64 of the SHA-1 of key ++ GUID; the digest is the driver's
         crypto/sha1 value, base64 is checked with the RFC 4648 decoder *)
      match b64_decode acc with
      | Some d => b2z (beq d digest && (zlenb acc =? 28))
      | None => 1
      end
  | CTok _ _ _ => 0
  | CUpgrade m hs digest st0 ok written st =>
      (* judged only where the Connection header is unambiguous *)
      let conn := get_header (s2b "Connection") hs in
      let conn_yes := beq conn (s2b "Upgrade") || beq conn (s2b "upgrade") || beq conn (s2b "keep-alive, Upgrade") in
      let conn_no := beq conn (s2b "keep-alive") || isnil conn in
      let others := beq m (s2b "GET") && beq (get_header (s2b "Sec-WebSocket-Version") hs) (s2b "13")
                    && beq (get_header (s2b "Upgrade") hs) (s2b "websocket")
                    && negb (isnil (get_header (s2b "Sec-WebSocket-Key") hs)) in
      if others && conn_yes then b2z (ok && upgrade_resp_ok digest written)
      else if negb others || conn_no then b2z (negb ok && isnil written)
      else 0
  | CE2E m path hs b rt invoked ninv seen cli cst result =>
      let e := exchange_spec m path hs b rt invoked ninv seen cli in
      if e =? 0 then b2z (beq result (body cli)) else e
  | CWsE2E key digest acc c2s s2c srv_got cli_got =>
      match b64_decode acc with
      | Some d =>
          b2z (beq d digest && all2 ires_eq srv_got (map (fun kp => IOk (snd kp)) c2s)
               && all2 ires_eq cli_got (map IOk s2c))
      | None => 1
      end
  | CWsBurst dir msgs got =>
      (* every message arrives with exactly the bytes that were sent, in order *)
      b2z (all2 ires_eq got (map IOk msgs))
  end.

(* ---- non-triviality tag ---- *)
Definition tag (c : case) : Z :=
  match c with
  | CPanic _ => 30
  | CMatch buf _ _ _ => if isnil buf then 0 else 7
  | CParse _ raw _ _ => if isnil raw then 0 else 4
  | CSend _ _ _ _ _ _ => 5
  | CResp _ _ _ _ _ _ _ _ => 6
  | CRound m path _ _ _ _ hs _ _ _ invoked _ _ _ _ _ _ _ _ =>
      if Gb (if isnil m then s2b "GET" else m) path hs then (if invoked =? -1 then 2 else 1) else 3
  | CReg _ _ => 8
  | CWsEnc p _ => 10 + min_class (zlenb p)
  | CWsStream fs _ _ _ _ res _ _ =>
      if isnil fs then 0 else if forallb (fun r => match r with IOk _ => true | _ => false end) res then 13 else 14
  | CWsLoop _ _ _ => 15
  | CMask _ b _ => if isnil b then 0 else 16
  | CAccept _ _ _ => 17
  | CTok _ _ _ => 18
  | CUpgrade _ _ _ _ ok _ _ => if ok then 19 else 20
  | CE2E _ _ _ _ _ invoked _ _ _ _ _ => if invoked =? -1 then 22 else 21
  | CWsE2E _ _ _ _ _ _ _ => 23
  | CWsBurst dir _ _ => 24 + dir
  end.

Definition judge (c : case) : list Z := [corr c; spec c; tag c].
Definition judge_all (cs : list case) : list Z := flat_map judge cs.
