(* Shared correspondence vocabulary of the TCP properties (C01..C05): one case = one lock-step
   trace of an established connection of the real stack against the scripted peer
   (harness/internal/tcpx): the initial protocol state, and for every event the state snapshot,
   the frames emitted and the application-visible result that the IMPLEMENTATION produced.
   [trace_corr] folds Model.Tcp.step over the same events and reports the first divergence. *)
From Coq Require Import ZArith List Bool.
From NP Require Import Model.Seqnum Model.Tcp.
From NP Require Model.TcpHs Model.TcpEst.
Import ListNotations.
Open Scope Z_scope.

(* compact notation used by the driver for payloads that are slices of its two deterministic byte
   streams: wp = what the application writes, pp = what the scripted peer sends *)
(* [0; 1; ...; n-1] without building unary numbers for the elements (seq would be quadratic) *)
Fixpoint zrange_from (k : nat) (i : Z) : list Z :=
  match k with O => [] | S k' => i :: zrange_from k' (i + 1) end.
Definition zrange (n : Z) : list Z := zrange_from (Z.to_nat n) 0.
Definition wp (off n : Z) : list Z := map (fun i => ((off + i) * 7 + (off + i) / 251) mod 256) (zrange n).
Definition pp (off n : Z) : list Z := map (fun i => ((off + i) * 13 + (off + i) / 256 + 1) mod 256) (zrange n).

Record obs := mkObs { o_ev : event; o_st : tcp; o_frames : list frame; o_res : result }.

(* cfg = [iss; irs; peer MSS option (0 none); MTU; ipv6?1:0] ; peer = the byte stream the scripted
   peer sends (every data segment it injects is a slice of it at its own offset) *)
Inductive case := CTrace (cfg : list Z) (peer : list Z) (init : tcp) (steps : list obs).

Definition encB (b : bool) : Z := if b then 1 else 0.
Definition encBytes (l : list Z) : list Z := len l :: l.
Definition encW (w : wseg) : list Z := w_seq w :: w_flags w :: encBytes (w_data w).
Definition encP (p : pseg) : list Z := p_seq p :: p_flags p :: encBytes (p_data p).
Definition encF (f : frame) : list Z := f_seq f :: f_ack f :: f_flags f :: f_wnd f :: encBytes (f_data f).
Definition encList {A} (e : A -> list Z) (l : list A) : list Z := Z.of_nat (length l) :: flat_map e l.

Definition encR (r : rcvr) : list Z :=
  [rcvNxt r; rcvAcc r; rcvWndScale r; encB (rclosed r); pendUsed r; pendSize r] ++ encList encP (pending r).
Definition encS (s : sndr) : list Z :=
  [dupAck s; encB (frActive s); frFirst s; frLast s; frMaxCwnd s; cwnd s; ssthresh s; caCount s; outstanding s;
   sndWnd s; sndUna s; sndNxt s; sndNxtList s; encB (sclosed s); tstate s; rto s; maxPayload s; sndWndScale s;
   maxSentAck s; rttSeq s] ++ encList encW (wsent s) ++ encList encW (wunsent s).
Definition encT (t : tcp) : list Z :=
  encR (RC t) ++ encS (SN t) ++ encList encBytes (rcvList t) ++
  [rcvBufUsed t; rcvBufSize t; encB (rcvClosedE t); sndBufSize t; sndBufUsed t; encB (sndClosedE t); estate t; encB (tsOk t)].

Fixpoint zlist_eqb (a b : list Z) : bool :=
  match a, b with
  | [], [] => true
  | x :: a', y :: b' => (x =? y) && zlist_eqb a' b'
  | _, _ => false
  end.

Definition encRes (r : result) : list Z :=
  match r with
  | RNone => [0]
  | RCount n => [1; n]
  | RBytes b => 2 :: encBytes b
  | RErr e => [3; e]
  end.

(* index (from 1) of the first step at which model and implementation differ; 0 = none.
   Codes: 1000*k + 1 state differs, + 2 frames differ, + 3 result differs at step k. *)
Fixpoint trace_corr_from (k : Z) (t : tcp) (steps : list obs) : Z :=
  match steps with
  | [] => 0
  | o :: rest =>
      let '(t', r) := step t (o_ev o) in
      if negb (zlist_eqb (encList encF (out t')) (encList encF (o_frames o))) then 1000 * k + 2
      else if negb (zlist_eqb (encT t') (encT (o_st o))) then 1000 * k + 1
      else if negb (zlist_eqb (encRes r) (encRes (o_res o))) then 1000 * k + 3
      else trace_corr_from (k + 1) t' rest
  end.

(* the state the connection starts from, computed by the handshake model (Model/TcpHs.v) and the
   transfer function (Model/TcpEst.v) from the script's configuration:
   cfg = [iss; irs; peer MSS; link MTU (0 = 1500); IPv6?; window field of the SYN-ACK; the SYN-ACK's
          window-scale option (-1 = absent); SYN-ACK carries timestamps?; SACK-permitted?; the stack's
          SYN offered SACK?; receive buffer size; send buffer size] *)
Definition expected_init (cfg : list Z) : option tcp :=
  let g := fun i => nth i cfg 0 in
  let o := TcpHs.mkSO (g 2%nat) (g 6%nat) (negb (g 7%nat =? 0)) (negb (g 8%nat =? 0)) in
  TcpEst.active_established (g 0%nat) (g 1%nat) (g 5%nat) o (negb (g 9%nat =? 0)) (g 10%nat) (g 11%nat)
                            (if g 3%nat =? 0 then 1500 else g 3%nat) (if g 4%nat =? 0 then 20 else 40).

(* 1 = the first snapshot is not the state the handshake model establishes (only judged when the
   case carries the full configuration) *)
Definition init_corr (cfg : list Z) (init : tcp) : Z :=
  if Nat.ltb (length cfg) 12 then 0
  else match expected_init cfg with
       | Some t => if zlist_eqb (encT t) (encT init) then 0 else 1
       | None => 1
       end.

Definition trace_corr (c : case) : Z :=
  match c with
  | CTrace cfg _ init steps =>
      if init_corr cfg init =? 0 then trace_corr_from 1 init steps else 1
  end.

(* ---- helpers for the spec monitors (independent of the model's step function) ---- *)

Definition cfg_get (cfg : list Z) (i : nat) : Z := nth i cfg 0.

(* is [d] the slice of [stream] at offset [off]? *)
(* the bounds are tested first and inside an [if]: vm_compute evaluates the arguments of [andb]
   eagerly, and [Z.to_nat] of an offset near 2^32 (a segment numbered before the start of the stream)
   would build a unary number of that size *)
Definition is_slice (stream d : list Z) (off : Z) : bool :=
  if (0 <=? off) && (Z.of_nat (length d) + off <=? Z.of_nat (length stream))
  then zlist_eqb (firstn (length d) (skipn (Z.to_nat off) stream)) d
  else false.

Fixpoint is_prefix (a b : list Z) : bool :=
  match a, b with
  | [], _ => true
  | x :: a', y :: b' => (x =? y) && is_prefix a' b'
  | _ :: _, [] => false
  end.

(* bytes the application read along the trace *)
Definition reads_of (steps : list obs) : list Z :=
  flat_map (fun o => match o_res o with RBytes b => b | _ => [] end) steps.

(* bytes the application's writes were accepted for, in order *)
Definition writes_of (steps : list obs) : list Z :=
  flat_map (fun o => match o_ev o, o_res o with
                     | EWrite d, RCount n => if n <=? Z.of_nat (length d) then firstn (Z.to_nat n) d else d
                     | _, _ => [] end) steps.

Definition frames_of (steps : list obs) : list frame := flat_map o_frames steps.

Definition n_events (c : case) : Z := match c with CTrace _ _ _ s => Z.of_nat (length s) end.
